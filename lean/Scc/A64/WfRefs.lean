/-
  Scc.A64.WfRefs — C14 for AArch64: the AArch64 instance of the generic label theorem of
  Scc/Backend/ProofsRefs.lean.
  `refOps_a64`: which labels the codes returned by every method of `a64Backend` refer to (`B`, `B.cond`, `ADR`;
  `BL` goes to a runtime symbol: `blB`); memory methods refer only to the local labels `lab<n>` they define
  themselves.  One walk through memory.rs (`MW`), in the style of Scc/A64/LoaderA64Names.lean.
  `body_refs`: every label referenced by the body of a compiled program is defined in the body or is `cleanup`,
  and every `BL` goes to `print_i64` / `println_i64`.
  Proof file.
-/
import Scc.Backend.ProofsRefs
import Scc.A64.Backend
import Scc.A64.RefStep

set_option linter.unusedVariables false
set_option linter.unusedSimpArgs false

namespace Scc.A64.Wf

open Scc.AxCut Scc.Backend Scc.A64
open Scc.Backend.Refs
open Scc.X86 (Post AllP)

/-! ## the label view -/

def dfn : Code → Option String
  | .LAB l => some l
  | _ => none

/-- the label an item refers to that must be DEFINED in the text (`BL` and `.global` aside) -/
def iref : Code → Option String
  | .B l | .ADR _ l | .BEQ l | .BNE l | .BLT l | .BLE l | .BGT l | .BGE l => some l
  | _ => none

def V : View Code := ⟨dfn, iref⟩

/-- `BL` only of the two runtime symbols -/
def blB : Code → Bool
  | .BL l => isExternal l
  | _ => true

/-- plain items: no label defined, no label referenced, `BL` of a runtime symbol -/
def plB (c : Code) : Bool := blB c && (dfn c).isNone && (iref c).isNone

abbrev PL (l : List Code) : Prop := l.all plB = true

theorem pl_append {a b : List Code} : PL (a ++ b) ↔ PL a ∧ PL b := by simp [PL, List.all_append]
theorem pl_cons {c : Code} {l : List Code} : PL (c :: l) ↔ plB c = true ∧ PL l := by simp [PL, List.all_cons]
theorem pl_nil : PL [] := rfl

theorem PL.noRefs {l : List Code} (h : PL l) : NoRefs V l := by
  apply noRefs_of_forall
  intro c hc
  simp only [PL, List.all_eq_true] at h
  have := h c hc
  simp only [plB, Bool.and_eq_true, Option.isNone_iff_eq_none] at this
  exact this.2

theorem PL.bl {l : List Code} (h : PL l) : l.all blB = true := by
  simp only [PL, List.all_eq_true] at h ⊢
  intro c hc
  have := h c hc
  simp only [plB, Bool.and_eq_true] at this
  exact this.1.1

theorem pl_map_of {α : Type} (f : α → Code) (h : ∀ a, plB (f a) = true) (l : List α) : PL (l.map f) := by
  simp only [PL, List.all_map, List.all_eq_true, Function.comp]
  exact fun a _ => h a

/-! ## code.rs -/

theorem pl_moveFromRegister (t : Temporary) (r : Register) : PL (moveFromRegister t r) := by
  cases t <;> rfl
theorem pl_moveToRegister (r : Register) (t : Temporary) : PL (moveToRegister r t) := by
  cases t <;> rfl

theorem pl_remR (t a b : Register) : PL (remR t a b) := by
  unfold remR
  split
  · split
    · rfl
    · rfl
  · rfl

theorem pl_opR (o : BinOp) (t a b : Register) : PL (opR o t a b) := by
  cases o <;> first | rfl | exact pl_remR t a b

theorem pl_op (o : BinOp) (t s1 s2 : Temporary) : PL (op o t s1 s2) := by
  unfold op
  cases t <;> cases s1 <;> cases s2 <;> dsimp only <;>
    first
    | exact pl_opR _ _ _ _
    | exact pl_cons.2 ⟨rfl, pl_opR _ _ _ _⟩
    | exact pl_cons.2 ⟨rfl, pl_cons.2 ⟨rfl, pl_opR _ _ _ _⟩⟩
    | exact pl_append.2 ⟨pl_opR _ _ _ _, rfl⟩
    | exact pl_append.2 ⟨pl_cons.2 ⟨rfl, pl_opR _ _ _ _⟩, rfl⟩
    | exact pl_append.2 ⟨pl_cons.2 ⟨rfl, pl_cons.2 ⟨rfl, pl_opR _ _ _ _⟩⟩, rfl⟩

theorem pl_compare (a b : Temporary) : PL (compare a b) := by
  cases a <;> cases b <;> rfl

theorem pl_compareImmediate (t : Temporary) (i : Int) : PL (compareImmediate t i) := by
  cases t <;> rfl

theorem pl_jump (t : Temporary) : PL (jump t) := by cases t <;> rfl

theorem iref_branchOf (s : IfSort) (l : String) : iref (branchOf s l) = some l := by cases s <;> rfl
theorem blB_branchOf (s : IfSort) (l : String) : blB (branchOf s l) = true := by cases s <;> rfl

theorem pl_loadImmediateLoop (r : Register) (w : BitVec 64) (inv : Bool) (ig : BitVec 16) :
    ∀ (l : List Nat) (b : Bool), PL (loadImmediateLoop r w inv ig l b)
  | [], _ => rfl
  | i :: is, b => by
    unfold loadImmediateLoop
    dsimp only
    split
    · split
      · exact pl_cons.2 ⟨rfl, pl_loadImmediateLoop r w inv ig is true⟩
      · split
        · exact pl_cons.2 ⟨rfl, pl_loadImmediateLoop r w inv ig is true⟩
        · exact pl_cons.2 ⟨rfl, pl_loadImmediateLoop r w inv ig is true⟩
    · exact pl_loadImmediateLoop r w inv ig is b

theorem pl_loadImmediateRegister (r : Register) (i : Int) : PL (loadImmediateRegister r i) := by
  unfold loadImmediateRegister
  dsimp only
  split
  · rfl
  · split
    · rfl
    · exact pl_loadImmediateLoop _ _ _ _ _ _

theorem pl_loadImmediate (t : Temporary) (i : Int) : PL (loadImmediate t i) := by
  unfold loadImmediate
  cases t
  · exact pl_append.2 ⟨pl_loadImmediateRegister _ _, rfl⟩
  · exact pl_append.2 ⟨pl_loadImmediateRegister _ _, rfl⟩

theorem pl_addAndJump (t : Temporary) (i : Int) : PL (addAndJump t i) := by cases t <;> rfl

theorem pl_mov (t s : Temporary) : PL (mov t s) := by
  unfold mov
  cases s
  · exact pl_moveFromRegister _ _
  · cases t
    · exact pl_moveToRegister _ _
    · exact pl_append.2 ⟨pl_moveToRegister _ _, pl_moveFromRegister _ _⟩

theorem pl_storeTemporary (t : Temporary) (sp : Bool) : PL (storeTemporary t sp) := by cases t <;> rfl
theorem pl_restoreTemporary (t : Temporary) (sp : Bool) : PL (restoreTemporary t sp) := by cases t <;> rfl

theorem pl_saveCallerSaveRegisters (first : Nat) (L : List Nat) : PL (saveCallerSaveRegisters first L) := by
  unfold saveCallerSaveRegisters
  dsimp only
  split
  · exact pl_append.2 ⟨pl_append.2 ⟨pl_map_of _ (fun _ => rfl) _, rfl⟩, pl_map_of _ (fun _ => rfl) _⟩
  · exact pl_map_of _ (fun _ => rfl) _

theorem pl_restoreCallerSaveRegisters (first : Nat) (L : List Nat) :
    PL (restoreCallerSaveRegisters first L) := by
  unfold restoreCallerSaveRegisters
  dsimp only
  split
  · exact pl_append.2 ⟨pl_append.2 ⟨pl_map_of _ (fun _ => rfl) _, pl_map_of _ (fun _ => rfl) _⟩, rfl⟩
  · exact pl_map_of _ (fun _ => rfl) _

theorem pl_printI64G (old nl : Bool) (t : Temporary) (ctx : Ctx) : PL (printI64G old nl t ctx) := by
  unfold printI64G
  dsimp only
  simp only [pl_append]
  refine ⟨⟨⟨⟨⟨⟨?_, by decide⟩, pl_saveCallerSaveRegisters _ _⟩, by decide⟩, ?_⟩, ?_⟩,
    pl_restoreCallerSaveRegisters _ _⟩
  · cases t
    · rfl
    · exact pl_cons.2 ⟨by decide, pl_moveToRegister _ _⟩
  · cases t <;> rfl
  · cases nl <;> decide

/-! ## references of the label-taking methods -/

theorem refsTo_single {c : Code} {l : String} (h : iref c = some l) : RefsTo V l [c] := by
  intro r hr
  simpa [View.refs, V, h] using hr

theorem refsTo_of_pl_single {a : List Code} {c : Code} {l : String} (ha : PL a) (hc : iref c = some l) :
    RefsTo V l (a ++ [c]) := by
  intro r hr
  rw [Refs.refs_append, ha.noRefs, List.nil_append] at hr
  exact refsTo_single hc r hr

theorem refsTo_jumpLabelIf (s : IfSort) (a b : Temporary) (l : String) : RefsTo V l (jumpLabelIf s a b l) :=
  refsTo_of_pl_single (pl_compare a b) (iref_branchOf s l)

theorem refsTo_jumpLabelIfZero (s : IfSort) (a : Temporary) (l : String) :
    RefsTo V l (jumpLabelIfZero s a l) :=
  refsTo_of_pl_single (pl_compareImmediate a 0) (iref_branchOf s l)

theorem refsTo_loadLabel (t : Temporary) (l : String) : RefsTo V l (loadLabel t l) := by
  intro r hr
  cases t <;> simpa [loadLabel, View.refs, V, iref] using hr

/-! ## memory.rs: `BL` targets and closedness -/

/-- every `BL` goes to a runtime symbol and every referenced label is defined in the list -/
def MW (l : List Code) : Prop := l.all blB = true ∧ Closed V l

theorem PL.mw {l : List Code} (h : PL l) : MW l := ⟨h.bl, h.noRefs.closed⟩

theorem MW.nil : MW [] := pl_nil.mw

theorem MW.append {a b : List Code} (ha : MW a) (hb : MW b) : MW (a ++ b) :=
  ⟨by rw [List.all_append, ha.1, hb.1]; rfl, ha.2.append hb.2⟩

theorem MW.cons {c : Code} {l : List Code} (hc : plB c = true) (hl : MW l) : MW (c :: l) :=
  MW.append (a := [c]) (PL.mw (pl_cons.2 ⟨hc, pl_nil⟩)) hl

abbrev PostMW (m : GenM (List Code)) : Prop := Post m MW

theorem postMW_skipIfZero (cond : Register) {body : List Code} (hb : MW body) :
    PostMW (skipIfZero cond body) := by
  unfold skipIfZero
  refine Post.bind (Post.true _) fun l _ => Post.pure ?_
  refine ⟨?_, ?_⟩
  · simp only [List.all_append, Bool.and_eq_true]
    exact ⟨⟨rfl, hb.1⟩, rfl⟩
  · intro r hr
    have e1 : V.refs [Code.CMPI cond 0, Code.BEQ ("lab" ++ toString l)] = ["lab" ++ toString l] := rfl
    have e2 : V.refs [Code.LAB ("lab" ++ toString l)] = [] := rfl
    have e3 : V.labs [Code.LAB ("lab" ++ toString l)] = ["lab" ++ toString l] := rfl
    rw [Refs.refs_append, Refs.refs_append, e1, e2] at hr
    rw [Refs.labs_append, Refs.labs_append, e3]
    simp only [List.append_nil, List.singleton_append, List.mem_cons] at hr
    simp only [List.mem_append, List.mem_singleton]
    rcases hr with rfl | hr
    · exact Or.inr rfl
    · exact Or.inl (Or.inr (hb.2 r hr))

theorem postMW_ifZeroThenElse (cond : Register) {tb eb : List Code} (ht : MW tb) (he : MW eb) :
    PostMW (ifZeroThenElse cond tb eb) := by
  unfold ifZeroThenElse
  refine Post.bind (Post.true _) fun l1 _ => Post.bind (Post.true _) fun l2 _ => Post.pure ?_
  refine ⟨?_, ?_⟩
  · simp only [List.all_append, List.all_cons, List.all_nil, Bool.and_eq_true]
    exact ⟨⟨⟨⟨⟨rfl, rfl, trivial⟩, he.1⟩, rfl, rfl, trivial⟩, ht.1⟩, rfl, trivial⟩
  · intro r hr
    have e1 : V.refs [Code.CMPI cond 0, Code.BEQ ("lab" ++ toString l1)] = ["lab" ++ toString l1] := rfl
    have e2 : V.refs [Code.B ("lab" ++ toString l2), Code.LAB ("lab" ++ toString l1)] = ["lab" ++ toString l2] := rfl
    have e3 : V.refs [Code.LAB ("lab" ++ toString l2)] = [] := rfl
    have e4 : V.labs [Code.B ("lab" ++ toString l2), Code.LAB ("lab" ++ toString l1)] = ["lab" ++ toString l1] := rfl
    have e5 : V.labs [Code.LAB ("lab" ++ toString l2)] = ["lab" ++ toString l2] := rfl
    rw [Refs.refs_append, Refs.refs_append, Refs.refs_append, Refs.refs_append, e1, e2, e3] at hr
    rw [Refs.labs_append, Refs.labs_append, Refs.labs_append, Refs.labs_append, e4, e5]
    simp only [List.append_nil, List.mem_append, List.mem_singleton] at hr ⊢
    rcases hr with ((rfl | hr) | rfl) | hr
    · exact Or.inl (Or.inl (Or.inr rfl))
    · exact Or.inl (Or.inl (Or.inl (Or.inr (he.2 r hr))))
    · exact Or.inr rfl
    · exact Or.inl (Or.inr (ht.2 r hr))

theorem postMW_eraseValidObject (r : Register) : PostMW (eraseValidObject r) := by
  unfold eraseValidObject
  exact postMW_ifZeroThenElse _ (PL.mw (l := [_, _, _]) rfl) (PL.mw (l := [_, _, _]) rfl)

theorem postMW_eraseBlock (t : Temporary) : PostMW (eraseBlock t) := by
  unfold eraseBlock
  cases t with
  | register r =>
    exact Post.bind (postMW_eraseValidObject _) fun c hc =>
      postMW_skipIfZero _ (MW.append (PL.mw (l := [_, _]) rfl) hc)
  | spill p =>
    exact Post.bind (postMW_eraseValidObject _) fun c hc =>
      Post.bind (postMW_skipIfZero _ (MW.append (PL.mw (l := [_, _]) rfl) hc)) fun r hr =>
        Post.pure (MW.cons rfl hr)

theorem postMW_shareBlockN (t : Temporary) (n : Nat) : PostMW (shareBlockN t n) := by
  unfold shareBlockN
  cases t with
  | register r => exact postMW_skipIfZero _ (PL.mw (l := [_, _, _, _]) rfl)
  | spill p =>
    exact Post.bind (postMW_skipIfZero _ (PL.mw (l := [_, _, _, _]) rfl)) fun r hr =>
      Post.pure (MW.cons rfl hr)

theorem postMW_shareBlock (t : Temporary) : PostMW (shareBlock t) := postMW_shareBlockN t 1

theorem postMW_eraseFields (r : Register) : ∀ (n offset : Nat), PostMW (eraseFields r n offset)
  | 0, _ => by unfold eraseFields; exact Post.pure MW.nil
  | n + 1, offset => by
    unfold eraseFields
    exact Post.bind (postMW_eraseBlock _) fun c hc =>
      Post.bind (postMW_eraseFields r n (offset + 1)) fun rest hrest =>
        Post.pure (MW.append (MW.append (PL.mw (l := [_, _]) rfl) hc) hrest)

theorem postMW_acquireBlock (t : Temporary) : PostMW (acquireBlock t) := by
  unfold acquireBlock
  dsimp only
  have hfirst : ∀ (u : Temporary), PL (match u with
      | .register newBlockRegister => [Code.MOVR newBlockRegister HEAP]
      | .spill newBlockPosition => [Code.MOVR TEMP HEAP, Code.STR HEAP .sp (stackOffset newBlockPosition)]) := by
    intro u; cases u <;> rfl
  have hinit : ∀ (u : Temporary), plB (match u with
      | .register newBlockRegister => Code.STR .xzr newBlockRegister REFERENCE_COUNT_OFFSET
      | .spill _ => Code.STR .xzr TEMP REFERENCE_COUNT_OFFSET) = true := by
    intro u; cases u <;> rfl
  refine Post.bind (postMW_eraseFields _ _ _) fun erased he => ?_
  refine Post.bind (postMW_ifZeroThenElse _ (PL.mw (l := [_, _]) rfl)
    (MW.append (PL.mw (l := [_, _, _]) rfl) he)) fun inner hi => ?_
  refine Post.bind (postMW_ifZeroThenElse _
    (MW.append (PL.mw (l := [_, _, _]) rfl) hi)
    (PL.mw (pl_cons.2 ⟨rfl, pl_cons.2 ⟨hinit t, pl_nil⟩⟩))) fun outer ho => ?_
  exact Post.pure (MW.append (PL.mw (pl_append.2 ⟨hfirst t, rfl⟩)) ho)

theorem pl_releaseBlock (r : Register) : PL (releaseBlock r) := rfl

theorem pl_storeZero (r : Register) (off : Nat) : PL (storeZero r off) := rfl

theorem pl_storeZeros (k : Nat) (r : Register) : PL (storeZeros k r) := by
  unfold storeZeros
  simp only [PL, List.all_eq_true]
  intro c hc
  obtain ⟨o, _, hco⟩ := List.mem_flatMap.1 hc
  simp only [storeZero, List.mem_singleton] at hco
  subst hco; rfl

theorem postPL_storeField (n : TempNum) (ctx : Ctx) (r : Register) (off : Nat) : Post (storeField n ctx r off) PL := by
  unfold storeField
  refine Post.bind (Post.true _) fun t _ => ?_
  cases t <;> exact Post.pure rfl

theorem postPL_loadField (n : TempNum) (ctx : Ctx) (r : Register) (off : Nat) : Post (loadField n ctx r off) PL := by
  unfold loadField
  refine Post.bind (Post.true _) fun t _ => ?_
  cases t <;> exact Post.pure rfl

theorem postPL_storeValue (b : Binding) (ctx : Ctx) (r : Register) (off : Nat) : Post (storeValue b ctx r off) PL := by
  unfold storeValue
  refine Post.bind (postPL_storeField _ _ _ _) fun c1 h1 => ?_
  split
  · exact Post.pure (pl_append.2 ⟨h1, pl_storeZero _ _⟩)
  · exact Post.bind (postPL_storeField _ _ _ _) fun c2 h2 => Post.pure (pl_append.2 ⟨h1, h2⟩)

theorem postMW_loadValue (b : Binding) (ctx : Ctx) (r : Register) (off : Nat) (mode : LoadMode) :
    PostMW (loadValue b ctx r off mode) := by
  unfold loadValue
  refine Post.bind (postPL_loadField _ _ _ _) fun c1 h1 => ?_
  split
  · refine Post.bind (postPL_loadField _ _ _ _) fun c2 h2 => ?_
    have hjp : ∀ reg : Register, PostMW (if (mode == LoadMode.share) = true then do
          let c3 ← shareBlock (.register reg)
          pure (c1 ++ c2 ++ c3)
        else pure (c1 ++ c2)) := by
      intro reg
      split
      · exact Post.bind (postMW_shareBlock _) fun c3 h3 =>
          Post.pure (MW.append (PL.mw (pl_append.2 ⟨h1, h2⟩)) h3)
      · exact Post.pure (PL.mw (pl_append.2 ⟨h1, h2⟩))
    refine Post.bind (Post.true _) fun t _ => ?_
    cases t <;> dsimp only <;> exact Post.bind (Post.true _) fun r _ => hjp r
  · exact Post.pure h1.mw

theorem postPL_storeValuesLoop (ctx : Ctx) (r : Register) : ∀ (l : List Binding) (ff : Nat),
    Post (storeValuesLoop ctx r l ff) (fun res => PL res.1)
  | [], ff => by unfold storeValuesLoop; exact Post.pure pl_nil
  | b :: rest, ff => by
    unfold storeValuesLoop
    dsimp only
    split
    · exact Post.throw
    · refine Post.bind (postPL_storeValue _ _ _ _) fun c hc => ?_
      refine Post.bind (postPL_storeValuesLoop ctx r rest (ff - 1)) fun res hres => ?_
      obtain ⟨cs, ff'⟩ := res
      exact Post.pure (pl_append.2 ⟨hc, hres⟩)

theorem postPL_storeValues (toStore ctx : Ctx) (r : Register) (ff : Nat) : Post (storeValues toStore ctx r ff) PL := by
  unfold storeValues
  refine Post.bind (postPL_storeValuesLoop _ _ _ _) fun res hres => ?_
  obtain ⟨cs, ff'⟩ := res
  refine Post.pure ?_
  simp only [pl_append]
  refine ⟨⟨⟨by decide, hres⟩, ?_⟩, pl_storeZeros _ _⟩
  split
  · decide
  · rfl

theorem postMW_loadValuesLoop (ctx : Ctx) (r : Register) (mode : LoadMode) : ∀ (l : List Binding) (ff : Nat),
    PostMW (loadValuesLoop ctx r mode l ff)
  | [], ff => by unfold loadValuesLoop; exact Post.pure MW.nil
  | b :: rest, ff => by
    unfold loadValuesLoop
    dsimp only
    split
    · exact Post.throw
    · refine Post.bind (postMW_loadValue _ _ _ _ _) fun c hc => ?_
      refine Post.bind (postMW_loadValuesLoop ctx r mode rest (ff - 1)) fun cs hcs => ?_
      exact Post.pure (MW.append hc hcs)

theorem postMW_loadValues (toLoad ctx : Ctx) (r : Register) (ff : Nat) (mode : LoadMode) :
    PostMW (loadValues toLoad ctx r ff mode) := by
  unfold loadValues
  exact Post.bind (postMW_loadValuesLoop _ _ _ _ _) fun cs hcs =>
    Post.pure (MW.cons (by decide) hcs)

theorem postPL_storeLink (pos : BlockPosition) (ctx : Ctx) : Post (storeLink pos ctx) PL := by
  unfold storeLink
  split
  · exact Post.bind (postPL_storeField _ _ _ _) fun c hc => Post.pure (pl_cons.2 ⟨by decide, hc⟩)
  · exact Post.pure pl_nil

theorem postPL_loadLink (pos : BlockPosition) (ctx : Ctx) (r : Register) : Post (loadLink pos ctx r) PL := by
  unfold loadLink
  split
  · exact Post.bind (postPL_loadField _ _ _ _) fun c hc => Post.pure (pl_cons.2 ⟨by decide, hc⟩)
  · exact Post.pure pl_nil

theorem postMW_storeFields : ∀ (fuel : Nat) (toStore ctx : Ctx) (pos : BlockPosition),
    PostMW (storeFields fuel toStore ctx pos)
  | 0, _, _, _ => by unfold storeFields; exact Post.throw
  | fuel + 1, toStore, ctx, pos => by
    unfold storeFields
    split
    · split
      · exact Post.bind (Post.true _) fun t _ =>
          Post.pure (PL.mw (pl_cons.2 ⟨by decide, pl_loadImmediate _ _⟩))
      · exact Post.pure MW.nil
    · dsimp only
      refine Post.bind (postPL_storeLink _ _) fun c1 h1 => ?_
      refine Post.bind (postPL_storeValues _ _ _ _) fun c3 h3 => ?_
      refine Post.bind (Post.true _) fun t _ => ?_
      refine Post.bind (postMW_acquireBlock _) fun c4 h4 => ?_
      refine Post.bind (postMW_storeFields fuel _ _ _) fun c5 h5 => ?_
      refine Post.pure ?_
      refine MW.append (MW.append (PL.mw ?_) h4) h5
      simp only [pl_append]
      refine ⟨⟨⟨h1, ?_⟩, h3⟩, by decide⟩
      split
      · decide
      · rfl

theorem postMW_store (toStore ctx : Ctx) : PostMW (store toStore ctx) := postMW_storeFields _ _ _ _

theorem postMW_loadFields : ∀ (fuel : Nat) (toLoad ctx : Ctx) (pos : BlockPosition) (mode : LoadMode)
    (freed : Bool), Post (loadFields fuel toLoad ctx pos mode freed) (fun res => MW res.1)
  | 0, _, _, _, _, _ => by unfold loadFields; exact Post.throw
  | fuel + 1, toLoad, ctx, pos, mode, freed => by
    unfold loadFields
    split
    · exact Post.pure MW.nil
    · dsimp only
      refine Post.bind (postMW_loadFields fuel _ _ _ _ _) fun res hres => ?_
      obtain ⟨c0, freed'⟩ := res
      dsimp only
      refine Post.bind (Post.true _) fun mb _ => ?_
      cases mb with
      | register r =>
        dsimp only
        refine Post.bind (postPL_loadLink _ _ _) fun c2 h2 => ?_
        refine Post.bind (postMW_loadValues _ _ _ _ _) fun c3 h3 => Post.pure ?_
        refine MW.append (MW.append (MW.append hres (PL.mw ?_)) h2.mw) h3
        split
        · exact pl_cons.2 ⟨by decide, pl_releaseBlock _⟩
        · rfl
      | spill p =>
        dsimp only
        refine Post.bind (postPL_loadLink _ _ _) fun c2 h2 => ?_
        refine Post.bind (postMW_loadValues _ _ _ _ _) fun c3 h3 => Post.pure ?_
        refine MW.append (MW.append (MW.append (MW.append (MW.append hres (PL.mw ?_)) (PL.mw ?_)) h2.mw) h3) (PL.mw ?_)
        · split
          · exact pl_cons.2 ⟨by decide, rfl⟩
          · rfl
        · refine pl_cons.2 ⟨rfl, ?_⟩
          split
          · exact pl_cons.2 ⟨by decide, pl_releaseBlock _⟩
          · rfl
        · split
          · exact pl_cons.2 ⟨by decide, rfl⟩
          · rfl

theorem postMW_loadRegister (r : Register) (toLoad ctx : Ctx) : PostMW (loadRegister r toLoad ctx) := by
  unfold loadRegister
  refine Post.bind (postMW_loadFields _ _ _ _ _ _) fun res1 h1 => ?_
  obtain ⟨cThen, f1⟩ := res1
  dsimp only
  refine Post.bind (postMW_loadFields _ _ _ _ _ _) fun res2 h2 => ?_
  obtain ⟨cElse, f2⟩ := res2
  dsimp only
  refine Post.bind (postMW_ifZeroThenElse _ (MW.cons (by decide) h1)
    (MW.append (PL.mw (l := [_, _, _]) rfl) h2)) fun c hc => ?_
  exact Post.pure (MW.cons (by decide) hc)

theorem postMW_load (toLoad ctx : Ctx) : PostMW (load toLoad ctx) := by
  unfold load
  split
  · exact Post.pure MW.nil
  · refine Post.bind (Post.true _) fun mb _ => ?_
    cases mb with
    | register r =>
      exact Post.bind (postMW_loadRegister _ _ _) fun c hc =>
        Post.pure (MW.append (PL.mw (l := [_, _]) rfl) hc)
    | spill p =>
      exact Post.bind (postMW_loadRegister _ _ _) fun c hc =>
        Post.pure (MW.append (PL.mw (l := [_, _, _]) rfl) hc)

/-! ## the instance -/

theorem refOps_a64 : RefOps a64Backend V where
  comment := fun _ => ⟨rfl, rfl⟩
  label := fun _ => ⟨rfl, rfl⟩
  jump := fun t => (pl_jump t).noRefs
  jumpLabel := fun l => refsTo_single (c := .B l) rfl
  jumpLabelFixed := fun l => refsTo_single (c := .B l) rfl
  jumpLabelIf := refsTo_jumpLabelIf
  jumpLabelIfZero := refsTo_jumpLabelIfZero
  loadImmediate := fun t n => (pl_loadImmediate t n).noRefs
  loadLabel := refsTo_loadLabel
  addAndJump := fun t n => (pl_addAndJump t n).noRefs
  binop := fun o t a b => (pl_op o t a b).noRefs
  mov := fun t s => (pl_mov t s).noRefs
  printI64 := fun nl t ctx => Post.pure (pl_printI64G false nl t ctx).noRefs.closed
  eraseBlock := fun t => (postMW_eraseBlock t).mono fun _ h => h.2
  shareBlockN := fun t n => (postMW_shareBlockN t n).mono fun _ h => h.2
  store := fun a b => (postMW_store a b).mono fun _ h => h.2
  load := fun a b => (postMW_load a b).mono fun _ h => h.2
  storeTemporary := fun t sp => (pl_storeTemporary t sp).noRefs
  restoreTemporary := fun t sp => (pl_restoreTemporary t sp).noRefs

/-- `BL` only of runtime symbols: a per-item predicate, lifted by `PieceOps` -/
def QB (l : List Code) : Prop := l.all blB = true

theorem PL.qb {l : List Code} (h : PL l) : QB l := h.bl

theorem qb_append {a b : List Code} (ha : QB a) (hb : QB b) : QB (a ++ b) := by
  unfold QB at *; rw [List.all_append, ha, hb]; rfl

theorem qb_codeTable (base : String) : ∀ (cs : Clauses), QB (codeTable a64Backend cs base)
  | .nil => rfl
  | .cons x _ _ rest => by
    simp only [codeTable]
    exact qb_append (show QB [Code.B _] from rfl) (qb_codeTable base rest)

theorem pieceOps_a64 : PieceOps a64Backend QB where
  nil := rfl
  append := qb_append
  comment := fun _ => rfl
  label := fun _ => rfl
  table := fun l cs base => qb_append (a := [Code.LAB l]) rfl (qb_codeTable base cs)
  jump := fun t => (pl_jump t).qb
  jumpLabel := fun _ => rfl
  jumpLabelIf := fun s a b l => qb_append (pl_compare a b).qb (by
    show QB [branchOf s l]
    simp only [QB, List.all_cons, List.all_nil, blB_branchOf]; rfl)
  jumpLabelIfZero := fun s a l => qb_append (pl_compareImmediate a 0).qb (by
    show QB [branchOf s l]
    simp only [QB, List.all_cons, List.all_nil, blB_branchOf]; rfl)
  loadImmediate := fun t n => (pl_loadImmediate t n).qb
  loadLabel := fun t l => by
    show QB (loadLabel t l)
    cases t <;> rfl
  addAndJump := fun t n => (pl_addAndJump t n).qb
  binop := fun o _ _ _ _ t s1 s2 _ _ _ _ _ => (pl_op o t s1 s2).qb
  binopTemp := fun t => (pl_op .sum (.register TEMP) (.register TEMP) t).qb
  mov := fun t s => (pl_mov t s).qb
  printI64 := fun nl t ctx => Post.pure (pl_printI64G false nl t ctx).qb
  eraseBlock := fun t => (postMW_eraseBlock t).mono fun _ h => h.1
  shareBlockN := fun t n => (postMW_shareBlockN t n).mono fun _ h => h.1
  store := fun a b => (postMW_store a b).mono fun _ h => h.1
  load := fun a b => (postMW_load a b).mono fun _ h => h.1
  storeTemporary := fun t sp => (pl_storeTemporary t sp).qb
  restoreTemporary := fun t sp => (pl_restoreTemporary t sp).qb

/-! ## the body -/

/-- the body of a linearly typed program: every referenced label is defined in the body or is `cleanup`; every
    `BL` goes to a runtime symbol -/
theorem body_refs {p : AxCut.Prog} {hooks : Bool} {k : Nat} {body : List Code} {nargs k' : Nat}
    (htp : LinTypedProg p)
    (h : (compile a64Backend hooks p).run k = .ok ((body, nargs), k')) :
    (∀ l ∈ V.refs body, l ∈ V.labs body ∨ l = "cleanup") ∧ body.all blB = true := by
  have h1 := refs_defined refOps_a64 hooks natRen p (callsDefined_of_linTyped htp) k _ k' h
  have h2 := piece_compileR pieceOps_a64 hooks natRen p (opFresh_of_linTypedProg htp) k _ k' h
  exact ⟨h1, h2⟩

end Scc.A64.Wf
