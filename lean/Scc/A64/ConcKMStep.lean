/-
  Scc.A64.ConcKMStep — THE THREE-WAY STEP FOR ALL ELEVEN STATEMENT FORMS on AArch64 with the bookkeeping of C10, of the
  progress argument (`step3P`, Scc/A64/ConcKStep.lean) AND OF THE HEAP MONITOR: the run of the machine is an
  `MStepsH` (Scc/A64/ConcKMid.lean) — it visits no `#ctx` hook item except the hook of the statement boundary it
  starts at, as its first step, in the state it starts in.  New hypotheses: `HK hkf` (what the layout treats as a
  hook starts with `#ctx [`) and `HeadHF st.stmt` (the names that start the statement comments of `op` and `call`
  do not start with `#`; Scc/X86/ConcKMStep.lean, backend-independent).
  GENERATED from Scc/A64/ConcKStep.lean by string replacement (gen_mstep.py, memory note scc-a64-conc).
-/
import Scc.A64.ConcKMInt
import Scc.A64.ConcKMCall
import Scc.A64.ConcKMLet
import Scc.A64.ConcKMSubst
import Scc.A64.ConcKMSwitch
import Scc.A64.ConcKMInvoke
import Scc.X86.ConcKMStep

set_option linter.unusedVariables false
set_option linter.unusedSimpArgs false

namespace Scc.A64.Ref.K

open Scc Scc.AxCut Scc.AxCut.Pos Scc.Backend Scc.Backend.Abs Scc.Backend.Sim Scc.Backend.Subst Scc.A64 Scc.A64.CC
open Scc.Backend.Sim2 Scc.Backend.Keys
open Scc.Props.C14Generic (LabelSafe)
open Scc.Props.C06Generic (outAfter WithinCapacity Reachable EnoughHeap CodeFits fits_of_codeFits
  kinds_of_fieldsTyped chiTys_fst fresh_of_nodup_snoc take_of_append)
open Scc.Heap (HState InvS InvW)
open Scc.Heap.Refine (HRef FrLe Room FrPk loadAbs)
open Scc.X86.Ref.K (allocArity envLen IsJump)
open Scc.X86.Ref (HashFree)
open Scc.X86.Ref.K (HeadHF)
open Scc.A64.NoHk (HK hkc_mm mm_name_first noHk_of_nhOK noHk_of_postNh NhOK)
open Scc.Backend.NamesC (MM mm_append)

/-- the three-way simulation claim for one step of the positional machine.  The relation holds again at the
position `kp'`; the machine itself is at item `pcR`, which is the item of `kp'` or ahead of it by `#ctx` hooks
(`Tol`: after the `BR` of an `invoke` of a single-method closure) -/
def StepSim3M (c : MemCfg) (hkf : Code → Bool) (Pm : Prog) (cs : List Code) (P : Program) (hooks : Bool)
    (prog : AxCut.Prog) (st : Pos.State) (cfg : Config) (hs : HState) (σ : State) (kp : Nat) : Prop :=
  match Pos.step prog st with
  | .next st' o =>
    WithinCapacity st'.ctx → 2 * st'.ctx.length ≤ 280 →
    ∃ cfg' hs' σ' kp' pcR, MStepsH Pm c σ (pcOf hkf cs kp) cfg.out σ' pcR cfg'.out ∧
      Tol Pm (pcOf hkf cs kp') pcR ∧
      (IsJump st.stmt → MStepsHR Pm c σ (pcOf hkf cs kp) cfg.out σ' pcR cfg'.out) ∧
      cfg'.out = outAfter o cfg.out ∧ cfg'.next ≤ cfg.next + 1 ∧
      FrLe hs hs' (64 * allocArity st.stmt) ∧ FrPk hs hs' ∧ Rel3 c cs P hooks prog st' cfg' hs' σ' kp'
  | .done v => ∃ kL σL, MStepsH Pm c σ (pcOf hkf cs kp) cfg.out σL (pcOf hkf cs kL) cfg.out ∧
      Pm.items[pcOf hkf cs kL]? = some (.instr .ret) ∧ exitCheck c σL = .done v
  | .stuck _ => True

section Run3M

variable {c : MemCfg} (H : CfgCC c) (h8 : c.heapBase % 8 = 0) {hkf : Code → Bool} {Pm : Prog}
  {cs pre : List Code} (HB : HoldsB hkf Pm cs) (hnd : (labs cs).Nodup)
  (hfitX : c.codeBase + 4 * ninstr cs < 2 ^ 64) (hcs : cs = pre ++ cleanup)
  (hclean : "cleanup" ∉ labs pre)

include H h8 HB hnd hfitX hcs hclean in
/-- THE THREE-WAY STEP: Theorem A's `TheoremA_full` with the AArch64 machine carried along, for ALL ELEVEN
statement forms -/
theorem step3M (hooks : Bool) (prog : AxCut.Prog) (kc : Nat) (code : List MockOp) (nargs kc' : Nat)
    (hcomp : (compile mockSym hooks prog).run kc = .ok ((code, nargs), kc'))
    (hsafe : LabelSafe prog = true) (htp : LinTypedProg prog) (hfit : CodeFits code)
    (DX : XDefsAt cs hooks prog) (hprog : ProgOK prog)
    (st : Pos.State) (cfg : Config) (hs : HState) (σ : State) (kp : Nat)
    (R : Rel3 c cs (Program.ofOps code) hooks prog st cfg hs σ kp)
    (T : Pos.StateTyped prog st) (hheap : EnoughHeap cfg)
    (hroom : Room hs (64 * allocArity st.stmt + 64)) (hK : HK hkf) (hhf : HeadHF st.stmt) :
    StepSim3M c hkf Pm cs (Program.ofOps code) hooks prog st cfg hs σ kp := by
  have HA := HB.holdsA
  have Hp := HA.holds
  have hnodup := Scc.Props.C14Generic.labels_unique hooks prog kc code nargs kc' hcomp hsafe
  have D := defsAt_of_compile hooks prog kc code nargs kc' hcomp hnodup
  have hfits := fits_of_codeFits hfit
  obtain ⟨Γ, ρ, s⟩ := st
  obtain ⟨Γ', ι, κ, hk, RX, X3h, C, kx, kx', items, hrunX, hatX⟩ := R
  obtain ⟨hty, henv⟩ := T
  simp only at hk RX hty henv C hhf
  have hlenk : Γ'.length = Γ.length := keys_length hk
  have hlenρ : ρ.length = Γ'.length := RX.len
  have hdef := X3h.mach_def RX
  unfold StepSim3M
  have hcapX3 := X3h.cap
  cases hty with
  | lit hn hfr hnext =>
    rename_i x n next fv
    simp only [Pos.step]
    intro hcap hcap2
    obtain ⟨cfg', σ', kp', h1, hm, h2, h3, h4, h5, k1, k1', items', hr', hat', hh, K⟩ :=
      lit_x3M H Hp RX (mem_ids_keys hk hfr)
      (by simp [WithinCapacity] at hcap; omega) X3h hrunX hatX hK
    exact ⟨cfg', hs, σ', kp', _, by rw [h2]; exact hm, Tol.refl _ _, (fun hj => False.elim hj), h2, by omega, FrLe.refl' hs, FrPk.refl hs,
      ⟨Γ' ++ [⟨x, .ext, .i64⟩], ι, κ, keys_append hk rfl, h4, by rw [h2]; exact h5,
        C.snoc_int hlenρ K hh _ _, k1, k1', items', hr', hat'⟩⟩
  | op hn ha hb hfr hnext =>
    rename_i x a o b next fv
    simp only [Pos.step]
    cases hra : readInt Γ ρ a with
    | error e => simp
    | ok va =>
      cases hrb : readInt Γ ρ b with
      | error e => simp
      | ok vb =>
        cases hv : Pos.evalOp o va vb with
        | error e => simp [hv]
        | ok v =>
          simp only [hv]
          intro hcap hcap2
          obtain ⟨cfg', σ', kp', h1, hm, h2, h3, h4, h5, k1, k1', items', hr', hat', hh, K⟩ :=
            op_x3M H Hp hhf RX (mem_ids_keys hk hfr)
            (by simp [WithinCapacity] at hcap; omega)
            (by rw [readInt_keys hk]; exact hra) (by rw [readInt_keys hk]; exact hrb) hv X3h hrunX hatX hK
          exact ⟨cfg', hs, σ', kp', _, by rw [h2]; exact hm, Tol.refl _ _, (fun hj => False.elim hj), h2, by omega, FrLe.refl' hs, FrPk.refl hs,
            ⟨Γ' ++ [⟨x, .ext, .i64⟩], ι, κ, keys_append hk rfl, h4, by rw [h2]; exact h5,
              C.snoc_int hlenρ K hh _ _, k1, k1', items', hr', hat'⟩⟩
  | print hn ha hnext =>
    rename_i nl a next fv
    simp only [Pos.step]
    cases hra : readInt Γ ρ a with
    | error e => simp
    | ok v =>
      simp only
      intro _ _
      obtain ⟨cfg', σ', kp', h1, hm, h2, h3, h4, h5, k1, k1', items', hr', hat', hh, K⟩ := print_x3M H Hp RX
        (by rw [readInt_keys hk]; exact hra) X3h hrunX hatX hK
      exact ⟨cfg', hs, σ', kp', _, by rw [h2]; exact hm, Tol.refl _ _, (fun hj => False.elim hj), h2, by omega, FrLe.refl' hs, FrPk.refl hs,
        ⟨Γ', ι, κ, hk, h4, by rw [h2]; exact h5, C.keep rfl K hh, k1, k1', items', hr', hat'⟩⟩
  | ifc hn ha hb ht he =>
    rename_i srt a b t e
    simp only [Pos.step]
    cases hra : readInt Γ ρ a with
    | error err => simp
    | ok va =>
      cases b with
      | none =>
        simp only
        intro _ _
        obtain ⟨cfg', σ', kp', h1, hm, h2, h3, h4, h5, k1, k1', items', hr', hat', hh, K⟩ :=
          ifc_x3M H Hp hnd (b := none) (vb := 0) RX
          (by rw [readInt_keys hk]; exact hra) rfl X3h hrunX hatX hK
        exact ⟨cfg', hs, σ', kp', _, by rw [h2]; exact hm, Tol.refl _ _, (fun hj => False.elim hj), h2, by omega, FrLe.refl' hs, FrPk.refl hs,
          ⟨Γ', ι, κ, hk, h4, by rw [h2]; exact h5, C.keep rfl K hh, k1, k1', items', hr', hat'⟩⟩
      | some b' =>
        simp only
        cases hrb : readInt Γ ρ b' with
        | error err => simp
        | ok vb =>
          simp only
          intro _ _
          obtain ⟨cfg', σ', kp', h1, hm, h2, h3, h4, h5, k1, k1', items', hr', hat', hh, K⟩ :=
            ifc_x3M H Hp hnd (b := some b') (vb := vb) RX
            (by rw [readInt_keys hk]; exact hra) (by simp only; rw [readInt_keys hk]; exact hrb)
            X3h hrunX hatX hK
          exact ⟨cfg', hs, σ', kp', _, by rw [h2]; exact hm, Tol.refl _ _, (fun hj => False.elim hj), h2, by omega, FrLe.refl' hs, FrPk.refl hs,
            ⟨Γ', ι, κ, hk, h4, by rw [h2]; exact h5, C.keep rfl K hh, k1, k1', items', hr', hat'⟩⟩
  | exit hn ha =>
    rename_i a
    simp only [Pos.step]
    cases hra : readInt Γ ρ a with
    | error e => simp
    | ok v =>
      simp only
      obtain ⟨kL, σL, e1, e2, e3, _⟩ := exit_x3M H Hp hcs hclean RX (by rw [readInt_keys hk]; exact hra) X3h
        hrunX hatX hK
      exact ⟨kL, σL, e1, e2, e3⟩
  | call hn hf hc =>
    rename_i l args params
    simp only [Pos.step]
    cases hd : Pos.findDef prog.defs l with
    | none => simp
    | some d =>
      simp only
      by_cases hsh : Pos.chiTys Γ ≠ Pos.chiTys d.ctx ∨ ρ.length ≠ Γ.length
      · simp [hsh]
      · simp only [hsh, if_false]
        intro _ _
        have hchi : Pos.chiTys Γ = Pos.chiTys d.ctx := by
          by_cases h : Pos.chiTys Γ = Pos.chiTys d.ctx
          · exact h
          · exact absurd (Or.inl h) hsh
        obtain ⟨cfg', σ', kp', h1, hm, h2, h3, h4, h5, k1, k1', items', hr', hat', hh, K, hmR⟩ :=
          call_x3M Hp hnd RX D DX hd
          (by rw [keys_chiTys hk]; exact hchi) X3h hrunX hatX hK hhf
        have hdm : d ∈ prog.defs := List.mem_of_find?_eq_some hd
        have hchi' : Γ'.map (·.chi) = d.ctx.map (·.chi) := by
          rw [keys_chi hk]
          have := congrArg (List.map (·.1)) hchi
          simpa [Pos.chiTys, Function.comp_def] using this
        exact ⟨cfg', hs, σ', kp', _, by rw [h2]; exact hm, Tol.refl _ _, (fun _ => by rw [h2]; exact hmR), h2, by omega, FrLe.refl' hs, FrPk.refl hs,
          ⟨d.ctx, ι, κ, rfl, h4, by rw [h2]; exact h5, C.keep hchi' K hh, k1, k1', items', hr', hat'⟩⟩
  | subst hn hhas hnew hnext =>
    rename_i pairs next
    simp only [Pos.step]
    cases hb : Pos.step.build Γ ρ pairs with
    | error e => simp
    | ok vs =>
      simp only
      intro hcap hcap2
      have hnew' : (pairs.map (·.1.var.id)).Nodup := by
        have : ((pairs.map (·.1)).map (·.var.id)).Nodup := hnew
        rw [List.map_map] at this
        exact this
      have hold : ∀ p ∈ pairs, ∃ b ∈ Γ', b.var.id = p.2.id ∧ b.chi = p.1.chi := by
        intro p hp
        obtain ⟨b, hb', hid, hchi, _⟩ := hasVar_keys hk (hhas p hp)
        exact ⟨b, hb', hid, hchi⟩
      have hpl : 2 * pairs.length ≤ 280 := by simpa using hcap2
      obtain ⟨k, cfg', σ', hs', kp', h1, hm, hfr, h2, h3, h4, h5, k1, k1', items', hr', hat', SP⟩ :=
        subst_x3M H h8 Hp hnd RX
        (nodup_keys hk hn) hnew' hold
        (by simpa [WithinCapacity] using hcap) (by rw [build_keys hk]; exact hb) X3h hrunX hatX hpl hK
      exact ⟨cfg', hs', σ', kp', _, by rw [h2]; exact hm, Tol.refl _ _, (fun hj => False.elim hj), h2, by omega, FrLe.mono' hfr (by omega),
        FrPk.of_frLe0 hfr, ⟨pairs.map (·.1), ι, κ, rfl, h4, by rw [h2]; exact h5, XC.subst C hlenρ RX.heap h1 h4 SP,
          k1, k1', items', hr', hat'⟩⟩
  | @letS _ Γ0 Γa x ty tag args sig next fv hn hsplit hkeys hs hs' hfr hnext =>
    have hlenA : Γa.length = args.length := keys_length hkeys
    have hsplit' : Γ = Γ0 ++ Γa := hsplit
    have hkA : args.length ≤ Γ.length := by rw [hsplit']; simp; omega
    simp only [Pos.step]
    by_cases hsh : Γ.length < args.length ∨ ρ.length ≠ Γ.length
    · rw [if_pos hsh]; trivial
    · rw [if_neg hsh]
      cases hpos : Pos.tagPosition prog.types ty tag with
      | error e => trivial
      | ok pos =>
        simp only
        intro hcap hcap2
        have hn0 : Γ.length - args.length = Γ0.length := by rw [hsplit']; simp; omega
        have htake : Γ.take (Γ.length - args.length) = Γ0 := by
          rw [← hlenA]; exact take_of_append hsplit'
        have hkt : Ctx.keys (Γ'.take (Γ'.length - args.length)) = Γ0.keys := by
          rw [hlenk, keys_take hk, htake]
        have hargs140 : args.length ≤ 140 := by omega
        obtain ⟨cfg', σ', hs', ι', κ', kp', h1, hm, hfr, h2, h3, h4, h5, k1, k1', items', hr', hat', LP, hpk⟩ :=
          let_x3M H h8 Hp hnd RX
          (by rw [hlenk]; exact hkA) (mem_ids_keys hkt hfr) hpos
          (by
            simp only [WithinCapacity, htake, List.length_append, List.length_singleton] at hcap
            rw [hlenk, hn0]; exact hcap) hheap X3h hrunX hatX
          (by simpa only [allocArity] using hroom) hK
        obtain ⟨C0, r, hr, hXB⟩ := XC.let_parts C hlenρ (Nat.sub_le _ _) RX.heap hheap hdef LP
        have hNlen : (Γ'.take (Γ'.length - args.length)).length = Γ'.length - args.length := by simp
        have C' := XC.snoc C0 (by simp [hlenρ]) ⟨x, .prd, ty⟩ (.obj pos (ρ.drop (Γ'.length - args.length)))
          (fun w hw => by
            rw [hNlen, hr]
            exact .obj pos _ r _ w hXB)
        rw [hlenk] at h4 h5 C' hr'
        refine ⟨cfg', hs', σ', kp', _, by rw [h2]; exact hm, Tol.refl _ _, (fun hj => False.elim hj), h2, h3,
          (by simpa only [allocArity] using hfr), hpk, ⟨_, ι', κ', ?_, h4, by rw [h2]; exact h5, C', k1, k1', items', hr', hat'⟩⟩
        show Ctx.keys (Γ'.take (Γ.length - args.length) ++ [_]) =
          Ctx.keys (Γ.take (Γ.length - args.length) ++ [_])
        rw [htake, ← hlenk]
        exact keys_append hkt rfl
  | @create _ Γn Γe Γc x ty clauses next fc fn d hn hsplit hkeys hd hm hcl hfr hnext =>
    have hlenE : Γe.length = Γc.length := keys_length hkeys
    have hsplit' : Γ = Γn ++ Γe := hsplit
    have hkA : Γc.length ≤ Γ.length := by rw [hsplit']; simp; omega
    simp only [Pos.step]
    by_cases hsh : Γ.length < Γc.length ∨ ρ.length ≠ Γ.length
    · rw [if_pos hsh]; trivial
    · rw [if_neg hsh]
      simp only
      intro hcap hcap2
      have hn0 : Γ.length - Γc.length = Γn.length := by rw [hsplit']; simp; omega
      have htake : Γ.take (Γ.length - Γc.length) = Γn := by
        rw [← hlenE]; exact take_of_append hsplit'
      have hdrop : Γ.drop (Γ.length - Γc.length) = Γe := by
        rw [hn0, hsplit']; simp
      have hkt : Ctx.keys (Γ'.take (Γ'.length - Γc.length)) = Γn.keys := by
        rw [hlenk, keys_take hk, htake]
      have hkd : Ctx.keys (Γ'.drop (Γ'.length - Γc.length)) = Γc.keys := by
        rw [hlenk, keys_drop hk, hdrop]; exact hkeys
      have hc140 : Γc.length ≤ 140 := by omega
      obtain ⟨cfg', σ', hs', ι', κ', kp', h1, hmm, hfr, h2, h3, h4, h5, k1, k1', items', hr', hat', LP, a, w0, ha, hw0,
        hmeth, hxm, hpk⟩ := create_x3M H h8 Hp hnd HB hcs RX (by rw [hlenk]; exact hkA) hkd (mem_ids_keys hkt hfr)
          (by
            simp only [WithinCapacity, htake, List.length_append, List.length_singleton] at hcap
            rw [hlenk, hn0]; exact hcap) hheap X3h hrunX hatX (by simpa only [allocArity, envLen] using hroom) hK
      obtain ⟨C0, r, hr, hXB⟩ := XC.let_parts C hlenρ (Nat.sub_le _ _) RX.heap hheap hdef LP
      have hNlen : (Γ'.take (Γ'.length - Γc.length)).length = Γ'.length - Γc.length := by simp
      have C' := XC.snoc C0 (by simp [hlenρ]) ⟨x, .cns, ty⟩ (.clo Γc (ρ.drop (Γ'.length - Γc.length)) clauses)
        (fun w hw => by
          rw [hNlen, hr, ha]
          rw [hNlen, hw0] at hw
          injection hw with hw
          subst hw
          exact .clo Γc _ _ clauses r a w0 hkd hXB hmeth hxm)
      rw [hlenk] at h4 h5 C' hr'
      refine ⟨cfg', hs', σ', kp', _, by rw [h2]; exact hmm, Tol.refl _ _, (fun hj => False.elim hj), h2, h3,
        (by simpa only [allocArity, envLen] using hfr), hpk, ⟨_, ι', κ', ?_, h4, by rw [h2]; exact h5, C', k1, k1', items', hr', hat'⟩⟩
      show Ctx.keys (Γ'.take (Γ.length - Γc.length) ++ [_]) =
        Ctx.keys (Γ.take (Γ.length - Γc.length) ++ [_])
      rw [htake, ← hlenk]
      exact keys_append hkt rfl
  | @switch _ Γ0 b x ty cls fv d hn hsplit hb hd hm hcl =>
    subst hsplit
    obtain ⟨ρ', v, rfl, hρ', hv⟩ := Pos.env_last henv
    have hbid : b.var.id = x.id := congrArg (·.1) hb
    have hbchi : b.chi = .prd := congrArg (·.2.1) hb
    have hbty : b.ty = ty := congrArg (·.2.2) hb
    rw [hbchi, hbty] at hv
    have hlen : (ρ' ++ [v]).length = (Γ0 ++ [b]).length := by
      rw [henv.length_eq, Pos.chiTys_length]
    have hcnd : ¬ (b.var.id ≠ x.id ∨ (ρ' ++ [v]).length ≠ (Γ0 ++ [b]).length) := by
      simp [hbid, hlen]
    cases hv with
    | obj hd' hx hf =>
      rename_i d' tag xt fields
      have := Pos.lookupTypeDecl_unique hd hd'
      subst this
      obtain ⟨cl, hc1, hc2, hc3⟩ := Pos.nthClause_ok d.xtors cls tag xt hm hx
      have hfl : fields.length = cl.ctx.length := by
        rw [hf.length_eq, hc2, Pos.chiTys_length]
      simp only [Pos.step, List.getLast?_concat, if_neg hcnd, hc1, hfl, ne_eq, not_true_eq_false,
        if_false, List.dropLast_concat]
      intro hcap hcap2
      obtain ⟨Γ0', b', rfl, hk0, hkb⟩ := keys_snoc hk
      have hb'id : b'.var.id = x.id := by
        have := congrArg (·.1) hkb
        simp only [Binding.key] at this
        rw [this]; exact hbid
      have hb'chi : b'.chi = .prd := by
        have := congrArg (·.2.1) hkb
        simp only [Binding.key] at this
        rw [this]; exact hbchi
      have hkinds : fields.map Sim2.kindOf = Mock.kindsOf cl.ctx := by
        rw [kinds_of_fieldsTyped hf, hc2, chiTys_fst]
      have hfr : x.id ∉ Γ0.ids := by rw [← hbid]; exact fresh_of_nodup_snoc hn
      have hlen0 : ρ'.length = Γ0'.length := by simpa using hlenρ
      obtain ⟨k, cfg', σ', hs', kp', h1, hmm, hfr', h2, h3, h4, h5, k1, k1', items', hr', hat', LP⟩ :=
        switch_x3M H h8 HA hnd hfitX RX
        hfits hb'id (mem_ids_keys hk0 hfr) hc1 hkinds
        (by
          simp only [WithinCapacity, List.length_append] at hcap
          rw [keys_length hk0]; exact hcap) X3h hrunX hatX
        (by
          simp only [List.length_append] at hcap2
          rw [keys_length hk0]; exact hcap2) hK
      have hXB : ∀ r, cfg.temps.get (2 * Γ0'.length) = some r →
          XB (Program.ofOps code) c cs hooks prog.types cfg.heap κ fields r := by
        intro r hr
        have hi1 : Γ0'.length < (Γ0' ++ [b']).length := by simp
        have hi2 : Γ0'.length < (ρ' ++ [Value.obj tag fields]).length := by simp [hlen0]
        obtain ⟨w, hw⟩ := Option.isSome_iff_exists.mp (hdef _ hi1)
        have hC := C _ hi1 hi2 w hw
        have g1 : (Γ0' ++ [b'])[Γ0'.length] = b' := by simp
        have g2 : (ρ' ++ [Value.obj tag fields])[Γ0'.length] = .obj tag fields := by
          rw [List.getElem_append_right (by omega)]; simp [hlen0]
        rw [g1, g2, hb'chi, hr] at hC
        obtain ⟨r', hr', hB⟩ := hC.obj_inv
        simp only [show ((Chi.prd == Chi.ext) = true) = False from by decide, if_false,
          Option.some.injEq] at hr'
        rw [hr']; exact hB
      exact ⟨cfg', hs', σ', kp', _, by rw [h2]; exact hmm, Tol.refl _ _, (fun hj => False.elim hj), h2, by omega, FrLe.mono' hfr' (by omega),
        FrPk.of_frLe0 hfr', ⟨Γ0' ++ cl.ctx, ι, κ, keys_append hk0 rfl, h4, by rw [h2]; exact h5,
          XC.load C hlen0 rfl RX.heap h1 h4 hkinds LP hXB, k1, k1', items', hr', hat'⟩⟩
  | @invoke _ Γa b x tag ty args sig hn hsplit hb hs hs' =>
    subst hsplit
    obtain ⟨ρ', v, rfl, hρ', hv⟩ := Pos.env_last henv
    have hbid : b.var.id = x.id := congrArg (·.1) hb
    have hbchi : b.chi = .cns := congrArg (·.2.1) hb
    have hbty : b.ty = ty := congrArg (·.2.2) hb
    rw [hbchi, hbty] at hv
    have hlen : (ρ' ++ [v]).length = (Γa ++ [b]).length := by
      rw [henv.length_eq, Pos.chiTys_length]
    have hcnd : ¬ (b.var.id ≠ x.id ∨ (ρ' ++ [v]).length ≠ (Γa ++ [b]).length) := by
      simp [hbid, hlen]
    obtain ⟨d, xt, i, hd, hx, hxs, htp'⟩ := Pos.tagPosition_ok hs
    cases hv with
    | clo hd' hm hf hcl =>
      rename_i d' Γc env cls
      have := Pos.lookupTypeDecl_unique hd hd'
      subst this
      obtain ⟨cl, hc1, hc2, hc3⟩ := Pos.nthClause_ok d.xtors cls i xt hm hx
      have hal : (Γa ++ [b]).length - 1 = cl.ctx.length := by
        have : Γa.length = cl.ctx.length := by
          rw [← Pos.chiTys_length Γa, hs', ← hxs, hc2, Pos.chiTys_length]
        simp [this]
      simp only [Pos.step, List.getLast?_concat, if_neg hcnd, htp', hc1, hal, ne_eq, not_true_eq_false,
        if_false, List.dropLast_concat]
      intro hcap hcap2
      obtain ⟨Γa', b', rfl, hk0, hkb⟩ := keys_snoc hk
      have hb'id : b'.var.id = x.id := by
        have := congrArg (·.1) hkb
        simp only [Binding.key] at this
        rw [this]; exact hbid
      have hb'chi : b'.chi = .cns := by
        have := congrArg (·.2.1) hkb
        simp only [Binding.key] at this
        rw [this]; exact hbchi
      have hkinds : env.map Sim2.kindOf = Mock.kindsOf Γc := by
        rw [kinds_of_fieldsTyped hf, chiTys_fst]
      have hfr : x.id ∉ Γa.ids := by rw [← hbid]; exact fresh_of_nodup_snoc hn
      have hargs : Γa'.map (·.chi) = cl.ctx.map (·.chi) := by
        rw [keys_chi hk0]
        have h1 : Ctx.chiTys Γa = Ctx.chiTys cl.ctx := by rw [hs', ← hxs, hc2]
        have := congrArg (List.map (·.1)) h1
        simpa [Ctx.chiTys, Function.comp_def] using this
      have hlen0 : ρ'.length = Γa'.length := by simpa using hlenρ
      -- the closure at the last position: its methods on both sides
      have hi1 : Γa'.length < (Γa' ++ [b']).length := by simp
      have hi2 : Γa'.length < (ρ' ++ [Value.clo Γc env cls]).length := by simp [hlen0]
      obtain ⟨w, hw⟩ := Option.isSome_iff_exists.mp (hdef _ hi1)
      have hC := C _ hi1 hi2 w hw
      have g2 : (ρ' ++ [Value.clo Γc env cls])[Γa'.length] = .clo Γc env cls := by
        rw [List.getElem_append_right (by omega)]; simp [hlen0]
      rw [g2] at hC
      obtain ⟨r0, a, envCtx', hp0, ha0, hke, hXB0, hmeth, hxm⟩ := hC.clo_inv
      obtain ⟨_, hsome, _, _⟩ := RX.vals _ hi1 hi2
      obtain ⟨aw, haw⟩ := Option.isSome_iff_exists.mp hsome
      have hword : cfg.temps.get (2 * Γa'.length + 1) = some (BitVec.ofNat 64 a) := by
        rw [haw] at ha0 ⊢
        simp only [Option.getD_some] at ha0
        rw [ha0]
      have hposlt : i < d.xtors.length := by
        obtain ⟨dT, hdT, hxT⟩ := tagPosition_ok htp'
        have := Pos.lookupTypeDecl_unique hd hdT
        subst this
        have := xtorPosition_go_lt' d.xtors tag 0 i hxT
        omega
      have hdm : d ∈ prog.types := by
        cases ty with
        | i64 => simp [lookupTypeDecl] at hd
        | decl nm => exact List.mem_of_find?_eq_some hd
      have hpos12 : i < 1024 := by
        have := hprog d hdm
        omega
      have hcapW : 2 * (cl.ctx.length + Γc.length) + 2 < Mock.T_TEMP := by
        simpa [WithinCapacity] using hcap
      obtain ⟨k, cfg', σ', hs', kp', pcR, h1, hmm, T', hfr', h2, h3, h4, h5, k1, k1', items', hr', hat', LP, hmR⟩ :=
        invoke_x3M H h8 HB hnd hfitX hcs RX hfits hb'id (mem_ids_keys hk0 hfr) htp' hc1
        (fun d0 hd0 => by
          have := Pos.lookupTypeDecl_unique hd hd0
          subst this
          exact Scc.Props.C06Generic.clausesMatch_length _ _ hm)
        hargs hkinds hcapW X3h hke hword hmeth hw hxm hrunX hatX
        (by simpa using hcap2) hpos12 hK
      have hXB : ∀ r, cfg.temps.get (2 * Γa'.length) = some r →
          XB (Program.ofOps code) c cs hooks prog.types cfg.heap κ env r := by
        intro r hr
        have g1 : (Γa' ++ [b'])[Γa'.length] = b' := by simp
        rw [g1, hb'chi, hr] at hp0
        simp only [show ((Chi.cns == Chi.ext) = true) = False from by decide, if_false,
          Option.some.injEq] at hp0
        rw [hp0]; exact hXB0
      have hkinds' : env.map Sim2.kindOf = Mock.kindsOf envCtx' := by
        rw [show Mock.kindsOf envCtx' = Mock.kindsOf Γc from kinds_of_keys hke]; exact hkinds
      exact ⟨cfg', hs', σ', kp', pcR, by rw [h2]; exact hmm, T', (fun _ => by rw [h2]; exact hmR), h2, by omega, FrLe.mono' hfr' (by omega),
        FrPk.of_frLe0 hfr', ⟨cl.ctx ++ envCtx', ι, κ, keys_append rfl hke, h4, by rw [h2]; exact h5,
          XC.load C hlen0 hargs RX.heap h1 h4 hkinds' LP hXB, k1, k1', items', hr', hat'⟩⟩


end Run3M

end Scc.A64.Ref.K
