/-
  Scc.A64.ConcKMInt — the three-way step lemmas of `lit`, `op`, `print`, `ifc` on AArch64 (Scc/A64/RefClosHInt.lean)
  exporting `MStepsH` (Scc/A64/ConcKMid.lean): the run of the machine visits no `#ctx` hook except the hook of the
  statement boundary it starts at, as its first step.  New hypotheses: `HK hkf` (a hook comment starts with `#ctx [`)
  and, for `op`, `HashFree x` (the statement comment starts with the name of the target).
  GENERATED from RefClosHInt.lean by string replacement (gen_mint.py, memory note scc-a64-conc).
-/
import Scc.A64.ConcKStep
import Scc.A64.ConcKNoHk

set_option linter.unusedVariables false
set_option linter.unusedSimpArgs false

namespace Scc.A64.Ref.K

open Scc Scc.AxCut Scc.AxCut.Pos Scc.Backend Scc.Backend.Abs Scc.Backend.Sim Scc.Backend.Subst Scc.A64 Scc.A64.CC
open Scc.Backend.Sim2 Scc.Backend.Keys
open Scc.Props.C14Generic (LabelSafe)
open Scc.Props.C06Generic (outAfter WithinCapacity Reachable EnoughHeap CodeFits fits_of_codeFits
  kinds_of_fieldsTyped chiTys_fst fresh_of_nodup_snoc take_of_append)
open Scc.Heap (HState InvS InvW)
open Scc.Heap.Refine (HRef FrLe Room FrPk loadAbs)
open Scc.X86.Ref.K (allocArity envLen IsJump)
open Scc.X86.Ref (HashFree)
open Scc.A64.NoHk (HK hkc_mm mm_name_first noHk_of_nhOK noHk_of_postNh NhOK)
open Scc.Backend.NamesC (MM mm_append)

section Int3M

variable {c : MemCfg} (H : CfgCC c) {hkf : Code → Bool} {Pm : Prog}
  {cs : List Code} (Hp : Holds hkf Pm cs) (hndL : (labs cs).Nodup)

include H Hp in
/-- THREE-WAY SIMULATION OF `lit` -/
theorem lit_x3M {P : Program} {hooks : Bool} {prog : AxCut.Prog} {Γ : Ctx} {ρ : List Value} {x : Ident}
    {n : Int} {next : Stmt} {fv : FV} {cfg : Config}
    (R : RelX P hooks prog ⟨Γ, ρ, .lit x n next fv⟩ cfg)
    (hfresh : ∀ b ∈ Γ, b.var.id ≠ x.id) (hcap : 2 * (Γ.length + 1) + 2 < Mock.T_TEMP)
    {hs : HState} {ι : Nat → Nat} {κ : Nat → Nat → Word} {σ : State} {out : List (Bool × Word)} {kp : Nat}
    (X : X3 c Γ cfg hs ι κ σ out)
    {kx kx' : Nat} {items : List Code}
    (hrunX : (codeStatementR a64Backend hooks natRen prog.types (.lit x n next fv) Γ).run kx = .ok (items, kx'))
    (hatX : XAt cs kp items) (hK : HK hkf) :
    ∃ cfg' σ' kp', stepsTo P 1 cfg cfg' ∧ MStepsH Pm c σ (pcOf hkf cs kp) out σ' (pcOf hkf cs kp') out ∧
      cfg'.out = cfg.out ∧ cfg'.next = cfg.next ∧
      RelX P hooks prog ⟨Γ ++ [⟨x, .ext, .i64⟩], ρ ++ [.int (BitVec.ofInt 64 n)], next⟩ cfg' ∧
      X3 c (Γ ++ [⟨x, .ext, .i64⟩]) cfg' hs ι κ σ' out ∧
      ∃ k1 k1' items', (codeStatementR a64Backend hooks natRen prog.types next
          (Γ ++ [⟨x, .ext, .i64⟩])).run k1 = .ok (items', k1') ∧ XAt cs kp' items' ∧
        cfg'.heap = cfg.heap ∧ KeepPos Γ.length cfg cfg' σ σ' := by
  obtain ⟨cfg', hst, hout, hnext, R'⟩ := sim2_lit R hfresh hcap
  -- the mock code, the abstract step explicitly
  obtain ⟨c0m, c0m', ops, hrun, hat⟩ := R.code
  simp only [codeStatementR, run_bind_ok, run_pure_ok, mockSym_variableTemporary, vt_run_ok] at hrun
  obtain ⟨t, k1, ⟨pos, hpos, rfl, rfl⟩, c2, k2, h2, rfl, rfl⟩ := hrun
  have hp : pos = Γ.length := by
    rw [ctxPosition_eq_posOf] at hpos
    have := posOf_append_fresh Γ ⟨x, .ext, .i64⟩ hfresh
    rw [this] at hpos
    exact (Option.some.inj hpos).symm
  subst hp
  simp only [mockSym_loadImmediate, mockSym_comment, List.append_assoc, CodeAt_hook] at hat
  simp only [List.cons_append, List.nil_append, CodeAt, TempNum.toNat] at hat
  obtain ⟨hcode, _⟩ := hat
  have hB := step_li P cfg _ n hcode (by unfold Mock.T_TEMP at hcap ⊢; omega)
  rw [stepsTo_one_inv hst] at hB
  injection hB with hB
  -- the AArch64 code
  simp only [codeStatementR, run_bind_ok, run_pure_ok] at hrunX
  obtain ⟨tX, kxa, htX, c2X, k2X, h2X, rfl, rfl⟩ := hrunX
  obtain ⟨pX, hpX, hltX, rfl, rfl, _⟩ := vt_rel htX
  have hpX' : pX = Γ.length := by
    have := posOf_append_fresh Γ ⟨x, .ext, .i64⟩ hfresh
    rw [this] at hpX
    exact (Option.some.inj hpX).symm
  subst hpX'
  simp only [TempNum.toNat] at hltX
  generalize hc0 : hookCode a64Backend hooks Γ ++
    [a64Backend.comment ("lit " ++ x.print ++ " <- " ++ toString n ++ ";")] = c0 at hatX
  have hc0c : ∀ y ∈ c0, ∃ m', y = Code.COMMENT m' := by rw [← hc0]; exact hook_comments hooks Γ _
  have hxl : a64Backend.loadImmediate (posTemp (2 * Γ.length + TempNum.snd.toNat)) n =
      loadImmediate (posTemp (2 * Γ.length + 1)) n := rfl
  rw [hxl] at hatX
  have hatA : XAt cs kp (c0 ++ (loadImmediate (posTemp (2 * Γ.length + 1)) n ++ c2X)) := by
    simpa [List.append_assoc] using hatX
  have hk0 := x_msteps_c0H (c := c) Hp hatA.left hc0 (hkc_mm Hp hK (by mm_tac)) σ out
  obtain ⟨σ2, hx2, C2, hv2, F2⟩ := li_pos H X.core hltX n
  have hk2 := x_msteps_codesI Hp hatA.right.left hx2 out (noHk_of_nhOK Hp hK (NoHk.nh_loadImmediate _ _))
  have X2 : X3R c (Γ ++ [⟨x, .ext, .i64⟩]) cfg' (roots Γ cfg.temps) hs ι κ σ2 out :=
    X3R.snoc X hltX C2 F2 (a := BitVec.ofInt 64 n) (by rw [hv2]; rfl) (by rw [hB]) (by rw [hB])
      (by rw [hB]) (by rw [hB]) (fun h => absurd rfl h)
  have hcapX := X.cap
  refine ⟨cfg', σ2, _, hst, hk0.trans hk2, hout, hnext, R', ?_, _, _, c2X, h2X, hatA.right.right,
    by rw [hB], ⟨fun t ht => by
      rw [hB]; simp only
      rw [get_set_other _ _ (by omega), get_clobberTemp _ (by unfold Mock.T_TEMP; omega)], fun i hi => by
      rw [mach_keep_frame F2 (by omega) (by omega)]⟩⟩
  show X3R c _ cfg' (roots _ cfg'.temps) hs ι κ _ _
  rw [roots_snoc_ext cfg.temps cfg'.temps Γ _ rfl (fun t ht => by
    rw [hB]; simp only
    rw [get_set_other _ _ (by omega), get_clobberTemp _ (by unfold Mock.T_TEMP; omega)])]
  exact X2

include H Hp in
/-- THREE-WAY SIMULATION OF `op` -/
theorem op_x3M {P : Program} {hooks : Bool} {prog : AxCut.Prog} {Γ : Ctx} {ρ : List Value} {x a b : Ident}
    {o : BinOp} {next : Stmt} {fv : FV} {cfg : Config} {va vb v : Word} (hHF : HashFree x)
    (R : RelX P hooks prog ⟨Γ, ρ, .op x a o b next fv⟩ cfg)
    (hfresh : ∀ b' ∈ Γ, b'.var.id ≠ x.id) (hcap : 2 * (Γ.length + 1) + 2 < Mock.T_TEMP)
    (ha : readInt Γ ρ a = .ok va) (hb : readInt Γ ρ b = .ok vb) (hv : Pos.evalOp o va vb = .ok v)
    {hs : HState} {ι : Nat → Nat} {κ : Nat → Nat → Word} {σ : State} {out : List (Bool × Word)} {kp : Nat}
    (X : X3 c Γ cfg hs ι κ σ out)
    {kx kx' : Nat} {items : List Code}
    (hrunX : (codeStatementR a64Backend hooks natRen prog.types (.op x a o b next fv) Γ).run kx = .ok (items, kx'))
    (hatX : XAt cs kp items) (hK : HK hkf) :
    ∃ cfg' σ' kp', stepsTo P 1 cfg cfg' ∧ MStepsH Pm c σ (pcOf hkf cs kp) out σ' (pcOf hkf cs kp') out ∧
      cfg'.out = cfg.out ∧ cfg'.next = cfg.next ∧
      RelX P hooks prog ⟨Γ ++ [⟨x, .ext, .i64⟩], ρ ++ [.int v], next⟩ cfg' ∧
      X3 c (Γ ++ [⟨x, .ext, .i64⟩]) cfg' hs ι κ σ' out ∧
      ∃ k1 k1' items', (codeStatementR a64Backend hooks natRen prog.types next
          (Γ ++ [⟨x, .ext, .i64⟩])).run k1 = .ok (items', k1') ∧ XAt cs kp' items' ∧
        cfg'.heap = cfg.heap ∧ KeepPos Γ.length cfg cfg' σ σ' := by
  obtain ⟨cfg', hst, hout, hnext, R'⟩ := sim2_op R hfresh hcap ha hb hv
  obtain ⟨c0m, c0m', ops, hrun, hat⟩ := R.code
  simp only [codeStatementR, run_bind_ok, run_pure_ok, mockSym_variableTemporary, vt_run_ok] at hrun
  obtain ⟨t, k1, ⟨pos, hpos, rfl, rfl⟩, s1, k2, ⟨p1, hp1, rfl, rfl⟩, s2, k3, ⟨p2, hp2, rfl, rfl⟩,
    c2, k4, h2, rfl, rfl⟩ := hrun
  have hp : pos = Γ.length := by
    rw [ctxPosition_eq_posOf] at hpos
    have := posOf_append_fresh Γ ⟨x, .ext, .i64⟩ hfresh
    rw [this] at hpos
    exact (Option.some.inj hpos).symm
  subst hp
  obtain ⟨i1, hi1, hl1, hg1, hchi1⟩ := relX_int_ext R ha
  obtain ⟨i2, hi2, hl2, hg2, hchi2⟩ := relX_int_ext R hb
  have e1 : p1 = i1 := by
    rw [ctxPosition_eq_posOf] at hp1
    have := posOf_append_old [⟨x, .ext, .i64⟩] hi1
    rw [this] at hp1; exact (Option.some.inj hp1).symm
  have e2 : p2 = i2 := by
    rw [ctxPosition_eq_posOf] at hp2
    have := posOf_append_old [⟨x, .ext, .i64⟩] hi2
    rw [this] at hp2; exact (Option.some.inj hp2).symm
  subst e1 e2
  simp only [mockSym_binop, mockSym_comment, List.append_assoc, CodeAt_hook] at hat
  simp only [List.cons_append, List.nil_append, CodeAt, TempNum.toNat] at hat
  obtain ⟨hcode, _⟩ := hat
  have hB := step_binop P cfg o _ _ _ va vb v hcode (by unfold Mock.T_TEMP at hcap ⊢; omega) hg1 hg2
    (evalBinOp_of_evalOp hv)
  rw [stepsTo_one_inv hst] at hB
  injection hB with hB
  -- the AArch64 code
  simp only [codeStatementR, run_bind_ok, run_pure_ok] at hrunX
  obtain ⟨tX, kxa, htX, s1X, kxb, hs1X, s2X, kxc, hs2X, c2X, k2X, h2X, rfl, rfl⟩ := hrunX
  obtain ⟨pX, hpX, hltX, rfl, rfl, _⟩ := vt_rel htX
  obtain ⟨q1, hq1, hlt1, rfl, rfl, _⟩ := vt_rel hs1X
  obtain ⟨q2, hq2, hlt2, rfl, rfl, _⟩ := vt_rel hs2X
  have hpX' : pX = Γ.length := by
    have := posOf_append_fresh Γ ⟨x, .ext, .i64⟩ hfresh
    rw [this] at hpX
    exact (Option.some.inj hpX).symm
  subst hpX'
  have eq1 : q1 = p1 := by
    have := posOf_append_old [⟨x, .ext, .i64⟩] hi1
    rw [this] at hq1; exact (Option.some.inj hq1).symm
  have eq2 : q2 = p2 := by
    have := posOf_append_old [⟨x, .ext, .i64⟩] hi2
    rw [this] at hq2; exact (Option.some.inj hq2).symm
  subst eq1 eq2
  simp only [TempNum.toNat] at hltX hlt1 hlt2
  generalize hc0 : hookCode a64Backend hooks Γ ++
    [a64Backend.comment (x.print ++ " <- " ++ a.print ++ " " ++ o.sym ++ " " ++ b.print ++ ";")] = c0 at hatX
  have hc0c : ∀ y ∈ c0, ∃ m', y = Code.COMMENT m' := by rw [← hc0]; exact hook_comments hooks Γ _
  have hxl : a64Backend.binop o (posTemp (2 * Γ.length + TempNum.snd.toNat))
      (posTemp (2 * q1 + TempNum.snd.toNat)) (posTemp (2 * q2 + TempNum.snd.toNat)) =
      op o (posTemp (2 * Γ.length + 1)) (posTemp (2 * q1 + 1)) (posTemp (2 * q2 + 1)) := rfl
  rw [hxl] at hatX
  have hatA : XAt cs kp (c0 ++ (op o (posTemp (2 * Γ.length + 1)) (posTemp (2 * q1 + 1))
      (posTemp (2 * q2 + 1)) ++ c2X)) := by
    simpa [List.append_assoc] using hatX
  have hk0 := x_msteps_c0H (c := c) Hp hatA.left hc0 (hkc_mm Hp hK (by
    rw [String.append_assoc, String.append_assoc, String.append_assoc, String.append_assoc, String.append_assoc,
      String.append_assoc]
    exact mm_name_first hHF (mm_append (by decide)))) σ out
  have hw1 := X.words q1 hl1 va hg1
  have hw2 := X.words q2 hl2 vb hg2
  rw [hchi1] at hw1
  rw [hchi2] at hw2
  obtain ⟨σ2, hx2, hv2, F2⟩ := op_correct c 144 σ (X.spOk H) o _ _ _ (isVar_posTemp hltX) (isVar_posTemp hlt1)
    (isVar_posTemp hlt2) va vb v hw1 hw2 hv
  have C2 := core_execCodes H _ X.core (allInt_op o (ok_of_isVar (isVar_posTemp hltX))
    (ok_of_isVar (isVar_posTemp hlt1)) (ok_of_isVar (isVar_posTemp hlt2))) hx2
  have hk2 := x_msteps_codesI Hp hatA.right.left hx2 out (noHk_of_nhOK Hp hK (NoHk.nh_op _ _ _ _))
  have X2 : X3R c (Γ ++ [⟨x, .ext, .i64⟩]) cfg' (roots Γ cfg.temps) hs ι κ σ2 out :=
    X3R.snoc X hltX C2 F2 (a := v) (by rw [hv2]; rfl) (by rw [hB]) (by rw [hB])
      (by rw [hB]) (by rw [hB]) (fun h => absurd rfl h)
  have hcapX := X.cap
  refine ⟨cfg', σ2, _, hst, hk0.trans hk2, hout, hnext, R', ?_, _, _, c2X, h2X, hatA.right.right,
    by rw [hB], ⟨fun t ht => by
      rw [hB]; simp only
      rw [get_set_other _ _ (by omega), get_clobberTemp _ (by unfold Mock.T_TEMP; omega)], fun i hi => by
      rw [mach_keep_frame F2 (by omega) (by omega)]⟩⟩
  show X3R c _ cfg' (roots _ cfg'.temps) hs ι κ _ _
  rw [roots_snoc_ext cfg.temps cfg'.temps Γ _ rfl (fun t ht => by
    rw [hB]; simp only
    rw [get_set_other _ _ (by omega), get_clobberTemp _ (by unfold Mock.T_TEMP; omega)])]
  exact X2

include H Hp in
/-- THREE-WAY SIMULATION OF `print` -/
theorem print_x3M {P : Program} {hooks : Bool} {prog : AxCut.Prog} {Γ : Ctx} {ρ : List Value} {a : Ident}
    {nl : Bool} {next : Stmt} {fv : FV} {cfg : Config} {v : Word}
    (R : RelX P hooks prog ⟨Γ, ρ, .print nl a next fv⟩ cfg) (ha : readInt Γ ρ a = .ok v)
    {hs : HState} {ι : Nat → Nat} {κ : Nat → Nat → Word} {σ : State} {out : List (Bool × Word)} {kp : Nat}
    (X : X3 c Γ cfg hs ι κ σ out)
    {kx kx' : Nat} {items : List Code}
    (hrunX : (codeStatementR a64Backend hooks natRen prog.types (.print nl a next fv) Γ).run kx = .ok (items, kx'))
    (hatX : XAt cs kp items) (hK : HK hkf) :
    ∃ cfg' σ' kp', stepsTo P 1 cfg cfg' ∧
      MStepsH Pm c σ (pcOf hkf cs kp) out σ' (pcOf hkf cs kp') ((nl, v) :: out) ∧
      cfg'.out = (nl, v) :: cfg.out ∧ cfg'.next = cfg.next ∧
      RelX P hooks prog ⟨Γ, ρ, next⟩ cfg' ∧ X3 c Γ cfg' hs ι κ σ' ((nl, v) :: out) ∧
      ∃ k1 k1' items', (codeStatementR a64Backend hooks natRen prog.types next Γ).run k1 = .ok (items', k1') ∧
        XAt cs kp' items' ∧ cfg'.heap = cfg.heap ∧ KeepPos Γ.length cfg cfg' σ σ' := by
  obtain ⟨cfg', hst, hout, hnext, R'⟩ := sim2_print R ha
  obtain ⟨c0m, c0m', ops, hrun, hat⟩ := R.code
  simp only [codeStatementR, run_bind_ok, run_pure_ok, mockSym_variableTemporary, vt_run_ok,
    mockSym_printI64] at hrun
  obtain ⟨t, k1, ⟨pos, hpos, rfl, rfl⟩, c1, k2, ⟨rfl, rfl⟩, c2, k3, h2, rfl, rfl⟩ := hrun
  obtain ⟨i, hi, hl, hg, hchi⟩ := relX_int_ext R ha
  rw [ctxPosition_eq_posOf, hi] at hpos
  cases hpos
  simp only [mockSym_comment, List.append_assoc, CodeAt_hook] at hat
  simp only [List.cons_append, List.nil_append, CodeAt, TempNum.toNat] at hat
  obtain ⟨hcode, _⟩ := hat
  have hB := step_print P cfg nl _ _ v hcode hg
  rw [stepsTo_one_inv hst] at hB
  injection hB with hB
  -- the AArch64 code
  simp only [codeStatementR, run_bind_ok, run_pure_ok] at hrunX
  obtain ⟨tX, kxa, htX, c1X, kxb, hc1X, c2X, k2X, h2X, rfl, rfl⟩ := hrunX
  obtain ⟨pX, hpX, hltX, rfl, rfl, _⟩ := vt_rel htX
  have hpX' : pX = pos := by
    rw [hi] at hpX; exact (Option.some.inj hpX).symm
  subst hpX'
  simp only [TempNum.toNat] at hltX
  have hc1 : c1X = printI64 nl (posTemp (2 * pX + 1)) Γ := by
    have : (a64Backend.printI64 nl (posTemp (2 * pX + TempNum.snd.toNat)) Γ).run kxa =
        .ok (printI64 nl (posTemp (2 * pX + 1)) Γ, kxa) := rfl
    rw [this] at hc1X
    injection hc1X with hc1X
    injection hc1X with e1 _
    exact e1.symm
  subst hc1
  generalize hc0 : hookCode a64Backend hooks Γ ++
    [a64Backend.comment ((if nl then "println_i64" else "print_i64") ++ " " ++ a.print ++ ";")] = c0 at hatX
  have hc0c : ∀ y ∈ c0, ∃ m', y = Code.COMMENT m' := by rw [← hc0]; exact hook_comments hooks Γ _
  have hatA : XAt cs kp (c0 ++ (printI64 nl (posTemp (2 * pX + 1)) Γ ++ c2X)) := by
    simpa [List.append_assoc] using hatX
  have hk0 := x_msteps_c0H (c := c) Hp hatA.left hc0 (hkc_mm Hp hK (by cases nl <;> mm_tac)) σ out
  have hw := X.words pX hl v hg
  rw [hchi] at hw
  obtain ⟨σ2, ex, hsp, hheap, habove, hlv⟩ := print_exec H X.core (nl := nl) hltX (by omega) Γ (by omega) hw
  have hk2 := x_msteps_codesOutI Hp hatA.right.left ex out (noHk_of_nhOK Hp hK (NoHk.nh_printI64G _ _ _ _))
  have hS : σ.sp.toNat = c.stackTop - 96 - 2048 := X.core.spNat H
  -- every temporary of a position of the context survives the call
  have hslot : ∀ q, q < 256 → σ2.tempVal (.spill q) = σ.tempVal (.spill q) := by
    intro q hq
    rw [tempVal_spill, tempVal_spill]
    have ea : σ2.slotAddr q = σ.slotAddr q := by simp [State.slotAddr, hsp]
    rw [ea]
    apply habove
    have := slotAddr_eq (X.spOk H) (p := q) (by rw [SPILL_NUM_eq]; exact hq)
    rw [this, hS]; omega
  have hkeepW : ∀ j, j < Γ.length → σ2.tempVal (posTemp (2 * j + 1)) = σ.tempVal (posTemp (2 * j + 1)) := by
    intro j hj
    have hcapj : 2 * j + 1 < 281 := by have := X.cap; omega
    unfold posTemp
    by_cases hr : 2 * j + 1 + 4 < 30
    · rw [if_pos hr, tempVal_reg (xreg_ar hr), tempVal_reg (xreg_ar hr)]
      exact hlv _ hr (Or.inr (Or.inr ⟨j, Γ[j], by simp [hj], Or.inl (by omega)⟩))
    · rw [if_neg hr]
      exact hslot _ (by omega)
  have hkeepP : ∀ j (hj : j < Γ.length), Γ[j].chi ≠ .ext →
      σ2.tempVal (posTemp (2 * j)) = σ.tempVal (posTemp (2 * j)) := by
    intro j hj hc
    have hcapj : 2 * j < 281 := by have := X.cap; omega
    unfold posTemp
    by_cases hr : 2 * j + 4 < 30
    · rw [if_pos hr, tempVal_reg (xreg_ar hr), tempVal_reg (xreg_ar hr)]
      exact hlv _ hr (Or.inr (Or.inr ⟨j, Γ[j], by simp [hj], Or.inr ⟨rfl, hc⟩⟩))
    · rw [if_neg hr]
      exact hslot _ (by omega)
  have hσ : ∀ t, t < 2 * Γ.length → cfg'.temps.get t = cfg.temps.get t := by
    intro t ht'
    rw [hB]
    simp only
    rw [get_keepPositions]
    simp [Mock.kindsOf, ht']
  have hr := H.room
  refine ⟨cfg', σ2, _, hst, hk0.trans hk2, hout, hnext, R', ?_, _, _, c2X, h2X, hatA.right.right,
    by rw [hB], ⟨hσ, fun i hi => hkeepW i hi⟩⟩
  refine ⟨⟨by rw [hsp]; exact X.core.sp, ?_⟩, X.cap, ?_, ?_, ?_, ?_, ?_⟩
  · intro k hk
    rw [habove _ (by omega), habove _ (by omega)]
    exact X.core.saved k hk
  · intro j hj a' ha'
    rw [hσ _ (by omega)] at ha'
    rw [hkeepW j hj]
    exact X.words j hj a' ha'
  · intro j hj hc r hr'
    rw [hσ _ (by omega)] at hr'
    rw [hkeepP j hj hc]
    exact X.ptrs j hj hc r hr'
  · rw [hB]
    simp only
    rw [X.out]
  · exact heapRel_of_keep X.hrel hheap (hlv 0 (by decide) (Or.inl rfl)) (hlv 1 (by decide) (Or.inr (Or.inl rfl)))
  · have e1 : cfg'.heap = cfg.heap := by rw [hB]
    have e2' : cfg'.next = cfg.next := by rw [hB]
    rw [e1, e2', roots_congr _ _ _ (fun i hi => hσ (2 * i) (by omega))]
    exact X.href

include H Hp hndL in
/-- THREE-WAY SIMULATION OF `ifc` -/
theorem ifc_x3M {P : Program} {hooks : Bool} {prog : AxCut.Prog} {Γ : Ctx} {ρ : List Value} {a : Ident}
    {b : Option Ident} {srt : IfSort} {t e : Stmt} {cfg : Config} {va vb : Word}
    (R : RelX P hooks prog ⟨Γ, ρ, .ifc srt a b t e⟩ cfg) (ha : readInt Γ ρ a = .ok va)
    (hb : match b with | none => vb = 0 | some b' => readInt Γ ρ b' = .ok vb)
    {hs : HState} {ι : Nat → Nat} {κ : Nat → Nat → Word} {σ : State} {out : List (Bool × Word)} {kp : Nat}
    (X : X3 c Γ cfg hs ι κ σ out)
    {kx kx' : Nat} {items : List Code}
    (hrunX : (codeStatementR a64Backend hooks natRen prog.types (.ifc srt a b t e) Γ).run kx = .ok (items, kx'))
    (hatX : XAt cs kp items) (hK : HK hkf) :
    ∃ cfg' σ' kp', stepsTo P 1 cfg cfg' ∧ MStepsH Pm c σ (pcOf hkf cs kp) out σ' (pcOf hkf cs kp') out ∧
      cfg'.out = cfg.out ∧ cfg'.next = cfg.next ∧
      RelX P hooks prog ⟨Γ, ρ, if Pos.evalCmp srt va vb then t else e⟩ cfg' ∧ X3 c Γ cfg' hs ι κ σ' out ∧
      ∃ k1 k1' items', (codeStatementR a64Backend hooks natRen prog.types
          (if Pos.evalCmp srt va vb then t else e) Γ).run k1 = .ok (items', k1') ∧ XAt cs kp' items' ∧
        cfg'.heap = cfg.heap ∧ KeepPos Γ.length cfg cfg' σ σ' := by
  obtain ⟨cfg', hst, hout, hnext, R'⟩ := sim2_ifc R ha hb
  have hstep := stepsTo_one_inv hst
  -- the abstract step changes only the program counter and TEMP
  have J : JumpFacts cfg cfg' := by
    obtain ⟨c0m, c0m', ops, hrun, hat⟩ := R.code
    simp only [codeStatementR, run_bind_ok, run_pure_ok, freshLabelStr_run_ok] at hrun
    obtain ⟨num, k1, ⟨rfl, rfl⟩, c1, k2, h1, c2, k3, h2, c3, k4, h3, rfl, rfl⟩ := hrun
    simp only [mockSym_comment, mockSym_label, List.append_assoc, CodeAt_hook] at hat
    simp only [List.cons_append, List.nil_append, CodeAt] at hat
    rw [CodeAt_append] at hat
    obtain ⟨hat1, _⟩ := hat
    cases b with
    | none =>
      simp only [run_bind_ok, run_pure_ok, mockSym_variableTemporary, vt_run_ok] at h1
      obtain ⟨ta, k5, ⟨p, hp, rfl, rfl⟩, rfl, rfl⟩ := h1
      simp only [mockSym_jumpLabelIfZero, CodeAt] at hat1
      exact step_jifz_facts hat1.1 hstep
    | some b' =>
      simp only [run_bind_ok, run_pure_ok, mockSym_variableTemporary, vt_run_ok] at h1
      obtain ⟨ta, k5, ⟨p, hp, rfl, rfl⟩, tb, k6, ⟨q, hq, rfl, rfl⟩, rfl, rfl⟩ := h1
      simp only [mockSym_jumpLabelIf, CodeAt] at hat1
      exact step_jif_facts hat1.1 hstep
  -- the AArch64 code
  simp only [codeStatementR, run_bind_ok, run_pure_ok, freshLabelStr_run_ok] at hrunX
  obtain ⟨num, _, ⟨rfl, rfl⟩, c1X, k2X, h1X, c2X, k3X, h2X, c3X, k4X, h3X, rfl, rfl⟩ := hrunX
  generalize hc0 : hookCode a64Backend hooks Γ ++ [a64Backend.comment (ifcComment srt a b)] = c0 at hatX
  have hc0c : ∀ y ∈ c0, ∃ m', y = Code.COMMENT m' := by rw [← hc0]; exact hook_comments hooks Γ _
  generalize hlbl : "lab" ++ natRen (kx + 1) = lbl at *
  replace hatX : XAt cs kp (c0 ++ c1X ++ [Code.COMMENT "else branch"] ++ c2X ++
      [Code.LAB lbl, Code.COMMENT "then branch"] ++ c3X) := hatX
  have hk0 := x_msteps_c0H (c := c) Hp (c0 := c0)
    (XAt.left (b := c1X ++ ([Code.COMMENT "else branch"] ++ (c2X ++
      ([Code.LAB lbl, Code.COMMENT "then branch"] ++ c3X))))
      (by simpa [List.append_assoc] using hatX))
    hc0 (hkc_mm Hp hK (by unfold ifcComment; mm_tac)) σ out
  have hatB : XAt cs (kp + c0.length) (c1X ++ ([Code.COMMENT "else branch"] ++ (c2X ++
      ([Code.LAB lbl, Code.COMMENT "then branch"] ++ c3X)))) :=
    XAt.right (a := c0) (by simpa [List.append_assoc] using hatX)
  -- the comparison
  have hcmp : ∃ cmp σ1, c1X = cmp ++ [branchOf srt lbl] ∧
      execCodes c cmp σ = .ok σ1 ∧ Core c σ1 ∧ σ1.flags = some (va, vb) ∧ Frame0 σ σ1 ∧ NhOK cmp := by
    cases b with
    | none =>
      simp only at hb
      subst hb
      simp only [run_bind_ok, run_pure_ok] at h1X
      obtain ⟨ta, _, hta, rfl, rfl⟩ := h1X
      obtain ⟨p, hp, hlt, rfl, rfl, _⟩ := vt_rel hta
      obtain ⟨i, hi, hl, hg, hchi⟩ := relX_int_ext R ha
      rw [hi] at hp
      injection hp with hp
      subst hp
      simp only [TempNum.toNat] at hlt
      have hw := X.words i hl va hg
      rw [hchi] at hw
      obtain ⟨σ1, e1, hf, F1⟩ := compareImmediate_correct c 144 σ (X.spOk H) _ (isVar_posTemp hlt) va hw
      exact ⟨_, σ1, rfl, e1,
        core_execCodes H _ X.core (allInt_compareImmediate (ok_of_isVar (isVar_posTemp hlt)) 0) e1, hf, F1,
        NoHk.nh_compareImmediate _ _⟩
    | some b' =>
      simp only at hb
      simp only [run_bind_ok, run_pure_ok] at h1X
      obtain ⟨ta, _, hta, tb, _, htb, rfl, rfl⟩ := h1X
      obtain ⟨p, hp, hlt, rfl, rfl, _⟩ := vt_rel hta
      obtain ⟨q, hq, hltq, rfl, rfl, _⟩ := vt_rel htb
      obtain ⟨i, hi, hl, hg, hchi⟩ := relX_int_ext R ha
      obtain ⟨j, hj, hlj, hgj, hchij⟩ := relX_int_ext R hb
      rw [hi] at hp
      injection hp with hp
      subst hp
      rw [hj] at hq
      injection hq with hq
      subst hq
      simp only [TempNum.toNat] at hlt hltq
      have hw := X.words i hl va hg
      rw [hchi] at hw
      have hwj := X.words j hlj vb hgj
      rw [hchij] at hwj
      obtain ⟨σ1, e1, hf, F1⟩ := compare_correct c 144 σ (X.spOk H) _ _ (isVar_posTemp hlt) (isVar_posTemp hltq)
        va vb hw hwj
      exact ⟨_, σ1, rfl, e1, core_execCodes H _ X.core (allInt_compare (ok_of_isVar (isVar_posTemp hlt))
        (ok_of_isVar (isVar_posTemp hltq))) e1, hf, F1, NoHk.nh_compare _ _⟩
  obtain ⟨cmp, σ1, rfl, e1, C1, hfl, F1, hnhc⟩ := hcmp
  have hatC : XAt cs (kp + c0.length) (cmp ++ (branchOf srt lbl :: ([Code.COMMENT "else branch"] ++
      (c2X ++ ([Code.LAB lbl, Code.COMMENT "then branch"] ++ c3X))))) := by
    simpa [List.append_assoc] using hatB
  have hk1 := x_msteps_codesI Hp hatC.left e1 out (noHk_of_nhOK Hp hK hnhc)
  have X1' : X3 c Γ cfg' hs ι κ σ1 out := X3.jump (X3R.keep X C1 F1) J
  obtain ⟨csa, csb, hcs, hpcA⟩ := hatC.right
  have hcapX := X.cap
  have hKP : KeepPos Γ.length cfg cfg' σ σ1 := by
    refine ⟨fun t ht => by rw [J.temps, get_clobberTemp _ (by unfold Mock.T_TEMP; omega)], fun i hi => ?_⟩
    exact F1.temp (isVar_posTemp (by omega))
  obtain ⟨cd, hti, hcd⟩ := branchOf_correct srt lbl va vb
  have hget : cs[kp + c0.length + cmp.length]? = some (branchOf srt lbl) := by
    rw [← hpcA, hcs, List.append_assoc]
    exact getElem?_mid _ _ _
  by_cases hcnd : Pos.evalCmp srt va vb = true
  · -- the branch is taken: to the label, over the label and the comment
    simp only [hcnd, if_true]
    have hcsL : cs = (csa ++ [branchOf srt lbl] ++ [Code.COMMENT "else branch"] ++ c2X) ++
        Code.LAB lbl :: ([Code.COMMENT "then branch"] ++ c3X ++ csb) := by
      rw [hcs]; simp [List.append_assoc]
    have hidx : Pm.labels[lbl]? =
        some (pcOf hkf cs (csa ++ [branchOf srt lbl] ++ [Code.COMMENT "else branch"] ++ c2X).length) := by
      apply label_of_nodup Hp hndL
      conv => lhs; rw [hcsL]
      exact getElem?_mid _ _ _
    have hk2 := mstep_bcondI (c := c) Hp hget hti hfl (fun _ => hidx) out
    rw [hcd, hcnd, if_pos rfl] at hk2
    have hk3 := x_msteps_codesI (c := c) Hp (blk := [Code.LAB lbl, Code.COMMENT "then branch"])
      ⟨csa ++ [branchOf srt lbl] ++ [Code.COMMENT "else branch"] ++ c2X, c3X ++ csb,
        by rw [hcsL]; simp [List.append_assoc], rfl⟩ (σ := σ1) rfl out
      (NoHk.cons (hk_false_of_not_comment Hp (fun m e => by cases e))
        (NoHk.cons (hkc_mm Hp hK (by decide)) NoHk.nil))
    refine ⟨cfg', σ1, _, hst, hk0.trans (hk1.trans (hk2.trans hk3)), hout, hnext, ?_, X1', _, _, c3X, h3X, ?_,
      J.heap, hKP⟩
    · simpa [hcnd] using R'
    · exact ⟨csa ++ [branchOf srt lbl] ++ [Code.COMMENT "else branch"] ++ c2X ++
        [Code.LAB lbl, Code.COMMENT "then branch"], csb, by rw [hcsL]; simp [List.append_assoc],
        by simp; omega⟩
  · -- fall through: the comment, then the else branch
    have hcnd' : Pos.evalCmp srt va vb = false := by simpa using hcnd
    simp only [hcnd', Bool.false_eq_true, if_false]
    have hk2 := mstep_bcondI (c := c) Hp hget hti hfl (j := 0)
      (fun h => by rw [hcd, hcnd'] at h; cases h) out
    rw [hcd, hcnd', if_neg (by simp)] at hk2
    have hk3 := x_msteps_codesI (c := c) Hp (blk := [Code.COMMENT "else branch"])
      (k := kp + c0.length + cmp.length + 1)
      ⟨csa ++ [branchOf srt lbl], c2X ++ ([Code.LAB lbl, Code.COMMENT "then branch"] ++ c3X) ++ csb,
        by rw [hcs]; simp [List.append_assoc], by simp [hpcA]⟩ (σ := σ1) rfl out
      (NoHk.cons (hkc_mm Hp hK (by decide)) NoHk.nil)
    refine ⟨cfg', σ1, _, hst, hk0.trans (hk1.trans (hk2.trans hk3)), hout, hnext, ?_, X1', _, _, c2X, h2X, ?_,
      J.heap, hKP⟩
    · simpa [hcnd'] using R'
    · exact ⟨csa ++ [branchOf srt lbl] ++ [Code.COMMENT "else branch"],
        ([Code.LAB lbl, Code.COMMENT "then branch"] ++ c3X) ++ csb, by rw [hcs]; simp [List.append_assoc],
        by simp [hpcA]⟩

end Int3M

end Scc.A64.Ref.K
