/-
  Scc.A64.ConcKHook — with hooks, the AArch64 code of every statement starts with the `#ctx` comment of its context
  (`post_first_hook`; the proof of Scc/X86/ConcHook.lean for `a64Backend`), and what the layout of the lines of a
  routine holds at a hook comment: the hook item with the variables the loader read (`layout_hook_vs`).
  `post_first_hook` is GENERATED from Scc/X86/ConcHook.lean (gen_mhook.py, memory note scc-a64-conc).
-/
import Scc.A64.ConcKMon
import Scc.X86.ConcHook

set_option linter.unusedVariables false
set_option linter.unusedSimpArgs false

namespace Scc.A64.ConcK

open Scc Scc.AxCut Scc.AxCut.Pos Scc.Backend Scc.Backend.Abs Scc.A64 Scc.A64.Ref Scc.A64.CC
open Scc.X86 (Post)

/-- with hooks, the code of every statement starts with the `#ctx` comment of its context -/
theorem post_first_hook (ren : Nat → String) (types : List TypeDecl) : ∀ (s : Stmt) (Γ : Ctx),
    Post (codeStatementR a64Backend true ren types s Γ)
      (fun items => ∃ rest, items = Code.COMMENT (ctxHookComment Γ) :: rest)
  | .subst rearrange next, Γ => by
    simp only [codeStatementR]
    refine Post.bind (Post.true _) fun c1 _ => ?_
    refine Post.bind (Post.true _) fun c2 _ => ?_
    refine Post.bind (Post.true _) fun c3 _ => ?_
    exact Post.pure ⟨_, rfl⟩
  | .call label args, Γ => by
    simp only [codeStatementR]
    exact Post.pure ⟨_, rfl⟩
  | .letS var ty tag args next fv, Γ => by
    simp only [codeStatementR]
    refine Post.bind (Post.true _) fun decl _ => ?_
    refine Post.bind (Post.true _) fun pos _ => ?_
    refine Post.bind (Post.true _) fun sp _ => ?_
    obtain ⟨context1, arguments⟩ := sp
    dsimp only
    refine Post.bind (Post.true _) fun c1 _ => ?_
    refine Post.bind (Post.true _) fun t _ => ?_
    refine Post.bind (Post.true _) fun c3 _ => ?_
    exact Post.pure ⟨_, rfl⟩
  | .switch var ty clauses fv, Γ => by
    simp only [codeStatementR]
    refine Post.bind (Post.true _) fun num _ => ?_
    refine Post.bind (Post.true _) fun c1 _ => ?_
    refine Post.bind (Post.true _) fun c3 _ => ?_
    exact Post.pure ⟨_, rfl⟩
  | .create var ty env clauses next fv1 fv2, Γ => by
    cases env with
    | none => simp only [codeStatementR]; exact Post.throw
    | some envCtx =>
      simp only [codeStatementR]
      refine Post.bind (Post.true _) fun sp _ => ?_
      obtain ⟨context1, closureEnvironment⟩ := sp
      dsimp only
      refine Post.bind (Post.true _) fun c1 _ => ?_
      refine Post.bind (Post.true _) fun num _ => ?_
      refine Post.bind (Post.true _) fun t _ => ?_
      refine Post.bind (Post.true _) fun c3 _ => ?_
      refine Post.bind (Post.true _) fun c5 _ => ?_
      exact Post.pure ⟨_, rfl⟩
  | .invoke var tag ty args, Γ => by
    simp only [codeStatementR]
    refine Post.bind (Post.true _) fun t _ => ?_
    refine Post.bind (Post.true _) fun decl _ => ?_
    split
    · exact Post.pure ⟨_, rfl⟩
    · exact Post.bind (Post.true _) fun pos _ => Post.pure ⟨_, rfl⟩
  | .lit var n next fv, Γ => by
    simp only [codeStatementR]
    refine Post.bind (Post.true _) fun t _ => ?_
    refine Post.bind (Post.true _) fun c2 _ => ?_
    exact Post.pure ⟨_, rfl⟩
  | .op var fst o snd next fv, Γ => by
    simp only [codeStatementR]
    refine Post.bind (Post.true _) fun t _ => ?_
    refine Post.bind (Post.true _) fun s1 _ => ?_
    refine Post.bind (Post.true _) fun s2 _ => ?_
    refine Post.bind (Post.true _) fun c2 _ => ?_
    exact Post.pure ⟨_, rfl⟩
  | .print newline var next fv, Γ => by
    simp only [codeStatementR]
    refine Post.bind (Post.true _) fun t _ => ?_
    refine Post.bind (Post.true _) fun c1 _ => ?_
    refine Post.bind (Post.true _) fun c2 _ => ?_
    exact Post.pure ⟨_, rfl⟩
  | .ifc sort fst snd thenc elsec, Γ => by
    simp only [codeStatementR]
    refine Post.bind (Post.true _) fun num _ => ?_
    refine Post.bind (Post.true _) fun c1 _ => ?_
    refine Post.bind (Post.true _) fun c2 _ => ?_
    refine Post.bind (Post.true _) fun c3 _ => ?_
    exact Post.pure ⟨_, rfl⟩
  | .exit var, Γ => by
    simp only [codeStatementR]
    exact Post.bind (Post.true _) fun t _ => Post.pure ⟨_, rfl⟩


/-- the layout of the lines of a routine holds, at the position of a comment the loader reads as a hook of `vs`,
the hook item of `vs` -/
theorem layout_hook_vs {hkv : String → Option (List (String × Kind))} {ls : List (Nat × PLine)}
    {routine : List Code} (h : Lines hkv ls routine) {k : Nat} {m : String} {vs : List (String × Kind)}
    (hc : routine[k]? = some (Code.COMMENT m)) (hv : hkv m = some vs) :
    (layout ls).items[pcOf (hkOf hkv) routine k]? = some (.hook vs) := by
  obtain ⟨f1, f2⟩ := fold_lines h {}
  have hall := lines_hasLine h
  have hcnt : ∀ k, icnt (hkOf hkv) (routine.take k) = ((routine.take k).filterMap (itemOfCode hkv)).length :=
    fun k => icnt_eq fun c hc => hall c (List.mem_of_mem_take hc)
  have hitems : ∀ j : Nat, (layout ls).items[j]? = (routine.filterMap (itemOfCode hkv))[j]? := by
    intro j
    rw [layout_items', ← Array.getElem?_toList, f1]
    simp
  unfold pcOf
  rw [hitems, hcnt]
  exact filterMap_take_get _ routine k _ _ hc (by simp [itemOfCode, lineOf, hv, itemOfLine])

end Scc.A64.ConcK
