/-
  Scc.A64.RefSideLabMem — SIDE HYPOTHESES of the AArch64 run theorems (C07), part 3a: the labels DEFINED by
  the code of the memory methods of the AArch64 backend (memory.rs: erase_block, share_block_n, store, load).
  Every label definition of that code comes from `skip_if_zero` / `if_zero_then_else`, which define the
  labels `lab<n>` of the numbers they draw: for EVERY run of a memory method from the counter value `k` to
  `k'`, the labels defined by the code are `lab<n>` for pairwise distinct numbers `k < n ≤ k'` (`LFC`).
  The AArch64 analogue of Scc/X86/RefSideLabMem.lean.
-/
import Scc.A64.RefStep
import Scc.A64.MemProofsLoadTop
import Scc.A64.MemProofsStoreFields

set_option linter.unusedVariables false
set_option linter.unusedSimpArgs false

namespace Scc.A64.Ref

open Scc.AxCut Scc.Backend Scc.A64

/-- `L` lists the local labels `lab<n>` of pairwise distinct numbers in `(lo, hi]` -/
def LF (lo hi : Nat) (L : List String) : Prop :=
  ∃ ns : List Nat, L = ns.map labName ∧ ns.Nodup ∧ ∀ n ∈ ns, lo < n ∧ n ≤ hi

theorem LF.nil (lo hi : Nat) : LF lo hi [] := ⟨[], rfl, List.nodup_nil, fun _ h => by cases h⟩

theorem LF.mono {lo hi lo' hi' : Nat} {L : List String} (h : LF lo hi L) (h1 : lo' ≤ lo) (h2 : hi ≤ hi') :
    LF lo' hi' L := by
  obtain ⟨ns, e, nd, hr⟩ := h
  exact ⟨ns, e, nd, fun n hn => by have := hr n hn; omega⟩

theorem LF.append {a b c : Nat} {L1 L2 : List String} (h1 : LF a b L1) (h2 : LF b c L2) (hab : a ≤ b)
    (hbc : b ≤ c) : LF a c (L1 ++ L2) := by
  obtain ⟨n1, e1, d1, r1⟩ := h1
  obtain ⟨n2, e2, d2, r2⟩ := h2
  refine ⟨n1 ++ n2, by rw [e1, e2, List.map_append], ?_, ?_⟩
  · rw [List.nodup_append]
    refine ⟨d1, d2, ?_⟩
    intro x hx y hy e
    have := r1 x hx
    have := r2 y hy
    omega
  · intro n hn
    rcases List.mem_append.1 hn with h | h
    · have := r1 n h; omega
    · have := r2 n h; omega

/-- the same with the two parts in the other order in the code -/
theorem LF.append' {a b c : Nat} {L1 L2 : List String} (h1 : LF a b L1) (h2 : LF b c L2) (hab : a ≤ b)
    (hbc : b ≤ c) : LF a c (L2 ++ L1) := by
  obtain ⟨n1, e1, d1, r1⟩ := h1
  obtain ⟨n2, e2, d2, r2⟩ := h2
  refine ⟨n2 ++ n1, by rw [e1, e2, List.map_append], ?_, ?_⟩
  · rw [List.nodup_append]
    refine ⟨d2, d1, ?_⟩
    intro x hx y hy e
    have := r2 x hx
    have := r1 y hy
    omega
  · intro n hn
    rcases List.mem_append.1 hn with h | h
    · have := r2 n h; omega
    · have := r1 n h; omega

theorem LF.single (k : Nat) : LF k (k + 1) [labName (k + 1)] :=
  ⟨[k + 1], rfl, by simp, fun n hn => by simp at hn; omega⟩

/-- no label is defined -/
abbrev NL (code : List Code) : Prop := NoL code

theorem NL.labs {code : List Code} (h : NL code) : labs code = [] := labs_nil_of h

theorem NL.append {a b : List Code} (ha : NL a) (hb : NL b) : NL (a ++ b) := noL_append ha hb

theorem NL.nil : NL [] := noL_nil

theorem labs_cons_lab (l : String) (r : List Code) : labs (.LAB l :: r) = l :: labs r := rfl

theorem labs_cons_other {c : Code} (h : labOf c = none) (r : List Code) : labs (c :: r) = labs r := by
  unfold labs
  rw [List.filterMap_cons, h]

/-- the labels defined by `code`, generated from counter `k` to `k'` -/
def LFC (k k' : Nat) (code : List Code) : Prop := k ≤ k' ∧ LF k k' (labs code)

theorem LFC.of_nl {code : List Code} (h : NL code) (k : Nat) : LFC k k code :=
  ⟨Nat.le_refl _, by rw [h.labs]; exact LF.nil _ _⟩

theorem LFC.append {a b c : Nat} {c1 c2 : List Code} (h1 : LFC a b c1) (h2 : LFC b c c2) :
    LFC a c (c1 ++ c2) :=
  ⟨by have := h1.1; have := h2.1; omega, by rw [labs_append]; exact h1.2.append h2.2 h1.1 h2.1⟩

theorem LFC.nl_left {a b : Nat} {c1 c2 : List Code} (h1 : NL c1) (h2 : LFC a b c2) : LFC a b (c1 ++ c2) :=
  ⟨h2.1, by rw [labs_append, h1.labs]; exact h2.2⟩

theorem LFC.nl_right {a b : Nat} {c1 c2 : List Code} (h1 : LFC a b c1) (h2 : NL c2) : LFC a b (c1 ++ c2) :=
  ⟨h1.1, by rw [labs_append, h2.labs, List.append_nil]; exact h1.2⟩

theorem LFC.cons_other {a b : Nat} {c : Code} {c2 : List Code} (h : labOf c = none) (h2 : LFC a b c2) :
    LFC a b (c :: c2) :=
  ⟨h2.1, by rw [labs_cons_other h]; exact h2.2⟩

/-! ## the two combinators -/

theorem labs_skipIfZero (cond : Register) (body : List Code) (k : Nat) :
    labs ([.CMPI cond 0, .BEQ (labName (k + 1))] ++ body ++ [.LAB (labName (k + 1))]) =
      labs body ++ [labName (k + 1)] := by
  simp only [labs_append]
  rfl

theorem lfc_skipIfZero {cond : Register} {body : List Code} {a k : Nat} (hb : LFC a k body)
    {code : List Code} {k' : Nat} (h : (skipIfZero cond body).run k = .ok (code, k')) : LFC a k' code := by
  rw [skipIfZero_run] at h
  injection h with h
  injection h with h1 h2
  subst h1 h2
  refine ⟨by have := hb.1; omega, ?_⟩
  rw [labs_skipIfZero]
  exact hb.2.append (LF.single k) hb.1 (by omega)

theorem labs_ifZeroThenElse (cond : Register) (tb eb : List Code) (k : Nat) :
    labs ([.CMPI cond 0, .BEQ (labName (k + 1))] ++ eb ++ [.B (labName (k + 2)), .LAB (labName (k + 1))] ++ tb ++
      [.LAB (labName (k + 2))]) = labs eb ++ labName (k + 1) :: (labs tb ++ [labName (k + 2)]) := by
  simp only [labs_append]
  have e1 : labs [Code.CMPI cond 0, Code.BEQ (labName (k + 1))] = [] := rfl
  rw [e1]
  simp only [List.nil_append, List.append_assoc]
  rfl

/-- `if_zero_then_else`: the branches were generated before, from `a` to `b` and from `b` to `k` (in any
order) -/
theorem lfc_ifZeroThenElse {r : Register} {tb eb : List Code} {a k : Nat}
    (hb : LF a k (labs eb ++ labs tb)) (hak : a ≤ k)
    {code : List Code} {k' : Nat} (h : (ifZeroThenElse r tb eb).run k = .ok (code, k')) : LFC a k' code := by
  rw [ifZeroThenElse_run] at h
  injection h with h
  injection h with h1 h2
  subst h1 h2
  refine ⟨by omega, ?_⟩
  rw [labs_ifZeroThenElse]
  obtain ⟨ns, e, nd, hr⟩ := hb
  -- split the number list along the two branches
  have hlen : (labs eb).length ≤ ns.length := by
    have := congrArg List.length e
    simp at this
    omega
  have e1 : labs eb = (ns.take (labs eb).length).map labName := by
    have := congrArg (List.take (labs eb).length) e
    rw [List.take_left' rfl, ← List.map_take] at this
    exact this
  have e2 : labs tb = (ns.drop (labs eb).length).map labName := by
    have := congrArg (List.drop (labs eb).length) e
    rw [List.drop_left' rfl, ← List.map_drop] at this
    exact this
  refine ⟨ns.take (labs eb).length ++ (k + 1) :: (ns.drop (labs eb).length ++ [k + 2]), ?_, ?_, ?_⟩
  · rw [List.map_append, List.map_cons, List.map_append, ← e1, ← e2]
    rfl
  · have hnd : (ns.take (labs eb).length ++ ns.drop (labs eb).length).Nodup := by
      rw [List.take_append_drop]; exact nd
    rw [List.nodup_append] at hnd ⊢
    obtain ⟨d1, d2, d3⟩ := hnd
    refine ⟨d1, ?_, ?_⟩
    · rw [List.nodup_cons, List.nodup_append]
      refine ⟨?_, d2, by simp, ?_⟩
      · intro hm
        rcases List.mem_append.1 hm with hm | hm
        · have := hr _ (List.mem_of_mem_drop hm); omega
        · simp at hm
      · intro x hx y hy exy
        simp at hy
        have := hr _ (List.mem_of_mem_drop hx); omega
    · intro x hx y hy exy
      have h1 := hr _ (List.mem_of_mem_take hx)
      rcases List.mem_cons.1 hy with hy | hy
      · omega
      · rcases List.mem_append.1 hy with hy | hy
        · exact d3 x hx y hy exy
        · simp at hy; omega
  · intro n hn
    rcases List.mem_append.1 hn with hn | hn
    · have := hr _ (List.mem_of_mem_take hn); omega
    · rcases List.mem_cons.1 hn with hn | hn
      · omega
      · rcases List.mem_append.1 hn with hn | hn
        · have := hr _ (List.mem_of_mem_drop hn); omega
        · simp at hn; omega

/-! ## erase_block, share_block_n, acquire_block: explicit code -/

theorem nl_loadPtr (t : Temporary) : NL (loadPtr t) := by
  cases t
  · exact noL_nil
  · exact noL_single rfl

theorem labs_eraseCode (r : Register) (l1 l2 l3 : String) : labs (eraseCode r l1 l2 l3) = [l1, l2, l3] := rfl

theorem lfc_eraseBlock {t : Temporary} {k : Nat} {code : List Code} {k' : Nat}
    (h : (eraseBlock t).run k = .ok (code, k')) : LFC k k' code := by
  rw [eraseBlock_run] at h
  injection h with h
  injection h with h1 h2
  subst h1 h2
  refine ⟨by omega, ?_⟩
  rw [labs_append, (nl_loadPtr t).labs, labs_eraseCode]
  refine ⟨[k + 1, k + 2, k + 3], rfl, ?_, ?_⟩
  · simp
  · intro n hn
    simp only [List.mem_cons, List.not_mem_nil, or_false] at hn
    omega

theorem labs_shareCode (r : Register) (n : Nat) (l : String) : labs (shareCode r n l) = [l] := rfl

theorem lfc_shareBlockN {t : Temporary} {n k : Nat} {code : List Code} {k' : Nat}
    (h : (shareBlockN t n).run k = .ok (code, k')) : LFC k k' code := by
  rw [shareBlockN_run] at h
  injection h with h
  injection h with h1 h2
  subst h1 h2
  refine ⟨by omega, ?_⟩
  rw [labs_append, (nl_loadPtr t).labs, labs_shareCode]
  exact LF.single k

theorem nl_acquireHead (t : Temporary) : NL (acquireHead t) := by
  cases t
  · exact noL_single rfl
  · exact noL_cons rfl (noL_single rfl)

theorem labs_eraseFieldCode (blk : Register) (i k : Nat) :
    labs (eraseFieldCode blk i k) = [labName (k + 1), labName (k + 2), labName (k + 3)] := rfl

theorem lfc_acquireBlock {t : Temporary} {k : Nat} {code : List Code} {k' : Nat}
    (h : (acquireBlock t).run k = .ok (code, k')) : LFC k k' code := by
  rw [acquireBlock_run] at h
  injection h with h
  injection h with h1 h2
  subst h1 h2
  refine ⟨by omega, ?_⟩
  have e : labs (acquireHead t ++ [Code.COMMENT "##get next free block into heap register",
          .COMMENT "###(1) check linear free list for next block", .LDR HEAP HEAP NEXT_ELEMENT_OFFSET] ++
        ([Code.CMPI HEAP 0, .BEQ (labName (k + 12))] ++
          [Code.COMMENT "####initialize refcount of just acquired block",
           .STR .xzr (ptrReg t) REFERENCE_COUNT_OFFSET] ++
          [Code.B (labName (k + 13)), .LAB (labName (k + 12))] ++
          ([Code.COMMENT "###(2) check non-linear lazy free list for next block", .MOVR HEAP FREE,
            .LDR FREE FREE NEXT_ELEMENT_OFFSET] ++
            acquireInner (eraseFieldCode HEAP 0 k ++ (eraseFieldCode HEAP 1 (k + 3) ++
              (eraseFieldCode HEAP 2 (k + 6) ++ []))) k) ++
          [Code.LAB (labName (k + 13))])) =
      [k + 12, k + 1, k + 2, k + 3, k + 3 + 1, k + 3 + 2, k + 3 + 3, k + 6 + 1, k + 6 + 2, k + 6 + 3,
        k + 10, k + 11, k + 13].map labName := by
    rw [labs_append, labs_append, (nl_acquireHead t).labs]
    rfl
  rw [e]
  refine ⟨_, rfl, ?_, ?_⟩
  · simp
  · intro n hn
    simp only [List.mem_cons, List.not_mem_nil, or_false] at hn
    omega

/-! ## counters of the auxiliary generators -/

theorem tfp_k {p k : Nat} {t : Temporary} {k' : Nat}
    (h : (temporaryFromPosition p).run k = .ok (t, k')) : k' = k := by
  unfold temporaryFromPosition at h
  simp only at h
  split at h
  · simp only [run_pure_ok] at h; exact h.2.symm
  · split at h
    · simp only [run_pure_ok] at h; exact h.2.symm
    · exact ((run_throw_ok _ _ _ _).1 h).elim

theorem freshTemporary_k {n : TempNum} {Γ : Ctx} {k : Nat} {t : Temporary} {k' : Nat}
    (h : (freshTemporary n Γ).run k = .ok (t, k')) : k' = k := tfp_k h

theorem a64_vt_k {n : TempNum} {Γ : Ctx} {id k : Nat} {t : Temporary} {k' : Nat}
    (h : (variableTemporary n Γ id).run k = .ok (t, k')) : k' = k := by
  unfold variableTemporary at h
  cases hp : getPosition Γ id with
  | none => rw [hp] at h; exact ((run_throw_ok _ _ _ _).1 h).elim
  | some p => rw [hp] at h; exact tfp_k h

theorem storeField_nl {n : TempNum} {Γ : Ctx} {r : Register} {off k : Nat} {code : List Code} {k' : Nat}
    (h : (storeField n Γ r off).run k = .ok (code, k')) : k' = k ∧ NL code := by
  simp only [storeField, run_bind_ok] at h
  obtain ⟨t, k1, h1, h2⟩ := h
  have := freshTemporary_k h1
  subst this
  cases t with
  | register x =>
    simp only [run_pure_ok] at h2; obtain ⟨rfl, rfl⟩ := h2; exact ⟨rfl, noL_single rfl⟩
  | spill x =>
    simp only [run_pure_ok] at h2; obtain ⟨rfl, rfl⟩ := h2; exact ⟨rfl, noL_cons rfl (noL_single rfl)⟩

theorem loadField_nl {n : TempNum} {Γ : Ctx} {r : Register} {off k : Nat} {code : List Code} {k' : Nat}
    (h : (loadField n Γ r off).run k = .ok (code, k')) : k' = k ∧ NL code := by
  simp only [loadField, run_bind_ok] at h
  obtain ⟨t, k1, h1, h2⟩ := h
  have := freshTemporary_k h1
  subst this
  cases t with
  | register x =>
    simp only [run_pure_ok] at h2; obtain ⟨rfl, rfl⟩ := h2; exact ⟨rfl, noL_single rfl⟩
  | spill x =>
    simp only [run_pure_ok] at h2; obtain ⟨rfl, rfl⟩ := h2; exact ⟨rfl, noL_cons rfl (noL_single rfl)⟩

theorem nl_storeZero (r : Register) (off : Nat) : NL (storeZero r off) := noL_single rfl

theorem nl_storeZeros (n : Nat) (r : Register) : NL (storeZeros n r) := by
  intro c hc
  unfold storeZeros at hc
  rw [List.mem_flatMap] at hc
  obtain ⟨off, _, hcl⟩ := hc
  exact nl_storeZero r off c hcl

theorem storeValue_nl {b : Binding} {Γ : Ctx} {r : Register} {off k : Nat} {code : List Code} {k' : Nat}
    (h : (storeValue b Γ r off).run k = .ok (code, k')) : k' = k ∧ NL code := by
  simp only [storeValue, run_bind_ok] at h
  obtain ⟨c1, k1, h1, h2⟩ := h
  obtain ⟨rfl, n1⟩ := storeField_nl h1
  split at h2
  · simp only [run_pure_ok] at h2
    obtain ⟨rfl, rfl⟩ := h2
    exact ⟨rfl, n1.append (nl_storeZero r off)⟩
  · simp only [run_bind_ok, run_pure_ok] at h2
    obtain ⟨c2, k2, h3, rfl, rfl⟩ := h2
    obtain ⟨rfl, n2⟩ := storeField_nl h3
    exact ⟨rfl, n1.append n2⟩

theorem storeValuesLoop_nl (Γ : Ctx) (r : Register) : ∀ (bs : List Binding) (ff k : Nat) (res : List Code × Nat)
    (k' : Nat), (storeValuesLoop Γ r bs ff).run k = .ok (res, k') → k' = k ∧ NL res.1
  | [], ff, k, res, k', h => by
    simp only [storeValuesLoop, run_pure_ok] at h
    obtain ⟨rfl, rfl⟩ := h
    exact ⟨rfl, NL.nil⟩
  | b :: rest, ff, k, res, k', h => by
    simp only [storeValuesLoop] at h
    split at h
    · exact ((run_throw_ok _ _ _ _).1 h).elim
    · simp only [run_bind_ok, run_pure_ok] at h
      obtain ⟨c, k2, h2, ⟨cs, ff'⟩, k3, h3, rfl, rfl⟩ := h
      obtain ⟨rfl, n1⟩ := storeValue_nl h2
      obtain ⟨rfl, n2⟩ := storeValuesLoop_nl Γ r rest _ _ _ _ h3
      exact ⟨rfl, n1.append n2⟩

theorem storeValues_nl {ts Γ : Ctx} {r : Register} {ff k : Nat} {code : List Code} {k' : Nat}
    (h : (storeValues ts Γ r ff).run k = .ok (code, k')) : k' = k ∧ NL code := by
  simp only [storeValues, run_bind_ok, run_pure_ok] at h
  obtain ⟨⟨cs, ff'⟩, k1, h1, rfl, rfl⟩ := h
  obtain ⟨rfl, n1⟩ := storeValuesLoop_nl Γ r _ _ _ _ _ h1
  refine ⟨rfl, ?_⟩
  refine NL.append (NL.append (NL.append (noL_single rfl) n1) ?_) (nl_storeZeros _ _)
  split
  · exact noL_single rfl
  · exact noL_nil

theorem storeLink_nl {bp : BlockPosition} {Γ : Ctx} {k : Nat} {code : List Code} {k' : Nat}
    (h : (storeLink bp Γ).run k = .ok (code, k')) : k' = k ∧ NL code := by
  unfold storeLink at h
  split at h
  · simp only [run_bind_ok, run_pure_ok] at h
    obtain ⟨c, k1, h1, rfl, rfl⟩ := h
    obtain ⟨rfl, n⟩ := storeField_nl h1
    exact ⟨rfl, noL_cons rfl n⟩
  · simp only [run_pure_ok] at h
    obtain ⟨rfl, rfl⟩ := h
    exact ⟨rfl, NL.nil⟩

theorem loadLink_nl {bp : BlockPosition} {Γ : Ctx} {r : Register} {k : Nat} {code : List Code} {k' : Nat}
    (h : (loadLink bp Γ r).run k = .ok (code, k')) : k' = k ∧ NL code := by
  unfold loadLink at h
  split at h
  · simp only [run_bind_ok, run_pure_ok] at h
    obtain ⟨c, k1, h1, rfl, rfl⟩ := h
    obtain ⟨rfl, n⟩ := loadField_nl h1
    exact ⟨rfl, noL_cons rfl n⟩
  · simp only [run_pure_ok] at h
    obtain ⟨rfl, rfl⟩ := h
    exact ⟨rfl, NL.nil⟩

/-! ## store -/

theorem nl_loadImmediate (t : Temporary) (i : Int) : NL (loadImmediate t i) := noL_loadImmediate t i

theorem lfc_storeFields : ∀ (fuel : Nat) (ts rem : Ctx) (bp : BlockPosition) (k : Nat) (code : List Code) (k' : Nat),
    (storeFields fuel ts rem bp).run k = .ok (code, k') → LFC k k' code
  | 0, ts, rem, bp, k, code, k', h => by
    simp only [storeFields] at h
    exact ((run_throw_ok _ _ _ _).1 h).elim
  | fuel + 1, ts, rem, bp, k, code, k', h => by
    simp only [storeFields] at h
    split at h
    · split at h
      · simp only [run_bind_ok, run_pure_ok] at h
        obtain ⟨t, k1, h1, rfl, rfl⟩ := h
        have := freshTemporary_k h1
        subst this
        exact LFC.of_nl (noL_cons rfl (nl_loadImmediate t 0)) _
      · simp only [run_pure_ok] at h
        obtain ⟨rfl, rfl⟩ := h
        exact LFC.of_nl NL.nil _
    · simp only [run_bind_ok, run_pure_ok] at h
      obtain ⟨c1, k1, h1, c3, k3, h3, t, k4, h4, c4, k5, h5, c5, k6, h6, rfl, rfl⟩ := h
      obtain ⟨rfl, n1⟩ := storeLink_nl h1
      obtain ⟨rfl, n3⟩ := storeValues_nl h3
      have := freshTemporary_k h4
      subst this
      have l4 := lfc_acquireBlock h5
      have l5 := lfc_storeFields fuel _ _ _ _ _ _ h6
      have n2 : NL (if bp == BlockPosition.last then [Code.COMMENT "#allocate memory"] else []) := by
        split
        · exact noL_single rfl
        · exact noL_nil
      have nc : NL [Code.COMMENT "##acquire free block from heap register"] := noL_single rfl
      exact (LFC.nl_left (((n1.append n2).append n3).append nc) l4).append l5

theorem lfc_store {ts rem : Ctx} {k : Nat} {code : List Code} {k' : Nat}
    (h : (store ts rem).run k = .ok (code, k')) : LFC k k' code :=
  lfc_storeFields _ _ _ _ _ _ _ h

/-! ## load -/

theorem lfc_shareTail {m : LoadMode} {reg : Register} {c12 : List Code} (n : NL c12) {k : Nat}
    {code : List Code} {k' : Nat}
    (h : (if m == LoadMode.share then do
            let c3 ← shareBlock (Temporary.register reg)
            pure (c12 ++ c3)
          else pure c12 : GenM (List Code)).run k = .ok (code, k')) : LFC k k' code := by
  split at h
  · simp only [run_bind_ok, run_pure_ok] at h
    obtain ⟨c3, k4, h6, rfl, rfl⟩ := h
    exact LFC.nl_left n (lfc_shareBlockN h6)
  · simp only [run_pure_ok] at h
    obtain ⟨rfl, rfl⟩ := h
    exact LFC.of_nl n _

theorem lfc_loadValue {b : Binding} {Γ : Ctx} {r : Register} {off : Nat} {m : LoadMode} {k : Nat}
    {code : List Code} {k' : Nat} (h : (loadValue b Γ r off m).run k = .ok (code, k')) : LFC k k' code := by
  simp only [loadValue, run_bind_ok] at h
  obtain ⟨c1, k1, h1, h2⟩ := h
  obtain ⟨rfl, n1⟩ := loadField_nl h1
  split at h2
  · simp only [run_bind_ok] at h2
    obtain ⟨c2, k2, h3, rs, k3, h4, h5⟩ := h2
    obtain ⟨rfl, n2⟩ := loadField_nl h3
    have := freshTemporary_k h4
    subst this
    cases rs with
    | register reg =>
      simp only [run_bind_ok] at h5
      obtain ⟨reg', k5, h6, h7⟩ := h5
      simp only [run_pure_ok] at h6
      obtain ⟨rfl, rfl⟩ := h6
      exact lfc_shareTail (n1.append n2) h7
    | spill pos =>
      simp only [run_bind_ok] at h5
      obtain ⟨reg', k5, h6, h7⟩ := h5
      simp only [run_pure_ok] at h6
      obtain ⟨rfl, rfl⟩ := h6
      exact lfc_shareTail (n1.append n2) h7
  · simp only [run_pure_ok] at h2
    obtain ⟨rfl, rfl⟩ := h2
    exact LFC.of_nl n1 _

theorem lfc_loadValuesLoop (Γ : Ctx) (r : Register) (m : LoadMode) : ∀ (bs : List Binding) (ff k : Nat)
    (code : List Code) (k' : Nat), (loadValuesLoop Γ r m bs ff).run k = .ok (code, k') → LFC k k' code
  | [], ff, k, code, k', h => by
    simp only [loadValuesLoop, run_pure_ok] at h
    obtain ⟨rfl, rfl⟩ := h
    exact LFC.of_nl NL.nil _
  | b :: rest, ff, k, code, k', h => by
    simp only [loadValuesLoop] at h
    split at h
    · exact ((run_throw_ok _ _ _ _).1 h).elim
    · simp only [run_bind_ok, run_pure_ok] at h
      obtain ⟨c, k2, h2, cs, k3, h3, rfl, rfl⟩ := h
      exact (lfc_loadValue h2).append (lfc_loadValuesLoop Γ r m rest _ _ _ _ h3)

theorem lfc_loadValues {tl Γ : Ctx} {r : Register} {ff : Nat} {m : LoadMode} {k : Nat} {code : List Code}
    {k' : Nat} (h : (loadValues tl Γ r ff m).run k = .ok (code, k')) : LFC k k' code := by
  simp only [loadValues, run_bind_ok, run_pure_ok] at h
  obtain ⟨cs, k1, h1, rfl, rfl⟩ := h
  exact LFC.cons_other rfl (lfc_loadValuesLoop _ _ _ _ _ _ _ _ h1)

theorem nl_releaseBlock (r : Register) : NL (releaseBlock r) := noL_cons rfl (noL_single rfl)

theorem lfc_loadFields : ∀ (fuel : Nat) (tl ex : Ctx) (bp : BlockPosition) (m : LoadMode) (rf : Bool) (k : Nat)
    (res : List Code × Bool) (k' : Nat), (loadFields fuel tl ex bp m rf).run k = .ok (res, k') → LFC k k' res.1
  | 0, tl, ex, bp, m, rf, k, res, k', h => by
    simp only [loadFields] at h
    exact ((run_throw_ok _ _ _ _).1 h).elim
  | fuel + 1, tl, ex, bp, m, rf, k, res, k', h => by
    simp only [loadFields] at h
    split at h
    · simp only [run_pure_ok] at h
      obtain ⟨rfl, rfl⟩ := h
      exact LFC.of_nl NL.nil _
    · simp only [run_bind_ok] at h
      obtain ⟨⟨c0, rf0⟩, k1, h1, mb, k2, h2, h3⟩ := h
      have l0 := lfc_loadFields fuel _ _ _ _ _ _ _ _ h1
      have := freshTemporary_k h2
      subst this
      cases mb with
      | register x =>
        simp only [run_bind_ok, run_pure_ok] at h3
        obtain ⟨c2, k3, h4, c3, k4, h5, rfl, rfl⟩ := h3
        obtain ⟨rfl, n2⟩ := loadLink_nl h4
        have n1 : NL (if m == LoadMode.release then Code.COMMENT "###release block" :: releaseBlock x else []) := by
          split
          · exact noL_cons rfl (nl_releaseBlock x)
          · exact noL_nil
        exact (l0.nl_right n1).nl_right n2 |>.append (lfc_loadValues h5)
      | spill x =>
        simp only [run_bind_ok, run_pure_ok] at h3
        obtain ⟨c2, k3, h4, c3, k4, h5, rfl, rfl⟩ := h3
        obtain ⟨rfl, n2⟩ := loadLink_nl h4
        have nE : NL (if (!rf0) = true then
            [Code.COMMENT "###evacuate additional scratch register for memory block",
             Code.STR TEMPORARY_TEMP .sp (stackOffset SPILL_TEMP)] else []) := by
          split
          · exact noL_cons rfl (noL_single rfl)
          · exact noL_nil
        have n1 : NL ([Code.LDR TEMPORARY_TEMP .sp (stackOffset x)] ++
            (if m == LoadMode.release then Code.COMMENT "###release block" :: releaseBlock TEMPORARY_TEMP else [])) := by
          refine NL.append (noL_single rfl) ?_
          split
          · exact noL_cons rfl (nl_releaseBlock _)
          · exact noL_nil
        have n4 : NL (if bp == BlockPosition.last then
            [Code.COMMENT "###restore evacuated register",
             Code.LDR TEMPORARY_TEMP .sp (stackOffset SPILL_TEMP)] else []) := by
          split
          · exact noL_cons rfl (noL_single rfl)
          · exact noL_nil
        exact ((((l0.nl_right nE).nl_right n1).nl_right n2).append (lfc_loadValues h5)).nl_right n4

theorem lfc_loadRegister {r : Register} {tl ex : Ctx} {k : Nat} {code : List Code} {k' : Nat}
    (h : (loadRegister r tl ex).run k = .ok (code, k')) : LFC k k' code := by
  simp only [loadRegister, run_bind_ok, run_pure_ok] at h
  obtain ⟨⟨cT, rT⟩, k1, h1, ⟨cE, rE⟩, k2, h2, c, k3, h3, rfl, rfl⟩ := h
  have lT := lfc_loadFields _ _ _ _ _ _ _ _ _ h1
  have lE := lfc_loadFields _ _ _ _ _ _ _ _ _ h2
  simp only at lT lE
  have hb : LF k k2 (labs ([Code.COMMENT "##either decrement refcount and share children...",
      Code.SUBI TEMP2 TEMP2 1, Code.STR TEMP2 r REFERENCE_COUNT_OFFSET] ++ cE) ++
      labs (Code.COMMENT "##... or release blocks onto linear free list when loading" :: cT)) := by
    have e1 : labs ([Code.COMMENT "##either decrement refcount and share children...",
        Code.SUBI TEMP2 TEMP2 1, Code.STR TEMP2 r REFERENCE_COUNT_OFFSET] ++ cE) = labs cE := by
      rw [labs_append]; rfl
    have e2 : labs (Code.COMMENT "##... or release blocks onto linear free list when loading" :: cT) = labs cT :=
      labs_cons_other rfl _
    rw [e1, e2]
    exact lT.2.append' lE.2 lT.1 lE.1
  have := lfc_ifZeroThenElse hb (by have := lT.1; have := lE.1; omega) h3
  exact LFC.cons_other rfl this

theorem lfc_load {tl ex : Ctx} {k : Nat} {code : List Code} {k' : Nat}
    (h : (load tl ex).run k = .ok (code, k')) : LFC k k' code := by
  simp only [load] at h
  split at h
  · simp only [run_pure_ok] at h
    obtain ⟨rfl, rfl⟩ := h
    exact LFC.of_nl NL.nil _
  · simp only [run_bind_ok] at h
    obtain ⟨mb, k1, h1, h2⟩ := h
    have := freshTemporary_k h1
    subst this
    cases mb with
    | register x =>
      simp only [run_bind_ok, run_pure_ok] at h2
      obtain ⟨c, k2, h3, rfl, rfl⟩ := h2
      exact LFC.nl_left (noL_cons rfl (noL_single rfl)) (lfc_loadRegister h3)
    | spill x =>
      simp only [run_bind_ok, run_pure_ok] at h2
      obtain ⟨c, k2, h3, rfl, rfl⟩ := h2
      exact LFC.nl_left (noL_cons rfl (noL_cons rfl (noL_single rfl))) (lfc_loadRegister h3)

end Scc.A64.Ref
