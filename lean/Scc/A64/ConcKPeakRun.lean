/-
  Scc.A64.ConcKPeakRun — THE THREE-WAY RUN WITH THE FOOTPRINT BOUND OF C10 on AArch64, ALL PROGRAMS (data types
  and closures): the AArch64 analogue of Scc/X86/ConcPeakRun.lean + ConcKPeakRun.lean.
  If at no statement boundary of the run more than `Pk` blocks are in use (`PeakFrom`), the allocation frontier
  never rises above `Pk + 1` blocks, so a heap of `64·(Pk + A + 2)` bytes is enough for a run of ANY length,
  `A` = the largest number of fields of a `let` / of variables captured by a `create` of the program
  (`AllocLe A`: a closure environment is stored by the same `Memory::store` as the fields of an object).
  The bound `AllocLe A` is kept for the current statement AND for the clauses of every closure inside the
  values of the environment (`ValAll`, `hered_step`): `invoke` continues with a statement taken out of a
  closure value.  The machine may be ahead of the boundary item by `#ctx` hooks (`Tol`).
  `FrBound`, `LiveLe0`, `FrBound.step`, `Room.of_frBound` (block level) are those of Scc/X86/ConcPeakRun.lean;
  `AllocLe`, `ValAll`, `hered_step` (positional machine) those of Scc/X86/ConcKStep.lean — backend-independent.
-/
import Scc.A64.ConcKRun
import Scc.X86.ConcPeakRun

set_option linter.unusedVariables false
set_option linter.unusedSimpArgs false

namespace Scc.A64.ConcK

open Scc Scc.AxCut Scc.AxCut.Pos Scc.Backend Scc.Backend.Abs Scc.Backend.Sim Scc.Backend.Subst Scc.A64 Scc.A64.Ref
open Scc.A64.CC
open Scc.Backend.Sim2 Scc.Backend.Keys
open Scc.Props.C14Generic (LabelSafe)
open Scc.Props.C06Generic (outAfter WithinCapacity Reachable EnoughHeap CodeFits statesOf stopsWithin)
open Scc.Heap (HState InvS InvW Exhausted)
open Scc.Heap.Refine (HRef FrLe Room FrPk)
open Scc.X86.Conc (FrBound LiveLe LiveLe0)
open Scc.X86.Ref.K (AllocLe AllocLeClauses ValAll allocArity allocArity_le hered_step hered_allocLe)

/-- THE PEAK HYPOTHESIS from the configuration `X` on: at every statement boundary the machine reaches from
`X` (up to `#ctx` hooks, `Tol`; with at most `C` blocks below the frontier), at most `Pk` blocks are in use -/
def PeakFrom (c : MemCfg) (hkf : Code → Bool) (Pm : Prog) (cs : List Code) (P : Program) (hooks : Bool)
    (prog : AxCut.Prog) (st : Pos.State) (X : MS) (Pk C : Nat) : Prop :=
  ∀ n X' st' cfg' hs' kp', Reachable prog st st' → StepsN Pm c n X X' → K.Tol Pm (pcOf hkf cs kp') X'.pc →
    X'.out = cfg'.out → K.Rel3 c cs P hooks prog st' cfg' hs' X'.σ kp' → FrBound hs' C → LiveLe0 hs' Pk

theorem PeakFrom.step {c : MemCfg} {hkf : Code → Bool} {Pm : Prog} {cs : List Code} {P : Program} {hooks : Bool}
    {prog : AxCut.Prog} {st st1 : Pos.State} {o : Option (Bool × Word)} {X X' : MS} {Pk C n : Nat}
    (h : PeakFrom c hkf Pm cs P hooks prog st X Pk C) (hs : Pos.step prog st = .next st1 o)
    (hn : StepsN Pm c n X X') : PeakFrom c hkf Pm cs P hooks prog st1 X' Pk C :=
  fun n' X'' st' cfg' hs' kp' hr hn' T ho R =>
    h (n + n') X'' st' cfg' hs' kp' (Scc.Props.C06Generic.reachable_prepend hs hr) (hn.trans hn') T ho R

/-- the relation of the chains of this file: the configuration is a boundary up to `Tol`, with the two bounds on
the frontier -/
def ChainRel (c : MemCfg) (hkf : Code → Bool) (Pm : Prog) (cs : List Code) (P : Program) (hooks : Bool)
    (prog : AxCut.Prog) (Pk C : Nat) (st : Pos.State) (X : MS) : Prop :=
  ∃ cfg hs kp, K.Tol Pm (pcOf hkf cs kp) X.pc ∧ X.out = cfg.out ∧ K.Rel3 c cs P hooks prog st cfg hs X.σ kp ∧
    FrBound hs (Pk + 1) ∧ FrBound hs C

section Run3P

variable {c : MemCfg} (H : CfgCC c) (h8 : c.heapBase % 8 = 0) {hkf : Code → Bool} {Pm : Prog}
  {cs pre : List Code} (HB : K.HoldsB hkf Pm cs) (hnd : (labs cs).Nodup)
  (hfitX : c.codeBase + 4 * ninstr cs < 2 ^ 64) (hcs : cs = pre ++ cleanup)
  (hclean : "cleanup" ∉ labs pre)

include H h8 HB hnd hfitX hcs hclean in
/-- THE THREE-WAY RUN UNDER THE FOOTPRINT BOUND, all programs: a heap of `64·(Pk + A + 2)` bytes is enough for a
terminating run of any length whose boundaries have at most `Pk` blocks in use; the frontier stays below
`Pk + 1` blocks at every boundary -/
theorem run3_peak (hooks : Bool) (prog : AxCut.Prog) (kc : Nat) (code : List MockOp) (nargs kc' : Nat)
    (hcomp : (compile mockSym hooks prog).run kc = .ok ((code, nargs), kc'))
    (hsafe : LabelSafe prog = true) (htp : LinTypedProg prog) (hfit : CodeFits code)
    (DX : K.XDefsAt cs hooks prog) (hprog : K.ProgOK prog) (Pk C A : Nat)
    (hA : ∀ d ∈ prog.defs, AllocLe A d.body)
    (hbytes : 64 * (Pk + A + 2) ≤ c.heapBytes) :
    ∀ (fuel : Nat) (st : Pos.State) (acc : List (Bool × Word)) (cfg : Config) (hs : HState) (σ : State)
      (kp pcR : Nat) (out : List (Bool × Word)) (v : Word) (Cb : Nat),
      Pos.StateTyped prog st → (∀ st', Reachable prog st st' → 2 * st'.ctx.length ≤ 280) →
      K.Tol Pm (pcOf hkf cs kp) pcR →
      K.Rel3 c cs (Program.ofOps code) hooks prog st cfg hs σ kp → AllocLe A st.stmt →
      (∀ w ∈ st.env, ValAll (AllocLeClauses A) w) →
      cfg.out = acc → cfg.next + fuel < 2 ^ 64 → FrBound hs (Pk + 1) →
      FrBound hs Cb → Cb + A * fuel ≤ C →
      PeakFrom c hkf Pm cs (Program.ofOps code) hooks prog st ⟨σ, pcR, acc⟩ Pk C →
      Pos.runState prog fuel st acc = ⟨out, .done v⟩ →
      (∃ kL σL outL, MSteps Pm c σ pcR acc σL (pcOf hkf cs kL) outL ∧
        Pm.items[pcOf hkf cs kL]? = some (.instr .ret) ∧ exitCheck c σL = .done v ∧ outL.reverse = out) ∧
      BChain Pm c (ChainRel c hkf Pm cs (Program.ofOps code) hooks prog Pk C) (statesOf prog fuel st) ⟨σ, pcR, acc⟩
  | 0, st, acc, cfg, hs, σ, kp, pcR, out, v, Cb, _, _, _, _, _, _, _, _, _, _, _, _, h => by
    simp [Pos.runState] at h
  | fuel + 1, st, acc, cfg, hs, σ, kp, pcR, out, v, Cb, T, hcap, TL, R, hlet, hvals, hacc, hnext, hfb, hcb, hC,
      hP, h => by
    have hcC : FrBound hs C := fun rs lin lazy live F J => by have := hcb rs lin lazy live F J; omega
    have hX3 : ∃ Γ' ι κ, K.X3 c Γ' cfg hs ι κ σ cfg.out := by
      obtain ⟨Γ', ι, κ, _, _, X3h, _⟩ := R
      exact ⟨Γ', ι, κ, X3h⟩
    obtain ⟨Γ0, ι0, κ0, X3h⟩ := hX3
    have hbase := X3h.hrel.base
    have hlimit := X3h.hrel.limit
    have hAr := allocArity_le hlet
    have hCm : Cb + A ≤ C := by
      have : A ≤ A * (fuel + 1) := Nat.le_mul_of_pos_right A (by omega)
      omega
    have hroom : Room hs (64 * allocArity st.stmt + 64) :=
      Scc.X86.Conc.Room.of_frBound hfb (by rw [hbase, hlimit]; omega)
    have hsim := K.step3P H h8 HB hnd hfitX hcs hclean hooks prog kc code nargs kc' hcomp hsafe htp hfit
      DX hprog st cfg hs σ kp R T (by unfold EnoughHeap; omega) hroom
    have hsafe' := Pos.step_safe htp st T
    have hw : ∃ rs lin lazy live F, InvS hs rs [] lin lazy live F := by
      obtain ⟨lin, lazy, live, Fr, I⟩ := X3h.href.conc
      exact ⟨_, lin, lazy, live, Fr, I⟩
    have hB : ChainRel c hkf Pm cs (Program.ofOps code) hooks prog Pk C st ⟨σ, pcR, acc⟩ :=
      ⟨cfg, hs, kp, TL, hacc.symm, R, hfb, hcC⟩
    unfold K.StepSim3P at hsim
    simp only [Pos.runState] at h
    simp only [statesOf]
    cases hst : Pos.step prog st with
    | stuck w => simp [hst] at h
    | done v' =>
      simp only [hst] at h hsim
      obtain ⟨kL, σL, h1, h2, h3⟩ := hsim
      simp only [Pos.Behaviour.mk.injEq, Pos.Result.done.injEq] at h
      obtain ⟨rfl, rfl⟩ := h
      rw [hacc] at h1
      exact ⟨⟨kL, σL, acc, K.tol_run_instr h1 TL h2, h2, h3, rfl⟩, hB, Or.inl rfl⟩
    | next st' o =>
      simp only [hst] at h hsim
      rw [hst] at hsafe'
      have hc' := hcap st' (Reachable.step Reachable.refl hst)
      obtain ⟨cfg', hs', σ', kp', pcR', h1, T', hreal, h2, h3, hfr, hpk, R'⟩ :=
        hsim (K.withinCapacity_of_le hc') hc'
      have hacc' : cfg'.out = outAfter o acc := by rw [h2, hacc]
      rw [hacc, hacc'] at h1
      obtain ⟨pcR'', hk, T''⟩ := tol_next TL h1 T'
      obtain ⟨n, hn⟩ := stepsN_of_msteps hk
      have h' : Pos.runState prog fuel st' (outAfter o acc) = ⟨out, .done v⟩ := by
        cases o <;> exact h
      obtain ⟨hlet', hvals'⟩ := hered_step (hered_allocLe A) hA hst hlet hvals
      have hcb' : FrBound hs' (Cb + A) := hcb.of_frLe (K.FrLe.mono' hfr (by omega)) hw
      have hlive' : LiveLe0 hs' Pk := hP n ⟨σ', pcR'', outAfter o acc⟩ st' cfg' hs' kp'
        (Reachable.step Reachable.refl hst) hn T'' hacc'.symm R'
        (fun rs lin lazy live F J => by have := hcb' rs lin lazy live F J; omega)
      have hfb' : FrBound hs' (Pk + 1) := hfb.step hfr.2.1 hpk hw hlive'
      have hC' : Cb + A + A * fuel ≤ C := by
        have : A * (fuel + 1) = A * fuel + A := Nat.mul_succ A fuel
        omega
      obtain ⟨⟨kL, σL, outL, g1, g2, g3, g4⟩, hch⟩ := run3_peak hooks prog kc code nargs kc' hcomp hsafe htp hfit DX
        hprog Pk C A hA hbytes fuel st' (outAfter o acc) cfg' hs' σ' kp' pcR'' out v (Cb + A) hsafe'
        (fun st'' hr => hcap st'' (Scc.Props.C06Generic.reachable_prepend hst hr)) T'' R' hlet' hvals' hacc'
        (by omega) hfb' hcb' hC' (hP.step hst hn) h'
      exact ⟨⟨kL, σL, outL, hk.trans g1, g2, g3, g4⟩, hB, Or.inr ⟨n, _, hn, hch⟩⟩

include H h8 HB hnd hfitX hcs hclean in
/-- THE THREE-WAY RUN, EVERY PREFIX (terminating or not), all programs: for ANY number `fuel` of steps of the
positional machine from a represented state, the machine passes — without fault — through a boundary
configuration for every state `statesOf prog fuel st` the positional machine goes through, under the footprint
bound -/
theorem run3_prefix (hooks : Bool) (prog : AxCut.Prog) (kc : Nat) (code : List MockOp) (nargs kc' : Nat)
    (hcomp : (compile mockSym hooks prog).run kc = .ok ((code, nargs), kc'))
    (hsafe : LabelSafe prog = true) (htp : LinTypedProg prog) (hfit : CodeFits code)
    (DX : K.XDefsAt cs hooks prog) (hprog : K.ProgOK prog) (Pk C A : Nat)
    (hA : ∀ d ∈ prog.defs, AllocLe A d.body)
    (hbytes : 64 * (Pk + A + 2) ≤ c.heapBytes) :
    ∀ (fuel : Nat) (st : Pos.State) (acc : List (Bool × Word)) (cfg : Config) (hs : HState) (σ : State)
      (kp pcR : Nat) (Cb : Nat),
      Pos.StateTyped prog st → (∀ st', Reachable prog st st' → 2 * st'.ctx.length ≤ 280) →
      K.Tol Pm (pcOf hkf cs kp) pcR →
      K.Rel3 c cs (Program.ofOps code) hooks prog st cfg hs σ kp → AllocLe A st.stmt →
      (∀ w ∈ st.env, ValAll (AllocLeClauses A) w) →
      cfg.out = acc → cfg.next + fuel < 2 ^ 64 → FrBound hs (Pk + 1) →
      FrBound hs Cb → Cb + A * fuel ≤ C →
      PeakFrom c hkf Pm cs (Program.ofOps code) hooks prog st ⟨σ, pcR, acc⟩ Pk C →
      BChain Pm c (ChainRel c hkf Pm cs (Program.ofOps code) hooks prog Pk C) (statesOf prog fuel st) ⟨σ, pcR, acc⟩
  | 0, st, acc, cfg, hs, σ, kp, pcR, Cb, _, _, TL, R, _, _, hacc, _, hfb, hcb, hC, _ =>
    ⟨⟨cfg, hs, kp, TL, hacc.symm, R, hfb, fun rs lin lazy live F J => by have := hcb rs lin lazy live F J; omega⟩,
      Or.inl rfl⟩
  | fuel + 1, st, acc, cfg, hs, σ, kp, pcR, Cb, T, hcap, TL, R, hlet, hvals, hacc, hnext, hfb, hcb, hC, hP => by
    have hcC : FrBound hs C := fun rs lin lazy live F J => by have := hcb rs lin lazy live F J; omega
    have hX3 : ∃ Γ' ι κ, K.X3 c Γ' cfg hs ι κ σ cfg.out := by
      obtain ⟨Γ', ι, κ, _, _, X3h, _⟩ := R
      exact ⟨Γ', ι, κ, X3h⟩
    obtain ⟨Γ0, ι0, κ0, X3h⟩ := hX3
    have hbase := X3h.hrel.base
    have hlimit := X3h.hrel.limit
    have hAr := allocArity_le hlet
    have hCm : Cb + A ≤ C := by
      have : A ≤ A * (fuel + 1) := Nat.le_mul_of_pos_right A (by omega)
      omega
    have hroom : Room hs (64 * allocArity st.stmt + 64) :=
      Scc.X86.Conc.Room.of_frBound hfb (by rw [hbase, hlimit]; omega)
    have hsim := K.step3P H h8 HB hnd hfitX hcs hclean hooks prog kc code nargs kc' hcomp hsafe htp hfit
      DX hprog st cfg hs σ kp R T (by unfold EnoughHeap; omega) hroom
    have hsafe' := Pos.step_safe htp st T
    have hw : ∃ rs lin lazy live F, InvS hs rs [] lin lazy live F := by
      obtain ⟨lin, lazy, live, Fr, I⟩ := X3h.href.conc
      exact ⟨_, lin, lazy, live, Fr, I⟩
    have hB : ChainRel c hkf Pm cs (Program.ofOps code) hooks prog Pk C st ⟨σ, pcR, acc⟩ :=
      ⟨cfg, hs, kp, TL, hacc.symm, R, hfb, hcC⟩
    unfold K.StepSim3P at hsim
    simp only [statesOf]
    cases hst : Pos.step prog st with
    | stuck w => exact ⟨hB, Or.inl rfl⟩
    | done v' => exact ⟨hB, Or.inl rfl⟩
    | next st' o =>
      simp only [hst] at hsim
      rw [hst] at hsafe'
      have hc' := hcap st' (Reachable.step Reachable.refl hst)
      obtain ⟨cfg', hs', σ', kp', pcR', h1, T', hreal, h2, h3, hfr, hpk, R'⟩ :=
        hsim (K.withinCapacity_of_le hc') hc'
      have hacc' : cfg'.out = outAfter o acc := by rw [h2, hacc]
      rw [hacc, hacc'] at h1
      obtain ⟨pcR'', hk, T''⟩ := tol_next TL h1 T'
      obtain ⟨n, hn⟩ := stepsN_of_msteps hk
      obtain ⟨hlet', hvals'⟩ := hered_step (hered_allocLe A) hA hst hlet hvals
      have hcb' : FrBound hs' (Cb + A) := hcb.of_frLe (K.FrLe.mono' hfr (by omega)) hw
      have hlive' : LiveLe0 hs' Pk := hP n ⟨σ', pcR'', outAfter o acc⟩ st' cfg' hs' kp'
        (Reachable.step Reachable.refl hst) hn T'' hacc'.symm R'
        (fun rs lin lazy live F J => by have := hcb' rs lin lazy live F J; omega)
      have hfb' : FrBound hs' (Pk + 1) := hfb.step hfr.2.1 hpk hw hlive'
      have hC' : Cb + A + A * fuel ≤ C := by
        have : A * (fuel + 1) = A * fuel + A := Nat.mul_succ A fuel
        omega
      have hch := run3_prefix hooks prog kc code nargs kc' hcomp hsafe htp hfit DX hprog Pk C A
        hA hbytes fuel st' (outAfter o acc) cfg' hs' σ' kp' pcR'' (Cb + A) hsafe'
        (fun st'' hr => hcap st'' (Scc.Props.C06Generic.reachable_prepend hst hr)) T'' R' hlet' hvals' hacc'
        (by omega) hfb' hcb' hC' (hP.step hst hn)
      exact ⟨hB, Or.inr ⟨n, _, hn, hch⟩⟩

end Run3P

end Scc.A64.ConcK
