/-
  Scc.A64.CCProofsRun — property C13, AArch64, DYNAMIC part: THE CALLING-CONVENTION MONITOR NEVER FIRES on
  the routine of an integer program — for all arguments, all fuel, every run: the result of the SPEC
  machine is never `cc-violation` (X19…X30 or SP not restored at `RET`), never the fault
  `misaligned-call` (SP not 16-aligned at a call of the print runtime), never `misaligned-sp` (SP not
  16-aligned at an SP-based access).

  The machine (Machine.lean) runs a LAID-OUT program: items are instructions and `#ctx` hooks; labels,
  directives and plain comments occupy no item.  `Holds hk P routine` says that the program `P` holds the
  backend instruction list `routine`, where `hk` tells which comments became hook items:
    the non-meta code at list position `k` is the instruction item number `icnt (routine.take k)`, a
    hooked comment is a hook item, a label resolves to the item count before its first definition.
  (`holds_layout`, CCProofsLayout.lean, derives it for `layout ls` from a line-by-line correspondence.)

  Proof: the invariant `InvAt k σ` (the text from list position `k` on starts with a straight-line
  segment whose `Future` is the boundary invariant `Core`, resp. `RetReady` at the final `RET`), moved
  across non-item codes (`invAt_meta`) and preserved by every machine step at an item (`step_safe`).
-/
import Scc.A64.CCProofsSeg

set_option linter.unusedVariables false
set_option linter.unusedSimpArgs false

namespace Scc.A64.CC

open Scc.A64 Scc.AxCut

/-! ## the laid-out program -/

/-- index of the first definition of label `l` in `cs`, counting from `k` -/
def firstLab (l : String) : List Code → Nat → Option Nat
  | [], _ => none
  | c :: cs, k => if c = Code.LAB l then some k else firstLab l cs (k + 1)

theorem firstLab_some {l : String} : ∀ {cs : List Code} {k i : Nat}, firstLab l cs k = some i →
    k ≤ i ∧ cs[i - k]? = some (Code.LAB l)
  | [], _, _, h => by simp [firstLab] at h
  | c :: cs, k, i, h => by
    simp only [firstLab] at h
    split at h
    · rename_i hc
      cases h
      simp [hc]
    · obtain ⟨h1, h2⟩ := firstLab_some h
      refine ⟨by omega, ?_⟩
      have : i - k = (i - (k + 1)) + 1 := by omega
      rw [this, List.getElem?_cons_succ]
      exact h2

section Layout
variable (hk : Code → Bool)

/-- a code that occupies an item: an instruction, or a comment that is laid out as a hook -/
def isItem (c : Code) : Bool := !c.isMeta || hk c

/-- number of items of a code list -/
def icnt (l : List Code) : Nat := (l.filter (isItem hk)).length

theorem icnt_take_succ {routine : List Code} {k : Nat} {c : Code} (h : routine[k]? = some c) :
    icnt hk (routine.take (k + 1)) = icnt hk (routine.take k) + (if isItem hk c then 1 else 0) := by
  obtain ⟨hlt, rfl⟩ := List.getElem?_eq_some_iff.1 h
  unfold icnt
  rw [List.take_succ_eq_append_getElem hlt, List.filter_append, List.length_append]
  by_cases hi : isItem hk routine[k] = true <;> simp [hi]

/-- the program holds the instruction list -/
structure Holds (P : Prog) (routine : List Code) : Prop where
  hkComment : ∀ c, hk c = true → ∃ msg, c = Code.COMMENT msg
  instr : ∀ k c, routine[k]? = some c → c.isMeta = false →
    ∃ i, c.toInstr = some i ∧ P.items[icnt hk (routine.take k)]? = some (.instr i)
  hook : ∀ k c, routine[k]? = some c → hk c = true →
    ∃ vs, P.items[icnt hk (routine.take k)]? = some (.hook vs)
  labels : ∀ l, P.labels[l]? = (firstLab l routine 0).map fun k => icnt hk (routine.take k)

end Layout

/-! ## labels of the routine sit at boundary positions -/

def isLab : Code → Bool
  | .LAB _ => true
  | _ => false

def NoLab (l : List Code) : Prop := ∀ c ∈ l, isLab c = false

theorem noLab_append {a b : List Code} (ha : NoLab a) (hb : NoLab b) : NoLab (a ++ b) :=
  fun c hc => (List.mem_append.1 hc).elim (ha c) (hb c)

theorem noLab_moveCodes (pairs : List (Nat × Nat)) : NoLab (moveCodes pairs) := by
  intro c hc; simp only [moveCodes, List.mem_map] at hc; obtain ⟨_, _, rfl⟩ := hc; rfl
theorem noLab_strCodes (items : List (Nat × Int)) : NoLab (strCodes items) := by
  intro c hc; simp only [strCodes, List.mem_map] at hc; obtain ⟨_, _, rfl⟩ := hc; rfl
theorem noLab_ldrCodes (items : List (Nat × Int)) : NoLab (ldrCodes items) := by
  intro c hc; simp only [ldrCodes, List.mem_map] at hc; obtain ⟨_, _, rfl⟩ := hc; rfl

theorem noLab_printI64 (nl : Bool) (t : Temporary) (ctx : Ctx) : NoLab (printI64 nl t ctx) := by
  rw [printI64_split]
  unfold blockBefore blockAfter
  rw [save_decompose, restore_decompose]
  refine noLab_append (noLab_append (noLab_append (noLab_append ?_ ?_) (noLab_append (noLab_moveCodes _) ?_)) ?_) ?_
  · cases t <;> simp [NoLab, printPre, moveToRegister, isLab]
  · simp [NoLab, isLab]
  · split
    · exact noLab_append (by simp [NoLab, isLab]) (noLab_strCodes _)
    · simp [NoLab]
  · cases t <;> simp [NoLab, isLab, printArgMove]
  · intro c hc
    simp only [List.mem_cons] at hc
    rcases hc with rfl | rfl | hc
    · rfl
    · rfl
    · refine noLab_append (noLab_moveCodes _) ?_ c hc
      split
      · exact noLab_append (noLab_ldrCodes _) (by simp [NoLab, isLab])
      · simp [NoLab]

theorem drop_append_ge {a b : List Code} {n : Nat} (h : a.length ≤ n) :
    (a ++ b).drop n = b.drop (n - a.length) := by
  induction a generalizing n with
  | nil => simp
  | cons x a ih =>
    cases n with
    | zero => simp at h
    | succ n =>
      simp only [List.cons_append, List.drop_succ_cons, List.length_cons, Nat.add_sub_add_right]
      exact ih (by simpa using h)

/-- the text from position `i` on is a body shape followed by `cleanup` -/
def BodyAt (routine : List Code) (i : Nat) : Prop :=
  ∃ rest, CCShape plainInt rest ∧ routine.drop i = rest ++ cleanup

theorem ccShape_drop_label {plain : Code → Bool} {body : List Code} (h : CCShape plain body) :
    ∀ (j : Nat) (l : String), body[j]? = some (Code.LAB l) → CCShape plain (body.drop j) := by
  induction h with
  | nil => intro j l hj; simp at hj
  | @plain c rest hc hrest ih =>
    intro j l hj
    cases j with
    | zero => exact .plain hc hrest
    | succ j => simpa using ih j l (by simpa using hj)
  | @print nl t ctx rest hs hrest ih =>
    intro j l hj
    by_cases hlt : j < (printI64 nl t ctx).length
    · rw [List.getElem?_append_left hlt] at hj
      have hm := List.mem_of_getElem? hj
      have := noLab_printI64 nl t ctx _ hm
      cases this
    · have hge : (printI64 nl t ctx).length ≤ j := by omega
      rw [List.getElem?_append_right hge] at hj
      rw [drop_append_ge hge]
      exact ih _ l hj

theorem isLab_of_isArgMove {c : Code} (h : isArgMove c = true) : isLab c = false := by
  cases c <;> simp [isArgMove] at h <;> rfl

/-- the only label of the routine header is `asm_main` -/
theorem head_labels {n : Nat} {su : List Code} (hsu : setup n = .ok su) :
    ∀ c ∈ routineHead su, ∀ l, c = Code.LAB l → l = "asm_main" := by
  obtain ⟨moves, hm, rfl⟩ := setup_eq hsu
  have hmv := moveArguments_shape n moves hm
  intro c hc l hl
  subst hl
  simp only [routineHead, preamble, setupPushes, setupTail, List.mem_append, List.mem_cons,
    List.not_mem_nil, or_false, Code.LAB.injEq] at hc
  rcases hc with ((h | h | h) | ((h | h) | h)) | h
  · cases h
  · cases h
  · exact h
  · rcases h with h | h | h | h | h | h | h | h | h | h <;> cases h
  · have := isLab_of_isArgMove (hmv _ h); cases this
  · rcases h with h | h | h <;> cases h
  · cases h

theorem tail_labels (j : Nat) (l : String) (h : cleanup[j]? = some (Code.LAB l)) : j = 0 := by
  cases j with
  | zero => rfl
  | succ j =>
    have e : cleanup = Code.LAB "cleanup" :: cleanup.tail := rfl
    rw [e, List.getElem?_cons_succ] at h
    have hm := List.mem_of_getElem? h
    simp [cleanup] at hm

/-- EVERY LABEL OF THE ROUTINE OTHER THAN `asm_main` IS AT A BOUNDARY POSITION -/
theorem bodyAt_label {body routine su : List Code} {n : Nat} (hb : CCShape plainInt body)
    (hsu : setup n = .ok su) (hr : routine = routineHead su ++ body ++ cleanup) {i : Nat} {l : String}
    (hi : routine[i]? = some (Code.LAB l)) (hl : l ≠ "asm_main") : BodyAt routine i := by
  subst hr
  by_cases h1 : i < (routineHead su).length
  · rw [List.append_assoc, List.getElem?_append_left h1] at hi
    exact absurd (head_labels hsu _ (List.mem_of_getElem? hi) l rfl) hl
  · have hge : (routineHead su).length ≤ i := by omega
    rw [List.append_assoc, List.getElem?_append_right hge] at hi
    unfold BodyAt
    rw [List.append_assoc, drop_append_ge hge]
    by_cases h2 : i - (routineHead su).length < body.length
    · rw [List.getElem?_append_left h2] at hi
      refine ⟨body.drop (i - (routineHead su).length), ccShape_drop_label hb _ l hi, ?_⟩
      rw [List.drop_append_of_le_length (by omega)]
    · have hge2 : body.length ≤ i - (routineHead su).length := by omega
      rw [List.getElem?_append_right hge2] at hi
      have := tail_labels _ l hi
      refine ⟨[], .nil, ?_⟩
      rw [drop_append_ge hge2, this]
      first | done | simp

/-! ## the invariant -/

/-- results that are not reports of the calling-convention monitor -/
def CCSafe : Res → Prop
  | .ccViolation _ => False
  | .fault why _ => why ≠ "misaligned-call" ∧ why ≠ "misaligned-sp"
  | _ => True

theorem ccSafe_fault {e : String} (h : OKErr e) (ln : Nat) : CCSafe (.fault e ln) := ⟨h.1, h.2.1⟩

theorem ccSafe_withLine {r : Res} (ln : Nat) (h : CCSafe r) : CCSafe (withLine ln r) := by
  cases r <;> exact h

inductive Tgt where
  | body
  | ret

/-- what holds at the end of the current segment, at list position `i` -/
def PostT (c : MemCfg) (routine : List Code) (tgt : Tgt) (i : Nat) (σ : State) : Prop :=
  match tgt with
  | .body => Core c σ ∧ BodyAt routine i
  | .ret => RetReady c σ ∧ routine.drop i = [Code.RET]

/-- the text from list position `k` on starts with a segment `todo` whose future is the boundary
    invariant (or the exit condition) at the position behind it -/
def InvAt (c : MemCfg) (routine : List Code) (k : Nat) (σ : State) : Prop :=
  ∃ todo tgt, (∀ j (h : j < todo.length), routine[k + j]? = some todo[j]) ∧
    Future c (PostT c routine tgt (k + todo.length)) todo σ

theorem drop_eq_append_get {l a b : List Code} {i : Nat} (h : l.drop i = a ++ b) :
    ∀ j (hj : j < a.length), l[i + j]? = some a[j] := by
  intro j hj
  have : (l.drop i)[j]? = some a[j] := by
    rw [h, List.getElem?_append_left hj, List.getElem?_eq_getElem hj]
  rwa [List.getElem?_drop] at this

theorem drop_add_of_append {l a b : List Code} {i : Nat} (h : l.drop i = a ++ b) :
    l.drop (i + a.length) = b := by
  rw [← List.drop_drop, h, List.drop_left]

theorem drop_head {l : List Code} {i : Nat} {c : Code} {rest : List Code} (h : l.drop i = c :: rest) :
    l[i]? = some c ∧ l.drop (i + 1) = rest := by
  constructor
  · have := drop_eq_append_get (a := [c]) (b := rest) (by simpa using h) 0 (by simp)
    simpa using this
  · exact drop_add_of_append (a := [c]) (b := rest) (by simpa using h)

/-- `cleanup` between its label and `RET` -/
def cleanupBody : List Code :=
  [ .COMMENT "free space for register spills", .ADDI .sp .sp (SPILL_SPACE : Int), .COMMENT "restore registers",
    .LDP_POST_INDEX (.x 28) (.x 29) .sp 16, .LDP_POST_INDEX (.x 26) (.x 27) .sp 16,
    .LDP_POST_INDEX (.x 24) (.x 25) .sp 16, .LDP_POST_INDEX (.x 22) (.x 23) .sp 16,
    .LDP_POST_INDEX (.x 20) (.x 21) .sp 16, .LDP_POST_INDEX (.x 18) (.x 19) .sp 16 ]

theorem cleanup_dropLast_eq : cleanup.dropLast = Code.LAB "cleanup" :: cleanupBody := rfl

section NF
variable {c : MemCfg} {routine : List Code}

/-- NORMAL FORMS of the invariant: inside a non-empty segment; at a plain instruction; at the final `RET` -/
inductive NF (c : MemCfg) (routine : List Code) (k : Nat) (σ : State) : Prop where
  | seg (code : Code) (rest : List Code) (tgt : Tgt) :
      (∀ j (h : j < (code :: rest).length), routine[k + j]? = some (code :: rest)[j]) →
      Future c (PostT c routine tgt (k + (code :: rest).length)) (code :: rest) σ → NF c routine k σ
  | plain (code : Code) (rest' : List Code) : Core c σ → plainInt code = true →
      routine.drop k = code :: (rest' ++ cleanup) → CCShape plainInt rest' → NF c routine k σ
  | ret : RetReady c σ → routine.drop k = [Code.RET] → NF c routine k σ

set_option maxRecDepth 4000 in
theorem invAt_nf (H : CfgCC c) {k : Nat} {σ : State} (I : InvAt c routine k σ) : NF c routine k σ := by
  obtain ⟨todo, tgt, hcode, hF⟩ := I
  cases todo with
  | cons code rest => exact .seg code rest tgt hcode hF
  | nil =>
    have hF' : PostT c routine tgt k σ := by simpa [Future, execCodesOut] using hF
    cases tgt with
    | ret => exact .ret hF'.1 hF'.2
    | body =>
      obtain ⟨C, rest, hshape, hd⟩ := hF'
      cases hshape with
      | nil =>
        have hd' : routine.drop k = (Code.LAB "cleanup" :: cleanupBody) ++ [Code.RET] := by
          rw [hd]; rfl
        refine .seg (Code.LAB "cleanup") cleanupBody .ret (drop_eq_append_get hd') ?_
        have hf := cleanup_future H C
        rw [cleanup_dropLast_eq] at hf
        exact hf.mono fun σ' hs' => ⟨hs', drop_add_of_append hd'⟩
      | @plain code rest' hc hrest' => exact .plain code rest' C hc (by simpa using hd) hrest'
      | @print nl t ctx rest' hs hrest' =>
        rw [List.append_assoc] at hd
        have hne : printI64 nl t ctx ≠ [] := by rw [printI64_split]; simp
        obtain ⟨code, blk, hblk⟩ := List.exists_cons_of_ne_nil hne
        refine .seg code blk .body ?_ ?_
        · rw [← hblk]; exact drop_eq_append_get hd
        · rw [← hblk]
          exact (block_future H hs nl C).mono fun σ' hs' => ⟨hs', rest', hrest', drop_add_of_append hd⟩

theorem NF.head {k : Nat} {σ : State} (h : NF c routine k σ) : ∃ code, routine[k]? = some code := by
  cases h with
  | seg code rest tgt hcode _ =>
    have h0 := hcode 0 (by simp)
    simp only [Nat.add_zero, List.getElem_cons_zero] at h0
    exact ⟨code, h0⟩
  | plain code rest' _ _ hd _ => exact ⟨code, (drop_head hd).1⟩
  | ret _ hd => exact ⟨Code.RET, (drop_head hd).1⟩

/-- a code without semantics (label, directive, comment) is skipped -/
theorem invAt_meta (H : CfgCC c) {k : Nat} {σ : State} (I : InvAt c routine k σ) {code : Code}
    (hc : routine[k]? = some code) (hm : code.isMeta = true) : InvAt c routine (k + 1) σ := by
  have hnb : code.isBL = false := by cases code <;> first | rfl | simp [Code.isMeta] at hm
  cases invAt_nf H I with
  | seg code' rest tgt hcode hF =>
    have h0 := hcode 0 (by simp)
    simp only [Nat.add_zero, List.getElem_cons_zero] at h0
    rw [hc] at h0; cases h0
    rw [Future.cons_noBL hnb, execCode_meta hm] at hF
    refine ⟨rest, tgt, ?_, ?_⟩
    · intro j hj
      have := hcode (j + 1) (by simpa using hj)
      rw [Nat.add_assoc, Nat.add_comm 1 j]
      simpa using this
    · have e : k + 1 + rest.length = k + (code :: rest).length := by simp; omega
      rw [e]; exact hF
  | plain code' rest' C hp hd hshape =>
    obtain ⟨h1, h2⟩ := drop_head hd
    exact ⟨[], .body, fun j hj => by simp at hj, Future.nil ⟨C, rest', hshape, h2⟩⟩
  | ret R hd =>
    obtain ⟨h1, _⟩ := drop_head hd
    rw [hc] at h1; cases h1
    simp [Code.isMeta] at hm

end NF

/-! ## one iteration of the run loop -/

section Run
variable {hk : Code → Bool} {P : Prog} {cfg : MonCfg} {routine body su : List Code} {nargs : Nat}

theorem runLoop_item {fuel : Nat} {m : Machine} {it : Item} (h : P.items[m.pc]? = some it) :
    runLoop P cfg (fuel + 1) m =
      match it with
      | .hook vars =>
        if cfg.heap then
          match heapMonitor cfg.mem m.σ vars with
          | .error e => finish m (.invFail e (P.lines.getD m.pc 0))
          | .ok b => runLoop P cfg fuel { m with pc := m.pc + 1, blocks := max m.blocks b }
        else runLoop P cfg fuel { m with pc := m.pc + 1 }
      | .instr i =>
        match step P cfg.mem i m.σ m.pc with
        | .next σ pc => runLoop P cfg fuel { m with σ := σ, pc := pc, steps := m.steps + 1 }
        | .print nl w σ pc =>
          runLoop P cfg fuel { m with σ := σ, pc := pc, steps := m.steps + 1, out := (nl, w) :: m.out }
        | .stop r => finish { m with steps := m.steps + 1 } (withLine (P.lines.getD m.pc 0) r) := by
  obtain ⟨hlt, hget⟩ := Array.getElem?_eq_some_iff.1 h
  rw [runLoop]
  simp only [hlt, dite_true, hget]
  cases it <;> rfl

/-- a data instruction is executed by `Instr.exec` -/
theorem step_data {i : Instr} (hd : isData i = true) (σ : State) (pc : Nat) :
    step P cfg.mem i σ pc =
      match i.exec cfg.mem σ with
      | .error e => .stop (.fault e 0)
      | .ok σ' => .next σ' (pc + 1) := by
  cases i <;> first | rfl | simp [isData] at hd

theorem finish_res (m : Machine) (r : Res) : (finish m r).res = r := rfl

/-- the machine invariant: the program counter is the item count of a list position at which `InvAt`
    holds -/
def Inv (hk : Code → Bool) (c : MemCfg) (routine : List Code) (m : Machine) : Prop :=
  ∃ k, m.pc = icnt hk (routine.take k) ∧ InvAt c routine k m.σ

/-- move forward to the next item -/
theorem normalize (H : CfgCC cfg.mem) (Hp : Holds hk P routine) : ∀ (n k : Nat) (σ : State),
    routine.length - k ≤ n → InvAt cfg.mem routine k σ →
    ∃ k' code, icnt hk (routine.take k') = icnt hk (routine.take k) ∧ InvAt cfg.mem routine k' σ ∧
      routine[k']? = some code ∧ isItem hk code = true
  | 0, k, σ, hn, I => by
    obtain ⟨code, hc⟩ := (invAt_nf H I).head
    have := (List.getElem?_eq_some_iff.1 hc).1
    omega
  | n + 1, k, σ, hn, I => by
    obtain ⟨code, hc⟩ := (invAt_nf H I).head
    by_cases hi : isItem hk code = true
    · exact ⟨k, code, rfl, I, hc, hi⟩
    · have hi' : isItem hk code = false := by simpa using hi
      have hm : code.isMeta = true := by
        simp only [isItem, Bool.or_eq_false_iff, Bool.not_eq_false'] at hi'
        exact hi'.1
      have hlt := (List.getElem?_eq_some_iff.1 hc).1
      obtain ⟨k', code', h1, h2, h3, h4⟩ := normalize H Hp n (k + 1) σ (by omega) (invAt_meta H I hc hm)
      refine ⟨k', code', ?_, h2, h3, h4⟩
      rw [h1, icnt_take_succ hk hc, hi']
      simp

theorem future_BL {c : MemCfg} {Q : State → Prop} {l : String} {rest : List Code} {σ : State}
    (h : Future c Q (Code.BL l :: rest) σ) :
    isExternal l = true ∧
      match σ.callExternal with
      | .error e => OKErr e
      | .ok (_, σ') => Future c Q rest σ' := by
  unfold Future at h
  simp only [execCodesOut] at h
  by_cases hx : isExternal l = true
  · refine ⟨hx, ?_⟩
    rw [if_pos hx] at h
    cases hcall : σ.callExternal with
    | error e => simp only [hcall] at h ⊢; exact h
    | ok r =>
      obtain ⟨w, σ'⟩ := r
      simp only [hcall] at h ⊢
      unfold Future
      cases hr : execCodesOut c rest σ' with
      | error e => simp only [hr] at h ⊢; exact h
      | ok r2 => obtain ⟨σ'', out⟩ := r2; simp only [hr] at h ⊢; exact h
  · rw [if_neg hx] at h
    exact absurd rfl h.2.2.2

theorem exec_nonData {c : MemCfg} {i : Instr} (h : isData i = false) (σ : State) :
    i.exec c σ = .error "branching instruction" := by
  cases i <;> first | rfl | simp [isData] at h

theorem icnt_item {routine : List Code} {k : Nat} {code : Code} (hc : routine[k]? = some code)
    (hi : isItem hk code = true) : icnt hk (routine.take (k + 1)) = icnt hk (routine.take k) + 1 := by
  rw [icnt_take_succ hk hc, hi]; rfl

/-- the invariant as a predicate on state and program counter -/
def InvSP (hk : Code → Bool) (c : MemCfg) (routine : List Code) (σ : State) (pc : Nat) : Prop :=
  ∃ k, pc = icnt hk (routine.take k) ∧ InvAt c routine k σ

/-- a good outcome of one instruction: the invariant again, or a stop that is not a report of the
    calling-convention monitor -/
def GoodOut (hk : Code → Bool) (c : MemCfg) (routine : List Code) : StepOut → Prop
  | .next σ pc => InvSP hk c routine σ pc
  | .print _ _ σ pc => InvSP hk c routine σ pc
  | .stop r => CCSafe r

theorem jumpRef_toInstr {code : Code} {l : String} {i : Instr} (hj : codeJumpRef code = some l)
    (ht : code.toInstr = some i) : i = .b l ∨ ∃ cd, i = .bcond cd l := by
  cases code <;> simp only [codeJumpRef, Option.some.injEq] at hj <;> try (cases hj; done)
  all_goals (subst hj; simp only [Code.toInstr, Option.some.injEq] at ht; subst ht)
  · exact Or.inl rfl
  all_goals exact Or.inr ⟨_, rfl⟩

/-- ONE INSTRUCTION at an item position has a good outcome -/
theorem step_good (H : CfgCC cfg.mem) (Hp : Holds hk P routine) (hb : CCShape plainInt body)
    (hsu : setup nargs = .ok su) (hr : routine = routineHead su ++ body ++ cleanup)
    (σ : State) (k : Nat) (I : InvAt cfg.mem routine k σ)
    {code : Code} (hc : routine[k]? = some code) (hm' : code.isMeta = false) {i : Instr}
    (hti : code.toInstr = some i) :
    GoodOut hk cfg.mem routine (step P cfg.mem i σ (icnt hk (routine.take k))) := by
  have hi : isItem hk code = true := by simp [isItem, hm']
  have hnext := icnt_item (hk := hk) hc hi
  cases invAt_nf H I with
  | seg code' rest tgt hcode hF =>
    have h0 := hcode 0 (by simp)
    simp only [Nat.add_zero, List.getElem_cons_zero] at h0
    rw [hc] at h0; cases h0
    have hcode' : ∀ j (h : j < rest.length), routine[k + 1 + j]? = some rest[j] := by
      intro j hj
      have := hcode (j + 1) (by simpa using hj)
      rw [Nat.add_assoc, Nat.add_comm 1 j]
      simpa using this
    have epos : k + 1 + rest.length = k + (code :: rest).length := by simp; omega
    by_cases hbl : code.isBL = true
    · -- the call of a print block
      cases code <;> simp [Code.isBL] at hbl
      rename_i l
      simp only [Code.toInstr, Option.some.injEq] at hti
      subst hti
      obtain ⟨hext, hcall⟩ := future_BL hF
      simp only [step, hext, if_true]
      cases hx : σ.callExternal with
      | error e =>
        simp only [hx] at hcall ⊢
        exact ccSafe_fault hcall 0
      | ok r =>
        obtain ⟨w, σ'⟩ := r
        simp only [hx] at hcall ⊢
        exact ⟨k + 1, hnext.symm, rest, tgt, hcode', by rw [epos]; exact hcall⟩
    · have hbl' : code.isBL = false := by simpa using hbl
      rw [Future.cons_noBL hbl', execCode_of_toInstr σ hti] at hF
      by_cases hd : isData i = true
      · rw [step_data hd]
        cases hx : i.exec cfg.mem σ with
        | error e =>
          simp only [hx] at hF ⊢
          exact ccSafe_fault hF 0
        | ok σ' =>
          simp only [hx] at hF ⊢
          exact ⟨k + 1, hnext.symm, rest, tgt, hcode', by rw [epos]; exact hF⟩
      · rw [exec_nonData (by simpa using hd)] at hF
        exact absurd rfl hF.2.2.1
  | plain code' rest' C hp hd hshape =>
    obtain ⟨h1, h2⟩ := drop_head hd
    rw [hc] at h1; cases h1
    have hbody : BodyAt routine (k + 1) := ⟨rest', hshape, h2⟩
    have Inext : ∀ σ', Core cfg.mem σ' → InvSP hk cfg.mem routine σ' (icnt hk (routine.take k) + 1) :=
      fun σ' C' => ⟨k + 1, hnext.symm, [], .body, fun j hj => by simp at hj, Future.nil ⟨C', hbody⟩⟩
    obtain ⟨hcc, _, hind, hlab⟩ := plainInt_spec hp
    cases hj : codeJumpRef code with
    | none =>
      obtain ⟨hd', _, _, _⟩ := plain_toInstr hcc hind hj hti
      have hpe := plain_exec H C hp hj
      rw [execCode_of_toInstr σ hti] at hpe
      rw [step_data hd']
      cases hx : i.exec cfg.mem σ with
      | error e =>
        simp only [hx] at hpe ⊢
        exact ccSafe_fault hpe.okErr 0
      | ok σ' =>
        simp only [hx] at hpe ⊢
        exact Inext σ' hpe
    | some l =>
      have hl := hlab l hj
      -- the target of a direct branch
      have hgoto : GoodOut hk cfg.mem routine (P.gotoLabel σ l) := by
        unfold Prog.gotoLabel
        rw [Hp.labels]
        cases hfl : firstLab l routine 0 with
        | none => exact ccSafe_fault (merr_undefLabel l).okErr 0
        | some k' =>
          obtain ⟨_, hk'⟩ := firstLab_some hfl
          simp only [Nat.sub_zero] at hk'
          exact ⟨k', rfl, [], .body, fun j hj => by simp at hj,
            Future.nil ⟨C, bodyAt_label hb hsu hr hk' hl⟩⟩
      rcases jumpRef_toInstr hj hti with rfl | ⟨cd, rfl⟩
      · exact hgoto
      · simp only [step]
        cases hfl : σ.flags with
        | none => exact ccSafe_fault merr_undefFlags.okErr 0
        | some ab =>
          obtain ⟨a, b⟩ := ab
          dsimp only
          split
          · exact hgoto
          · exact Inext σ C
  | ret R hd =>
    obtain ⟨h1, _⟩ := drop_head hd
    rw [hc] at h1; cases h1
    simp only [Code.toInstr, Option.some.injEq] at hti
    subst hti
    simp only [step]
    rcases exitCheck_safe cfg.mem R with ⟨v, hv⟩ | hv
    · rw [hv]; trivial
    · rw [hv]; exact ccSafe_fault (merr_undefX 0).okErr 0

/-- ONE ITERATION OF THE RUN LOOP at an item keeps the invariant or ends the run with a result that is
    not a report of the calling-convention monitor -/
theorem step_safe (H : CfgCC cfg.mem) (Hp : Holds hk P routine) (hb : CCShape plainInt body)
    (hsu : setup nargs = .ok su) (hr : routine = routineHead su ++ body ++ cleanup) (fuel : Nat)
    (IH : ∀ m', Inv hk cfg.mem routine m' → CCSafe (runLoop P cfg fuel m').res)
    (m : Machine) (k : Nat) (hpc : m.pc = icnt hk (routine.take k)) (I : InvAt cfg.mem routine k m.σ)
    {code : Code} (hc : routine[k]? = some code) (hi : isItem hk code = true) :
    CCSafe (runLoop P cfg (fuel + 1) m).res := by
  have hnext := icnt_item (hk := hk) hc hi
  by_cases hm : code.isMeta = true
  · -- a hook
    have hh : hk code = true := by simpa [isItem, hm] using hi
    obtain ⟨vs, hit⟩ := Hp.hook k code hc hh
    rw [← hpc] at hit
    rw [runLoop_item hit]
    have I' := invAt_meta H I hc hm
    dsimp only
    split
    · cases hmon : heapMonitor cfg.mem m.σ vs with
      | error e => trivial
      | ok b => exact IH _ ⟨k + 1, by simp only [hnext, hpc], I'⟩
    · exact IH _ ⟨k + 1, by simp only [hnext, hpc], I'⟩
  · -- an instruction
    have hm' : code.isMeta = false := by simpa using hm
    obtain ⟨i, hti, hit⟩ := Hp.instr k code hc hm'
    rw [← hpc] at hit
    rw [runLoop_item hit]
    dsimp only
    have hg := step_good H Hp hb hsu hr m.σ k I hc hm' hti
    rw [← hpc] at hg
    cases hs : step P cfg.mem i m.σ m.pc with
    | next σ pc =>
      rw [hs] at hg
      obtain ⟨k', h1, h2⟩ := hg
      exact IH _ ⟨k', h1, h2⟩
    | print nl w σ pc =>
      rw [hs] at hg
      obtain ⟨k', h1, h2⟩ := hg
      exact IH _ ⟨k', h1, h2⟩
    | stop r =>
      rw [hs] at hg
      rw [finish_res]
      exact ccSafe_withLine _ hg

/-- every run from a state satisfying the invariant -/
theorem runLoop_safe (H : CfgCC cfg.mem) (Hp : Holds hk P routine) (hb : CCShape plainInt body)
    (hsu : setup nargs = .ok su) (hr : routine = routineHead su ++ body ++ cleanup) :
    ∀ (fuel : Nat) (m : Machine), Inv hk cfg.mem routine m → CCSafe (runLoop P cfg fuel m).res
  | 0, m, _ => trivial
  | fuel + 1, m, I => by
    obtain ⟨k, hpc, Ik⟩ := I
    obtain ⟨k', code, hcnt, Ik', hc, hi⟩ := normalize H Hp (routine.length - k) k m.σ (Nat.le_refl _) Ik
    exact step_safe H Hp hb hsu hr fuel (runLoop_safe H Hp hb hsu hr fuel) m k' (by rw [hpc, hcnt]) Ik' hc hi

/-! ## the routine of an integer program -/

theorem entry_label (su rest : List Code) :
    firstLab "asm_main" (routineHead su ++ rest) 0 = some 2 := by
  simp [routineHead, preamble, firstLab]

theorem routine_drop_entry (su rest : List Code) :
    (routineHead su ++ rest).drop 2 = (Code.LAB "asm_main" :: (su ++ [Code.COMMENT "actual code"])) ++ rest := by
  simp [routineHead, preamble]

/-- C13 (b), INTEGER PROGRAMS: on a program that holds the routine, the calling-convention monitor
    never fires — all arguments, all fuel, every monitor configuration -/
theorem cc_safe_prog {p : AxCut.Prog} (hp : Scc.Backend.Shape.IntProgC p) {hooks : Bool} {c0 : Nat}
    {routine : List Code} (hc : compileProg a64Backend p hooks c0 = .ok (body, nargs, routine))
    (H : CfgCC cfg.mem) (Hp : Holds hk P routine) (args : List Word) (fuel : Nat) :
    CCSafe (runProg P args fuel cfg).res := by
  obtain ⟨hb, hrt⟩ := compile_ccShape_int hp hc
  obtain ⟨su, hsu, hr⟩ := routine_anatomy hrt
  unfold runProg
  have hnotHook : ∀ c, (∀ msg, c ≠ Code.COMMENT msg) → c.isMeta = true → isItem hk c = false := by
    intro c hne hm
    cases h : hk c with
    | false => simp [isItem, hm, h]
    | true => obtain ⟨msg, rfl⟩ := Hp.hkComment c h; exact absurd rfl (hne msg)
  have hT := hnotHook Code.TEXT (fun _ h => by cases h) rfl
  have hG := hnotHook (Code.GLOBAL "asm_main") (fun _ h => by cases h) rfl
  have htake : routine.take 2 = [Code.TEXT, Code.GLOBAL "asm_main"] := by
    rw [hr]; simp [routineHead, preamble]
  have hcnt : icnt hk (routine.take 2) = 0 := by
    rw [htake]; simp [icnt, hT, hG]
  have hentry : P.labels["asm_main"]? = some 0 := by
    rw [Hp.labels, hr, List.append_assoc, entry_label, Option.map_some, ← List.append_assoc, ← hr, hcnt]
  rw [hentry]
  dsimp only
  split
  · exact ⟨by decide, by decide⟩
  · apply runLoop_safe H Hp hb hsu hr
    have hdrop : routine.drop 2 =
        (Code.LAB "asm_main" :: (su ++ [Code.COMMENT "actual code"])) ++ (body ++ cleanup) := by
      rw [hr, List.append_assoc]; exact routine_drop_entry su _
    refine ⟨2, hcnt.symm, Code.LAB "asm_main" :: (su ++ [Code.COMMENT "actual code"]), .body,
      drop_eq_append_get hdrop, ?_⟩
    exact (setup_future H (entry_entryState cfg.mem args) hsu).mono
      fun σ' hs' => ⟨hs', body, hb, drop_add_of_append hdrop⟩

end Run

end Scc.A64.CC
