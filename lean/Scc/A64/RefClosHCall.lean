/-
  Scc.A64.RefClosHCall — THREE-WAY SIMULATION of `call` (branch to a definition) and `exit` (result into X0,
  branch to `cleanup`, epilogue, `RET` with a successful exit check) under the typed relation `X3`.
  * `XDefsAt cs hooks prog`: the AArch64 code of every definition is in the routine behind its label.
  NOTE (fork): this file is the closure-aware version of Scc/A64/RefHeapCall.lean (same proofs, the
  three-way relation additionally carries the per-instance code-pointer map `κ`), in the namespace
  `Scc.A64.Ref.K`.
-/
import Scc.A64.RefClosHInt

set_option linter.unusedVariables false
set_option linter.unusedSimpArgs false

namespace Scc.A64.Ref.K

open Scc.AxCut Scc.AxCut.Pos Scc.Backend Scc.Backend.Abs Scc.Backend.Sim Scc.Backend.Sim2 Scc.A64 Scc.A64.CC
open Scc.Heap (HState InvS InvW)
open Scc.Heap.Refine (HRef)

/-- every definition's AArch64 code is in the routine, behind its label -/
def XDefsAt (cs : List Code) (hooks : Bool) (prog : AxCut.Prog) : Prop :=
  ∀ d ∈ prog.defs, ∃ i k k' items,
    cs[i]? = some (Code.LAB (d.name.print ++ "_")) ∧
    (codeStatementR a64Backend hooks natRen prog.types d.body d.ctx).run k = .ok (items, k') ∧
    XAt cs (i + 1) items

/-- the relation depends on the context only through its kinds -/
theorem X3.ctxCongr {c : MemCfg} {Γ Δ : Ctx} {cfg : Config} {hs : HState} {ι : Nat → Nat} {κ : Nat → Nat → Word} {σ : State}
    {out : List (Bool × Word)}
    (X : X3 c Γ cfg hs ι κ σ out) (hc : Γ.map (·.chi) = Δ.map (·.chi)) : X3 c Δ cfg hs ι κ σ out := by
  have hlen : Γ.length = Δ.length := by simpa using congrArg List.length hc
  have hchi : ∀ i (h1 : i < Γ.length) (h2 : i < Δ.length), Δ[i].chi = Γ[i].chi := by
    intro i h1 h2
    have := congrArg (fun l => l[i]?) hc
    simp only [List.getElem?_map, List.getElem?_eq_getElem h1, List.getElem?_eq_getElem h2,
      Option.map_some, Option.some.injEq] at this
    exact this.symm
  refine ⟨X.core, by rw [← hlen]; exact X.cap, ?_, ?_, X.out, X.hrel, ?_⟩
  · intro i hi a ha
    rw [hchi i (by omega) hi]
    exact X.words i (by omega) a ha
  · intro i hi hcx r hr
    exact X.ptrs i (by omega) (by rw [← hchi i (by omega) hi]; exact hcx) r hr
  · have : roots Δ cfg.temps = roots Γ cfg.temps := by
      unfold roots
      exact (roots_go_chi _ Γ Δ 0 hc).symm
    rw [this]
    exact X.href

section Call3

variable {c : MemCfg} (H : CfgCC c) {hkf : Code → Bool} {Pm : Prog}
  {cs : List Code} (Hp : Holds hkf Pm cs) (hndL : (labs cs).Nodup)

include Hp hndL in
/-- THREE-WAY SIMULATION OF `call` -/
theorem call_x3 {P : Program} {hooks : Bool} {prog : AxCut.Prog} {Γ : Ctx} {ρ : List Value} {l : Ident}
    {args : Ctx} {cfg : Config} {d : Def}
    (R : RelX P hooks prog ⟨Γ, ρ, .call l args⟩ cfg) (D : DefsAt P hooks prog) (DX : XDefsAt cs hooks prog)
    (hd : Pos.findDef prog.defs l = some d) (hchi : Pos.chiTys Γ = Pos.chiTys d.ctx)
    {hs : HState} {ι : Nat → Nat} {κ : Nat → Nat → Word} {σ : State} {out : List (Bool × Word)} {kp : Nat}
    (X : X3 c Γ cfg hs ι κ σ out)
    {kx kx' : Nat} {items : List Code}
    (hrunX : (codeStatementR a64Backend hooks natRen prog.types (.call l args) Γ).run kx = .ok (items, kx'))
    (hatX : XAt cs kp items) :
    ∃ cfg' σ' kp', stepsTo P 1 cfg cfg' ∧ MSteps Pm c σ (pcOf hkf cs kp) out σ' (pcOf hkf cs kp') out ∧
      cfg'.out = cfg.out ∧ cfg'.next = cfg.next ∧
      RelX P hooks prog ⟨d.ctx, ρ, d.body⟩ cfg' ∧ X3 c d.ctx cfg' hs ι κ σ' out ∧
      ∃ k1 k1' items', (codeStatementR a64Backend hooks natRen prog.types d.body d.ctx).run k1 = .ok (items', k1') ∧
        XAt cs kp' items' ∧ cfg'.heap = cfg.heap ∧ KeepPos Γ.length cfg cfg' σ σ' := by
  obtain ⟨cfg', hst, hout, hnext, R'⟩ := sim2_call R D hd hchi
  have hstep := stepsTo_one_inv hst
  have J : JumpFacts cfg cfg' := by
    obtain ⟨c0m, c0m', ops, hrun, hat⟩ := R.code
    simp only [codeStatementR, run_pure_ok] at hrun
    obtain ⟨rfl, rfl⟩ := hrun
    simp only [mockSym_comment, mockSym_jumpLabel, List.append_assoc, CodeAt_hook] at hat
    simp only [List.cons_append, List.nil_append, CodeAt] at hat
    exact step_jumpLabel_facts hat.1 hstep
  have hmem : d ∈ prog.defs := List.mem_of_find?_eq_some hd
  have hname : d.name = l := by
    have := List.find?_some hd
    exact Ident.eq_of_beq this
  obtain ⟨i, k1, k1', ditems, hlab, hdrun, hdat⟩ := DX d hmem
  -- the AArch64 code
  simp only [codeStatementR, run_pure_ok] at hrunX
  obtain ⟨rfl, rfl⟩ := hrunX
  generalize hc0 : hookCode a64Backend hooks Γ ++ [a64Backend.comment (l.print ++ "(...)")] = c0 at hatX
  have hc0c : ∀ y ∈ c0, ∃ m', y = Code.COMMENT m' := by rw [← hc0]; exact hook_comments hooks Γ _
  replace hatX : XAt cs kp (c0 ++ [Code.B (l.print ++ "_")]) := hatX
  have hk0 := x_msteps_codes (c := c) Hp hatX.left (execCodes_comments c c0 σ hc0c) out
  have hidx := label_of_nodup Hp hndL hlab
  rw [hname] at hidx
  have hk2 := mstep_jump (c := c) Hp hatX.right.head hidx σ out
  have hk3 := msteps_code (c := c) Hp hlab (σ := σ) (σ' := σ) rfl out
  have hkeys : Γ.map (·.chi) = d.ctx.map (·.chi) := by
    have := congrArg (List.map Prod.fst) hchi
    simp only [Pos.chiTys, List.map_map] at this
    exact this
  exact ⟨cfg', σ, i + 1, hst, hk0.trans (hk2.trans hk3), hout, hnext, R',
    X3.ctxCongr (X3.jump X J) hkeys, _, _, ditems, hdrun, hdat, J.heap,
    ⟨fun t ht => by rw [J.temps, get_clobberTemp _ (by unfold Mock.T_TEMP; have := X.cap; omega)],
     fun i hi => rfl⟩⟩

end Call3

/-! ## `exit` -/

section Exit3

variable {c : MemCfg} (H : CfgCC c) {hkf : Code → Bool} {Pm : Prog}
  {cs pre : List Code} (Hp : Holds hkf Pm cs) (hcs : cs = pre ++ cleanup)
  (hclean : "cleanup" ∉ labs pre)

include H Hp hcs hclean in
/-- the branch to `cleanup`, the epilogue, and the exit check at `RET` -/
theorem epilogue_run {σ : State} (C : Core c σ) {v : Word} (h0 : σ.reg 0 = some v) {k : Nat}
    (hB : cs[k]? = some (Code.B "cleanup")) (out : List (Bool × Word)) :
    ∃ kL σL, MSteps Pm c σ (pcOf hkf cs k) out σL (pcOf hkf cs kL) out ∧
      Pm.items[pcOf hkf cs kL]? = some (.instr .ret) ∧ exitCheck c σL = .done v := by
  have hcs' : cs = pre ++ Code.LAB "cleanup" :: (cleanupBody ++ [Code.RET]) := by
    rw [hcs]; rfl
  have hidx : Pm.labels["cleanup"]? = some (pcOf hkf cs pre.length) :=
    label_pc Hp hcs' (lab_not_mem_of_labs hclean)
  have h1 := mstep_jump (c := c) Hp hB hidx σ out
  have hr := H.room; have htop := H.ok.top; have h16 := H.top16
  obtain ⟨σ3, he3, hp3⟩ := cleanup_correct H.ok σ c.stackTop (C.spNat H) h16 (by omega) (Nat.le_refl _)
  obtain ⟨σ3', he3', RR⟩ := cleanup_ready H C
  rw [he3] at he3'
  cases he3'
  have hcE : cs = pre ++ cleanup.dropLast ++ [Code.RET] := by
    rw [hcs, List.append_assoc]; rfl
  have h2 := msteps_codes Hp cleanup.dropLast _ _ _ out (block_get hcE) he3
  have hcR : cs = (pre ++ cleanup.dropLast) ++ Code.RET :: [] := hcE
  have hget := code_get hcR
  obtain ⟨i, hti, hit⟩ := Hp.instr _ _ hget rfl
  simp only [Code.toInstr, Option.some.injEq] at hti
  subst hti
  refine ⟨_, σ3, h1.trans h2, ?_, ?_⟩
  · rw [List.length_append] at hit
    exact hit
  · apply exitCheck_done c RR
    rw [hp3.low 0 (by decide)]
    exact h0

include H Hp hcs hclean in
/-- THREE-WAY SIMULATION OF `exit`: the result goes to X0, the branch to `cleanup` and the epilogue lead to
`RET`, whose exit check succeeds with the result -/
theorem exit_x3 {P : Program} {hooks : Bool} {prog : AxCut.Prog} {Γ : Ctx} {ρ : List Value} {a : Ident}
    {cfg : Config} {v : Word}
    (R : RelX P hooks prog ⟨Γ, ρ, .exit a⟩ cfg) (ha : readInt Γ ρ a = .ok v)
    {hs : HState} {ι : Nat → Nat} {κ : Nat → Nat → Word} {σ : State} {out : List (Bool × Word)} {kp : Nat}
    (X : X3 c Γ cfg hs ι κ σ out)
    {kx kx' : Nat} {items : List Code}
    (hrunX : (codeStatementR a64Backend hooks natRen prog.types (.exit a) Γ).run kx = .ok (items, kx'))
    (hatX : XAt cs kp items) :
    ∃ kL σL, MSteps Pm c σ (pcOf hkf cs kp) out σL (pcOf hkf cs kL) out ∧
      Pm.items[pcOf hkf cs kL]? = some (.instr .ret) ∧ exitCheck c σL = .done v ∧ out = cfg.out := by
  obtain ⟨i, hi, hl, hg, hchi⟩ := relX_int_ext R ha
  simp only [codeStatementR, run_bind_ok, run_pure_ok] at hrunX
  obtain ⟨tX, _, htX, rfl, rfl⟩ := hrunX
  obtain ⟨pX, hpX, hltX, rfl, rfl, _⟩ := vt_rel htX
  rw [hi] at hpX
  injection hpX with hpX
  subst hpX
  simp only [TempNum.toNat] at hltX
  generalize hc0 : hookCode a64Backend hooks Γ ++ [a64Backend.comment ("exit " ++ a.print)] = c0 at hatX
  have hc0c : ∀ y ∈ c0, ∃ m', y = Code.COMMENT m' := by rw [← hc0]; exact hook_comments hooks Γ _
  replace hatX : XAt cs kp (c0 ++ (mov (.register RETURN1) (posTemp (2 * i + 1)) ++ [Code.B "cleanup"])) := by
    have : a64Backend.mov a64Backend.return1 (posTemp (2 * i + TempNum.snd.toNat)) ++
        a64Backend.jumpLabel "cleanup" = mov (.register RETURN1) (posTemp (2 * i + 1)) ++ [Code.B "cleanup"] := rfl
    rw [← this]
    simpa [List.append_assoc] using hatX
  have hk0 := x_msteps_codes (c := c) Hp hatX.left (execCodes_comments c c0 σ hc0c) out
  have hw := X.words i hl v hg
  rw [hchi] at hw
  have hok := ok_of_isVar (isVar_posTemp hltX)
  have e1 := moveToRegister_exec (X.spOk H) xreg_0 hok
  rw [← mov_ret_eq] at e1
  have C1 := core_execCodes H _ X.core (allInt_mov rfl hok) e1
  have hk1 := x_msteps_codes Hp hatX.right.left e1 out
  have hx0 : (σ.setReg 0 (σ.tempVal (posTemp (2 * i + 1)))).reg 0 = some v := by
    rw [setReg_reg, if_pos rfl]; exact hw
  obtain ⟨kL, σL, hk2, hret, hx⟩ := epilogue_run H Hp hcs hclean C1 hx0 hatX.right.right.head out
  exact ⟨kL, σL, hk0.trans (hk1.trans hk2), hret, hx, X.out⟩

end Exit3

end Scc.A64.Ref.K
