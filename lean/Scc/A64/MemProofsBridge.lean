/-
  Scc.A64.MemProofsBridge — THE BRIDGE between the block semantics `execFwd` (MemProofsFwd.lean), on
  which the memory contracts are stated, and the machine of Machine.lean: if the laid-out program
  contains the instructions of a block at consecutive item indices and every label the block defines
  resolves to its position in the block (labels are unique in the text: C14), then whenever `execFwd`
  runs the block to its end, iterating the machine's `step` does the same and arrives just behind the
  block (`Steps`), and `runLoop` consumes exactly that many steps of fuel (`runLoop_steps`).
-/
import Scc.A64.MemProofsFwd

set_option linter.unusedSimpArgs false
set_option linter.unusedVariables false

namespace Scc.A64

/-- does the code occupy an item of the laid-out program (an instruction)? labels, comments and
directives do not -/
def Code.isItem (cd : Code) : Bool := cd.toInstr.isSome

/-- index (relative to the block start) of the item that code position `j` of the block is laid out at -/
def itemIdx (codes : List Code) (j : Nat) : Nat := ((codes.take j).filter Code.isItem).length

theorem itemIdx_zero (codes : List Code) : itemIdx codes 0 = 0 := by simp [itemIdx]

theorem itemIdx_succ (codes : List Code) {j : Nat} (h : j < codes.length) :
    itemIdx codes (j + 1) = itemIdx codes j + (if codes[j].isItem then 1 else 0) := by
  unfold itemIdx
  rw [List.take_succ_eq_append_getElem h, List.filter_append, List.length_append]
  by_cases hi : codes[j].isItem = true <;> simp [hi]

/-- the program text contains the block `codes` at item index `pc0` (no hook comments inside), and
every label the block defines resolves to its position in the block -/
structure BlockAt (p : Prog) (pc0 : Nat) (codes : List Code) : Prop where
  items : ∀ j (h : j < codes.length) i, codes[j].toInstr = some i →
    p.items[pc0 + itemIdx codes j]? = some (.instr i)
  labels : ∀ j l, codes[j]? = some (.LAB l) → p.labels[l]? = some (pc0 + itemIdx codes j)

/-- finitely many machine steps (no print, no stop) from `(σ, pc)` to `(σ', pc')` -/
inductive Steps (p : Prog) (c : MemCfg) : State → Nat → State → Nat → Prop
  | refl (σ : State) (pc : Nat) : Steps p c σ pc σ pc
  | step {σ σ1 σ2 : State} {pc pc1 pc2 : Nat} {i : Instr} :
      p.items[pc]? = some (.instr i) → step p c i σ pc = .next σ1 pc1 → Steps p c σ1 pc1 σ2 pc2 →
      Steps p c σ pc σ2 pc2

theorem Steps.trans {p : Prog} {c : MemCfg} {σ1 σ2 σ3 : State} {pc1 pc2 pc3 : Nat}
    (h1 : Steps p c σ1 pc1 σ2 pc2) (h2 : Steps p c σ2 pc2 σ3 pc3) : Steps p c σ1 pc1 σ3 pc3 := by
  induction h1 with
  | refl => exact h2
  | step hi hs _ ih => exact .step hi hs (ih h2)

/-- a fall-through outcome of `execCodeC` on an instruction is a step of the machine to the next item -/
theorem execCodeC_next_step (p : Prog) (c : MemCfg) {code : Code} {i : Instr} {σ σ' : State} (pc : Nat)
    (hi : code.toInstr = some i) (hx : execCodeC c code σ = .ok (σ', .next)) :
    step p c i σ pc = .next σ' (pc + 1) := by
  unfold execCodeC at hx
  rw [hi] at hx
  cases i <;> simp only [] at hx
  case b l => cases hx
  case bcond cd l =>
    cases hf : σ.flags with
    | none => simp [hf] at hx
    | some ab =>
      obtain ⟨a, b⟩ := ab
      simp only [hf] at hx
      by_cases hh : cd.holds a b
      · simp [hh] at hx
      · simp only [hh, Bool.false_eq_true, if_false, Except.ok.injEq, Prod.mk.injEq, and_true] at hx
        subst hx
        simp [step, hf, hh]
  all_goals
    rw [execCode_of_toInstr σ hi] at hx
    first
      | (simp only [Instr.exec] at hx; cases hx; done)
      | (simp only [step]
         split at hx
         · rename_i σ1 h1
           simp only [Except.ok.injEq, Prod.mk.injEq, and_true] at hx
           subst hx
           rw [h1]
         · cases hx)

/-- a jump outcome of `execCodeC` is a step of the machine to the item the label resolves to -/
theorem execCodeC_jump_step (p : Prog) (c : MemCfg) {code : Code} {i : Instr} {σ σ' : State} {l : String}
    {pc j : Nat} (hi : code.toInstr = some i) (hx : execCodeC c code σ = .ok (σ', .jump l))
    (hl : p.labels[l]? = some j) : step p c i σ pc = .next σ' j := by
  unfold execCodeC at hx
  rw [hi] at hx
  cases i <;> simp only [] at hx
  case b l' =>
    simp only [Except.ok.injEq, Prod.mk.injEq, Ctl.jump.injEq] at hx
    obtain ⟨rfl, rfl⟩ := hx
    simp [step, Prog.gotoLabel, hl]
  case bcond cd l' =>
    cases hf : σ.flags with
    | none => simp [hf] at hx
    | some ab =>
      obtain ⟨a, b⟩ := ab
      simp only [hf] at hx
      by_cases hh : cd.holds a b
      · simp only [hh, if_true, Except.ok.injEq, Prod.mk.injEq, Ctl.jump.injEq] at hx
        obtain ⟨rfl, rfl⟩ := hx
        simp [step, hf, hh, Prog.gotoLabel, hl]
      · simp [hh] at hx
  all_goals
    split at hx
    · simp at hx
    · cases hx

/-- a code that is no instruction does nothing (or is an error) -/
theorem execCodeC_nonitem {c : MemCfg} {code : Code} {σ σ' : State} {ctl : Ctl}
    (hi : code.toInstr = none) (hx : execCodeC c code σ = .ok (σ', ctl)) : σ' = σ ∧ ctl = .next := by
  unfold execCodeC at hx
  rw [hi] at hx
  simp only [] at hx
  unfold execCode at hx
  cases code <;> simp only [hi, Except.ok.injEq, Prod.mk.injEq] at hx <;>
    first | exact ⟨hx.1.symm, hx.2.symm⟩ | cases hx

theorem skipTo_spec {l : String} : ∀ {cs rest : List Code}, skipTo l cs = some rest →
    ∃ j, cs[j]? = some (.LAB l) ∧ rest = cs.drop (j + 1)
  | [], _, h => by simp [skipTo] at h
  | cd :: cs, rest, h => by
    have key : skipTo l cs = some rest → ∃ j, (cd :: cs)[j]? = some (.LAB l) ∧ rest = (cd :: cs).drop (j + 1) := by
      intro h'
      obtain ⟨j, h1, h2⟩ := skipTo_spec h'
      exact ⟨j + 1, by simpa using h1, by simpa using h2⟩
    cases cd <;> simp only [skipTo] at h
    case LAB l' =>
      split at h
      · rename_i e
        injection h with h
        exact ⟨0, by simp [e], by simp [h]⟩
      · exact key h
    all_goals exact key h

/-- THE BRIDGE for blocks with forward local labels -/
theorem steps_fwd (p : Prog) (c : MemCfg) (pc0 : Nat) (codes : List Code) (hb : BlockAt p pc0 codes) :
    ∀ (n off : Nat) (σ σ' : State), codes.length - off ≤ n → off ≤ codes.length →
      execFwd c (codes.drop off) σ = .ok (σ', .next) →
      Steps p c σ (pc0 + itemIdx codes off) σ' (pc0 + itemIdx codes codes.length) := by
  intro n
  induction n with
  | zero =>
    intro off σ σ' hn hoff hx
    have : off = codes.length := by omega
    subst this
    rw [List.drop_length, execFwd_nil] at hx
    simp only [Except.ok.injEq, Prod.mk.injEq, and_true] at hx
    subst hx
    exact .refl _ _
  | succ n ih =>
    intro off σ σ' hn hoff hx
    by_cases hlt : off < codes.length
    · have hdrop : codes.drop off = codes[off] :: codes.drop (off + 1) := by
        rw [List.drop_eq_getElem_cons hlt]
      rw [hdrop, execFwd_cons] at hx
      cases hex : execCodeC c codes[off] σ with
      | error e => simp [hex, contFwd] at hx
      | ok r =>
        obtain ⟨σ1, ctl⟩ := r
        rw [hex] at hx
        cases hti : codes[off].toInstr with
        | none =>
          obtain ⟨rfl, rfl⟩ := execCodeC_nonitem hti hex
          simp only [contFwd] at hx
          have hidx : itemIdx codes (off + 1) = itemIdx codes off := by
            rw [itemIdx_succ codes hlt]; simp [Code.isItem, hti]
          rw [← hidx]
          exact ih (off + 1) _ _ (by omega) (by omega) hx
        | some i =>
          have hitem := hb.items off hlt i hti
          have hidx : itemIdx codes (off + 1) = itemIdx codes off + 1 := by
            rw [itemIdx_succ codes hlt]; simp [Code.isItem, hti]
          cases ctl with
          | next =>
            simp only [contFwd] at hx
            have hs := execCodeC_next_step p c (pc0 + itemIdx codes off) hti hex
            refine .step hitem hs ?_
            rw [Nat.add_assoc, ← hidx]
            exact ih (off + 1) _ _ (by omega) (by omega) hx
          | jump l =>
            simp only [contFwd] at hx
            cases hsk : skipTo l (codes.drop (off + 1)) with
            | none => simp [hsk] at hx
            | some rest =>
              simp only [hsk] at hx
              obtain ⟨j, hj, hrest⟩ := skipTo_spec hsk
              have hj' : codes[off + 1 + j]? = some (.LAB l) := by
                rw [List.getElem?_drop] at hj; exact hj
              obtain ⟨hjlt, hjeq⟩ := List.getElem?_eq_some_iff.1 hj'
              have hl := hb.labels _ _ hj'
              have hs := execCodeC_jump_step p c (pc := pc0 + itemIdx codes off) hti hex hl
              refine .step hitem hs ?_
              have hidx2 : itemIdx codes (off + 1 + j + 1) = itemIdx codes (off + 1 + j) := by
                rw [itemIdx_succ codes hjlt]; simp [Code.isItem, hjeq, Code.toInstr]
              rw [← hidx2]
              have hd : codes.drop (off + 1 + j + 1) = rest := by
                rw [hrest, List.drop_drop, Nat.add_assoc]
              refine ih (off + 1 + j + 1) _ _ (by omega) (by omega) ?_
              rw [hd]; exact hx
    · have : off = codes.length := by omega
      subst this
      rw [List.drop_length, execFwd_nil] at hx
      simp only [Except.ok.injEq, Prod.mk.injEq, and_true] at hx
      subst hx
      exact .refl _ _

/-- a block that `execFwd` runs to its end is run by the machine from its first item to just behind it -/
theorem steps_of_execFwd {p : Prog} {c : MemCfg} {pc0 : Nat} {codes : List Code} (hb : BlockAt p pc0 codes)
    {σ σ' : State} (hx : execFwd c codes σ = .ok (σ', .next)) :
    Steps p c σ pc0 σ' (pc0 + itemIdx codes codes.length) := by
  have := steps_fwd p c pc0 codes hb codes.length 0 σ σ' (by omega) (by omega) (by simpa using hx)
  rwa [itemIdx_zero, Nat.add_zero] at this

/-- `Steps` inside `runLoop`: the steps consume fuel and are counted, nothing is printed, the monitors
do not run (no hook is passed) -/
theorem runLoop_steps {p : Prog} {cfg : MonCfg} {σ σ' : State} {pc pc' : Nat}
    (h : Steps p cfg.mem σ pc σ' pc') :
    ∀ (out : List (Bool × Word)) (steps blocks : Nat), ∃ n, ∀ fuel,
      runLoop p cfg (n + fuel) { σ := σ, pc := pc, out := out, steps := steps, blocks := blocks } =
        runLoop p cfg fuel { σ := σ', pc := pc', out := out, steps := steps + n, blocks := blocks } := by
  induction h with
  | refl σ pc => intro out steps blocks; exact ⟨0, fun fuel => by simp⟩
  | @step σ σ1 σ2 pc pc1 pc2 i hi hs _ ih =>
    intro out steps blocks
    obtain ⟨n, hn⟩ := ih out (steps + 1) blocks
    refine ⟨n + 1, fun fuel => ?_⟩
    obtain ⟨hlt, heq⟩ := (Array.getElem?_eq_some_iff).1 hi
    rw [show n + 1 + fuel = (n + fuel) + 1 by omega, runLoop]
    simp only [hlt, dite_true, heq, hs]
    rw [hn fuel]
    congr 2
    omega

end Scc.A64
