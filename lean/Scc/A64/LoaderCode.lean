/-
  Scc.A64.LoaderCode — the loader reads every printed item of the AArch64 backend back:
  for EVERY constructor `c` of `Scc.A64.Code`

  * instructions: `Code.toInstr c = some i` (the registers exist) and `CodeOK c` (the labels are
    text-safe) give `parseLine (printCode c) = some (.instr i)` (`parseLine_printCode`), the printed
    form is one line;
  * `LAB l` prints as an empty line and `l:`, read as `.blank`, `.label l`; `.text`, `.global l` are
    directives; `COMMENT msg` is read as `commentPLine? msg` (comment / hook);
  * `codeLines c` (the lines of the printed item), `codePLines c` (what the loader reads them as),
    `parse_codeLines : (codeLines c).map parseLine = (codePLines c).map some`;
  * `roundTrips_of_ok : CodeOK c → c.regsOK → c.roundTrips = true`.

  `CodeOK c`: referenced labels (`B BL ADR Bcc .global`) are non-empty and contain no white space and
  none of `, : [ ] !`; a defined label (`LAB`) moreover does not start with `.` or `//`; a comment has
  no line break and is not a malformed `#ctx [` hook.
  Proof file: core imports only.
-/
import Scc.A64.LoaderInstr

namespace Scc.A64.Loader

open Scc.A64 Scc.Str

set_option linter.unusedSimpArgs false
set_option linter.unusedVariables false

/-! ## one-line instructions -/

def mnCheck (mn : List Char) : Bool :=
  !mn.isEmpty && mn.all (fun c => c != ' ' && !c.isWhitespace && c != '/' && c != '.' && c != ':')

theorem mnOK_of_check {mn : List Char} (h : mnCheck mn = true) : MnOK mn := by
  simp only [mnCheck, Bool.and_eq_true, Bool.not_eq_true', List.all_eq_true, bne_iff_ne, ne_eq] at h
  refine ⟨fun e => by rw [e] at h; simp at h, fun c hc => ?_⟩
  obtain ⟨⟨⟨⟨a, b⟩, c'⟩, d⟩, _⟩ := h.2 c hc
  exact ⟨a, b, c', d⟩

theorem nl_of_ws {l : List Char} (h : ∀ c ∈ l, c.isWhitespace = false) : '\n' ∉ l :=
  fun hm => absurd (h _ hm) (by decide)

theorem nl_regC (r : Reg) : '\n' ∉ regC r := fun hm => (regC_chars r _ hm).2.2.2.1 rfl
theorem nl_immC (i : Int) : '\n' ∉ immC i := fun hm => (immC_chars i _ hm).2.2.2 rfl
theorem nl_label {l : List Char} (h : LabelOK l) : '\n' ∉ l := fun hm => (labelC_facts (h.2 _ hm)).2.2.2.1 rfl

theorem nl_ops2 {a b : List Char} (ha : '\n' ∉ a) (hb : '\n' ∉ b) : '\n' ∉ ops2 a b := by
  simp [ops2, ha, hb]
theorem nl_ops3 {a b c : List Char} (ha : '\n' ∉ a) (hb : '\n' ∉ b) (hc : '\n' ∉ c) : '\n' ∉ ops3 a b c := by
  simp [ops3, ops2, ha, hb, hc]
theorem nl_ops4 {a b c d : List Char} (ha : '\n' ∉ a) (hb : '\n' ∉ b) (hc : '\n' ∉ c) (hd : '\n' ∉ d) :
    '\n' ∉ ops4 a b c d := by
  simp [ops4, ops3, ops2, ha, hb, hc, hd]
theorem nl_opsWide {a b c : List Char} (ha : '\n' ∉ a) (hb : '\n' ∉ b) (hc : '\n' ∉ c) : '\n' ∉ opsWide a b c := by
  simp [opsWide, ha, hb, hc]
theorem nl_opsMem {a b c : List Char} (ha : '\n' ∉ a) (hb : '\n' ∉ b) (hc : '\n' ∉ c) : '\n' ∉ opsMem a b c := by
  simp [opsMem, ha, hb, hc]
theorem nl_opsStp {a b c d : List Char} (ha : '\n' ∉ a) (hb : '\n' ∉ b) (hc : '\n' ∉ c) (hd : '\n' ∉ d) :
    '\n' ∉ opsStp a b c d := by
  simp [opsStp, ha, hb, hc, hd]
theorem nl_opsLdp {a b c d : List Char} (ha : '\n' ∉ a) (hb : '\n' ∉ b) (hc : '\n' ∉ c) (hd : '\n' ∉ d) :
    '\n' ∉ opsLdp a b c d := by
  simp [opsLdp, ha, hb, hc, hd]

theorem endOK_ops2 {a b : List Char} (hb : EndOK b) : EndOK (ops2 a b) :=
  endOK_append (endOK_cons (endOK_cons hb))
theorem endOK_ops3 {a b c : List Char} (hc : EndOK c) : EndOK (ops3 a b c) :=
  endOK_append (endOK_cons (endOK_cons (endOK_ops2 hc)))
theorem endOK_ops4 {a b c d : List Char} (hd : EndOK d) : EndOK (ops4 a b c d) :=
  endOK_append (endOK_cons (endOK_cons (endOK_ops3 hd)))
theorem endOK_opsWide {a b c : List Char} (hc : EndOK c) : EndOK (opsWide a b c) :=
  endOK_append (endOK_cons (endOK_cons (endOK_append (endOK_cons (endOK_cons (endOK_cons (endOK_cons
    (endOK_cons (endOK_cons hc)))))))))
theorem endOK_brk : EndOK [' ', ']'] := ⟨by simp, by decide⟩
theorem endOK_brkbang : EndOK [' ', ']', '!'] := ⟨by simp, by decide⟩
theorem endOK_opsMem {a b c : List Char} : EndOK (opsMem a b c) :=
  endOK_append (endOK_cons (endOK_cons (endOK_cons (endOK_cons (endOK_append (endOK_cons (endOK_cons
    (endOK_append endOK_brk))))))))
theorem endOK_opsStp {a b c d : List Char} : EndOK (opsStp a b c d) :=
  endOK_append (endOK_cons (endOK_cons (endOK_append (endOK_cons (endOK_cons (endOK_cons (endOK_cons
    (endOK_append (endOK_cons (endOK_cons (endOK_append endOK_brkbang)))))))))))
theorem endOK_opsLdp {a b c d : List Char} (hd : EndOK d) : EndOK (opsLdp a b c d) :=
  endOK_append (endOK_cons (endOK_cons (endOK_append (endOK_cons (endOK_cons (endOK_cons (endOK_cons
    (endOK_append (endOK_cons (endOK_cons (endOK_cons (endOK_cons hd))))))))))))

/-- the printed item is ONE line that the loader reads as the instruction `i` -/
def Reads (c : Code) (i : Instr) : Prop :=
  parseLine (printCode c) = some (.instr i) ∧ '\n' ∉ (printCode c).toList

theorem instr_line {c : Code} {mn ops : List Char} {i : Instr}
    (hs : (printCode c).toList = ' ' :: ' ' :: ' ' :: ' ' :: (mn ++ ' ' :: ops)) (hmn : MnOK mn)
    (hops : EndOK ops) (hnl : '\n' ∉ ops)
    (hi : parseInstr (String.ofList mn) (String.ofList ops) = some i) : Reads c i := by
  refine ⟨parseLine_instr hs hmn hops hi, ?_⟩
  rw [hs]
  have hmnl : '\n' ∉ mn := nl_of_ws (fun c hc => (hmn.2 c hc).2.1)
  simp [hmnl, hnl]

theorem reads_ADD (x : Register) (x' : Reg) (y : Register) (y' : Reg) (z : Register) (z' : Reg) (hx : x.toReg = some x') (hy : y.toReg = some y') (hz : z.toReg = some z') :
    Reads (.ADD x y z) (.add x' y' z') := by
  apply instr_line (mn := "ADD".toList) (ops := ops3 (regC x') (regC y') (regC z'))
  · show ("    ADD " ++ x.print ++ ", " ++ y.print ++ ", " ++ z.print).toList = _
    rw [print_toReg hx, print_toReg hy, print_toReg hz]
    simp only [String.toList_append, String.toList_ofList, ops2, ops3, ops4, opsWide, opsMem, opsStp, opsLdp]
    simp
  · exact mnOK_of_check (by decide)
  · exact endOK_ops3 (endOK_regC z')
  · exact nl_ops3 (nl_regC x') (nl_regC y') (nl_regC z')
  ·
    rw [String.ofList_toList]; exact parseInstr_ADD_r x' y' z'

theorem reads_ADDI (x : Register) (x' : Reg) (y : Register) (y' : Reg) (i : Int) (hx : x.toReg = some x') (hy : y.toReg = some y') :
    Reads (.ADDI x y i) (.addi x' y' i) := by
  apply instr_line (mn := "ADD".toList) (ops := ops3 (regC x') (regC y') (immC i))
  · show ("    ADD " ++ x.print ++ ", " ++ y.print ++ ", " ++ immPrint i).toList = _
    rw [print_toReg hx, print_toReg hy, immPrint_eq i]
    simp only [String.toList_append, String.toList_ofList, ops2, ops3, ops4, opsWide, opsMem, opsStp, opsLdp]
    simp
  · exact mnOK_of_check (by decide)
  · exact endOK_ops3 (endOK_immC i)
  · exact nl_ops3 (nl_regC x') (nl_regC y') (nl_immC i)
  ·
    rw [String.ofList_toList]; exact parseInstr_ADD_i x' y' i

theorem reads_SUB (x : Register) (x' : Reg) (y : Register) (y' : Reg) (z : Register) (z' : Reg) (hx : x.toReg = some x') (hy : y.toReg = some y') (hz : z.toReg = some z') :
    Reads (.SUB x y z) (.sub x' y' z') := by
  apply instr_line (mn := "SUB".toList) (ops := ops3 (regC x') (regC y') (regC z'))
  · show ("    SUB " ++ x.print ++ ", " ++ y.print ++ ", " ++ z.print).toList = _
    rw [print_toReg hx, print_toReg hy, print_toReg hz]
    simp only [String.toList_append, String.toList_ofList, ops2, ops3, ops4, opsWide, opsMem, opsStp, opsLdp]
    simp
  · exact mnOK_of_check (by decide)
  · exact endOK_ops3 (endOK_regC z')
  · exact nl_ops3 (nl_regC x') (nl_regC y') (nl_regC z')
  ·
    rw [String.ofList_toList]; exact parseInstr_SUB_r x' y' z'

theorem reads_SUBI (x : Register) (x' : Reg) (y : Register) (y' : Reg) (i : Int) (hx : x.toReg = some x') (hy : y.toReg = some y') :
    Reads (.SUBI x y i) (.subi x' y' i) := by
  apply instr_line (mn := "SUB".toList) (ops := ops3 (regC x') (regC y') (immC i))
  · show ("    SUB " ++ x.print ++ ", " ++ y.print ++ ", " ++ immPrint i).toList = _
    rw [print_toReg hx, print_toReg hy, immPrint_eq i]
    simp only [String.toList_append, String.toList_ofList, ops2, ops3, ops4, opsWide, opsMem, opsStp, opsLdp]
    simp
  · exact mnOK_of_check (by decide)
  · exact endOK_ops3 (endOK_immC i)
  · exact nl_ops3 (nl_regC x') (nl_regC y') (nl_immC i)
  ·
    rw [String.ofList_toList]; exact parseInstr_SUB_i x' y' i

theorem reads_MUL (x : Register) (x' : Reg) (y : Register) (y' : Reg) (z : Register) (z' : Reg) (hx : x.toReg = some x') (hy : y.toReg = some y') (hz : z.toReg = some z') :
    Reads (.MUL x y z) (.mul x' y' z') := by
  apply instr_line (mn := "MUL".toList) (ops := ops3 (regC x') (regC y') (regC z'))
  · show ("    MUL " ++ x.print ++ ", " ++ y.print ++ ", " ++ z.print).toList = _
    rw [print_toReg hx, print_toReg hy, print_toReg hz]
    simp only [String.toList_append, String.toList_ofList, ops2, ops3, ops4, opsWide, opsMem, opsStp, opsLdp]
    simp
  · exact mnOK_of_check (by decide)
  · exact endOK_ops3 (endOK_regC z')
  · exact nl_ops3 (nl_regC x') (nl_regC y') (nl_regC z')
  ·
    rw [String.ofList_toList]; exact parseInstr_MUL x' y' z'

theorem reads_SDIV (x : Register) (x' : Reg) (y : Register) (y' : Reg) (z : Register) (z' : Reg) (hx : x.toReg = some x') (hy : y.toReg = some y') (hz : z.toReg = some z') :
    Reads (.SDIV x y z) (.sdiv x' y' z') := by
  apply instr_line (mn := "SDIV".toList) (ops := ops3 (regC x') (regC y') (regC z'))
  · show ("    SDIV " ++ x.print ++ ", " ++ y.print ++ ", " ++ z.print).toList = _
    rw [print_toReg hx, print_toReg hy, print_toReg hz]
    simp only [String.toList_append, String.toList_ofList, ops2, ops3, ops4, opsWide, opsMem, opsStp, opsLdp]
    simp
  · exact mnOK_of_check (by decide)
  · exact endOK_ops3 (endOK_regC z')
  · exact nl_ops3 (nl_regC x') (nl_regC y') (nl_regC z')
  ·
    rw [String.ofList_toList]; exact parseInstr_SDIV x' y' z'

theorem reads_MSUB (x : Register) (x' : Reg) (y : Register) (y' : Reg) (z : Register) (z' : Reg) (v : Register) (v' : Reg) (hx : x.toReg = some x') (hy : y.toReg = some y') (hz : z.toReg = some z') (hv : v.toReg = some v') :
    Reads (.MSUB x y z v) (.msub x' y' z' v') := by
  apply instr_line (mn := "MSUB".toList) (ops := ops4 (regC x') (regC y') (regC z') (regC v'))
  · show ("    MSUB " ++ x.print ++ ", " ++ y.print ++ ", " ++ z.print ++ ", " ++ v.print).toList = _
    rw [print_toReg hx, print_toReg hy, print_toReg hz, print_toReg hv]
    simp only [String.toList_append, String.toList_ofList, ops2, ops3, ops4, opsWide, opsMem, opsStp, opsLdp]
    simp
  · exact mnOK_of_check (by decide)
  · exact endOK_ops4 (endOK_regC v')
  · exact nl_ops4 (nl_regC x') (nl_regC y') (nl_regC z') (nl_regC v')
  ·
    rw [String.ofList_toList]; exact parseInstr_MSUB x' y' z' v'

theorem reads_B (l : String) (hl : LabelOK l.toList) :
    Reads (.B l) (.b l) := by
  apply instr_line (mn := "B".toList) (ops := l.toList)
  · show ("    B " ++ l).toList = _
    simp only [String.toList_append, String.toList_ofList, ops2, ops3, ops4, opsWide, opsMem, opsStp, opsLdp]
    simp
  · exact mnOK_of_check (by decide)
  · exact endOK_label hl
  · exact nl_label hl
  ·
    have := parseInstr_B hl
    simp only [String.ofList_toList] at this ⊢
    exact this

theorem reads_BR (r : Register) (r' : Reg) (hr : r.toReg = some r') :
    Reads (.BR r) (.br r') := by
  apply instr_line (mn := "BR".toList) (ops := regC r')
  · show ("    BR " ++ r.print).toList = _
    rw [print_toReg hr]
    simp only [String.toList_append, String.toList_ofList, ops2, ops3, ops4, opsWide, opsMem, opsStp, opsLdp]
    simp
  · exact mnOK_of_check (by decide)
  · exact endOK_regC r'
  · exact nl_regC r'
  ·
    rw [String.ofList_toList]; exact parseInstr_BR r'

theorem reads_BL (l : String) (hl : LabelOK l.toList) :
    Reads (.BL l) (.bl l) := by
  apply instr_line (mn := "BL".toList) (ops := l.toList)
  · show ("    BL " ++ l).toList = _
    simp only [String.toList_append, String.toList_ofList, ops2, ops3, ops4, opsWide, opsMem, opsStp, opsLdp]
    simp
  · exact mnOK_of_check (by decide)
  · exact endOK_label hl
  · exact nl_label hl
  ·
    have := parseInstr_BL hl
    simp only [String.ofList_toList] at this ⊢
    exact this

theorem reads_ADR (r : Register) (r' : Reg) (l : String) (hr : r.toReg = some r') (hl : LabelOK l.toList) :
    Reads (.ADR r l) (.adr r' l) := by
  apply instr_line (mn := "ADR".toList) (ops := ops2 (regC r') (l.toList))
  · show ("    ADR " ++ r.print ++ ", " ++ l).toList = _
    rw [print_toReg hr]
    simp only [String.toList_append, String.toList_ofList, ops2, ops3, ops4, opsWide, opsMem, opsStp, opsLdp]
    simp
  · exact mnOK_of_check (by decide)
  · exact endOK_ops2 (endOK_label hl)
  · exact nl_ops2 (nl_regC r') (nl_label hl)
  ·
    have := parseInstr_ADR r' hl
    simp only [String.ofList_toList] at this ⊢
    exact this

theorem reads_MOVR (x : Register) (x' : Reg) (y : Register) (y' : Reg) (hx : x.toReg = some x') (hy : y.toReg = some y') :
    Reads (.MOVR x y) (.mov x' y') := by
  apply instr_line (mn := "MOV".toList) (ops := ops2 (regC x') (regC y'))
  · show ("    MOV " ++ x.print ++ ", " ++ y.print).toList = _
    rw [print_toReg hx, print_toReg hy]
    simp only [String.toList_append, String.toList_ofList, ops2, ops3, ops4, opsWide, opsMem, opsStp, opsLdp]
    simp
  · exact mnOK_of_check (by decide)
  · exact endOK_ops2 (endOK_regC y')
  · exact nl_ops2 (nl_regC x') (nl_regC y')
  ·
    rw [String.ofList_toList]; exact parseInstr_MOV x' y'

theorem reads_MOVZ (r : Register) (r' : Reg) (i : Int) (s : Int) (hr : r.toReg = some r') :
    Reads (.MOVZ r i s) (.movz r' i s) := by
  apply instr_line (mn := "MOVZ".toList) (ops := opsWide (regC r') (immC i) (immC s))
  · show ("    MOVZ " ++ r.print ++ ", " ++ immPrint i ++ ", LSL " ++ immPrint s).toList = _
    rw [print_toReg hr, immPrint_eq i, immPrint_eq s]
    simp only [String.toList_append, String.toList_ofList, ops2, ops3, ops4, opsWide, opsMem, opsStp, opsLdp]
    simp
  · exact mnOK_of_check (by decide)
  · exact endOK_opsWide (endOK_immC s)
  · exact nl_opsWide (nl_regC r') (nl_immC i) (nl_immC s)
  ·
    rw [String.ofList_toList]; exact parseInstr_MOVZ r' i s

theorem reads_MOVN (r : Register) (r' : Reg) (i : Int) (s : Int) (hr : r.toReg = some r') :
    Reads (.MOVN r i s) (.movn r' i s) := by
  apply instr_line (mn := "MOVN".toList) (ops := opsWide (regC r') (immC i) (immC s))
  · show ("    MOVN " ++ r.print ++ ", " ++ immPrint i ++ ", LSL " ++ immPrint s).toList = _
    rw [print_toReg hr, immPrint_eq i, immPrint_eq s]
    simp only [String.toList_append, String.toList_ofList, ops2, ops3, ops4, opsWide, opsMem, opsStp, opsLdp]
    simp
  · exact mnOK_of_check (by decide)
  · exact endOK_opsWide (endOK_immC s)
  · exact nl_opsWide (nl_regC r') (nl_immC i) (nl_immC s)
  ·
    rw [String.ofList_toList]; exact parseInstr_MOVN r' i s

theorem reads_MOVK (r : Register) (r' : Reg) (i : Int) (s : Int) (hr : r.toReg = some r') :
    Reads (.MOVK r i s) (.movk r' i s) := by
  apply instr_line (mn := "MOVK".toList) (ops := opsWide (regC r') (immC i) (immC s))
  · show ("    MOVK " ++ r.print ++ ", " ++ immPrint i ++ ", LSL " ++ immPrint s).toList = _
    rw [print_toReg hr, immPrint_eq i, immPrint_eq s]
    simp only [String.toList_append, String.toList_ofList, ops2, ops3, ops4, opsWide, opsMem, opsStp, opsLdp]
    simp
  · exact mnOK_of_check (by decide)
  · exact endOK_opsWide (endOK_immC s)
  · exact nl_opsWide (nl_regC r') (nl_immC i) (nl_immC s)
  ·
    rw [String.ofList_toList]; exact parseInstr_MOVK r' i s

theorem reads_LDR (r : Register) (r' : Reg) (b : Register) (b' : Reg) (i : Int) (hr : r.toReg = some r') (hb : b.toReg = some b') :
    Reads (.LDR r b i) (.ldr r' b' i) := by
  apply instr_line (mn := "LDR".toList) (ops := opsMem (regC r') (regC b') (immC i))
  · show ("    LDR " ++ r.print ++ ", [ " ++ b.print ++ ", " ++ immPrint i ++ " ]").toList = _
    rw [print_toReg hr, print_toReg hb, immPrint_eq i]
    simp only [String.toList_append, String.toList_ofList, ops2, ops3, ops4, opsWide, opsMem, opsStp, opsLdp]
    simp
  · exact mnOK_of_check (by decide)
  · exact endOK_opsMem
  · exact nl_opsMem (nl_regC r') (nl_regC b') (nl_immC i)
  ·
    rw [String.ofList_toList]; exact parseInstr_LDR r' b' i

theorem reads_LDP_POST_INDEX (r1 : Register) (r1' : Reg) (r2 : Register) (r2' : Reg) (b : Register) (b' : Reg) (i : Int) (hr1 : r1.toReg = some r1') (hr2 : r2.toReg = some r2') (hb : b.toReg = some b') :
    Reads (.LDP_POST_INDEX r1 r2 b i) (.ldpPost r1' r2' b' i) := by
  apply instr_line (mn := "LDP".toList) (ops := opsLdp (regC r1') (regC r2') (regC b') (immC i))
  · show ("    LDP " ++ r1.print ++ ", " ++ r2.print ++ ", [ " ++ b.print ++ " ], " ++ immPrint i).toList = _
    rw [print_toReg hr1, print_toReg hr2, print_toReg hb, immPrint_eq i]
    simp only [String.toList_append, String.toList_ofList, ops2, ops3, ops4, opsWide, opsMem, opsStp, opsLdp]
    simp
  · exact mnOK_of_check (by decide)
  · exact endOK_opsLdp (endOK_immC i)
  · exact nl_opsLdp (nl_regC r1') (nl_regC r2') (nl_regC b') (nl_immC i)
  ·
    rw [String.ofList_toList]; exact parseInstr_LDP r1' r2' b' i

theorem reads_STR (r : Register) (r' : Reg) (b : Register) (b' : Reg) (i : Int) (hr : r.toReg = some r') (hb : b.toReg = some b') :
    Reads (.STR r b i) (.str r' b' i) := by
  apply instr_line (mn := "STR".toList) (ops := opsMem (regC r') (regC b') (immC i))
  · show ("    STR " ++ r.print ++ ", [ " ++ b.print ++ ", " ++ immPrint i ++ " ]").toList = _
    rw [print_toReg hr, print_toReg hb, immPrint_eq i]
    simp only [String.toList_append, String.toList_ofList, ops2, ops3, ops4, opsWide, opsMem, opsStp, opsLdp]
    simp
  · exact mnOK_of_check (by decide)
  · exact endOK_opsMem
  · exact nl_opsMem (nl_regC r') (nl_regC b') (nl_immC i)
  ·
    rw [String.ofList_toList]; exact parseInstr_STR r' b' i

theorem reads_STP_PRE_INDEX (r1 : Register) (r1' : Reg) (r2 : Register) (r2' : Reg) (b : Register) (b' : Reg) (i : Int) (hr1 : r1.toReg = some r1') (hr2 : r2.toReg = some r2') (hb : b.toReg = some b') :
    Reads (.STP_PRE_INDEX r1 r2 b i) (.stpPre r1' r2' b' i) := by
  apply instr_line (mn := "STP".toList) (ops := opsStp (regC r1') (regC r2') (regC b') (immC i))
  · show ("    STP " ++ r1.print ++ ", " ++ r2.print ++ ", [ " ++ b.print ++ ", " ++ immPrint i ++ " ]!").toList = _
    rw [print_toReg hr1, print_toReg hr2, print_toReg hb, immPrint_eq i]
    simp only [String.toList_append, String.toList_ofList, ops2, ops3, ops4, opsWide, opsMem, opsStp, opsLdp]
    simp
  · exact mnOK_of_check (by decide)
  · exact endOK_opsStp
  · exact nl_opsStp (nl_regC r1') (nl_regC r2') (nl_regC b') (nl_immC i)
  ·
    rw [String.ofList_toList]; exact parseInstr_STP r1' r2' b' i

theorem reads_CMPR (x : Register) (x' : Reg) (y : Register) (y' : Reg) (hx : x.toReg = some x') (hy : y.toReg = some y') :
    Reads (.CMPR x y) (.cmp x' y') := by
  apply instr_line (mn := "CMP".toList) (ops := ops2 (regC x') (regC y'))
  · show ("    CMP " ++ x.print ++ ", " ++ y.print).toList = _
    rw [print_toReg hx, print_toReg hy]
    simp only [String.toList_append, String.toList_ofList, ops2, ops3, ops4, opsWide, opsMem, opsStp, opsLdp]
    simp
  · exact mnOK_of_check (by decide)
  · exact endOK_ops2 (endOK_regC y')
  · exact nl_ops2 (nl_regC x') (nl_regC y')
  ·
    rw [String.ofList_toList]; exact parseInstr_CMP_r x' y'

theorem reads_CMPI (x : Register) (x' : Reg) (i : Int) (hx : x.toReg = some x') :
    Reads (.CMPI x i) (.cmpi x' i) := by
  apply instr_line (mn := "CMP".toList) (ops := ops2 (regC x') (immC i))
  · show ("    CMP " ++ x.print ++ ", " ++ immPrint i).toList = _
    rw [print_toReg hx, immPrint_eq i]
    simp only [String.toList_append, String.toList_ofList, ops2, ops3, ops4, opsWide, opsMem, opsStp, opsLdp]
    simp
  · exact mnOK_of_check (by decide)
  · exact endOK_ops2 (endOK_immC i)
  · exact nl_ops2 (nl_regC x') (nl_immC i)
  ·
    rw [String.ofList_toList]; exact parseInstr_CMP_i x' i

theorem reads_BEQ (l : String) (hl : LabelOK l.toList) :
    Reads (.BEQ l) (.bcond .eq l) := by
  apply instr_line (mn := "BEQ".toList) (ops := l.toList)
  · show ("    BEQ " ++ l).toList = _
    simp only [String.toList_append, String.toList_ofList, ops2, ops3, ops4, opsWide, opsMem, opsStp, opsLdp]
    simp
  · exact mnOK_of_check (by decide)
  · exact endOK_label hl
  · exact nl_label hl
  ·
    have := parseInstr_BEQ hl
    simp only [String.ofList_toList] at this ⊢
    exact this

theorem reads_BNE (l : String) (hl : LabelOK l.toList) :
    Reads (.BNE l) (.bcond .ne l) := by
  apply instr_line (mn := "BNE".toList) (ops := l.toList)
  · show ("    BNE " ++ l).toList = _
    simp only [String.toList_append, String.toList_ofList, ops2, ops3, ops4, opsWide, opsMem, opsStp, opsLdp]
    simp
  · exact mnOK_of_check (by decide)
  · exact endOK_label hl
  · exact nl_label hl
  ·
    have := parseInstr_BNE hl
    simp only [String.ofList_toList] at this ⊢
    exact this

theorem reads_BLT (l : String) (hl : LabelOK l.toList) :
    Reads (.BLT l) (.bcond .lt l) := by
  apply instr_line (mn := "BLT".toList) (ops := l.toList)
  · show ("    BLT " ++ l).toList = _
    simp only [String.toList_append, String.toList_ofList, ops2, ops3, ops4, opsWide, opsMem, opsStp, opsLdp]
    simp
  · exact mnOK_of_check (by decide)
  · exact endOK_label hl
  · exact nl_label hl
  ·
    have := parseInstr_BLT hl
    simp only [String.ofList_toList] at this ⊢
    exact this

theorem reads_BLE (l : String) (hl : LabelOK l.toList) :
    Reads (.BLE l) (.bcond .le l) := by
  apply instr_line (mn := "BLE".toList) (ops := l.toList)
  · show ("    BLE " ++ l).toList = _
    simp only [String.toList_append, String.toList_ofList, ops2, ops3, ops4, opsWide, opsMem, opsStp, opsLdp]
    simp
  · exact mnOK_of_check (by decide)
  · exact endOK_label hl
  · exact nl_label hl
  ·
    have := parseInstr_BLE hl
    simp only [String.ofList_toList] at this ⊢
    exact this

theorem reads_BGT (l : String) (hl : LabelOK l.toList) :
    Reads (.BGT l) (.bcond .gt l) := by
  apply instr_line (mn := "BGT".toList) (ops := l.toList)
  · show ("    BGT " ++ l).toList = _
    simp only [String.toList_append, String.toList_ofList, ops2, ops3, ops4, opsWide, opsMem, opsStp, opsLdp]
    simp
  · exact mnOK_of_check (by decide)
  · exact endOK_label hl
  · exact nl_label hl
  ·
    have := parseInstr_BGT hl
    simp only [String.ofList_toList] at this ⊢
    exact this

theorem reads_BGE (l : String) (hl : LabelOK l.toList) :
    Reads (.BGE l) (.bcond .ge l) := by
  apply instr_line (mn := "BGE".toList) (ops := l.toList)
  · show ("    BGE " ++ l).toList = _
    simp only [String.toList_append, String.toList_ofList, ops2, ops3, ops4, opsWide, opsMem, opsStp, opsLdp]
    simp
  · exact mnOK_of_check (by decide)
  · exact endOK_label hl
  · exact nl_label hl
  ·
    have := parseInstr_BGE hl
    simp only [String.ofList_toList] at this ⊢
    exact this

theorem reads_RET : Reads .RET .ret := by
  refine ⟨parseLine_instr0 (mn := "RET".toList) rfl (mnOK_of_check (by decide)) (by decide) ?_, by decide⟩
  rw [String.ofList_toList]; exact parseInstr_RET

/-! ## text-safety of an item -/

/-- the labels an item REFERS to (or declares global) -/
def codeLabelRefs : Code → List String
  | .B l | .BL l | .ADR _ l | .BEQ l | .BNE l | .BLT l | .BLE l | .BGT l | .BGE l | .GLOBAL l => [l]
  | _ => []

structure CodeOK (c : Code) : Prop where
  refs : ∀ l ∈ codeLabelRefs c, LabelOK l.toList
  defs : ∀ l, c = .LAB l → LabelDefOK l.toList
  comment : ∀ m, c = .COMMENT m → '\n' ∉ m.toList ∧ (commentPLine? m).isSome = true

/-- every instruction item whose registers exist and whose labels are text-safe is read back as
    `Code.toInstr` says, and is printed on one line -/
theorem reads_instr (c : Code) (i : Instr) (h : c.toInstr = some i) (hok : CodeOK c) : Reads c i := by
  cases c with
  | ADD x y z =>
    simp only [Code.toInstr, Option.bind_eq_bind, Option.pure_def, Option.bind_eq_some_iff, Option.some.injEq] at h
    obtain ⟨x', hx, y', hy, z', hz, rfl⟩ := h
    exact reads_ADD x x' y y' z z' hx hy hz
  | ADDI x y i =>
    simp only [Code.toInstr, Option.bind_eq_bind, Option.pure_def, Option.bind_eq_some_iff, Option.some.injEq] at h
    obtain ⟨x', hx, y', hy, rfl⟩ := h
    exact reads_ADDI x x' y y' i hx hy
  | SUB x y z =>
    simp only [Code.toInstr, Option.bind_eq_bind, Option.pure_def, Option.bind_eq_some_iff, Option.some.injEq] at h
    obtain ⟨x', hx, y', hy, z', hz, rfl⟩ := h
    exact reads_SUB x x' y y' z z' hx hy hz
  | SUBI x y i =>
    simp only [Code.toInstr, Option.bind_eq_bind, Option.pure_def, Option.bind_eq_some_iff, Option.some.injEq] at h
    obtain ⟨x', hx, y', hy, rfl⟩ := h
    exact reads_SUBI x x' y y' i hx hy
  | MUL x y z =>
    simp only [Code.toInstr, Option.bind_eq_bind, Option.pure_def, Option.bind_eq_some_iff, Option.some.injEq] at h
    obtain ⟨x', hx, y', hy, z', hz, rfl⟩ := h
    exact reads_MUL x x' y y' z z' hx hy hz
  | SDIV x y z =>
    simp only [Code.toInstr, Option.bind_eq_bind, Option.pure_def, Option.bind_eq_some_iff, Option.some.injEq] at h
    obtain ⟨x', hx, y', hy, z', hz, rfl⟩ := h
    exact reads_SDIV x x' y y' z z' hx hy hz
  | MSUB x y z v =>
    simp only [Code.toInstr, Option.bind_eq_bind, Option.pure_def, Option.bind_eq_some_iff, Option.some.injEq] at h
    obtain ⟨x', hx, y', hy, z', hz, v', hv, rfl⟩ := h
    exact reads_MSUB x x' y y' z z' v v' hx hy hz hv
  | B l =>
    simp only [Code.toInstr, Option.some.injEq] at h
    subst h
    exact reads_B l (hok.refs l (by simp [codeLabelRefs]))
  | BR r =>
    simp only [Code.toInstr, Option.bind_eq_bind, Option.pure_def, Option.bind_eq_some_iff, Option.some.injEq] at h
    obtain ⟨r', hr, rfl⟩ := h
    exact reads_BR r r' hr
  | BL l =>
    simp only [Code.toInstr, Option.some.injEq] at h
    subst h
    exact reads_BL l (hok.refs l (by simp [codeLabelRefs]))
  | ADR r l =>
    simp only [Code.toInstr, Option.bind_eq_bind, Option.pure_def, Option.bind_eq_some_iff, Option.some.injEq] at h
    obtain ⟨r', hr, rfl⟩ := h
    exact reads_ADR r r' l hr (hok.refs l (by simp [codeLabelRefs]))
  | MOVR x y =>
    simp only [Code.toInstr, Option.bind_eq_bind, Option.pure_def, Option.bind_eq_some_iff, Option.some.injEq] at h
    obtain ⟨x', hx, y', hy, rfl⟩ := h
    exact reads_MOVR x x' y y' hx hy
  | MOVZ r i s =>
    simp only [Code.toInstr, Option.bind_eq_bind, Option.pure_def, Option.bind_eq_some_iff, Option.some.injEq] at h
    obtain ⟨r', hr, rfl⟩ := h
    exact reads_MOVZ r r' i s hr
  | MOVN r i s =>
    simp only [Code.toInstr, Option.bind_eq_bind, Option.pure_def, Option.bind_eq_some_iff, Option.some.injEq] at h
    obtain ⟨r', hr, rfl⟩ := h
    exact reads_MOVN r r' i s hr
  | MOVK r i s =>
    simp only [Code.toInstr, Option.bind_eq_bind, Option.pure_def, Option.bind_eq_some_iff, Option.some.injEq] at h
    obtain ⟨r', hr, rfl⟩ := h
    exact reads_MOVK r r' i s hr
  | LDR r b i =>
    simp only [Code.toInstr, Option.bind_eq_bind, Option.pure_def, Option.bind_eq_some_iff, Option.some.injEq] at h
    obtain ⟨r', hr, b', hb, rfl⟩ := h
    exact reads_LDR r r' b b' i hr hb
  | LDP_POST_INDEX r1 r2 b i =>
    simp only [Code.toInstr, Option.bind_eq_bind, Option.pure_def, Option.bind_eq_some_iff, Option.some.injEq] at h
    obtain ⟨r1', hr1, r2', hr2, b', hb, rfl⟩ := h
    exact reads_LDP_POST_INDEX r1 r1' r2 r2' b b' i hr1 hr2 hb
  | STR r b i =>
    simp only [Code.toInstr, Option.bind_eq_bind, Option.pure_def, Option.bind_eq_some_iff, Option.some.injEq] at h
    obtain ⟨r', hr, b', hb, rfl⟩ := h
    exact reads_STR r r' b b' i hr hb
  | STP_PRE_INDEX r1 r2 b i =>
    simp only [Code.toInstr, Option.bind_eq_bind, Option.pure_def, Option.bind_eq_some_iff, Option.some.injEq] at h
    obtain ⟨r1', hr1, r2', hr2, b', hb, rfl⟩ := h
    exact reads_STP_PRE_INDEX r1 r1' r2 r2' b b' i hr1 hr2 hb
  | CMPR x y =>
    simp only [Code.toInstr, Option.bind_eq_bind, Option.pure_def, Option.bind_eq_some_iff, Option.some.injEq] at h
    obtain ⟨x', hx, y', hy, rfl⟩ := h
    exact reads_CMPR x x' y y' hx hy
  | CMPI x i =>
    simp only [Code.toInstr, Option.bind_eq_bind, Option.pure_def, Option.bind_eq_some_iff, Option.some.injEq] at h
    obtain ⟨x', hx, rfl⟩ := h
    exact reads_CMPI x x' i hx
  | BEQ l =>
    simp only [Code.toInstr, Option.some.injEq] at h
    subst h
    exact reads_BEQ l (hok.refs l (by simp [codeLabelRefs]))
  | BNE l =>
    simp only [Code.toInstr, Option.some.injEq] at h
    subst h
    exact reads_BNE l (hok.refs l (by simp [codeLabelRefs]))
  | BLT l =>
    simp only [Code.toInstr, Option.some.injEq] at h
    subst h
    exact reads_BLT l (hok.refs l (by simp [codeLabelRefs]))
  | BLE l =>
    simp only [Code.toInstr, Option.some.injEq] at h
    subst h
    exact reads_BLE l (hok.refs l (by simp [codeLabelRefs]))
  | BGT l =>
    simp only [Code.toInstr, Option.some.injEq] at h
    subst h
    exact reads_BGT l (hok.refs l (by simp [codeLabelRefs]))
  | BGE l =>
    simp only [Code.toInstr, Option.some.injEq] at h
    subst h
    exact reads_BGE l (hok.refs l (by simp [codeLabelRefs]))
  | RET =>
    simp only [Code.toInstr, Option.some.injEq] at h
    subst h
    exact reads_RET
  | LAB l => simp [Code.toInstr] at h
  | TEXT => simp [Code.toInstr] at h
  | GLOBAL l => simp [Code.toInstr] at h
  | COMMENT m => simp [Code.toInstr] at h

theorem parseLine_printCode (c : Code) (i : Instr) (h : c.toInstr = some i) (hok : CodeOK c) :
    parseLine (printCode c) = some (.instr i) := (reads_instr c i h hok).1

/-! ## labels, directives, comments -/

theorem reads_LAB (l : String) (h : CodeOK (.LAB l)) :
    printCode (.LAB l) = "\n" ++ (l ++ ":") ∧ parseLine (l ++ ":") = some (.label l) ∧
    parseLine (printCode (.LAB l)) = some (.label l) ∧ '\n' ∉ (l ++ ":").toList := by
  have hl := h.defs l rfl
  refine ⟨?_, ?_, ?_, ?_⟩
  · show "\n" ++ l ++ ":" = _
    apply String.ext; simp [String.toList_append]
  · have := parseLine_label (raw := l ++ ":") (l := l.toList) (by simp [String.toList_append]) hl
    rwa [String.ofList_toList] at this
  · have := parseLine_nl_label (raw := printCode (.LAB l)) (l := l.toList)
      (by show ("\n" ++ l ++ ":").toList = _; simp [String.toList_append]) hl
    rwa [String.ofList_toList] at this
  · have := nl_label hl.1
    simp [String.toList_append, this]

theorem reads_TEXT : parseLine (printCode .TEXT) = some .directive ∧ '\n' ∉ (printCode .TEXT).toList :=
  ⟨parseLine_text, by decide⟩

theorem reads_GLOBAL (l : String) (h : CodeOK (.GLOBAL l)) :
    parseLine (printCode (.GLOBAL l)) = some .directive ∧ '\n' ∉ (printCode (.GLOBAL l)).toList := by
  have hl : LabelOK l.toList := h.refs l (by simp [codeLabelRefs])
  have hs : (printCode (.GLOBAL l)).toList = ".global ".toList ++ l.toList := by
    show (".global " ++ l).toList = _; rw [String.toList_append]
  refine ⟨parseLine_global hs hl, ?_⟩
  rw [hs]
  have := nl_label hl
  intro hm
  rcases List.mem_append.1 hm with hm | hm
  · revert hm; decide
  · exact this hm

/-- a comment is read as `commentPLine?` says, for EVERY text -/
theorem reads_COMMENT_line (m : String) : parseLine (printCode (.COMMENT m)) = commentPLine? m :=
  parseLine_comment (by show ("    // " ++ m).toList = _; rw [String.toList_append]; rfl)

theorem nl_COMMENT (m : String) (h : '\n' ∉ m.toList) : '\n' ∉ (printCode (.COMMENT m)).toList := by
  show '\n' ∉ ("    // " ++ m).toList
  rw [String.toList_append]
  intro hm
  rcases List.mem_append.1 hm with hm | hm
  · revert hm; decide
  · exact h hm

/-! ## the lines of an item and what they are read as -/

/-- the lines a printed item occupies (a label: an empty line and `l:`; anything else: one line) -/
def codeLines : Code → List String
  | .LAB l => ["", l ++ ":"]
  | c => [printCode c]

/-- do the registers of an instruction item exist? -/
def regsOK : Code → Bool
  | .LAB _ | .TEXT | .GLOBAL _ | .COMMENT _ => true
  | c => c.toInstr.isSome

/-- what the loader reads the lines of an item as -/
def codePLines : Code → List PLine
  | .LAB l => [.blank, .label l]
  | .TEXT => [.directive]
  | .GLOBAL _ => [.directive]
  | .COMMENT m => [(commentPLine? m).getD .comment]
  | c => match c.toInstr with
    | some i => [.instr i]
    | none => []

theorem codeLines_ne_nil (c : Code) : codeLines c ≠ [] := by
  cases c <;> simp [codeLines]

theorem codeLines_of_not_lab {c : Code} (h : ∀ l, c ≠ .LAB l) : codeLines c = [printCode c] := by
  cases c <;> first | rfl | exact absurd rfl (h _)

theorem codePLines_instr {c : Code} {i : Instr} (h : c.toInstr = some i) : codePLines c = [.instr i] := by
  cases c <;> first | (simp [Code.toInstr] at h; done) | (simp only [codePLines, h])

theorem printCode_lines (c : Code) : printCode c = "\n".intercalate (codeLines c) := by
  by_cases h : ∃ l, c = .LAB l
  · obtain ⟨l, rfl⟩ := h
    show "\n" ++ l ++ ":" = "\n".intercalate ["", l ++ ":"]
    apply String.ext
    simp [String.toList_intercalate, String.toList_append, List.intercalate, List.intersperse]
  · rw [codeLines_of_not_lab (fun l e => h ⟨l, e⟩)]
    apply String.ext
    simp [String.toList_intercalate, List.intercalate, List.intersperse]

/-- THE PER-ITEM ROUND TRIP, all constructors: the lines of a text-safe item are single lines that the
    loader reads as `codePLines` -/
theorem parse_codeLines (c : Code) (hreg : regsOK c = true) (hok : CodeOK c) :
    (codeLines c).map parseLine = (codePLines c).map some ∧ ∀ l ∈ codeLines c, '\n' ∉ l.toList := by
  by_cases hlab : ∃ l, c = .LAB l
  · obtain ⟨l, rfl⟩ := hlab
    obtain ⟨_, h2, _, h4⟩ := reads_LAB l hok
    refine ⟨by simp [codeLines, codePLines, parseLine_empty, h2], ?_⟩
    intro x hx
    simp only [codeLines, List.mem_cons, List.not_mem_nil, or_false] at hx
    rcases hx with rfl | rfl
    · simp
    · exact h4
  · rw [codeLines_of_not_lab (fun l e => hlab ⟨l, e⟩)]
    cases hi : c.toInstr with
    | some i =>
      obtain ⟨h1, h2⟩ := reads_instr c i hi hok
      rw [codePLines_instr hi]
      exact ⟨by simp [h1], by simpa using h2⟩
    | none =>
      cases c with
      | LAB l => exact absurd ⟨l, rfl⟩ hlab
      | TEXT => exact ⟨by simp [codePLines, reads_TEXT.1], by simpa using reads_TEXT.2⟩
      | GLOBAL l =>
        obtain ⟨h1, h2⟩ := reads_GLOBAL l hok
        exact ⟨by simp [codePLines, h1], by simpa using h2⟩
      | COMMENT m =>
        obtain ⟨h1, h2⟩ := hok.comment m rfl
        refine ⟨?_, by simpa using nl_COMMENT m h1⟩
        cases hc : commentPLine? m with
        | none => rw [hc] at h2; cases h2
        | some p => simp [codePLines, reads_COMMENT_line, hc]
      | _ => simp [regsOK, hi] at hreg

/-! ## `Code.roundTrips` -/

theorem commentPLine?_cases (m : String) :
    commentPLine? m = none ∨ commentPLine? m = some .comment ∨ ∃ vs, commentPLine? m = some (.hook vs) := by
  unfold commentPLine?
  simp only []
  split
  · split
    · cases List.mapM parseHookVar (hookWords (rtrimList m.toList)) with
      | none => exact Or.inl rfl
      | some vs => exact Or.inr (Or.inr ⟨vs, rfl⟩)
    · exact Or.inl rfl
  · exact Or.inr (Or.inl rfl)

theorem reprStr_beq (i : Instr) : (reprStr i == reprStr i) = true := beq_self_eq_true _

/-- the executable per-instruction check of the test driver is TRUE on every text-safe item -/
theorem roundTrips_of_ok (c : Code) (hreg : regsOK c = true) (hok : CodeOK c) : c.roundTrips = true := by
  unfold Code.roundTrips
  rw [parseLine_trim]
  cases hi : c.toInstr with
  | some i =>
    have h1 := parseLine_printCode c i hi hok
    cases c <;> first | (simp [Code.toInstr] at hi; done) | (simp only [h1, hi, reprStr_beq])
  | none =>
    cases c with
    | LAB l => simp only [(reads_LAB l hok).2.2.1, beq_self_eq_true]
    | TEXT => simp only [reads_TEXT.1]
    | GLOBAL l => simp only [(reads_GLOBAL l hok).1]
    | COMMENT m =>
      obtain ⟨_, h2⟩ := hok.comment m rfl
      rw [reads_COMMENT_line]
      rcases commentPLine?_cases m with h | h | ⟨vs, h⟩
      · rw [h] at h2; cases h2
      · simp only [h]
      · simp only [h]
    | _ => simp [regsOK, hi] at hreg

end Scc.A64.Loader
