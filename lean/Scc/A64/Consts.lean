/-
  Scc.A64.Consts — the numeric constants of the AArch64 backend
  (/repo/lang/axcut2aarch64/src/config.rs, plus the register-printing rule of its `Print` impl).
  One record so that it can be regenerated mechanically from config.rs; nothing else in the A64
  component hard-codes these numbers.   Core imports only.
-/
namespace Scc.A64

structure A64Consts where
  /-- config.rs: REGISTER_NUM -/
  registerNum : Nat
  /-- config.rs: RESERVED -/
  reserved : Nat
  /-- config.rs: TEMP = Register::X(2) -/
  temp : Nat
  /-- config.rs: TEMP2 = Register::X(3) -/
  temp2 : Nat
  /-- config.rs: HEAP = Register::X(0) -/
  heap : Nat
  /-- config.rs: FREE = Register::X(1) -/
  free : Nat
  /-- config.rs: RETURN1 = Register::X(0) -/
  return1 : Nat
  /-- config.rs: RETURN2 = Register::X(1) -/
  return2 : Nat
  /-- config.rs: SPILL_NUM -/
  spillNum : Nat
  /-- config.rs: RESERVED_SPILLS -/
  reservedSpills : Nat
  /-- config.rs: SPILL_TEMP = Spill(0) -/
  spillTemp : Nat
  /-- config.rs: TEMPORARY_TEMP = Register::X(10) -/
  temporaryTemp : Nat
  /-- config.rs: FIELD_SLOT_SIZE -/
  fieldSlotSize : Nat
  /-- config.rs: FIELDS_PER_BLOCK -/
  fieldsPerBlock : Nat
  /-- config.rs: CALLER_SAVE_FIRST -/
  callerSaveFirst : Nat
  /-- config.rs: CALLER_SAVE_LAST -/
  callerSaveLast : Nat
  /-- config.rs: `impl Print for Register`: logical `X(r)` prints as `X{r}` if r < 18 else `X{r+1}` -/
  skippedRegister : Nat
  /-- config.rs: fn jump_length (factor) -/
  jumpLengthFactor : Nat
  deriving Repr

@[reducible] def consts : A64Consts where
  registerNum := 30
  reserved := 4
  temp := 2
  temp2 := 3
  heap := 0
  free := 1
  return1 := 0
  return2 := 1
  spillNum := 256
  reservedSpills := 1
  spillTemp := 0
  temporaryTemp := 10
  fieldSlotSize := 8
  fieldsPerBlock := 3
  callerSaveFirst := 4
  callerSaveLast := 17
  skippedRegister := 18
  jumpLengthFactor := 4

abbrev REGISTER_NUM : Nat := consts.registerNum
abbrev RESERVED : Nat := consts.reserved
abbrev SPILL_NUM : Nat := consts.spillNum
abbrev RESERVED_SPILLS : Nat := consts.reservedSpills
abbrev FIELDS_PER_BLOCK : Nat := consts.fieldsPerBlock
abbrev CALLER_SAVE_FIRST : Nat := consts.callerSaveFirst
abbrev CALLER_SAVE_LAST : Nat := consts.callerSaveLast
/-- config.rs: SPILL_SPACE = SPILL_NUM * 8 -/
abbrev SPILL_SPACE : Nat := consts.spillNum * 8

/-- config.rs: fn stack_offset -/
def stackOffset (position : Nat) : Int := (SPILL_SPACE : Int) - 8 * ((position : Int) + 1)

/-- config.rs: fn address -/
def address (n : Int) : Int := (consts.fieldSlotSize : Int) * n

/-- config.rs: fn field_offset (number = 0 for Fst, 1 for Snd) -/
def fieldOffset (number i : Nat) : Int := address (2 + 2 * (i : Int) + (number : Int))

/-- config.rs: `impl Print for Register`: architectural number of the logical register `X(r)` -/
def archNumber (r : Nat) : Nat := if r < consts.skippedRegister then r else r + 1

end Scc.A64
