/-
  Scc.A64.LoaderInstr — what `parseLine` (Scc/A64/Machine.lean) does on each kind of line, stated on
  the character list of the line:

  * `parseLine_trim`: `parseLine` only looks at the trimmed line;
  * `parseLine_empty`; `parseLine_instr` / `parseLine_instr0`: an indented `MN operands` line is read by
    `parseInstr MN operands`; `parseLine_label`; `parseLine_text`, `parseLine_global`;
  * `commentPLine?` and `parseLine_comment`: what a `// msg` line is read as, for EVERY `msg`
    (`.comment`, `.hook vars`, or a parse error for a malformed `#ctx [` hook); `commentPLine?_plain`,
    `hookText`, `commentPLine?_hook`;
  * `parseInstr_*`: every mnemonic of `parseInstr` on its token shape.
  Proof file: core imports only.
-/
import Scc.A64.LoaderLemmas

namespace Scc.A64.Loader

open Scc.A64 Scc.Str

set_option linter.unusedSimpArgs false

/-! ## tests on `String.ofList` -/

theorem sw_false {L : List Char} {pat : String} (h : ¬ pat.toList <+: L) :
    (String.ofList L).startsWith pat = false := by
  rw [startsWith_eq_decide, String.toList_ofList]; simpa using h

theorem sw_true {L : List Char} {pat : String} (h : pat.toList <+: L) :
    (String.ofList L).startsWith pat = true := by
  rw [startsWith_eq_decide, String.toList_ofList]; simpa using h

theorem ew_colon {L : List Char} : (String.ofList L).endsWith ":" = decide (L.getLast? = some ':') := by
  rw [Bool.eq_iff_iff, colon_eq, endsWith_singleton_iff, String.toList_ofList]; simp

theorem ew_rbr {L : List Char} : (String.ofList L).endsWith "]" = decide (L.getLast? = some ']') := by
  have : "]" = String.singleton ']' := rfl
  rw [Bool.eq_iff_iff, this, endsWith_singleton_iff, String.toList_ofList]; simp

theorem not_prefix_of_head {p l : List Char} {x : Char} (hp : p.head? = some x) (hl : l.head? ≠ some x) :
    ¬ p <+: l := by
  rintro ⟨t, rfl⟩
  cases p with
  | nil => simp at hp
  | cons y ys => simp at hp hl; exact hl hp

theorem getLast?_append_ne_nil {a b : List Char} (hb : b ≠ []) : (a ++ b).getLast? = b.getLast? := by
  rw [List.getLast?_append]
  cases h : b.getLast? with
  | none => exact absurd (List.getLast?_eq_none_iff.1 h) hb
  | some c => rfl

/-- the end of a trimmed instruction line: no white space, no colon -/
def EndOK (l : List Char) : Prop := l ≠ [] ∧ ∀ c, l.getLast? = some c → c.isWhitespace = false ∧ c ≠ ':'

theorem endOK_append {a b : List Char} (hb : EndOK b) : EndOK (a ++ b) :=
  ⟨by simp [hb.1], by rw [getLast?_append_ne_nil hb.1]; exact hb.2⟩

theorem endOK_cons {x : Char} {b : List Char} (hb : EndOK b) : EndOK (x :: b) := endOK_append (a := [x]) hb

theorem endOK_of_chars {l : List Char} (hne : l ≠ []) (h : ∀ c ∈ l, c.isWhitespace = false ∧ c ≠ ':') : EndOK l :=
  ⟨hne, fun c hc => h c (List.mem_of_getLast? hc)⟩

theorem endOK_regC (r : Reg) : EndOK (regC r) :=
  endOK_of_chars (regC_ne_nil r) (fun c hc => ⟨(regC_chars r c hc).2.1, (regC_chars r c hc).2.2.1⟩)

theorem endOK_immC (i : Int) : EndOK (immC i) :=
  endOK_of_chars (immC_ne_nil i) (fun c hc => ⟨(immC_chars i c hc).2.1, (immC_chars i c hc).2.2.1⟩)

theorem endOK_label {l : List Char} (h : LabelOK l) : EndOK l :=
  endOK_of_chars h.1 (fun c hc => ⟨(labelC_facts (h.2 c hc)).2.1, (labelC_facts (h.2 c hc)).2.2.1⟩)

/-! ## `parseLine` looks at the trimmed line only -/

theorem parseLine_trim (s : String) : parseLine s.trimAscii.toString = parseLine s := by
  unfold parseLine
  rw [trimAscii_idem]

/-- a line of white space only -/
theorem parseLine_blank {raw : String} (h : trimList raw.toList = []) : parseLine raw = some .blank := by
  have ht : raw.trimAscii.toString = "" := by rw [trimAscii_eq, h]
  have he : ("" : String).isEmpty = true := rfl
  unfold parseLine
  simp only [ht, he, if_true]

theorem parseLine_empty : parseLine "" = some .blank := parseLine_blank rfl

/-! ## instruction lines -/

/-- characters of a mnemonic -/
def MnOK (mn : List Char) : Prop :=
  mn ≠ [] ∧ ∀ c ∈ mn, c ≠ ' ' ∧ c.isWhitespace = false ∧ c ≠ '/' ∧ c ≠ '.'

theorem mn_head {mn : List Char} (h : MnOK mn) (rest : List Char) :
    ∃ x xs, mn ++ rest = x :: xs ∧ x.isWhitespace = false ∧ x ≠ '/' ∧ x ≠ '.' := by
  cases hm : mn with
  | nil => exact absurd hm h.1
  | cons x xs =>
    have := h.2 x (by rw [hm]; simp)
    exact ⟨x, xs ++ rest, rfl, this.2.1, this.2.2.1, this.2.2.2⟩

/-- what `parseLine` does once the trimmed line is known to be `MN operands` -/
theorem parseLine_instr_core {raw : String} {mn ops : List Char}
    (ht : raw.trimAscii.toString = String.ofList (mn ++ ' ' :: ops)) (hmn : MnOK mn) (hops : EndOK ops)
    {i : Instr} (hi : parseInstr (String.ofList mn) (String.ofList ops) = some i) :
    parseLine raw = some (.instr i) := by
  obtain ⟨x, xs, hx, hxw, hxs, hxd⟩ := mn_head hmn (' ' :: ops)
  have h1 : (String.ofList (mn ++ ' ' :: ops)).isEmpty = false := by
    rw [isEmpty_ofList, hx]; rfl
  have h2 : (String.ofList (mn ++ ' ' :: ops)).startsWith "//" = false :=
    sw_false (not_prefix_of_head (x := '/') rfl (by rw [hx]; simpa using hxs))
  have h3 : (String.ofList (mn ++ ' ' :: ops)).startsWith "." = false :=
    sw_false (not_prefix_of_head (x := '.') rfl (by rw [hx]; simpa using hxd))
  have h4 : (String.ofList (mn ++ ' ' :: ops)).endsWith ":" = false := by
    have e : mn ++ ' ' :: ops = (mn ++ [' ']) ++ ops := by simp
    rw [ew_colon, e, getLast?_append_ne_nil hops.1, decide_eq_false_iff_not]
    exact fun e => (hops.2 _ e).2 rfl
  have h5 : (String.ofList (mn ++ ' ' :: ops)).splitOn " "
      = String.ofList mn :: (splitList ' ' ops).map String.ofList := by
    rw [splitOn_space, String.toList_ofList,
      splitList_append_sep ' ' mn ops (fun hm => (hmn.2 _ hm).1 rfl)]; rfl
  unfold parseLine
  simp only [ht, h1, h2, h3, h4, h5, Bool.false_eq_true, if_false, intercalate_space_splitList, hi]


theorem trimmed_line {mn ops : List Char} (hmn : MnOK mn) (hops : EndOK ops) : Trimmed (mn ++ ' ' :: ops) := by
  obtain ⟨x, xs, hx, hxw, _, _⟩ := mn_head hmn (' ' :: ops)
  constructor
  · intro c hc; rw [hx] at hc; simp at hc; subst hc; exact hxw
  · intro c hc
    have e : mn ++ ' ' :: ops = (mn ++ [' ']) ++ ops := by simp
    rw [e, getLast?_append_ne_nil hops.1] at hc
    exact (hops.2 c hc).1

/-- an indented line `    MN operands` is read by `parseInstr MN operands` -/
theorem parseLine_instr {raw : String} {mn ops : List Char}
    (hs : raw.toList = ' ' :: ' ' :: ' ' :: ' ' :: (mn ++ ' ' :: ops)) (hmn : MnOK mn) (hops : EndOK ops)
    {i : Instr} (hi : parseInstr (String.ofList mn) (String.ofList ops) = some i) :
    parseLine raw = some (.instr i) :=
  parseLine_instr_core (by rw [trimAscii_eq, hs, trimList_indent (trimmed_line hmn hops)]) hmn hops hi

/-- the same line without indentation (the form `Code.roundTrips` feeds to the loader) -/
theorem parseLine_instr' {raw : String} {mn ops : List Char}
    (hs : raw.toList = mn ++ ' ' :: ops) (hmn : MnOK mn) (hops : EndOK ops)
    {i : Instr} (hi : parseInstr (String.ofList mn) (String.ofList ops) = some i) :
    parseLine raw = some (.instr i) :=
  parseLine_instr_core (by rw [trimAscii_eq, hs, trimList_of_trimmed (trimmed_line hmn hops)]) hmn hops hi

/-- an indented line with a mnemonic only (`RET`) -/
theorem parseLine_instr0 {raw : String} {mn : List Char}
    (hs : raw.toList = ' ' :: ' ' :: ' ' :: ' ' :: mn) (hmn : MnOK mn)
    (hlast : mn.getLast? ≠ some ':')
    {i : Instr} (hi : parseInstr (String.ofList mn) "" = some i) :
    parseLine raw = some (.instr i) := by
  obtain ⟨x, xs, hx, hxw, hxs, hxd⟩ := mn_head hmn []
  rw [List.append_nil] at hx
  have htr : Trimmed mn :=
    ⟨fun c hc => (hmn.2 c (List.mem_of_mem_head? hc)).2.1, fun c hc => (hmn.2 c (List.mem_of_getLast? hc)).2.1⟩
  have ht : raw.trimAscii.toString = String.ofList mn := by rw [trimAscii_eq, hs, trimList_indent htr]
  have h1 : (String.ofList mn).isEmpty = false := by rw [isEmpty_ofList, hx]; rfl
  have h2 : (String.ofList mn).startsWith "//" = false :=
    sw_false (not_prefix_of_head (x := '/') rfl (by rw [hx]; simpa using hxs))
  have h3 : (String.ofList mn).startsWith "." = false :=
    sw_false (not_prefix_of_head (x := '.') rfl (by rw [hx]; simpa using hxd))
  have h4 : (String.ofList mn).endsWith ":" = false := by
    rw [ew_colon, decide_eq_false_iff_not]; exact hlast
  have h5 : (String.ofList mn).splitOn " " = [String.ofList mn] := by
    rw [splitOn_space, String.toList_ofList, splitList_of_not_mem ' ' mn (fun hm => (hmn.2 _ hm).1 rfl)]; rfl
  have h6 : " ".intercalate ([] : List String) = "" := rfl
  unfold parseLine
  simp only [ht, h1, h2, h3, h4, h5, h6, Bool.false_eq_true, if_false, hi]

/-! ## labels and directives -/

/-- a label that can be DEFINED: text-safe, does not look like a directive or a comment -/
def LabelDefOK (l : List Char) : Prop := LabelOK l ∧ l.head? ≠ some '.' ∧ ¬ ['/', '/'] <+: l

theorem parseLine_label_core {raw : String} {l : List Char}
    (ht : raw.trimAscii.toString = String.ofList (l ++ [':'])) (hl : LabelDefOK l) :
    parseLine raw = some (.label (String.ofList l)) := by
  obtain ⟨⟨hne, hch⟩, hdot, hsl⟩ := hl
  have h1 : (String.ofList (l ++ [':'])).isEmpty = false := by
    rw [isEmpty_ofList]; cases l <;> rfl
  have h2 : (String.ofList (l ++ [':'])).startsWith "//" = false := by
    apply sw_false
    intro hp
    apply hsl
    have e : "//".toList = ['/', '/'] := rfl
    rw [e] at hp
    cases l with
    | nil => exact absurd rfl hne
    | cons a t =>
      cases t with
      | nil =>
        obtain ⟨r, hr⟩ := hp
        simp at hr
      | cons b t =>
        obtain ⟨r, hr⟩ := hp
        simp at hr
        exact ⟨t, by rw [← hr.1, ← hr.2.1]; rfl⟩
  have h3 : (String.ofList (l ++ [':'])).startsWith "." = false := by
    apply sw_false
    apply not_prefix_of_head (x := '.') rfl
    cases l with
    | nil => exact absurd rfl hne
    | cons a t => simpa using hdot
  have h4 : (String.ofList (l ++ [':'])).endsWith ":" = true := by
    rw [ew_colon]; simp
  have h5 : ((String.ofList (l ++ [':'])).dropEnd 1).toString = String.ofList l := by
    apply String.ext
    rw [toList_dropEnd, String.toList_ofList, take_length_sub_one_append, String.toList_ofList]
  unfold parseLine
  simp only [ht, h1, h2, h3, h4, h5, Bool.false_eq_true, if_false, if_true,
    validLabel_of_labelOK ⟨hne, hch⟩]

/-- the line `l:` -/
theorem parseLine_label {raw : String} {l : List Char} (hs : raw.toList = l ++ [':']) (hl : LabelDefOK l) :
    parseLine raw = some (.label (String.ofList l)) := by
  apply parseLine_label_core _ hl
  rw [trimAscii_eq, hs, trimList_of_trimmed]
  have htr := trimmed_label hl.1
  constructor
  · intro c hc
    cases l with
    | nil => exact absurd rfl hl.1.1
    | cons a t => exact htr.1 c (by simpa using hc)
  · intro c hc; simp at hc; subst hc; decide

/-- the two-line text `\nl:` that `printCode (.LAB l)` produces, given to `parseLine` as ONE string
    (as `Code.roundTrips` does): the line break is trimmed away -/
theorem parseLine_nl_label {raw : String} {l : List Char} (hs : raw.toList = '\n' :: (l ++ [':']))
    (hl : LabelDefOK l) : parseLine raw = some (.label (String.ofList l)) := by
  apply parseLine_label_core _ hl
  have hw := trimList_ws_append (w := ['\n']) (l := l ++ [':']) (by decide)
  simp only [List.cons_append, List.nil_append] at hw
  rw [trimAscii_eq, hs, hw, trimList_of_trimmed]
  have htr := trimmed_label hl.1
  constructor
  · intro c hc
    cases l with
    | nil => exact absurd rfl hl.1.1
    | cons a t => exact htr.1 c (by simpa using hc)
  · intro c hc; simp at hc; subst hc; decide

theorem parseLine_text : parseLine ".text" = some .directive := by
  have ht : (".text" : String).trimAscii.toString = String.ofList ".text".toList := by
    rw [trimAscii_eq, trimList_of_trimmed (by constructor <;> decide)]
  have h1 : (String.ofList ".text".toList).isEmpty = false := by rw [isEmpty_ofList]; rfl
  have h2 : (String.ofList ".text".toList).startsWith "//" = false := sw_false (by decide)
  have h3 : (String.ofList ".text".toList).startsWith "." = true := sw_true (by decide)
  have h5 : (String.ofList ".text".toList).splitOn " " = [".text"] := by
    rw [splitOn_space, String.toList_ofList]; decide
  unfold parseLine
  simp only [ht, h1, h2, h3, h5, Bool.false_eq_true, if_false, if_true]
  rfl

theorem parseLine_global {raw : String} {l : List Char} (hs : raw.toList = ".global ".toList ++ l) (hl : LabelOK l) :
    parseLine raw = some .directive := by
  have hsp : ' ' ∉ l := fun hm => (labelC_facts (hl.2 _ hm)).2.2.2.2.1 rfl
  have e : ".global ".toList ++ l = ".global".toList ++ ' ' :: l := by
    have : ".global ".toList = ".global".toList ++ [' '] := by decide
    rw [this]; simp
  have htr : Trimmed (".global".toList ++ ' ' :: l) := by
    constructor
    · intro c hc
      have : c = '.' := by
        have : (".global".toList ++ ' ' :: l).head? = some '.' := rfl
        rw [this] at hc; injection hc with hc; exact hc.symm
      subst this; decide
    · intro c hc
      have e2 : ".global".toList ++ ' ' :: l = (".global".toList ++ [' ']) ++ l := by simp
      rw [e2, getLast?_append_ne_nil hl.1] at hc
      exact ((endOK_label hl).2 c hc).1
  have ht : raw.trimAscii.toString = String.ofList (".global".toList ++ ' ' :: l) := by
    rw [trimAscii_eq, hs, e, trimList_of_trimmed htr]
  have h1 : (String.ofList (".global".toList ++ ' ' :: l)).isEmpty = false := by rw [isEmpty_ofList]; rfl
  have h2 : (String.ofList (".global".toList ++ ' ' :: l)).startsWith "//" = false :=
    sw_false (not_prefix_of_head (x := '/') rfl (by
      have : (".global".toList ++ ' ' :: l).head? = some '.' := rfl
      rw [this]; decide))
  have h3 : (String.ofList (".global".toList ++ ' ' :: l)).startsWith "." = true :=
    sw_true ⟨"global".toList ++ ' ' :: l, rfl⟩
  have h5 : (String.ofList (".global".toList ++ ' ' :: l)).splitOn " " = [".global", String.ofList l] := by
    rw [splitOn_space, String.toList_ofList, splitList_append_sep ' ' _ l (by decide),
      splitList_of_not_mem ' ' l hsp]; rfl
  have hne : String.ofList l ≠ "" := by
    intro e; have := ofList_eq_iff.1 e; exact hl.1 this
  have hf : List.filter (fun x => decide (x ≠ "")) [".global", String.ofList l] = [".global", String.ofList l] := by
    simp [hne]
  unfold parseLine
  simp only [ht, h1, h2, h3, h5, hf, Bool.false_eq_true, if_false, if_true, validLabel_of_labelOK hl]


/-! ## comments and `#ctx` hooks -/

/-- the words of the context inside `#ctx [ … ]` (`m` = the comment text, right-trimmed) -/
def hookWords (m : List Char) : List String :=
  ((splitList ' ' ((m.drop 6).dropLast)).map String.ofList).filter (· ≠ "")

/-- what the loader reads a comment `// msg` as — for EVERY `msg`: a plain comment, a hook, or a parse
    error (`none`) when the text starts with `#ctx [` but is not a well-formed hook -/
def commentPLine? (msg : String) : Option PLine :=
  let m := rtrimList msg.toList
  if "#ctx [".toList <+: m then
    if m.getLast? = some ']' then
      match (hookWords m).mapM parseHookVar with
      | some vs => some (.hook vs)
      | none => none
    else none
  else some .comment

theorem rtrim_comment (msg : List Char) :
    rtrimList ('/' :: '/' :: ' ' :: msg)
      = if rtrimList msg = [] then ['/', '/'] else '/' :: '/' :: ' ' :: rtrimList msg := by
  have := dropEndWhileList_append (p := Char.isWhitespace) ['/', '/', ' '] msg
  simp only [List.cons_append, List.nil_append] at this
  unfold rtrimList
  rw [this]
  have e : dropEndWhileList Char.isWhitespace ['/', '/', ' '] = ['/', '/'] := by decide
  rw [e]

theorem parseLine_comment_core {raw : String} {msg : String}
    (ht : raw.trimAscii.toString = String.ofList (rtrimList ('/' :: '/' :: ' ' :: msg.toList))) :
    parseLine raw = commentPLine? msg := by
  rw [rtrim_comment] at ht
  unfold commentPLine?
  simp only []
  generalize hm : rtrimList msg.toList = m at ht
  by_cases hnil : m = []
  · subst hnil
    simp only [if_true] at ht
    have h1 : (String.ofList ['/', '/']).isEmpty = false := by rw [isEmpty_ofList]; rfl
    have h2 : (String.ofList ['/', '/']).startsWith "//" = true := sw_true (by decide)
    have h3 : (String.ofList ['/', '/']).startsWith "// #ctx [" = false := sw_false (by decide)
    have h4 : ¬ "#ctx [".toList <+: ([] : List Char) := by decide
    unfold parseLine
    simp only [ht, h1, h2, h3, h4, Bool.false_eq_true, if_false, if_true]
  · simp only [hnil, if_false] at ht
    have h1 : (String.ofList ('/' :: '/' :: ' ' :: m)).isEmpty = false := by rw [isEmpty_ofList]; rfl
    have h2 : (String.ofList ('/' :: '/' :: ' ' :: m)).startsWith "//" = true := sw_true ⟨' ' :: m, rfl⟩
    have h3 : (String.ofList ('/' :: '/' :: ' ' :: m)).startsWith "// #ctx [" = decide ("#ctx [".toList <+: m) := by
      rw [startsWith_eq_decide]
      have etl : (String.ofList ('/' :: '/' :: ' ' :: m)).toList = '/' :: '/' :: ' ' :: m := String.toList_ofList
      rw [etl]
      have key : ("// #ctx [".toList <+: '/' :: '/' :: ' ' :: m) ↔ ("#ctx [".toList <+: m) := by
        have e1 : "// #ctx [".toList = ['/', '/', ' '] ++ "#ctx [".toList := by decide
        have e2 : '/' :: '/' :: ' ' :: m = ['/', '/', ' '] ++ m := rfl
        rw [e1, e2]
        exact List.prefix_append_right_inj _
      exact decide_eq_decide.2 key
    have h4 : (String.ofList ('/' :: '/' :: ' ' :: m)).endsWith "]" = decide (m.getLast? = some ']') := by
      have e2 : '/' :: '/' :: ' ' :: m = ['/', '/', ' '] ++ m := rfl
      rw [ew_rbr, e2, getLast?_append_ne_nil hnil]
    have h5 : (((String.ofList ('/' :: '/' :: ' ' :: m)).drop 9).dropEnd 1).toString
        = String.ofList ((m.drop 6).dropLast) := by
      apply String.ext
      rw [toList_drop_dropEnd, String.toList_ofList, String.toList_ofList, List.dropLast_eq_take]
      rfl
    unfold parseLine
    simp only [ht, h1, h2, h3, h4, h5, Bool.false_eq_true, if_false, if_true, splitOn_space,
      String.toList_ofList, decide_eq_true_eq]
    rfl

/-- the comment line `    // msg`, for EVERY `msg` -/
theorem parseLine_comment {raw msg : String} (hs : raw.toList = ' ' :: ' ' :: ' ' :: ' ' :: '/' :: '/' :: ' ' :: msg.toList) :
    parseLine raw = commentPLine? msg := by
  apply parseLine_comment_core
  have hw := trimList_ws_append (w := [' ', ' ', ' ', ' ']) (l := '/' :: '/' :: ' ' :: msg.toList) (by decide)
  simp only [List.cons_append, List.nil_append] at hw
  rw [trimAscii_eq, hs, hw, trimList_of_head (by intro c hc; simp at hc; subst hc; decide)]

/-- the same line without indentation -/
theorem parseLine_comment' {raw msg : String} (hs : raw.toList = '/' :: '/' :: ' ' :: msg.toList) :
    parseLine raw = commentPLine? msg := by
  apply parseLine_comment_core
  rw [trimAscii_eq, hs, trimList_of_head (by intro c hc; simp at hc; subst hc; decide)]

/-- a comment that does not start with `#ctx [` is a comment -/
theorem commentPLine?_plain {msg : String} (h : ¬ "#ctx [".toList <+: msg.toList) :
    commentPLine? msg = some .comment := by
  unfold commentPLine?
  have : ¬ "#ctx [".toList <+: rtrimList msg.toList := by
    intro hp
    obtain ⟨w, hw, _⟩ := dropEndWhileList_split (p := Char.isWhitespace) msg.toList
    apply h
    rw [hw]
    exact List.IsPrefix.trans hp (List.prefix_append _ _)
  simp only [this, if_false]

def kindStr (k : Kind) : String := String.ofList (kindC k)

/-- the hook comment of a context (`Scc.Backend.ctxHookComment` on names and kinds) -/
def hookText (vs : List (String × Kind)) : String :=
  "#ctx [" ++ " ".intercalate (vs.map fun v => v.1 ++ ":" ++ kindStr v.2) ++ "]"

def hookWordC (v : String × Kind) : List Char := v.1.toList ++ ':' :: kindC v.2

theorem hookText_toList (vs : List (String × Kind)) :
    (hookText vs).toList = "#ctx [".toList ++ ([' '].intercalate (vs.map hookWordC) ++ [']']) := by
  unfold hookText
  rw [String.toList_append, String.toList_append, intercalate_space, List.map_map]
  have : (String.toList ∘ fun v : String × Kind => v.1 ++ ":" ++ kindStr v.2) = hookWordC := by
    funext v
    simp [hookWordC, kindStr, String.toList_append]
  rw [this, List.append_assoc]; rfl

theorem mapM_parseHookVar (vs : List (String × Kind)) :
    (vs.map fun v => String.ofList (hookWordC v)).mapM parseHookVar = some vs := by
  induction vs with
  | nil => rfl
  | cons v vs ih =>
    rw [List.map_cons, List.mapM_cons, hookWordC, parseHookVar_print, ih, String.ofList_toList]
    rfl

/-- the hook comment of a context whose variable names contain no blank is read back as that context -/
theorem commentPLine?_hook (vs : List (String × Kind)) (h : ∀ v ∈ vs, ' ' ∉ v.1.toList) :
    commentPLine? (hookText vs) = some (.hook vs) := by
  unfold commentPLine?
  have hm : rtrimList (hookText vs).toList = (hookText vs).toList := by
    apply rtrimList_of_last
    intro c hc
    rw [hookText_toList, ← List.append_assoc, getLast?_append_ne_nil (by simp)] at hc
    simp at hc; subst hc; decide
  simp only [hm]
  have hp : "#ctx [".toList <+: (hookText vs).toList := by rw [hookText_toList]; exact List.prefix_append _ _
  have hl : (hookText vs).toList.getLast? = some ']' := by
    rw [hookText_toList, ← List.append_assoc, getLast?_append_ne_nil (by simp)]; rfl
  simp only [hp, hl, if_true]
  have hinner : ((hookText vs).toList.drop 6).dropLast = [' '].intercalate (vs.map hookWordC) := by
    rw [hookText_toList]
    have : ("#ctx [".toList ++ ([' '].intercalate (vs.map hookWordC) ++ [']'])).drop 6
        = [' '].intercalate (vs.map hookWordC) ++ [']'] := rfl
    rw [this, List.dropLast_concat]
  have hwords : hookWords (hookText vs).toList = vs.map fun v => String.ofList (hookWordC v) := by
    unfold hookWords
    rw [hinner]
    cases vs with
    | nil => rfl
    | cons v vs =>
      rw [List.map_cons, splitList_intercalate ' ' (hookWordC v) (vs.map hookWordC)]
      · rw [← List.map_cons, List.map_map]
        show List.filter _ (List.map (fun v => String.ofList (hookWordC v)) (v :: vs)) = _
        apply List.filter_eq_self.2
        intro s hs
        obtain ⟨w, _, rfl⟩ := List.mem_map.1 hs
        simp only [Function.comp, decide_eq_true_eq]
        intro e
        have := ofList_eq_iff.1 e
        simp [hookWordC] at this
      · intro x hx
        rw [← List.map_cons] at hx
        obtain ⟨w, hw, rfl⟩ := List.mem_map.1 hx
        intro hm
        simp only [hookWordC, List.mem_append, List.mem_cons] at hm
        rcases hm with hm | hm | hm
        · exact h w hw hm
        · exact absurd hm (by decide)
        · have hk : ∀ k, ' ' ∉ kindC k := by intro k; cases k <;> decide
          exact hk _ hm
  rw [hwords, mapM_parseHookVar]


/-! ## `parseInstr` on the token shapes of the printer -/

theorem parseInstr_ADD_r (a b c : Reg) :
    parseInstr "ADD" (String.ofList (ops3 (regC a) (regC b) (regC c))) = some (.add a b c) := by
  unfold parseInstr
  simp only [tokens3 (tok_regC a) (tok_regC b) (tok_regC c), parseReg_regC]; rfl

theorem parseInstr_ADD_i (a b : Reg) (i : Int) :
    parseInstr "ADD" (String.ofList (ops3 (regC a) (regC b) (immC i))) = some (.addi a b i) := by
  unfold parseInstr
  simp only [tokens3 (tok_regC a) (tok_regC b) (tok_immC i), parseReg_regC, parseReg_immC, parseImm_immC]; rfl

theorem parseInstr_SUB_r (a b c : Reg) :
    parseInstr "SUB" (String.ofList (ops3 (regC a) (regC b) (regC c))) = some (.sub a b c) := by
  unfold parseInstr
  simp only [tokens3 (tok_regC a) (tok_regC b) (tok_regC c), parseReg_regC]; rfl

theorem parseInstr_SUB_i (a b : Reg) (i : Int) :
    parseInstr "SUB" (String.ofList (ops3 (regC a) (regC b) (immC i))) = some (.subi a b i) := by
  unfold parseInstr
  simp only [tokens3 (tok_regC a) (tok_regC b) (tok_immC i), parseReg_regC, parseReg_immC, parseImm_immC]; rfl

theorem parseInstr_MUL (a b c : Reg) :
    parseInstr "MUL" (String.ofList (ops3 (regC a) (regC b) (regC c))) = some (.mul a b c) := by
  unfold parseInstr
  simp only [tokens3 (tok_regC a) (tok_regC b) (tok_regC c), parseReg_regC]; rfl

theorem parseInstr_SDIV (a b c : Reg) :
    parseInstr "SDIV" (String.ofList (ops3 (regC a) (regC b) (regC c))) = some (.sdiv a b c) := by
  unfold parseInstr
  simp only [tokens3 (tok_regC a) (tok_regC b) (tok_regC c), parseReg_regC]; rfl

theorem parseInstr_MSUB (a b c d : Reg) :
    parseInstr "MSUB" (String.ofList (ops4 (regC a) (regC b) (regC c) (regC d))) = some (.msub a b c d) := by
  unfold parseInstr
  simp only [tokens4 (tok_regC a) (tok_regC b) (tok_regC c) (tok_regC d), parseReg_regC]; rfl

theorem trim_label {l : List Char} (h : LabelOK l) : (String.ofList l).trimAscii.toString = String.ofList l := by
  rw [trimAscii_eq, String.toList_ofList, trimList_of_trimmed (trimmed_label h)]

theorem parseInstr_B {l : List Char} (h : LabelOK l) :
    parseInstr "B" (String.ofList l) = some (.b (String.ofList l)) := by
  unfold parseInstr
  simp only [trim_label h, validLabel_of_labelOK h, if_true]

theorem parseInstr_BL {l : List Char} (h : LabelOK l) :
    parseInstr "BL" (String.ofList l) = some (.bl (String.ofList l)) := by
  unfold parseInstr
  simp only [trim_label h, validLabel_of_labelOK h, if_true]

theorem parseInstr_BEQ {l : List Char} (h : LabelOK l) :
    parseInstr "BEQ" (String.ofList l) = some (.bcond .eq (String.ofList l)) := by
  unfold parseInstr
  simp only [trim_label h, validLabel_of_labelOK h, if_true]

theorem parseInstr_BNE {l : List Char} (h : LabelOK l) :
    parseInstr "BNE" (String.ofList l) = some (.bcond .ne (String.ofList l)) := by
  unfold parseInstr
  simp only [trim_label h, validLabel_of_labelOK h, if_true]

theorem parseInstr_BLT {l : List Char} (h : LabelOK l) :
    parseInstr "BLT" (String.ofList l) = some (.bcond .lt (String.ofList l)) := by
  unfold parseInstr
  simp only [trim_label h, validLabel_of_labelOK h, if_true]

theorem parseInstr_BLE {l : List Char} (h : LabelOK l) :
    parseInstr "BLE" (String.ofList l) = some (.bcond .le (String.ofList l)) := by
  unfold parseInstr
  simp only [trim_label h, validLabel_of_labelOK h, if_true]

theorem parseInstr_BGT {l : List Char} (h : LabelOK l) :
    parseInstr "BGT" (String.ofList l) = some (.bcond .gt (String.ofList l)) := by
  unfold parseInstr
  simp only [trim_label h, validLabel_of_labelOK h, if_true]

theorem parseInstr_BGE {l : List Char} (h : LabelOK l) :
    parseInstr "BGE" (String.ofList l) = some (.bcond .ge (String.ofList l)) := by
  unfold parseInstr
  simp only [trim_label h, validLabel_of_labelOK h, if_true]

theorem parseInstr_BR (a : Reg) : parseInstr "BR" (String.ofList (regC a)) = some (.br a) := by
  unfold parseInstr
  simp only [tokens1 (tok_regC a), parseReg_regC]; rfl

theorem parseInstr_ADR (a : Reg) {l : List Char} (h : LabelOK l) :
    parseInstr "ADR" (String.ofList (ops2 (regC a) l)) = some (.adr a (String.ofList l)) := by
  unfold parseInstr
  simp only [tokens2 (tok_regC a) (tok_label h), parseReg_regC, validLabel_of_labelOK h, if_true]; rfl

theorem parseInstr_MOV (a b : Reg) :
    parseInstr "MOV" (String.ofList (ops2 (regC a) (regC b))) = some (.mov a b) := by
  unfold parseInstr
  simp only [tokens2 (tok_regC a) (tok_regC b), parseReg_regC]; rfl

theorem parseInstr_MOVZ (a : Reg) (i s : Int) :
    parseInstr "MOVZ" (String.ofList (opsWide (regC a) (immC i) (immC s))) = some (.movz a i s) := by
  unfold parseInstr
  simp only [tokensWide (tok_regC a) (tok_immC i) (tok_immC s), parseReg_regC, parseImm_immC]; rfl

theorem parseInstr_MOVN (a : Reg) (i s : Int) :
    parseInstr "MOVN" (String.ofList (opsWide (regC a) (immC i) (immC s))) = some (.movn a i s) := by
  unfold parseInstr
  simp only [tokensWide (tok_regC a) (tok_immC i) (tok_immC s), parseReg_regC, parseImm_immC]; rfl

theorem parseInstr_MOVK (a : Reg) (i s : Int) :
    parseInstr "MOVK" (String.ofList (opsWide (regC a) (immC i) (immC s))) = some (.movk a i s) := by
  unfold parseInstr
  simp only [tokensWide (tok_regC a) (tok_immC i) (tok_immC s), parseReg_regC, parseImm_immC]; rfl

theorem parseInstr_LDR (t b : Reg) (i : Int) :
    parseInstr "LDR" (String.ofList (opsMem (regC t) (regC b) (immC i))) = some (.ldr t b i) := by
  unfold parseInstr
  simp only [tokensMem (tok_regC t) (tok_regC b) (tok_immC i), parseReg_regC, parseImm_immC]; rfl

theorem parseInstr_STR (t b : Reg) (i : Int) :
    parseInstr "STR" (String.ofList (opsMem (regC t) (regC b) (immC i))) = some (.str t b i) := by
  unfold parseInstr
  simp only [tokensMem (tok_regC t) (tok_regC b) (tok_immC i), parseReg_regC, parseImm_immC]; rfl

theorem parseInstr_STP (t1 t2 b : Reg) (i : Int) :
    parseInstr "STP" (String.ofList (opsStp (regC t1) (regC t2) (regC b) (immC i))) = some (.stpPre t1 t2 b i) := by
  unfold parseInstr
  simp only [tokensStp (tok_regC t1) (tok_regC t2) (tok_regC b) (tok_immC i), parseReg_regC, parseImm_immC]; rfl

theorem parseInstr_LDP (t1 t2 b : Reg) (i : Int) :
    parseInstr "LDP" (String.ofList (opsLdp (regC t1) (regC t2) (regC b) (immC i))) = some (.ldpPost t1 t2 b i) := by
  unfold parseInstr
  simp only [tokensLdp (tok_regC t1) (tok_regC t2) (tok_regC b) (tok_immC i), parseReg_regC, parseImm_immC]; rfl

theorem parseInstr_CMP_r (a b : Reg) :
    parseInstr "CMP" (String.ofList (ops2 (regC a) (regC b))) = some (.cmp a b) := by
  unfold parseInstr
  simp only [tokens2 (tok_regC a) (tok_regC b), parseReg_regC]; rfl

theorem parseInstr_CMP_i (a : Reg) (i : Int) :
    parseInstr "CMP" (String.ofList (ops2 (regC a) (immC i))) = some (.cmpi a i) := by
  unfold parseInstr
  simp only [tokens2 (tok_regC a) (tok_immC i), parseReg_regC, parseReg_immC, parseImm_immC]; rfl

theorem parseInstr_RET : parseInstr "RET" "" = some .ret := by
  unfold parseInstr
  simp only [tokenize_nil]; rfl

end Scc.A64.Loader
