/-
  Scc.A64.MemProofsLoadFields — second part of the contract of `load` (memory.rs of axcut2aarch64):
  the per-block part of load_fields (release the block / load the link / load the values) and the
  recursion of `load_fields` over the blocks of a chain, for memory blocks in registers and in spill
  slots (accessed through TEMPORARY_TEMP = X10, which is evacuated to SPILL_TEMP = spill slot 0 and
  restored at the last block); on the view.
-/
import Scc.A64.MemProofsLoad

set_option linter.unusedSimpArgs false
set_option linter.unusedVariables false

namespace Scc.A64

open Scc.AxCut
open Scc.Backend (GenM TempNum freshLabel)

/-- the number of extra temporaries a block of position `pos` writes beyond its values: the link -/
def linkSlot (pos : BlockPosition) : Nat := if pos = .other then 1 else 0

/-- the model's release step of `load_fields` -/
def relStep (mode : Scc.Heap.LoadMode) (s1 : Scc.Heap.HState) (blk : Nat) : Except Scc.Heap.Fault Scc.Heap.HState :=
  match mode with
  | .release => Scc.Heap.releaseBlock s1 blk
  | .share => .ok s1

/-- memory.rs load_fields: the release part of a block -/
def releaseCode (mode : LoadMode) (mbr : Register) : List Code :=
  if mode == .release then .COMMENT "###release block" :: releaseBlock mbr else []

theorem noLab_releaseCode (mode : LoadMode) (mbr : Register) : NoLab (releaseCode mode mbr) := by
  intro l; unfold releaseCode; split <;> simp [releaseBlock]

section Block2
variable {c : MemCfg}

/-- CONTRACT of the block part of `load_fields` (release the block / load the link / load the values)
for the memory block in register `X(mbr)` -/
theorem m_loadFieldsBlock (C : HeapCfgOK c) {μ : MState} {s1 s2 s3 : Scc.Heap.HState} (H : HRelM c μ s1)
    {mbr : Nat} (hm1 : 4 ≤ mbr) (hm2 : mbr < 30) (hme : mbr % 2 = 0) {wb : Word}
    (hvb : μ.val (.register (.x mbr)) = some wb) {toLoadNext ctxAll ctxRest : Ctx}
    (hlenAll : ctxAll.length = ctxRest.length + toLoadNext.length) (hne : toLoadNext ≠ [])
    (hcap : 2 * ctxAll.length ≤ 280) {pos : BlockPosition} {mode : LoadMode}
    (hmb : ∀ j, 1 ≤ j → posTemp (2 * (ctxRest.length + j)) ≠ .register (.x mbr))
    (hrel : relStep (modeMap mode) s1 wb.toNat = .ok s2) {link : Nat}
    (hlink : (if posMap pos = .other then Scc.Heap.rd s2 (wb.toNat + Scc.Heap.fstOff (Scc.Heap.fieldsPerBlock - 1))
      else .ok 0) = .ok link) {vals2 : List Scc.Heap.Field}
    (hlv : Scc.Heap.loadValues s2 (toLoadNext.map kindOf) wb.toNat
      (Scc.Heap.fieldsPerBlock - (posMap pos).toNat) (modeMap mode) = .ok (s3, vals2))
    (hno : mode = .share → ∀ a, s3.mem.get a < 2 ^ 64) (k : Nat) :
    ∃ c2 c3 k', (loadLink pos ctxAll (.x mbr)).run k = .ok (c2, k) ∧
      (loadValues toLoadNext ctxRest (.x mbr) (FIELDS_PER_BLOCK - pos.toNat) mode).run k = .ok (c3, k') ∧
      k ≤ k' ∧ LabsIn (releaseCode mode (.x mbr) ++ c2 ++ c3) k k' ∧
      ∃ μ', mFwd c (releaseCode mode (.x mbr) ++ c2 ++ c3) μ = some (μ', .next) ∧ HRelM c μ' s3 ∧
        EnvFields μ' ctxRest.length toLoadNext vals2 ∧
        (pos = .other → ∃ lw, μ'.val (posTemp (2 * ctxAll.length)) = some lw ∧ lw.toNat = link) ∧
        (∀ u, u ≠ .register (.x 0) → u ≠ .register (.x 2) → u ≠ .register (.x 3) →
          (∀ m, 2 * ctxRest.length ≤ m → m < 2 * ctxAll.length + linkSlot pos → u ≠ posTemp m) →
          μ'.val u = μ.val u) := by
  have hmT : Temporary.register (.x mbr) ≠ .register (.x 2) := reg_ne (by omega)
  have hmH : Temporary.register (.x mbr) ≠ .register (.x 0) := reg_ne (by omega)
  have hnpos : 1 ≤ toLoadNext.length := List.length_pos_iff.mpr hne
  -- (1) release
  have step1 : ∃ μ1, mFwd c (releaseCode mode (.x mbr)) μ = some (μ1, .next) ∧ HRelM c μ1 s2 ∧
      (∀ u, u ≠ .register (.x 0) → μ1.val u = μ.val u) := by
    cases mode with
    | share =>
      simp only [modeMap, relStep, Except.ok.injEq] at hrel
      subst hrel
      exact ⟨μ, mFwd_nil c μ, H, fun _ _ => rfl⟩
    | release =>
      simp only [modeMap, relStep, Scc.Heap.releaseBlock] at hrel
      cases hw : Scc.Heap.wr s1 wb.toNat s1.heap with
      | error e => simp [hw] at hrel
      | ok sx =>
        simp only [hw, Except.ok.injEq] at hrel
        subst hrel
        obtain ⟨hok, rfl⟩ := wr_eq_ok.1 hw
        obtain ⟨wH, hH, eH⟩ := H.heap
        have ha : haddr c wb 0 = some wb.toNat := haddr_ok0 C H hok
        have hm : maddr c μ (.x mbr) NEXT_ELEMENT_OFFSET = some wb.toNat := by
          rw [next_zero, maddr_eq hm2 hvb, ha]
        have hsv : srcVal μ HEAP = some wH := by simp [srcVal, HEAP_eq, hH]
        refine ⟨(μ.setH wb.toNat wH).setT (.register (.x 0)) (some wb), ?_, ?_, ?_⟩
        · have e3 := mexecC_MOVR c (μ := μ.setH wb.toNat wH) (by decide : 0 < 30) hm2
          rw [MState.setH_val, hvb] at e3
          exact mFwd_step c (mexecC_COMMENT c _ μ) (mFwd_step c (mexecC_STRh c hsv hm)
            (mFwd_step c e3 (mFwd_nil c _)))
        · obtain ⟨wf, hwf, ewf⟩ := H.free
          have := H.setH wb.toNat wH
          rw [eH] at this
          exact ⟨this.base, this.limit, this.mem, ⟨wb, by simp, rfl⟩, ⟨wf, by simp [hwf], ewf⟩⟩
        · intro u hu; simp [hu]
  obtain ⟨μ1, x1, H1, F1⟩ := step1
  have hvb1 : μ1.val (.register (.x mbr)) = some wb := by rw [F1 _ hmH]; exact hvb
  -- (2) the link
  have hcl : 2 * ctxAll.length < 281 := by omega
  have hlt : posTemp (2 * ctxAll.length) ≠ .register (.x mbr) := by
    have := hmb toLoadNext.length hnpos
    rwa [← hlenAll] at this
  obtain ⟨l0, l1, l2, l3⟩ := posTemp_ne_low hcl
  have step2 : ∃ c2 μ2, (loadLink pos ctxAll (.x mbr)).run k = .ok (c2, k) ∧ NoLab c2 ∧
      mFwd c c2 μ1 = some (μ2, .next) ∧ HRelM c μ2 s2 ∧
      (pos = .other → ∃ lw, μ2.val (posTemp (2 * ctxAll.length)) = some lw ∧ lw.toNat = link) ∧
      (∀ u, u ≠ .register (.x 2) → (pos = .other → u ≠ posTemp (2 * ctxAll.length)) →
        μ2.val u = μ1.val u) := by
    cases pos with
    | last =>
      exact ⟨[], μ1, rfl, noLab_nil, mFwd_nil c μ1, H1, (fun e => by cases e), fun _ _ _ => rfl⟩
    | other =>
      simp only [posMap, if_true] at hlink
      obtain ⟨μ2, lw, x2, elw, v2, _, hp2, _, F2⟩ := m_loadFieldCode C H1 (isVar_posTemp hcl) hm2 hvb1
        (off := Scc.Heap.fstOff (Scc.Heap.fieldsPerBlock - 1)) (by decide) (by decide) hlink
      refine ⟨.COMMENT "###load link to next block" :: loadFieldCode (posTemp (2 * ctxAll.length)) (.x mbr)
          ((Scc.Heap.fstOff (Scc.Heap.fieldsPerBlock - 1) : Nat) : Int), μ2, ?_, ?_, ?_, H1.of_frame hp2 (F2 _ (Ne.symm l0) (by simp)) (F2 _ (Ne.symm l1) (by simp)),
        fun _ => ⟨lw, v2, elw⟩, fun u hT hu => F2 u (hu rfl) hT⟩
      · unfold loadLink
        simp only [beq_self_eq_true, if_true]
        rw [genm_bind (loadField_run .fst ctxAll (.x mbr) (FIELDS_PER_BLOCK - 1) k
          (by simp [TempNum.toNat]; omega))]
        rfl
      · exact (noLab_comment _).append (noLab_loadFieldCode _ _ _)
      · exact mFwd_seq c (a := [.COMMENT "###load link to next block"]) (mFwd_comment c _ μ1) x2
  obtain ⟨c2, μ2, hr2, hn2, x2, H2, hlk, F2⟩ := step2
  have hvb2 : μ2.val (.register (.x mbr)) = some wb := by rw [F2 _ hmT (fun _ => Ne.symm hlt)]; exact hvb1
  -- (3) the values
  rw [← fpb_eq] at hlv
  obtain ⟨c3, k', hr3, hk3, hl3, μ3, x3, H3, hE3, F3⟩ := m_loadValues C H2 (existing := ctxRest) hm1 hm2 hme hvb2 hmb
    (by rw [← hlenAll]; exact hcap) (ff := FIELDS_PER_BLOCK - pos.toNat) (by cases pos <;> decide) hlv hno k
  refine ⟨c2, c3, k', hr2, hr3, hk3,
    (((noLab_releaseCode _ _).labsIn _ _).append (hn2.labsIn _ _)).append hl3, μ3,
    mFwd_seq c (mFwd_seq c x1 x2) x3, H3, hE3, ?_, ?_⟩
  · intro hp
    obtain ⟨lw, hlw, elw⟩ := hlk hp
    refine ⟨lw, ?_, elw⟩
    rw [F3 _ l2 l3 (fun m _ h2 e => by have := posTemp_inj.1 e; omega)]
    exact hlw
  · intro u hH hT hT2 hu
    rw [F3 u hT hT2 (fun m h1 h2 => hu m h1 (by omega)),
      F2 u hT (fun hp => hu _ (by omega) (by simp [linkSlot, hp])), F1 u hH]

end Block2

/-! ## load_fields: the recursion over the blocks of a chain -/

/-- the LOGICAL view: while TEMPORARY_TEMP (X10 = the first temporary of context position 3) is
evacuated (`rf`, the `register_freed` flag of memory.rs), its contents are in the spill slot
SPILL_TEMP -/
def lview (μ : MState) (rf : Bool) : MState :=
  { μ with val := fun u => if rf = true ∧ u = .register (.x 10) then μ.val (.spill 0) else μ.val u }

theorem lview_false (μ : MState) : lview μ false = μ := by
  cases μ; simp [lview]

theorem lview_val_true (μ : MState) (u : Temporary) :
    (lview μ true).val u = if u = .register (.x 10) then μ.val (.spill 0) else μ.val u := by
  simp [lview]

theorem lview_val_ne (μ : MState) (rf : Bool) {u : Temporary} (h : u ≠ .register (.x 10)) :
    (lview μ rf).val u = μ.val u := by
  simp [lview, h]

/-- the flag after a level: at the last (outermost) block the register has been restored -/
def outFlag (rf' : Bool) : BlockPosition → Bool
  | .last => false
  | .other => rf'

theorem posTemp_eq_tt {m : Nat} : posTemp m = .register (.x 10) ↔ m = 6 := by
  have : posTemp 6 = .register (.x 10) := rfl
  rw [← this, posTemp_inj]

theorem posTemp_ne_spill0 (m : Nat) : posTemp m ≠ .spill 0 := by
  unfold posTemp
  split
  · intro e; cases e
  · intro e
    have : m - 25 = 0 := by simpa using e
    omega

theorem posTemp_spill {m : Nat} (h : 26 ≤ m) : posTemp m = .spill (m - 25) := by
  unfold posTemp; rw [if_neg (by omega)]

theorem posTemp_reg {m : Nat} (h : m + 4 < 30) : posTemp m = .register (.x (m + 4)) := by
  unfold posTemp; rw [if_pos h]

theorem heap_loadFields_nil (s : Scc.Heap.HState) (pos : Scc.Heap.BlockPosition) (mode : Scc.Heap.LoadMode)
    (p : Nat) : Scc.Heap.loadFields s [] pos mode p = .ok (s, [], p) := by
  rw [Scc.Heap.loadFields]; simp

theorem heap_loadFields_cons (s : Scc.Heap.HState) (kinds : List Bool) (hne : kinds ≠ [])
    (pos : Scc.Heap.BlockPosition) (mode : Scc.Heap.LoadMode) (p : Nat) :
    Scc.Heap.loadFields s kinds pos mode p =
      match Scc.Heap.loadFields s (kinds.take (Scc.Heap.restLength kinds.length pos)) .other mode p with
      | .error e => .error e
      | .ok (s1, vals1, blk) =>
        match relStep mode s1 blk with
        | .error e => .error e
        | .ok s2 =>
          match (if pos = .other then Scc.Heap.rd s2 (blk + Scc.Heap.fstOff (Scc.Heap.fieldsPerBlock - 1))
                 else .ok 0) with
          | .error e => .error e
          | .ok link =>
            match Scc.Heap.loadValues s2 (kinds.drop (Scc.Heap.restLength kinds.length pos)) blk
                (Scc.Heap.fieldsPerBlock - pos.toNat) mode with
            | .error e => .error e
            | .ok (s3, vals2) => .ok (s3, vals1 ++ vals2, link) := by
  rw [Scc.Heap.loadFields]; simp only [dif_neg hne]; cases mode <;> rfl

theorem outFlag_imp {rf' : Bool} {pos : BlockPosition} (h : outFlag rf' pos = true) : rf' = true := by
  cases pos <;> simp [outFlag] at h; exact h

end Scc.A64
