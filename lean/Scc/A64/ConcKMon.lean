/-
  Scc.A64.ConcKMon — THE HEAP MONITOR NEVER REPORTS on AArch64, all programs, every amount of machine fuel (the
  AArch64 analogue of Scc/X86/ConcKMon.lean), under the two hypotheses about the run that also remain on x86-64:
  * `HooksKinds`: at a statement boundary the hook at the program counter lists variables of the kinds of the
    context of the positional state (the relation `K.Rel3` tracks `Ctx.keys` only, not names, so that the text of
    the hook of the generator's context is not determined);
  * `WindowOK B`: the allocation frontier lies in the window the monitor inspects (8 blocks above the highest heap
    word written); `windowOK_small`: true while at most 7 blocks lie below the frontier.
  Contents: `MonPass`, `runLoop_passN`, `runLoop_pass_outOfFuel` (the run loop WITH the heap monitor along a
  passing run, `K.MStepsNP`); `allHF_of_names` (on AArch64 `C14A_namesTextSafe` excludes `#` from every name);
  `entry_setupM` (the header visits no hook); `heapMonitor_rel`; `hookPassFrom_of` (the two hypotheses give
  `HookPassFrom`, Scc/A64/ConcKMRun.lean); `programs_monitor_gen` / `programs_monitor_size`.
  `entry_setupM` is GENERATED from `entry_setup` (Scc/A64/ConcKRun.lean) by gen_mmon.py (memory note scc-a64-conc).
-/
import Scc.A64.ConcKMRun
import Scc.A64.ConcKAllFuel

set_option linter.unusedVariables false
set_option linter.unusedSimpArgs false

namespace Scc.A64.ConcK

open Scc Scc.AxCut Scc.AxCut.Pos Scc.Backend Scc.Backend.Abs Scc.Backend.Sim Scc.Backend.Subst Scc.A64 Scc.A64.Ref
open Scc.A64.CC
open Scc.Backend.Sim2 Scc.Backend.Keys
open Scc.Props.C14Generic (LabelSafe)
open Scc.Props.C06Generic (outAfter WithinCapacity Reachable EnoughHeap CodeFits statesOf stopsWithin)
open Scc.Heap (HState InvS InvW Exhausted)
open Scc.Heap.Refine (HRef FrLe Room FrPk)
open Scc.X86.Conc (FrBound LiveLe LiveLe0 stmtSize clausesSize valsFields run_eq_runState ctxKinds)
open Scc.X86.Ref.K (AllocLe AllocLeClauses ValAll valAll_ints AllHF ClausesHF)
open Scc.X86.Ref (HashFree)
open Scc.A64.NoHk (HK)

/-! ## the run loop with the heap monitor, along a passing run -/

/-- what the run loop needs at a hook item: with the heap monitor on, the monitor returns `.ok` -/
def MonPass (cfg : MonCfg) (σ : State) (vs : List (String × Kind)) : Prop :=
  cfg.heap = true → ∃ b, heapMonitor cfg.mem σ vs = .ok b

/-- along a passing run the iterations consume fuel (and the monitor updates `blocks`), nothing else -/
theorem runLoop_passN {P : Prog} {cfg : MonCfg} {n : Nat} {σ σ' : State} {pc pc' : Nat}
    {out out' : List (Bool × Word)} (h : K.MStepsNP (MonPass cfg) P cfg.mem n σ pc out σ' pc' out') :
    ∀ (steps blocks : Nat), ∃ steps' blocks', ∀ fuel,
      runLoop P cfg (n + fuel) { σ := σ, pc := pc, out := out, steps := steps, blocks := blocks } =
        runLoop P cfg fuel { σ := σ', pc := pc', out := out', steps := steps', blocks := blocks' } := by
  induction h with
  | refl σ pc out => intro steps blocks; exact ⟨steps, blocks, fun fuel => by simp⟩
  | @step n σ σ1 σ2 pc pc1 pc2 out out1 out2 hs hp _ ih =>
    intro steps blocks
    cases hs with
    | hook hi =>
      by_cases hh : cfg.heap = true
      · obtain ⟨b, hb⟩ := hp _ hi hh
        obtain ⟨s', b', hn⟩ := ih steps (max blocks b)
        refine ⟨s', b', fun fuel => ?_⟩
        rw [show n + 1 + fuel = (n + fuel) + 1 by omega, runLoop_item hi]
        simp only [hh, if_true, hb]
        exact hn fuel
      · obtain ⟨s', b', hn⟩ := ih steps blocks
        refine ⟨s', b', fun fuel => ?_⟩
        rw [show n + 1 + fuel = (n + fuel) + 1 by omega, runLoop_item hi]
        simp only [hh, if_false]
        exact hn fuel
    | next hi hst =>
      obtain ⟨s', b', hn⟩ := ih (steps + 1) blocks
      refine ⟨s', b', fun fuel => ?_⟩
      rw [show n + 1 + fuel = (n + fuel) + 1 by omega, runLoop_item hi]
      simp only [hst]
      exact hn fuel
    | print hi hst =>
      obtain ⟨s', b', hn⟩ := ih (steps + 1) blocks
      refine ⟨s', b', fun fuel => ?_⟩
      rw [show n + 1 + fuel = (n + fuel) + 1 by omega, runLoop_item hi]
      simp only [hst]
      exact hn fuel

/-- a machine that makes `n` passing iterations without ending has not ended with less fuel -/
theorem runLoop_pass_outOfFuel {P : Prog} {cfg : MonCfg} {n : Nat} {σ σ' : State} {pc pc' : Nat}
    {out out' : List (Bool × Word)} (h : K.MStepsNP (MonPass cfg) P cfg.mem n σ pc out σ' pc' out') :
    ∀ (f steps blocks : Nat), f ≤ n →
      (runLoop P cfg f { σ := σ, pc := pc, out := out, steps := steps, blocks := blocks }).res = .outOfFuel := by
  induction h with
  | refl σ pc out =>
    intro f steps blocks hf
    have : f = 0 := by omega
    subst this
    rfl
  | @step n σ σ1 σ2 pc pc1 pc2 out out1 out2 hs hp _ ih =>
    intro f steps blocks hf
    cases f with
    | zero => rfl
    | succ f =>
      cases hs with
      | hook hi =>
        rw [runLoop_item hi]
        by_cases hh : cfg.heap = true
        · obtain ⟨b, hb⟩ := hp _ hi hh
          simp only [hh, if_true, hb]
          exact ih f steps _ (by omega)
        · simp only [hh, if_false]
          exact ih f steps blocks (by omega)
      | next hi hst =>
        rw [runLoop_item hi]
        simp only [hst]
        exact ih f (steps + 1) blocks (by omega)
      | print hi hst =>
        rw [runLoop_item hi]
        simp only [hst]
        exact ih f (steps + 1) blocks (by omega)

/-! ## names that do not start with `#` -/

theorem hashFree_of_identOK {i : Ident} (h : Scc.X86.Loader.identOK Scc.A64.Loader.okcA i = true) : HashFree i := by
  unfold HashFree
  simp only [Scc.X86.Loader.identOK, List.all_eq_true] at h
  cases hl : i.name.toList with
  | nil => simp
  | cons x xs =>
    have hx := h x (by rw [hl]; simp)
    have := (Scc.A64.Loader.okcA_facts hx).2.2.2
    simp only [List.head?_cons, ne_eq, Option.some.injEq]
    exact this

mutual
  /-- ON AArch64 THE NAME CHECK OF THE LOADER THEOREM (`C14A_namesTextSafe`: no `#` in any name) GIVES `AllHF` -/
  theorem allHF_of_names : ∀ s : Stmt, Scc.X86.Loader.stmtNamesOK Scc.A64.Loader.okcA s = true → AllHF s
    | .subst _ next, h => by
      simp only [Scc.X86.Loader.stmtNamesOK, Bool.and_eq_true] at h
      simp only [AllHF]; exact allHF_of_names next h.2
    | .call l _, h => by
      simp only [Scc.X86.Loader.stmtNamesOK] at h
      simp only [AllHF]; exact hashFree_of_identOK h
    | .letS _ _ _ _ next _, h => by
      simp only [Scc.X86.Loader.stmtNamesOK, Bool.and_eq_true] at h
      simp only [AllHF]; exact allHF_of_names next h.2
    | .switch _ _ clauses _, h => by
      simp only [Scc.X86.Loader.stmtNamesOK, Bool.and_eq_true] at h
      simp only [AllHF]; exact clausesHF_of_names clauses h.2
    | .create _ _ _ clauses next _ _, h => by
      simp only [Scc.X86.Loader.stmtNamesOK, Bool.and_eq_true] at h
      simp only [AllHF]; exact ⟨clausesHF_of_names clauses h.1.2, allHF_of_names next h.2⟩
    | .invoke _ _ _ _, _ => by simp only [AllHF]
    | .lit _ _ next _, h => by
      simp only [Scc.X86.Loader.stmtNamesOK, Bool.and_eq_true] at h
      simp only [AllHF]; exact allHF_of_names next h.2
    | .op x _ _ _ next _, h => by
      simp only [Scc.X86.Loader.stmtNamesOK, Bool.and_eq_true] at h
      simp only [AllHF]; exact ⟨hashFree_of_identOK h.1.1.1, allHF_of_names next h.2⟩
    | .print _ _ next _, h => by
      simp only [Scc.X86.Loader.stmtNamesOK, Bool.and_eq_true] at h
      simp only [AllHF]; exact allHF_of_names next h.2
    | .ifc _ _ _ t e, h => by
      simp only [Scc.X86.Loader.stmtNamesOK, Bool.and_eq_true] at h
      simp only [AllHF]; exact ⟨allHF_of_names t h.1.2, allHF_of_names e h.2⟩
    | .exit _, _ => by simp only [AllHF]
  theorem clausesHF_of_names : ∀ cl : Clauses, Scc.X86.Loader.clausesNamesOK Scc.A64.Loader.okcA cl = true →
      ClausesHF cl
    | .nil, _ => by simp only [ClausesHF]
    | .cons _ _ body rest, h => by
      simp only [Scc.X86.Loader.clausesNamesOK, Bool.and_eq_true] at h
      simp only [ClausesHF]; exact ⟨allHF_of_names body h.1.2, clausesHF_of_names rest h.2⟩
end

theorem allHF_of_progNames {p : AxCut.Prog} (h : Scc.X86.Loader.progNamesOK Scc.A64.Loader.okcA p = true) :
    ∀ d ∈ p.defs, AllHF d.body := by
  intro d hd
  simp only [Scc.X86.Loader.progNamesOK, List.all_eq_true] at h
  have := h d hd
  simp only [Scc.X86.Loader.defNamesOK, Bool.and_eq_true] at this
  exact allHF_of_names _ this.2

/-! ## the entry -/

/-- `entry_setup` with the header as a hook-free run -/
theorem entry_setupM (p : AxCut.Prog) (args : List Word) (hooks : Bool) (body routine : List Code)
    (nargs : Nat) (d0 : Def) (ops : List MockOp) (c' : Nat)
    (hsafe : LabelSafe p = true) (htp : LinTypedProg p)
    (hcompM : (compile mockSym hooks p).run 0 = .ok ((ops, nargs), c'))
    (hcompX : compileProg a64Backend p hooks 0 = .ok (body, nargs, routine))
    (hnd : (labs routine).Nodup)
    (hd : p.defs.head? = some d0) (hentry : ∀ b ∈ d0.ctx, b.chi = .ext ∧ b.ty = .i64)
    (hlen : d0.ctx.length = args.length) (hc0 : 2 * d0.ctx.length ≤ 280)
    (c : MemCfg) (H : CfgCC c) (hb0 : 0 < c.heapBase) (hbytes : 128 ≤ c.heapBytes)
    {hk : Code → Bool} {P : Prog} (HB : K.HoldsB hk P routine) (hK : HK hk) :
    ∃ pre σ0 kp0 a, Entry p args hooks routine d0 ops c hk P pre σ0 kp0 a ∧
      K.MStepsI P c (entryState c args) (pcOf hk routine 2) [] σ0 (pcOf hk routine kp0) [] := by
  obtain ⟨c1, hcompA, hrout⟩ := compileProg_ok hcompX
  have HA := HB.holdsA
  have Hp := HA.holds
  have hmem : d0 ∈ p.defs := by
    cases hdefs : p.defs with
    | nil => rw [hdefs] at hd; simp at hd
    | cons d ds => rw [hdefs] at hd; simp at hd; subst hd; simp
  have hnodupD := Scc.Props.C14Generic.labels_unique hooks p 0 ops nargs c' hcompM hsafe
  obtain ⟨_, hnargs⟩ := compile_mock_entry hcompM hd
  rw [hnargs, hlen] at hrout
  have hargs : args.length ≤ 7 := by
    obtain ⟨su, hsu, _⟩ := routine_anatomy hrout
    obtain ⟨moves, hm, _⟩ := setup_eq hsu
    exact CC.moveArguments_le _ _ hm
  -- the header
  obtain ⟨hdr, σ2, hcs, hlabs, hlab, hk0, R, HR⟩ := K.init_sim3M (c := c) H hrout Hp hK
  -- Theorem A at the entry
  obtain ⟨a, hlabA, RX, hn1⟩ := init_relX hooks p 0 ops nargs c' hcompM hnodupD d0 hmem
    (fun b hb => (hentry b hb).1) args hlen (K.withinCapacity_of_le hc0)
  have T : Pos.StateTyped p ⟨d0.ctx, args.map .int, d0.body⟩ :=
    ⟨htp d0 hmem, Pos.ints_typed d0.ctx args hlen hentry⟩
  -- the entry definition: its label is the first code of the body
  obtain ⟨is, rest, kx, kx', hbody, hdrun, _⟩ := K.compile_a64_entry hcompA hd
  have hget : routine[hdr.length]? = some (Code.LAB (d0.name.print ++ "_")) := by
    rw [hcs, hbody]; simp
  have hdat : XAt routine (hdr.length + 1) is :=
    ⟨hdr ++ [Code.LAB (d0.name.print ++ "_")], rest ++ cleanup, by rw [hcs, hbody]; simp, by simp⟩
  have hlabitem : isItem hk (Code.LAB (d0.name.print ++ "_")) = false := by
    cases hh : hk (Code.LAB (d0.name.print ++ "_")) with
    | false => simp [isItem, Code.isMeta, hh]
    | true => obtain ⟨m, e⟩ := Hp.hkComment _ hh; cases e
  have hpc1 : pcOf hk routine (hdr.length + 1) = pcOf hk routine hdr.length := pcOf_noitem hget hlabitem
  have X3i : K.X3 c d0.ctx (initConfig a args)
      (Scc.Heap.init c.heapBase (c.heapBase + c.heapBytes)) id (fun _ _ => 0) σ2 [] :=
    K.x3_init R HR (fun b hb => (hentry b hb).1) hc0 hb0 hbytes id (fun _ _ => 0)
  have R3 : K.Rel3 c routine (Program.ofOps ops) hooks p ⟨d0.ctx, args.map .int, d0.body⟩ (initConfig a args)
      (Scc.Heap.init c.heapBase (c.heapBase + c.heapBytes)) σ2 (hdr.length + 1) :=
    ⟨d0.ctx, id, fun _ _ => 0, rfl, RX, X3i, fun i h1 h2 w hw => by
      simp only [List.getElem_map]
      exact .int _ _ _ _, kx, kx', is, hdrun, hdat⟩
  have hclean : "cleanup" ∉ labs (hdr ++ body) := by
    rw [hcs, labs_append] at hnd
    have := (List.nodup_append.1 hnd).2.2
    intro hm
    exact this _ hm _ (by simp [labs, labOf, cleanup]) rfl
  refine ⟨hdr ++ body, σ2, hdr.length + 1, a, ⟨hcs, hclean, K.xdefsAt_of_compile hcompA hcs, hlab, ?_, R3, hn1, T,
    hargs⟩, ?_⟩
  · rw [hpc1]
    exact hk0.msteps
  · rw [hpc1]
    exact hk0


/-! ## the executable check at a boundary, with the bound on the frontier -/

/-- `heapMonitor_boundary` (Scc/A64/ConcKC10.lean) on the parts of a boundary, with the number of blocks below the
frontier bounded by `FrBound` -/
theorem heapMonitor_rel {p : AxCut.Prog} {hooks : Bool} {routine : List Code} {ops : List MockOp}
    {c : MemCfg} (H : CfgCC c) {st : Pos.State} {cfgA : Config} {hs : HState} {σ : State} {kp : Nat}
    (R : K.Rel3 c routine (Program.ofOps ops) hooks p st cfgA hs σ kp) {B : Nat} (hfb : FrBound hs B) :
    ∃ below inUse, HeapShapeAt c σ below inUse ∧ below ≤ B ∧
      ∀ vars, hookKinds vars = ctxKinds st.ctx →
        64 * below + 64 ≤ (σ.maxHeap + 63) / 64 * 64 + 8 * 64 → heapMonitor c σ vars = .ok below := by
  obtain ⟨Γ', ι, κ, hkeys, RX, X3h, _⟩ := R
  obtain ⟨lin, lazy, live, Fr, I⟩ := X3h.href.conc
  obtain ⟨rootsM, w, f, h1, h2, h3, h4⟩ := heapInv_parts H RX X3h I
  have hsh := heapShapeAt_of_rel X3h.hrel I
  refine ⟨_, _, hsh, hfb _ _ _ _ _ I, fun vars hv hw => ?_⟩
  rw [← Scc.X86.Conc.ctxKinds_keys hkeys] at hv
  rw [← hv] at h1
  have hb := X3h.hrel.base
  have hFb := h4.frontier_block
  have hge : c.heapBase ≤ Fr := by
    unfold Scc.Heap.IsBlock at hFb; omega
  have h64 : (Fr - c.heapBase) % 64 = 0 := by
    unfold Scc.Heap.IsBlock at hFb; omega
  have := heapMonitor_ok (vars := vars) h1 h2 h3 h4 (by rw [hb] at hw; omega)
  rw [this, hb]
  rfl

/-! ## the two hypotheses about the run -/

/-- a configuration AT a statement boundary: its program counter IS the item of the position `kp` at which
`K.Rel3` holds (`BoundaryOf` allows the machine to be ahead by `#ctx` hooks) -/
def BoundaryAt (p : AxCut.Prog) (hooks : Bool) (routine : List Code) (ops : List MockOp) (c : MemCfg)
    (hk : Code → Bool) (P : Prog) (st : Pos.State) (X : MS) : Prop :=
  ∃ (cfgA : Config) (hs : HState) (kp : Nat), X.pc = pcOf hk routine kp ∧ X.out = cfgA.out ∧
    K.Rel3 c routine (Program.ofOps ops) hooks p st cfgA hs X.σ kp

theorem BoundaryAt.boundaryOf {p : AxCut.Prog} {hooks : Bool} {routine : List Code} {ops : List MockOp} {c : MemCfg}
    {hk : Code → Bool} {P : Prog} {st : Pos.State} {X : MS} (h : BoundaryAt p hooks routine ops c hk P st X) :
    BoundaryOf p hooks routine ops c hk P st X := by
  obtain ⟨cfgA, hs, kp, e, ho, R⟩ := h
  exact ⟨cfgA, hs, kp, by rw [e]; exact K.Tol.refl _ _, ho, R⟩

/-- THE HOOKS LIST THE RIGHT KINDS: at every configuration of the machine's run (from `asm_main`) that is AT a
statement boundary and at a hook item, the hook lists variables of the kinds of the positional state's context -/
def HooksKinds (p : AxCut.Prog) (hooks : Bool) (routine : List Code) (ops : List MockOp) (c : MemCfg)
    (hk : Code → Bool) (P : Prog) (args : List Word) : Prop :=
  ∀ n X st vs, StepsN P c n (initMS c hk routine args) X → BoundaryAt p hooks routine ops c hk P st X →
    P.items[X.pc]? = some (.hook vs) → hookKinds vs = ctxKinds st.ctx

/-- THE WINDOW: at every configuration of the machine's run that is AT a statement boundary with at most `B` blocks
below the allocation frontier, the frontier block lies in the window the monitor inspects -/
def WindowOK (p : AxCut.Prog) (hooks : Bool) (routine : List Code) (ops : List MockOp) (c : MemCfg)
    (hk : Code → Bool) (P : Prog) (args : List Word) (B : Nat) : Prop :=
  ∀ n X st below inUse, StepsN P c n (initMS c hk routine args) X → BoundaryAt p hooks routine ops c hk P st X →
    HeapShapeAt c X.σ below inUse → below ≤ B → 64 * below + 64 ≤ (X.σ.maxHeap + 63) / 64 * 64 + 8 * 64

/-- at most 7 blocks below the frontier: the frontier block is always inside the window -/
theorem windowOK_small (p : AxCut.Prog) (hooks : Bool) (routine : List Code) (ops : List MockOp) (c : MemCfg)
    (hk : Code → Bool) (P : Prog) (args : List Word) {B : Nat} (hB : B ≤ 7) :
    WindowOK p hooks routine ops c hk P args B := by
  intro n X st below inUse _ _ _ hb
  omega

/-- the two hypotheses give the hook hypothesis of the run theorems -/
theorem hookPassFrom_of {p : AxCut.Prog} {hooks : Bool} {routine : List Code} {ops : List MockOp} {cfg : MonCfg}
    (H : CfgCC cfg.mem) {hk : Code → Bool} {P : Prog} {args : List Word} {B : Nat}
    (hKinds : HooksKinds p hooks routine ops cfg.mem hk P args)
    (hWin : WindowOK p hooks routine ops cfg.mem hk P args B)
    {n0 : Nat} {X0 : MS} (h0 : StepsN P cfg.mem n0 (initMS cfg.mem hk routine args) X0) (st : Pos.State) :
    HookPassFrom (MonPass cfg) cfg.mem hk P routine (Program.ofOps ops) hooks p st X0 B := by
  intro n X' st' cfg' hs' kp' vs _ hn e ho R hfb hv _
  have hB : BoundaryAt p hooks routine ops cfg.mem hk P st' X' := ⟨cfg', hs', kp', e, ho, R⟩
  obtain ⟨below, inUse, hsh, hle, hmon⟩ := heapMonitor_rel H R hfb
  exact ⟨below, hmon vs (hKinds (n0 + n) X' st' vs (h0.trans hn) hB hv)
    (hWin (n0 + n) X' st' below inUse (h0.trans hn) hB hsh hle)⟩

/-! ## every amount of machine fuel, the heap monitor on or off -/

section Gen

variable (p : AxCut.Prog) (args : List Word) (hooks : Bool) (body routine : List Code)
  (nargs : Nat) (d0 : Def) (ops : List MockOp) (c' : Nat)
  (hsafe : LabelSafe p = true) (htp : LinTypedProg p) (hprog : K.ProgOK p)
  (hcompM : (compile mockSym hooks p).run 0 = .ok ((ops, nargs), c')) (hfit : CodeFits ops)
  (hcompX : compileProg a64Backend p hooks 0 = .ok (body, nargs, routine))
  (hnd : (labs routine).Nodup)
  (hd : p.defs.head? = some d0) (hentry : ∀ b ∈ d0.ctx, b.chi = .ext ∧ b.ty = .i64)
  (hlen : d0.ctx.length = args.length)
  (hcap : ∀ st, Reachable p ⟨d0.ctx, args.map .int, d0.body⟩ st → 2 * st.ctx.length ≤ 280)

include hsafe htp hprog hcompM hfit hcompX hnd hd hentry hlen hcap in
/-- EVERY AMOUNT OF MACHINE FUEL, THE HEAP MONITOR ON OR OFF, all programs, for any source of the peak hypothesis:
the result of the machine on a program that holds the routine is `outOfFuel`, or `done v` with `v` the result of
the positional machine — in particular never a report of the heap monitor — under the two hypotheses about the run -/
theorem programs_monitor_gen (hnostuck : ∀ fuel w, (Pos.run p args fuel).res ≠ .stuck w)
    (cfg : MonCfg) (H : CfgCC cfg.mem)
    (hb8 : cfg.mem.heapBase % 8 = 0) (hb0 : 0 < cfg.mem.heapBase)
    (Pk A M : Nat) (hA : ∀ d ∈ p.defs, AllocLe A d.body) (hM : ∀ d ∈ p.defs, stmtSize d.body ≤ M)
    (hbytes : 64 * (Pk + A + 2) ≤ cfg.mem.heapBytes)
    {hk : Code → Bool} {P : Prog} (HB : K.HoldsB hk P routine) (hK : HK hk)
    (hHF : ∀ d ∈ p.defs, AllHF d.body)
    (hfitX : cfg.mem.codeBase + 4 * ninstr routine < 2 ^ 64)
    (fuel' : Nat) (hf : fuel' * (M + 1) + stmtSize d0.body + 1 < 2 ^ 64)
    (hPH : PeakHyp p hooks routine ops cfg.mem hk P args d0 Pk (A * (fuel' * (M + 1) + stmtSize d0.body) + 1))
    (hKinds : HooksKinds p hooks routine ops cfg.mem hk P args)
    (hWin : WindowOK p hooks routine ops cfg.mem hk P args (Pk + 1)) :
    (runProg P args fuel' cfg).res = .outOfFuel ∨
      ∃ v out, Pos.run p args (fuel' * (M + 1) + stmtSize d0.body) = ⟨out, .done v⟩ ∧
        (runProg P args fuel' cfg).res = .done v := by
  have hmem : d0 ∈ p.defs := by
    cases hdefs : p.defs with
    | nil => rw [hdefs] at hd; simp at hd
    | cons d ds => rw [hdefs] at hd; simp at hd; subst hd; simp
  have hc0 := hcap _ Reachable.refl
  simp only at hc0
  obtain ⟨pre, σ0, kp0, a, En, hI⟩ := entry_setupM p args hooks body routine nargs d0 ops c' hsafe htp
    hcompM hcompX hnd hd hentry hlen hc0 cfg.mem H hb0 (by omega) HB hK
  obtain ⟨n0, hn0P⟩ := K.MStepsK.countP (pass := MonPass cfg) hI
  have hn0 : StepsN P cfg.mem n0 (initMS cfg.mem hk routine args) ⟨σ0, pcOf hk routine kp0, []⟩ := hn0P.forget
  have hfb0 : FrBound (Scc.Heap.init cfg.mem.heapBase (cfg.mem.heapBase + cfg.mem.heapBytes)) (Pk + 1) :=
    frBound_init hb0 (by omega) (by omega)
  have hcb0 : FrBound (Scc.Heap.init cfg.mem.heapBase (cfg.mem.heapBase + cfg.mem.heapBytes)) 1 :=
    frBound_init hb0 (by omega) (Nat.le_refl _)
  have hHP := hookPassFrom_of H hKinds hWin hn0 ⟨d0.ctx, args.map .int, d0.body⟩
  have hmain := En.main
  have hargs := En.nargs
  have hrs := run_eq_runState hd hlen (fuel' * (M + 1) + stmtSize d0.body)
  cases hres : Pos.run p args (fuel' * (M + 1) + stmtSize d0.body) with
  | mk out res =>
  cases res with
  | stuck w => exact absurd (by rw [hres]) (hnostuck (fuel' * (M + 1) + stmtSize d0.body) w)
  | done v =>
    rw [hrs] at hres
    obtain ⟨kL, σL, outL, n, g1, g2, g3, g4⟩ := run3_peakM (pass := MonPass cfg) H hb8 HB hnd hfitX En.split
      En.clean hooks p 0 ops nargs c' hcompM hsafe htp hfit En.defs hprog Pk
      (A * (fuel' * (M + 1) + stmtSize d0.body) + 1) A hA hbytes hK hHF _ _ [] (initConfig a args) _ σ0 kp0
      (pcOf hk routine kp0) out v 1 En.typed hcap (K.Tol.refl _ _) En.rel (hA d0 hmem) (valAll_ints _ args)
      (hHF d0 hmem) (valAll_ints _ args) rfl (by rw [En.next1]; omega) hfb0 hcb0 (by omega) (hPH n0 _ hn0) hHP hres
    have hN := hn0P.trans g1
    by_cases hle : fuel' ≤ n0 + n
    · left
      rw [runProg_eq_runLoop hmain hargs]
      exact runLoop_pass_outOfFuel hN fuel' 0 0 hle
    · right
      refine ⟨v, out, rfl, ?_⟩
      obtain ⟨s', b', hs'⟩ := runLoop_passN hN 0 0
      obtain ⟨g, rfl⟩ : ∃ g, fuel' = n0 + n + (g + 1) := ⟨fuel' - (n0 + n) - 1, by omega⟩
      rw [runProg_eq_runLoop hmain hargs]
      have := hs' (g + 1)
      simp only [MS.mach, initMS] at this ⊢
      rw [this]
      exact (runLoop_ret (cfg := cfg) g2 g3 outL s' b' g).2
  | outOfFuel =>
    left
    rw [hrs] at hres
    obtain ⟨n, X, hn, hX⟩ := run3_progressM (pass := MonPass cfg) H hb8 HB hnd hfitX En.split En.clean hooks p 0 ops
      nargs c' hcompM hsafe htp hfit En.defs hprog Pk (A * (fuel' * (M + 1) + stmtSize d0.body) + 1) A M hA hM hbytes
      hK hHF _ fuel' _ [] (initConfig a args) _ σ0 kp0 (pcOf hk routine kp0) out 1 En.typed hcap (K.Tol.refl _ _)
      En.rel (hA d0 hmem) (valAll_ints _ args) (hHF d0 hmem) (valAll_ints _ args) (hM d0 hmem) (valAll_ints _ args)
      rfl (by rw [En.next1]; omega) hfb0 hcb0 (by omega) (hPH n0 _ hn0) hHP hres (Nat.le_refl _)
    have hN := hn0P.trans hX
    rw [runProg_eq_runLoop hmain hargs]
    exact runLoop_pass_outOfFuel hN fuel' 0 0 (by omega)

include hsafe htp hprog hcompM hfit hcompX hnd hd hentry hlen hcap in
/-- … under a bound `D` on the fields of the object and closure values of the positional machine's environments -/
theorem programs_monitor_size (hnostuck : ∀ fuel w, (Pos.run p args fuel).res ≠ .stuck w)
    (D : Nat) (hD : ∀ st, Reachable p ⟨d0.ctx, args.map .int, d0.body⟩ st → valsFields st.env ≤ D)
    (cfg : MonCfg) (H : CfgCC cfg.mem)
    (hb8 : cfg.mem.heapBase % 8 = 0) (hb0 : 0 < cfg.mem.heapBase)
    (A M : Nat) (hA : ∀ d ∈ p.defs, AllocLe A d.body) (hM : ∀ d ∈ p.defs, stmtSize d.body ≤ M)
    (hbytes : 64 * (D + A + 2) ≤ cfg.mem.heapBytes)
    {hk : Code → Bool} {P : Prog} (HB : K.HoldsB hk P routine) (hK : HK hk)
    (hHF : ∀ d ∈ p.defs, AllHF d.body)
    (hfitX : cfg.mem.codeBase + 4 * ninstr routine < 2 ^ 64)
    (fuel' : Nat) (hf : fuel' * (M + 1) + stmtSize d0.body + 1 < 2 ^ 64)
    (hKinds : HooksKinds p hooks routine ops cfg.mem hk P args)
    (hWin : WindowOK p hooks routine ops cfg.mem hk P args (D + 1)) :
    (runProg P args fuel' cfg).res = .outOfFuel ∨
      ∃ v out, Pos.run p args (fuel' * (M + 1) + stmtSize d0.body) = ⟨out, .done v⟩ ∧
        (runProg P args fuel' cfg).res = .done v :=
  programs_monitor_gen p args hooks body routine nargs d0 ops c' hsafe htp hprog hcompM hfit hcompX hnd hd hentry hlen
    hcap hnostuck cfg H hb8 hb0 D A M hA hM hbytes HB hK hHF hfitX fuel' hf (peakHyp_of_data hD) hKinds hWin

end Gen

end Scc.A64.ConcK
