/-
  Scc.A64.RefClosCreate — THREE-WAY SIMULATION OF `create` on AArch64 (C07, closures): the closure
  environment is stored like the fields of an object (`store_mid`: the `store` of `let`, for a new last
  position of any non-`ext` kind), then the ADDRESS OF THE METHOD TABLE is loaded: the address of the table
  label in the mock code on the abstract machine (`ll`), its BYTE ADDRESS in the routine on AArch64
  (`ADR reg, label`: `loadLabel_pos`, `label_addr`).  The lemma also says where the methods are on both sides
  (`MethodsAt`, `XMethodsAt`: for the SAME environment context, the suffix of the context that the generator
  splits off).  The AArch64 analogue of Scc/X86/RefClosCreate.lean.
-/
import Scc.A64.RefClosXC
import Scc.A64.RefClosAddr

set_option linter.unusedVariables false
set_option linter.unusedSimpArgs false

namespace Scc.A64.Ref.K

open Scc.AxCut Scc.AxCut.Pos Scc.Backend Scc.Backend.Abs Scc.Backend.Sim Scc.Backend.Sim2 Scc.A64 Scc.A64.CC
open Scc.Heap (HState InvS InvW)
open Scc.Heap.Refine (HRef FrLe Room)

/-- a first instruction exists behind every position of a list that contains one -/
theorem split_first_instr : ∀ (R : List Code), (∃ x ∈ R, x.isMeta = false) →
    ∃ B c2 R0, R = B ++ c2 :: R0 ∧ (∀ b ∈ B, b.isMeta = true) ∧ c2.isMeta = false
  | [], h => by obtain ⟨x, hx, _⟩ := h; cases hx
  | y :: R, h => by
    by_cases hy : y.isMeta = true
    · obtain ⟨B, c2, R0, e, hB, hc2⟩ := split_first_instr R (by
        obtain ⟨x, hx, hm⟩ := h
        rcases List.mem_cons.1 hx with rfl | hx
        · rw [hy] at hm; cases hm
        · exact ⟨x, hx, hm⟩)
      refine ⟨y :: B, c2, R0, by rw [e]; rfl, ?_, hc2⟩
      intro b hb
      rcases List.mem_cons.1 hb with rfl | hb
      · exact hy
      · exact hB b hb
    · exact ⟨[], y, R, rfl, fun _ hb => absurd hb List.not_mem_nil, by simpa using hy⟩

/-- the routine ends with the `RET` of the cleanup: behind every label there is an instruction -/
theorem instr_behind {pre A : List Code} {l : String} {R : List Code}
    (h : pre ++ cleanup = A ++ Code.LAB l :: R) : ∃ x ∈ R, x.isMeta = false := by
  have h1 : (pre ++ cleanup).getLast? = some Code.RET := by
    rw [List.getLast?_append]; rfl
  rw [h, List.getLast?_append] at h1
  cases R with
  | nil => simp at h1
  | cons y R' =>
    have h2 : (Code.LAB l :: y :: R').getLast? = (y :: R').getLast? := by simp
    rw [h2] at h1
    have h3 : (y :: R').getLast? = some Code.RET := by
      cases hg : (y :: R').getLast? with
      | none => simp at hg
      | some z => rw [hg] at h1; simpa using h1
    exact ⟨Code.RET, List.mem_of_getLast? h3, rfl⟩

section Create3

variable {c : MemCfg} (H : CfgCC c) (h8 : c.heapBase % 8 = 0) {hkf : Code → Bool} {Pm : Prog}
  {cs : List Code} (Hp : Holds hkf Pm cs) (hnd : (labs cs).Nodup)

include H Hp in
/-- `load_label` into the word part of a position: `ADR` (and a store into the spill slot) -/
theorem loadLabel_pos {σ : State} (C : Core c σ) {t : Nat} (ht : t < 281) {lbl : String} {j : Nat}
    (hl : Pm.labels[lbl]? = some j) (hj : j < Pm.items.size) {k : Nat}
    (hat : XAt cs k (loadLabel (posTemp t) lbl)) (out : List (Bool × Word)) :
    ∃ σ', MSteps Pm c σ (pcOf hkf cs k) out σ' (pcOf hkf cs (k + (loadLabel (posTemp t) lbl).length)) out ∧
      Core c σ' ∧ σ'.tempVal (posTemp t) = some (labelWord Pm c j) ∧ Frame σ σ' (posTemp t) := by
  have hvar := isVar_posTemp ht
  cases hpt : posTemp t with
  | register reg =>
    rw [hpt] at hvar hat
    cases reg with
    | x r =>
      obtain ⟨nt, hnt, _, _⟩ := tempVal_var_reg (σ := σ) hvar
      have hc : cs[k]? = some (Code.ADR (.x r) lbl) := hat.head
      obtain ⟨i, hti, hit⟩ := Hp.instr k _ hc rfl
      have ei : i = .adr (.x nt) lbl := by
        have : (Code.ADR (.x r) lbl).toInstr = some (.adr (.x nt) lbl) := by
          simp [Code.toInstr, toReg_x, hnt]
        rw [this] at hti; exact (Option.some.inj hti).symm
      subst ei
      refine ⟨σ.setReg nt (some (labelWord Pm c j)), ?_, core_setReg C _ _, ?_, ⟨rfl, rfl, ?_, by intros; rfl⟩⟩
      · show MSteps Pm c σ (pcOf hkf cs k) out _ (pcOf hkf cs (k + 1)) out
        rw [pcOf_item hc (by simp [isItem, Code.isMeta])]
        exact .one (.next hit (step_adr' hl hj nt σ _))
      · rw [tempVal_reg hnt]; simp
      · intro m _ _ hm
        have : nt ≠ m := by intro e; apply hm; simp [Temporary.archReg, hnt, e]
        simp [this]
    | sp => simp [Temporary.isVar] at hvar
    | xzr => simp [Temporary.isVar] at hvar
  | spill pt =>
    rw [hpt] at hvar hat
    obtain ⟨_, hq⟩ := isVar_spill hvar
    have hT : xreg 2 = some xT := xreg_TEMP
    have hc : cs[k]? = some (Code.ADR TEMP lbl) := hat.head
    obtain ⟨i, hti, hit⟩ := Hp.instr k _ hc rfl
    have ei : i = .adr (.x xT) lbl := by
      have : (Code.ADR TEMP lbl).toInstr = some (.adr (.x xT) lbl) := rfl
      rw [this] at hti; exact (Option.some.inj hti).symm
    subst ei
    have hsp := spOkS_of_core H C
    have hsp1 : SpOkS c 144 (σ.setReg xT (some (labelWord Pm c j))) := hsp
    have hx : execCodes c [Code.STR TEMP .sp (stackOffset pt)] (σ.setReg xT (some (labelWord Pm c j))) =
        .ok ((σ.setReg xT (some (labelWord Pm c j))).setSlot (σ.slotAddr pt) (labelWord Pm c j)) := by
      have : (TEMP : Register) = .x 2 := rfl
      rw [this]
      simp [execCodes, execCode_STR_sp hT, exec_str_slot c 144, hsp1, hq]
    have hat2 : XAt cs (k + 1) [Code.STR TEMP .sp (stackOffset pt)] := hat.tail
    have hm1 : MSteps Pm c σ (pcOf hkf cs k) out (σ.setReg xT (some (labelWord Pm c j)))
        (pcOf hkf cs (k + 1)) out := by
      rw [pcOf_item hc (by simp [isItem, Code.isMeta])]
      exact .one (.next hit (step_adr' hl hj xT σ _))
    have hm2 := x_msteps_codes (c := c) Hp hat2 hx out
    refine ⟨_, hm1.trans hm2, ?_, ?_, ⟨rfl, rfl, ?_, ?_⟩⟩
    · exact core_execCodes H _ (core_setReg C _ _) (allInt_STR_slot _ hq) hx
    · rw [tempVal_spill]; simp
    · intro m hm _ _; simp [Ne.symm hm]
    · intro q _ hq' hne
      have : σ.slotAddr pt ≠ σ.slotAddr q := by
        intro e; apply hne; rw [(slotAddr_inj hsp hq hq').mp e]
      simp [this]

include H h8 Hp hnd in
/-- the `store` of `let` / `create` on both machines: the positions `N, N+1, …` become the fields of a new
object, referenced by the pointer part of the new position `N` (a binding `b` of non-`ext` kind) -/
theorem store_mid {P : Program} {Γ : Ctx} {N : Nat} (hNle : N ≤ Γ.length) {b : Binding} (hb : b.chi ≠ .ext)
    {cfg cA : Config} {hs : HState} {ι : Nat → Nat} {κ : Nat → Nat → Word} {σ : State}
    {out : List (Bool × Word)} {kp : Nat}
    (X0 : X3 c Γ cfg hs ι κ σ out)
    (hstore : P.code[cfg.pc]? = some (.store (Mock.kindsOf (Γ.drop N)) N))
    (hsA : Abs.step P cfg = .next cA)
    {fields : List Abs.Field} (hf : readFields cfg.temps (Mock.kindsOf (Γ.drop N)) N = some fields)
    (hch : Obj.children ⟨0, fields⟩ = roots.go cfg.temps (Γ.drop N) N)
    (hnext : cfg.next < 2 ^ 64) (hroom : Room hs (64 * (Γ.length - N) + 64))
    {k kst : Nat} {cst rest : List Code}
    (hstX : (store (Γ.drop N) (Γ.take N)).run k = .ok (cst, kst))
    (hat1 : XAt cs kp (cst ++ rest)) :
    ∃ σ1 hs' ι' κ', MSteps Pm c σ (pcOf hkf cs kp) out σ1 (pcOf hkf cs (kp + cst.length)) out ∧
      X3R c (Γ.take N) cA (roots (Γ.take N) cA.temps ++ Sim2.rootOf cA.temps b N) hs' ι' κ' σ1 out ∧
      (∀ r, cA.temps.get (2 * N) = some r → σ1.tempVal (posTemp (2 * N)) = some (imgWord ι' r)) ∧
      cA.pc = cfg.pc + 1 ∧ FrLe hs hs' (64 * (Γ.length - N)) ∧
      (∀ t, t < 2 * N → cA.temps.get t = cfg.temps.get t) ∧
      (∀ t, t < 2 * N → σ1.tempVal (posTemp t) = σ.tempVal (posTemp t)) ∧
      ((Γ.drop N = [] ∧ cA.heap = cfg.heap ∧ κ' = κ ∧ cA.temps.get (2 * N) = some 0) ∨
       (Γ.drop N ≠ [] ∧ cA.heap = (cfg.next, ⟨0, fields⟩) :: cfg.heap ∧ κ' = storeK σ κ cfg.next N ∧
        cA.temps.get (2 * N) = some (BitVec.ofNat 64 cfg.next))) := by
  have hlenTake : (Γ.take N).length = N := by simp [Nat.min_eq_left hNle]
  have hbne : (b.chi != Chi.ext) = true := (Scc.Backend.Sim2.chi_bne_ext _).mpr hb
  cases hΔ : Γ.drop N with
  | nil =>
    have hNΓ : N = Γ.length := by
      have := congrArg List.length hΔ
      simp at this; omega
    rw [hΔ] at hstore hstX
    have hT : Γ.take N = Γ := by rw [hNΓ]; exact List.take_length
    rw [hT] at hstX ⊢
    have hA := step_store_empty P cfg N hstore
    rw [hsA] at hA
    injection hA with hA
    have hlow : ∀ t, t < 2 * Γ.length → cA.temps.get t = cfg.temps.get t := by
      intro t ht
      rw [hA]
      simp only
      rw [get_set_other _ _ (by omega), get_clobberTemp _ (by unfold Mock.T_TEMP; have := X0.cap; omega)]
    obtain ⟨code, kk', hrunS, _, _, σ1, hx, X1, hv1, hkeepE⟩ :=
      store_x3_empty H h8 X0 hlow (by rw [hA]) (by rw [hA]) (by rw [hA]) k
    have hcode : code = cst ∧ kk' = kst := by
      have : (store [] Γ).run k = .ok (cst, kst) := hstX
      rw [hrunS] at this
      injection this with this
      injection this with e1 e2
      exact ⟨e1, e2⟩
    obtain ⟨rfl, rfl⟩ := hcode
    have hn1 := x_msteps_fwd Hp hnd hat1.left hx out
    have h2n : cA.temps.get (2 * N) = some 0 := by
      rw [hA]; simp only; exact get_set_same _ _ _
    refine ⟨σ1, hs, ι, κ, hn1, ?_, ?_, by rw [hA], by
      rw [hNΓ, Nat.sub_self]; exact Scc.Heap.Refine.FrLe.refl hs, fun t ht => hlow t (by omega),
      fun t ht => hkeepE t (by omega),
      Or.inl ⟨rfl, by rw [hA], rfl, h2n⟩⟩
    · have hr : Sim2.rootOf cA.temps b N = [] := by
        unfold Sim2.rootOf; rw [h2n]; simp
      rw [hr, List.append_nil, roots_congr _ _ _ (fun i hi => hlow (2 * i) (by omega))]
      exact X1
    · intro r hr
      rw [h2n] at hr
      injection hr with hr
      subst hr
      rw [hNΓ, hv1]
      simp [imgWord]
  | cons b0 Δ =>
    rw [hΔ] at hstore
    have hfc : readFields cfg.temps (b0.chi :: Mock.kindsOf Δ) N = some fields := by
      rw [hΔ] at hf; exact hf
    have hA := step_store_cons P cfg b0.chi (Mock.kindsOf Δ) N fields hstore hfc
    rw [hsA] at hA
    injection hA with hA
    have hNlt : N < Γ.length := by
      have := congrArg List.length hΔ
      simp at this; omega
    have hlow : ∀ t, t < 2 * N → cA.temps.get t = cfg.temps.get t := by
      intro t ht
      rw [hA]
      simp only
      rw [get_set_other _ _ (by omega), get_clearPositions, if_neg (by omega),
        get_clobberTemp _ (by unfold Mock.T_TEMP; have := X0.cap; omega)]
    obtain ⟨code, kk', hrunS, _, _, σ1, hs', p, hx, X1, hv1, hp0, hplt, hfrS, hkeepS⟩ :=
      store_x3 H h8 X0 hNlt hf hch hnext hlow (by rw [hA]) (by rw [hA]) (by rw [hA])
        hroom k
    have hcode : code = cst ∧ kk' = kst := by
      have : (store (Γ.drop N) (Γ.take N)).run k = .ok (cst, kst) := hstX
      rw [hrunS] at this
      injection this with this
      injection this with e1 e2
      exact ⟨e1, e2⟩
    obtain ⟨rfl, rfl⟩ := hcode
    have hn1 := x_msteps_fwd Hp hnd hat1.left hx out
    have h2n : cA.temps.get (2 * N) = some (BitVec.ofNat 64 cfg.next) := by
      rw [hA]; simp only; exact get_set_same _ _ _
    have hr0 : BitVec.ofNat 64 cfg.next ≠ 0 := ofNat_ne_zero X0.href.abs.pos hnext
    have hrt : (BitVec.ofNat 64 cfg.next).toNat = cfg.next := ofNat_toNat_lt hnext
    refine ⟨σ1, hs', (fun i => if i = cfg.next then p else ι i), storeK σ κ cfg.next N, hn1, ?_, ?_, by rw [hA],
      hfrS, hlow,
      fun t ht => hkeepS t ht,
      Or.inr ⟨by simp, by rw [hA], rfl, h2n⟩⟩
    · have hr : Sim2.rootOf cA.temps b N = [cfg.next] := by
        unfold Sim2.rootOf
        rw [h2n]
        have h1 : (b.chi != Chi.ext) = true := hbne
        have h2 : (BitVec.ofNat 64 cfg.next != 0) = true := by rw [bne_iff_ne]; exact hr0
        simp only [h1, h2, if_true, hrt]
      rw [hr, roots_congr _ _ _ (fun i hi => hlow (2 * i) (by rw [hlenTake] at hi; omega))]
      exact X1
    · intro r hr
      rw [h2n] at hr
      injection hr with hr
      subst hr
      rw [hv1]
      unfold imgWord
      rw [if_neg hr0, hrt]
      simp

include H h8 Hp hnd in
/-- THREE-WAY SIMULATION OF `create` -/
theorem create_x3 (HB : HoldsB hkf Pm cs) {pre : List Code} (hcsC : cs = pre ++ cleanup)
    {P : Program} {hooks : Bool} {prog : AxCut.Prog} {Γ : Ctx}
    {ρ : List Value} {x : Ident} {ty : Ty} {Γc : Ctx} {clauses : Clauses} {next : Stmt} {f1 f2 : FV}
    {cfg : Config}
    (R : RelX P hooks prog ⟨Γ, ρ, .create x ty (some Γc) clauses next f1 f2⟩ cfg)
    (hk : Γc.length ≤ Γ.length)
    (hkeys : Ctx.keys (Γ.drop (Γ.length - Γc.length)) = Γc.keys)
    (hfresh : ∀ b ∈ Γ.take (Γ.length - Γc.length), b.var.id ≠ x.id)
    (hcap : 2 * (Γ.length - Γc.length + 1) + 2 < Mock.T_TEMP)
    (hnext : cfg.next < 2 ^ 64)
    {hs : HState} {ι : Nat → Nat} {κ : Nat → Nat → Word} {σ : State} {out : List (Bool × Word)} {kp : Nat}
    (X : X3 c Γ cfg hs ι κ σ out)
    {k k' : Nat} {items : List Code}
    (hrun : (codeStatementR a64Backend hooks natRen prog.types (.create x ty (some Γc) clauses next f1 f2) Γ).run k =
      .ok (items, k'))
    (hat : XAt cs kp items)
    (hroom : Room hs (64 * Γc.length + 64)) :
    ∃ cfg' σ' hs' ι' κ' kp', stepsTo P 2 cfg cfg' ∧
      MSteps Pm c σ (pcOf hkf cs kp) out σ' (pcOf hkf cs kp') out ∧ FrLe hs hs' (64 * Γc.length) ∧
      cfg'.out = cfg.out ∧ cfg'.next ≤ cfg.next + 1 ∧
      RelX P hooks prog ⟨Γ.take (Γ.length - Γc.length) ++ [⟨x, .cns, ty⟩],
        ρ.take (Γ.length - Γc.length) ++ [.clo Γc (ρ.drop (Γ.length - Γc.length)) clauses], next⟩ cfg' ∧
      X3 c (Γ.take (Γ.length - Γc.length) ++ [⟨x, .cns, ty⟩]) cfg' hs' ι' κ' σ' out ∧
      ∃ k1 k1' items', (codeStatementR a64Backend hooks natRen prog.types next
          (Γ.take (Γ.length - Γc.length) ++ [⟨x, .cns, ty⟩])).run k1 = .ok (items', k1') ∧
        XAt cs kp' items' ∧ LetProv Γ (Γ.length - Γc.length) cfg cfg' κ κ' σ σ' ∧
        ∃ a w, cfg'.temps.get (2 * (Γ.length - Γc.length) + 1) = some (BitVec.ofNat 64 a) ∧
          σ'.tempVal (posTemp (2 * (Γ.length - Γc.length) + 1)) = some w ∧
          MethodsAt P hooks prog.types a (Γ.drop (Γ.length - Γc.length)) clauses ∧
          XMethodsAt c cs hooks prog.types w (Γ.drop (Γ.length - Γc.length)) clauses := by
  obtain ⟨cfg', hst, hout', hnx', R'⟩ := sim2_create R hk hkeys hfresh hcap hnext
  -- the mock code at the program counter (as in `sim2_create`)
  obtain ⟨c0m, c0m', ops, hrunM, hatM⟩ := R.code
  simp only [codeStatementR, run_bind_ok, run_pure_ok, freshLabelStr_run_ok, splitOffLast_run_ok,
    mockSym_store, mockSym_variableTemporary, vt_run_ok] at hrunM
  obtain ⟨sp, k1, ⟨_, rfl, rfl⟩, c1, k2, ⟨rfl, rfl⟩, num, k3, ⟨rfl, rfl⟩, t, k4, ⟨p, hp, rfl, rfl⟩,
    c3, k5, h3, c5, k6, h5, rfl, rfl⟩ := hrunM
  have hn : (Γ.take (Γ.length - Γc.length)).length = Γ.length - Γc.length := by simp
  have hp' : p = Γ.length - Γc.length := by
    rw [ctxPosition_eq_posOf] at hp
    have := posOf_append_fresh (Γ.take (Γ.length - Γc.length)) ⟨x, .cns, ty⟩ hfresh
    simp only at hp
    rw [this, hn] at hp
    exact (Option.some.inj hp).symm
  subst hp'
  simp only [mockSym_comment, mockSym_loadLabel, mockSym_label, List.append_assoc, CodeAt_hook] at hatM
  simp only [List.cons_append, List.nil_append, CodeAt, TempNum.toNat] at hatM
  obtain ⟨hstore, hll, hat'⟩ := hatM
  rw [CodeAt_append] at hat'
  obtain ⟨hat3, hat45⟩ := hat'
  simp only [CodeAt] at hat45
  obtain ⟨hlab, hat45'⟩ := hat45
  rw [hn] at hstore
  -- the AArch64 code at the program counter
  simp only [codeStatementR, run_bind_ok, run_pure_ok, freshLabelStr_run_ok, splitOffLast_run_ok] at hrun
  obtain ⟨spX, _, ⟨_, rfl, rfl⟩, cst, kst, hstX, numX, _, ⟨rfl, rfl⟩, tX, _, htX, c3X, k5X, h3X, c5X, k6X, h5X,
    rfl, rfl⟩ := hrun
  obtain ⟨pX, hpX, hltX, rfl, rfl, _⟩ := vt_rel htX
  have hpX' : pX = Γ.length - Γc.length := by
    have := posOf_append_fresh (Γ.take (Γ.length - Γc.length)) ⟨x, .cns, ty⟩ hfresh
    simp only at hpX
    rw [this, hn] at hpX
    exact (Option.some.inj hpX).symm
  subst hpX'
  simp only [TempNum.toNat] at hltX
  generalize hN : Γ.length - Γc.length = N at *
  have hNle : N ≤ Γ.length := by omega
  -- the two abstract steps, explicitly
  obtain ⟨cA, hsA, cB, hsB, hcB⟩ := hst
  have hcB' : cB = cfg' := hcB
  subst hcB'
  -- layout of the AArch64 items
  simp only [] at hstX h3X htX hat h3 hp hpX h5 h5X
  generalize hlbl : mangleTy ty ++ "_" ++ natRen (kst + 1) = lbl at *
  have hxc : a64Backend.comment "#load tag" = Code.COMMENT "#load tag" := rfl
  have hxl : a64Backend.loadLabel (posTemp (2 * N + TempNum.snd.toNat)) lbl = loadLabel (posTemp (2 * N + 1)) lbl := rfl
  have hxlab : a64Backend.label lbl = Code.LAB lbl := rfl
  rw [hxc, hxl, hxlab] at hat
  generalize hc0 : hookCode a64Backend hooks Γ ++ [a64Backend.comment
      ("create " ++ x.print ++ ": " ++ tyPrint ty ++ " = (" ++ varsPrint Γc ++ ")\\{ ... \\};")] = c0 at hat
  have hc0c : ∀ y ∈ c0, ∃ m', y = Code.COMMENT m' := by rw [← hc0]; exact hook_comments hooks Γ _
  generalize hT : (if clauses.length > 1 then codeTable a64Backend clauses lbl else []) = table at hat
  have hatA : XAt cs kp (c0 ++ (cst ++ ((Code.COMMENT "#load tag" :: loadLabel (posTemp (2 * N + 1)) lbl) ++
      (c3X ++ (Code.LAB lbl :: (table ++ c5X)))))) := by
    simpa [List.append_assoc] using hat
  -- the comments
  have hk0 := x_msteps_codes (c := c) Hp hatA.left (execCodes_comments c c0 σ hc0c) out
  have hat1 : XAt cs (kp + c0.length) (cst ++ ((Code.COMMENT "#load tag" ::
      loadLabel (posTemp (2 * N + 1)) lbl) ++ (c3X ++ (Code.LAB lbl :: (table ++ c5X))))) := hatA.right
  -- the fields read by the abstract `store`
  have hlenρ : (ρ.drop N).length = (Γ.drop N).length := by
    have := R.len; simp only at this; simp [this]
  obtain ⟨fields, hf, hrep, hch⟩ := readFields_ok2 (Γ.drop N) (ρ.drop N) N (R.vals.slice N) hlenρ
  have hlenTake : (Γ.take N).length = N := hn
  -- the store on both machines
  obtain ⟨σ1, hs', ι', κ', hn1, X1, hptr1, hpcA, hfrM, hlowM, hmachM, hobjM⟩ :=
    store_mid H h8 Hp hnd hNle (b := ⟨x, .cns, ty⟩) (by intro h; cases h) X hstore hsA hf (hch 0) hnext
      (by rw [show Γ.length - N = Γc.length by omega]; exact hroom) hstX hat1
  -- the table label in the routine
  obtain ⟨cs1, rest1, hcs, hpcs1⟩ := hat1
  have hcsL : cs = (cs1 ++ cst ++ (Code.COMMENT "#load tag" :: loadLabel (posTemp (2 * N + 1)) lbl) ++ c3X) ++
      Code.LAB lbl :: ((table ++ c5X) ++ rest1) := by
    rw [hcs]; simp [List.append_assoc]
  generalize hApre : cs1 ++ cst ++ (Code.COMMENT "#load tag" :: loadLabel (posTemp (2 * N + 1)) lbl) ++ c3X = Apre
    at hcsL
  obtain ⟨Bm, c2m, R0m, hsplit, hBm, hc2m⟩ := split_first_instr ((table ++ c5X) ++ rest1)
    (instr_behind (pre := pre) (by rw [← hcsC]; exact hcsL))
  obtain ⟨hlabX, hidxlt, hlw⟩ := label_addr (c := c) HB hnd (by rw [hcsL, hsplit]) hBm hc2m
  -- the table address
  have hll' : P.code[cA.pc]? = some (.ll (2 * N + 1) (mangleTy ty ++ "_" ++ natRen (c0m + 1))) := by
    rw [hpcA]; exact hll
  have hB := step_ll P cA (2 * N + 1) _ _ hll' (by unfold Mock.T_TEMP; omega) hlab
  rw [hsB] at hB
  injection hB with hB
  have hat2 : XAt cs (kp + c0.length + cst.length) ((Code.COMMENT "#load tag" ::
      loadLabel (posTemp (2 * N + 1)) lbl) ++ (c3X ++ (Code.LAB lbl :: (table ++ c5X)))) :=
    ⟨cs1 ++ cst, rest1, by rw [hcs]; simp [List.append_assoc], by simp [hpcs1]⟩
  have hkc := x_msteps_codes (c := c) Hp (blk := [Code.COMMENT "#load tag"]) (σ := σ1) (σ' := σ1)
    (XAt.left (b := loadLabel (posTemp (2 * N + 1)) lbl) hat2.left) rfl out
  obtain ⟨σ2, hk2, C2, hv2, F2⟩ := loadLabel_pos H Hp X1.core hltX hlabX hidxlt
    (XAt.tail hat2.left) out
  rw [hlw] at hv2
  have X2 : X3R c (Γ.take N ++ [⟨x, .cns, ty⟩]) cB
      (roots (Γ.take N) cA.temps ++ Sim2.rootOf cA.temps ⟨x, .cns, ty⟩ N) hs' ι' κ' σ2 out := by
    refine X3R.snocW X1 (by rw [hlenTake]; exact hltX) C2 (by rw [hlenTake]; exact F2)
      (a := BitVec.ofNat 64 (cfg.pc + 1 + 1 + instrCount c3))
      (v := addrOf c cs Apre.length) (by rw [hlenTake, hv2]) (fun h => absurd rfl h)
      (by rw [hB, hlenTake]) (by rw [hB]) (by rw [hB]) (by rw [hB]) ?_
    intro _ r hr
    rw [hlenTake] at hr ⊢
    exact hptr1 r hr
  have hgetB : ∀ t, t ≠ 2 * N + 1 → t < 281 → cB.temps.get t = cA.temps.get t := by
    intro t hne ht
    rw [hB]
    simp only
    rw [get_set_other _ _ hne, get_clobberTemp _ (by unfold Mock.T_TEMP; omega)]
  have hrootsB : roots (Γ.take N ++ [⟨x, .cns, ty⟩]) cB.temps =
      roots (Γ.take N) cA.temps ++ Sim2.rootOf cA.temps ⟨x, .cns, ty⟩ N := by
    rw [roots_snoc, hlenTake]
    congr 1
    · exact roots_congr _ _ _ (fun i hi => hgetB (2 * i) (by omega) (by rw [hlenTake] at hi; omega))
    · unfold Sim2.rootOf
      rw [hgetB (2 * N) (by omega) (by omega)]
  have hm2 : MSteps Pm c σ1 (pcOf hkf cs (kp + c0.length + cst.length)) out σ2
      (pcOf hkf cs (kp + c0.length + cst.length + 1 + (loadLabel (posTemp (2 * N + 1)) lbl).length)) out :=
    hkc.trans hk2
  refine ⟨cB, σ2, hs', ι', κ', _, ⟨cA, hsA, cB, hsB, rfl⟩, hk0.trans (hn1.trans hm2),
    by rw [show Γ.length - N = Γc.length by omega] at hfrM; exact hfrM,
    hout', hnx', R', ?_, kst + 1, k5X, c3X, h3X, ?_, ?_, cfg.pc + 1 + 1 + instrCount c3,
    addrOf c cs Apre.length, ?_, ?_, ?_, ?_⟩
  · show X3R c _ cB (roots _ cB.temps) hs' ι' κ' _ _
    rw [hrootsB]
    exact X2
  · have := hat2.right.left
    simp only [List.length_cons] at this
    rw [show kp + c0.length + cst.length + 1 + (loadLabel (posTemp (2 * N + 1)) lbl).length =
      kp + c0.length + cst.length + ((loadLabel (posTemp (2 * N + 1)) lbl).length + 1) by omega]
    exact this
  · -- what happened to the positions and the heap
    refine ⟨⟨fun t ht => ?_, fun i hi => ?_⟩, fields, hf, ?_⟩
    · rw [hgetB t (by omega) (by omega)]
      exact hlowM t ht
    · rw [mach_keep_frame F2 (by omega) (by omega), hmachM _ (by omega)]
    · rcases hobjM with ⟨h1, h2, h3', h4⟩ | ⟨h1, h2, h3', h4⟩
      · exact Or.inl ⟨h1, by rw [hB]; exact h2, h3', by rw [hgetB _ (by omega) (by omega)]; exact h4⟩
      · exact Or.inr ⟨h1, by rw [hB]; exact h2, h3', by rw [hgetB _ (by omega) (by omega)]; exact h4⟩
  · rw [hB]; simp only; exact get_set_same _ _ _
  · exact hv2
  · refine ⟨mangleTy ty ++ "_" ++ natRen (c0m + 1), k5, k6, c5, ?_, ?_⟩
    · simpa using h5
    · simp only [CodeAt]
      exact ⟨hlab, hat45'⟩
  · refine ⟨lbl, k5X, k6X, c5X, Apre.length, h5X, ?_, rfl⟩
    rw [hT]
    exact ⟨Apre, rest1, by rw [hcsL]; simp [List.append_assoc], rfl⟩

end Create3

end Scc.A64.Ref.K
