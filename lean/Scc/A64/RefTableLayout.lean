/-
  Scc.A64.RefTableLayout — the layout fact used by the jump-table theorems (JumpLemmas.lean), on ARBITRARY
  parsed lines: a label (not defined before) followed by `n ≥ 1` instruction lines yields `TableAt` in the
  laid-out program, whatever precedes and follows.  This is `C14_table_layout_statement` of
  Props/C14A64.lean (kept there as a `def : Prop`); proved here by a fold invariant of `layout`.
-/
import Scc.A64.JumpLemmas
import Scc.A64.CCProofsLayout

set_option linter.unusedVariables false
set_option linter.unusedSimpArgs false

namespace Scc.A64.Ref

open Scc.A64 Scc.A64.CC

theorem layout_offs' (ls : List (Nat × PLine)) : (layout ls).offs = (ls.foldl layStep {}).offs := rfl
theorem layout_entries' (ls : List (Nat × PLine)) : (layout ls).entries = (ls.foldl layStep {}).entries := rfl

/-- one offset per item -/
theorem layStep_size {acc : LayoutAcc} (h : acc.offs.size = acc.items.size) (x : Nat × PLine) :
    (layStep acc x).offs.size = (layStep acc x).items.size := by
  obtain ⟨ln, pl⟩ := x
  cases pl <;> simp [layStep, h]

theorem fold_size : ∀ (ls : List (Nat × PLine)) {acc : LayoutAcc}, acc.offs.size = acc.items.size →
    (ls.foldl layStep acc).offs.size = (ls.foldl layStep acc).items.size
  | [], _, h => h
  | x :: ls, _, h => by rw [List.foldl_cons]; exact fold_size ls (layStep_size h x)

/-- the code offset grows by at most 4 per line -/
theorem fold_off_le : ∀ (ls : List (Nat × PLine)) (acc : LayoutAcc),
    (ls.foldl layStep acc).off ≤ acc.off + 4 * ls.length
  | [], _ => by simp
  | (ln, pl) :: ls, acc => by
    rw [List.foldl_cons]
    have := fold_off_le ls (layStep acc (ln, pl))
    have h1 : (layStep acc (ln, pl)).off ≤ acc.off + 4 := by cases pl <;> simp [layStep]
    simp only [List.length_cons]
    omega

/-- lines without the label do not define it -/
theorem fold_nolabel (l : String) : ∀ (ls : List (Nat × PLine)) (acc : LayoutAcc),
    acc.labels[l]? = none → (∀ q ∈ ls, q.2 ≠ .label l) → (ls.foldl layStep acc).labels[l]? = none
  | [], _, h, _ => h
  | (ln, pl) :: ls, acc, h, hq => by
    rw [List.foldl_cons]
    apply fold_nolabel l ls _ _ (fun q hm => hq q (by simp [hm]))
    have hne : pl ≠ .label l := hq (ln, pl) (by simp)
    cases pl <;> try (simpa [layStep] using h)
    case label l' =>
      have hll : ¬ l' = l := fun e => hne (by rw [e])
      simp only [layStep]
      split
      · exact h
      · rw [Std.HashMap.getElem?_insert]
        have : (l' == l) = false := by simpa using hll
        simp [this, h]

/-- the established table: preserved by every further line -/
structure Tab (l : String) (j o n : Nat) (acc : LayoutAcc) : Prop where
  size : acc.offs.size = acc.items.size
  label : acc.labels[l]? = some j
  inRange : j < acc.items.size
  offs : acc.offs[j]? = some o
  entries : ∀ k, k < n → acc.entries[o + 4 * k]? = some (j + k)
  off : o + 4 * n ≤ acc.off

theorem Tab.step {l : String} {j o n : Nat} {acc : LayoutAcc} (T : Tab l j o n acc) (x : Nat × PLine) :
    Tab l j o n (layStep acc x) := by
  obtain ⟨ln, pl⟩ := x
  have hsz := T.size
  have hin := T.inRange
  cases pl with
  | blank => exact T
  | comment => exact T
  | directive => exact T
  | label l' =>
    refine ⟨T.size, ?_, T.inRange, T.offs, T.entries, T.off⟩
    simp only [layStep]
    split
    · exact T.label
    · next hc =>
      rw [Std.HashMap.getElem?_insert]
      have : (l' == l) = false := by
        cases hb : (l' == l) with
        | false => rfl
        | true =>
          exfalso
          have e : l' = l := by simpa using hb
          apply hc
          rw [e, Std.HashMap.contains_eq_isSome_getElem?, T.label]
          rfl
      simp [this, T.label]
  | hook vs =>
    refine ⟨layStep_size T.size _, T.label, by simp [layStep]; omega, ?_, T.entries, T.off⟩
    simp only [layStep]
    rw [Array.getElem?_push]
    have : ¬ j = acc.offs.size := by omega
    simp [this, T.offs]
  | instr i =>
    refine ⟨layStep_size T.size _, T.label, by simp [layStep]; omega, ?_, ?_, by
      have := T.off; simp only [layStep]; omega⟩
    · simp only [layStep]
      rw [Array.getElem?_push]
      have : ¬ j = acc.offs.size := by omega
      simp [this, T.offs]
    · intro k hk
      simp only [layStep]
      rw [Std.HashMap.getElem?_insert]
      have hoff := T.off
      have : (acc.off == o + 4 * k) = false := by simp; omega
      simp [this, T.entries k hk]

theorem Tab.fold {l : String} {j o n : Nat} : ∀ (ls : List (Nat × PLine)) {acc : LayoutAcc},
    Tab l j o n acc → Tab l j o n (ls.foldl layStep acc)
  | [], _, T => T
  | x :: ls, _, T => by rw [List.foldl_cons]; exact Tab.fold ls (T.step x)

/-- the table under construction: after the label and `m` of its instructions -/
structure TabP (l : String) (j o m : Nat) (acc : LayoutAcc) : Prop where
  size : acc.offs.size = acc.items.size
  isize : acc.items.size = j + m
  label : acc.labels[l]? = some j
  off : acc.off = o + 4 * m
  entry : acc.entry = if m = 0 then some j else none
  offs : 0 < m → acc.offs[j]? = some o
  entries : ∀ k, k < m → acc.entries[o + 4 * k]? = some (j + k)

theorem TabP.instr {l : String} {j o m : Nat} {acc : LayoutAcc} (T : TabP l j o m acc) (ln : Nat) (i : Instr) :
    TabP l j o (m + 1) (layStep acc (ln, .instr i)) := by
  have hsz := T.size
  have his := T.isize
  have hoff := T.off
  refine ⟨layStep_size T.size _, by simp [layStep]; omega, T.label, by simp only [layStep]; omega, by simp [layStep],
    ?_, ?_⟩
  · intro _
    simp only [layStep]
    rw [Array.getElem?_push]
    by_cases hm : m = 0
    · subst hm
      have : j = acc.offs.size := by omega
      simp [this]
      omega
    · have : ¬ j = acc.offs.size := by omega
      simp [this, T.offs (by omega)]
  · intro k hk
    simp only [layStep]
    rw [Std.HashMap.getElem?_insert]
    by_cases hkm : k = m
    · subst hkm
      have : (acc.off == o + 4 * k) = true := by simp; omega
      simp only [this, if_true]
      rw [T.entry]
      by_cases h0 : k = 0
      · subst h0; simp
      · simp [h0]; omega
    · have : (acc.off == o + 4 * k) = false := by simp; omega
      simp [this, T.entries k (by omega)]

theorem TabP.fold {l : String} {j o : Nat} : ∀ (es : List (Nat × Instr)) {m : Nat} {acc : LayoutAcc},
    TabP l j o m acc → TabP l j o (m + es.length) ((es.map fun e => (e.1, PLine.instr e.2)).foldl layStep acc)
  | [], _, _, T => by simpa using T
  | e :: es, m, _, T => by
    rw [List.map_cons, List.foldl_cons]
    have := TabP.fold es (T.instr e.1 e.2)
    rw [List.length_cons, show m + (es.length + 1) = m + 1 + es.length by omega]
    exact this

/-- THE LAYOUT FACT: a fresh label followed by `n ≥ 1` instruction lines is a jump table -/
theorem table_layout (pre post : List (Nat × PLine)) (ln : Nat) (l : String) (entries : List (Nat × Instr))
    (c : MemCfg) (hpre : ∀ q ∈ pre, q.2 ≠ .label l) (hne : entries ≠ [])
    (hfit : c.codeBase + 4 * (pre.length + entries.length + post.length) < 2 ^ 64) :
    ∃ j, TableAt (layout (pre ++ [(ln, .label l)] ++ entries.map (fun e => (e.1, .instr e.2)) ++ post)) c l j
      entries.length := by
  -- after `pre`
  have hsz0 : (pre.foldl layStep {}).offs.size = (pre.foldl layStep {}).items.size := fold_size pre rfl
  have hnl : (pre.foldl layStep {}).labels[l]? = none := fold_nolabel l pre {} (by simp) hpre
  have hoff0 := fold_off_le pre {}
  generalize hacc0 : pre.foldl layStep {} = acc0 at hsz0 hnl hoff0
  -- the label
  have T0 : TabP l acc0.items.size acc0.off 0 (layStep acc0 (ln, .label l)) := by
    refine ⟨hsz0, rfl, ?_, rfl, rfl, fun h => absurd h (by omega), fun k hk => absurd hk (by omega)⟩
    simp only [layStep]
    have : acc0.labels.contains l = false := by
      rw [Std.HashMap.contains_eq_isSome_getElem?, hnl]; rfl
    simp [this]
  -- the table
  have T1 := TabP.fold entries T0
  have hn : 0 < entries.length := List.length_pos_iff.mpr hne
  rw [Nat.zero_add] at T1
  have T2 : Tab l acc0.items.size acc0.off entries.length
      ((entries.map fun e => (e.1, PLine.instr e.2)).foldl layStep (layStep acc0 (ln, .label l))) :=
    ⟨T1.size, T1.label, by rw [T1.isize]; omega, T1.offs hn, T1.entries, by rw [T1.off]; omega⟩
  -- the rest
  have T3 := Tab.fold post T2
  have hfold : (pre ++ [(ln, PLine.label l)] ++ entries.map (fun e => (e.1, PLine.instr e.2)) ++ post).foldl
      layStep {} = post.foldl layStep ((entries.map fun e => (e.1, PLine.instr e.2)).foldl layStep
        (layStep acc0 (ln, .label l))) := by
    rw [List.foldl_append, List.foldl_append, List.foldl_append, hacc0]
    rfl
  have hgetD : (layout (pre ++ [(ln, PLine.label l)] ++ entries.map (fun e => (e.1, PLine.instr e.2)) ++
      post)).offs.getD acc0.items.size 0 = acc0.off := by
    rw [layout_offs', hfold]
    have := T3.offs
    simp [Array.getD_eq_getD_getElem?, this]
  refine ⟨acc0.items.size, ?_, ?_, ?_, ?_⟩
  · rw [layout_labels', hfold]; exact T3.label
  · rw [layout_items', hfold]; exact T3.inRange
  · intro k hk
    rw [hgetD, layout_entries', hfold]
    exact T3.entries k hk
  · rw [hgetD]
    simp only [LayoutAcc.off] at hoff0
    have : ({} : LayoutAcc).off = 0 := rfl
    omega

end Scc.A64.Ref

