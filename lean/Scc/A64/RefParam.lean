/-
  Scc.A64.RefParam — the code generated with the AArch64 backend RENDERS the code generated with the mock
  backend: for an integer statement `s` (lit op print ifc exit call subst on `ext` contexts) that is
  linearly typed, whenever the generic generator instantiated with `a64Backend` succeeds (no "Out of
  temporaries"), the generator instantiated with `mockSym` succeeds from the same label counter, ends with
  the same counter, and the two code lists are related by `Seg` (RefDefs.lean): instruction by
  instruction, `t ↦ posTemp t`, with the side conditions of the per-instruction simulation (`OpRel`).
  Parallel moves: the spanning forests correspond under `posTemp` (the backend-parametric part of
  Scc/X86/RefPM.lean); the saved value of a cycle always lives in TEMP (`storeTemporary` ignores the
  spill flag, `mov` uses TEMP2 for a spill-to-spill move).
-/
import Scc.X86.RefPM
import Scc.X86.ProofsWfProg
import Scc.A64.RefDefs
import Scc.Props.C06Generic

set_option linter.unusedVariables false
set_option linter.unusedSimpArgs false

namespace Scc.A64.Ref

open Scc.AxCut Scc.Backend Scc.Backend.Abs Scc.Backend.Sim Scc.A64
open Scc.Props.C06Generic (IntStmt IntCtx IntProg)
open Scc.X86 (TreeOK TreesOK RootOK PmOK ConnsOK)
open Scc.X86.Ref (TempMap mapT mapTs mapR mapPM)

/-! ## `posTemp` preserves order and equality -/

theorem tempLt_posTemp (a b : Nat) : tempLt (posTemp a) (posTemp b) = decide (a < b) := by
  unfold posTemp
  by_cases h1 : a + 4 < 30 <;> by_cases h2 : b + 4 < 30 <;>
    simp only [h1, h2, if_true, if_false, tempLt, Temporary.rank, Register.rank]
  · simp
  · simp; omega
  · simp; omega
  · simp; omega

theorem tempMap_posTemp : TempMap mockSym a64Backend posTemp where
  lt := fun a b => by
    show tempLt (posTemp a) (posTemp b) = decide (a < b)
    exact tempLt_posTemp a b
  eq := fun a b => by
    show (posTemp a == posTemp b) = (a == b)
    by_cases h : a = b
    · subst h; simp
    · have : posTemp a ≠ posTemp b := fun e => h (posTemp_inj.1 e)
      rw [beq_eq_false_iff_ne.mpr this, beq_eq_false_iff_ne.mpr h]

/-! ## the moves of a tree -/

/-- mode after the moves of a tree -/
def afterTree (back : Bool) (g : Mode) : Mode := if back then .pm else g

mutual
  theorem seg_treeMoves (b : Bool) (parent : Nat) (hp : PosW parent) : ∀ (tr : Tree Nat) (g : Mode),
      (g = .normal ∨ g = .pm) → TreeOK PosW tr →
      Seg g (treeMoves mockSym parent false tr) (treeMoves a64Backend (posTemp parent) b (mapT posTemp tr))
        (afterTree (Tree.refersBack tr) g)
    | .backEdge, g, hg, _ => by
      simp only [treeMoves, mapT, Tree.refersBack, afterTree, if_true]
      exact Seg.single (show OpRel g (.save parent false) (storeTemporary (posTemp parent) b) .pm from
        ⟨b, rfl, hp, hg, rfl⟩)
    | .node target kids, g, hg, hw => by
      simp only [treeMoves, mapT, Tree.refersBack]
      have hk := seg_treeMovesList b target hw.1 kids g hg hw.2
      refine Seg.append hk (Seg.single ?_)
      show OpRel _ (.mov target parent) (mov (posTemp target) (posTemp parent)) _
      exact Or.inr ⟨hw.1, hp, rfl, rfl⟩
  theorem seg_treeMovesList (b : Bool) (parent : Nat) (hp : PosW parent) :
      ∀ (l : List (Tree Nat)) (g : Mode),
      (g = .normal ∨ g = .pm) → TreesOK PosW l →
      Seg g (treeMovesList mockSym parent false l)
        (treeMovesList a64Backend (posTemp parent) b (mapTs posTemp l))
        (afterTree (Tree.anyRefersBack l) g)
    | [], g, _, _ => by
      simp only [treeMovesList, mapTs, Tree.anyRefersBack, afterTree]
      exact Seg.nil g
    | k :: ks, g, hg, hw => by
      simp only [treeMovesList, mapTs, Tree.anyRefersBack]
      have h1 := seg_treeMoves b parent hp k g hg hw.1
      have hg1 : afterTree (Tree.refersBack k) g = .normal ∨ afterTree (Tree.refersBack k) g = .pm := by
        unfold afterTree; split
        · exact Or.inr rfl
        · exact hg
      have h2 := seg_treeMovesList b parent hp ks _ hg1 hw.2
      have := Seg.append h1 h2
      have e : afterTree (Tree.anyRefersBack ks) (afterTree (Tree.refersBack k) g) =
          afterTree (Tree.refersBack k || Tree.anyRefersBack ks) g := by
        unfold afterTree
        cases Tree.refersBack k <;> cases Tree.anyRefersBack ks <;> simp
      rw [e] at this
      exact this
end

theorem seg_rootMoves (r : Root Nat) (hw : RootOK PosW r) :
    Seg .normal (rootMoves mockSym r) (rootMoves a64Backend (mapR posTemp r)) .normal := by
  cases r with
  | startNode t kids =>
    simp only [rootMoves, mapR, mockSym_containsSpillEdge, Scc.X86.Ref.anyRefersBack_map]
    generalize a64Backend.containsSpillEdge (Root.startNode (posTemp t) (mapTs posTemp kids)) = b
    have hk := seg_treeMovesList b t hw.1 kids .normal (Or.inl rfl) hw.2
    refine Seg.append hk ?_
    by_cases hr : Tree.anyRefersBack kids = true
    · simp only [hr, if_true, afterTree]
      exact Seg.single (show OpRel .pm (.restore t false) (restoreTemporary (posTemp t) b) .normal from
        ⟨b, rfl, hw.1, rfl, rfl⟩)
    · simp only [hr, afterTree, if_false, Bool.false_eq_true]
      exact Seg.nil _

theorem seg_flatten_rootMoves : ∀ (forest : List (Root Nat)), (∀ r ∈ forest, RootOK PosW r) →
    Seg .normal (forest.map (rootMoves mockSym)).flatten
      ((forest.map (mapR posTemp)).map (rootMoves a64Backend)).flatten .normal
  | [], _ => Seg.nil _
  | r :: rs, h => by
    simp only [List.map_cons, List.flatten_cons]
    exact Seg.append (seg_rootMoves r (h r (by simp)))
      (seg_flatten_rootMoves rs (fun x hx => h x (by simp [hx])))

/-! ## `parallel_moves` -/

theorem seg_parallelMoves (pm : List (Nat × List Nat)) (hk : ∀ e ∈ pm, PosW e.1) (hpm : PmOK PosW pm)
    {code : List Code} (h : parallelMoves a64Backend (mapPM posTemp pm) = .ok code) :
    ∃ ops, parallelMoves mockSym pm = .ok ops ∧ Seg .normal ops code .normal := by
  unfold parallelMoves at h ⊢
  rw [Scc.X86.Ref.spanningForest_map tempMap_posTemp] at h
  cases hf : spanningForest mockSym pm with
  | error e => rw [hf] at h; simp [Except.map] at h
  | ok forest =>
    rw [hf] at h
    simp only [Except.map, Except.ok.injEq] at h
    have hroots : ∀ r ∈ forest, RootOK PosW r := by
      unfold spanningForest at hf
      exact Scc.X86.spanningForestLoop_ok (B := mockSym) _ _ _ forest
        (fun k hk' => by
          obtain ⟨e, he, rfl⟩ := List.mem_map.1 hk'
          exact hk e he) hpm hf
    refine ⟨_, rfl, ?_⟩
    rw [← h]
    have hall : (forest.map (mapR posTemp)).all Root.noTargets = forest.all Root.noTargets := by
      rw [List.all_map]
      congr 1
      funext r
      exact Scc.X86.Ref.noTargets_map r
    rw [hall]
    refine Seg.append ?_ (seg_flatten_rootMoves forest hroots)
    split
    · exact Seg.single (show OpRel .normal (.comment "#move variables") [.COMMENT "#move variables"] .normal
        from ⟨rfl, rfl⟩)
    · exact Seg.nil _

/-! ## runs of the AArch64 `variable_temporary` -/

theorem getPosition_go (id : Nat) : ∀ (Γ : Ctx) (k : Nat),
    getPosition.go id Γ k = (Γ.findIdx? (fun b => b.var.id == id)).map (· + k)
  | [], k => rfl
  | b :: bs, k => by
    simp only [getPosition.go, List.findIdx?_cons]
    by_cases h : (b.var.id == id) = true
    · simp [h]
    · simp only [h, if_false, Bool.false_eq_true]
      rw [getPosition_go id bs (k + 1)]
      cases List.findIdx? (fun b => b.var.id == id) bs <;> simp [Nat.add_assoc, Nat.add_comm 1]

theorem getPosition_eq_posOf (Γ : Ctx) (id : Nat) : getPosition Γ id = Pos.posOf Γ id := by
  unfold Pos.posOf getPosition
  rw [getPosition_go]
  cases List.findIdx? (fun b => b.var.id == id) Γ <;> simp

theorem tfp_ok {n c c' : Nat} {t : Temporary} (h : (temporaryFromPosition n).run c = .ok (t, c')) :
    n < 281 ∧ t = posTemp n ∧ c' = c := by
  by_cases hn : n < 281
  · rw [temporaryFromPosition_eq hn] at h
    simp only [run_pure_ok] at h
    exact ⟨hn, h.1.symm, h.2.symm⟩
  · exfalso
    unfold temporaryFromPosition at h
    simp only [RESERVED_eq, REGISTER_NUM_eq, RESERVED_SPILLS_eq, SPILL_NUM_eq] at h
    rw [if_neg (by omega), if_neg (by omega)] at h
    exact (run_throw_ok _ _ _ _).1 h

/-- the mock run that corresponds to a successful AArch64 run of `variable_temporary` -/
theorem vt_rel {num : TempNum} {ctx : Ctx} {id : Nat} {c : Nat} {t : Temporary} {c' : Nat}
    (h : (a64Backend.variableTemporary num ctx id).run c = .ok (t, c')) :
    ∃ pos, Pos.posOf ctx id = some pos ∧ 2 * pos + num.toNat < 281 ∧ t = posTemp (2 * pos + num.toNat) ∧
      c' = c ∧ (mockSym.variableTemporary num ctx id).run c = .ok (2 * pos + num.toNat, c) := by
  have h' : (variableTemporary num ctx id).run c = .ok (t, c') := h
  unfold variableTemporary at h'
  rw [getPosition_eq_posOf] at h'
  cases hp : Pos.posOf ctx id with
  | none => rw [hp] at h'; exact ((run_throw_ok _ _ _ _).1 h').elim
  | some pos =>
    rw [hp] at h'
    obtain ⟨hlt, rfl, rfl⟩ := tfp_ok h'
    refine ⟨pos, rfl, hlt, rfl, rfl, ?_⟩
    rw [mockSym_variableTemporary, vt_run_ok]
    exact ⟨pos, by rw [ctxPosition_eq_posOf]; exact hp, rfl, rfl⟩

theorem posW_snd {pos : Nat} (h : 2 * pos + TempNum.snd.toNat < 281) : PosW (2 * pos + TempNum.snd.toNat) := by
  simp only [TempNum.toNat] at h ⊢
  exact ⟨by omega, h⟩

theorem mapMGen_vt_rel (ctx : Ctx) : ∀ (ids : List Nat) (c : Nat) (ts : List Temporary) (c' : Nat),
    (mapMGen (fun id => a64Backend.variableTemporary .snd ctx id) ids).run c = .ok (ts, c') →
    ∃ tsM, (mapMGen (fun id => mockSym.variableTemporary .snd ctx id) ids).run c = .ok (tsM, c) ∧
      ts = tsM.map posTemp ∧ c' = c ∧ ∀ t ∈ tsM, PosW t
  | [], c, ts, c', h => by
    simp only [mapMGen, run_pure_ok] at h
    obtain ⟨rfl, rfl⟩ := h
    exact ⟨[], rfl, rfl, rfl, by simp⟩
  | id :: rest, c, ts, c', h => by
    simp only [mapMGen, run_bind_ok, run_pure_ok] at h
    obtain ⟨t, c1, h1, bs, c2, h2, rfl, rfl⟩ := h
    obtain ⟨pos, hp, hlt, rfl, rfl, hm⟩ := vt_rel h1
    obtain ⟨tsM, hM, rfl, rfl, hw⟩ := mapMGen_vt_rel ctx rest _ _ _ h2
    refine ⟨(2 * pos + TempNum.snd.toNat) :: tsM, ?_, rfl, rfl, ?_⟩
    · simp only [mapMGen, run_bind_ok, run_pure_ok]
      exact ⟨_, _, hm, _, _, hM, rfl, rfl⟩
    · intro t ht
      simp only [List.mem_cons] at ht
      rcases ht with rfl | ht
      · exact posW_snd hlt
      · exact hw t ht

theorem mem_setOfList_mock {ts : List Nat} (h : ∀ t ∈ ts, PosW t) : ∀ t ∈ setOfList mockSym ts, PosW t :=
  Scc.X86.mem_setOfList (B := mockSym) (TOK := PosW) h

theorem connections_go_rel (Γ newΓ : Ctx) : ∀ (tm : List (Binding × List Nat))
    (accM : List (Nat × List Nat)) (c : Nat) (connsX : List (Temporary × List Temporary)) (c' : Nat),
    (∀ e ∈ tm, e.1.chi = .ext) → ConnsOK PosW accM →
    (connections.go a64Backend Γ newΓ tm (mapPM posTemp accM)).run c = .ok (connsX, c') →
    ∃ connsM, (connections.go mockSym Γ newΓ tm accM).run c = .ok (connsM, c) ∧
      connsX = mapPM posTemp connsM ∧ c' = c ∧ ConnsOK PosW connsM
  | [], accM, c, connsX, c', _, hacc, h => by
    simp only [connections.go, run_pure_ok] at h
    obtain ⟨rfl, rfl⟩ := h
    exact ⟨accM, rfl, rfl, rfl, hacc⟩
  | (b, targets) :: rest, accM, c, connsX, c', hext, hacc, h => by
    have hb : b.chi = .ext := hext (b, targets) (by simp)
    have hbe : (b.chi == Chi.ext) = true := by rw [hb]; decide
    unfold connections.go at h ⊢
    simp only [hbe, if_true, run_bind_ok] at h ⊢
    obtain ⟨k, c1, h1, ts, c2, h2, h3⟩ := h
    obtain ⟨pos, hp, hlt, rfl, rfl, hm⟩ := vt_rel h1
    obtain ⟨tsM, hM, rfl, rfl, hw⟩ := mapMGen_vt_rel newΓ targets _ _ _ h2
    rw [Scc.X86.Ref.setOfList_map tempMap_posTemp, Scc.X86.Ref.mapInsert_map tempMap_posTemp] at h3
    obtain ⟨connsM, hgo, e1, e2, hok⟩ := connections_go_rel Γ newΓ rest _ _ _ _
      (fun e he => hext e (by simp [he]))
      (Scc.X86.mem_mapInsert _ _ _ (QK := PosW) (QV := fun l => ∀ t ∈ l, PosW t) (posW_snd hlt)
        (mem_setOfList_mock hw) accM hacc) h3
    exact ⟨connsM, ⟨_, _, hm, _, _, hM, hgo⟩, e1, e2, hok⟩

/-- `code_exchange` -/
theorem seg_codeExchange (tm : List (Binding × List Nat)) (Γ newΓ : Ctx) (hext : ∀ e ∈ tm, e.1.chi = .ext)
    {c : Nat} {code : List Code} {c' : Nat}
    (h : (codeExchange a64Backend tm Γ newΓ).run c = .ok (code, c')) :
    ∃ ops, (codeExchange mockSym tm Γ newΓ).run c = .ok (ops, c') ∧ Seg .normal ops code .normal := by
  unfold codeExchange connections at h ⊢
  simp only [run_bind_ok] at h ⊢
  obtain ⟨connsX, c1, h1, h2⟩ := h
  obtain ⟨connsM, hgo, rfl, rfl, hok⟩ := connections_go_rel Γ newΓ tm [] c connsX c1 hext
    (fun _ h => by simp at h) h1
  cases hpm : parallelMoves a64Backend (mapPM posTemp connsM) with
  | error e => rw [hpm] at h2; exact ((run_throw_ok _ _ _ _).1 h2).elim
  | ok code' =>
    rw [hpm] at h2
    simp only [run_pure_ok] at h2
    obtain ⟨rfl, rfl⟩ := h2
    obtain ⟨ops, hops, S⟩ := seg_parallelMoves connsM (fun e he => (hok e he).1) (fun e he => (hok e he).2) hpm
    refine ⟨ops, ⟨connsM, _, hgo, ?_⟩, S⟩
    rw [hops]
    rfl

/-- `code_weakening_contraction` emits nothing on `ext` contexts -/
theorem a64_cwc_all_ext (Γ : Ctx) : ∀ (tm : List (Binding × List Nat)) (c : Nat) (code : List Code)
    (c' : Nat), (∀ e ∈ tm, e.1.chi = .ext) →
    (codeWeakeningContraction a64Backend tm Γ).run c = .ok (code, c') → code = [] ∧ c = c'
  | [], c, code, c', _, h => by
    simp only [codeWeakeningContraction, run_pure_ok] at h
    exact ⟨h.1.symm, h.2⟩
  | (b, targets) :: rest, c, code, c', hext, h => by
    have hb : b.chi = .ext := hext (b, targets) (by simp)
    have hbe : (b.chi != Chi.ext) = false := by rw [hb]; decide
    unfold codeWeakeningContraction at h
    simp only [hbe, Bool.false_eq_true, if_false, run_bind_ok, run_pure_ok] at h
    obtain ⟨c0, k0, ⟨rfl, rfl⟩, c1, k1, h1, rfl, rfl⟩ := h
    obtain ⟨e1, e2⟩ := a64_cwc_all_ext Γ rest _ _ _ (fun e he => hext e (by simp [he])) h1
    subst e1 e2
    simp

theorem mock_cwc_all_ext (Γ : Ctx) : ∀ (tm : List (Binding × List Nat)) (c : Nat),
    (∀ e ∈ tm, e.1.chi = .ext) →
    (codeWeakeningContraction mockSym tm Γ).run c = .ok ([], c)
  | [], c, _ => rfl
  | (b, targets) :: rest, c, hext => by
    have hb : b.chi = .ext := hext (b, targets) (by simp)
    have hbe : (b.chi != Chi.ext) = false := by rw [hb]; decide
    unfold codeWeakeningContraction
    simp only [hbe, Bool.false_eq_true, if_false, run_bind_ok, run_pure_ok]
    exact ⟨[], c, ⟨rfl, rfl⟩, [], c, mock_cwc_all_ext Γ rest c (fun e he => hext e (by simp [he])), rfl, rfl⟩

/-! ## statements -/

theorem seg_hook (hooks : Bool) (Γ : Ctx) (g : Mode) :
    Seg g (hookCode mockSym hooks Γ) (hookCode a64Backend hooks Γ) g := by
  unfold hookCode
  cases hooks
  · exact Seg.nil g
  · exact Seg.single (show OpRel g (.comment _) [.COMMENT _] g from ⟨rfl, rfl⟩)

theorem seg_c0 (hooks : Bool) (Γ : Ctx) (m : String) :
    Seg .normal (hookCode mockSym hooks Γ ++ [mockSym.comment m])
      (hookCode a64Backend hooks Γ ++ [a64Backend.comment m]) .normal :=
  Seg.append (seg_hook hooks Γ .normal)
    (Seg.single (show OpRel .normal (.comment m) [.COMMENT m] .normal from ⟨rfl, rfl⟩))

theorem seg_codeStatement (hooks : Bool) (types : List TypeDecl) (sigs : Sigs) :
    ∀ (s : Stmt) (Γ : Ctx), LinTyped types sigs Γ s → IntStmt s → IntCtx Γ →
      ∀ (c : Nat) (body : List Code) (c' : Nat),
        (codeStatementR a64Backend hooks natRen types s Γ).run c = .ok (body, c') →
        ∃ ops, (codeStatementR mockSym hooks natRen types s Γ).run c = .ok (ops, c') ∧
          Seg .normal ops body .normal
  | .lit x n next fv, Γ, hty, hint, hctx, c, body, c', h => by
    cases hty with
    | lit _ hfr hnext =>
      simp only [codeStatementR, run_bind_ok, run_pure_ok] at h ⊢
      obtain ⟨t, c1, h1, c2code, c2, h2, rfl, rfl⟩ := h
      obtain ⟨pos, hp, hlt, rfl, rfl, hm⟩ := vt_rel h1
      obtain ⟨ops2, hm2, S2⟩ := seg_codeStatement hooks types sigs next _ hnext hint
        (Scc.Props.C06Generic.intCtx_snoc hctx _ rfl) _ _ _ h2
      refine ⟨_, ⟨_, _, hm, ops2, _, hm2, rfl, rfl⟩, ?_⟩
      refine Seg.append (Seg.append (seg_c0 hooks Γ _) (Seg.single ?_)) S2
      show OpRel .normal (.li _ n) (loadImmediate (posTemp _) n) .normal
      exact ⟨rfl, posW_snd hlt, rfl, rfl⟩
  | .op x a o b next fv, Γ, hty, hint, hctx, c, body, c', h => by
    cases hty with
    | op _ hva hvb hfr hnext =>
      simp only [codeStatementR, run_bind_ok, run_pure_ok] at h ⊢
      obtain ⟨t, c1, h1, s1, c2, h2, s2, c3, h3, c2code, c4, h4, rfl, rfl⟩ := h
      obtain ⟨pt, hpt, hlt, rfl, rfl, hm1⟩ := vt_rel h1
      obtain ⟨pa, hpa, hla, rfl, rfl, hm2⟩ := vt_rel h2
      obtain ⟨pb, hpb, hlb, rfl, rfl, hm3⟩ := vt_rel h3
      obtain ⟨ops2, hm4, S2⟩ := seg_codeStatement hooks types sigs next _ hnext hint
        (Scc.Props.C06Generic.intCtx_snoc hctx _ rfl) _ _ _ h4
      refine ⟨_, ⟨_, _, hm1, _, _, hm2, _, _, hm3, ops2, _, hm4, rfl, rfl⟩, ?_⟩
      refine Seg.append (Seg.append (seg_c0 hooks Γ _) (Seg.single ?_)) S2
      show OpRel .normal (.binop o _ _ _) (Scc.A64.op o (posTemp _) (posTemp _) (posTemp _)) .normal
      exact ⟨rfl, posW_snd hlt, posW_snd hla, posW_snd hlb, rfl, rfl⟩
  | .print nl a next fv, Γ, hty, hint, hctx, c, body, c', h => by
    cases hty with
    | print _ hva hnext =>
      simp only [codeStatementR, run_bind_ok, run_pure_ok] at h ⊢
      obtain ⟨t, c1, h1, c1code, c2, hpr, c2code, c3, h3, rfl, rfl⟩ := h
      obtain ⟨pa, hpa, hla, rfl, rfl, hm1⟩ := vt_rel h1
      have hpr' : c1code = printI64 nl (posTemp (2 * pa + TempNum.snd.toNat)) Γ ∧ c1 = c2 := by
        have : (a64Backend.printI64 nl (posTemp (2 * pa + TempNum.snd.toNat)) Γ).run c1 =
            .ok (printI64 nl (posTemp (2 * pa + TempNum.snd.toNat)) Γ, c1) := rfl
        rw [this] at hpr
        injection hpr with e; injection e with e1 e2
        exact ⟨e1.symm, e2⟩
      obtain ⟨rfl, rfl⟩ := hpr'
      obtain ⟨ops2, hm4, S2⟩ := seg_codeStatement hooks types sigs next _ hnext hint hctx _ _ _ h3
      refine ⟨_, ⟨_, _, hm1, [.print nl _ (Mock.kindsOf Γ)], _, rfl, ops2, _, hm4, rfl, rfl⟩, ?_⟩
      refine Seg.append (Seg.append (seg_c0 hooks Γ _) (Seg.single ?_)) S2
      show OpRel .normal (.print nl _ _) (printI64 nl (posTemp _) Γ) .normal
      have := posOf_lt hpa
      simp only [TempNum.toNat] at hla ⊢
      exact ⟨Γ, rfl, rfl, ⟨by omega, hla⟩, by omega, rfl, rfl⟩
  | .exit a, Γ, hty, hint, hctx, c, body, c', h => by
    simp only [codeStatementR, run_bind_ok, run_pure_ok] at h ⊢
    obtain ⟨t, c1, h1, rfl, rfl⟩ := h
    obtain ⟨pa, hpa, hla, rfl, rfl, hm1⟩ := vt_rel h1
    refine ⟨_, ⟨_, _, hm1, rfl, rfl⟩, ?_⟩
    refine Seg.append (Seg.append (seg_c0 hooks Γ _) (Seg.single (g' := .exit) ?_)) (Seg.single ?_)
    · show OpRel .normal (.mov Mock.T_RET1 _) (mov (.register RETURN1) (posTemp _)) .exit
      exact Or.inl ⟨rfl, posW_snd hla, rfl, rfl, rfl⟩
    · show OpRel .exit (.jumpLabel "cleanup") [.B "cleanup"] .normal
      exact ⟨rfl, rfl, Or.inr ⟨rfl, rfl⟩⟩
  | .call l args, Γ, hty, hint, hctx, c, body, c', h => by
    simp only [codeStatementR, run_pure_ok] at h ⊢
    obtain ⟨rfl, rfl⟩ := h
    refine ⟨_, ⟨rfl, rfl⟩, ?_⟩
    refine Seg.append (seg_c0 hooks Γ _) (Seg.single ?_)
    show OpRel .normal (.jumpLabel _) [.B _] .normal
    exact ⟨rfl, rfl, Or.inl rfl⟩
  | .ifc srt a b t e, Γ, hty, hint, hctx, c, body, c', h => by
    cases hty with
    | ifc _ hva hvb ht he =>
      simp only [IntStmt] at hint
      simp only [codeStatementR, run_bind_ok, run_pure_ok] at h ⊢
      obtain ⟨num, c1, hnum, c1code, c2, hc1, c2code, c3, h2, c3code, c4, h3, rfl, rfl⟩ := h
      obtain ⟨ops2, hm2, S2⟩ := seg_codeStatement hooks types sigs e _ he hint.2 hctx _ _ _ h2
      obtain ⟨ops3, hm3, S3⟩ := seg_codeStatement hooks types sigs t _ ht hint.1 hctx _ _ _ h3
      have key : ∃ ops1, (match b with
            | none => do
              let a ← mockSym.variableTemporary .snd Γ a.id
              pure (mockSym.jumpLabelIfZero srt a ("lab" ++ num))
            | some snd => do
              let a ← mockSym.variableTemporary .snd Γ a.id
              let b ← mockSym.variableTemporary .snd Γ snd.id
              pure (mockSym.jumpLabelIf srt a b ("lab" ++ num))).run c1 = .ok (ops1, c2) ∧
          Seg .normal ops1 c1code .normal := by
        cases b with
        | none =>
          simp only [run_bind_ok, run_pure_ok] at hc1 ⊢
          obtain ⟨ta, k1, h1, rfl, rfl⟩ := hc1
          obtain ⟨pa, hpa, hla, rfl, rfl, hm1⟩ := vt_rel h1
          refine ⟨_, ⟨_, _, hm1, rfl, rfl⟩, Seg.single ?_⟩
          show OpRel .normal (.jifz srt _ _) (jumpLabelIfZero srt (posTemp _) _) .normal
          exact ⟨rfl, posW_snd hla, rfl, rfl⟩
        | some b' =>
          simp only [run_bind_ok, run_pure_ok] at hc1 ⊢
          obtain ⟨ta, k1, h1, tb, k2, h2', rfl, rfl⟩ := hc1
          obtain ⟨pa, hpa, hla, rfl, rfl, hm1⟩ := vt_rel h1
          obtain ⟨pb, hpb, hlb, rfl, rfl, hm2'⟩ := vt_rel h2'
          refine ⟨_, ⟨_, _, hm1, _, _, hm2', rfl, rfl⟩, Seg.single ?_⟩
          show OpRel .normal (.jif srt _ _ _) (jumpLabelIf srt (posTemp _) (posTemp _) _) .normal
          exact ⟨rfl, posW_snd hla, posW_snd hlb, rfl, rfl⟩
      obtain ⟨ops1, hk1, S1⟩ := key
      refine ⟨_, ⟨num, c1, hnum, ops1, c2, hk1, ops2, c3, hm2, ops3, c4, hm3, rfl, rfl⟩, ?_⟩
      refine Seg.append (Seg.append (Seg.append (Seg.append (Seg.append (seg_c0 hooks Γ _) S1)
        (Seg.single ?_)) S2) ?_) S3
      · show OpRel .normal (.comment _) [.COMMENT _] .normal
        exact ⟨rfl, rfl⟩
      · have l1 : Seg .normal [MockOp.label ("lab" ++ num)] [Code.LAB ("lab" ++ num)] .normal :=
          Seg.single (show OpRel .normal (.label _) [.LAB _] .normal from ⟨rfl, rfl, rfl⟩)
        have l2 : Seg .normal [MockOp.comment "then branch"] [Code.COMMENT "then branch"] .normal :=
          Seg.single (show OpRel .normal (.comment _) [.COMMENT _] .normal from ⟨rfl, rfl⟩)
        exact Seg.append l1 l2
  | .subst pairs next, Γ, hty, hint, hctx, c, body, c', h => by
    cases hty with
    | subst hnd hhas hnew hnext =>
      simp only [IntStmt] at hint
      simp only [codeStatementR, run_bind_ok, run_pure_ok] at h ⊢
      obtain ⟨c1code, c1, hc1, c2code, c2, hc2, c3code, c3, h3, rfl, rfl⟩ := h
      have hext : ∀ e ∈ transpose pairs Γ, e.1.chi = .ext :=
        fun e he => hctx e.1 (Scc.Backend.Shape.transpose_keys_mem pairs Γ e he)
      obtain ⟨rfl, rfl⟩ := a64_cwc_all_ext Γ _ _ _ _ hext hc1
      obtain ⟨ops2, hm2, S2⟩ := seg_codeExchange _ Γ _ hext hc2
      have hctx' : IntCtx (pairs.map (·.1)) := by
        intro b hb'
        obtain ⟨p, hp, rfl⟩ := List.mem_map.mp hb'
        obtain ⟨b0, hb0, _, hchi, _⟩ := hhas p hp
        rw [← hchi]; exact hctx b0 hb0
      obtain ⟨ops3, hm3, S3⟩ := seg_codeStatement hooks types sigs next _ hnext hint hctx' _ _ _ h3
      refine ⟨_, ⟨[], c, mock_cwc_all_ext Γ _ c hext, ops2, c2, hm2, ops3, c3, hm3, rfl, rfl⟩, ?_⟩
      simp only [List.append_nil]
      exact Seg.append (Seg.append (seg_c0 hooks Γ _) S2) S3
  | .letS _ _ _ _ _ _, _, _, hint, _, _, _, _, _ => absurd hint (by simp [IntStmt])
  | .switch _ _ _ _, _, _, hint, _, _, _, _, _ => absurd hint (by simp [IntStmt])
  | .create _ _ _ _ _ _ _, _, _, hint, _, _, _, _, _ => absurd hint (by simp [IntStmt])
  | .invoke _ _ _ _, _, _, hint, _, _, _, _, _ => absurd hint (by simp [IntStmt])

/-! ## programs -/

def SegBlocks : List (List MockOp) → List (List Code) → Prop
  | [], [] => True
  | a :: as, b :: bs => Seg .normal a b .normal ∧ SegBlocks as bs
  | _, _ => False

theorem seg_translate (hooks : Bool) (types : List TypeDecl) (sigs : Sigs) :
    ∀ (defs : List Def), (∀ d ∈ defs, LinTyped types sigs d.ctx d.body) →
      (∀ d ∈ defs, IntCtx d.ctx ∧ IntStmt d.body) →
      ∀ (c : Nat) (blocks : List (List Code)) (c' : Nat),
        (translateR a64Backend hooks natRen types defs).run c = .ok (blocks, c') →
        ∃ blocksM, (translateR mockSym hooks natRen types defs).run c = .ok (blocksM, c') ∧
          SegBlocks blocksM blocks
  | [], _, _, c, blocks, c', h => by
    simp only [translateR, run_pure_ok] at h ⊢
    obtain ⟨rfl, rfl⟩ := h
    exact ⟨[], ⟨rfl, rfl⟩, trivial⟩
  | d :: ds, hty, hint, c, blocks, c', h => by
    simp only [translateR, run_bind_ok, run_pure_ok] at h ⊢
    obtain ⟨is, c1, h1, rest, c2, h2, rfl, rfl⟩ := h
    obtain ⟨ops, hm1, S1⟩ := seg_codeStatement hooks types sigs d.body d.ctx (hty d (by simp))
      (hint d (by simp)).2 (hint d (by simp)).1 _ _ _ h1
    obtain ⟨restM, hm2, S2⟩ := seg_translate hooks types sigs ds (fun x hx => hty x (by simp [hx]))
      (fun x hx => hint x (by simp [hx])) _ _ _ h2
    exact ⟨ops :: restM, ⟨ops, c1, hm1, restM, c2, hm2, rfl, rfl⟩, S1, S2⟩

theorem seg_assemble : ∀ (blocksM : List (List MockOp)) (blocks : List (List Code)) (names : List Ident),
    SegBlocks blocksM blocks →
    Seg .normal (assemble mockSym blocksM names) (assemble a64Backend blocks names) .normal
  | [], [], _, _ => by simp only [assemble]; exact Seg.nil _
  | [], _ :: _, _, h => by simp [SegBlocks] at h
  | _ :: _, [], _, h => by simp [SegBlocks] at h
  | a :: as, b :: bs, [], _ => by simp only [assemble]; exact Seg.nil _
  | a :: as, b :: bs, n :: ns, h => by
    simp only [assemble]
    exact Seg.cons (blk := [Code.LAB (n.print ++ "_")])
      (show OpRel .normal (.label _) [.LAB _] .normal from ⟨rfl, rfl, rfl⟩)
      (Seg.append h.1 (seg_assemble as bs ns h.2))

/-- THE RENDERING THEOREM: whenever the AArch64 code generator succeeds on a linearly typed integer
    program, the mock code generator succeeds from the same counter, and the AArch64 body is the rendering
    (`Seg`) of the mock code -/
theorem seg_compile (hooks : Bool) (p : AxCut.Prog) (htp : LinTypedProg p) (hip : IntProg p)
    {c : Nat} {body : List Code} {nargs c1 : Nat}
    (h : (compile a64Backend hooks p).run c = .ok ((body, nargs), c1)) :
    ∃ ops, (compile mockSym hooks p).run c = .ok ((ops, nargs), c1) ∧ Seg .normal ops body .normal := by
  unfold compile compileR at h ⊢
  cases hd : p.defs with
  | nil => rw [hd] at h; exact ((run_throw_ok _ _ _ _).1 h).elim
  | cons d0 ds =>
    rw [hd] at h
    simp only [run_bind_ok, run_pure_ok] at h ⊢
    obtain ⟨blocks, c2, h1, e1, rfl⟩ := h
    injection e1 with e1 e2
    obtain ⟨blocksM, hm, S⟩ := seg_translate hooks p.types p.sigs (d0 :: ds)
      (by rw [← hd]; exact htp) (by rw [← hd]; exact hip) _ _ _ h1
    refine ⟨_, ⟨blocksM, c2, hm, by rw [← e2], rfl⟩, ?_⟩
    rw [← e1]
    exact seg_assemble _ _ _ S

end Scc.A64.Ref
