/-
  Scc.A64.WfMemory — proof file for C14: the instructions emitted by memory.rs (`erase_block`,
  `share_block_n`, `acquire_block`, `store`, `load` with all their helpers) have encodable operands,
  for EVERY context.  The functions live in the generator monad `GenM` (fresh labels, panics);
  `GenAll P m` = every successful run of `m` yields a result satisfying `P`.
-/
import Scc.A64.WfLemmas

set_option linter.unusedSimpArgs false

namespace Scc.A64
open Scc.AxCut
open Scc.Backend (GenM freshLabel TempNum)

/-- every successful run of the generator yields a result satisfying `P` -/
def GenAll {α : Type} (P : α → Prop) (m : GenM α) : Prop :=
  ∀ s a s', m.run s = .ok (a, s') → P a

theorem GenAll_pure {α : Type} {P : α → Prop} {a : α} (h : P a) : GenAll P (pure a : GenM α) := by
  intro s a' s' hr
  simp [StateT.run, pure, StateT.pure, Except.pure] at hr
  rw [← hr.1]; exact h

theorem GenAll_bind {α β : Type} {P : β → Prop} (Q : α → Prop) {m : GenM α} {f : α → GenM β}
    (hm : GenAll Q m) (hf : ∀ a, Q a → GenAll P (f a)) : GenAll P (m >>= f) := by
  intro s b s' hr
  simp only [StateT.run, bind, StateT.bind, Except.bind] at hr
  cases hx : m s with
  | error e => simp [hx] at hr
  | ok p =>
    obtain ⟨a, s1⟩ := p
    simp only [hx] at hr
    exact hf a (hm s a s1 hx) s1 b s' hr

theorem GenAll_throw {α : Type} {P : α → Prop} (e : String) : GenAll P (throw e : GenM α) := by
  intro s a s' hr
  simp [StateT.run, throw, throwThe, MonadExceptOf.throw, StateT.lift, Except.bind, bind] at hr

theorem GenAll_true {α : Type} (m : GenM α) : GenAll (fun _ => True) m := fun _ _ _ _ => trivial

abbrev GenWf (m : GenM (List Code)) : Prop := GenAll (fun cs => allWf cs = true) m

theorem wf_skipIfZero (r : Nat) (hr : r < 30) (toSkip : List Code) (h : allWf toSkip = true) :
    GenWf (skipIfZero (.x r) toSkip) := by
  unfold skipIfZero
  refine GenAll_bind (fun _ => True) (GenAll_true _) (fun n _ => GenAll_pure ?_)
  simp only [allWf_append, h, allWf_cons, allWf_nil, wf_CMPI hr 0 (by decide), wf_LAB, Bool.and_true, Bool.true_and]
  rfl

theorem wf_ifZeroThenElse (r : Nat) (hr : r < 30) (a b : List Code) (ha : allWf a = true) (hb : allWf b = true) :
    GenWf (ifZeroThenElse (.x r) a b) := by
  unfold ifZeroThenElse
  refine GenAll_bind (fun _ => True) (GenAll_true _) (fun n1 _ =>
    GenAll_bind (fun _ => True) (GenAll_true _) (fun n2 _ => GenAll_pure ?_))
  simp only [allWf_append, ha, hb, allWf_cons, allWf_nil, wf_CMPI hr 0 (by decide), wf_LAB, wf_B, Bool.and_true, Bool.true_and]
  rfl

theorem okOff_small (i : Int) (h0 : 0 ≤ i) (h1 : i ≤ 64) (h8 : i % 8 = 0) : okOff i = true := by
  have a : i ≤ 32760 := by omega
  simp [okOff, h0, a, h8]

theorem wf_eraseValidObject (r : Nat) (hr : r < 30) : GenWf (eraseValidObject (.x r)) := by
  unfold eraseValidObject
  have h1 : (1 : Nat) < 30 := by decide
  have h3 : (3 : Nat) < 30 := by decide
  refine wf_ifZeroThenElse 3 h3 _ _ ?_ ?_
  · simp [allWf, wf_COMMENT, FREE, NEXT_ELEMENT_OFFSET, (wf_LDR_x h1 hr _ (okOff_small (address 0) (by decide) (by decide) (by decide))).2.1, wf_MOVR h1 hr]
  · simp [allWf, wf_COMMENT, TEMP2, REFERENCE_COUNT_OFFSET, (wf_ADDI h3 h3 1 (by decide)).2,
      (wf_LDR_x h3 hr _ (okOff_small (address 0) (by decide) (by decide) (by decide))).2.1]

end Scc.A64

namespace Scc.A64
open Scc.AxCut
open Scc.Backend (GenM freshLabel TempNum)

theorem okOff_address0 : okOff (address 0) = true := by decide

theorem okOff_fieldOffset (number offset : Nat) (hn : number ≤ 1) (ho : offset ≤ 3) :
    okOff (fieldOffset number offset) = true := by
  unfold fieldOffset
  rw [address_eq]
  have a : (0 : Int) ≤ 8 * (2 + 2 * (offset : Int) + (number : Int)) := by omega
  have b : 8 * (2 + 2 * (offset : Int) + (number : Int)) ≤ 32760 := by omega
  have d : (8 * (2 + 2 * (offset : Int) + (number : Int))) % 8 = 0 := by omega
  simp [okOff, a, b, d]

theorem TempNum_le (n : TempNum) : n.toNat ≤ 1 := by cases n <;> decide

theorem wf_eraseBlock (t : Temporary) (ht : t.ok) : GenWf (eraseBlock t) := by
  have h2 : (2 : Nat) < 30 := by decide
  have h3 : (3 : Nat) < 30 := by decide
  cases t with
  | register reg =>
    obtain ⟨r, rfl, hr⟩ := ok_reg ht
    unfold eraseBlock
    refine GenAll_bind (fun cs => allWf cs = true) (wf_eraseValidObject r hr) (fun evo hevo => ?_)
    refine wf_skipIfZero r hr _ ?_
    simp [allWf_append, allWf_cons, hevo, wf_COMMENT, TEMP2, REFERENCE_COUNT_OFFSET, (wf_LDR_x h3 hr _ okOff_address0).1]
  | spill p =>
    unfold eraseBlock
    refine GenAll_bind (fun cs => allWf cs = true) (wf_eraseValidObject 2 h2) (fun evo hevo => ?_)
    refine GenAll_bind (fun cs => allWf cs = true) (wf_skipIfZero 2 h2 _ ?_) (fun s hs => GenAll_pure ?_)
    · simp [allWf_append, allWf_cons, hevo, wf_COMMENT, TEMP, TEMP2, REFERENCE_COUNT_OFFSET, (wf_LDR_x h3 h2 _ okOff_address0).1]
    · simp [allWf_cons, hs, TEMP, (wf_LDR_sp h2 _ (okOff_stackOffset (ok_spill ht))).1]

/-- `share_block_n`: the number of additional references must fit the ADD immediate -/
theorem wf_shareBlockN (t : Temporary) (ht : t.ok) (n : Nat) (hn : n < 4096) : GenWf (shareBlockN t n) := by
  have h2 : (2 : Nat) < 30 := by decide
  have h3 : (3 : Nat) < 30 := by decide
  have hi : okImm12 (n : Int) = true := by
    have a : (0 : Int) ≤ n := by omega
    have b : (n : Int) < 4096 := by omega
    simp [okImm12, a, b]
  cases t with
  | register reg =>
    obtain ⟨r, rfl, hr⟩ := ok_reg ht
    unfold shareBlockN
    refine wf_skipIfZero r hr _ ?_
    simp [allWf_cons, wf_COMMENT, TEMP2, REFERENCE_COUNT_OFFSET, (wf_LDR_x h3 hr _ okOff_address0).1,
      (wf_LDR_x h3 hr _ okOff_address0).2.1, (wf_ADDI h3 h3 _ hi).1]
  | spill p =>
    unfold shareBlockN
    refine GenAll_bind (fun cs => allWf cs = true) (wf_skipIfZero 2 h2 _ ?_) (fun s hs => GenAll_pure ?_)
    · simp [allWf_cons, wf_COMMENT, TEMP, TEMP2, REFERENCE_COUNT_OFFSET, (wf_LDR_x h3 h2 _ okOff_address0).1,
        (wf_LDR_x h3 h2 _ okOff_address0).2.1, (wf_ADDI h3 h3 _ hi).1]
    · simp [allWf_cons, hs, TEMP, (wf_LDR_sp h2 _ (okOff_stackOffset (ok_spill ht))).1]

theorem wf_eraseFields (r : Nat) (hr : r < 30) : ∀ (k offset : Nat), offset + k ≤ 3 → GenWf (eraseFields (.x r) k offset)
  | 0, _, _ => GenAll_pure rfl
  | k + 1, offset, h => by
    have h2 : (2 : Nat) < 30 := by decide
    unfold eraseFields
    refine GenAll_bind (fun cs => allWf cs = true) (wf_eraseBlock (.register TEMP) (by decide)) (fun e he => ?_)
    refine GenAll_bind (fun cs => allWf cs = true) (wf_eraseFields r hr k (offset + 1) (by omega)) (fun rest hrest => GenAll_pure ?_)
    simp [allWf_append, allWf_cons, he, hrest, wf_COMMENT, TEMP, (wf_LDR_x h2 hr _ (okOff_fieldOffset 0 offset (by omega) (by omega))).1]

theorem freshTemporary_ok (number : TempNum) (ctx : Ctx) : GenAll (fun t => t.ok = true) (freshTemporary number ctx) := by
  unfold freshTemporary temporaryFromPosition
  simp only []
  split
  · exact GenAll_pure (by simpa [Temporary.ok, Register.ok, REGISTER_NUM_eq] using ‹_›)
  · split
    · exact GenAll_pure (by simpa [Temporary.ok] using ‹_›)
    · exact GenAll_throw _

end Scc.A64

namespace Scc.A64
open Scc.AxCut
open Scc.Backend (GenM freshLabel TempNum)

theorem wf_acquireBlock (t : Temporary) (ht : t.ok) : GenWf (acquireBlock t) := by
  have h0 : (0 : Nat) < 30 := by decide
  have h1 : (1 : Nat) < 30 := by decide
  have h2 : (2 : Nat) < 30 := by decide
  have hfo : okImm12 (fieldOffset 0 FIELDS_PER_BLOCK) = true := by decide
  unfold acquireBlock
  refine GenAll_bind (fun cs => allWf cs = true) (wf_eraseFields 0 h0 FIELDS_PER_BLOCK 0 (by decide)) (fun erased he => ?_)
  refine GenAll_bind (fun cs => allWf cs = true) (wf_ifZeroThenElse 1 h1 _ _ ?_ ?_) (fun inner hinner => ?_)
  · simp [allWf_cons, wf_COMMENT, FREE, HEAP, (wf_ADDI h1 h0 _ hfo).1]
  · simp [allWf_append, allWf_cons, he, wf_COMMENT, HEAP, NEXT_ELEMENT_OFFSET, (wf_LDR_x h0 h0 _ okOff_address0).2.2]
  refine GenAll_bind (fun cs => allWf cs = true) (wf_ifZeroThenElse 0 h0 _ _ ?_ ?_) (fun outer houter => GenAll_pure ?_)
  · simp [allWf_append, allWf_cons, hinner, wf_COMMENT, FREE, HEAP, NEXT_ELEMENT_OFFSET, wf_MOVR h0 h1,
      (wf_LDR_x h1 h1 _ okOff_address0).1]
  · cases t with
    | register reg =>
      obtain ⟨r, rfl, hr⟩ := ok_reg ht
      simp [allWf_cons, wf_COMMENT, REFERENCE_COUNT_OFFSET, (wf_LDR_x h0 hr _ okOff_address0).2.2]
    | spill p =>
      simp [allWf_cons, wf_COMMENT, TEMP, REFERENCE_COUNT_OFFSET, (wf_LDR_x h0 h2 _ okOff_address0).2.2]
  · cases t with
    | register reg =>
      obtain ⟨r, rfl, hr⟩ := ok_reg ht
      simp [allWf_append, allWf_cons, houter, wf_COMMENT, HEAP, NEXT_ELEMENT_OFFSET, wf_MOVR hr h0,
        (wf_LDR_x h0 h0 _ okOff_address0).1]
    | spill p =>
      simp [allWf_append, allWf_cons, houter, wf_COMMENT, HEAP, TEMP, NEXT_ELEMENT_OFFSET, wf_MOVR h2 h0,
        (wf_LDR_x h0 h0 _ okOff_address0).1, (wf_LDR_sp h0 _ (okOff_stackOffset (ok_spill ht))).2]

theorem wf_storeLoadField (number : TempNum) (ctx : Ctx) (r : Nat) (hr : r < 30) (offset : Nat) (ho : offset ≤ 3) :
    GenWf (storeField number ctx (.x r) offset) ∧ GenWf (loadField number ctx (.x r) offset) := by
  have h2 : (2 : Nat) < 30 := by decide
  have hoff := okOff_fieldOffset number.toNat offset (TempNum_le number) ho
  constructor
  · unfold storeField
    refine GenAll_bind (fun t => t.ok = true) (freshTemporary_ok number ctx) (fun t ht => ?_)
    cases t with
    | register reg =>
      obtain ⟨n, rfl, hn⟩ := ok_reg ht
      exact GenAll_pure (by simp [allWf_cons, (wf_LDR_x hn hr _ hoff).2.1])
    | spill p =>
      exact GenAll_pure (by simp [allWf_cons, TEMP, (wf_LDR_x h2 hr _ hoff).2.1, (wf_LDR_sp h2 _ (okOff_stackOffset (ok_spill ht))).1])
  · unfold loadField
    refine GenAll_bind (fun t => t.ok = true) (freshTemporary_ok number ctx) (fun t ht => ?_)
    cases t with
    | register reg =>
      obtain ⟨n, rfl, hn⟩ := ok_reg ht
      exact GenAll_pure (by simp [allWf_cons, (wf_LDR_x hn hr _ hoff).1])
    | spill p =>
      exact GenAll_pure (by simp [allWf_cons, TEMP, (wf_LDR_x h2 hr _ hoff).1, (wf_LDR_sp h2 _ (okOff_stackOffset (ok_spill ht))).2])

theorem wf_storeZero (r : Nat) (hr : r < 30) (offset : Nat) (ho : offset ≤ 3) : allWf (storeZero (.x r) offset) = true := by
  simp [storeZero, allWf_cons, (wf_LDR_x hr hr _ (okOff_fieldOffset 0 offset (by omega) ho)).2.2]

theorem wf_storeValue (b : Binding) (ctx : Ctx) (r : Nat) (hr : r < 30) (offset : Nat) (ho : offset ≤ 3) :
    GenWf (storeValue b ctx (.x r) offset) := by
  unfold storeValue
  refine GenAll_bind (fun cs => allWf cs = true) (wf_storeLoadField .snd ctx r hr offset ho).1 (fun c1 h1 => ?_)
  split
  · exact GenAll_pure (by simp [allWf_append, h1, wf_storeZero r hr offset ho])
  · refine GenAll_bind (fun cs => allWf cs = true) (wf_storeLoadField .fst ctx r hr offset ho).1 (fun c2 h2 => GenAll_pure ?_)
    simp [allWf_append, h1, h2]

theorem wf_loadValue (b : Binding) (ctx : Ctx) (r : Nat) (hr : r < 30) (offset : Nat) (ho : offset ≤ 3) (mode : LoadMode) :
    GenWf (loadValue b ctx (.x r) offset mode) := by
  unfold loadValue
  refine GenAll_bind (fun cs => allWf cs = true) (wf_storeLoadField .snd ctx r hr offset ho).2 (fun c1 h1 => ?_)
  split
  · refine GenAll_bind (fun cs => allWf cs = true) (wf_storeLoadField .fst ctx r hr offset ho).2 (fun c2 h2 => ?_)
    refine GenAll_bind (fun t => t.ok = true) (freshTemporary_ok .fst ctx) (fun t ht => ?_)
    have hjp : ∀ reg : Register, reg.ok = true →
        GenWf (if (mode == LoadMode.share) = true then do
            let c3 ← shareBlock (Temporary.register reg)
            pure (c1 ++ c2 ++ c3)
          else pure (c1 ++ c2)) := by
      intro reg hreg
      split
      · refine GenAll_bind (fun cs => allWf cs = true) (wf_shareBlockN (.register reg) hreg 1 (by decide)) (fun c3 h3 => GenAll_pure ?_)
        simp [allWf_append, h1, h2, h3]
      · exact GenAll_pure (by simp [allWf_append, h1, h2])
    cases t with
    | register reg => simp only [pure_bind]; exact hjp reg ht
    | spill p => simp only [pure_bind]; exact hjp TEMP (by decide)
  · exact GenAll_pure h1

end Scc.A64

namespace Scc.A64
open Scc.AxCut
open Scc.Backend (GenM freshLabel TempNum)

theorem wf_storeValuesLoop (remaining : Ctx) (r : Nat) (hr : r < 30) :
    ∀ (rev : List Binding) (freeFields : Nat), freeFields ≤ 3 →
      GenAll (fun p => allWf p.1 = true ∧ p.2 ≤ 3) (storeValuesLoop remaining (.x r) rev freeFields)
  | [], ff, h => GenAll_pure ⟨rfl, h⟩
  | b :: rev, ff, h => by
    unfold storeValuesLoop
    simp only []
    split
    · exact GenAll_throw _
    · refine GenAll_bind (fun cs => allWf cs = true) (wf_storeValue b _ r hr (ff - 1) (by omega)) (fun c hc => ?_)
      refine GenAll_bind (fun p => allWf p.1 = true ∧ p.2 ≤ 3) (wf_storeValuesLoop remaining r hr rev (ff - 1) (by omega))
        (fun p hp => GenAll_pure ?_)
      exact ⟨by simp [allWf_append, hc, hp.1], hp.2⟩

theorem wf_storeZeros (k : Nat) (hk : k ≤ 3) (r : Nat) (hr : r < 30) : allWf (storeZeros k (.x r)) = true := by
  simp only [storeZeros, allWf, List.all_flatMap, List.all_eq_true, List.mem_range]
  intro o ho
  have := wf_storeZero r hr o (by omega)
  simpa [allWf] using this

theorem wf_storeValues (toStore remaining : Ctx) (r : Nat) (hr : r < 30) (ff : Nat) (hff : ff ≤ 3) :
    GenWf (storeValues toStore remaining (.x r) ff) := by
  unfold storeValues
  refine GenAll_bind (fun p => allWf p.1 = true ∧ p.2 ≤ 3) (wf_storeValuesLoop remaining r hr _ ff hff) (fun p hp => GenAll_pure ?_)
  obtain ⟨cs, ff'⟩ := p
  simp only [allWf_append, hp.1, wf_storeZeros ff' hp.2 r hr, Bool.and_true, Bool.true_and]
  split <;> simp [allWf_cons, wf_COMMENT]

theorem wf_loadValuesLoop (existing : Ctx) (r : Nat) (hr : r < 30) (mode : LoadMode) :
    ∀ (rev : List Binding) (freeFields : Nat), freeFields ≤ 3 → GenWf (loadValuesLoop existing (.x r) mode rev freeFields)
  | [], _, _ => GenAll_pure rfl
  | b :: rev, ff, h => by
    unfold loadValuesLoop
    simp only []
    split
    · exact GenAll_throw _
    · refine GenAll_bind (fun cs => allWf cs = true) (wf_loadValue b _ r hr (ff - 1) (by omega) mode) (fun c hc => ?_)
      refine GenAll_bind (fun cs => allWf cs = true) (wf_loadValuesLoop existing r hr mode rev (ff - 1) (by omega))
        (fun cs hcs => GenAll_pure ?_)
      simp [allWf_append, hc, hcs]

theorem wf_loadValues (toLoad existing : Ctx) (r : Nat) (hr : r < 30) (ff : Nat) (hff : ff ≤ 3) (mode : LoadMode) :
    GenWf (loadValues toLoad existing (.x r) ff mode) := by
  unfold loadValues
  refine GenAll_bind (fun cs => allWf cs = true) (wf_loadValuesLoop existing r hr mode _ ff hff) (fun cs hcs => GenAll_pure ?_)
  simp [allWf_cons, wf_COMMENT, hcs]

theorem capLe (b : BlockPosition) : FIELDS_PER_BLOCK - b.toNat ≤ 3 := by cases b <;> decide

theorem wf_storeLink (pos : BlockPosition) (ctx : Ctx) : GenWf (storeLink pos ctx) := by
  have h0 : (0 : Nat) < 30 := by decide
  unfold storeLink
  split
  · refine GenAll_bind (fun cs => allWf cs = true) (wf_storeLoadField .fst _ 0 h0 (FIELDS_PER_BLOCK - 1) (by decide)).1
      (fun c hc => GenAll_pure ?_)
    simp [allWf_cons, wf_COMMENT, hc]
  · exact GenAll_pure rfl

theorem wf_loadLink (pos : BlockPosition) (ctx : Ctx) (r : Nat) (hr : r < 30) : GenWf (loadLink pos ctx (.x r)) := by
  unfold loadLink
  split
  · refine GenAll_bind (fun cs => allWf cs = true) (wf_storeLoadField .fst _ r hr (FIELDS_PER_BLOCK - 1) (by decide)).2
      (fun c hc => GenAll_pure ?_)
    simp [allWf_cons, wf_COMMENT, hc]
  · exact GenAll_pure rfl

theorem wf_storeFields : ∀ (fuel : Nat) (toStore remaining : Ctx) (pos : BlockPosition),
    GenWf (storeFields fuel toStore remaining pos)
  | 0, _, _, _ => GenAll_throw _
  | fuel + 1, toStore, remaining, pos => by
    have h0 : (0 : Nat) < 30 := by decide
    unfold storeFields
    simp only []
    split
    · split
      · refine GenAll_bind (fun t => t.ok = true) (freshTemporary_ok .fst remaining) (fun t ht => GenAll_pure ?_)
        simp [allWf_cons, wf_COMMENT, wf_loadImmediate t ht 0]
      · exact GenAll_pure rfl
    · refine GenAll_bind (fun cs => allWf cs = true) (wf_storeLink pos _) (fun c1 h1 => ?_)
      refine GenAll_bind (fun cs => allWf cs = true) (wf_storeValues _ _ 0 h0 _ (capLe pos)) (fun c3 h3 => ?_)
      refine GenAll_bind (fun t => t.ok = true) (freshTemporary_ok .fst _) (fun t ht => ?_)
      refine GenAll_bind (fun cs => allWf cs = true) (wf_acquireBlock t ht) (fun c4 h4 => ?_)
      refine GenAll_bind (fun cs => allWf cs = true) (wf_storeFields fuel _ remaining .other) (fun c5 h5 => GenAll_pure ?_)
      simp only [allWf_append, h1, h3, h4, h5, Bool.and_true, Bool.true_and]
      split <;> simp [allWf_cons, wf_COMMENT]

theorem wf_releaseBlock (r : Nat) (hr : r < 30) : allWf (releaseBlock (.x r)) = true := by
  have h0 : (0 : Nat) < 30 := by decide
  simp [releaseBlock, allWf_cons, HEAP, NEXT_ELEMENT_OFFSET, (wf_LDR_x h0 hr _ okOff_address0).2.1, wf_MOVR h0 hr]

theorem wf_loadFields : ∀ (fuel : Nat) (toLoad existing : Ctx) (pos : BlockPosition) (mode : LoadMode) (freed : Bool),
    GenAll (fun p => allWf p.1 = true) (loadFields fuel toLoad existing pos mode freed)
  | 0, _, _, _, _, _ => GenAll_throw _
  | fuel + 1, toLoad, existing, pos, mode, freed => by
    have h10 : (10 : Nat) < 30 := by decide
    have hp0 : SPILL_TEMP < SPILL_NUM := by decide
    unfold loadFields
    simp only []
    split
    · exact GenAll_pure rfl
    · refine GenAll_bind (fun p => allWf p.1 = true) (wf_loadFields fuel _ existing .other mode freed) (fun p0 h0 => ?_)
      obtain ⟨c0, freed'⟩ := p0
      refine GenAll_bind (fun t => t.ok = true) (freshTemporary_ok .fst _) (fun t ht => ?_)
      cases t with
      | register reg =>
        obtain ⟨r, rfl, hr⟩ := ok_reg ht
        simp only []
        refine GenAll_bind (fun cs => allWf cs = true) (wf_loadLink pos _ r hr) (fun c2 h2 => ?_)
        refine GenAll_bind (fun cs => allWf cs = true) (wf_loadValues _ _ r hr _ (capLe pos) mode) (fun c3 h3 => GenAll_pure ?_)
        simp only [allWf_append, h0, h2, h3, Bool.and_true, Bool.true_and]
        split <;> simp [allWf_cons, wf_COMMENT, wf_releaseBlock r hr]
      | spill p =>
        simp only []
        refine GenAll_bind (fun cs => allWf cs = true) (wf_loadLink pos _ 10 h10) (fun c2 h2 => ?_)
        refine GenAll_bind (fun cs => allWf cs = true) (wf_loadValues _ _ 10 h10 _ (capLe pos) mode) (fun c3 h3 => GenAll_pure ?_)
        have hl := (wf_LDR_sp h10 _ (okOff_stackOffset (ok_spill ht))).1
        have hs0 := wf_LDR_sp h10 _ (okOff_stackOffset hp0)
        simp only [allWf_append, h0, h2, h3, Bool.and_true, Bool.true_and, TEMPORARY_TEMP]
        refine Bool.and_eq_true_iff.mpr ⟨Bool.and_eq_true_iff.mpr ⟨?_, ?_⟩, ?_⟩
        · split <;> simp [allWf_cons, wf_COMMENT, hs0.2]
        · simp only [allWf_cons, hl, Bool.true_and, allWf_nil, Bool.and_true]
          split <;> simp [allWf_cons, wf_COMMENT, wf_releaseBlock 10 h10]
        · split <;> simp [allWf_cons, wf_COMMENT, hs0.1]

/-- memory.rs `store`: every context -/
theorem wf_store (toStore remaining : Ctx) : GenWf (store toStore remaining) :=
  wf_storeFields _ toStore remaining .last

theorem wf_loadRegister (r : Nat) (hr : r < 30) (toLoad existing : Ctx) : GenWf (loadRegister (.x r) toLoad existing) := by
  have h3 : (3 : Nat) < 30 := by decide
  unfold loadRegister
  refine GenAll_bind (fun p => allWf p.1 = true) (wf_loadFields _ toLoad existing .last .release false) (fun p1 h1 => ?_)
  refine GenAll_bind (fun p => allWf p.1 = true) (wf_loadFields _ toLoad existing .last .share false) (fun p2 h2 => ?_)
  refine GenAll_bind (fun cs => allWf cs = true) (wf_ifZeroThenElse 3 h3 _ _ ?_ ?_) (fun c hc => GenAll_pure ?_)
  · simp [allWf_cons, wf_COMMENT, h1]
  · simp [allWf_append, allWf_cons, wf_COMMENT, h2, TEMP2, REFERENCE_COUNT_OFFSET, (wf_ADDI h3 h3 1 (by decide)).2,
      (wf_LDR_x h3 hr _ okOff_address0).2.1]
  · simp [allWf_cons, wf_COMMENT, hc]

/-- memory.rs `load`: every context -/
theorem wf_load (toLoad existing : Ctx) : GenWf (load toLoad existing) := by
  have h2 : (2 : Nat) < 30 := by decide
  have h3 : (3 : Nat) < 30 := by decide
  unfold load
  split
  · exact GenAll_pure rfl
  · refine GenAll_bind (fun t => t.ok = true) (freshTemporary_ok .fst existing) (fun t ht => ?_)
    cases t with
    | register reg =>
      obtain ⟨r, rfl, hr⟩ := ok_reg ht
      simp only []
      refine GenAll_bind (fun cs => allWf cs = true) (wf_loadRegister r hr toLoad existing) (fun c hc => GenAll_pure ?_)
      simp [allWf_append, allWf_cons, wf_COMMENT, hc, TEMP2, REFERENCE_COUNT_OFFSET, (wf_LDR_x h3 hr _ okOff_address0).1]
    | spill p =>
      simp only []
      refine GenAll_bind (fun cs => allWf cs = true) (wf_loadRegister 2 h2 toLoad existing) (fun c hc => GenAll_pure ?_)
      simp [allWf_append, allWf_cons, wf_COMMENT, hc, TEMP, TEMP2, REFERENCE_COUNT_OFFSET, (wf_LDR_x h3 h2 _ okOff_address0).1,
        (wf_LDR_sp h2 _ (okOff_stackOffset (ok_spill ht))).1]

end Scc.A64
