/-
  Scc.A64.RefStep — Theorem B (AArch64), heap-free instructions, on the run loop:
  `sim_step`: one step `Abs.step P cfg = .next cfg'` of the abstract backend machine on the laid-out mock
  code `ops` is simulated by finitely many iterations (`MSteps`) of the AArch64 SPEC machine on a program
  that holds the routine `cs = hdr ++ body ++ post` whose `body` renders `ops` (`Seg`), re-establishing
  `RepA64` and the correspondence of the program counters (`At`);
  `sim_halt`: the halting step (`jumplabel cleanup` with the result in RET1) is simulated by the branch to
  `cleanup` and the epilogue, arriving at `RET` in a state whose exit check succeeds with the same result.
-/
import Scc.A64.RefSim

set_option linter.unusedVariables false
set_option linter.unusedSimpArgs false

namespace Scc.A64.Ref

open Scc.AxCut Scc.Backend Scc.Backend.Abs Scc.Backend.Sim Scc.A64 Scc.A64.CC Scc.Backend.PM

/-! ## labels of code lists -/

def labOf : Code → Option String
  | .LAB l => some l
  | _ => none

/-- names of the labels defined in a code list -/
def labs (cs : List Code) : List String := cs.filterMap labOf

theorem labs_append (a b : List Code) : labs (a ++ b) = labs a ++ labs b := by
  simp [labs, List.filterMap_append]

theorem labs_nil_of {cs : List Code} (h : ∀ c ∈ cs, labOf c = none) : labs cs = [] := by
  unfold labs
  rw [List.filterMap_eq_nil_iff]
  exact h

theorem lab_not_mem_of_labs {l : String} {cs : List Code} (h : l ∉ labs cs) : Code.LAB l ∉ cs := by
  intro hm
  apply h
  unfold labs
  rw [List.mem_filterMap]
  exact ⟨_, hm, rfl⟩

/-- no label definition in the list -/
def NoL (cs : List Code) : Prop := ∀ c ∈ cs, labOf c = none

theorem noL_append {a b : List Code} (ha : NoL a) (hb : NoL b) : NoL (a ++ b) := by
  intro c hc
  rcases List.mem_append.1 hc with h | h
  · exact ha c h
  · exact hb c h

theorem noL_cons {c : Code} {l : List Code} (hc : labOf c = none) (hl : NoL l) : NoL (c :: l) := by
  intro x hx
  simp only [List.mem_cons] at hx
  rcases hx with rfl | hx
  · exact hc
  · exact hl x hx

theorem noL_nil : NoL [] := by intro c hc; simp at hc

theorem noL_single {c : Code} (hc : labOf c = none) : NoL [c] := noL_cons hc noL_nil

theorem noL_of_cc {l : List Code} (h : CC.NoLab l) : NoL l := by
  intro c hc
  have := h c hc
  cases c <;> first | rfl | (simp [isLab] at this)

theorem noL_moveToRegister (r : Register) (t : Temporary) : NoL (moveToRegister r t) := by
  cases t <;> exact noL_single rfl

theorem noL_moveFromRegister (t : Temporary) (r : Register) : NoL (moveFromRegister t r) := by
  cases t <;> exact noL_single rfl

theorem noL_mov (t s : Temporary) : NoL (mov t s) := by
  cases s with
  | register r => exact noL_moveFromRegister t r
  | spill p =>
    cases t with
    | register r => exact noL_moveToRegister r (.spill p)
    | spill q => exact noL_append (noL_moveToRegister TEMP2 (.spill p)) (noL_moveFromRegister (.spill q) TEMP2)

theorem noL_storeTemporary (t : Temporary) (b : Bool) : NoL (storeTemporary t b) := by
  rw [storeTemporary_eq]; exact noL_moveToRegister _ _

theorem noL_restoreTemporary (t : Temporary) (b : Bool) : NoL (restoreTemporary t b) := by
  rw [restoreTemporary_eq]; exact noL_moveFromRegister _ _

theorem noL_loadImmediateLoop (r : Register) (w : BitVec 64) (inv : Bool) (ign : BitVec 16) :
    ∀ (is : List Nat) (d : Bool), NoL (loadImmediateLoop r w inv ign is d)
  | [], _ => noL_nil
  | i :: is, d => by
    simp only [loadImmediateLoop]
    split
    · split
      · exact noL_cons rfl (noL_loadImmediateLoop r w inv ign is true)
      · split
        · exact noL_cons rfl (noL_loadImmediateLoop r w inv ign is true)
        · exact noL_cons rfl (noL_loadImmediateLoop r w inv ign is true)
    · exact noL_loadImmediateLoop r w inv ign is d

theorem noL_loadImmediateRegister (r : Register) (i : Int) : NoL (loadImmediateRegister r i) := by
  unfold loadImmediateRegister
  dsimp only
  split
  · exact noL_single rfl
  · split
    · exact noL_single rfl
    · exact noL_loadImmediateLoop _ _ _ _ _ _

theorem noL_loadImmediate (t : Temporary) (i : Int) : NoL (loadImmediate t i) := by
  unfold loadImmediate
  refine noL_append (noL_loadImmediateRegister _ _) ?_
  cases t
  · exact noL_nil
  · exact noL_single rfl

theorem noL_compare (a b : Temporary) : NoL (compare a b) := by
  cases a <;> cases b <;> simp only [compare]
  · exact noL_single rfl
  · exact noL_cons rfl (noL_single rfl)
  · exact noL_cons rfl (noL_single rfl)
  · exact noL_cons rfl (noL_cons rfl (noL_single rfl))

theorem noL_compareImmediate (a : Temporary) (i : Int) : NoL (compareImmediate a i) := by
  cases a <;> simp only [compareImmediate]
  · exact noL_single rfl
  · exact noL_cons rfl (noL_single rfl)

theorem labOf_branchOf (s : IfSort) (l : String) : labOf (branchOf s l) = none := by
  cases s <;> rfl

theorem noL_remR (t a b : Register) : NoL (remR t a b) := by
  unfold remR
  split
  · split
    · exact noL_cons rfl (noL_cons rfl (noL_cons rfl (noL_cons rfl (noL_cons rfl (noL_cons rfl (noL_single rfl))))))
    · exact noL_cons rfl (noL_single rfl)
  · exact noL_cons rfl (noL_single rfl)

theorem noL_opR (o : BinOp) (t a b : Register) : NoL (opR o t a b) := by
  cases o <;> simp only [opR]
  case rem => exact noL_remR t a b
  all_goals exact noL_single rfl

theorem noL_op (o : BinOp) (t s1 s2 : Temporary) : NoL (op o t s1 s2) := by
  cases t <;> cases s1 <;> cases s2 <;> simp only [op]
  · exact noL_opR _ _ _ _
  · exact noL_cons rfl (noL_opR _ _ _ _)
  · exact noL_cons rfl (noL_opR _ _ _ _)
  · exact noL_cons rfl (noL_cons rfl (noL_opR _ _ _ _))
  · exact noL_append (noL_opR _ _ _ _) (noL_single rfl)
  · exact noL_append (noL_cons rfl (noL_opR _ _ _ _)) (noL_single rfl)
  · exact noL_append (noL_cons rfl (noL_opR _ _ _ _)) (noL_single rfl)
  · exact noL_append (noL_cons rfl (noL_cons rfl (noL_opR _ _ _ _))) (noL_single rfl)

/-- the labels of the rendering are the labels of the abstract instruction -/
theorem OpRel.labs {g g' : Mode} {op : MockOp} {blk : List Code} (h : OpRel g op blk g') :
    labs blk = labelNames [op] := by
  cases op <;> simp only [OpRel] at h
  case comment m => rw [h.1]; rfl
  case label n => rw [h.1]; rfl
  case jumpLabel n => rw [h.1]; rfl
  case jif c a b n =>
    rw [h.1]
    exact labs_nil_of (noL_append (noL_compare _ _) (noL_single (labOf_branchOf _ _)))
  case jifz c a n =>
    rw [h.1]
    exact labs_nil_of (noL_append (noL_compareImmediate _ _) (noL_single (labOf_branchOf _ _)))
  case li t imm => rw [h.1]; exact labs_nil_of (noL_loadImmediate _ _)
  case binop o t a b => rw [h.1]; exact labs_nil_of (noL_op _ _ _ _)
  case mov t s =>
    rcases h with h | h
    · rw [h.2.2.1]; exact labs_nil_of (noL_mov _ _)
    · rw [h.2.2.1]; exact labs_nil_of (noL_mov _ _)
  case print nl s kinds =>
    obtain ⟨ctx, h1, _⟩ := h
    rw [h1]; exact labs_nil_of (noL_of_cc (noLab_printI64 _ _ _))
  case save t sp =>
    obtain ⟨b, h1, _⟩ := h
    rw [h1]; exact labs_nil_of (noL_storeTemporary _ _)
  case restore t sp =>
    obtain ⟨b, h1, _⟩ := h
    rw [h1]; exact labs_nil_of (noL_restoreTemporary _ _)

theorem Seg.labs {g g' : Mode} {ops : List MockOp} {cs : List Code} (h : Seg g ops cs g') :
    labs cs = labelNames ops := by
  induction h with
  | nil g => rfl
  | @cons g g1 g' op blk ops cs hop _ ih =>
    rw [labs_append, hop.labs, ih, show op :: ops = [op] ++ ops from rfl, labelNames_append]

/-! ## layout facts of the abstract program -/

theorem icount_append : ∀ (a b : List MockOp), instrCount (a ++ b) = instrCount a + instrCount b
  | [], b => by simp [instrCount]
  | op :: a, b => by
    cases op <;> simp [instrCount, icount_append a b] <;> omega

theorem labelNames_split {n : String} : ∀ {ops : List MockOp}, n ∈ labelNames ops →
    ∃ o1 o2, ops = o1 ++ MockOp.label n :: o2 ∧ n ∉ labelNames o1
  | [], h => by simp [labelNames] at h
  | op :: r, h => by
    by_cases hop : op = .label n
    · subst hop
      exact ⟨[], r, rfl, by simp [labelNames]⟩
    · have hr : n ∈ labelNames r := by
        cases op <;> simp only [labelNames, List.mem_cons] at h <;> try exact h
        rcases h with h | h
        · subst h; exact absurd rfl hop
        · exact h
      obtain ⟨o1, o2, e, hn⟩ := labelNames_split hr
      refine ⟨op :: o1, o2, by rw [e]; rfl, ?_⟩
      cases op <;> simp only [labelNames, List.mem_cons, not_or] <;> try exact hn
      exact ⟨fun e' => hop (by rw [e']), hn⟩

theorem mem_labelNames_of_labelAddr {ops : List MockOp} {n : String} {a : Nat}
    (h : (Program.ofOps ops).labelAddr n = some a) : n ∈ labelNames ops := by
  unfold Program.labelAddr lookupLabel at h
  cases hf : (Program.ofOps ops).labels.find? (fun e => e.1 == n) with
  | none => simp [hf] at h
  | some e =>
    have hm := List.mem_of_find?_eq_some hf
    have he := List.find?_some hf
    simp only [beq_iff_eq] at he
    rw [← layout_snd_names ops 0, ← he]
    exact List.mem_map.2 ⟨e, hm, rfl⟩

theorem ofOps_size (ops : List MockOp) : (Program.ofOps ops).code.size = instrCount ops := by
  simp [Program.ofOps, layout_fst_length]

/-- `RepA64` does not look at the abstract program counter -/
theorem RepA64.setPc {c : MemCfg} {g : Mode} {cfg : Config} {σ : State} {out : List (Bool × Word)}
    (R : RepA64 c g cfg σ out) (pc : Nat) : RepA64 c g { cfg with pc := pc } σ out :=
  ⟨R.core, R.temps, R.ret, R.scratch, R.out⟩

theorem step_mov' (P : Program) (cfg : Config) (t s : Nat)
    (hc : P.code[cfg.pc]? = some (.mov t s)) (ht : t ≠ Mock.T_TEMP) :
    Abs.step P cfg = .next
      { cfg with pc := cfg.pc + 1, temps := (clobberTemp cfg.temps).put t (cfg.temps.get s) } := by
  have : (t == Abs.T_TEMP) = false := by simp [Abs.T_TEMP, ht]
  simp [Abs.step, hc, this]

theorem step_save' (P : Program) (cfg : Config) (t : Nat) (sp : Bool)
    (hc : P.code[cfg.pc]? = some (.save t sp)) :
    Abs.step P cfg = .next
      { cfg with pc := cfg.pc + 1, temps := clobberTemp cfg.temps, scratch := cfg.temps.get t } := by
  simp [Abs.step, hc]

theorem step_restore' (P : Program) (cfg : Config) (t : Nat) (sp : Bool)
    (hc : P.code[cfg.pc]? = some (.restore t sp)) (ht : t ≠ Mock.T_TEMP) :
    Abs.step P cfg = .next
      { cfg with pc := cfg.pc + 1, temps := (clobberTemp cfg.temps).put t cfg.scratch } := by
  have : (t == Abs.T_TEMP) = false := by simp [Abs.T_TEMP, ht]
  simp [Abs.step, hc, this]

/-- the abstract instruction at the program counter -/
theorem fetch_of_split {ops : List MockOp} (hnodup : (labelNames ops).Nodup) {ops1 ops2 : List MockOp}
    {op : MockOp} (ho : ops = ops1 ++ op :: ops2) (h1 : ∀ m, op ≠ .comment m) (h2 : ∀ n, op ≠ .label n) :
    (Program.ofOps ops).code[instrCount ops1]? = some op := by
  have hca := codeAt_ofOps ops (by rw [← labelNames_eq_dfns]; exact hnodup) ops1 _ ho
  cases op <;> simp only [CodeAt] at hca <;> first | exact hca.1 | exact absurd rfl (h1 _) | exact absurd rfl (h2 _)

section World

variable {c : MemCfg} (H : CfgCC c) {hk : Code → Bool} {P : Prog}
  {ops : List MockOp} {cs hdr body post : List Code}
  (Hp : Holds hk P cs) (hcs : cs = hdr ++ body ++ post) (W : Seg .normal ops body .normal)
  (hnodup : (labelNames ops).Nodup) (hhdr : ∀ n ∈ labelNames ops, n ∉ labs hdr)

include Hp hcs W hnodup hhdr in
/-- a label of the abstract program resolves, on the AArch64 side, to the corresponding position -/
theorem label_at {name : String} {a : Nat} (hl : (Program.ofOps ops).labelAddr name = some a) :
    ∃ k, P.labels[name]? = some (pcOf hk cs k) ∧ At ops cs a k .normal := by
  have hmem := mem_labelNames_of_labelAddr hl
  obtain ⟨o1, o2, ho, hn1⟩ := labelNames_split hmem
  have hca := codeAt_ofOps ops (by rw [← labelNames_eq_dfns]; exact hnodup) o1 _ ho
  simp only [CodeAt] at hca
  have ha : a = instrCount o1 := by
    have := hca.1; rw [hl] at this; injection this
  rw [ho] at W
  obtain ⟨c1, c2, gm, hb, S1, S2⟩ := Seg.split W
  cases S2 with
  | @cons _ g1 _ _ blk _ c2' hop S2' =>
    simp only [OpRel] at hop
    obtain ⟨rfl, rfl, rfl⟩ := hop
    have hcs' : cs = (hdr ++ c1) ++ Code.LAB name :: (c2' ++ post) := by
      rw [hcs, hb]; simp
    have hidx : P.labels[name]? = some (pcOf hk cs (hdr ++ c1).length) := by
      apply label_pc Hp hcs'
      apply lab_not_mem_of_labs
      rw [labs_append, S1.labs, List.mem_append]
      rintro (h | h)
      · exact hhdr name hmem h
      · exact hn1 h
    refine ⟨_, hidx, o1, _, hdr ++ c1, [Code.LAB name] ++ c2', post, ho, ?_, ha.symm, rfl, ?_⟩
    · rw [hcs, hb]; simp
    · exact Seg.cons (by simp [OpRel]) S2'

/-- the correspondence after an instruction that falls through -/
theorem At.advance {ops1 ops2 : List MockOp} {op : MockOp} {cs1 blk cs2 tail : List Code} {g1 : Mode}
    (ho : ops = ops1 ++ op :: ops2) (hc : cs = cs1 ++ (blk ++ cs2) ++ tail)
    (hop : instrCount [op] = 1) (S : Seg g1 ops2 cs2 .normal) :
    At ops cs (instrCount ops1 + 1) (cs1.length + blk.length) g1 :=
  ⟨ops1 ++ [op], ops2, cs1 ++ blk, cs2, tail, by rw [ho]; simp, by rw [hc]; simp,
    by rw [icount_append, hop], by simp, S⟩

include H Hp hcs W hnodup hhdr in
/-- THEOREM B, one step: the AArch64 machine simulates a step of the abstract backend machine -/
theorem sim_step_aux {cfg cfg' : Config} (hs : Abs.step (Program.ofOps ops) cfg = .next cfg') :
    ∀ (ops2 ops1 : List MockOp) (cs1 cs2 tail : List Code) (g : Mode) (σ : State) (out : List (Bool × Word)),
      ops = ops1 ++ ops2 → cs = cs1 ++ cs2 ++ tail → instrCount ops1 = cfg.pc →
      Seg g ops2 cs2 .normal → RepA64 c g cfg σ out →
      ∃ k' σ' out' g', MSteps P c σ (pcOf hk cs cs1.length) out σ' (pcOf hk cs k') out' ∧
        RepA64 c g' cfg' σ' out' ∧ At ops cs cfg'.pc k' g'
  | [], ops1, cs1, cs2, tail, g, σ, out, ho, hc, ha, S, R => by
    exfalso
    have : (Program.ofOps ops).code[cfg.pc]? = none := by
      rw [Array.getElem?_eq_none_iff, ofOps_size, ← ha, ho]; simp
    simp [Abs.step, this, stuck] at hs
  | op :: ops2, ops1, cs1, cs2, tail, g, σ, out, ho, hc, ha, S, R => by
    cases S with
    | @cons _ g1 _ _ blk _ cs2' hop S' =>
    have hc' : cs = cs1 ++ blk ++ (cs2' ++ tail) := by rw [hc]; simp
    have hcA : cs = cs1 ++ (blk ++ cs2') ++ tail := hc
    -- an instruction that falls through: straight block, abstract pc + 1
    have fin : ∀ (s' : State) (cfgN : Config), instrCount [op] = 1 →
        execCodes c blk σ = .ok s' → RepA64 c g1 cfgN s' out →
        cfg' = { cfgN with pc := cfg.pc + 1 } →
        ∃ k' σ' out' g', MSteps P c σ (pcOf hk cs cs1.length) out σ' (pcOf hk cs k') out' ∧
          RepA64 c g' cfg' σ' out' ∧ At ops cs cfg'.pc k' g' := by
      intro s' cfgN hop1 hx R' hcfg
      refine ⟨cs1.length + blk.length, s', out, g1, msteps_codes Hp blk _ _ _ _ (block_get hc') hx, ?_, ?_⟩
      · rw [hcfg]; exact R'.setPc _
      · rw [hcfg]
        show At ops cs (cfg.pc + 1) _ _
        rw [← ha]
        exact At.advance ho hcA hop1 S'
    -- a jump to label `n`
    have jmp : ∀ (n : String), jumpTo (Program.ofOps ops) cfg n = .next cfg' →
        ∃ k', P.labels[n]? = some (pcOf hk cs k') ∧ At ops cs cfg'.pc k' .normal ∧
          cfg' = { cfg with pc := cfg'.pc, temps := clobberTemp cfg.temps } := by
      intro n hj
      unfold jumpTo at hj
      cases hl : (Program.ofOps ops).labelAddr n with
      | none => simp [hl, stuck] at hj
      | some a' =>
        simp only [hl] at hj
        injection hj with hj
        obtain ⟨k', hidx, A'⟩ := label_at Hp hcs W hnodup hhdr hl
        refine ⟨k', hidx, ?_, ?_⟩
        · rw [← hj]; exact A'
        · rw [← hj]
    -- compare; conditional branch
    have br : ∀ (s1 : State) (pre : List Code) (srt : IfSort) (n : String) (va vb : Word),
        execCodes c pre σ = .ok s1 →
        RepA64 c .normal { cfg with pc := cfg.pc, temps := clobberTemp cfg.temps } s1 out →
        s1.flags = some (va, vb) →
        blk = pre ++ [branchOf srt n] → g1 = .normal → instrCount [op] = 1 →
        (if Abs.evalCond srt va vb = true then jumpTo (Program.ofOps ops) cfg n
          else .next { cfg with pc := cfg.pc + 1, temps := clobberTemp cfg.temps }) = .next cfg' →
        ∃ k' σ' out' g', MSteps P c σ (pcOf hk cs cs1.length) out σ' (pcOf hk cs k') out' ∧
          RepA64 c g' cfg' σ' out' ∧ At ops cs cfg'.pc k' g' := by
      intro s1 pre srt n va vb hx R1 hf hblk hg1 hop1 hs'
      have hcP : cs = cs1 ++ pre ++ (branchOf srt n :: (cs2' ++ tail)) := by rw [hc', hblk]; simp
      have h0 := msteps_codes Hp pre _ _ _ out (block_get hcP) hx
      obtain ⟨cd, hti, hcd⟩ := branchOf_cond srt n va vb
      have hcJ : cs = (cs1 ++ pre) ++ branchOf srt n :: (cs2' ++ tail) := by rw [hcP]
      have hget : cs[cs1.length + pre.length]? = some (branchOf srt n) := by
        have := code_get hcJ; rwa [List.length_append] at this
      by_cases hb : Abs.evalCond srt va vb = true
      · rw [if_pos hb] at hs'
        obtain ⟨k', hidx, A', hcfg⟩ := jmp n hs'
        have h1 := mstep_bcond (c := c) Hp hget hti hf (j := pcOf hk cs k') (fun _ => hidx) out
        rw [hcd, if_pos hb] at h1
        refine ⟨k', s1, out, .normal, h0.trans h1, ?_, A'⟩
        rw [hcfg]
        exact R1.setPc _
      · rw [if_neg hb] at hs'
        injection hs' with hs'
        have h1 := mstep_bcond (c := c) Hp hget hti hf (j := 0) (fun h => absurd (hcd ▸ h) hb) out
        rw [hcd, if_neg hb] at h1
        refine ⟨cs1.length + pre.length + 1, s1, out, .normal, h0.trans h1, ?_, ?_⟩
        · rw [← hs']; exact R1.setPc _
        · rw [← hs']
          show At ops cs (cfg.pc + 1) _ _
          rw [← ha]
          have := At.advance (cs := cs) (blk := blk) ho hcA hop1 S'
          rw [hg1, hblk] at this
          simpa [Nat.add_assoc] using this
    cases op <;> simp only [OpRel] at hop
    case comment m =>
      obtain ⟨rfl, rfl⟩ := hop
      have hcF : cs = cs1 ++ Code.COMMENT m :: (cs2' ++ tail) := by rw [hc]; simp
      have h1 := msteps_code (c := c) Hp (code_get hcF) (σ := σ) (σ' := σ) rfl out
      obtain ⟨k', σ', out', g', hk', R', A'⟩ := sim_step_aux hs ops2 (ops1 ++ [.comment m]) (cs1 ++ [.COMMENT m])
        cs2' tail g1 σ out (by rw [ho]; simp) (by rw [hc]; simp)
        (by rw [icount_append]; simpa [instrCount] using ha) S' R
      refine ⟨k', σ', out', g', ?_, R', A'⟩
      rw [List.length_append] at hk'
      exact h1.trans hk'
    case label n =>
      obtain ⟨rfl, rfl, rfl⟩ := hop
      have hcF : cs = cs1 ++ Code.LAB n :: (cs2' ++ tail) := by rw [hc]; simp
      have h1 := msteps_code (c := c) Hp (code_get hcF) (σ := σ) (σ' := σ) rfl out
      obtain ⟨k', σ', out', g', hk', R', A'⟩ := sim_step_aux hs ops2 (ops1 ++ [.label n]) (cs1 ++ [.LAB n])
        cs2' tail .normal σ out (by rw [ho]; simp) (by rw [hc]; simp)
        (by rw [icount_append]; simpa [instrCount] using ha) S' R
      refine ⟨k', σ', out', g', ?_, R', A'⟩
      rw [List.length_append] at hk'
      exact h1.trans hk'
    case li t imm =>
      obtain ⟨rfl, ht, rfl, rfl⟩ := hop
      have hf := fetch_of_split hnodup ho (by simp) (by simp)
      rw [ha] at hf
      rw [step_li _ cfg t imm hf (posW_ne_temp ht)] at hs
      injection hs with hs
      obtain ⟨s', hx, R'⟩ := rep_li H R ht imm
      exact fin s' _ rfl hx R' hs.symm
    case binop o t a b =>
      obtain ⟨rfl, ht, hpa, hpb, rfl, rfl⟩ := hop
      have hf := fetch_of_split hnodup ho (by simp) (by simp)
      rw [ha] at hf
      simp only [Abs.step, hf] at hs
      obtain ⟨va, hva, hs⟩ := getT_next hs
      obtain ⟨vb, hvb, hs⟩ := getT_next hs
      cases hev : Abs.evalBinOp o va vb with
      | error e => simp [hev, stuck] at hs
      | ok v =>
        have hstep := step_binop _ cfg o t a b va vb v hf (posW_ne_temp ht) hva hvb hev
        simp only [Abs.step, hf, getT, hva, hvb] at hstep
        rw [hstep] at hs
        injection hs with hs
        obtain ⟨s', hx, R'⟩ := rep_binop H R ht hpa hpb hva hvb hev
        exact fin s' _ rfl hx R' hs.symm
    case jumpLabel n =>
      obtain ⟨rfl, rfl, hg⟩ := hop
      have hf := fetch_of_split hnodup ho (by simp) (by simp)
      rw [ha] at hf
      simp only [Abs.step, hf] at hs
      by_cases hn : (n == "cleanup") = true
      · rw [if_pos hn] at hs
        unfold getT at hs
        cases hv : cfg.temps.get T_RET1 <;> simp [hv, stuck] at hs
      · rw [if_neg hn] at hs
        have hg' : g = .normal := by
          rcases hg with h | ⟨_, h⟩
          · exact h
          · subst h; simp at hn
        subst hg'
        obtain ⟨k', hidx, A', hcfg⟩ := jmp n hs
        have hcJ : cs = cs1 ++ Code.B n :: (cs2' ++ tail) := by rw [hc]; simp
        refine ⟨k', σ, out, .normal, mstep_jump Hp (code_get hcJ) hidx σ out, ?_, A'⟩
        rw [hcfg]
        exact (R.keep (pc' := cfg.pc) R.core (frame0_refl σ)).setPc _
    case jif srt a b n =>
      obtain ⟨rfl, hpa, hpb, rfl, rfl⟩ := hop
      have hf := fetch_of_split hnodup ho (by simp) (by simp)
      rw [ha] at hf
      simp only [Abs.step, hf] at hs
      obtain ⟨va, hva, hs⟩ := getT_next hs
      obtain ⟨vb, hvb, hs⟩ := getT_next hs
      obtain ⟨s1, hx, R1, hfl⟩ := rep_jif H R hpa hpb hva hvb cfg.pc
      exact br s1 _ srt n va vb hx R1 hfl rfl rfl rfl hs
    case jifz srt a n =>
      obtain ⟨rfl, hpa, rfl, rfl⟩ := hop
      have hf := fetch_of_split hnodup ho (by simp) (by simp)
      rw [ha] at hf
      simp only [Abs.step, hf] at hs
      obtain ⟨va, hva, hs⟩ := getT_next hs
      obtain ⟨s1, hx, R1, hfl⟩ := rep_jifz H R hpa hva cfg.pc
      exact br s1 _ srt n va 0 hx R1 hfl rfl rfl rfl hs
    case mov t s' =>
      have hf := fetch_of_split hnodup ho (by simp) (by simp)
      rw [ha] at hf
      rcases hop with ⟨rfl, hps, rfl, rfl, rfl⟩ | ⟨hpt, hps, rfl, rfl⟩
      · rw [step_mov' _ cfg _ s' hf (by decide)] at hs
        injection hs with hs
        obtain ⟨s1, hx, R'⟩ := rep_movRet H R hps cfg.pc
        exact fin s1 _ rfl hx R' hs.symm
      · rw [step_mov' _ cfg t s' hf (posW_ne_temp hpt)] at hs
        injection hs with hs
        obtain ⟨s1, hx, R'⟩ := rep_mov H R hpt hps cfg.pc
        exact fin s1 _ rfl hx R' hs.symm
    case save t sp =>
      obtain ⟨b, rfl, hpt, hg, rfl⟩ := hop
      have hf := fetch_of_split hnodup ho (by simp) (by simp)
      rw [ha] at hf
      rw [step_save' _ cfg t sp hf] at hs
      injection hs with hs
      obtain ⟨s1, hx, R'⟩ := rep_save H R hpt b hg cfg.pc
      exact fin s1 _ rfl hx R' hs.symm
    case restore t sp =>
      obtain ⟨b, rfl, hpt, rfl, rfl⟩ := hop
      have hf := fetch_of_split hnodup ho (by simp) (by simp)
      rw [ha] at hf
      rw [step_restore' _ cfg t sp hf (posW_ne_temp hpt)] at hs
      injection hs with hs
      obtain ⟨s1, hx, R'⟩ := rep_restore H R hpt b cfg.pc
      exact fin s1 _ rfl hx R' hs.symm
    case print nl s' kinds =>
      obtain ⟨ctx, rfl, rfl, hps, hlive, rfl, rfl⟩ := hop
      have hf := fetch_of_split hnodup ho (by simp) (by simp)
      rw [ha] at hf
      simp only [Abs.step, hf] at hs
      obtain ⟨v, hv, hs⟩ := getT_next hs
      injection hs with hs
      obtain ⟨s1, hx, R'⟩ := rep_print H R (nl := nl) hps ctx hlive hv cfg.pc
      have h1 := msteps_codesOut Hp _ _ _ _ out _ (block_get hc') hx
      refine ⟨_, s1, _, .normal, h1, ?_, ?_⟩
      · rw [← hs]
        have hl : (Mock.kindsOf ctx).length = ctx.length := by simp [Mock.kindsOf]
        rw [hl]
        exact R'.setPc _
      · rw [← hs]
        show At ops cs (cfg.pc + 1) _ _
        rw [← ha]
        exact At.advance ho hcA rfl S'
    all_goals exact absurd hop (by simp)

include H Hp hcs W hnodup hhdr in
/-- THEOREM B for one step of the abstract backend machine -/
theorem sim_step {cfg cfg' : Config} {g : Mode} {σ : State} {out : List (Bool × Word)} {k : Nat}
    (hs : Abs.step (Program.ofOps ops) cfg = .next cfg') (R : RepA64 c g cfg σ out)
    (A : At ops cs cfg.pc k g) :
    ∃ k' σ' out' g', MSteps P c σ (pcOf hk cs k) out σ' (pcOf hk cs k') out' ∧
      RepA64 c g' cfg' σ' out' ∧ At ops cs cfg'.pc k' g' := by
  obtain ⟨ops1, ops2, cs1, cs2, tail, ho, hc, ha, hi, S⟩ := A
  subst hi
  exact sim_step_aux H Hp hcs W hnodup hhdr hs ops2 ops1 cs1 cs2 tail g σ out ho hc ha S R

end World

/-! ## the halting step -/

/-- only `jumplabel cleanup` halts the abstract machine with a result -/
theorem step_done_inv {P : Program} {cfg : Config} {op : MockOp} {v : Word}
    (hf : P.code[cfg.pc]? = some op) (hs : Abs.step P cfg = .halt (.done v)) :
    op = .jumpLabel "cleanup" ∧ cfg.temps.get Mock.T_RET1 = some v := by
  simp only [Abs.step, hf] at hs
  cases op <;> simp only [] at hs
  case jumpLabel n =>
    by_cases hn : (n == "cleanup") = true
    · rw [if_pos hn] at hs
      obtain ⟨w, hw, hk⟩ := getT_done hs
      injection hk with hk
      injection hk with hk
      simp only [beq_iff_eq] at hn
      rw [hn]
      refine ⟨rfl, ?_⟩
      rw [← hk]; exact hw
    · rw [if_neg hn] at hs
      unfold jumpTo at hs
      split at hs <;> simp [stuck] at hs
  all_goals (first | (simp [getT, stuck, jumpTo] at hs; done) | skip)
  all_goals
    repeat' (first
      | (have hd := getT_done hs; clear hs; obtain ⟨_, _, hs⟩ := hd)
      | (unfold jumpTo at hs)
      | (split at hs)
      | (simp [stuck] at hs; done))

/-- the exit check from `RetReady` with a defined result -/
theorem exitCheck_done (c : MemCfg) {σ : State} (R : RetReady c σ) {v : Word} (h0 : σ.reg 0 = some v) :
    exitCheck c σ = .done v := by
  rcases exitCheck_safe c R with ⟨v', hv'⟩ | hf
  · have h30 : σ.regs[(30 : Fin 31)] = some (sentinel 30) := R.regs 30 (by decide)
    have h0' : σ.regs[(0 : Fin 31)] = some v := h0
    rw [hv']
    unfold exitCheck at hv'
    simp only [h30, R.sp, ne_eq, not_true_eq_false, if_false] at hv'
    split at hv'
    · cases hv'
    · simp only [h0'] at hv'
      exact hv'.symm
  · have h30 : σ.regs[(30 : Fin 31)] = some (sentinel 30) := R.regs 30 (by decide)
    have h0' : σ.regs[(0 : Fin 31)] = some v := h0
    unfold exitCheck at hf
    simp only [h30, R.sp, ne_eq, not_true_eq_false, if_false] at hf
    split at hf
    · cases hf
    · simp only [h0'] at hf
      cases hf

section Halt

variable {c : MemCfg} (H : CfgCC c) {hk : Code → Bool} {P : Prog}
  {ops : List MockOp} {cs hdr body : List Code}
  (Hp : Holds hk P cs) (hcs : cs = hdr ++ body ++ cleanup) (W : Seg .normal ops body .normal)
  (hnodup : (labelNames ops).Nodup) (hclean : "cleanup" ∉ labs hdr ++ labelNames ops)

include H Hp hcs W hnodup hclean in
/-- THEOREM B, the halting step: branch to `cleanup`, epilogue; at `RET` the exit check succeeds -/
theorem sim_halt_aux {cfg : Config} {v : Word}
    (hs : Abs.step (Program.ofOps ops) cfg = .halt (.done v)) :
    ∀ (ops2 ops1 : List MockOp) (cs1 cs2 tail : List Code) (g : Mode) (σ : State) (out : List (Bool × Word)),
      ops = ops1 ++ ops2 → cs = cs1 ++ cs2 ++ tail → instrCount ops1 = cfg.pc →
      Seg g ops2 cs2 .normal → RepA64 c g cfg σ out →
      ∃ kL σL, MSteps P c σ (pcOf hk cs cs1.length) out σL (pcOf hk cs kL) out ∧
        P.items[pcOf hk cs kL]? = some (.instr .ret) ∧ exitCheck c σL = .done v ∧ out = cfg.out
  | [], ops1, cs1, cs2, tail, g, σ, out, ho, hc, ha, S, R => by
    exfalso
    have : (Program.ofOps ops).code[cfg.pc]? = none := by
      rw [Array.getElem?_eq_none_iff, ofOps_size, ← ha, ho]; simp
    simp [Abs.step, this, stuck] at hs
  | op :: ops2, ops1, cs1, cs2, tail, g, σ, out, ho, hc, ha, S, R => by
    cases S with
    | @cons _ g1 _ _ blk _ cs2' hop S' =>
    by_cases hcm : ∃ m, op = .comment m
    · obtain ⟨m, rfl⟩ := hcm
      simp only [OpRel] at hop
      obtain ⟨rfl, rfl⟩ := hop
      have hcF : cs = cs1 ++ Code.COMMENT m :: (cs2' ++ tail) := by rw [hc]; simp
      have h1 := msteps_code (c := c) Hp (code_get hcF) (σ := σ) (σ' := σ) rfl out
      obtain ⟨kL, σL, hk', hL⟩ := sim_halt_aux hs ops2 (ops1 ++ [.comment m]) (cs1 ++ [.COMMENT m])
        cs2' tail g1 σ out (by rw [ho]; simp) (by rw [hc]; simp)
        (by rw [icount_append]; simpa [instrCount] using ha) S' R
      rw [List.length_append] at hk'
      exact ⟨kL, σL, h1.trans hk', hL⟩
    by_cases hlb : ∃ n, op = .label n
    · obtain ⟨n, rfl⟩ := hlb
      simp only [OpRel] at hop
      obtain ⟨rfl, rfl, rfl⟩ := hop
      have hcF : cs = cs1 ++ Code.LAB n :: (cs2' ++ tail) := by rw [hc]; simp
      have h1 := msteps_code (c := c) Hp (code_get hcF) (σ := σ) (σ' := σ) rfl out
      obtain ⟨kL, σL, hk', hL⟩ := sim_halt_aux hs ops2 (ops1 ++ [.label n]) (cs1 ++ [.LAB n])
        cs2' tail .normal σ out (by rw [ho]; simp) (by rw [hc]; simp)
        (by rw [icount_append]; simpa [instrCount] using ha) S' R
      rw [List.length_append] at hk'
      exact ⟨kL, σL, h1.trans hk', hL⟩
    -- a real instruction: it is `jumplabel cleanup`
    have hf := fetch_of_split hnodup ho (fun m e => hcm ⟨m, e⟩) (fun n e => hlb ⟨n, e⟩)
    rw [ha] at hf
    obtain ⟨rfl, hv⟩ := step_done_inv hf hs
    simp only [OpRel] at hop
    obtain ⟨rfl, _, _⟩ := hop
    obtain ⟨hg, hx0⟩ := R.ret v hv
    -- the branch
    have hcs' : cs = (hdr ++ body) ++ Code.LAB "cleanup" :: (cleanupBody ++ [Code.RET]) := by
      rw [hcs]; rfl
    have hidx : P.labels["cleanup"]? = some (pcOf hk cs (hdr ++ body).length) := by
      apply label_pc Hp hcs'
      apply lab_not_mem_of_labs
      rw [labs_append, W.labs]
      exact hclean
    have hcJ : cs = cs1 ++ Code.B "cleanup" :: (cs2' ++ tail) := by rw [hc]; simp
    have h1 := mstep_jump (c := c) Hp (code_get hcJ) hidx σ out
    -- the epilogue
    have hr := H.room; have htop := H.ok.top; have h16 := H.top16
    obtain ⟨σ3, he3, hp3⟩ := cleanup_correct H.ok σ c.stackTop (R.core.spNat H) h16 (by omega) (Nat.le_refl _)
    obtain ⟨σ3', he3', RR⟩ := cleanup_ready H R.core
    rw [he3] at he3'
    cases he3'
    have hcE : cs = (hdr ++ body) ++ cleanup.dropLast ++ [Code.RET] := by
      rw [hcs, List.append_assoc (hdr ++ body)]; rfl
    have h2 := msteps_codes Hp cleanup.dropLast _ _ _ out (block_get hcE) he3
    -- `RET`
    have hcR : cs = ((hdr ++ body) ++ cleanup.dropLast) ++ Code.RET :: [] := hcE
    have hget := code_get hcR
    obtain ⟨i, hti, hit⟩ := Hp.instr _ _ hget rfl
    simp only [Code.toInstr, Option.some.injEq] at hti
    subst hti
    refine ⟨_, σ3, h1.trans h2, ?_, ?_, R.out⟩
    · rw [List.length_append] at hit
      exact hit
    · apply exitCheck_done c RR
      rw [hp3.low 0 (by decide)]
      exact hx0

include H Hp hcs W hnodup hclean in
theorem sim_halt {cfg : Config} {v : Word} {g : Mode} {σ : State} {out : List (Bool × Word)} {k : Nat}
    (hs : Abs.step (Program.ofOps ops) cfg = .halt (.done v)) (R : RepA64 c g cfg σ out)
    (A : At ops cs cfg.pc k g) :
    ∃ kL σL, MSteps P c σ (pcOf hk cs k) out σL (pcOf hk cs kL) out ∧
      P.items[pcOf hk cs kL]? = some (.instr .ret) ∧ exitCheck c σL = .done v ∧ out = cfg.out := by
  obtain ⟨ops1, ops2, cs1, cs2, tail, ho, hc, ha, hi, S⟩ := A
  subst hi
  exact sim_halt_aux H Hp hcs W hnodup hclean hs ops2 ops1 cs1 cs2 tail g σ out ho hc ha S R

end Halt

end Scc.A64.Ref
