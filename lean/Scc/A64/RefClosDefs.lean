/-
  Scc.A64.RefClosDefs — CLOSURES in the three-way relation of Theorem B on AArch64 (C07): SPEC definitions.
  The AArch64 analogue of Scc/X86/RefClosDefs.lean.

  The word part of a closure is a CODE ADDRESS: the address of its method table in the mock code on the
  abstract machine, the BYTE ADDRESS of its method table in the routine on AArch64 (`codeBase + 4 ·` the
  number of instructions before the label: every instruction has size 4).  The two code generators draw
  different label numbers, so the relation between the two addresses is kept PER INSTANCE of a closure value
  (RefClosHDefs.lean: `κ` for the fields of heap objects, the machine state for the variables of the
  context), and what an instance has to satisfy is tied to the VALUE of the positional machine:

  * `XMethodsAt c cs hooks types w envCtx clauses`: the AArch64 code of the methods of `clauses` (table, if
    any, and method bodies, generated for the environment `envCtx` from SOME label counter) stands in the
    routine `cs` behind a label whose byte address is `w` — the AArch64 analogue of `Sim.MethodsAt`;
  * `XV … v ptr a w`: a walk over the value `v` along its representation in the abstract heap (as
    `Sim2.RepV`): for every closure inside `v` whose abstract word is `a` and whose machine word is `w`, the
    mock methods are at `a` and the AArch64 methods at `w`, FOR THE SAME environment context (on AArch64
    there is no bound on the literals of the methods to carry along: MOVZ/MOVK materialise every i64);
  * `XC`: the walk for every variable of the context (the machine word: what the temporary holds).
  Core imports only besides the files defining the relations used.
-/
import Scc.A64.RefHeapBridge
import Scc.A64.RefHeapAddr
import Scc.A64.RefClosHDefs

namespace Scc.A64.Ref.K

open Scc.AxCut Scc.AxCut.Pos Scc.Backend Scc.Backend.Abs Scc.Backend.Sim Scc.A64

/-- the byte address of list position `idx` of the routine: 4 × the number of instructions before it -/
def addrOf (c : MemCfg) (cs : List Code) (idx : Nat) : Word :=
  BitVec.ofNat 64 (c.codeBase + 4 * ninstr (cs.take idx))

/-- the AArch64 code of the methods of a closure stands in the routine behind a label with byte address `w` -/
def XMethodsAt (c : MemCfg) (cs : List Code) (hooks : Bool) (types : List TypeDecl) (w : Word)
    (envCtx : Ctx) (clauses : Clauses) : Prop :=
  ∃ (base : String) (k k' : Nat) (code : List Code) (idx : Nat),
    (codeMethodsR a64Backend hooks natRen types envCtx clauses base).run k = .ok (code, k') ∧
    XAt cs idx (Code.LAB base ::
      ((if clauses.length > 1 then codeTable a64Backend clauses base else []) ++ code)) ∧
    w = addrOf c cs idx

section
variable (P : Program) (c : MemCfg) (cs : List Code) (hooks : Bool) (types : List TypeDecl)

mutual
  /-- `XV … h κ v ptr a w`: the closures inside the value `v` (represented by pointer part `ptr` and abstract
      word `a` in the abstract heap `h`, by the word `w` on the machine) have their methods on both sides -/
  inductive XV (h : Heap) (κ : Nat → Nat → Word) : Value → Option Word → Word → Word → Prop where
    | int (n : Word) (p : Option Word) (a w : Word) : XV h κ (.int n) p a w
    | obj (tag : Nat) (fields : List Value) (r a w : Word) :
      XB h κ fields r → XV h κ (.obj tag fields) (some r) a w
    | clo (envCtx envCtx' : Ctx) (env : List Value) (clauses : Clauses) (r : Word) (a : Nat) (w : Word) :
      envCtx'.keys = envCtx.keys → XB h κ env r →
      MethodsAt P hooks types a envCtx' clauses → XMethodsAt c cs hooks types w envCtx' clauses →
      XV h κ (.clo envCtx env clauses) (some r) (BitVec.ofNat 64 a) w
  inductive XB (h : Heap) (κ : Nat → Nat → Word) : List Value → Word → Prop where
    | empty : XB h κ [] 0
    | block (v : Value) (vs : List Value) (r : Word) (o : Obj) :
      r ≠ 0 → h.get r.toNat = some o → XF h κ (v :: vs) o.fields r.toNat 0 → XB h κ (v :: vs) r
  /-- field `j`, `j+1`, … of the object `id` -/
  inductive XF (h : Heap) (κ : Nat → Nat → Word) : List Value → List Field → Nat → Nat → Prop where
    | nil (id j : Nat) : XF h κ [] [] id j
    | cons (v : Value) (vs : List Value) (f : Field) (fs : List Field) (id j : Nat) :
      XV h κ v (if f.chi == .ext then none else some f.ptr) f.val (κ id j) →
      XF h κ vs fs id (j + 1) → XF h κ (v :: vs) (f :: fs) id j
end

/-- THE CLOSURE INVARIANT at a statement boundary: the walk for every variable of the context; the machine
word of a variable is what its second temporary holds -/
def XC (Γ : Ctx) (ρ : List Value) (cfg : Config) (κ : Nat → Nat → Word) (σ : State) : Prop :=
  ∀ i (h1 : i < Γ.length) (h2 : i < ρ.length) (w : Word),
    σ.tempVal (posTemp (2 * i + 1)) = some w →
    XV P c cs hooks types cfg.heap κ ρ[i]
      (if Γ[i].chi == .ext then none else cfg.temps.get (2 * i))
      ((cfg.temps.get (2 * i + 1)).getD 0) w

end

end Scc.A64.Ref.K
