/-
  Scc.A64.CCProofsSites — property C13, AArch64, static facts (continued): what the shape
  `CCShape plainCC body` of Scc/A64/CCProofsStatic.lean says about CALL SITES and about the whole routine.

  (i)   `ccShape_call_site`: every `BL` of the body is the call of a print block: it is preceded by
        `blockBefore t ctx` (argument staging; save sequence; argument move) and followed by
        `blockAfter ctx` (restore sequence) for ONE context `ctx`; `save_restore_mirror`: restore = save
        undone (the same backup moves reversed in direction, loads of the stored slots in reverse order,
        `ADD SP` of the amount of the `SUB SP`); `mem_callerSave_iff`: the saved registers are EXACTLY the
        caller-saved registers X0…X17 and the link register X30 (logical 29) that hold something live:
        HEAP, FREE and the temporaries of the context;
  (ii)  `spDelta` / `spSum`: static displacement of `SP`; `spMult16`: every instruction moves SP by a
        multiple of 16.  `routine_call_aligned`: at every call site of the routine the displacement from
        the routine entry is a multiple of 16; `routine_all16`: every SP-writing instruction of the
        routine moves SP by a multiple of 16 (so SP is 16-aligned at every SP-based access, given the
        AAPCS64 entry condition); `routine_balanced`: the displacement at the final `RET` is 0;
  (iii) `routine_anatomy`: routine = head ++ body ++ cleanup; `setup_cleanup_pairing`: setup stores the
        pairs X19/X20 … X29/X30 (logical 18…29) with pre-index −16 and cleanup loads the same pairs in
        reverse order with post-index +16; `routine_spill_refs`: every SP-relative operand of a plain
        instruction lies in the spill area reserved by `SUB SP, SP, 2048`;
  (iv)  `ccShape_nonplain_in_block`: an instruction of the body that writes SP (or is BL / RET / STP / LDP)
        lies inside a print block.
-/
import Scc.A64.CCProofsStatic

set_option linter.unusedVariables false
set_option linter.unusedSimpArgs false

namespace Scc.A64

open Scc.AxCut

/-! ## static displacement of SP -/

/-- what the instruction adds to `SP` -/
def spDelta : Code → Int
  | .ADDI x y i => if x = .sp ∧ y = .sp then i else 0
  | .SUBI x y i => if x = .sp ∧ y = .sp then -i else 0
  | .STP_PRE_INDEX _ _ b i => if b = .sp then i else 0
  | .LDP_POST_INDEX _ _ b i => if b = .sp then i else 0
  | _ => 0

def spSum (l : List Code) : Int := (l.map spDelta).sum

@[simp] theorem spSum_nil : spSum [] = 0 := rfl
@[simp] theorem spSum_cons (c : Code) (l : List Code) : spSum (c :: l) = spDelta c + spSum l := by
  simp [spSum]
@[simp] theorem spSum_append (a b : List Code) : spSum (a ++ b) = spSum a + spSum b := by
  simp [spSum]

/-- every instruction of the list moves SP by a multiple of 16 -/
def All16 (l : List Code) : Prop := ∀ c ∈ l, spDelta c % 16 = 0

theorem all16_append {a b : List Code} (ha : All16 a) (hb : All16 b) : All16 (a ++ b) :=
  fun c hc => (List.mem_append.1 hc).elim (ha c) (hb c)

theorem spDelta_plain {c : Code} (h : plainCC c = true) : spDelta c = 0 := by
  cases c <;> simp [plainCC, isStackOp, codeWrites, codeMems] at h <;> simp [spDelta, *]

theorem spSum_allCC {l : List Code} (h : AllCC l) : spSum l = 0 := by
  induction l with
  | nil => rfl
  | cons c rest ih =>
    simp only [AllCC, List.all_cons, Bool.and_eq_true] at h
    rw [spSum_cons, spDelta_plain h.1, ih h.2]; rfl

theorem all16_allCC {l : List Code} (h : AllCC l) : All16 l := by
  intro c hc
  rw [spDelta_plain (List.all_eq_true.1 h c hc)]; rfl

theorem spSum_moveCodes (pairs : List (Nat × Nat)) : spSum (moveCodes pairs) = 0 := by
  induction pairs with
  | nil => rfl
  | cons p rest ih => simp only [moveCodes, List.map_cons, spSum_cons] at ih ⊢; rw [ih]; rfl

theorem spSum_strCodes (items : List (Nat × Int)) : spSum (strCodes items) = 0 := by
  induction items with
  | nil => rfl
  | cons p rest ih => simp only [strCodes, List.map_cons, spSum_cons] at ih ⊢; rw [ih]; rfl

theorem spSum_ldrCodes (items : List (Nat × Int)) : spSum (ldrCodes items) = 0 := by
  induction items with
  | nil => rfl
  | cons p rest ih => simp only [ldrCodes, List.map_cons, spSum_cons] at ih ⊢; rw [ih]; rfl

theorem all16_moveCodes (pairs : List (Nat × Nat)) : All16 (moveCodes pairs) := by
  intro c hc; simp only [moveCodes, List.mem_map] at hc; obtain ⟨_, _, rfl⟩ := hc; rfl
theorem all16_strCodes (items : List (Nat × Int)) : All16 (strCodes items) := by
  intro c hc; simp only [strCodes, List.mem_map] at hc; obtain ⟨_, _, rfl⟩ := hc; rfl
theorem all16_ldrCodes (items : List (Nat × Int)) : All16 (ldrCodes items) := by
  intro c hc; simp only [ldrCodes, List.mem_map] at hc; obtain ⟨_, _, rfl⟩ := hc; rfl

theorem pushed_mod16 (fb : Nat) (regs : List Nat) : address (pushedCount fb regs) % 16 = 0 := by
  obtain ⟨_, _, h⟩ := roundEven_props (regs.length - backupUsed fb regs)
  have : pushedCount fb regs = roundEven (regs.length - backupUsed fb regs) := rfl
  rw [address_eq, this]; omega

theorem spSum_save (fb : Nat) (regs : List Nat) :
    spSum (saveCallerSaveRegisters fb regs) =
      if regs.length - backupUsed fb regs > 0 then -address (pushedCount fb regs) else 0 := by
  rw [save_decompose]
  split <;> simp [spSum_moveCodes, spSum_strCodes, spDelta]

theorem spSum_restore (fb : Nat) (regs : List Nat) :
    spSum (restoreCallerSaveRegisters fb regs) =
      if regs.length - backupUsed fb regs > 0 then address (pushedCount fb regs) else 0 := by
  rw [restore_decompose]
  split <;> simp [spSum_moveCodes, spSum_ldrCodes, spDelta]

theorem all16_save (fb : Nat) (regs : List Nat) : All16 (saveCallerSaveRegisters fb regs) := by
  rw [save_decompose]
  refine all16_append (all16_moveCodes _) ?_
  split
  · refine all16_append ?_ (all16_strCodes _)
    intro c hc
    simp only [List.mem_singleton] at hc; subst hc
    have := pushed_mod16 fb regs
    simp only [spDelta, and_self, if_true]; omega
  · intro c hc; simp at hc

theorem all16_restore (fb : Nat) (regs : List Nat) : All16 (restoreCallerSaveRegisters fb regs) := by
  rw [restore_decompose]
  refine all16_append (all16_moveCodes _) ?_
  split
  · refine all16_append (all16_ldrCodes _) ?_
    intro c hc
    simp only [List.mem_singleton] at hc; subst hc
    have := pushed_mod16 fb regs
    simp only [spDelta, and_self, if_true]; exact this
  · intro c hc; simp at hc

/-! ## the anatomy of a print block -/

/-- staging of a spilled argument in TEMP -/
def printPre (t : Temporary) : List Code :=
  match t with
  | .spill _ => .COMMENT "#move argument to TEMP before adapting the stack pointer" :: moveToRegister TEMP t
  | .register _ => []

/-- the move of the argument into X0 -/
def printArgMove (t : Temporary) : Code :=
  match t with
  | .register r => .MOVR (.x 0) r
  | .spill _ => .MOVR (.x 0) TEMP

/-- the part of a print block before its `BL` -/
def blockBefore (t : Temporary) (ctx : Ctx) : List Code :=
  printPre t ++ [Code.COMMENT "#save caller-save registers"] ++
    saveCallerSaveRegisters (callerSaveRegistersInfo ctx).1 (callerSaveRegistersInfo ctx).2 ++
    [Code.COMMENT "#move argument into place", printArgMove t]

/-- the part of a print block after its `BL` -/
def blockAfter (ctx : Ctx) : List Code :=
  Code.COMMENT "#restore caller-save registers" ::
    restoreCallerSaveRegisters (callerSaveRegistersInfo ctx).1 (callerSaveRegistersInfo ctx).2

def printFn (nl : Bool) : String := if nl then "println_i64" else "print_i64"

theorem printI64_split (nl : Bool) (t : Temporary) (ctx : Ctx) :
    printI64 nl t ctx = blockBefore t ctx ++ Code.BL (printFn nl) :: blockAfter ctx := by
  cases t <;> simp [printI64, printI64G, blockBefore, blockAfter, printFn, printPre, printArgMove,
    callerSaveRegistersInfo]

def NoCall (l : List Code) : Prop := ∀ c ∈ l, c.isBL = false

theorem noCall_append {a b : List Code} (ha : NoCall a) (hb : NoCall b) : NoCall (a ++ b) :=
  fun c hc => (List.mem_append.1 hc).elim (ha c) (hb c)

theorem noCall_moveCodes (pairs : List (Nat × Nat)) : NoCall (moveCodes pairs) := by
  intro c hc; simp only [moveCodes, List.mem_map] at hc; obtain ⟨_, _, rfl⟩ := hc; rfl
theorem noCall_strCodes (items : List (Nat × Int)) : NoCall (strCodes items) := by
  intro c hc; simp only [strCodes, List.mem_map] at hc; obtain ⟨_, _, rfl⟩ := hc; rfl
theorem noCall_ldrCodes (items : List (Nat × Int)) : NoCall (ldrCodes items) := by
  intro c hc; simp only [ldrCodes, List.mem_map] at hc; obtain ⟨_, _, rfl⟩ := hc; rfl

theorem noCall_save (fb : Nat) (regs : List Nat) : NoCall (saveCallerSaveRegisters fb regs) := by
  rw [save_decompose]
  refine noCall_append (noCall_moveCodes _) ?_
  split
  · exact noCall_append (by intro c hc; simp at hc; subst hc; rfl) (noCall_strCodes _)
  · intro c hc; simp at hc

theorem noCall_restore (fb : Nat) (regs : List Nat) : NoCall (restoreCallerSaveRegisters fb regs) := by
  rw [restore_decompose]
  refine noCall_append (noCall_moveCodes _) ?_
  split
  · exact noCall_append (noCall_ldrCodes _) (by intro c hc; simp at hc; subst hc; rfl)
  · intro c hc; simp at hc

theorem noCall_blockBefore (t : Temporary) (ctx : Ctx) : NoCall (blockBefore t ctx) := by
  unfold blockBefore
  refine noCall_append (noCall_append (noCall_append ?_ ?_) (noCall_save _ _)) ?_
  · cases t <;> simp [NoCall, printPre, moveToRegister, Code.isBL]
  · simp [NoCall, Code.isBL]
  · cases t <;> simp [NoCall, Code.isBL, printArgMove]

theorem noCall_blockAfter (ctx : Ctx) : NoCall (blockAfter ctx) := by
  intro c hc
  simp only [blockAfter, List.mem_cons] at hc
  rcases hc with rfl | hc
  · rfl
  · exact noCall_restore _ _ c hc

theorem spSum_printPre (t : Temporary) : spSum (printPre t) = 0 := by
  cases t <;> simp [printPre, moveToRegister, spDelta]

theorem all16_printPre (t : Temporary) : All16 (printPre t) := by
  intro c hc
  cases t <;> simp [printPre, moveToRegister] at hc
  rcases hc with rfl | rfl <;> rfl

theorem spDelta_printArgMove (t : Temporary) : spDelta (printArgMove t) = 0 := by
  cases t <;> rfl

/-- (ii) for one block: between the block entry and its call SP moves by a multiple of 16 -/
theorem spSum_blockBefore (t : Temporary) (ctx : Ctx) : spSum (blockBefore t ctx) % 16 = 0 := by
  simp only [blockBefore, spSum_append, spSum_printPre, spSum_save, spSum_cons, spSum_nil, spDelta_printArgMove]
  have := pushed_mod16 (callerSaveRegistersInfo ctx).1 (callerSaveRegistersInfo ctx).2
  split <;> simp [spDelta] <;> omega

/-- … and the whole block is balanced -/
theorem spSum_printI64 (nl : Bool) (t : Temporary) (ctx : Ctx) : spSum (printI64 nl t ctx) = 0 := by
  rw [printI64_split]
  simp only [blockBefore, blockAfter, spSum_append, spSum_printPre, spSum_save, spSum_restore, spSum_cons,
    spSum_nil, spDelta_printArgMove]
  split <;> simp [spDelta] <;> omega

theorem all16_printI64 (nl : Bool) (t : Temporary) (ctx : Ctx) : All16 (printI64 nl t ctx) := by
  rw [printI64_split]
  unfold blockBefore blockAfter
  refine all16_append (all16_append (all16_append (all16_append (all16_printPre t) ?_) (all16_save _ _)) ?_) ?_
  · intro c hc; simp at hc; subst hc; rfl
  · intro c hc
    simp only [List.mem_cons, List.not_mem_nil, or_false] at hc
    rcases hc with rfl | rfl
    · rfl
    · rw [spDelta_printArgMove]; rfl
  · intro c hc
    simp only [List.mem_cons] at hc
    rcases hc with rfl | rfl | hc
    · rfl
    · rfl
    · exact all16_restore _ _ c hc

theorem spSum_ccShape {body : List Code} (h : CCShape plainCC body) : spSum body = 0 := by
  induction h with
  | nil => rfl
  | plain hc _ ih => rw [spSum_cons, spDelta_plain hc, ih]; rfl
  | print _ _ ih => rw [spSum_append, spSum_printI64, ih]; rfl

theorem all16_ccShape {body : List Code} (h : CCShape plainCC body) : All16 body := by
  induction h with
  | nil => intro c hc; simp at hc
  | plain hc _ ih =>
    intro c hm
    simp only [List.mem_cons] at hm
    rcases hm with rfl | hm
    · rw [spDelta_plain hc]; rfl
    · exact ih c hm
  | print _ _ ih => exact all16_append (all16_printI64 _ _ _) ih

/-! ## (i) call sites -/

theorem plainCC_noCall {c : Code} (h : plainCC c = true) : c.isBL = false := by
  cases c <;> first | rfl | simp [plainCC, isStackOp] at h

theorem split_at_call {B1 B2 pre post : List Code} {a b : Code} (h1 : NoCall B1)
    (hb : b.isBL = true) (e : B1 ++ a :: B2 = pre ++ b :: post) (ha : a.isBL = true) (h2 : NoCall B2) :
    pre = B1 ∧ a = b ∧ post = B2 := by
  induction B1 generalizing pre with
  | nil =>
    cases pre with
    | nil => simp at e; exact ⟨rfl, e.1, e.2.symm⟩
    | cons x pre' =>
      simp only [List.nil_append, List.cons_append, List.cons.injEq] at e
      have : b ∈ B2 := by rw [e.2]; simp
      have := h2 b this
      rw [hb] at this; cases this
  | cons x B1' ih =>
    cases pre with
    | nil =>
      simp only [List.cons_append, List.nil_append, List.cons.injEq] at e
      have := h1 x (by simp)
      rw [e.1, hb] at this; cases this
    | cons y pre' =>
      simp only [List.cons_append, List.cons.injEq] at e
      obtain ⟨r1, r2, r3⟩ := ih (fun c hc => h1 c (by simp [hc])) e.2
      exact ⟨by rw [e.1, r1], r2, r3⟩

/-- (i) EVERY CALL SITE of a body is the call of a print block -/
theorem ccShape_call_site {body : List Code} (h : CCShape plainCC body) :
    ∀ {pre post : List Code} {f : String}, body = pre ++ Code.BL f :: post →
    ∃ pre' nl t ctx post', PrintSrc ctx t ∧ CCShape plainCC pre' ∧ CCShape plainCC post' ∧
      f = printFn nl ∧ pre = pre' ++ blockBefore t ctx ∧ post = blockAfter ctx ++ post' := by
  induction h with
  | nil => intro pre post f e; simp at e
  | @plain c rest hc hrest ih =>
    intro pre post f e
    cases pre with
    | nil =>
      simp only [List.nil_append, List.cons.injEq] at e
      have := plainCC_noCall hc
      rw [e.1] at this; cases this
    | cons x pre1 =>
      simp only [List.cons_append, List.cons.injEq] at e
      obtain ⟨pre', nl, t, ctx, post', hs, h1, h2, hf, hp, hq⟩ := ih e.2
      exact ⟨x :: pre', nl, t, ctx, post', hs, .plain (e.1 ▸ hc) h1, h2, hf, by rw [hp]; rfl, hq⟩
  | @print nl t ctx rest hs hrest ih =>
    intro pre post f e
    rcases List.append_eq_append_iff.1 e with ⟨m, hm1, hm2⟩ | ⟨m, hm1, hm2⟩
    · obtain ⟨pre', nl', t', ctx', post', hs', h1, h2, hf, hp, hq⟩ := ih hm2
      refine ⟨printI64 nl t ctx ++ pre', nl', t', ctx', post', hs', ?_, h2, hf, ?_, hq⟩
      · exact CCShape.append (CCShape.printBlock hs) h1
      · rw [hm1, hp, List.append_assoc]
    · cases m with
      | nil =>
        simp only [List.append_nil] at hm1
        simp only [List.nil_append] at hm2
        obtain ⟨pre', nl', t', ctx', post', hs', h1, h2, hf, hp, hq⟩ :=
          ih (pre := []) (post := post) (f := f) (by simpa using hm2.symm)
        refine ⟨printI64 nl t ctx ++ pre', nl', t', ctx', post', hs', ?_, h2, hf, ?_, hq⟩
        · exact CCShape.append (CCShape.printBlock hs) h1
        · rw [← hm1, List.append_assoc, ← hp]; simp
      | cons x m' =>
        simp only [List.cons_append, List.cons.injEq] at hm2
        obtain ⟨hx, hpost⟩ := hm2
        subst hx
        rw [printI64_split] at hm1
        obtain ⟨r1, r2, r3⟩ := split_at_call (noCall_blockBefore t ctx) rfl hm1 rfl (noCall_blockAfter ctx)
        simp only [Code.BL.injEq] at r2
        exact ⟨[], nl, t, ctx, rest, hs, .nil, hrest, r2.symm, by rw [r1]; rfl, by rw [hpost, r3]⟩

/-- (ii) for bodies: the displacement of SP between the start of the body and any of its call sites
    is a multiple of 16 -/
theorem ccShape_call_aligned {body : List Code} (h : CCShape plainCC body) {pre post : List Code} {f : String}
    (e : body = pre ++ Code.BL f :: post) : spSum pre % 16 = 0 := by
  obtain ⟨pre', nl, t, ctx, post', _, h1, _, _, hp, _⟩ := ccShape_call_site h e
  rw [hp, spSum_append, spSum_ccShape h1]
  have := spSum_blockBefore t ctx
  omega

theorem plainCC_spec {c : Code} (h : plainCC c = true) :
    isStackOp c = false ∧ Register.sp ∉ codeWrites c ∧ ∀ bi ∈ codeMems c, bi.1 = .sp → slotOK bi.2 = true := by
  simp only [plainCC, Bool.and_eq_true, Bool.not_eq_true', List.all_eq_true, bne_iff_ne, ne_eq,
    Bool.or_eq_true] at h
  refine ⟨h.1.1, fun h0 => h.1.2 _ h0 rfl, fun bi hbi h0 => ?_⟩
  rcases h.2 bi hbi with h1 | h1
  · exact absurd h0 h1
  · exact h1

/-- (iv) an instruction of the body that is NOT plain lies inside a print block -/
theorem ccShape_nonplain_in_block {plain : Code → Bool} {body : List Code} (h : CCShape plain body) :
    ∀ (k : Nat) (c : Code), body[k]? = some c → plain c = false →
      ∃ j nl t ctx, PrintSrc ctx t ∧ j ≤ k ∧ k < j + (printI64 nl t ctx).length ∧
        (body.drop j).take (printI64 nl t ctx).length = printI64 nl t ctx := by
  induction h with
  | nil => intro k c hk; simp at hk
  | @plain c0 rest hc hrest ih =>
    intro k c hk hp
    cases k with
    | zero =>
      simp only [List.getElem?_cons_zero, Option.some.injEq] at hk
      subst hk
      rw [hc] at hp; cases hp
    | succ k =>
      obtain ⟨j, nl, t, ctx, hs, h1, h2, h3⟩ := ih k c (by simpa using hk) hp
      exact ⟨j + 1, nl, t, ctx, hs, by omega, by omega, by simpa using h3⟩
  | @print nl t ctx rest hs hrest ih =>
    intro k c hk hp
    by_cases hlt : k < (printI64 nl t ctx).length
    · exact ⟨0, nl, t, ctx, hs, by omega, by omega, by simp⟩
    · have hge : (printI64 nl t ctx).length ≤ k := by omega
      rw [List.getElem?_append_right hge] at hk
      obtain ⟨j, nl', t', ctx', hs', h1, h2, h3⟩ := ih _ c hk hp
      refine ⟨j + (printI64 nl t ctx).length, nl', t', ctx', hs', by omega, by omega, ?_⟩
      rw [show j + (printI64 nl t ctx).length = (printI64 nl t ctx).length + j by omega, ← List.drop_drop,
        List.drop_left]
      exact h3

/-! ## the saved registers are exactly the live caller-saved registers -/

theorem go_mem_inv : ∀ (ctx : Ctx) (off r : Nat), r ∈ callerSaveRegistersInfoG.go ctx off →
    ∃ i b, ctx[i]? = some b ∧ (r = 5 + 2 * (off + i) ∨ (r = 4 + 2 * (off + i) ∧ b.chi ≠ .ext))
  | [], _, _, h => by simp [callerSaveRegistersInfoG.go] at h
  | b0 :: rest, off, r, h => by
    simp only [callerSaveRegistersInfoG.go, CSF_eq, List.mem_append] at h
    rcases h with h | h
    · refine ⟨0, b0, rfl, ?_⟩
      split at h
      · simp at h; left; omega
      · rename_i hne
        simp at h
        rcases h with h | h
        · right; exact ⟨by omega, fun e => hne (by rw [e]; decide)⟩
        · left; omega
    · obtain ⟨i, b, hb, hr⟩ := go_mem_inv rest (off + 1) r h
      refine ⟨i + 1, b, by simpa using hb, ?_⟩
      rcases hr with hr | hr
      · left; omega
      · right; exact ⟨by omega, hr.2⟩

/-- (i) EXACTNESS: `registers_to_save` = the caller-saved registers (logical 0…17 = X0…X17, and
    logical 29 = X30, the link register) that hold something live: HEAP (X0), FREE (X1) and the
    temporaries of the variables of the context -/
theorem mem_callerSave_iff (ctx : Ctx) (r : Nat) :
    r ∈ (callerSaveRegistersInfo ctx).2 ↔ ((r ≤ 17 ∨ r = 29) ∧ LiveReg ctx r) := by
  unfold callerSaveRegistersInfo
  rw [info_eq]
  dsimp only
  obtain ⟨g1, _, g3⟩ := go_spec (ctx.take 7) 0
  have htl : (ctx.take 7).length ≤ 7 := by simp; omega
  constructor
  · intro h
    simp only [List.mem_append, List.mem_cons, List.not_mem_nil, or_false] at h
    rcases h with (h | h) | h
    · rcases h with rfl | rfl
      · exact ⟨Or.inl (by omega), Or.inl rfl⟩
      · exact ⟨Or.inl (by omega), Or.inr (Or.inl rfl)⟩
    · -- the link register
      unfold lrList at h
      simp only [Bool.false_eq_true, if_false] at h
      split at h
      · rename_i hlen
        simp only [List.mem_singleton] at h
        subst h
        have hlen' : 13 ≤ ctx.length := by
          have : 2 * ctx.length + 4 ≥ 30 := by simpa using hlen
          omega
        refine ⟨Or.inr rfl, Or.inr (Or.inr ⟨12, ctx[12]'(by omega), by simp, Or.inl rfl⟩)⟩
      · simp at h
    · obtain ⟨i, b, hb, hr⟩ := go_mem_inv _ 0 r h
      have hi : i < (ctx.take 7).length := by
        rcases Nat.lt_or_ge i (ctx.take 7).length with h' | h'
        · exact h'
        · simp [List.getElem?_eq_none h'] at hb
      have hi7 : i < 7 := by omega
      have hb' : ctx[i]? = some b := by rw [List.getElem?_take_of_lt hi7] at hb; exact hb
      have hbound := g1 r h
      refine ⟨Or.inl (by omega), Or.inr (Or.inr ⟨i, b, hb', ?_⟩)⟩
      rcases hr with hr | hr
      · left; omega
      · right; exact ⟨by omega, hr.2⟩
  · rintro ⟨hcls, hlive⟩
    simp only [List.mem_append, List.mem_cons, List.not_mem_nil, or_false]
    rcases hlive with rfl | rfl | ⟨i, b, hb, hr⟩
    · exact Or.inl (Or.inl (Or.inl rfl))
    · exact Or.inl (Or.inl (Or.inr rfl))
    · have hi : i < ctx.length := by
        rcases Nat.lt_or_ge i ctx.length with h' | h'
        · exact h'
        · simp [List.getElem?_eq_none h'] at hb
      rcases hcls with h17 | h29
      · have hi7 : i < 7 := by rcases hr with hr | hr <;> omega
        have hb' : (ctx.take 7)[i]? = some b := by rw [List.getElem?_take_of_lt hi7]; exact hb
        obtain ⟨m1, m2⟩ := g3 i b hb'
        right
        rcases hr with hr | hr
        · have e : 5 + 2 * (0 + i) = r := by omega
          rw [← e]; exact m1
        · have e : 4 + 2 * (0 + i) = r := by omega
          rw [← e]; exact m2 hr.2
      · left; right
        have hlen : 13 ≤ ctx.length := by rcases hr with hr | hr <;> omega
        unfold lrList
        simp only [Bool.false_eq_true, if_false]
        rw [if_pos (by simpa using (by omega : 2 * ctx.length + 4 ≥ 30))]
        simp [h29]

/-- (i) MIRROR: the restore sequence undoes the save sequence -/
theorem save_restore_mirror (fb : Nat) (regs : List Nat) :
    saveCallerSaveRegisters fb regs =
      moveCodes (saveMoves fb regs) ++
        (if regs.length - backupUsed fb regs > 0 then
          [.SUBI .sp .sp (address (pushedCount fb regs))] ++ strCodes (pushItems fb regs) else []) ∧
    restoreCallerSaveRegisters fb regs =
      moveCodes ((saveMoves fb regs).map fun p => (p.2, p.1)) ++
        (if regs.length - backupUsed fb regs > 0 then
          ldrCodes (pushItems fb regs).reverse ++ [.ADDI .sp .sp (address (pushedCount fb regs))] else []) ∧
    (saveMoves fb regs).map (·.2) ++ (pushItems fb regs).map (·.1) = regs :=
  ⟨save_decompose fb regs, restore_decompose fb regs, by
    rw [saveMoves_snd, pushItems_fst, List.take_append_drop]⟩

/-- the backup registers are free (above every live register) callee-saved registers X19…X29
    (logical 18…28) -/
theorem backupRegs_free (ctx : Ctx) : ∀ p ∈ saveMoves (callerSaveRegistersInfo ctx).1 (callerSaveRegistersInfo ctx).2,
    18 ≤ p.1 ∧ p.1 ≤ 28 ∧ 2 * ctx.length + 4 ≤ p.1 := by
  intro p hp
  obtain ⟨h1, h2, _⟩ := mem_saveMoves hp
  have hu := backupUsed_le' (callerSaveRegistersInfo ctx).1 (callerSaveRegistersInfo ctx).2
  have hfb : (callerSaveRegistersInfo ctx).1 = max (2 * ctx.length + 4) 18 := rfl
  rw [hfb] at h1 h2 hu
  omega

/-! ## (iii) the routine -/

/-- everything `into_aarch64_routine` puts before the body -/
def routineHead (su : List Code) : List Code := preamble ++ su ++ [Code.COMMENT "actual code"]

theorem routine_anatomy {body routine : List Code} {n : Nat} (h : intoRoutine body n = .ok routine) :
    ∃ su, setup n = .ok su ∧ routine = routineHead su ++ body ++ cleanup := by
  unfold intoRoutine at h
  split at h
  · cases h
  · rename_i su hsu
    cases h
    exact ⟨su, hsu, by simp [routineHead]⟩

/-- the fixed part of `setup`, before and after the argument moves -/
def setupPushes : List Code :=
  [ .COMMENT "setup", .COMMENT "save registers",
    .STP_PRE_INDEX (.x 18) (.x 19) .sp (-16), .STP_PRE_INDEX (.x 20) (.x 21) .sp (-16),
    .STP_PRE_INDEX (.x 22) (.x 23) .sp (-16), .STP_PRE_INDEX (.x 24) (.x 25) .sp (-16),
    .STP_PRE_INDEX (.x 26) (.x 27) .sp (-16), .STP_PRE_INDEX (.x 28) (.x 29) .sp (-16),
    .COMMENT "reserve space for register spills", .SUBI .sp .sp 2048 ]

def setupTail : List Code :=
  [ .COMMENT "initialize free pointer", .MOVR FREE HEAP, .ADDI FREE FREE (fieldOffset 0 FIELDS_PER_BLOCK) ]

theorem setup_eq {n : Nat} {su : List Code} (h : setup n = .ok su) :
    ∃ moves, moveArguments n = .ok moves ∧ su = setupPushes ++ moves ++ setupTail := by
  unfold setup at h
  split at h
  · cases h
  · rename_i moves hm
    cases h
    exact ⟨moves, hm, by simp [setupPushes, setupTail, SPILL_SPACE]⟩

/-- (iii) PAIRING: setup stores X19/X20 … X29/X30 (logical 18/19 … 28/29: every callee-saved register
    of AAPCS64 including the frame and link registers) with pre-index −16; cleanup loads the same pairs
    in reverse order with post-index +16, after releasing the spill area that setup reserved -/
theorem setup_cleanup_pairing :
    setupPushes = [Code.COMMENT "setup", Code.COMMENT "save registers"] ++
      ([(18, 19), (20, 21), (22, 23), (24, 25), (26, 27), (28, 29)].map fun (p : Nat × Nat) =>
        Code.STP_PRE_INDEX (.x p.1) (.x p.2) .sp (-16)) ++
      [Code.COMMENT "reserve space for register spills", Code.SUBI .sp .sp 2048] ∧
    cleanup = [Code.LAB "cleanup", Code.COMMENT "free space for register spills", Code.ADDI .sp .sp 2048,
        Code.COMMENT "restore registers"] ++
      ([(18, 19), (20, 21), (22, 23), (24, 25), (26, 27), (28, 29)].reverse.map fun (p : Nat × Nat) =>
        Code.LDP_POST_INDEX (.x p.1) (.x p.2) .sp 16) ++ [Code.RET] :=
  ⟨rfl, rfl⟩

/-- `move_arguments` emits comments and register moves -/
def isArgMove : Code → Bool
  | .COMMENT _ => true
  | .MOVR (.x _) (.x _) => true
  | _ => false

theorem moveArguments_shape : ∀ (n : Nat) (codes : List Code), moveArguments n = .ok codes →
    ∀ c ∈ codes, isArgMove c = true
  | 0, codes, h => by
    simp only [moveArguments, Except.ok.injEq] at h; subst h; simp [isArgMove]
  | 1, codes, h => by
    simp only [moveArguments, Except.ok.injEq] at h; subst h; simp [isArgMove]
  | k + 2, codes, h => by
    simp only [moveArguments] at h
    split at h
    · split at h
      · rename_i rest hrest
        cases h
        intro c hc
        simp only [List.cons_append, List.nil_append, List.mem_cons] at hc
        rcases hc with rfl | rfl | hc
        · rfl
        · rfl
        · exact moveArguments_shape (k + 1) rest hrest c hc
      · cases h
    · cases h

theorem plainInt_of_isArgMove {c : Code} (h : isArgMove c = true) :
    plainInt c = true ∧ codeJumpRef c = none := by
  cases c <;> simp [isArgMove] at h <;> try exact ⟨rfl, rfl⟩
  rename_i x y
  cases x <;> cases y <;> simp [isArgMove] at h
  exact ⟨rfl, rfl⟩

theorem allCC_of_argMoves {moves : List Code} (h : ∀ c ∈ moves, isArgMove c = true) : AllCC moves :=
  List.all_eq_true.2 fun c hc => plainCC_of_plainInt (plainInt_of_isArgMove (h c hc)).1

theorem spSum_setup {n : Nat} {su : List Code} (h : setup n = .ok su) : spSum su = -2144 := by
  obtain ⟨moves, hm, rfl⟩ := setup_eq h
  rw [spSum_append, spSum_append, spSum_allCC (allCC_of_argMoves (moveArguments_shape n moves hm))]
  rfl

theorem all16_setup {n : Nat} {su : List Code} (h : setup n = .ok su) : All16 su := by
  obtain ⟨moves, hm, rfl⟩ := setup_eq h
  refine all16_append (all16_append ?_ (all16_allCC (allCC_of_argMoves (moveArguments_shape n moves hm)))) ?_
  · intro c hc
    simp only [setupPushes, List.mem_cons, List.not_mem_nil, or_false] at hc
    rcases hc with rfl | rfl | rfl | rfl | rfl | rfl | rfl | rfl | rfl | rfl <;> rfl
  · intro c hc
    simp only [setupTail, List.mem_cons, List.not_mem_nil, or_false] at hc
    rcases hc with rfl | rfl | rfl <;> rfl

theorem spSum_cleanup : spSum cleanup.dropLast = 2144 := rfl

theorem all16_cleanup : All16 cleanup := by
  intro c hc
  simp only [cleanup, List.mem_cons, List.not_mem_nil, or_false] at hc
  rcases hc with rfl | rfl | rfl | rfl | rfl | rfl | rfl | rfl | rfl | rfl | rfl <;> rfl

theorem noCall_of_allCC {l : List Code} (h : AllCC l) : NoCall l :=
  fun c hc => plainCC_noCall (List.all_eq_true.1 h c hc)

theorem noCall_setup {n : Nat} {su : List Code} (h : setup n = .ok su) : NoCall su := by
  obtain ⟨moves, hm, rfl⟩ := setup_eq h
  refine noCall_append (noCall_append ?_ (noCall_of_allCC (allCC_of_argMoves (moveArguments_shape n moves hm)))) ?_
  · intro c hc
    simp only [setupPushes, List.mem_cons, List.not_mem_nil, or_false] at hc
    rcases hc with rfl | rfl | rfl | rfl | rfl | rfl | rfl | rfl | rfl | rfl <;> rfl
  · intro c hc
    simp only [setupTail, List.mem_cons, List.not_mem_nil, or_false] at hc
    rcases hc with rfl | rfl | rfl <;> rfl

theorem noCall_routineHead {n : Nat} {su : List Code} (h : setup n = .ok su) : NoCall (routineHead su) := by
  unfold routineHead
  refine noCall_append (noCall_append ?_ (noCall_setup h)) ?_
  · simp [NoCall, preamble, Code.isBL]
  · simp [NoCall, Code.isBL]

theorem noCall_cleanup : NoCall cleanup := by
  intro c hc
  simp only [cleanup, List.mem_cons, List.not_mem_nil, or_false] at hc
  rcases hc with rfl | rfl | rfl | rfl | rfl | rfl | rfl | rfl | rfl | rfl | rfl <;> rfl

theorem spSum_routineHead {n : Nat} {su : List Code} (h : setup n = .ok su) : spSum (routineHead su) = -2144 := by
  simp only [routineHead, spSum_append, spSum_setup h]
  rfl

/-- a call in `H ++ B ++ E`, where `H` and `E` contain no call, is a call of `B` -/
theorem call_in_middle {H B E pre post : List Code} {f : String} (hH : NoCall H) (hE : NoCall E)
    (e : H ++ (B ++ E) = pre ++ Code.BL f :: post) :
    ∃ pre' post', pre = H ++ pre' ∧ B = pre' ++ Code.BL f :: post' ∧ post = post' ++ E := by
  have key : ∀ a' : List Code, B ++ E = a' ++ Code.BL f :: post →
      ∃ post', B = a' ++ Code.BL f :: post' ∧ post = post' ++ E := by
    intro a' e2
    rcases List.append_eq_append_iff.1 e2 with ⟨m, hm1, hm2⟩ | ⟨m, hm1, hm2⟩
    · have : Code.BL f ∈ E := by rw [hm2]; simp
      have := hE _ this
      cases this
    · cases m with
      | nil =>
        simp only [List.nil_append] at hm2
        have : Code.BL f ∈ E := by rw [← hm2]; simp
        have := hE _ this
        cases this
      | cons x m' =>
        simp only [List.cons_append, List.cons.injEq] at hm2
        obtain ⟨rfl, hp⟩ := hm2
        exact ⟨m', hm1, hp⟩
  rcases List.append_eq_append_iff.1 e with ⟨m, hm1, hm2⟩ | ⟨m, hm1, hm2⟩
  · obtain ⟨post', h1, h2⟩ := key m hm2
    exact ⟨m, post', hm1, h1, h2⟩
  · cases m with
    | nil =>
      simp only [List.append_nil] at hm1
      simp only [List.nil_append] at hm2
      obtain ⟨post', h1, h2⟩ := key [] (by simpa using hm2.symm)
      exact ⟨[], post', by simp [hm1], h1, h2⟩
    | cons x m' =>
      simp only [List.cons_append, List.cons.injEq] at hm2
      obtain ⟨rfl, _⟩ := hm2
      have : Code.BL f ∈ H := by rw [hm1]; simp
      have := hH _ this
      cases this

/-- (ii) ALIGNMENT AT EVERY CALL SITE OF THE ROUTINE: the static displacement of SP between the routine
    entry and the call is a multiple of 16 -/
theorem routine_call_aligned {body routine : List Code} {n : Nat} (hb : CCShape plainCC body)
    (h : intoRoutine body n = .ok routine) {pre post : List Code} {f : String}
    (e : routine = pre ++ Code.BL f :: post) : spSum pre % 16 = 0 := by
  obtain ⟨su, hsu, hr⟩ := routine_anatomy h
  rw [hr, List.append_assoc] at e
  obtain ⟨pre', post', h1, h2, _⟩ := call_in_middle (noCall_routineHead hsu) noCall_cleanup e
  rw [h1, spSum_append, spSum_routineHead hsu]
  have := ccShape_call_aligned hb h2
  omega

/-- (ii) EVERY SP-WRITING INSTRUCTION OF THE ROUTINE moves SP by a multiple of 16 -/
theorem routine_all16 {body routine : List Code} {n : Nat} (hb : CCShape plainCC body)
    (h : intoRoutine body n = .ok routine) : All16 routine := by
  obtain ⟨su, hsu, hr⟩ := routine_anatomy h
  rw [hr]
  refine all16_append (all16_append ?_ (all16_ccShape hb)) all16_cleanup
  unfold routineHead
  refine all16_append (all16_append ?_ (all16_setup hsu)) ?_
  · intro c hc
    simp only [preamble, List.mem_cons, List.not_mem_nil, or_false] at hc
    rcases hc with rfl | rfl | rfl <;> rfl
  · intro c hc; simp at hc; subst hc; rfl

/-- (ii)/(iii) BALANCE: at the final `RET` the static displacement is 0 -/
theorem routine_balanced {body routine : List Code} {n : Nat} (hb : CCShape plainCC body)
    (h : intoRoutine body n = .ok routine) : spSum routine.dropLast = 0 ∧ routine.getLast? = some Code.RET := by
  obtain ⟨su, hsu, hr⟩ := routine_anatomy h
  have hc : cleanup = cleanup.dropLast ++ [Code.RET] := rfl
  have e : routine = (routineHead su ++ body ++ cleanup.dropLast) ++ [Code.RET] := by
    rw [hr, hc]; simp
  rw [e, List.dropLast_concat, List.getLast?_concat]
  refine ⟨?_, rfl⟩
  rw [spSum_append, spSum_append, spSum_routineHead hsu, spSum_ccShape hb, spSum_cleanup]
  rfl

/-! ## (iii) spill area -/

/-- every `SP`-relative operand addresses a word of the spill area -/
def spillRefsOK (c : Code) : Bool := (codeMems c).all (fun bi => bi.1 != .sp || slotOK bi.2)

theorem spillRefsOK_of_plainCC {c : Code} (h : plainCC c = true) : spillRefsOK c = true := by
  simp only [plainCC, Bool.and_eq_true] at h
  exact h.2

/-- (iii) SPILL AREA: setup reserves `SPILL_SPACE = 2048` bytes; every SP-relative operand of a PLAIN
    instruction of the body addresses an 8-aligned word `[SP, d]` with `0 ≤ d`, `d + 8 ≤ 2048` (inside a
    print block, SP-relative operands address the words the block itself allocated below the boundary
    SP — `pushItems` — and the staging of a spilled argument comes BEFORE the `SUB SP`) -/
theorem ccShape_spill_refs {body : List Code} (h : CCShape plainCC body) (k : Nat) (c : Code)
    (hk : body[k]? = some c) :
    spillRefsOK c = true ∨ ∃ j nl t ctx, PrintSrc ctx t ∧ j ≤ k ∧ k < j + (printI64 nl t ctx).length ∧
      (body.drop j).take (printI64 nl t ctx).length = printI64 nl t ctx := by
  cases hp : plainCC c with
  | true => exact Or.inl (spillRefsOK_of_plainCC hp)
  | false => exact Or.inr (ccShape_nonplain_in_block h k c hk hp)

end Scc.A64
