/-
  Scc.A64.LoaderRoutine — EVERY ROUTINE THE AArch64 BACKEND MODEL EMITS IS TEXT-SAFE:

  * registers: `opsSat_a64` — the AArch64 instance of the generic whole-program lifting `OpsSat` /
    `post_compileR` of Scc/X86/ProofsWfProg.lean, with `P := Code.wf` (operand classes and ranges of the
    monitor `wf`; in particular every register exists), from the per-method theorem `C14_methods_wf`
    (Props/C14A64.lean); `routine_wf`: every item of the routine of a program within the bounds
    (`ProgInRangeA64`: ≤ 1024 xtors per type, ≤ 4096 pairs per substitution) is `Code.wf`;
  * names: `routine_namesOK` (LoaderA64Names.lean);
  * `routine_codeTextOK`: hence every item passes `codeTextOK`, and `routine_loads`: the loader reads the
    printed routine back (`parseText (printProg routine) = .ok (numberFrom 1 (progPLines routine))`).
  Proof file.
-/
import Scc.A64.LoaderA64Names
import Scc.Props.C14A64

set_option linter.unusedVariables false

namespace Scc.A64.Loader

open Scc.AxCut Scc.Backend Scc.A64
open Scc.X86 (AllP Post OpsSat ProgB post_compileR)
open Scc.X86.Loader (progNamesOK)

/-! ## registers and operand ranges of whole programs -/

theorem post_of_genAll {α : Type} {m : GenM α} {Q : α → Prop} (h : GenAll Q m) : Post m Q :=
  fun c a c' hr => h c a c' hr

theorem allP_of_allWf {l : List Code} (h : allWf l = true) : AllP (fun c => c.wf = true) l := by
  simp only [allWf, List.all_eq_true] at h
  exact h

theorem post_of_genWf {m : GenM (List Code)} (h : GenWf m) : Post m (AllP (fun c => c.wf = true)) :=
  (post_of_genAll h).mono fun _ => allP_of_allWf

/-- the bounds of the instruction forms: `ADD` (immediate) of the jump-table offset (`4·k < 4096`) and of
    the share count -/
def maxTagsA64 : Nat := 1024
def maxSubstA64 : Nat := 4096

theorem opsSat_a64 :
    OpsSat a64Backend (fun c => c.wf = true) (fun t => t.ok = true) (fun _ => True) maxTagsA64 maxSubstA64 where
  temp := by decide
  return1 := by decide
  vt := fun n ctx id => post_of_genAll ((C14_methods_wf.temporaries n ctx).2 id)
  comment := fun m => (C14_methods_wf.comment m "").1
  label := fun l => (C14_methods_wf.comment "" l).2
  jump := fun t ht => allP_of_allWf (C14_methods_wf.jump t ht)
  jumpLabel := fun l => allP_of_allWf (C14_methods_wf.jumpLabel l).1
  jumpLabelFixed := fun l => allP_of_allWf (C14_methods_wf.jumpLabel l).2
  jumpLabelIf := fun s a b l ha hb => allP_of_allWf (C14_methods_wf.jumpLabelIf s a b l ha hb).1
  jumpLabelIfZero := fun s a l ha => allP_of_allWf (C14_methods_wf.jumpLabelIf s a a l ha ha).2
  loadImmediate := fun t n ht _ => allP_of_allWf (C14_methods_wf.loadImmediate t n ht)
  tagLit := fun _ _ => trivial
  loadLabel := fun t l ht => allP_of_allWf (C14_methods_wf.loadLabel t l ht)
  addAndJump := fun t k ht hk => allP_of_allWf (C14_methods_wf.addAndJump t k ht (by
    simp only [maxTagsA64] at hk; omega))
  binop := fun o t s1 s2 ht h1 h2 => allP_of_allWf (C14_methods_wf.binop o t s1 s2 ht h1 h2)
  mov := fun t s ht hs => allP_of_allWf (C14_methods_wf.mov t s ht hs)
  printI64 := fun nl t ctx ht => post_of_genWf (C14_methods_wf.printI64 nl t ctx ht)
  eraseBlock := fun t ht => post_of_genWf (C14_methods_wf.eraseBlock t ht)
  shareBlockN := fun t n ht hn => post_of_genWf (C14_methods_wf.shareBlockN t n ht hn)
  store := fun a b => post_of_genWf (C14_methods_wf.store a b)
  load := fun a b => post_of_genWf (C14_methods_wf.load a b)
  storeTemporary := fun t sp ht => allP_of_allWf (C14_methods_wf.storeRestore t sp ht).1
  restoreTemporary := fun t sp ht => allP_of_allWf (C14_methods_wf.storeRestore t sp ht).2

/-- the hypothesis on programs: at most 1024 xtors per type, at most 4096 pairs per substitution -/
def ProgInRangeA64 (p : AxCut.Prog) : Prop := ProgB (fun _ => True) maxTagsA64 maxSubstA64 p

theorem wf_regsOK {c : Code} (h : c.wf = true) : regsOK c = true := by
  unfold Code.wf at h
  cases hi : c.toInstr with
  | some i => cases c <;> first | rfl | (simp only [regsOK, hi]; rfl)
  | none =>
    rw [hi] at h
    cases c <;> first | rfl | (simp [Code.isMeta] at h)

/-- C14 operand classes and ranges for WHOLE PROGRAMS (AArch64): every item of the body and of the
    routine emitted for a program within the bounds passes the per-instruction check of the monitor `wf` -/
theorem routine_wf {p : AxCut.Prog} {hooks : Bool} {c0 : Nat} {body routine : List Code} {nargs : Nat}
    (hp : ProgInRangeA64 p) (h : compileProg a64Backend p hooks c0 = .ok (body, nargs, routine)) :
    allWf body = true ∧ allWf routine = true := by
  unfold compileProg at h
  split at h
  · cases h
  · rename_i b n c' hr
    have hb : AllP (fun c => c.wf = true) b := post_compileR opsSat_a64 hooks natRen p hp c0 _ c' hr
    have hb' : allWf b = true := by simp only [allWf, List.all_eq_true]; exact hb
    split at h
    · cases h
    · rename_i rt hrt
      cases h
      refine ⟨hb', ?_⟩
      unfold intoRoutine at hrt
      split at hrt
      · cases hrt
      · rename_i su hsu
        cases hrt
        have hn : nargs ≤ 7 := by
          by_cases hle : nargs ≤ 7
          · exact hle
          · exfalso
            have : ∀ k, 7 < k → ∀ cs, moveArguments k ≠ .ok cs := by
              intro k hk cs
              match k, hk with
              | k + 2, hk =>
                simp only [moveArguments]
                rw [if_neg (by omega)]
                intro e; cases e
            unfold setup at hsu
            split at hsu
            · cases hsu
            · rename_i mv hmv
              exact this nargs (by omega) mv hmv
        obtain ⟨cs, hcs, hwf⟩ := C14_methods_wf.routine.1 nargs hn
        rw [hsu] at hcs
        cases hcs
        simp only [allWf_append, Bool.and_eq_true]
        exact ⟨⟨⟨⟨C14_methods_wf.routine.2.2, hwf⟩, rfl⟩, hb'⟩, C14_methods_wf.routine.2.1⟩

/-! ## every routine is text-safe -/

/-- every item of the routine emitted for a program within the bounds whose names are text-safe passes
    `codeTextOK` -/
theorem routine_codeTextOK {p : AxCut.Prog} {hooks : Bool} {c0 : Nat} {body routine : List Code} {nargs : Nat}
    (hrange : ProgInRangeA64 p) (hnames : progNamesOK okcA p = true)
    (h : compileProg a64Backend p hooks c0 = .ok (body, nargs, routine)) :
    (∀ c ∈ body, codeTextOK c = true) ∧ (∀ c ∈ routine, codeTextOK c = true) := by
  obtain ⟨hw1, hw2⟩ := routine_wf hrange h
  obtain ⟨hn1, hn2⟩ := routine_namesOK hnames h
  simp only [allWf, List.all_eq_true] at hw1 hw2
  simp only [NmOK, List.all_eq_true] at hn1 hn2
  constructor
  · intro c hc
    simp only [codeTextOK, Bool.and_eq_true]
    exact ⟨wf_regsOK (hw1 c hc), hn1 c hc⟩
  · intro c hc
    simp only [codeTextOK, Bool.and_eq_true]
    exact ⟨wf_regsOK (hw2 c hc), hn2 c hc⟩

/-- **the routine the backend model emits for a program within the bounds with text-safe names LOADS**:
    the machine's parser reads its printed text as the lines of its items — no evaluation -/
theorem routine_loads {p : AxCut.Prog} {hooks : Bool} {c0 : Nat} {body routine : List Code} {nargs : Nat}
    (hrange : ProgInRangeA64 p) (hnames : progNamesOK okcA p = true)
    (h : compileProg a64Backend p hooks c0 = .ok (body, nargs, routine)) :
    parseText (printProg routine) = .ok (numberFrom 1 (progPLines routine)) :=
  parseText_printProg routine (progOK_of_codeTextOK (routine_codeTextOK hrange hnames h).2)

end Scc.A64.Loader
