/-
  Scc.A64.ConcKRun — the STATEMENT BOUNDARIES of the AArch64 run of ANY program (data types and closures),
  made explicit.  The AArch64 analogue of Scc/X86/ConcRun.lean + ConcKRun.lean, over the closure-aware three-way
  relation `Scc.A64.Ref.K.Rel3` (Scc/A64/RefClosHRun.lean).

  * `MS` — a configuration of the machine's run loop (state, item index, trace); `StepsN P c n X Y` — `n`
    iterations of the run loop (without fault, the run does not end in between) lead from `X` to `Y`.
  * `BChain P c Q sts X` — from `X` the machine passes through a chain of configurations, one for each
    positional-machine state of the list `sts`, each in relation `Q` to it.
  * The `BR` of an `invoke` of a single-method closure enters the program at the last label before the first
    instruction behind the method label, so the machine is not AT the statement-boundary item but ahead of it by
    `#ctx` hooks (`Tol`, Scc/A64/RefClosAddr.lean; registers, stack, heap, trace are those of the boundary).  A
    statement boundary of the run is a configuration `X` with `Tol P (pcOf hk cs kp) X.pc` for a position `kp`
    at which `K.Rel3` holds of `X.σ`: `tol_next`.
  * `run3_chain` — along a terminating run of the positional machine the machine passes through a boundary
    for EVERY state of the run, in order.
  * `entry_setup` — loader facts, header (`init_sim3`), Theorem A at the entry, the first `K.Rel3`.
  * `BoundaryOf`, `heapInvAt_of_boundary`, `programs_chain`.
-/
import Scc.A64.ConcKInv
import Scc.A64.ConcKStep
import Scc.X86.ConcRun

set_option linter.unusedVariables false
set_option linter.unusedSimpArgs false

namespace Scc.A64.ConcK

open Scc Scc.AxCut Scc.AxCut.Pos Scc.Backend Scc.Backend.Abs Scc.Backend.Sim Scc.Backend.Subst Scc.A64 Scc.A64.Ref
open Scc.A64.CC
open Scc.Backend.Sim2 Scc.Backend.Keys
open Scc.Props.C14Generic (LabelSafe)
open Scc.Props.C06Generic (outAfter WithinCapacity Reachable EnoughHeap CodeFits statesOf stopsWithin
  reachable_mem_statesOf)
open Scc.Heap (HState InvS InvW)
open Scc.Heap.Refine (HRef FrLe Room)
open Scc.X86.Conc (ctxKinds stopsWithin_of_done ctxKinds_keys)

/-! ## configurations of the run loop -/

/-- a configuration of the machine's run loop: state, program counter (item index), trace (most recent first) -/
structure MS where
  σ : State
  pc : Nat
  out : List (Bool × Word)

/-- `n` iterations of the run loop (no fault, no end of the run in between) lead from `X` to `Y` -/
def StepsN (P : Prog) (c : MemCfg) (n : Nat) (X Y : MS) : Prop :=
  K.MStepsN P c n X.σ X.pc X.out Y.σ Y.pc Y.out

theorem StepsN.refl (P : Prog) (c : MemCfg) (X : MS) : StepsN P c 0 X X := K.MStepsN.refl _ _ _

theorem StepsN.trans {P : Prog} {c : MemCfg} {n m : Nat} {X Y Z : MS} (h1 : StepsN P c n X Y)
    (h2 : StepsN P c m Y Z) : StepsN P c (n + m) X Z := K.MStepsN.trans h1 h2

theorem stepsN_of_msteps {P : Prog} {c : MemCfg} {σ σ' : State} {pc pc' : Nat} {out out' : List (Bool × Word)}
    (h : MSteps P c σ pc out σ' pc' out') : ∃ n, StepsN P c n ⟨σ, pc, out⟩ ⟨σ', pc', out'⟩ :=
  K.msteps_count h

/-- from `X` the machine passes through a chain of configurations, one for each positional state of the list,
each in relation `Q` to it -/
def BChain (P : Prog) (c : MemCfg) (Q : Pos.State → MS → Prop) : List Pos.State → MS → Prop
  | [], _ => True
  | st :: rest, X => Q st X ∧ (rest = [] ∨ ∃ n X', StepsN P c n X X' ∧ BChain P c Q rest X')

theorem BChain.mem {P : Prog} {c : MemCfg} {Q : Pos.State → MS → Prop} :
    ∀ {sts : List Pos.State} {X : MS}, BChain P c Q sts X → ∀ st ∈ sts, ∃ n X', StepsN P c n X X' ∧ Q st X'
  | [], _, _, st, h => by simp at h
  | s0 :: rest, X, hc, st, h => by
    rcases List.mem_cons.1 h with rfl | h
    · exact ⟨0, X, StepsN.refl _ _ _, hc.1⟩
    · rcases hc.2 with e | ⟨n, X', hn, hc'⟩
      · subst e; simp at h
      · obtain ⟨n', X'', hn', hq⟩ := BChain.mem hc' st h
        exact ⟨n + n', X'', hn.trans hn', hq⟩

theorem BChain.mono {P : Prog} {c : MemCfg} {Q Q' : Pos.State → MS → Prop} (hq : ∀ st X, Q st X → Q' st X) :
    ∀ {sts : List Pos.State} {X : MS}, BChain P c Q sts X → BChain P c Q' sts X
  | [], _, _ => trivial
  | s0 :: rest, X, hc => by
    refine ⟨hq _ _ hc.1, ?_⟩
    rcases hc.2 with e | ⟨n, X', hn, hc'⟩
    · exact Or.inl e
    · exact Or.inr ⟨n, X', hn, BChain.mono hq hc'⟩

/-- prefixing a chain by machine steps -/
theorem BChain.prepend {P : Prog} {c : MemCfg} {Q : Pos.State → MS → Prop} {n : Nat} {X0 X : MS}
    (h0 : StepsN P c n X0 X) :
    ∀ {sts : List Pos.State}, BChain P c Q sts X → ∀ st ∈ sts, ∃ n' X', StepsN P c n' X0 X' ∧ Q st X' := by
  intro sts hc st hm
  obtain ⟨n', X', h1, h2⟩ := hc.mem st hm
  exact ⟨n + n', X', h0.trans h1, h2⟩

/-! ## the machine ahead of the boundary by hooks -/

/-- the simulation runs from the boundary item `pc0` to the item `pc1` (the next boundary `pc'` up to `Tol`),
the machine is at `pcR` (`pc0` up to `Tol`): the machine reaches an item that is `pc'` up to `Tol` -/
theorem tol_next {P : Prog} {c : MemCfg} {σ σ' : State} {pc0 pcR pc1 pc' : Nat} {out out' : List (Bool × Word)}
    (T : K.Tol P pc0 pcR) (h : MSteps P c σ pc0 out σ' pc1 out') (T' : K.Tol P pc' pc1) :
    ∃ pcR', MSteps P c σ pcR out σ' pcR' out' ∧ K.Tol P pc' pcR' := by
  rcases K.tol_run h T with hk | ⟨e1, e2, T2⟩
  · exact ⟨pc1, hk, T'⟩
  · subst e1; subst e2
    exact ⟨pcR, .refl _ _ _, T'.trans T2⟩

/-- … through an instruction, if the simulated run goes through one -/
theorem tol_next_real {P : Prog} {c : MemCfg} {σ σ' : State} {pc0 pcR pc1 : Nat} {out out' : List (Bool × Word)}
    (T : K.Tol P pc0 pcR) (h : K.MStepsR P c σ pc0 out σ' pc1 out') :
    ∃ n, 1 ≤ n ∧ StepsN P c n ⟨σ, pcR, out⟩ ⟨σ', pc1, out'⟩ :=
  K.mstepsR_count (K.tol_runR h T)

/-! ## the chain of a terminating run -/

/-- the relation of the chains: the configuration is a statement boundary up to `Tol` -/
def ChainRel0 (c : MemCfg) (hkf : Code → Bool) (Pm : Prog) (cs : List Code) (P : Program) (hooks : Bool)
    (prog : AxCut.Prog) (st : Pos.State) (X : MS) : Prop :=
  ∃ cfg hs kp, K.Tol Pm (pcOf hkf cs kp) X.pc ∧ X.out = cfg.out ∧ K.Rel3 c cs P hooks prog st cfg hs X.σ kp

section Run3

variable {c : MemCfg} (H : CfgCC c) (h8 : c.heapBase % 8 = 0) {hkf : Code → Bool} {Pm : Prog}
  {cs pre : List Code} (HB : K.HoldsB hkf Pm cs) (hnd : (labs cs).Nodup)
  (hfitX : c.codeBase + 4 * ninstr cs < 2 ^ 64) (hcs : cs = pre ++ cleanup)
  (hclean : "cleanup" ∉ labs pre)

include H h8 HB hnd hfitX hcs hclean in
/-- THE THREE-WAY RUN WITH ALL ITS BOUNDARIES, all programs: along a terminating run of the positional machine
from a represented state the machine passes through a configuration that is — up to `#ctx` hooks — related by
`K.Rel3` to EVERY state of the run -/
theorem run3_chain (hooks : Bool) (prog : AxCut.Prog) (kc : Nat) (code : List MockOp) (nargs kc' : Nat)
    (hcomp : (compile mockSym hooks prog).run kc = .ok ((code, nargs), kc'))
    (hsafe : LabelSafe prog = true) (htp : LinTypedProg prog) (hfit : CodeFits code)
    (DX : K.XDefsAt cs hooks prog) (hprog : K.ProgOK prog) :
    ∀ (fuel : Nat) (st : Pos.State) (acc : List (Bool × Word)) (cfg : Config) (hs : HState) (σ : State)
      (kp pcR : Nat) (out : List (Bool × Word)) (v : Word),
      Pos.StateTyped prog st → (∀ st', Reachable prog st st' → 2 * st'.ctx.length ≤ 280) →
      K.Tol Pm (pcOf hkf cs kp) pcR →
      K.Rel3 c cs (Program.ofOps code) hooks prog st cfg hs σ kp →
      cfg.out = acc → cfg.next + fuel < 2 ^ 64 → Room hs (64 * 141 * fuel) →
      Pos.runState prog fuel st acc = ⟨out, .done v⟩ →
      BChain Pm c (ChainRel0 c hkf Pm cs (Program.ofOps code) hooks prog) (statesOf prog fuel st) ⟨σ, pcR, acc⟩
  | 0, st, acc, cfg, hs, σ, kp, pcR, out, v, _, _, _, _, _, _, _, h => by simp [Pos.runState] at h
  | fuel + 1, st, acc, cfg, hs, σ, kp, pcR, out, v, T, hcap, TL, R, hacc, hnext, hroom, h => by
    have hsim := K.step3 H h8 HB hnd hfitX hcs hclean hooks prog kc code nargs kc' hcomp hsafe htp hfit
      DX hprog st cfg hs σ kp R T (by unfold EnoughHeap; omega) (hroom.mono (by omega))
    have hsafe' := Pos.step_safe htp st T
    have hw : ∃ rs lin lazy live F, InvS hs rs [] lin lazy live F := by
      obtain ⟨Γ', ι, κ, _, _, X3h, _⟩ := R
      obtain ⟨lin, lazy, live, Fr, I⟩ := X3h.href.conc
      exact ⟨_, lin, lazy, live, Fr, I⟩
    have hB : ChainRel0 c hkf Pm cs (Program.ofOps code) hooks prog st ⟨σ, pcR, acc⟩ :=
      ⟨cfg, hs, kp, TL, hacc.symm, R⟩
    unfold K.StepSim3 at hsim
    simp only [Pos.runState] at h
    simp only [statesOf]
    cases hst : Pos.step prog st with
    | stuck w => simp [hst] at h
    | done v' => exact ⟨hB, Or.inl rfl⟩
    | next st' o =>
      simp only [hst] at h hsim
      rw [hst] at hsafe'
      have hc' := hcap st' (Reachable.step Reachable.refl hst)
      obtain ⟨cfg', hs', σ', kp', pcR', h1, T', h2, h3, hfr, R'⟩ := hsim (K.withinCapacity_of_le hc') hc'
      have hacc' : cfg'.out = outAfter o acc := by rw [h2, hacc]
      have h' : Pos.runState prog fuel st' (outAfter o acc) = ⟨out, .done v⟩ := by
        cases o <;> exact h
      have hroom' : Room hs' (64 * 141 * fuel) :=
        (hroom.step hfr (by omega) hw).mono (by omega)
      rw [hacc, hacc'] at h1
      obtain ⟨pcR'', hk, T''⟩ := tol_next TL h1 T'
      obtain ⟨n, hn⟩ := stepsN_of_msteps hk
      have ih := run3_chain hooks prog kc code nargs kc' hcomp hsafe htp hfit DX hprog fuel st'
        (outAfter o acc) cfg' hs' σ' kp' pcR'' out v hsafe'
        (fun st'' hr => hcap st'' (Scc.Props.C06Generic.reachable_prepend hst hr)) T'' R' hacc' (by omega)
        hroom' h'
      exact ⟨hB, Or.inr ⟨n, _, hn, ih⟩⟩

end Run3

/-! ## the entry: everything `K.programs_holds` establishes before the run -/

/-- what the header of the routine establishes: the routine, the definitions, the first boundary -/
structure Entry (p : AxCut.Prog) (args : List Word) (hooks : Bool) (routine : List Code) (d0 : Def)
    (ops : List MockOp) (c : MemCfg) (hk : Code → Bool) (P : Prog) (pre : List Code) (σ0 : State) (kp0 : Nat)
    (a : Nat) : Prop where
  split : routine = pre ++ cleanup
  clean : "cleanup" ∉ labs pre
  defs : K.XDefsAt routine hooks p
  main : P.labels["asm_main"]? = some (pcOf hk routine 2)
  steps : MSteps P c (entryState c args) (pcOf hk routine 2) [] σ0 (pcOf hk routine kp0) []
  rel : K.Rel3 c routine (Program.ofOps ops) hooks p ⟨d0.ctx, args.map .int, d0.body⟩ (initConfig a args)
    (Scc.Heap.init c.heapBase (c.heapBase + c.heapBytes)) σ0 kp0
  next1 : (initConfig a args).next = 1
  typed : Pos.StateTyped p ⟨d0.ctx, args.map .int, d0.body⟩
  nargs : args.length ≤ 7

theorem entry_setup (p : AxCut.Prog) (args : List Word) (hooks : Bool) (body routine : List Code)
    (nargs : Nat) (d0 : Def) (ops : List MockOp) (c' : Nat)
    (hsafe : LabelSafe p = true) (htp : LinTypedProg p)
    (hcompM : (compile mockSym hooks p).run 0 = .ok ((ops, nargs), c'))
    (hcompX : compileProg a64Backend p hooks 0 = .ok (body, nargs, routine))
    (hnd : (labs routine).Nodup)
    (hd : p.defs.head? = some d0) (hentry : ∀ b ∈ d0.ctx, b.chi = .ext ∧ b.ty = .i64)
    (hlen : d0.ctx.length = args.length) (hc0 : 2 * d0.ctx.length ≤ 280)
    (c : MemCfg) (H : CfgCC c) (hb0 : 0 < c.heapBase) (hbytes : 128 ≤ c.heapBytes)
    {hk : Code → Bool} {P : Prog} (HB : K.HoldsB hk P routine) :
    ∃ pre σ0 kp0 a, Entry p args hooks routine d0 ops c hk P pre σ0 kp0 a := by
  obtain ⟨c1, hcompA, hrout⟩ := compileProg_ok hcompX
  have HA := HB.holdsA
  have Hp := HA.holds
  have hmem : d0 ∈ p.defs := by
    cases hdefs : p.defs with
    | nil => rw [hdefs] at hd; simp at hd
    | cons d ds => rw [hdefs] at hd; simp at hd; subst hd; simp
  have hnodupD := Scc.Props.C14Generic.labels_unique hooks p 0 ops nargs c' hcompM hsafe
  obtain ⟨_, hnargs⟩ := compile_mock_entry hcompM hd
  rw [hnargs, hlen] at hrout
  have hargs : args.length ≤ 7 := by
    obtain ⟨su, hsu, _⟩ := routine_anatomy hrout
    obtain ⟨moves, hm, _⟩ := setup_eq hsu
    exact CC.moveArguments_le _ _ hm
  -- the header
  obtain ⟨hdr, σ2, hcs, hlabs, hlab, hk0, R, HR⟩ := K.init_sim3 (c := c) H hrout Hp
  -- Theorem A at the entry
  obtain ⟨a, hlabA, RX, hn1⟩ := init_relX hooks p 0 ops nargs c' hcompM hnodupD d0 hmem
    (fun b hb => (hentry b hb).1) args hlen (K.withinCapacity_of_le hc0)
  have T : Pos.StateTyped p ⟨d0.ctx, args.map .int, d0.body⟩ :=
    ⟨htp d0 hmem, Pos.ints_typed d0.ctx args hlen hentry⟩
  -- the entry definition: its label is the first code of the body
  obtain ⟨is, rest, kx, kx', hbody, hdrun, _⟩ := K.compile_a64_entry hcompA hd
  have hget : routine[hdr.length]? = some (Code.LAB (d0.name.print ++ "_")) := by
    rw [hcs, hbody]; simp
  have hdat : XAt routine (hdr.length + 1) is :=
    ⟨hdr ++ [Code.LAB (d0.name.print ++ "_")], rest ++ cleanup, by rw [hcs, hbody]; simp, by simp⟩
  have hlabitem : isItem hk (Code.LAB (d0.name.print ++ "_")) = false := by
    cases hh : hk (Code.LAB (d0.name.print ++ "_")) with
    | false => simp [isItem, Code.isMeta, hh]
    | true => obtain ⟨m, e⟩ := Hp.hkComment _ hh; cases e
  have hpc1 : pcOf hk routine (hdr.length + 1) = pcOf hk routine hdr.length := pcOf_noitem hget hlabitem
  have X3i : K.X3 c d0.ctx (initConfig a args)
      (Scc.Heap.init c.heapBase (c.heapBase + c.heapBytes)) id (fun _ _ => 0) σ2 [] :=
    K.x3_init R HR (fun b hb => (hentry b hb).1) hc0 hb0 hbytes id (fun _ _ => 0)
  have R3 : K.Rel3 c routine (Program.ofOps ops) hooks p ⟨d0.ctx, args.map .int, d0.body⟩ (initConfig a args)
      (Scc.Heap.init c.heapBase (c.heapBase + c.heapBytes)) σ2 (hdr.length + 1) :=
    ⟨d0.ctx, id, fun _ _ => 0, rfl, RX, X3i, fun i h1 h2 w hw => by
      simp only [List.getElem_map]
      exact .int _ _ _ _, kx, kx', is, hdrun, hdat⟩
  have hclean : "cleanup" ∉ labs (hdr ++ body) := by
    rw [hcs, labs_append] at hnd
    have := (List.nodup_append.1 hnd).2.2
    intro hm
    exact this _ hm _ (by simp [labs, labOf, cleanup]) rfl
  refine ⟨hdr ++ body, σ2, hdr.length + 1, a, hcs, hclean, K.xdefsAt_of_compile hcompA hcs, hlab, ?_, R3, hn1, T,
    hargs⟩
  rw [hpc1]
  exact hk0

/-! ## composition -/

/-- a configuration at a STATEMENT BOUNDARY of the run of the routine (any program): its state is related by the
closure-aware three-way relation `K.Rel3` to a state of the positional machine at a position `kp` of the routine,
and its program counter is the item of `kp` or ahead of it by `#ctx` hooks (`Tol`: the machine after the `BR` of
an `invoke`) -/
def BoundaryOf (p : AxCut.Prog) (hooks : Bool) (routine : List Code) (ops : List MockOp) (c : MemCfg)
    (hk : Code → Bool) (P : Prog) (st : Pos.State) (X : MS) : Prop :=
  ∃ (cfgA : Config) (hs : HState) (kp : Nat), K.Tol P (pcOf hk routine kp) X.pc ∧ X.out = cfgA.out ∧
    K.Rel3 c routine (Program.ofOps ops) hooks p st cfgA hs X.σ kp

/-- THE HEAP INVARIANT AT EVERY STATEMENT BOUNDARY, all programs -/
theorem heapInvAt_of_boundary {p : AxCut.Prog} {hooks : Bool} {routine : List Code} {ops : List MockOp}
    {c : MemCfg} (H : CfgCC c) {hk : Code → Bool} {P : Prog} {st : Pos.State} {X : MS}
    (B : BoundaryOf p hooks routine ops c hk P st X) :
    HeapInvAt c X.σ (ctxKinds st.ctx) (c.heapBase + c.heapBytes) := by
  obtain ⟨cfgA, hs, kp, T, _, Γ', ι, κ, hkeys, RX, X3h, _⟩ := B
  have := (heapInvAt_of_x3 H RX X3h).1
  rw [ctxKinds_keys hkeys] at this
  exact this

theorem run_split {p : AxCut.Prog} {args : List Word} {d0 : Def} {fuel : Nat} {out : List (Bool × Word)} {v : Word}
    (hd : p.defs.head? = some d0) (hrun : Pos.run p args fuel = ⟨out, .done v⟩) :
    d0.ctx.length = args.length ∧
      Pos.runState p fuel ⟨d0.ctx, args.map .int, d0.body⟩ [] = ⟨out, .done v⟩ := by
  unfold Pos.run at hrun
  cases hdefs : p.defs with
  | nil => rw [hdefs] at hd; simp at hd
  | cons d ds =>
    rw [hdefs] at hd hrun
    simp only [List.head?_cons, Option.some.injEq] at hd
    subst hd
    simp only at hrun
    by_cases hl : d.ctx.length ≠ args.length
    · simp [hl] at hrun
    · simp only [hl, if_false] at hrun
      exact ⟨by omega, hrun⟩

/-- the configuration the machine's `runProg` starts the run loop in -/
def initMS (c : MemCfg) (hk : Code → Bool) (routine : List Code) (args : List Word) : MS :=
  ⟨entryState c args, pcOf hk routine 2, []⟩

/-- the whole run from the machine's initial configuration: the machine passes through a boundary
configuration for EVERY state of the terminating run of the positional machine, in order -/
theorem programs_chain (p : AxCut.Prog) (args : List Word) (hooks : Bool) (body routine : List Code)
    (nargs : Nat) (d0 : Def) (ops : List MockOp) (c' : Nat)
    (hsafe : LabelSafe p = true) (htp : LinTypedProg p) (hprog : K.ProgOK p)
    (hcompM : (compile mockSym hooks p).run 0 = .ok ((ops, nargs), c')) (hfit : CodeFits ops)
    (hcompX : compileProg a64Backend p hooks 0 = .ok (body, nargs, routine))
    (hnd : (labs routine).Nodup)
    (hd : p.defs.head? = some d0) (hentry : ∀ b ∈ d0.ctx, b.chi = .ext ∧ b.ty = .i64)
    (hcap : ∀ st, Reachable p ⟨d0.ctx, args.map .int, d0.body⟩ st → 2 * st.ctx.length ≤ 280)
    (fuel : Nat) (out : List (Bool × Word)) (v : Word) (hfuel : fuel + 1 < 2 ^ 64)
    (hrun : Pos.run p args fuel = ⟨out, .done v⟩)
    (c : MemCfg) (H : CfgCC c)
    (hb8 : c.heapBase % 8 = 0) (hb0 : 0 < c.heapBase)
    (hbytes : 128 + 64 * 141 * fuel ≤ c.heapBytes)
    {hk : Code → Bool} {P : Prog} (HB : K.HoldsB hk P routine)
    (hfitX : c.codeBase + 4 * ninstr routine < 2 ^ 64) :
    P.labels["asm_main"]? = some (pcOf hk routine 2) ∧ args.length ≤ 7 ∧
    ∃ n0 X0, StepsN P c n0 (initMS c hk routine args) X0 ∧
      BChain P c (BoundaryOf p hooks routine ops c hk P) (statesOf p fuel ⟨d0.ctx, args.map .int, d0.body⟩) X0 ∧
      stopsWithin p fuel ⟨d0.ctx, args.map .int, d0.body⟩ = true := by
  obtain ⟨hlen, hrun'⟩ := run_split hd hrun
  have hc0 := hcap _ Reachable.refl
  simp only at hc0
  obtain ⟨pre, σ0, kp0, a, En⟩ := entry_setup p args hooks body routine nargs d0 ops c' hsafe htp
    hcompM hcompX hnd hd hentry hlen hc0 c H hb0 (by omega) HB
  have hch := run3_chain H hb8 HB hnd hfitX En.split En.clean hooks p 0 ops nargs c' hcompM hsafe htp hfit En.defs
    hprog fuel _ [] (initConfig a args) _ σ0 kp0 (pcOf hk routine kp0) out v En.typed hcap (K.Tol.refl _ _) En.rel rfl
    (by rw [En.next1]; omega) (K.room_init hb0 (by omega) (by omega)) hrun'
  obtain ⟨n0, hn0⟩ := stepsN_of_msteps En.steps
  exact ⟨En.main, En.nargs, n0, _, hn0, hch, stopsWithin_of_done p fuel _ _ _ _ hrun'⟩

end Scc.A64.ConcK
