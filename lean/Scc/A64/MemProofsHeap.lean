/-
  Scc.A64.MemProofsHeap — the view (MemProofsView.lean) against the heap model Scc/Heap/Model.lean:
  `HeapRel` / `HRelM` (a machine / view state represents an abstract heap), the primitive accesses
  (`rd`/`wr` of the model = heap loads / stores of the view), and the contracts of `share_block_n`,
  `erase_block`, `erase_fields` and `acquire_block` (memory.rs of axcut2aarch64) — first on the view,
  then on the machine.  Same abstract vocabulary as Scc/X86/MemProofsHeap.lean / ProofsMem.lean
  (`HeapRel`, `Scc.Heap.shareBlock` / `eraseBlock` / `acquire`, `LabsIn`, `FrameT`).
  Heap-model words are unbounded naturals: the contract of `share_block_n` assumes that the
  incremented count stays below 2^64 (the model does not wrap).
-/
import Scc.A64.MemProofsView

set_option linter.unusedSimpArgs false
set_option linter.unusedVariables false

namespace Scc.A64

open Scc.AxCut
open Scc.Backend (GenM TempNum freshLabel)

theorem TEMP_eq : TEMP = .x 2 := rfl
theorem TEMP2_eq : TEMP2 = .x 3 := rfl
theorem HEAP_eq : HEAP = .x 0 := rfl
theorem FREE_eq : FREE = .x 1 := rfl
theorem TEMPORARY_TEMP_eq : TEMPORARY_TEMP = .x 10 := rfl
theorem SPILL_TEMP_eq : SPILL_TEMP = 0 := rfl
theorem refcount_zero : REFERENCE_COUNT_OFFSET = 0 := by decide
theorem next_zero : NEXT_ELEMENT_OFFSET = 0 := by decide

/-! ## the abstraction: machine heap ⟷ `Scc.Heap.HState` -/

/-- machine state `σ` represents the abstract heap `h`: same region, same words (as naturals),
HEAP (X0) and FREE (X1) hold the two list heads -/
structure HeapRel (c : MemCfg) (σ : State) (h : Scc.Heap.HState) : Prop where
  base : h.base = c.heapBase
  limit : h.limit = c.heapBase + c.heapBytes
  mem : ∀ a, h.mem.get a = (σ.heap.getD a 0).toNat
  heap : ∃ w, σ.tempVal (.register HEAP) = some w ∧ w.toNat = h.heap
  free : ∃ w, σ.tempVal (.register FREE) = some w ∧ w.toNat = h.free

/-- view state `μ` represents the abstract heap `h` -/
structure HRelM (c : MemCfg) (μ : MState) (h : Scc.Heap.HState) : Prop where
  base : h.base = c.heapBase
  limit : h.limit = c.heapBase + c.heapBytes
  mem : ∀ a, h.mem.get a = (μ.heap a).toNat
  heap : ∃ w, μ.val (.register (.x 0)) = some w ∧ w.toNat = h.heap
  free : ∃ w, μ.val (.register (.x 1)) = some w ∧ w.toNat = h.free

theorem heapRel_mview {c : MemCfg} {σ : State} {h : Scc.Heap.HState} (R : HeapRel c σ h) :
    HRelM c (mview σ) h :=
  ⟨R.base, R.limit, R.mem, R.heap, R.free⟩

theorem heapRel_of_mrep {c : MemCfg} {room : Nat} {σ : State} {μ : MState} {h : Scc.Heap.HState}
    (M : MRep c room σ μ) (H : HRelM c μ h) : HeapRel c σ h := by
  obtain ⟨wh, hwh, ewh⟩ := H.heap
  obtain ⟨wf, hwf, ewf⟩ := H.free
  refine ⟨H.base, H.limit, fun a => by rw [M.heap]; exact H.mem a,
    ⟨wh, by rw [HEAP_eq, M.vals (.register (.x 0)) (show (0 : Nat) < 30 by decide)]; exact hwh, ewh⟩,
    ⟨wf, by rw [FREE_eq, M.vals (.register (.x 1)) (show (1 : Nat) < 30 by decide)]; exact hwf, ewf⟩⟩

/-! ## the model's primitive accesses -/

/-- `a` is the address of a word of the abstract heap -/
def HOk (h : Scc.Heap.HState) (a : Nat) : Prop :=
  h.base ≤ a ∧ a + 8 ≤ h.limit ∧ (a - h.base) % 8 = 0

theorem rd_eq_ok {s : Scc.Heap.HState} {a v : Nat} :
    Scc.Heap.rd s a = .ok v ↔ HOk s a ∧ v = s.mem.get a := by
  unfold Scc.Heap.rd HOk
  by_cases h1 : s.base ≤ a ∧ a + 8 ≤ s.limit
  · by_cases h2 : (a - s.base) % 8 = 0
    · simp [h1, h2, eq_comm]
    · simp [h1, h2]
  · simp only [h1, if_false]
    constructor
    · intro h; cases h
    · intro h; exact absurd ⟨h.1.1, h.1.2.1⟩ h1

theorem wr_eq_ok {s s' : Scc.Heap.HState} {a v : Nat} :
    Scc.Heap.wr s a v = .ok s' ↔ HOk s a ∧ s' = { s with mem := s.mem.set a v } := by
  unfold Scc.Heap.wr HOk
  by_cases h1 : s.base ≤ a ∧ a + 8 ≤ s.limit
  · by_cases h2 : (a - s.base) % 8 = 0
    · simp [h1, h2, eq_comm]
    · simp [h1, h2]
  · simp only [h1, if_false]
    constructor
    · intro h; cases h
    · intro h; exact absurd ⟨h.1.1, h.1.2.1⟩ h1

/-- the heap region is 8-aligned and heap addresses never wrap (not even the frontier one block
beyond the last word) -/
structure HeapCfgOK (c : MemCfg) : Prop where
  base8 : c.heapBase % 8 = 0
  top : c.heapBase + c.heapBytes + 64 ≤ 2 ^ 64

theorem heapCfgOK_of_spOk {c : MemCfg} {sp : Word} {room : Nat} (h8 : c.heapBase % 8 = 0)
    (B : SpOk c sp room) : HeapCfgOK c := by
  refine ⟨h8, ?_⟩
  have h1 := B.disjoint
  have h2 := B.top
  have h3 := B.low
  have h4 := B.high
  rw [SPILL_SPACE_eq] at h4
  omega

section Prim
variable {c : MemCfg} {μ : MState} {h : Scc.Heap.HState}

theorem toNat_add_imm_nat (x : Word) (off : Nat) (h : x.toNat + off < 2 ^ 64) :
    (x + imm (off : Int)).toNat = x.toNat + off := by
  rw [imm, BitVec.ofInt_natCast, BitVec.toNat_add, BitVec.toNat_ofNat]
  omega

/-- a valid address of the model is a heap address of the view -/
theorem haddr_ok (C : HeapCfgOK c) (H : HRelM c μ h) {x : Word} {off : Nat} (ho : off ≤ 32760)
    (ho8 : off % 8 = 0) (hok : HOk h (x.toNat + off)) : haddr c x (off : Int) = some (x.toNat + off) := by
  obtain ⟨h1, h2, h3⟩ := hok
  rw [H.base] at h1 h3
  rw [H.limit] at h2
  have hb := C.base8
  have ht := C.top
  have hfit : okOff (off : Int) = true := by
    simp only [okOff, Bool.and_eq_true, decide_eq_true_eq]; omega
  have hsum : (x + imm (off : Int)).toNat = x.toNat + off := toNat_add_imm_nat x off (by omega)
  unfold haddr
  rw [hsum, if_pos]
  refine ⟨hfit, by omega, ?_⟩
  simp only [inHeap, Bool.and_eq_true, decide_eq_true_eq]
  omega

theorem haddr_ok0 (C : HeapCfgOK c) (H : HRelM c μ h) {x : Word} (hok : HOk h x.toNat) :
    haddr c x 0 = some x.toNat := by
  have := haddr_ok C H (x := x) (off := 0) (by decide) (by decide) (by simpa using hok)
  simpa using this

theorem HRelM.setH (H : HRelM c μ h) (a : Nat) (w : Word) :
    HRelM c (μ.setH a w) { h with mem := h.mem.set a w.toNat } := by
  refine ⟨H.base, H.limit, fun b => ?_, H.heap, H.free⟩
  simp only [Scc.Heap.Mem.get_set, MState.setH_heap]
  by_cases e : a = b
  · subst e; simp
  · have : ¬ b = a := fun h => e h.symm
    simp [e, this, H.mem b]

theorem HRelM.setF (H : HRelM c μ h) (f : Option (Word × Word)) : HRelM c (μ.setF f) h :=
  ⟨H.base, H.limit, H.mem, H.heap, H.free⟩

theorem HRelM.setT (H : HRelM c μ h) {t : Temporary} (h1 : t ≠ .register (.x 0)) (h2 : t ≠ .register (.x 1))
    (v : Option Word) : HRelM c (μ.setT t v) h := by
  obtain ⟨wh, hwh, ewh⟩ := H.heap
  obtain ⟨wf, hwf, ewf⟩ := H.free
  exact ⟨H.base, H.limit, H.mem, ⟨wh, by simp [Ne.symm h1, hwh], ewh⟩, ⟨wf, by simp [Ne.symm h2, hwf], ewf⟩⟩

theorem maddr_eq {r : Nat} (hr : r < 30) {x : Word} (hv : μ.val (.register (.x r)) = some x) (i : Int) :
    maddr c μ (.x r) i = haddr c x i := by
  simp [maddr, hr, hv]

theorem toNat_sub_one (w : Word) (h : w ≠ 0) : (w - imm 1).toNat = w.toNat - 1 := by
  have h0 : w.toNat ≠ 0 := fun e => h (BitVec.eq_of_toNat_eq (by simpa using e))
  have hlt : w.toNat < 2 ^ 64 := w.isLt
  have : (imm 1).toNat = 1 := by decide
  rw [BitVec.toNat_sub, this]
  omega

theorem imm_zero : imm 0 = 0#64 := by decide

theorem reg_ne {r s : Nat} (h : r ≠ s) : ¬ Temporary.register (.x r) = .register (.x s) :=
  fun e => h (by simpa using e)

end Prim

/-! ## placement of a pointer: the register memory.rs works with, and the load that brings it there -/

/-- the register in which memory.rs accesses the block `t` points to -/
def ptrReg : Temporary → Register
  | .register r => r
  | .spill _ => TEMP

/-- the instruction that brings a spilled pointer into TEMP -/
def loadPtr : Temporary → List Code
  | .register _ => []
  | .spill p => [.LDR TEMP .sp (stackOffset p)]

/-- memory.rs share_block_n for the pointer in register `r` -/
def shareCode (r : Register) (n : Nat) (l : String) : List Code :=
  [.CMPI r 0, .BEQ l] ++
    [.COMMENT "####increment refcount", .LDR TEMP2 r REFERENCE_COUNT_OFFSET, .ADDI TEMP2 TEMP2 (n : Int),
     .STR TEMP2 r REFERENCE_COUNT_OFFSET] ++ [.LAB l]

/-- memory.rs share_block_n: shape of the code, both placements at once -/
theorem shareBlockN_run (t : Temporary) (n k : Nat) :
    (shareBlockN t n).run k = .ok (loadPtr t ++ shareCode (ptrReg t) n (labName (k + 1)), k + 1) := by
  cases t <;> rfl

/-- erase_valid_object for the pointer in register `r` (labels `l1` = then, `l2` = end) -/
def eraseInner (r : Register) (l1 l2 : String) : List Code :=
  [.CMPI TEMP2 0, .BEQ l1] ++
    [.COMMENT "######either decrement refcount ...", .SUBI TEMP2 TEMP2 1, .STR TEMP2 r REFERENCE_COUNT_OFFSET] ++
    [.B l2, .LAB l1] ++
    [.COMMENT "######... or add block to lazy free list", .STR FREE r NEXT_ELEMENT_OFFSET, .MOVR FREE r] ++
    [.LAB l2]

/-- erase_block for the pointer in register `r` -/
def eraseCode (r : Register) (l1 l2 l3 : String) : List Code :=
  [.CMPI r 0, .BEQ l3] ++
    ([.COMMENT "######check refcount", .LDR TEMP2 r REFERENCE_COUNT_OFFSET] ++ eraseInner r l1 l2) ++ [.LAB l3]

/-- memory.rs erase_block: shape of the code, both placements at once -/
theorem eraseBlock_run (t : Temporary) (k : Nat) :
    (eraseBlock t).run k =
      .ok (loadPtr t ++ eraseCode (ptrReg t) (labName (k + 1)) (labName (k + 2)) (labName (k + 3)), k + 3) := by
  cases t <;> rfl

theorem labsIn_eraseCode (r : Register) (k : Nat) :
    LabsIn (eraseCode r (labName (k + 1)) (labName (k + 2)) (labName (k + 3))) k (k + 3) := by
  intro l h
  simp only [eraseCode, eraseInner, List.mem_cons, List.mem_append, reduceCtorEq, false_or, or_false,
    Code.LAB.injEq, List.not_mem_nil] at h
  rcases h with (h | h) | h
  · exact ⟨k + 1, h, by omega, by omega⟩
  · exact ⟨k + 2, h, by omega, by omega⟩
  · exact ⟨k + 3, h, by omega, by omega⟩

/-! ## share_block_n, erase_block on the view -/

section ShareErase
variable {c : MemCfg} {μ : MState} {h h' : Scc.Heap.HState}

/-- the run of the non-null case of `share_block_n` (immediate as an `Int`) -/
theorem m_share_run {r : Nat} (hr : r < 30) (hr3 : r ≠ 3) {p : Word}
    (hv : μ.val (.register (.x r)) = some p) (hpz : ¬ p = 0#64) (ha : haddr c p 0 = some p.toNat)
    {i : Int} (hin : okImm12 i = true) (l : String) :
    mFwd c ([.CMPI (.x r) 0, .BEQ l] ++
      [.COMMENT "####increment refcount", .LDR TEMP2 (.x r) REFERENCE_COUNT_OFFSET, .ADDI TEMP2 TEMP2 i,
       .STR TEMP2 (.x r) REFERENCE_COUNT_OFFSET] ++ [.LAB l]) μ =
      some ((((μ.setF (some (p, imm 0))).setT (.register (.x 3)) (some (μ.heap p.toNat))).setT
          (.register (.x 3)) (some (μ.heap p.toNat + imm i))).setH p.toNat (μ.heap p.toNat + imm i), .next) := by
  have hro : regOpnd (.x r) = some (.register (.x r)) := regOpnd_of hr
  have hi0 : okImm12 0 = true := by decide
  have hr3' : ¬ Temporary.register (.x r) = .register (.x 3) := reg_ne hr3
  simp [mFwd_cons, mFwd_nil, mcont, mexecC, mexec, hro, hv, skipTo, hi0, imm_zero, hpz,
    TEMP2_eq, regOpnd, refcount_zero, maddr, hr, ha, hr3', hin, srcVal]

/-- CONTRACT of `share_block_n` on the view, pointer in ANY register `X(r)` other than TEMP2: the code
runs to its end, the result represents `Scc.Heap.shareBlock`, only TEMP2, the flags and the header
word change -/
theorem m_share (C : HeapCfgOK c) (H : HRelM c μ h) {r : Nat} (hr : r < 30) (hr3 : r ≠ 3) {p : Word}
    (hv : μ.val (.register (.x r)) = some p) {n : Nat} (hn : n < 4096)
    (hop : Scc.Heap.shareBlock h p.toNat n = .ok h') (hno : p ≠ 0 → h.mem.get p.toNat + n < 2 ^ 64) (l : String) :
    ∃ μ', mFwd c (shareCode (.x r) n l) μ = some (μ', .next) ∧ HRelM c μ' h' ∧
      (∀ u, u ≠ .register (.x 3) → μ'.val u = μ.val u) := by
  have hro : regOpnd (.x r) = some (.register (.x r)) := regOpnd_of hr
  have hi0 : okImm12 0 = true := by decide
  by_cases hp : p = 0
  · subst hp
    have : h' = h := by
      simp [Scc.Heap.shareBlock] at hop
      exact hop.symm
    subst this
    refine ⟨μ.setF (some (0, imm 0)), ?_, H.setF _, fun _ _ => rfl⟩
    simp [shareCode, mFwd_cons, mFwd_nil, mcont, mexecC, mexec, hro, hv, skipTo, hi0, imm_zero]
  · have hp' : p.toNat ≠ 0 := fun e => hp (BitVec.eq_of_toNat_eq (by simpa using e))
    have hpz : ¬ p = 0#64 := hp
    unfold Scc.Heap.shareBlock at hop
    rw [if_neg hp'] at hop
    cases hrd : Scc.Heap.rd h p.toNat with
    | error f => simp [hrd] at hop
    | ok cnt =>
      simp only [hrd] at hop
      obtain ⟨hok, hcnt⟩ := rd_eq_ok.1 hrd
      obtain ⟨_, rfl⟩ := wr_eq_ok.1 hop
      have ha : haddr c p 0 = some p.toNat := haddr_ok0 C H hok
      have hin : okImm12 (n : Int) = true := by
        simp only [okImm12, Bool.and_eq_true, decide_eq_true_eq]; omega
      have hr3' : ¬ Temporary.register (.x r) = .register (.x 3) := reg_ne hr3
      have hw : (μ.heap p.toNat + imm (n : Int)).toNat = cnt + n := by
        rw [toNat_add_imm_nat _ _ (by rw [← H.mem]; exact hno hp), hcnt, H.mem]
      refine ⟨(((μ.setF (some (p, imm 0))).setT (.register (.x 3)) (some (μ.heap p.toNat))).setT
          (.register (.x 3)) (some (μ.heap p.toNat + imm (n : Int)))).setH p.toNat
          (μ.heap p.toNat + imm (n : Int)), ?_, ?_, ?_⟩
      · exact m_share_run hr hr3 hv hpz ha hin l
      · have := (((H.setF (some (p, imm 0))).setT (t := .register (.x 3)) (by simp) (by simp)
          (some (μ.heap p.toNat))).setT (t := .register (.x 3)) (by simp) (by simp)
          (some (μ.heap p.toNat + imm (n : Int)))).setH p.toNat (μ.heap p.toNat + imm (n : Int))
        rw [hw] at this
        exact this
      · intro u hu
        simp [hu]

theorem m_erase_null {r : Nat} (hr : r < 30) (hv : μ.val (.register (.x r)) = some 0)
    (l1 l2 l3 : String) (h13 : l1 ≠ l3) (h23 : l2 ≠ l3) :
    mFwd c (eraseCode (.x r) l1 l2 l3) μ = some (μ.setF (some (0, 0)), .next) := by
  have hro : regOpnd (.x r) = some (.register (.x r)) := regOpnd_of hr
  have hi0 : okImm12 0 = true := by decide
  simp [eraseCode, eraseInner, mFwd_cons, mFwd_nil, mcont, mexecC, mexec, hro, hv, skipTo, h13, h23,
    hi0, imm_zero]

/-- CONTRACT of `erase_block` on the view, pointer in ANY register `X(r)` other than TEMP2 and FREE (also TEMP):
the code runs to its end, the result represents `Scc.Heap.eraseBlock`, only TEMP2, FREE, the flags
and the header word change -/
theorem m_erase (C : HeapCfgOK c) (H : HRelM c μ h) {r : Nat} (hr : r < 30) (hr3 : r ≠ 3) (hr1 : r ≠ 1) {p : Word}
    (hv : μ.val (.register (.x r)) = some p) (hop : Scc.Heap.eraseBlock h p.toNat = .ok h')
    (l1 l2 l3 : String) (h12 : l1 ≠ l2) (h13 : l1 ≠ l3) (h23 : l2 ≠ l3) :
    ∃ μ', mFwd c (eraseCode (.x r) l1 l2 l3) μ = some (μ', .next) ∧ HRelM c μ' h' ∧
      (∀ u, u ≠ .register (.x 1) → u ≠ .register (.x 3) → μ'.val u = μ.val u) := by
  by_cases hp : p = 0
  · subst hp
    have : h' = h := by
      simp [Scc.Heap.eraseBlock] at hop
      exact hop.symm
    subst this
    exact ⟨_, m_erase_null hr hv l1 l2 l3 h13 h23, H.setF _, fun _ _ _ => rfl⟩
  · have hp' : p.toNat ≠ 0 := fun e => hp (BitVec.eq_of_toNat_eq (by simpa using e))
    have hro : regOpnd (.x r) = some (.register (.x r)) := regOpnd_of hr
    have hpz : ¬ p = 0#64 := hp
    have hi0 : okImm12 0 = true := by decide
    have hi1 : okImm12 1 = true := by decide
    have hr3' : ¬ Temporary.register (.x r) = .register (.x 3) := reg_ne hr3
    unfold Scc.Heap.eraseBlock at hop
    rw [if_neg hp'] at hop
    cases hrd : Scc.Heap.rd h p.toNat with
    | error f => simp [hrd] at hop
    | ok cnt =>
      simp only [hrd] at hop
      obtain ⟨hok, hcnt⟩ := rd_eq_ok.1 hrd
      have ha : haddr c p 0 = some p.toNat := haddr_ok0 C H hok
      obtain ⟨wf, hwf, ewf⟩ := H.free
      by_cases hc0 : cnt = 0
      · subst hc0
        have hw0 : μ.heap p.toNat = 0#64 := BitVec.eq_of_toNat_eq (by rw [← H.mem, ← hcnt]; rfl)
        simp only [if_true] at hop
        cases hwr : Scc.Heap.wr h p.toNat h.free with
        | error e => simp [hwr] at hop
        | ok hh =>
          simp only [hwr, Except.ok.injEq] at hop
          obtain ⟨_, rfl⟩ := wr_eq_ok.1 hwr
          subst hop
          have hr1' : ¬ Temporary.register (.x r) = .register (.x 1) := reg_ne hr1
          refine ⟨(((μ.setF (some (p, 0))).setT (.register (.x 3)) (some 0#64)).setF (some (0, 0))).setH
            p.toNat wf |>.setT (.register (.x 1)) (some p), ?_, ?_, ?_⟩
          · simp [eraseCode, eraseInner, mFwd_cons, mFwd_nil, mcont, mexecC, mexec, hro, hv, skipTo, h12, h13,
              h23, hi0, hi1, imm_zero, hpz, TEMP2_eq, FREE_eq, regOpnd, refcount_zero, next_zero, maddr, hr, ha,
              hw0, hr3', hr1', srcVal, hwf]
          · obtain ⟨wh, hwh, ewh⟩ := H.heap
            have := (H.setF (some (0, 0))).setH p.toNat wf
            rw [ewf] at this
            exact ⟨this.base, this.limit, this.mem, ⟨wh, by simp [hwh], ewh⟩, ⟨p, by simp, rfl⟩⟩
          · intro u hu hu3
            simp [hu, hu3]
      · have hw0 : ¬ μ.heap p.toNat = 0#64 := fun e => hc0 (by rw [hcnt, H.mem, e]; rfl)
        rw [if_neg hc0] at hop
        obtain ⟨_, rfl⟩ := wr_eq_ok.1 hop
        have hw : (μ.heap p.toNat - imm 1).toNat = cnt - 1 := by
          rw [toNat_sub_one _ hw0, hcnt, H.mem]
        refine ⟨((((μ.setF (some (p, 0))).setT (.register (.x 3)) (some (μ.heap p.toNat))).setF
            (some (μ.heap p.toNat, 0))).setT (.register (.x 3)) (some (μ.heap p.toNat - imm 1))).setH p.toNat
            (μ.heap p.toNat - imm 1), ?_, ?_, ?_⟩
        · simp [eraseCode, eraseInner, mFwd_cons, mFwd_nil, mcont, mexecC, mexec, hro, hv, skipTo, h12, h13,
            h23, hi0, hi1, imm_zero, hpz, TEMP2_eq, FREE_eq, regOpnd, refcount_zero, next_zero, maddr, hr, ha,
            hw0, hr3', srcVal]
        · have := ((((H.setF (some (p, 0))).setT (t := .register (.x 3)) (by simp) (by simp)
            (some (μ.heap p.toNat))).setF (some (μ.heap p.toNat, 0))).setT (t := .register (.x 3)) (by simp)
            (by simp) (some (μ.heap p.toNat - imm 1))).setH p.toNat (μ.heap p.toNat - imm 1)
          rw [hw] at this
          exact this
        · intro u _ hu3
          simp [hu3]

end ShareErase

/-! ## single steps with explicit hypotheses (no `simp` through `Nat → Int` casts) -/

section Steps
variable (c : MemCfg) {μ : MState}

/-- one instruction that falls through, then the rest -/
theorem mFwd_step {cd : Code} {cs : List Code} {μ μ1 : MState} {r : Option (MState × Ctl)}
    (h1 : mexecC c cd μ = some (μ1, .next)) (h2 : mFwd c cs μ1 = r) : mFwd c (cd :: cs) μ = r := by
  rw [mFwd_cons, h1]
  simpa only [mcont] using h2

theorem mexecC_LDRh {rd rb : Nat} (hd : rd < 30) {i : Int} {a : Nat} (ha : maddr c μ (.x rb) i = some a) :
    mexecC c (.LDR (.x rd) (.x rb) i) μ = some (μ.setT (.register (.x rd)) (some (μ.heap a)), .next) := by
  simp [mexecC, mexec, regOpnd, hd, ha]

theorem mexecC_STRh {r : Register} {rb : Nat} {i : Int} {a : Nat} {v : Word} (hv : srcVal μ r = some v)
    (ha : maddr c μ (.x rb) i = some a) :
    mexecC c (.STR r (.x rb) i) μ = some (μ.setH a v, .next) := by
  simp [mexecC, mexec, hv, ha]

theorem mexecC_LDRs {rd p : Nat} (hd : rd < 30) (hp : p < 256) :
    mexecC c (.LDR (.x rd) .sp (stackOffset p)) μ =
      some (μ.setT (.register (.x rd)) (μ.val (.spill p)), .next) := by
  simp [mexecC, mexec, regOpnd, hd, spillOpnd_stackOffset hp]

theorem mexecC_STRs {rs p : Nat} (hs : rs < 30) (hp : p < 256) :
    mexecC c (.STR (.x rs) .sp (stackOffset p)) μ =
      some (μ.setT (.spill p) (μ.val (.register (.x rs))), .next) := by
  simp [mexecC, mexec, regOpnd, hs, spillOpnd_stackOffset hp]

theorem mexecC_MOVR {rd rs : Nat} (hd : rd < 30) (hs : rs < 30) :
    mexecC c (.MOVR (.x rd) (.x rs)) μ =
      some (μ.setT (.register (.x rd)) (μ.val (.register (.x rs))), .next) := by
  simp [mexecC, mexec, regOpnd, hd, hs]

end Steps

/-! ## machine-level contracts of share_block_n and erase_block -/

theorem isVar_opndOK {t : Temporary} (ht : t.isVar) : OpndOK t := by
  cases t with
  | register reg =>
    cases reg with
    | x r => exact (isVar_reg ht).2
    | sp => simp [Temporary.isVar] at ht
    | xzr => simp [Temporary.isVar] at ht
  | spill p => exact (isVar_spill ht).2

/-- a variable temporary is none of the reserved registers HEAP, FREE, TEMP, TEMP2 -/
theorem isVar_ne {t : Temporary} (ht : t.isVar) :
    t ≠ .register (.x 0) ∧ t ≠ .register (.x 1) ∧ t ≠ .register (.x 2) ∧ t ≠ .register (.x 3) := by
  cases t with
  | register reg =>
    cases reg with
    | x r =>
      have := (isVar_reg ht).1
      rw [RESERVED_eq] at this
      refine ⟨?_, ?_, ?_, ?_⟩ <;> (apply reg_ne; omega)
    | sp => simp [Temporary.isVar] at ht
    | xzr => simp [Temporary.isVar] at ht
  | spill p => simp

section LoadPtr
variable {c : MemCfg} {μ : MState} {h : Scc.Heap.HState}

/-- bringing the pointer of `t` into the register memory.rs works with -/
theorem m_loadPtr {t : Temporary} (ht : t.isVar) :
    ∃ r, ptrReg t = .x r ∧ r < 30 ∧ 2 ≤ r ∧ r ≠ 3 ∧ NoLab (loadPtr t) ∧
      ∃ μ1, mFwd c (loadPtr t) μ = some (μ1, .next) ∧ μ1.val (.register (.x r)) = μ.val t ∧
        μ1.heap = μ.heap ∧ (∀ u, u ≠ .register (.x 2) → μ1.val u = μ.val u) := by
  cases t with
  | register reg =>
    cases reg with
    | x r =>
      obtain ⟨h1, h2⟩ := isVar_reg ht
      rw [RESERVED_eq] at h1
      exact ⟨r, rfl, h2, by omega, by omega, noLab_nil, μ, mFwd_nil c μ, rfl, rfl, fun _ _ => rfl⟩
    | sp => simp [Temporary.isVar] at ht
    | xzr => simp [Temporary.isVar] at ht
  | spill p =>
    obtain ⟨_, h2⟩ := isVar_spill ht
    refine ⟨2, rfl, by decide, by decide, by decide, fun l => by simp [loadPtr],
      μ.setT (.register (.x 2)) (μ.val (.spill p)), ?_, by simp, rfl, fun u hu => by simp [hu]⟩
    exact mFwd_step c (mexecC_LDRs c (by decide) h2) (mFwd_nil c _)

end LoadPtr

/-- CONTRACT of `share_block_n` (memory.rs) on the machine: whenever the heap model shares the block
`p` (`n` more references), the emitted code — pointer in a register or in a spill slot — runs to its
end from every state (SP in place) that represents the heap, and the final state represents the
model's result; only TEMP, TEMP2, the flags and that one heap word change; SP is unchanged. -/
theorem shareBlockN_contract {c : MemCfg} {room : Nat} {σ : State} (h8 : c.heapBase % 8 = 0)
    (B : SpOk c σ.sp room) {h h' : Scc.Heap.HState} (R : HeapRel c σ h) {t : Temporary} (ht : t.isVar)
    {p : Word} (hv : σ.tempVal t = some p) {n : Nat} (hn : n < 4096)
    (hop : Scc.Heap.shareBlock h p.toNat n = .ok h') (hno : p ≠ 0 → h.mem.get p.toNat + n < 2 ^ 64) (k : Nat) :
    ∃ code, (shareBlockN t n).run k = .ok (code, k + 1) ∧ LabsIn code k (k + 1) ∧
      ∃ σ', execFwd c code σ = .ok (σ', .next) ∧ SpOk c σ'.sp room ∧ HeapRel c σ' h' ∧
        FrameT σ σ' (fun u => u = .register TEMP ∨ u = .register TEMP2) := by
  have C := heapCfgOK_of_spOk h8 B
  have H := heapRel_mview R
  obtain ⟨r, hpr, hr, hr2, hr3, hnl, μ1, x1, v1, hp1, F1⟩ := m_loadPtr (c := c) (μ := mview σ) ht
  have H1 : HRelM c μ1 h := by
    obtain ⟨wh, hwh, ewh⟩ := H.heap
    obtain ⟨wf, hwf, ewf⟩ := H.free
    exact ⟨H.base, H.limit, fun a => by rw [hp1]; exact H.mem a,
      ⟨wh, by rw [F1 _ (by simp)]; exact hwh, ewh⟩, ⟨wf, by rw [F1 _ (by simp)]; exact hwf, ewf⟩⟩
  obtain ⟨μ2, x2, H2, F2⟩ := m_share C H1 hr hr3 (v1.trans hv) hn hop hno (labName (k + 1))
  refine ⟨_, shareBlockN_run t n k, ?_, ?_⟩
  · refine (hnl.labsIn _ _).append ?_
    intro l hl
    simp only [shareCode, List.mem_cons, List.mem_append, reduceCtorEq, false_or, or_false,
      Code.LAB.injEq, List.not_mem_nil] at hl
    exact ⟨k + 1, hl, by omega, by omega⟩
  · rw [hpr]
    obtain ⟨σ', e, B', M', F⟩ := m_to_machine B (mFwd_seq c x1 x2)
      (changed := fun u => u = .register TEMP ∨ u = .register TEMP2)
      (fun u hu => by
        rw [F2 u (fun e => hu (Or.inr e)), F1 u (fun e => hu (Or.inl e))])
    exact ⟨σ', e, B', heapRel_of_mrep M' H2, F⟩

/-- CONTRACT of `erase_block` (memory.rs) on the machine: whenever the heap model erases one reference
to `p` (null: nothing; count 0: the block goes onto the lazy free list and FREE := p; otherwise the
count is decremented), the emitted code — pointer in a register or in a spill slot — runs to its end
from every state that represents the heap, and the final state represents the model's result; only
TEMP, TEMP2, FREE, the flags and the header word of `p` change; SP is unchanged. -/
theorem eraseBlock_contract {c : MemCfg} {room : Nat} {σ : State} (h8 : c.heapBase % 8 = 0)
    (B : SpOk c σ.sp room) {h h' : Scc.Heap.HState} (R : HeapRel c σ h) {t : Temporary} (ht : t.isVar)
    {p : Word} (hv : σ.tempVal t = some p) (hop : Scc.Heap.eraseBlock h p.toNat = .ok h') (k : Nat) :
    ∃ code, (eraseBlock t).run k = .ok (code, k + 3) ∧ LabsIn code k (k + 3) ∧
      ∃ σ', execFwd c code σ = .ok (σ', .next) ∧ SpOk c σ'.sp room ∧ HeapRel c σ' h' ∧
        FrameT σ σ' (fun u => u = .register TEMP ∨ u = .register TEMP2 ∨ u = .register FREE) := by
  have C := heapCfgOK_of_spOk h8 B
  have H := heapRel_mview R
  have l12 : labName (k + 1) ≠ labName (k + 2) := fun e => by have := labName_inj.mp e; omega
  have l13 : labName (k + 1) ≠ labName (k + 3) := fun e => by have := labName_inj.mp e; omega
  have l23 : labName (k + 2) ≠ labName (k + 3) := fun e => by have := labName_inj.mp e; omega
  obtain ⟨r, hpr, hr, hr2, hr3, hnl, μ1, x1, v1, hp1, F1⟩ := m_loadPtr (c := c) (μ := mview σ) ht
  have H1 : HRelM c μ1 h := by
    obtain ⟨wh, hwh, ewh⟩ := H.heap
    obtain ⟨wf, hwf, ewf⟩ := H.free
    exact ⟨H.base, H.limit, fun a => by rw [hp1]; exact H.mem a,
      ⟨wh, by rw [F1 _ (by simp)]; exact hwh, ewh⟩, ⟨wf, by rw [F1 _ (by simp)]; exact hwf, ewf⟩⟩
  obtain ⟨μ2, x2, H2, F2⟩ := m_erase C H1 hr hr3 (by omega) (v1.trans hv) hop _ _ _ l12 l13 l23
  refine ⟨_, eraseBlock_run t k, (hnl.labsIn _ _).append (labsIn_eraseCode _ k), ?_⟩
  rw [hpr]
  obtain ⟨σ', e, B', M', F⟩ := m_to_machine B (mFwd_seq c x1 x2)
    (changed := fun u => u = .register TEMP ∨ u = .register TEMP2 ∨ u = .register FREE)
    (fun u hu => by
      rw [F2 u (fun e => hu (Or.inr (Or.inr e))) (fun e => hu (Or.inr (Or.inl e))),
        F1 u (fun e => hu (Or.inl e))])
  exact ⟨σ', e, B', heapRel_of_mrep M' H2, F⟩

end Scc.A64
