/-
  Scc.A64.ConcKDefs — runs of the AArch64 SPEC machine (`MSteps`, Scc/A64/RefBridge.lean) that execute AT LEAST
  ONE INSTRUCTION (`MStepsR`), and COUNTED runs (`MStepsN`): the bookkeeping of the progress argument of the
  concrete-run theorems (Scc/A64/ConcK*.lean, Props/C09A64All.lean, C10A64All.lean, C13A64All.lean).
  On AArch64 the machine may be ahead of a statement boundary by `#ctx` hooks (`Tol`, Scc/A64/RefClosAddr.lean:
  the `BR` of an `invoke` of a single-method closure enters at the last label before the first instruction), and
  an iteration of the run loop at a hook does nothing but advance the program counter; so "the machine makes a
  transition" has to be witnessed by an INSTRUCTION:
  * `MStepsR`          a run through at least one item that is an instruction;
  * `tol_runR`         such a run from the boundary is a run with an instruction from the machine's position;
  * `MStepsN`          a run of exactly `n` iterations of the run loop; `msteps_count`, `mstepsR_count` (n ≥ 1);
  * `runLoop_mstepsN`, `runLoop_outOfFuel`  counted runs inside `runLoop` (heap monitor off).
-/
import Scc.A64.RefClosAddr

set_option linter.unusedVariables false
set_option linter.unusedSimpArgs false

namespace Scc.A64.Ref.K

open Scc.A64 Scc.A64.CC

/-! ## runs through an instruction -/

/-- a run that executes at least one INSTRUCTION (not only `#ctx` hooks) -/
def MStepsR (P : Prog) (c : MemCfg) (σ : State) (pc : Nat) (out : List (Bool × Word)) (σ' : State) (pc' : Nat)
    (out' : List (Bool × Word)) : Prop :=
  ∃ σa pca outa σb pcb outb i, MSteps P c σ pc out σa pca outa ∧ P.items[pca]? = some (.instr i) ∧
    MStep P c σa pca outa σb pcb outb ∧ MSteps P c σb pcb outb σ' pc' out'

section R
variable {P : Prog} {c : MemCfg} {σ1 σ2 σ3 : State} {pc1 pc2 pc3 : Nat} {o1 o2 o3 : List (Bool × Word)}

theorem MStepsR.msteps (h : MStepsR P c σ1 pc1 o1 σ2 pc2 o2) : MSteps P c σ1 pc1 o1 σ2 pc2 o2 := by
  obtain ⟨σa, pca, outa, σb, pcb, outb, i, h1, _, h2, h3⟩ := h
  exact h1.trans (.step h2 h3)

theorem MStepsR.pre (h2 : MStepsR P c σ2 pc2 o2 σ3 pc3 o3) (h1 : MSteps P c σ1 pc1 o1 σ2 pc2 o2) :
    MStepsR P c σ1 pc1 o1 σ3 pc3 o3 := by
  obtain ⟨σa, pca, outa, σb, pcb, outb, i, g1, gi, g2, g3⟩ := h2
  exact ⟨σa, pca, outa, σb, pcb, outb, i, h1.trans g1, gi, g2, g3⟩

theorem MStepsR.post (h1 : MStepsR P c σ1 pc1 o1 σ2 pc2 o2) (h2 : MSteps P c σ2 pc2 o2 σ3 pc3 o3) :
    MStepsR P c σ1 pc1 o1 σ3 pc3 o3 := by
  obtain ⟨σa, pca, outa, σb, pcb, outb, i, g1, gi, g2, g3⟩ := h1
  exact ⟨σa, pca, outa, σb, pcb, outb, i, g1, gi, g2, g3.trans h2⟩

/-- one instruction with outcome `next` -/
theorem MStepsR.one_next {i : Instr} (hi : P.items[pc1]? = some (.instr i))
    (hs : step P c i σ1 pc1 = .next σ2 pc2) : MStepsR P c σ1 pc1 o1 σ2 pc2 o1 :=
  ⟨σ1, pc1, o1, σ2, pc2, o1, i, .refl _ _ _, hi, .next hi hs, .refl _ _ _⟩

end R

/-- `B l`, as a run through an instruction -/
theorem mstepR_jump {hk : Code → Bool} {P : Prog} {cs : List Code} (Hp : Holds hk P cs) {c : MemCfg} {k : Nat}
    {l : String} (hc : cs[k]? = some (Code.B l)) {j : Nat} (hl : P.labels[l]? = some j)
    (σ : State) (out : List (Bool × Word)) : MStepsR P c σ (pcOf hk cs k) out σ j out := by
  obtain ⟨i, hti, hit⟩ := Hp.instr k _ hc rfl
  simp only [Code.toInstr, Option.some.injEq] at hti
  subst hti
  exact MStepsR.one_next hit (by simp [step, Prog.gotoLabel, hl])

/-- a run through an instruction from the boundary, the machine ahead by hooks: the machine makes the run
through the instruction as well -/
theorem tol_runR {P : Prog} {c : MemCfg} {σ σ1 : State} {pc0 pc1 pcR : Nat} {out out1 : List (Bool × Word)}
    (h : MStepsR P c σ pc0 out σ1 pc1 out1) (T : Tol P pc0 pcR) : MStepsR P c σ pcR out σ1 pc1 out1 := by
  obtain ⟨σa, pca, outa, σb, pcb, outb, i, g1, gi, g2, g3⟩ := h
  exact ⟨σa, pca, outa, σb, pcb, outb, i, tol_run_instr g1 T gi, gi, g2, g3⟩

/-! ## counted runs -/

/-- a run of exactly `n` iterations of the run loop (heap monitor off) -/
inductive MStepsN (P : Prog) (c : MemCfg) :
    Nat → State → Nat → List (Bool × Word) → State → Nat → List (Bool × Word) → Prop
  | refl (σ : State) (pc : Nat) (out : List (Bool × Word)) : MStepsN P c 0 σ pc out σ pc out
  | step {n : Nat} {σ σ1 σ2 : State} {pc pc1 pc2 : Nat} {out out1 out2 : List (Bool × Word)} :
      MStep P c σ pc out σ1 pc1 out1 → MStepsN P c n σ1 pc1 out1 σ2 pc2 out2 →
      MStepsN P c (n + 1) σ pc out σ2 pc2 out2

section N
variable {P : Prog} {c : MemCfg} {σ1 σ2 σ3 : State} {pc1 pc2 pc3 : Nat} {o1 o2 o3 : List (Bool × Word)}

theorem MStepsN.trans {n m : Nat} (h1 : MStepsN P c n σ1 pc1 o1 σ2 pc2 o2)
    (h2 : MStepsN P c m σ2 pc2 o2 σ3 pc3 o3) : MStepsN P c (n + m) σ1 pc1 o1 σ3 pc3 o3 := by
  induction h1 with
  | refl => rw [Nat.zero_add]; exact h2
  | @step n σ σa σb pc pca pcb out outa outb hs _ ih =>
    rw [show n + 1 + m = (n + m) + 1 by omega]
    exact .step hs (ih h2)

theorem MStepsN.msteps {n : Nat} (h : MStepsN P c n σ1 pc1 o1 σ2 pc2 o2) : MSteps P c σ1 pc1 o1 σ2 pc2 o2 := by
  induction h with
  | refl => exact .refl _ _ _
  | step hs _ ih => exact .step hs ih

theorem msteps_count (h : MSteps P c σ1 pc1 o1 σ2 pc2 o2) : ∃ n, MStepsN P c n σ1 pc1 o1 σ2 pc2 o2 := by
  induction h with
  | refl => exact ⟨0, .refl _ _ _⟩
  | step hs _ ih =>
    obtain ⟨n, hn⟩ := ih
    exact ⟨n + 1, .step hs hn⟩

/-- a run through an instruction takes at least one iteration -/
theorem mstepsR_count (h : MStepsR P c σ1 pc1 o1 σ2 pc2 o2) :
    ∃ n, 1 ≤ n ∧ MStepsN P c n σ1 pc1 o1 σ2 pc2 o2 := by
  obtain ⟨σa, pca, outa, σb, pcb, outb, i, g1, _, g2, g3⟩ := h
  obtain ⟨n1, h1⟩ := msteps_count g1
  obtain ⟨n3, h3⟩ := msteps_count g3
  exact ⟨n1 + (n3 + 1), by omega, h1.trans (.step g2 h3)⟩

end N

/-- counted runs inside `runLoop`: the iterations consume fuel, nothing else -/
theorem runLoop_mstepsN {P : Prog} {cfg : MonCfg} (hh : cfg.heap = false) {n : Nat} {σ σ' : State} {pc pc' : Nat}
    {out out' : List (Bool × Word)} (h : MStepsN P cfg.mem n σ pc out σ' pc' out') :
    ∀ (steps blocks : Nat), ∃ steps', ∀ fuel,
      runLoop P cfg (n + fuel) { σ := σ, pc := pc, out := out, steps := steps, blocks := blocks } =
        runLoop P cfg fuel { σ := σ', pc := pc', out := out', steps := steps', blocks := blocks } := by
  induction h with
  | refl σ pc out => intro steps blocks; exact ⟨steps, fun fuel => by simp⟩
  | @step n σ σ1 σ2 pc pc1 pc2 out out1 out2 hs _ ih =>
    intro steps blocks
    cases hs with
    | hook hi =>
      obtain ⟨s', hn⟩ := ih steps blocks
      refine ⟨s', fun fuel => ?_⟩
      rw [show n + 1 + fuel = (n + fuel) + 1 by omega, runLoop_item hi]
      simp only [hh, Bool.false_eq_true, if_false]
      exact hn fuel
    | next hi hst =>
      obtain ⟨s', hn⟩ := ih (steps + 1) blocks
      refine ⟨s', fun fuel => ?_⟩
      rw [show n + 1 + fuel = (n + fuel) + 1 by omega, runLoop_item hi]
      simp only [hst]
      exact hn fuel
    | print hi hst =>
      obtain ⟨s', hn⟩ := ih (steps + 1) blocks
      refine ⟨s', fun fuel => ?_⟩
      rw [show n + 1 + fuel = (n + fuel) + 1 by omega, runLoop_item hi]
      simp only [hst]
      exact hn fuel

/-- a machine that makes `n` iterations without ending has not ended with less fuel -/
theorem runLoop_outOfFuel {P : Prog} {cfg : MonCfg} (hh : cfg.heap = false) {n : Nat} {σ σ' : State} {pc pc' : Nat}
    {out out' : List (Bool × Word)} (h : MStepsN P cfg.mem n σ pc out σ' pc' out') :
    ∀ (f steps blocks : Nat), f ≤ n →
      (runLoop P cfg f { σ := σ, pc := pc, out := out, steps := steps, blocks := blocks }).res = .outOfFuel := by
  induction h with
  | refl σ pc out =>
    intro f steps blocks hf
    have : f = 0 := by omega
    subst this
    rfl
  | @step n σ σ1 σ2 pc pc1 pc2 out out1 out2 hs _ ih =>
    intro f steps blocks hf
    cases f with
    | zero => rfl
    | succ f =>
      cases hs with
      | hook hi =>
        rw [runLoop_item hi]
        simp only [hh, Bool.false_eq_true, if_false]
        exact ih f steps blocks (by omega)
      | next hi hst =>
        rw [runLoop_item hi]
        simp only [hst]
        exact ih f (steps + 1) blocks (by omega)
      | print hi hst =>
        rw [runLoop_item hi]
        simp only [hst]
        exact ih f (steps + 1) blocks (by omega)

end Scc.A64.Ref.K
