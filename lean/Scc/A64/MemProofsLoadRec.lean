/-
  Scc.A64.MemProofsLoadRec — the contract of `load_fields` (memory.rs of axcut2aarch64) on the view:
  ANY number of fields (the recursion goes down the chain of blocks first), release and share mode,
  every placement; a spilled memory block is accessed through TEMPORARY_TEMP (X10), evacuated to
  SPILL_TEMP (spill slot 0) on first use and restored after the last block.  Stated on the logical
  view `lview`.
-/
import Scc.A64.MemProofsLoadFields

set_option linter.unusedSimpArgs false
set_option linter.unusedVariables false

namespace Scc.A64

open Scc.AxCut
open Scc.Backend (GenM TempNum freshLabel)

section Fields
variable {c : MemCfg}

/-- CONTRACT of `load_fields` on the view -/
theorem m_loadFields (C : HeapCfgOK c) : ∀ (fuel : Nat) (toLoad existing : Ctx) (pos : BlockPosition)
    (mode : LoadMode) (rf : Bool) (p : Nat) (μ : MState) (h h' : Scc.Heap.HState)
    (vals : List Scc.Heap.Field) (link k : Nat),
    toLoad.length < fuel → HRelM c μ h → 2 * (existing.length + toLoad.length) ≤ 280 →
    (rf = true → 26 ≤ 2 * existing.length) → (pos = .last → rf = false) →
    (∃ pw, (lview μ rf).val (posTemp (2 * existing.length)) = some pw ∧ pw.toNat = p) →
    Scc.Heap.loadFields h (toLoad.map kindOf) (posMap pos) (modeMap mode) p = .ok (h', vals, link) →
    (mode = .share → ∀ a, h'.mem.get a < 2 ^ 64) →
    ∃ code rf' k', (loadFields fuel toLoad existing pos mode rf).run k = .ok ((code, rf'), k') ∧ k ≤ k' ∧
      LabsIn code k k' ∧ (rf' = true → 26 ≤ 2 * (existing.length + toLoad.length)) ∧
      ∃ μ', mFwd c code μ = some (μ', .next) ∧ HRelM c μ' h' ∧
        EnvFields (lview μ' (outFlag rf' pos)) existing.length toLoad vals ∧
        (pos = .other → ∃ lw, (lview μ' rf').val (posTemp (2 * (existing.length + toLoad.length))) = some lw ∧
          lw.toNat = link) ∧
        (∀ u, u ≠ .register (.x 0) → u ≠ .register (.x 2) → u ≠ .register (.x 3) → u ≠ .spill 0 →
          (∀ m, 2 * existing.length ≤ m → m < 2 * (existing.length + toLoad.length) + linkSlot pos →
            u ≠ posTemp m) →
          (lview μ' (outFlag rf' pos)).val u = (lview μ rf).val u) := by
  intro fuel
  induction fuel with
  | zero => intro toLoad _ _ _ _ _ _ _ _ _ _ _ hf; exact absurd hf (Nat.not_lt_zero _)
  | succ fuel ih =>
    intro toLoad existing pos mode rf p μ h h' vals link k hfuel H hcap hrf hlast hp hop hno
    simp only [loadFields]
    by_cases hne : toLoad = []
    · -- nothing (more) to load
      subst hne
      simp only [List.map_nil, heap_loadFields_nil, Except.ok.injEq, Prod.mk.injEq] at hop
      obtain ⟨rfl, rfl, rfl⟩ := hop
      simp only [List.isEmpty_nil, if_true]
      have hfl : lview μ (outFlag rf pos) = lview μ rf := by
        cases pos with
        | last => rw [hlast rfl]; rfl
        | other => rfl
      refine ⟨[], rf, k, genm_pure _ k, Nat.le_refl _, LabsIn.nil _ _, by simpa using hrf, μ, mFwd_nil c μ, H,
        trivial, fun _ => by simpa using hp, fun _ _ _ _ _ _ => by rw [hfl]⟩
    · have hie : toLoad.isEmpty = false := by cases toLoad <;> simp_all
      have hpos : 0 < toLoad.length := List.length_pos_iff.mpr hne
      have hkne : toLoad.map kindOf ≠ [] := by simpa using hne
      rw [heap_loadFields_cons _ _ hkne, List.length_map, ← restLength_eq] at hop
      have hrlt : (if toLoad.length ≤ FIELDS_PER_BLOCK - pos.toNat then 0
          else toLoad.length - (FIELDS_PER_BLOCK - pos.toNat)) < toLoad.length := by
        rw [restLength_eq]; exact Scc.Heap.restLength_lt _ _ hpos
      simp only [hie, Bool.false_eq_true, if_false]
      generalize (if toLoad.length ≤ FIELDS_PER_BLOCK - pos.toNat then 0
          else toLoad.length - (FIELDS_PER_BLOCK - pos.toNat)) = rl at hop hrlt ⊢
      have hlt2 : (toLoad.take rl).length = rl := by simp [List.length_take]; omega
      have hlt : (existing ++ toLoad.take rl).length = existing.length + rl := by simp [hlt2]
      have hla : (existing ++ toLoad).length = existing.length + toLoad.length := by simp
      have hdl : (toLoad.drop rl).length = toLoad.length - rl := by simp
      have hdne : toLoad.drop rl ≠ [] := fun e => by
        have := congrArg List.length e; simp at this; omega
      -- the deeper blocks
      cases hdeep : Scc.Heap.loadFields h ((toLoad.map kindOf).take rl) .other (modeMap mode) p with
      | error e => simp [hdeep] at hop
      | ok r1 =>
        obtain ⟨s1, vals1, blk⟩ := r1
        simp only [hdeep] at hop
        cases hrel : relStep (modeMap mode) s1 blk with
        | error e => simp [hrel] at hop
        | ok s2 =>
          simp only [hrel] at hop
          cases hlk : (if posMap pos = .other then
              Scc.Heap.rd s2 (blk + Scc.Heap.fstOff (Scc.Heap.fieldsPerBlock - 1)) else .ok 0) with
          | error e => simp [hlk] at hop
          | ok link' =>
            simp only [hlk] at hop
            cases hlv : Scc.Heap.loadValues s2 ((toLoad.map kindOf).drop rl) blk
                (Scc.Heap.fieldsPerBlock - (posMap pos).toNat) (modeMap mode) with
            | error e => simp [hlv] at hop
            | ok r3 =>
              obtain ⟨s3, vals2⟩ := r3
              simp only [hlv, Except.ok.injEq, Prod.mk.injEq] at hop
              obtain ⟨rfl, rfl, rfl⟩ := hop
              rw [← List.map_take] at hdeep
              rw [← List.map_drop] at hlv
              have hno1 : mode = .share → ∀ a, s1.mem.get a < 2 ^ 64 := by
                intro hm a
                subst hm
                simp only [modeMap, relStep, Except.ok.injEq] at hrel
                subst hrel
                exact Nat.lt_of_le_of_lt (loadValues_mono hlv a) (hno rfl a)
              obtain ⟨c0, rfa, k1, hr0, hk1, hl0, hrfa, μa, xa, Ha, Ea, La, Fa⟩ :=
                ih (toLoad.take rl) existing .other mode rf p μ h s1 vals1 blk k (by rw [hlt2]; omega) H
                  (by rw [hlt2]; omega) hrf (fun e => by cases e) hp hdeep hno1
              rw [hlt2] at hrfa La Fa
              obtain ⟨wb, hwb, ewb⟩ := La rfl
              simp only [outFlag] at Ea Fa
              subst ewb
              rw [genm_bind hr0, genm_bind (freshTemporary_run k1 (by rw [hlt]; simp [TempNum.toNat]; omega))]
              simp only [TempNum.toNat, Nat.add_zero, hlt]
              have hmbGen : ∀ j, 1 ≤ j → posTemp (2 * ((existing ++ toLoad.take rl).length + j)) ≠
                  posTemp (2 * (existing.length + rl)) := fun j hj e => by
                have := posTemp_inj.1 e; rw [hlt] at this; omega
              by_cases hreg : 2 * (existing.length + rl) + 4 < 30
              · -- the memory block is in a register
                have hpt := posTemp_reg hreg
                have hrfa0 : rfa = false := by
                  cases rfa with
                  | false => rfl
                  | true => have := hrfa rfl; omega
                have hrf0 : rf = false := by
                  cases rf with
                  | false => rfl
                  | true => have := hrf rfl; omega
                subst hrfa0 hrf0
                rw [lview_false] at hwb Ea
                simp only [lview_false] at Fa
                rw [hpt] at hwb
                obtain ⟨c2, c3, k', hr2, hr3, hkb, hlb, μ', xb, H', Eb, Lb, Fb⟩ := m_loadFieldsBlock C Ha
                  (mbr := 2 * (existing.length + rl) + 4) (by omega) hreg (by omega) hwb
                  (toLoadNext := toLoad.drop rl) (ctxAll := existing ++ toLoad)
                  (ctxRest := existing ++ toLoad.take rl) (by rw [hla, hlt, hdl]; omega) hdne (by rw [hla]; exact hcap)
                  (pos := pos) (mode := mode) (fun j hj => by rw [← hpt]; exact hmbGen j hj) hrel hlk hlv hno k1
                rw [hpt]
                simp only []
                rw [genm_bind hr2, genm_bind hr3]
                refine ⟨c0 ++ (releaseCode mode (.x (2 * (existing.length + rl) + 4)) ++ c2 ++ c3), false, k', ?_,
                  by omega, (hl0.mono (Nat.le_refl _) hkb).append (hlb.mono hk1 (Nat.le_refl _)),
                  (fun e => by cases e), μ', mFwd_seq c xa xb, H', ?_, ?_, ?_⟩
                · simp only [genm_pure, releaseCode, List.append_assoc]
                · have : outFlag false pos = false := by cases pos <;> rfl
                  rw [this, lview_false]
                  have e1 : EnvFields μ' existing.length (toLoad.take rl) vals1 :=
                    Ea.congr (fun m h1 h2 => by
                      rw [hlt2] at h2
                      have hm : m < 281 := by omega
                      obtain ⟨n0, n1, n2, n3⟩ := posTemp_ne_low hm
                      exact Fb _ n0 n2 n3 (fun m' h1' _ e => by have := posTemp_inj.1 e; rw [hlt] at h1'; omega))
                  have := e1.append (by rw [hlt2, ← hlt]; exact Eb)
                  rwa [List.take_append_drop] at this
                · intro hp'
                  obtain ⟨lw, hlw, elw⟩ := Lb hp'
                  rw [lview_false, ← hla]
                  exact ⟨lw, hlw, elw⟩
                · intro u hH hT hT2 hS hu
                  have : outFlag false pos = false := by cases pos <;> rfl
                  rw [this, lview_false]
                  rw [Fb u hH hT hT2 (fun m' h1' h2' => hu m' (by rw [hlt] at h1'; omega) (by rw [hla] at h2'; exact h2'))]
                  exact Fa u hH hT hT2 hS (fun m' h1' h2' => hu m' h1' (by simp [linkSlot] at h2'; omega))
              · -- the memory block is spilled: access through TEMPORARY_TEMP
                have h26 : 26 ≤ 2 * (existing.length + rl) := by omega
                have hpt := posTemp_spill h26
                have hq1 : 1 ≤ 2 * (existing.length + rl) - 25 := by omega
                have hq2 : 2 * (existing.length + rl) - 25 < 256 := by omega
                rw [hpt] at hwb
                have hwb' : μa.val (.spill (2 * (existing.length + rl) - 25)) = some wb := by
                  rw [← lview_val_ne μa rfa (by simp)]; exact hwb
                -- evacuate (unless already done), fetch the block pointer
                let v4 : Option Word := (lview μa rfa).val (.register (.x 10))
                let μc : MState := ((if rfa then μa else μa.setT (.spill 0) (μa.val (.register (.x 10)))).setT
                  (.register (.x 10)) (some wb))
                have hc4 : μc.val (.register (.x 10)) = some wb := by simp [μc]
                have hc0 : μc.val (.spill 0) = v4 := by
                  cases rfa <;> simp [μc, v4, lview]
                have hcu : ∀ u, u ≠ .register (.x 10) → u ≠ .spill 0 → μc.val u = μa.val u := by
                  intro u h4 h0
                  cases rfa <;> simp [μc, h4, h0]
                have hch : μc.heap = μa.heap := by cases rfa <;> rfl
                have hq0 : ¬ Temporary.spill (2 * (existing.length + rl) - 25) = .spill 0 := fun e => by
                  have : 2 * (existing.length + rl) - 25 = 0 := by simpa using e
                  omega
                have xc : mFwd c ((if (!rfa) = true then
                      [Code.COMMENT "###evacuate additional scratch register for memory block",
                        Code.STR TEMPORARY_TEMP .sp (stackOffset SPILL_TEMP)]
                    else []) ++ [Code.LDR TEMPORARY_TEMP .sp (stackOffset (2 * (existing.length + rl) - 25))]) μa =
                    some (μc, .next) := by
                  cases rfa with
                  | false =>
                    have e1 := mexecC_STRs c (μ := μa) (by decide : 10 < 30) (by decide : 0 < 256)
                    have e2 := mexecC_LDRs c (μ := μa.setT (.spill 0) (μa.val (.register (.x 10))))
                      (by decide : 10 < 30) hq2
                    have hv : (μa.setT (.spill 0) (μa.val (.register (.x 10)))).val
                        (.spill (2 * (existing.length + rl) - 25)) = some wb := by
                      simp [hq0, hwb']
                    rw [hv] at e2
                    exact mFwd_step c (mexecC_COMMENT c _ μa) (mFwd_step c e1 (mFwd_step c e2 (mFwd_nil c _)))
                  | true =>
                    have e2 := mexecC_LDRs c (μ := μa) (by decide : 10 < 30) hq2
                    rw [hwb'] at e2
                    exact mFwd_step c e2 (mFwd_nil c _)
                have Hc : HRelM c μc s1 := Ha.of_frame hch (hcu _ (by simp) (by simp)) (hcu _ (by simp) (by simp))
                have hmb4 : ∀ j, 1 ≤ j → posTemp (2 * ((existing ++ toLoad.take rl).length + j)) ≠
                    .register (.x 10) := by
                  intro j hj e
                  have := posTemp_eq_tt.1 e
                  rw [hlt] at this; omega
                obtain ⟨c2, c3, k', hr2, hr3, hkb, hlb, μd, xb, Hd, Eb, Lb, Fb⟩ := m_loadFieldsBlock C Hc
                  (mbr := 10) (by decide) (by decide) (by decide) hc4
                  (toLoadNext := toLoad.drop rl) (ctxAll := existing ++ toLoad)
                  (ctxRest := existing ++ toLoad.take rl) (by rw [hla, hlt, hdl]; omega) hdne (by rw [hla]; exact hcap)
                  (pos := pos) (mode := mode) hmb4 hrel hlk hlv hno k1
                -- what the block code leaves alone
                have hfd : ∀ u, u ≠ .register (.x 0) → u ≠ .register (.x 2) → u ≠ .register (.x 3) →
                    (∀ m', 2 * (existing.length + rl) ≤ m' → m' < 2 * (existing.length + toLoad.length) + linkSlot pos →
                      u ≠ posTemp m') → μd.val u = μc.val u := by
                  intro u hH hT hT2 hu
                  exact Fb u hH hT hT2 (fun m' h1' h2' => hu m' (by rw [hlt] at h1'; exact h1') (by rw [hla] at h2'; exact h2'))
                have hd0 : μd.val (.spill 0) = v4 := by
                  rw [hfd _ (by simp) (by simp) (by simp) (fun m' _ _ e => posTemp_ne_spill0 m' e.symm)]
                  exact hc0
                -- restore at the last block
                let μe : MState := if pos = .last then μd.setT (.register (.x 10)) v4 else μd
                have xe : mFwd c (if (pos == BlockPosition.last) = true then
                      [Code.COMMENT "###restore evacuated register",
                        Code.LDR TEMPORARY_TEMP .sp (stackOffset SPILL_TEMP)]
                    else []) μd = some (μe, .next) := by
                  cases pos with
                  | last =>
                    have e1 := mexecC_LDRs c (μ := μd) (by decide : 10 < 30) (by decide : 0 < 256)
                    rw [hd0] at e1
                    exact mFwd_step c (mexecC_COMMENT c _ μd) (mFwd_step c e1 (mFwd_nil c _))
                  | other => exact mFwd_nil c μd
                have heh : μe.heap = μd.heap := by cases pos <;> rfl
                have He : HRelM c μe s3 := by
                  refine Hd.of_frame heh ?_ ?_ <;> (cases pos <;> simp [μe])
                -- the logical view of the result
                have hL4 : (lview μe (outFlag true pos)).val (.register (.x 10)) = v4 := by
                  cases pos with
                  | last => simp [outFlag, lview_false, μe]
                  | other => simp [outFlag, lview_val_true, μe, hd0]
                have hLu : ∀ u, u ≠ .register (.x 10) → (lview μe (outFlag true pos)).val u = μd.val u := by
                  intro u h4
                  rw [lview_val_ne _ _ h4]
                  cases pos <;> simp [μe, h4]
                have hLa : ∀ u, u ≠ .register (.x 0) → u ≠ .register (.x 2) → u ≠ .register (.x 3) → u ≠ .spill 0 →
                    (∀ m', 2 * (existing.length + rl) ≤ m' → m' < 2 * (existing.length + toLoad.length) + linkSlot pos →
                      u ≠ posTemp m') → (lview μe (outFlag true pos)).val u = (lview μa rfa).val u := by
                  intro u hH hT hT2 hS hu
                  by_cases h4 : u = .register (.x 10)
                  · subst h4; rw [hL4]
                  · rw [hLu u h4, hfd u hH hT hT2 hu, hcu u h4 hS, lview_val_ne _ _ h4]
                rw [hpt]
                simp only []
                rw [← TEMPORARY_TEMP_eq] at hr2 hr3
                rw [genm_bind hr2, genm_bind hr3]
                refine ⟨(c0 ++ ((if (!rfa) = true then
                      [Code.COMMENT "###evacuate additional scratch register for memory block",
                        Code.STR TEMPORARY_TEMP .sp (stackOffset SPILL_TEMP)]
                    else []) ++ [Code.LDR TEMPORARY_TEMP .sp (stackOffset (2 * (existing.length + rl) - 25))])) ++
                    (releaseCode mode (.x 10) ++ c2 ++ c3) ++
                    (if (pos == BlockPosition.last) = true then
                      [Code.COMMENT "###restore evacuated register",
                        Code.LDR TEMPORARY_TEMP .sp (stackOffset SPILL_TEMP)]
                    else []), true, k', ?_, by omega, ?_, fun _ => by omega, μe,
                  mFwd_seq c (mFwd_seq c (mFwd_seq c xa xc) xb) xe, He, ?_, ?_, ?_⟩
                · simp only [genm_pure, releaseCode, List.append_assoc, TEMPORARY_TEMP_eq]
                · refine LabsIn.append (LabsIn.append (LabsIn.append (hl0.mono (Nat.le_refl _) hkb) ?_)
                    (hlb.mono hk1 (Nat.le_refl _))) ?_
                  · exact LabsIn.of_noLab _ _ (fun l => by split <;> simp)
                  · exact LabsIn.of_noLab _ _ (fun l => by split <;> simp)
                · have e1 : EnvFields (lview μe (outFlag true pos)) existing.length (toLoad.take rl) vals1 :=
                    Ea.congr (fun m' h1' h2' => by
                      rw [hlt2] at h2'
                      have hm : m' < 281 := by omega
                      obtain ⟨n0, n1, n2, n3⟩ := posTemp_ne_low hm
                      exact hLa _ n0 n2 n3 (posTemp_ne_spill0 m')
                        (fun m'' h1'' _ e => by have := posTemp_inj.1 e; omega))
                  have e2 : EnvFields (lview μe (outFlag true pos)) (existing.length + rl) (toLoad.drop rl) vals2 := by
                    rw [hlt] at Eb
                    exact Eb.congr (fun m' h1' h2' => hLu _ (fun e => by have := posTemp_eq_tt.1 e; omega))
                  have := e1.append (by rw [hlt2]; exact e2)
                  rwa [List.take_append_drop] at this
                · intro hp'
                  obtain ⟨lw, hlw, elw⟩ := Lb hp'
                  rw [hla] at hlw
                  refine ⟨lw, ?_, elw⟩
                  subst hp'
                  rw [lview_val_true, if_neg (fun e => by have := posTemp_eq_tt.1 e; omega)]
                  simpa [μe] using hlw
                · intro u hH hT hT2 hS hu
                  rw [hLa u hH hT hT2 hS (fun m' h1' h2' => hu m' (by omega) h2')]
                  exact Fa u hH hT hT2 hS (fun m' h1' h2' => hu m' h1' (by simp [linkSlot] at h2'; omega))

end Fields

end Scc.A64
