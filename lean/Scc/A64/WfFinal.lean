/-
  Scc.A64.WfFinal — C14 for AArch64: the routine of every `LabelSafe`, linearly typed program within the bounds
  satisfies the hypotheses `Wf.CodesOK` of `Wf.wfLines_ok` (Scc/A64/WfCheck.lean): `codesOK_routine`.
  Proof file.
-/
import Scc.A64.WfCheck
import Scc.A64.RefSideLabels
import Scc.A64.LoaderRoutine

set_option linter.unusedVariables false
set_option linter.unusedSimpArgs false

namespace Scc.A64.Wf

open Scc.AxCut Scc.Backend Scc.A64 Scc.A64.Ref Scc.A64.CC
open Scc.Backend.Refs
open Scc.Props.C14Generic (LabelSafe progXtorNames)

theorem isExternal_iff {l : String} : isExternal l = true ↔ l = "print_i64" ∨ l = "println_i64" := by
  simp [isExternal]

/-- a generated label is not a runtime symbol -/
theorem R_ne_ext {l : Lbl} (hl : l ≠ .cleanup) {s : String} (hs : s = "print_i64" ∨ s = "println_i64") :
    R l ≠ s := by
  intro h
  have hl' : (Lbl.render natRen l).toList = s.toList := by rw [← h]
  cases l with
  | defn f => exact render_defn_ne (s := s) (by rcases hs with rfl | rfl <;> decide) h
  | cleanup => exact hl rfl
  | lab n =>
    have := u_not_mem_lab n
    rw [hl'] at this
    exact this (by rcases hs with rfl | rfl <;> decide)
  | base m n =>
    have := lastSeg_base m n
    rw [hl'] at this
    have h2 := toDigits_all_digit n
    rw [← this] at h2
    revert h2
    rcases hs with rfl | rfl <;> decide
  | clause m n x =>
    have := count_u_clause m n x
    have e : (R (.clause m n x)).toList = s.toList := hl'
    rw [e] at this
    revert this
    rcases hs with rfl | rfl <;> decide

/-- plain items have no target label, except `BL` of a runtime symbol -/
theorem target_of_plB {c : Code} (h : plB c = true) {l : String} (hl : targetLabel c = some l) :
    c = .BL l ∧ isExternal l = true := by
  cases c <;> first | (cases hl; done) | (cases h; done) | skip
  cases hl
  refine ⟨rfl, ?_⟩
  simpa [plB, blB, dfn, iref] using h

theorem pl_moveArguments : ∀ (n : Nat) (codes : List Code), moveArguments n = .ok codes → PL codes
  | 0, codes, h => by simp only [moveArguments] at h; cases h; decide
  | 1, codes, h => by simp only [moveArguments] at h; cases h; decide
  | n + 2, codes, h => by
    simp only [moveArguments] at h
    split at h
    · split at h
      · rename_i rest hrest
        cases h
        exact pl_append.2 ⟨pl_cons.2 ⟨by decide, rfl⟩, pl_moveArguments (n + 1) _ hrest⟩
      · cases h
    · cases h

theorem pl_setup {n : Nat} {codes : List Code} (h : setup n = .ok codes) : PL codes := by
  unfold setup at h
  split at h
  · cases h
  · rename_i moves hm
    cases h
    simp only [pl_append]
    exact ⟨⟨by decide, pl_moveArguments _ _ hm⟩, by decide⟩

/-- **the routine of every `LabelSafe`, linearly typed program within the bounds satisfies `CodesOK`** (given that
    it has fewer than 2^18 items) -/
theorem codesOK_routine {p : AxCut.Prog} {hooks : Bool} {k : Nat} {body routine : List Code} {nargs : Nat}
    (hsafe : LabelSafe p = true) (htp : LinTypedProg p) (hrange : Loader.ProgInRangeA64 p)
    (h : compileProg a64Backend p hooks k = .ok (body, nargs, routine)) (hlen : routine.length < 262144) :
    CodesOK routine := by
  obtain ⟨k', hc, hr⟩ := compileProg_ok h
  obtain ⟨hab, ls, e, nd, rng, hx⟩ := g_body hc hsafe
  have hne : ∀ l ∈ ls, l ≠ Lbl.cleanup := by
    intro l hl e'
    subst e'
    rcases rng _ hl with h1 | h1
    · obtain ⟨d, _, e2⟩ := List.mem_map.1 h1
      cases e2
    · obtain ⟨n, hn, _⟩ := h1
      cases hn
  obtain ⟨su, hsu, hrt⟩ := routine_anatomy hr
  have hlabs : labs routine = "asm_main" :: (ls.map R ++ ["cleanup"]) := by
    rw [hrt, Ref.labs_append, Ref.labs_append, labs_routineHead_eq hsu, labs_cleanup, e]
    rfl
  obtain ⟨hrefs, hbl⟩ := body_refs htp hc
  simp only [List.all_eq_true] at hbl
  have hmem : ∀ c ∈ routine, c ∈ preamble ∨ c ∈ su ∨ c = Code.COMMENT "actual code" ∨ c ∈ body ∨ c ∈ cleanup := by
    intro c hc'
    rw [hrt] at hc'
    simpa [routineHead, List.mem_append, or_assoc] using hc'
  have hplsu := pl_setup hsu
  simp only [PL, List.all_eq_true] at hplsu
  refine ⟨labels_unique_a64 hsafe h, ?_, by rw [hlabs]; simp, ?_, ?_, ?_, hlen⟩
  · -- no label is a runtime symbol
    intro l hl
    rw [hlabs] at hl
    cases hx' : isExternal l with
    | false => rfl
    | true =>
      exfalso
      have hs := isExternal_iff.1 hx'
      simp only [List.mem_cons, List.mem_append, List.mem_map, List.mem_singleton, List.not_mem_nil, or_false] at hl
      rcases hl with rfl | ⟨t, ht, rfl⟩ | rfl
      · rcases hs with hs | hs <;> revert hs <;> decide
      · exact R_ne_ext (hne t ht) hs rfl
      · rcases hs with hs | hs <;> revert hs <;> decide
  · -- operand classes and ranges
    have := (Loader.routine_wf hrange h).2
    simp only [allWf, List.all_eq_true] at this
    exact this
  · -- target labels
    intro c hc' l hl
    rcases hmem c hc' with hc' | hc' | rfl | hc' | hc'
    · exfalso
      have : ∀ c ∈ preamble, targetLabel c = none := by decide
      rw [this c hc'] at hl; cases hl
    · exact Or.inr (target_of_plB (hplsu c hc') hl)
    · cases hl
    · by_cases hb : c = Code.BL l
      · subst hb
        exact Or.inr ⟨rfl, hbl _ hc'⟩
      · have hi : iref c = some l := by
          cases c <;> first | exact hl | (cases hl; done) | (cases hl; exact absurd rfl hb)
        have hm : l ∈ V.refs body := List.mem_filterMap.2 ⟨c, hc', hi⟩
        refine Or.inl ?_
        rw [hlabs, ← e]
        rcases hrefs l hm with h1 | h1
        · exact List.mem_cons_of_mem _ (List.mem_append_left _ h1)
        · subst h1; simp
    · exfalso
      have : ∀ c ∈ cleanup, targetLabel c = none := by decide
      rw [this c hc'] at hl; cases hl
  · -- the routine ends with `RET`
    refine ⟨routineHead su ++ body ++ cleanup.dropLast, Code.RET, .ret, ?_, rfl⟩
    rw [hrt]
    have : cleanup = cleanup.dropLast ++ [Code.RET] := by decide
    conv => lhs; rw [this]
    simp [List.append_assoc]

end Scc.A64.Wf
