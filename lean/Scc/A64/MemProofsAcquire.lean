/-
  Scc.A64.MemProofsAcquire — the contracts of `erase_fields` and `acquire_block` (memory.rs of
  axcut2aarch64) against `Scc.Heap.eraseFields` / `Scc.Heap.acquire`: (1) next block of the linear
  free list, (2) head of the lazy free list with deferred erasure of its three children, (3) bump of
  the frontier — target in a register or in a spill slot; first on the view, then on the machine.
-/
import Scc.A64.MemProofsHeap

set_option linter.unusedSimpArgs false
set_option linter.unusedVariables false

namespace Scc.A64

open Scc.AxCut
open Scc.Backend (GenM TempNum freshLabel)

/-! ## field offsets -/

theorem fieldOffset_nat (n i : Nat) : fieldOffset n i = ((Scc.Heap.fieldOffset n i : Nat) : Int) := by
  unfold fieldOffset address Scc.Heap.fieldOffset
  simp only [consts]
  omega

theorem fieldOffset_fst (i : Nat) : fieldOffset 0 i = ((Scc.Heap.fstOff i : Nat) : Int) :=
  fieldOffset_nat 0 i

theorem fieldOffset_snd (i : Nat) : fieldOffset 1 i = ((Scc.Heap.sndOff i : Nat) : Int) :=
  fieldOffset_nat 1 i

theorem heapFieldOffset_bounds (n i : Nat) (hn : n ≤ 1) (hi : i ≤ 1000) :
    Scc.Heap.fieldOffset n i ≤ 32760 ∧ Scc.Heap.fieldOffset n i % 8 = 0 := by
  unfold Scc.Heap.fieldOffset
  omega

/-! ## erase_fields -/

/-- the code that erases child `i` of the block in register `blk` (labels `k+1 … k+3`) -/
def eraseFieldCode (blk : Register) (i k : Nat) : List Code :=
  [.COMMENT ("#####check child " ++ toString (i + 1) ++ " for erasure"),
   .LDR TEMP blk (fieldOffset 0 i)] ++
    eraseCode TEMP (labName (k + 1)) (labName (k + 2)) (labName (k + 3))

/-- memory.rs erase_fields: shape of the code -/
theorem eraseFields_run (blk : Register) (k : Nat) :
    (eraseFields blk FIELDS_PER_BLOCK 0).run k =
      .ok (eraseFieldCode blk 0 k ++ (eraseFieldCode blk 1 (k + 3) ++ (eraseFieldCode blk 2 (k + 6) ++ [])),
        k + 9) := rfl

theorem labsIn_eraseFieldCode (blk : Register) (i k : Nat) : LabsIn (eraseFieldCode blk i k) k (k + 3) :=
  (labsIn_eraseCode TEMP k).cons_other (by simp) |>.cons_other (by simp)

section EraseFields
variable {c : MemCfg} {μ : MState} {h h' : Scc.Heap.HState}

/-- one child: `TEMP := [blk + fst i]; erase TEMP` -/
theorem m_eraseField (C : HeapCfgOK c) (H : HRelM c μ h) {blk : Nat} (hb : blk < 30)
    {b : Word} (hv : μ.val (.register (.x blk)) = some b) {i : Nat} (hi : i < 3) {c0 : Nat}
    (hrd : Scc.Heap.rd h (b.toNat + Scc.Heap.fstOff i) = .ok c0)
    (hop : Scc.Heap.eraseBlock h c0 = .ok h') (k : Nat) :
    ∃ μ', mFwd c (eraseFieldCode (.x blk) i k) μ = some (μ', .next) ∧ HRelM c μ' h' ∧
      (∀ u, u ≠ .register (.x 1) → u ≠ .register (.x 2) → u ≠ .register (.x 3) → μ'.val u = μ.val u) := by
  obtain ⟨hok, hc0⟩ := rd_eq_ok.1 hrd
  obtain ⟨ho1, ho2⟩ := heapFieldOffset_bounds 0 i (by omega) (by omega)
  have ha := haddr_ok C H (off := Scc.Heap.fstOff i) ho1 ho2 hok
  have hm : maddr c μ (.x blk) (fieldOffset 0 i) = some (b.toNat + Scc.Heap.fstOff i) := by
    rw [maddr_eq hb hv, fieldOffset_fst, ha]
  let μ1 := μ.setT (.register (.x 2)) (some (μ.heap (b.toNat + Scc.Heap.fstOff i)))
  have e1 : mFwd c [.COMMENT ("#####check child " ++ toString (i + 1) ++ " for erasure"),
      .LDR TEMP (.x blk) (fieldOffset 0 i)] μ = some (μ1, .next) :=
    mFwd_step c (mexecC_COMMENT c _ μ) (mFwd_step c (mexecC_LDRh c (by decide) hm) (mFwd_nil c _))
  have H1 : HRelM c μ1 h := H.setT (by simp) (by simp) _
  have hv1 : μ1.val (.register (.x 2)) = some (μ.heap (b.toNat + Scc.Heap.fstOff i)) := by simp [μ1]
  have hop1 : Scc.Heap.eraseBlock h (μ.heap (b.toNat + Scc.Heap.fstOff i)).toNat = .ok h' := by
    rw [← H.mem, ← hc0]; exact hop
  have l12 : labName (k + 1) ≠ labName (k + 2) := fun e => by have := labName_inj.mp e; omega
  have l13 : labName (k + 1) ≠ labName (k + 3) := fun e => by have := labName_inj.mp e; omega
  have l23 : labName (k + 2) ≠ labName (k + 3) := fun e => by have := labName_inj.mp e; omega
  obtain ⟨μ', e2, H2, F2⟩ := m_erase C H1 (r := 2) (by decide) (by decide) (by decide) hv1 hop1 _ _ _ l12 l13 l23
  refine ⟨μ', mFwd_seq c e1 e2, H2, fun u hF hT hT2 => ?_⟩
  rw [F2 u hF hT2]
  simp [μ1, hT]

/-- CONTRACT of `erase_fields` (the three children of the block in register `blk`, e.g. HEAP) -/
theorem m_eraseFields (C : HeapCfgOK c) (H : HRelM c μ h) {blk : Nat} (hb : blk < 30)
    (hb1 : blk ≠ 1) (hb2 : blk ≠ 2) (hb3 : blk ≠ 3) {b : Word} (hv : μ.val (.register (.x blk)) = some b)
    (hop : Scc.Heap.eraseFields h b.toNat = .ok h') (k : Nat) :
    ∃ code, (eraseFields (.x blk) FIELDS_PER_BLOCK 0).run k = .ok (code, k + 9) ∧ LabsIn code k (k + 9) ∧
      ∃ μ', mFwd c code μ = some (μ', .next) ∧ HRelM c μ' h' ∧
        (∀ u, u ≠ .register (.x 1) → u ≠ .register (.x 2) → u ≠ .register (.x 3) → μ'.val u = μ.val u) := by
  refine ⟨_, eraseFields_run (.x blk) k, ?_, ?_⟩
  · exact ((labsIn_eraseFieldCode (.x blk) 0 k).mono (Nat.le_refl _) (by omega)).append
      (((labsIn_eraseFieldCode (.x blk) 1 (k + 3)).mono (by omega) (by omega)).append
        (((labsIn_eraseFieldCode (.x blk) 2 (k + 6)).mono (by omega) (by omega)).append (LabsIn.nil _ _)))
  · have n1 := reg_ne hb1
    have n2 := reg_ne hb2
    have n3 := reg_ne hb3
    unfold Scc.Heap.eraseFields at hop
    cases hr0 : Scc.Heap.rd h (b.toNat + Scc.Heap.fstOff 0) with
    | error f => simp [hr0] at hop
    | ok c0 =>
      simp only [hr0] at hop
      cases he0 : Scc.Heap.eraseBlock h c0 with
      | error f => simp [he0] at hop
      | ok s1 =>
        simp only [he0] at hop
        obtain ⟨μ1, x1, H1, F1⟩ := m_eraseField C H hb hv (by decide) hr0 he0 k
        have hv1 : μ1.val (.register (.x blk)) = some b := by rw [F1 _ n1 n2 n3]; exact hv
        cases hr1 : Scc.Heap.rd s1 (b.toNat + Scc.Heap.fstOff 1) with
        | error f => simp [hr1] at hop
        | ok c1 =>
          simp only [hr1] at hop
          cases he1 : Scc.Heap.eraseBlock s1 c1 with
          | error f => simp [he1] at hop
          | ok s2 =>
            simp only [he1] at hop
            obtain ⟨μ2, x2, H2, F2⟩ := m_eraseField C H1 hb hv1 (by decide) hr1 he1 (k + 3)
            have hv2 : μ2.val (.register (.x blk)) = some b := by rw [F2 _ n1 n2 n3]; exact hv1
            cases hr2 : Scc.Heap.rd s2 (b.toNat + Scc.Heap.fstOff 2) with
            | error f => simp [hr2] at hop
            | ok c2 =>
              simp only [hr2] at hop
              obtain ⟨μ3, x3, H3, F3⟩ := m_eraseField C H2 hb hv2 (by decide) hr2 hop (k + 6)
              refine ⟨μ3, mFwd_seq c x1 (mFwd_seq c x2 (mFwd_seq c x3 (mFwd_nil c μ3))), H3,
                fun u h1 h2 h3 => ?_⟩
              rw [F3 u h1 h2 h3, F2 u h1 h2 h3, F1 u h1 h2 h3]

end EraseFields

/-! ## acquire_block -/

/-- the move of HEAP into the target -/
def acquireHead : Temporary → List Code
  | .register r => [.MOVR r HEAP]
  | .spill p => [.MOVR TEMP HEAP, .STR HEAP .sp (stackOffset p)]

/-- case (2)/(3) of acquire_block: the inner `if_zero_then_else FREE` -/
def acquireInner (erased : List Code) (k : Nat) : List Code :=
  [.CMPI FREE 0, .BEQ (labName (k + 10))] ++
    ([.COMMENT "####mark linear free list empty", .STR .xzr HEAP NEXT_ELEMENT_OFFSET,
      .COMMENT "####erase children of next block"] ++ erased) ++
    [.B (labName (k + 11)), .LAB (labName (k + 10))] ++
    [.COMMENT "###(3) fall back to bump allocation", .ADDI FREE HEAP (fieldOffset 0 FIELDS_PER_BLOCK)] ++
    [.LAB (labName (k + 11))]

/-- memory.rs acquire_block: shape of the code, both placements at once -/
theorem acquireBlock_run (t : Temporary) (k : Nat) :
    (acquireBlock t).run k =
      .ok (acquireHead t ++ [.COMMENT "##get next free block into heap register",
          .COMMENT "###(1) check linear free list for next block", .LDR HEAP HEAP NEXT_ELEMENT_OFFSET] ++
        ([.CMPI HEAP 0, .BEQ (labName (k + 12))] ++
          [.COMMENT "####initialize refcount of just acquired block",
           .STR .xzr (ptrReg t) REFERENCE_COUNT_OFFSET] ++
          [.B (labName (k + 13)), .LAB (labName (k + 12))] ++
          ([.COMMENT "###(2) check non-linear lazy free list for next block", .MOVR HEAP FREE,
            .LDR FREE FREE NEXT_ELEMENT_OFFSET] ++
            acquireInner (eraseFieldCode HEAP 0 k ++ (eraseFieldCode HEAP 1 (k + 3) ++
              (eraseFieldCode HEAP 2 (k + 6) ++ []))) k) ++
          [.LAB (labName (k + 13))]), k + 13) := by
  cases t <;> rfl

section Acquire
variable {c : MemCfg} {μ : MState} {h h' : Scc.Heap.HState}

theorem m_acquireHead {t : Temporary} (ht : t.isVar) {wH : Word} (hH : μ.val (.register (.x 0)) = some wH) :
    ∃ r, ptrReg t = .x r ∧ r < 30 ∧ 2 ≤ r ∧ r ≠ 3 ∧
    ∃ μ1, mFwd c (acquireHead t) μ = some (μ1, .next) ∧ μ1.val t = some wH ∧
      μ1.val (.register (.x r)) = some wH ∧ μ1.heap = μ.heap ∧ μ1.flags = μ.flags ∧
      (∀ u, u ≠ t → u ≠ .register (.x 2) → μ1.val u = μ.val u) := by
  cases t with
  | register reg =>
    cases reg with
    | x r =>
      obtain ⟨h1, h2⟩ := isVar_reg ht
      rw [RESERVED_eq] at h1
      refine ⟨r, rfl, h2, by omega, by omega, μ.setT (.register (.x r)) (some wH), ?_, by simp, by simp,
        rfl, rfl, fun u hu _ => by simp [hu]⟩
      have := mFwd_step c (mexecC_MOVR c (μ := μ) h2 (by decide : 0 < 30)) (mFwd_nil c _)
      rw [hH] at this
      exact this
    | sp => simp [Temporary.isVar] at ht
    | xzr => simp [Temporary.isVar] at ht
  | spill p =>
    obtain ⟨_, h2⟩ := isVar_spill ht
    refine ⟨2, rfl, by decide, by decide, by decide,
      (μ.setT (.register (.x 2)) (some wH)).setT (.spill p) (some wH), ?_, by simp, by simp, rfl, rfl,
      fun u hu hT => by simp [hu, hT]⟩
    have e1 := mexecC_MOVR c (μ := μ) (by decide : 2 < 30) (by decide : 0 < 30)
    rw [hH] at e1
    have e2 := mexecC_STRs c (μ := μ.setT (.register (.x 2)) (some wH)) (by decide : 0 < 30) h2
    have hv0 : (μ.setT (.register (.x 2)) (some wH)).val (.register (.x 0)) = some wH := by simp [hH]
    rw [hv0] at e2
    exact mFwd_step c e1 (mFwd_step c e2 (mFwd_nil c _))

theorem labsIn_acquireHead (t : Temporary) (lo hi : Nat) : LabsIn (acquireHead t) lo hi :=
  LabsIn.of_noLab lo hi (fun l => by cases t <;> simp [acquireHead])

theorem labsIn_acquireInner {erased : List Code} {k : Nat} (L : LabsIn erased k (k + 9)) :
    LabsIn (acquireInner erased k) k (k + 11) := by
  unfold acquireInner
  refine LabsIn.append (LabsIn.append (LabsIn.append (LabsIn.append ?_ ?_) ?_) ?_) ?_
  · exact LabsIn.of_noLab _ _ (by simp)
  · exact (LabsIn.of_noLab _ _ (by simp)).append (L.mono (Nat.le_refl _) (by omega))
  · exact ((LabsIn.nil _ _).cons_lab (n := k + 10) (by omega) (by omega)).cons_other (by simp)
  · exact LabsIn.of_noLab _ _ (by simp)
  · exact (LabsIn.nil _ _).cons_lab (by omega) (by omega)

theorem toNat_add_64 (w : Word) (hw : w.toNat + 64 < 2 ^ 64) : (w + imm 64).toNat = w.toNat + 64 := by
  have := toNat_add_imm_nat w 64 hw
  simpa using this

theorem fieldOffset_block : fieldOffset 0 FIELDS_PER_BLOCK = 64 := by decide

end Acquire

section Acquire2
variable {c : MemCfg} {μ : MState} {h h' : Scc.Heap.HState}

/-- CONTRACT of `acquire_block` on the view: whenever the heap model acquires a block, the emitted
code — target in a register or in a spill slot — runs to its end, the result represents the model's
result, the target holds the acquired block; only the target, TEMP, TEMP2, HEAP, FREE, the flags and
the heap change. -/
theorem m_acquire (C : HeapCfgOK c) (H : HRelM c μ h) {t : Temporary} (ht : t.isVar) {new : Nat}
    (hop : Scc.Heap.acquire h = .ok (h', new)) (k : Nat) :
    ∃ code, (acquireBlock t).run k = .ok (code, k + 13) ∧ LabsIn code k (k + 13) ∧
      ∃ μ', mFwd c code μ = some (μ', .next) ∧ HRelM c μ' h' ∧
        (∃ w, μ'.val t = some w ∧ w.toNat = new) ∧
        (∀ u, u ≠ t → u ≠ .register (.x 0) → u ≠ .register (.x 1) → u ≠ .register (.x 2) →
          u ≠ .register (.x 3) → μ'.val u = μ.val u) := by
  have LE : LabsIn (eraseFieldCode HEAP 0 k ++ (eraseFieldCode HEAP 1 (k + 3) ++
      (eraseFieldCode HEAP 2 (k + 6) ++ []))) k (k + 9) :=
    ((labsIn_eraseFieldCode HEAP 0 k).mono (Nat.le_refl _) (by omega)).append
      (((labsIn_eraseFieldCode HEAP 1 (k + 3)).mono (by omega) (by omega)).append
        (((labsIn_eraseFieldCode HEAP 2 (k + 6)).mono (by omega) (by omega)).append (LabsIn.nil _ _)))
  have LI := labsIn_acquireInner LE
  refine ⟨_, acquireBlock_run t k, ?_, ?_⟩
  · refine LabsIn.append (LabsIn.append (labsIn_acquireHead t _ _) (LabsIn.of_noLab _ _ (by simp))) ?_
    refine LabsIn.append (LabsIn.append (LabsIn.append (LabsIn.append ?_ ?_) ?_) ?_) ?_
    · exact LabsIn.of_noLab _ _ (by simp)
    · exact LabsIn.of_noLab _ _ (by simp)
    · exact ((LabsIn.nil _ _).cons_lab (n := k + 12) (by omega) (by omega)).cons_other (by simp)
    · exact (LabsIn.of_noLab _ _ (by simp)).append (LI.mono (Nat.le_refl _) (by omega))
    · exact (LabsIn.nil _ _).cons_lab (by omega) (by omega)
  obtain ⟨wH, hH, eH⟩ := H.heap
  obtain ⟨wF, hF, eF⟩ := H.free
  obtain ⟨t0, t1, t2, t3⟩ := isVar_ne ht
  obtain ⟨j, hj, j30, j2, j3, μ1, x1, v1t, v1j, hp1, hf1, F1⟩ := m_acquireHead (c := c) ht hH
  have v1H : μ1.val (.register (.x 0)) = some wH := by rw [F1 _ (Ne.symm t0) (by simp)]; exact hH
  have v1F : μ1.val (.register (.x 1)) = some wF := by rw [F1 _ (Ne.symm t1) (by simp)]; exact hF
  have hjo : regOpnd (.x j) = some (.register (.x j)) := regOpnd_of j30
  have jne0 : ¬ Temporary.register (.x j) = .register (.x 0) := reg_ne (by omega)
  have jne1 : ¬ Temporary.register (.x j) = .register (.x 1) := reg_ne (by omega)
  have l1213 : labName (k + 12) ≠ labName (k + 13) := fun e => by have := labName_inj.mp e; omega
  have l1011 : labName (k + 10) ≠ labName (k + 11) := fun e => by have := labName_inj.mp e; omega
  have hi0 : okImm12 0 = true := by decide
  have hi64 : okImm12 64 = true := by decide
  rw [hj]
  unfold Scc.Heap.acquire at hop
  cases hrd : Scc.Heap.rd h h.heap with
  | error f => simp [hrd] at hop
  | ok h0 =>
    simp only [hrd] at hop
    obtain ⟨hok, hh0⟩ := rd_eq_ok.1 hrd
    rw [← eH] at hok hh0
    have aH : haddr c wH 0 = some wH.toNat := haddr_ok0 C H hok
    -- the prefix: head, `LDR HEAP, [HEAP, 0]`, `CMP HEAP, 0`
    have xpre : mFwd c (acquireHead t ++ [.COMMENT "##get next free block into heap register",
        .COMMENT "###(1) check linear free list for next block", .LDR HEAP HEAP NEXT_ELEMENT_OFFSET,
        .CMPI HEAP 0]) μ =
        some ((μ1.setT (.register (.x 0)) (some (μ.heap wH.toNat))).setF (some (μ.heap wH.toNat, 0)), .next) := by
      refine mFwd_seq c x1 ?_
      simp [mFwd_cons, mFwd_nil, mcont, mexecC, mexec, HEAP_eq, regOpnd, next_zero, maddr, v1H, aH, hp1,
        hi0, imm_zero]
    rw [show ∀ (E T : List Code), acquireHead t ++ [.COMMENT "##get next free block into heap register",
          .COMMENT "###(1) check linear free list for next block", .LDR HEAP HEAP NEXT_ELEMENT_OFFSET] ++
          ([.CMPI HEAP 0, .BEQ (labName (k + 12))] ++ E ++ [.B (labName (k + 13)), .LAB (labName (k + 12))] ++
            T ++ [.LAB (labName (k + 13))]) =
        (acquireHead t ++ [.COMMENT "##get next free block into heap register",
          .COMMENT "###(1) check linear free list for next block", .LDR HEAP HEAP NEXT_ELEMENT_OFFSET,
          .CMPI HEAP 0]) ++ ([.BEQ (labName (k + 12))] ++ E ++ [.B (labName (k + 13)), .LAB (labName (k + 12))] ++
            T ++ [.LAB (labName (k + 13))]) from fun E T => by simp, mFwd_pre c xpre]
    by_cases hz : h0 = 0
    · -- (2) / (3): the linear free list is exhausted
      subst hz
      have hx0 : μ.heap wH.toNat = 0#64 := BitVec.eq_of_toNat_eq (by rw [← H.mem, ← hh0]; rfl)
      rw [hx0]
      simp only [ne_eq, not_true_eq_false, if_false] at hop
      cases hrf : Scc.Heap.rd h h.free with
      | error f => simp [hrf] at hop
      | ok f' =>
        simp only [hrf] at hop
        obtain ⟨hokF, hf'⟩ := rd_eq_ok.1 hrf
        rw [← eF] at hokF hf'
        have aF : haddr c wF 0 = some wF.toNat := haddr_ok0 C H hokF
        -- the then-branch of the outer test up to `CMP FREE, 0`
        have xthen : mFwd c [.COMMENT "###(2) check non-linear lazy free list for next block",
            .MOVR HEAP FREE, .LDR FREE FREE NEXT_ELEMENT_OFFSET, .CMPI FREE 0]
            ((μ1.setT (.register (.x 0)) (some 0#64)).setF (some (0#64, 0))) =
            some ((((μ1.setT (.register (.x 0)) (some 0#64)).setT (.register (.x 0)) (some wF)).setT
              (.register (.x 1)) (some (μ.heap wF.toNat))).setF (some (μ.heap wF.toNat, 0)), .next) := by
          simp [mFwd_cons, mFwd_nil, mcont, mexecC, mexec, HEAP_eq, FREE_eq, regOpnd, next_zero,
            maddr, v1F, aF, hp1, hi0, imm_zero]
        by_cases hfz : f' = 0
        · -- (3) bump allocation
          subst hfz
          have hy0 : μ.heap wF.toNat = 0#64 := BitVec.eq_of_toNat_eq (by rw [← H.mem, ← hf']; rfl)
          simp only [if_true, Except.ok.injEq, Prod.mk.injEq] at hop
          obtain ⟨rfl, rfl⟩ := hop
          have hno : wF.toNat + 64 < 2 ^ 64 := by
            have h2 := hokF.2.1
            have := C.top
            rw [H.limit] at h2
            omega
          refine ⟨((((μ1.setT (.register (.x 0)) (some 0#64)).setT (.register (.x 0)) (some wF)).setT
              (.register (.x 1)) (some 0#64)).setT (.register (.x 1)) (some (wF + imm 64))).setF
              (some (0#64, 0)), ?_, ?_, ?_, ?_⟩
          · refine mFwd_ite_then c _ _ _ _ _ _ (a := 0#64) rfl (by simp [skipTo, l1213]) ?_
            unfold acquireInner
            rw [show ∀ (E T : List Code), [.COMMENT "###(2) check non-linear lazy free list for next block",
                  .MOVR HEAP FREE, .LDR FREE FREE NEXT_ELEMENT_OFFSET] ++
                ([.CMPI FREE 0, .BEQ (labName (k + 10))] ++ E ++ [.B (labName (k + 11)), .LAB (labName (k + 10))] ++
                  T ++ [.LAB (labName (k + 11))]) =
                [.COMMENT "###(2) check non-linear lazy free list for next block",
                  .MOVR HEAP FREE, .LDR FREE FREE NEXT_ELEMENT_OFFSET, .CMPI FREE 0] ++
                ([.BEQ (labName (k + 10))] ++ E ++ [.B (labName (k + 11)), .LAB (labName (k + 10))] ++
                  T ++ [.LAB (labName (k + 11))]) from fun E T => by simp, mFwd_pre c xthen, hy0]
            refine mFwd_ite_then c _ _ _ _ _ _ (a := 0#64) rfl ?_ ?_
            · rw [skipTo_append]
              simp only [skipTo]
              exact LE.skipTo_none (Or.inr (by omega))
            · simp [mFwd_cons, mFwd_nil, mcont, mexecC, mexec, HEAP_eq, FREE_eq, regOpnd, hi64,
                fieldOffset_block]
          · refine ⟨H.base, H.limit, fun a => by simp [hp1, H.mem], ⟨wF, by simp, eF⟩,
              ⟨wF + imm 64, by simp, ?_⟩⟩
            rw [toNat_add_64 _ hno, eF]; rfl
          · exact ⟨wH, by simp [t0, t1, v1t], eH⟩
          · intro u hu h0' h1' h2' _
            simp [h0', h1', F1 u hu h2']
        · -- (2) the head of the lazy free list; its children are erased
          have hy0 : ¬ μ.heap wF.toNat = 0#64 := fun e => hfz (by rw [hf', H.mem, e]; rfl)
          rw [if_neg hfz] at hop
          cases hwr : Scc.Heap.wr { h with heap := h.free, free := f' } h.free 0 with
          | error e => simp [hwr] at hop
          | ok s1 =>
            simp only [hwr] at hop
            obtain ⟨_, rfl⟩ := wr_eq_ok.1 hwr
            cases hef : Scc.Heap.eraseFields { h with heap := h.free, free := f', mem := h.mem.set h.free 0 }
                h.free with
            | error e => simp [hef] at hop
            | ok s2 =>
              simp only [hef, Except.ok.injEq, Prod.mk.injEq] at hop
              obtain ⟨rfl, rfl⟩ := hop
              -- the state in which `erase_fields` starts
              let μ6 : MState := (((((μ1.setT (.register (.x 0)) (some 0#64)).setT (.register (.x 0))
                (some wF)).setT (.register (.x 1)) (some (μ.heap wF.toNat))).setH wF.toNat 0#64)).setF
                (some (μ.heap wF.toNat, 0))
              have H6 : HRelM c μ6 { h with heap := h.free, free := f', mem := h.mem.set h.free 0 } := by
                refine ⟨H.base, H.limit, fun a => ?_, ⟨wF, by simp [μ6], eF⟩,
                  ⟨μ.heap wF.toNat, by simp [μ6], by rw [hf', H.mem]⟩⟩
                simp only [Scc.Heap.Mem.get_set, μ6, MState.setF_heap, MState.setH_heap, MState.setT_heap, hp1,
                  ← eF]
                by_cases e : wF.toNat = a
                · subst e; simp
                · have : ¬ a = wF.toNat := fun x => e x.symm
                  simp [e, this, H.mem a]
              have v6H : μ6.val (.register (.x 0)) = some wF := by simp [μ6]
              have hef' : Scc.Heap.eraseFields
                  { h with heap := h.free, free := f', mem := h.mem.set h.free 0 } wF.toNat = .ok s2 := by
                rw [eF]; exact hef
              obtain ⟨code', hrun', _, μ7, x7, H7, F7⟩ := m_eraseFields C H6 (blk := 0) (by decide) (by decide)
                (by decide) (by decide) v6H hef' k
              rw [← HEAP_eq, eraseFields_run] at hrun'
              simp only [Except.ok.injEq, Prod.mk.injEq, and_true] at hrun'
              subst hrun'
              refine ⟨μ7, ?_, H7, ?_, ?_⟩
              · refine mFwd_ite_then c _ _ _ _ _ _ (a := 0#64) rfl (by simp [skipTo, l1213]) ?_
                unfold acquireInner
                rw [show ∀ (E T : List Code), [.COMMENT "###(2) check non-linear lazy free list for next block",
                      .MOVR HEAP FREE, .LDR FREE FREE NEXT_ELEMENT_OFFSET] ++
                    ([.CMPI FREE 0, .BEQ (labName (k + 10))] ++ E ++ [.B (labName (k + 11)), .LAB (labName (k + 10))] ++
                      T ++ [.LAB (labName (k + 11))]) =
                    [.COMMENT "###(2) check non-linear lazy free list for next block",
                      .MOVR HEAP FREE, .LDR FREE FREE NEXT_ELEMENT_OFFSET, .CMPI FREE 0] ++
                    ([.BEQ (labName (k + 10))] ++ E ++ [.B (labName (k + 11)), .LAB (labName (k + 10))] ++
                      T ++ [.LAB (labName (k + 11))]) from fun E T => by simp, mFwd_pre c xthen]
                refine mFwd_ite_else c _ _ _ _ _ _ (a := μ.heap wF.toNat) (b := 0) rfl hy0 l1011
                  (by simp [skipTo]) ?_
                have x6 : mFwd c [.COMMENT "####mark linear free list empty", .STR .xzr HEAP NEXT_ELEMENT_OFFSET,
                    .COMMENT "####erase children of next block"]
                    ((((μ1.setT (.register (.x 0)) (some 0#64)).setT (.register (.x 0)) (some wF)).setT
                      (.register (.x 1)) (some (μ.heap wF.toNat))).setF (some (μ.heap wF.toNat, 0))) =
                    some (μ6, .next) := by
                  simp [mFwd_cons, mFwd_nil, mcont, mexecC, mexec, HEAP_eq, next_zero, maddr, aF, srcVal, μ6]
                exact mFwd_seq c x6 x7
              · refine ⟨wH, ?_, eH⟩
                rw [F7 t t1 t2 t3]
                simp [μ6, t0, t1, v1t]
              · intro u hu h0' h1' h2' h3'
                rw [F7 u h1' h2' h3']
                simp [μ6, h0', h1', F1 u hu h2']
    · -- (1) the linear free list has another element
      have hx0 : ¬ μ.heap wH.toNat = 0#64 := fun e => hz (by rw [hh0, H.mem, e]; rfl)
      simp only [ne_eq, hz, not_false_eq_true, if_true] at hop
      cases hwr : Scc.Heap.wr { h with heap := h0 } h.heap 0 with
      | error e => simp [hwr] at hop
      | ok s1 =>
        simp only [hwr, Except.ok.injEq, Prod.mk.injEq] at hop
        obtain ⟨rfl, rfl⟩ := hop
        obtain ⟨_, rfl⟩ := wr_eq_ok.1 hwr
        refine ⟨((μ1.setT (.register (.x 0)) (some (μ.heap wH.toNat))).setH wH.toNat 0#64).setF
          (some (μ.heap wH.toNat, 0)), ?_, ?_, ?_, ?_⟩
        · refine mFwd_ite_else c _ _ _ _ _ _ (a := μ.heap wH.toNat) (b := 0) rfl hx0 l1213 ?_ ?_
          · rw [skipTo_append]
            simp only [skipTo]
            exact LI.skipTo_none (Or.inr (by omega))
          · simp [mFwd_cons, mFwd_nil, mcont, mexecC, mexec, refcount_zero, maddr, j30, jne0, v1j, aH, srcVal]
        · refine ⟨H.base, H.limit, fun a => ?_, ⟨μ.heap wH.toNat, by simp, by rw [hh0, H.mem]⟩,
            ⟨wF, by simp [v1F], eF⟩⟩
          simp only [Scc.Heap.Mem.get_set, MState.setF_heap, MState.setH_heap, MState.setT_heap, hp1, ← eH]
          by_cases e : wH.toNat = a
          · subst e; simp
          · have : ¬ a = wH.toNat := fun x => e x.symm
            simp [e, this, H.mem a]
        · exact ⟨wH, by simp [t0, v1t], eH⟩
        · intro u hu h0' _ h2' _
          simp [h0', F1 u hu h2']

end Acquire2

/-! ## acquire_block on the machine -/

/-- CONTRACT of `acquire_block` (memory.rs) on the machine: from every state (SP in place) that
represents an abstract heap on which `Scc.Heap.acquire` succeeds — (1) next block of the linear free
list, (2) head of the lazy free list with deferred erasure of its three children, (3) bump of the
frontier — the emitted code (target in a register or in a spill slot) runs to its end; the final state
has the same SP, represents the model's result heap, and holds the acquired block in the target.
Only the target, TEMP, TEMP2, HEAP, FREE, the flags and the heap change. -/
theorem acquireBlock_contract {c : MemCfg} {room : Nat} {σ : State} (h8 : c.heapBase % 8 = 0)
    (B : SpOk c σ.sp room) {h h' : Scc.Heap.HState} (R : HeapRel c σ h) {t : Temporary} (ht : t.isVar)
    {new : Nat} (hop : Scc.Heap.acquire h = .ok (h', new)) (k : Nat) :
    ∃ code, (acquireBlock t).run k = .ok (code, k + 13) ∧ LabsIn code k (k + 13) ∧
      ∃ σ', execFwd c code σ = .ok (σ', .next) ∧ SpOk c σ'.sp room ∧ HeapRel c σ' h' ∧
        (∃ w, σ'.tempVal t = some w ∧ w.toNat = new) ∧
        FrameT σ σ' (fun u => u = t ∨ u = .register HEAP ∨ u = .register FREE ∨ u = .register TEMP ∨
          u = .register TEMP2) := by
  obtain ⟨code, hrun, hl, μ', hx, H', ⟨w, hw, ew⟩, hfr⟩ :=
    m_acquire (heapCfgOK_of_spOk h8 B) (heapRel_mview R) ht hop k
  obtain ⟨σ', e, B', M', F⟩ := m_to_machine B hx
    (changed := fun u => u = t ∨ u = .register HEAP ∨ u = .register FREE ∨ u = .register TEMP ∨
      u = .register TEMP2)
    (fun u hu => hfr u (fun e => hu (Or.inl e)) (fun e => hu (Or.inr (Or.inl e)))
      (fun e => hu (Or.inr (Or.inr (Or.inl e)))) (fun e => hu (Or.inr (Or.inr (Or.inr (Or.inl e)))))
      (fun e => hu (Or.inr (Or.inr (Or.inr (Or.inr e))))))
  exact ⟨code, hrun, hl, σ', e, B', heapRel_of_mrep M' H',
    ⟨w, by rw [M'.vals t (isVar_opndOK ht)]; exact hw, ew⟩, F⟩

end Scc.A64
