/-
  Scc.A64.MemProofsStore — the contract of `store` (memory.rs of axcut2aarch64: store_field,
  store_zero(s), store_value(s), store_fields, Memory::store) against `Scc.Heap.storeObj`, for objects
  of ANY number of fields (one block or a chain of linked blocks) and EVERY placement of the stored
  variables and of the acquired-block temporaries (registers and spill slots, crossing the boundary at
  13 variables), first on the view (MemProofsView.lean), then on the machine.

  Environment: the variable at context position `i` lives in the temporaries `posTemp (2 i)` (pointer
  part, only for non-`ext` variables) and `posTemp (2 i + 1)` (word part) — utils.rs
  temporary_from_position: logical registers X4..X29, then spill slots 1..255.
-/
import Scc.A64.MemProofsAcquire

set_option linter.unusedSimpArgs false
set_option linter.unusedVariables false

namespace Scc.A64

open Scc.AxCut
open Scc.Backend (GenM TempNum freshLabel)

/-! ## temporaries of context positions (utils.rs) -/

/-- utils.rs temporary_from_position, total -/
def posTemp (n : Nat) : Temporary := if n + 4 < 30 then .register (.x (n + 4)) else .spill (n - 25)

theorem temporaryFromPosition_eq {n : Nat} (h : n < 281) : temporaryFromPosition n = pure (posTemp n) := by
  unfold temporaryFromPosition posTemp
  simp only [RESERVED_eq, REGISTER_NUM_eq, RESERVED_SPILLS_eq, SPILL_NUM_eq]
  by_cases h1 : n + 4 < 30
  · simp [h1]
  · have : n + 4 - 30 + 1 < 256 := by omega
    have e : n + 4 - 30 + 1 = n - 25 := by omega
    rw [if_neg h1, if_neg h1, if_pos this, e]

theorem isVar_posTemp {n : Nat} (h : n < 281) : (posTemp n).isVar := by
  unfold posTemp
  by_cases h1 : n + 4 < 30
  · rw [if_pos h1]
    simp only [Temporary.isVar, RESERVED_eq, REGISTER_NUM_eq, Bool.and_eq_true, decide_eq_true_eq]
    omega
  · rw [if_neg h1]
    simp only [Temporary.isVar, RESERVED_SPILLS_eq, SPILL_NUM_eq, Bool.and_eq_true, decide_eq_true_eq]
    omega

theorem posTemp_inj {m n : Nat} : posTemp m = posTemp n ↔ m = n := by
  unfold posTemp
  constructor
  · intro h
    by_cases h1 : m + 4 < 30 <;> by_cases h2 : n + 4 < 30 <;> simp only [h1, h2, if_true, if_false] at h
    · have : m + 4 = n + 4 := by simpa using h
      omega
    · cases h
    · cases h
    · have : m - 25 = n - 25 := by simpa using h
      omega
  · rintro rfl; rfl

theorem freshTemporary_run {num : TempNum} {ctx : Ctx} (k : Nat) (h : 2 * ctx.length + num.toNat < 281) :
    (freshTemporary num ctx).run k = .ok (posTemp (2 * ctx.length + num.toNat), k) := by
  unfold freshTemporary
  rw [temporaryFromPosition_eq h]
  rfl

theorem posTemp_ne_low {n : Nat} (h : n < 281) :
    posTemp n ≠ .register (.x 0) ∧ posTemp n ≠ .register (.x 1) ∧ posTemp n ≠ .register (.x 2) ∧
      posTemp n ≠ .register (.x 3) :=
  isVar_ne (isVar_posTemp h)

/-! ## store_field, store_zero -/

/-- memory.rs store_field for the temporary `t`: shape of the code, both placements at once -/
def storeFieldCode (t : Temporary) (blk : Register) (fo : Int) : List Code :=
  loadPtr t ++ [.STR (ptrReg t) blk fo]

theorem storeField_run (num : TempNum) (ctx : Ctx) (blk : Register) (off k : Nat)
    (h : 2 * ctx.length + num.toNat < 281) :
    (storeField num ctx blk off).run k =
      .ok (storeFieldCode (posTemp (2 * ctx.length + num.toNat)) blk (fieldOffset num.toNat off), k) := by
  unfold storeField
  rw [genm_bind (freshTemporary_run k h)]
  cases posTemp (2 * ctx.length + num.toNat) <;> rfl

theorem noLab_storeFieldCode (t : Temporary) (blk : Register) (fo : Int) : NoLab (storeFieldCode t blk fo) := by
  intro l; cases t <;> simp [storeFieldCode, loadPtr]

section Prim
variable {c : MemCfg} {μ : MState} {h h' : Scc.Heap.HState}

/-- `[blk + off] := t` (through TEMP for a spilled `t`) is the model's `wr` -/
theorem m_storeFieldCode (C : HeapCfgOK c) (H : HRelM c μ h) {t : Temporary} (ht : t.isVar) {v : Word}
    (hv : μ.val t = some v) {blk : Nat} (hb : blk < 30) (hb2 : blk ≠ 2) {b : Word}
    (hvb : μ.val (.register (.x blk)) = some b) {off : Nat} (ho : off ≤ 32760) (ho8 : off % 8 = 0)
    (hwr : Scc.Heap.wr h (b.toNat + off) v.toNat = .ok h') :
    ∃ μ', mFwd c (storeFieldCode t (.x blk) (off : Int)) μ = some (μ', .next) ∧ HRelM c μ' h' ∧
      (∀ u, u ≠ .register (.x 2) → μ'.val u = μ.val u) := by
  obtain ⟨hok, rfl⟩ := wr_eq_ok.1 hwr
  have ha := haddr_ok C H ho ho8 hok
  obtain ⟨r, hpr, hr, hr2, hr3, hnl, μ1, x1, v1, hp1, F1⟩ := m_loadPtr (c := c) (μ := μ) ht
  have hvb1 : μ1.val (.register (.x blk)) = some b := by rw [F1 _ (reg_ne hb2)]; exact hvb
  have hm : maddr c μ1 (.x blk) (off : Int) = some (b.toNat + off) := by
    rw [maddr_eq hb hvb1, ha]
  have hs : srcVal μ1 (.x r) = some v := by simp [srcVal, hr, v1, hv]
  have H1 : HRelM c μ1 h := by
    obtain ⟨wh, hwh, ewh⟩ := H.heap
    obtain ⟨wf, hwf, ewf⟩ := H.free
    exact ⟨H.base, H.limit, fun a => by rw [hp1]; exact H.mem a,
      ⟨wh, by rw [F1 _ (by simp)]; exact hwh, ewh⟩, ⟨wf, by rw [F1 _ (by simp)]; exact hwf, ewf⟩⟩
  refine ⟨μ1.setH (b.toNat + off) v, ?_, H1.setH _ _, fun u hu => by rw [MState.setH_val, F1 u hu]⟩
  unfold storeFieldCode
  rw [hpr]
  exact mFwd_seq c x1 (mFwd_step c (mexecC_STRh c hs hm) (mFwd_nil c _))

/-- `store_zero`: `[blk + fst off] := 0` -/
theorem m_storeZero (C : HeapCfgOK c) (H : HRelM c μ h) {blk : Nat} (hb : blk < 30)
    {b : Word} (hvb : μ.val (.register (.x blk)) = some b) {off : Nat} (ho : off ≤ 1000)
    (hwr : Scc.Heap.wr h (b.toNat + Scc.Heap.fstOff off) 0 = .ok h') :
    ∃ μ', mFwd c (storeZero (.x blk) off) μ = some (μ', .next) ∧ HRelM c μ' h' ∧ μ'.val = μ.val := by
  obtain ⟨hok, rfl⟩ := wr_eq_ok.1 hwr
  obtain ⟨ho1, ho2⟩ := heapFieldOffset_bounds 0 off (by omega) ho
  have ha := haddr_ok C H (off := Scc.Heap.fstOff off) ho1 ho2 hok
  have hm : maddr c μ (.x blk) (fieldOffset 0 off) = some (b.toNat + Scc.Heap.fstOff off) := by
    rw [maddr_eq hb hvb, fieldOffset_fst, ha]
  refine ⟨μ.setH (b.toNat + Scc.Heap.fstOff off) 0#64, ?_, H.setH _ _, rfl⟩
  unfold storeZero
  exact mFwd_step c (mexecC_STRh c (v := 0#64) rfl hm) (mFwd_nil c _)

end Prim

/-! ## the environment: which model fields the variables of a context hold -/

/-- the variable `b` at context position `n` holds the model field `f`: an `ext` variable an integer
(word part), any other variable a pointer part and a word part -/
def FieldAt (μ : MState) (n : Nat) (b : Binding) (f : Scc.Heap.Field) : Prop :=
  if (b.chi == .ext) = true then ∃ w : Word, f = .int w.toNat ∧ μ.val (posTemp (2 * n + 1)) = some w
  else ∃ p w : Word, f = .ptr p.toNat w.toNat ∧ μ.val (posTemp (2 * n)) = some p ∧
    μ.val (posTemp (2 * n + 1)) = some w

/-- the variables `Γ` at positions `n, n+1, …` hold the fields `fs` -/
def EnvFields (μ : MState) : Nat → Ctx → List Scc.Heap.Field → Prop
  | _, [], [] => True
  | n, b :: bs, f :: fs => FieldAt μ n b f ∧ EnvFields μ (n + 1) bs fs
  | _, _, _ => False

/-- the same for a REVERSED list (as the `pop` loops of memory.rs consume it): the head is the
variable at position `base + (length of the tail)` -/
def EnvFieldsRev (μ : MState) (base : Nat) : List Binding → List Scc.Heap.Field → Prop
  | [], [] => True
  | b :: bs, f :: fs => FieldAt μ (base + bs.length) b f ∧ EnvFieldsRev μ base bs fs
  | _, _ => False

theorem EnvFields.length_eq {μ : MState} : ∀ {n : Nat} {Γ : Ctx} {fs : List Scc.Heap.Field},
    EnvFields μ n Γ fs → Γ.length = fs.length
  | _, [], [], _ => rfl
  | _, [], _ :: _, h => h.elim
  | _, _ :: _, [], h => h.elim
  | _, _ :: _, _ :: _, h => by simp [EnvFields.length_eq h.2]

theorem EnvFields.snoc {μ : MState} : ∀ {n : Nat} {Γ : Ctx} {fs : List Scc.Heap.Field} {b : Binding}
    {f : Scc.Heap.Field}, EnvFields μ n Γ fs → FieldAt μ (n + Γ.length) b f →
    EnvFields μ n (Γ ++ [b]) (fs ++ [f])
  | _, [], [], _, _, _, h => ⟨by simpa using h, trivial⟩
  | _, [], _ :: _, _, _, h, _ => h.elim
  | _, _ :: _, [], _, _, h, _ => h.elim
  | n, _ :: bs, _ :: fs, b, f, h, hf =>
    ⟨h.1, EnvFields.snoc h.2 (by rw [List.length_cons] at hf; rw [show n + 1 + bs.length = n + (bs.length + 1) by omega]; exact hf)⟩

theorem EnvFields.unsnoc {μ : MState} : ∀ {n : Nat} {Γ : Ctx} {fs : List Scc.Heap.Field} {b : Binding}
    {f : Scc.Heap.Field}, Γ.length = fs.length → EnvFields μ n (Γ ++ [b]) (fs ++ [f]) →
    EnvFields μ n Γ fs ∧ FieldAt μ (n + Γ.length) b f
  | _, [], [], _, _, _, h => ⟨trivial, by simpa [EnvFields] using h.1⟩
  | _, [], _ :: _, _, _, hl, _ => by simp at hl
  | _, _ :: _, [], _, _, hl, _ => by simp at hl
  | n, _ :: bs, _ :: fs, b, f, hl, h => by
    have := EnvFields.unsnoc (n := n + 1) (Γ := bs) (fs := fs) (by simpa using hl) h.2
    refine ⟨⟨h.1, this.1⟩, ?_⟩
    rw [List.length_cons, show n + (bs.length + 1) = n + 1 + bs.length by omega]
    exact this.2

/-- front-to-back and reversed presentations agree -/
theorem envFields_rev_aux {μ : MState} (base : Nat) : ∀ (n : Nat) (Γ : Ctx) (fs : List Scc.Heap.Field),
    Γ.length = n → EnvFields μ base Γ fs → EnvFieldsRev μ base Γ.reverse fs.reverse := by
  intro n
  induction n with
  | zero =>
    intro Γ fs hn h
    have : Γ = [] := List.eq_nil_of_length_eq_zero hn
    subst this
    cases fs with
    | nil => trivial
    | cons _ _ => exact h.elim
  | succ n ih =>
    intro Γ fs hn h
    have hl := h.length_eq
    rcases List.eq_nil_or_concat Γ with rfl | ⟨bs, b, rfl⟩
    · simp at hn
    rcases List.eq_nil_or_concat fs with rfl | ⟨fs', f, rfl⟩
    · simp at hl
    · rw [List.concat_eq_append] at h hl hn ⊢
      rw [List.concat_eq_append] at h hl ⊢
      have hl' : bs.length = fs'.length := by simpa using hl
      obtain ⟨h1, h2⟩ := EnvFields.unsnoc hl' h
      rw [List.reverse_append, List.reverse_append]
      exact ⟨by simpa using h2, ih bs fs' (by simpa using hn) h1⟩

theorem envFields_rev {μ : MState} (base : Nat) (Γ : Ctx) (fs : List Scc.Heap.Field)
    (h : EnvFields μ base Γ fs) : EnvFieldsRev μ base Γ.reverse fs.reverse :=
  envFields_rev_aux base Γ.length Γ fs rfl h

theorem EnvFields.take {μ : MState} : ∀ {n : Nat} {Γ : Ctx} {fs : List Scc.Heap.Field} (k : Nat),
    EnvFields μ n Γ fs → EnvFields μ n (Γ.take k) (fs.take k)
  | _, [], [], _, _ => by simp [EnvFields]
  | _, [], _ :: _, _, h => h.elim
  | _, _ :: _, [], _, h => h.elim
  | _, _ :: _, _ :: _, 0, _ => by simp [EnvFields]
  | _, _ :: _, _ :: _, k + 1, h => ⟨h.1, EnvFields.take k h.2⟩

theorem EnvFields.drop {μ : MState} : ∀ {n : Nat} {Γ : Ctx} {fs : List Scc.Heap.Field} (k : Nat),
    EnvFields μ n Γ fs → EnvFields μ (n + min k Γ.length) (Γ.drop k) (fs.drop k)
  | _, [], [], _, _ => by simp [EnvFields]
  | _, [], _ :: _, _, h => h.elim
  | _, _ :: _, [], _, h => h.elim
  | _, _ :: _, _ :: _, 0, h => by simpa using h
  | n, _ :: bs, _ :: _, k + 1, h => by
    have := EnvFields.drop k h.2
    rw [List.drop_succ_cons, List.drop_succ_cons, List.length_cons,
      show n + min (k + 1) (bs.length + 1) = n + 1 + min k bs.length by omega]
    exact this

theorem FieldAt.congr {μ μ' : MState} {n : Nat} {b : Binding} {f : Scc.Heap.Field}
    (h : FieldAt μ n b f) (e0 : μ'.val (posTemp (2 * n)) = μ.val (posTemp (2 * n)))
    (e1 : μ'.val (posTemp (2 * n + 1)) = μ.val (posTemp (2 * n + 1))) : FieldAt μ' n b f := by
  unfold FieldAt at h ⊢
  rw [e0, e1]; exact h

theorem EnvFields.congr {μ μ' : MState} : ∀ {n : Nat} {Γ : Ctx} {fs : List Scc.Heap.Field},
    EnvFields μ n Γ fs → (∀ m, 2 * n ≤ m → m < 2 * (n + Γ.length) → μ'.val (posTemp m) = μ.val (posTemp m)) →
    EnvFields μ' n Γ fs
  | _, [], [], _, _ => trivial
  | _, [], _ :: _, h, _ => h.elim
  | _, _ :: _, [], h, _ => h.elim
  | n, _ :: bs, _ :: _, h, e =>
    ⟨h.1.congr (e _ (by omega) (by simp only [List.length_cons]; omega))
      (e _ (by omega) (by simp only [List.length_cons]; omega)),
     EnvFields.congr h.2 (fun m h1 h2 => e m (by omega) (by simp only [List.length_cons] at h2 ⊢; omega))⟩

theorem EnvFieldsRev.congr {μ μ' : MState} {base : Nat} : ∀ {Γ : List Binding} {fs : List Scc.Heap.Field},
    EnvFieldsRev μ base Γ fs →
    (∀ m, 2 * base ≤ m → m < 2 * (base + Γ.length) → μ'.val (posTemp m) = μ.val (posTemp m)) →
    EnvFieldsRev μ' base Γ fs
  | [], [], _, _ => trivial
  | [], _ :: _, h, _ => h.elim
  | _ :: _, [], h, _ => h.elim
  | _ :: bs, _ :: _, h, e =>
    ⟨h.1.congr (e _ (by omega) (by simp only [List.length_cons]; omega))
      (e _ (by omega) (by simp only [List.length_cons]; omega)),
     EnvFieldsRev.congr h.2 (fun m h1 h2 => e m h1 (by simp only [List.length_cons]; omega))⟩

/-! ## store_value, store_values -/

section Values
variable {c : MemCfg}

theorem noLab_storeZero (blk : Register) (off : Nat) : NoLab (storeZero blk off) := by
  intro l; simp [storeZero]

/-- CONTRACT of `store_value`: the variable `b` (the last one of the context `ctx ++ [b]`, i.e. at
position `|ctx|`) goes into field `off` of the block in register `blk` -/
theorem m_storeValue (C : HeapCfgOK c) {μ : MState} {h h' : Scc.Heap.HState} (H : HRelM c μ h)
    {b : Binding} {ctx : Ctx} {f : Scc.Heap.Field} (hf : FieldAt μ ctx.length b f)
    (hcap : 2 * ctx.length + 1 < 281) {blk : Nat} (hb : blk < 30) (hb2 : blk ≠ 2) {bw : Word}
    (hvb : μ.val (.register (.x blk)) = some bw) {off : Nat} (ho : off ≤ 1000)
    (hop : Scc.Heap.storeValue h f bw.toNat off = .ok h') (k : Nat) :
    ∃ code, (storeValue b ctx (.x blk) off).run k = .ok (code, k) ∧ NoLab code ∧
      ∃ μ', mFwd c code μ = some (μ', .next) ∧ HRelM c μ' h' ∧
        (∀ u, u ≠ .register (.x 2) → μ'.val u = μ.val u) := by
  obtain ⟨hs1, hs2⟩ := heapFieldOffset_bounds 1 off (by omega) ho
  obtain ⟨hf1, hf2⟩ := heapFieldOffset_bounds 0 off (by omega) ho
  have hbT : Temporary.register (.x blk) ≠ .register (.x 2) := reg_ne hb2
  unfold storeValue
  rw [genm_bind (storeField_run .snd ctx (.x blk) off k (by simpa [TempNum.toNat] using hcap))]
  unfold FieldAt at hf
  by_cases hχ : (b.chi == .ext) = true
  · rw [if_pos hχ] at hf
    obtain ⟨w, rfl, hw⟩ := hf
    simp only [hχ, if_true]
    refine ⟨_, genm_pure _ k, (noLab_storeFieldCode _ _ _).append (noLab_storeZero _ _), ?_⟩
    simp only [Scc.Heap.storeValue] at hop
    cases hw1 : Scc.Heap.wr h (bw.toNat + Scc.Heap.sndOff off) w.toNat with
    | error e => simp [hw1] at hop
    | ok s1 =>
      simp only [hw1] at hop
      obtain ⟨μ1, x1, H1, F1⟩ := m_storeFieldCode C H (isVar_posTemp hcap) hw hb hb2 hvb
        (off := Scc.Heap.sndOff off) hs1 hs2 hw1
      obtain ⟨μ2, x2, H2, F2⟩ := m_storeZero C H1 hb (by rw [F1 _ hbT]; exact hvb) ho hop
      simp only [TempNum.toNat]
      rw [fieldOffset_snd]
      exact ⟨μ2, mFwd_seq c x1 x2, H2, fun u hu => by rw [F2, F1 u hu]⟩
  · rw [if_neg hχ] at hf
    obtain ⟨p, w, rfl, hp, hw⟩ := hf
    simp only [hχ, Bool.false_eq_true, ↓reduceIte]
    rw [genm_bind (storeField_run .fst ctx (.x blk) off k (by simp [TempNum.toNat]; omega))]
    refine ⟨_, genm_pure _ k, (noLab_storeFieldCode _ _ _).append (noLab_storeFieldCode _ _ _), ?_⟩
    simp only [Scc.Heap.storeValue] at hop
    cases hw1 : Scc.Heap.wr h (bw.toNat + Scc.Heap.sndOff off) w.toNat with
    | error e => simp [hw1] at hop
    | ok s1 =>
      simp only [hw1] at hop
      obtain ⟨μ1, x1, H1, F1⟩ := m_storeFieldCode C H (isVar_posTemp hcap) hw hb hb2 hvb
        (off := Scc.Heap.sndOff off) hs1 hs2 hw1
      have hcap0 : 2 * ctx.length < 281 := by omega
      have hp1 : μ1.val (posTemp (2 * ctx.length)) = some p := by
        rw [F1 _ (posTemp_ne_low hcap0).2.2.1]; exact hp
      obtain ⟨μ2, x2, H2, F2⟩ := m_storeFieldCode C H1 (isVar_posTemp hcap0) hp1 hb hb2
        (by rw [F1 _ hbT]; exact hvb) (off := Scc.Heap.fstOff off) hf1 hf2 hop
      simp only [TempNum.toNat, Nat.add_zero]
      rw [fieldOffset_snd, fieldOffset_fst]
      exact ⟨μ2, mFwd_seq c x1 x2, H2, fun u hu => by rw [F2 u hu, F1 u hu]⟩

/-- `store_zeros` for the offsets `k0, k0+1, …` -/
theorem m_storeZerosFrom (C : HeapCfgOK c) {blk : Nat} (hb : blk < 30) {bw : Word} :
    ∀ (n k0 : Nat) (μ : MState) (h h' : Scc.Heap.HState), HRelM c μ h → μ.val (.register (.x blk)) = some bw →
    k0 + n ≤ 1000 → Scc.Heap.storeZerosFrom h bw.toNat k0 n = .ok h' →
    ∃ μ', mFwd c ((List.range' k0 n).flatMap (fun off => storeZero (.x blk) off)) μ = some (μ', .next) ∧
      HRelM c μ' h' ∧ μ'.val = μ.val := by
  intro n
  induction n with
  | zero =>
    intro k0 μ h h' H hv _ hop
    simp only [Scc.Heap.storeZerosFrom, Except.ok.injEq] at hop
    subst hop
    exact ⟨μ, by simp [mFwd_nil], H, rfl⟩
  | succ n ih =>
    intro k0 μ h h' H hv hk hop
    simp only [Scc.Heap.storeZerosFrom] at hop
    cases hw : Scc.Heap.wr h (bw.toNat + Scc.Heap.fstOff k0) 0 with
    | error e => simp [hw] at hop
    | ok s1 =>
      simp only [hw] at hop
      obtain ⟨μ1, x1, H1, F1⟩ := m_storeZero C H hb hv (by omega) hw
      obtain ⟨μ2, x2, H2, F2⟩ := ih (k0 + 1) μ1 s1 h' H1 (by rw [F1]; exact hv) (by omega) hop
      refine ⟨μ2, ?_, H2, by rw [F2, F1]⟩
      rw [List.range'_succ, List.flatMap_cons]
      exact mFwd_seq c x1 x2

theorem noLab_storeZeros (n : Nat) (blk : Register) : NoLab (storeZeros n blk) := by
  intro l hl
  simp only [storeZeros, List.mem_flatMap] at hl
  obtain ⟨off, _, h⟩ := hl
  exact noLab_storeZero blk off l h

/-- the `pop` loop of `store_values`, on the reversed list; the zeros are stored afterwards -/
theorem m_storeValuesLoop (C : HeapCfgOK c) {rem : Ctx} {blk : Nat} (hb : blk < 30) (hb2 : blk ≠ 2)
    {bw : Word} : ∀ (bsRev : List Binding) (fsRev : List Scc.Heap.Field) (ff : Nat) (μ : MState)
    (h h' : Scc.Heap.HState) (k : Nat), HRelM c μ h → μ.val (.register (.x blk)) = some bw →
    EnvFieldsRev μ rem.length bsRev fsRev → 2 * (rem.length + bsRev.length) ≤ 281 → ff ≤ 1000 →
    Scc.Heap.storeValuesRev h bw.toNat fsRev ff = .ok h' →
    ∃ code ff', (storeValuesLoop rem (.x blk) bsRev ff).run k = .ok ((code, ff'), k) ∧ NoLab code ∧ ff' ≤ ff ∧
      ∃ μ' h1, mFwd c code μ = some (μ', .next) ∧ HRelM c μ' h1 ∧
        Scc.Heap.storeZeros h1 ff' bw.toNat = .ok h' ∧ (∀ u, u ≠ .register (.x 2) → μ'.val u = μ.val u) := by
  intro bsRev
  induction bsRev with
  | nil =>
    intro fsRev ff μ h h' k H hv hE _ _ hop
    cases fsRev with
    | cons _ _ => exact hE.elim
    | nil =>
      simp only [Scc.Heap.storeValuesRev] at hop
      exact ⟨[], ff, rfl, noLab_nil, Nat.le_refl _, μ, h, mFwd_nil c μ, H, hop, fun _ _ => rfl⟩
  | cons b rest ih =>
    intro fsRev ff μ h h' k H hv hE hcap hff hop
    cases fsRev with
    | nil => exact hE.elim
    | cons f fs =>
      cases ff with
      | zero => simp [Scc.Heap.storeValuesRev] at hop
      | succ ff =>
        simp only [Scc.Heap.storeValuesRev] at hop
        cases hsv : Scc.Heap.storeValue h f bw.toNat ff with
        | error e => simp [hsv] at hop
        | ok s1 =>
          simp only [hsv] at hop
          have hlen : (rem ++ rest.reverse).length = rem.length + rest.length := by simp
          simp only [List.length_cons] at hcap
          obtain ⟨c1, hr1, hn1, μ1, x1, H1, F1⟩ := m_storeValue C H (b := b) (ctx := rem ++ rest.reverse)
            (by rw [hlen]; exact hE.1) (by rw [hlen]; omega) hb hb2 hv (by omega) hsv k
          have hbT : Temporary.register (.x blk) ≠ .register (.x 2) := reg_ne hb2
          have hE1 : EnvFieldsRev μ1 rem.length rest fs :=
            hE.2.congr (fun m _ h2 => F1 _ (posTemp_ne_low (by omega)).2.2.1)
          obtain ⟨c2, ff', hr2, hn2, hle, μ2, h1, x2, H2, hz, F2⟩ :=
            ih fs ff μ1 s1 h' k H1 (by rw [F1 _ hbT]; exact hv) hE1 (by omega) (by omega) hop
          refine ⟨c1 ++ c2, ff', ?_, hn1.append hn2, by omega, μ2, h1, mFwd_seq c x1 x2, H2, hz,
            fun u hu => by rw [F2 u hu, F1 u hu]⟩
          simp only [storeValuesLoop, Nat.add_one_ne_zero, if_false, Nat.add_sub_cancel]
          rw [genm_bind hr1, genm_bind hr2]
          rfl

/-- CONTRACT of `store_values` -/
theorem m_storeValues (C : HeapCfgOK c) {μ : MState} {h h' : Scc.Heap.HState} (H : HRelM c μ h)
    {toStore rem : Ctx} {fs : List Scc.Heap.Field} (hE : EnvFields μ rem.length toStore fs)
    (hcap : 2 * (rem.length + toStore.length) ≤ 281) {blk : Nat} (hb : blk < 30) (hb2 : blk ≠ 2)
    {bw : Word} (hv : μ.val (.register (.x blk)) = some bw) {ff : Nat} (hff : ff ≤ 1000)
    (hop : Scc.Heap.storeValues h fs bw.toNat ff = .ok h') (k : Nat) :
    ∃ code, (storeValues toStore rem (.x blk) ff).run k = .ok (code, k) ∧ NoLab code ∧
      ∃ μ', mFwd c code μ = some (μ', .next) ∧ HRelM c μ' h' ∧
        (∀ u, u ≠ .register (.x 2) → μ'.val u = μ.val u) := by
  have hbT : Temporary.register (.x blk) ≠ .register (.x 2) := reg_ne hb2
  obtain ⟨cs, ff', hr, hn, hle, μ1, h1, x1, H1, hz, F1⟩ := m_storeValuesLoop C (rem := rem) hb hb2
    toStore.reverse fs.reverse ff μ h h' k H hv (envFields_rev _ _ _ hE) (by simpa using hcap) hff hop
  obtain ⟨μ2, x2, H2, F2⟩ := m_storeZerosFrom C hb ff' 0 μ1 h1 h' H1 (by rw [F1 _ hbT]; exact hv)
    (by omega) hz
  rw [← List.range_eq_range'] at x2
  refine ⟨[.COMMENT "##store values"] ++ cs ++
    (if ff' > 0 then [Code.COMMENT "##mark unused fields with null"] else []) ++ storeZeros ff' (.x blk),
    ?_, ?_, μ2, ?_, H2, fun u hu => by rw [F2, F1 u hu]⟩
  · unfold storeValues
    rw [genm_bind hr]
    rfl
  · refine ((NoLab.append (fun l => by simp) hn).append ?_).append (noLab_storeZeros ff' _)
    intro l; split <;> simp
  · refine mFwd_seq c (mFwd_seq c (mFwd_seq c (a := [.COMMENT "##store values"]) (μ1 := μ)
      (mFwd_comment c _ μ) x1) ?_) x2
    split
    · exact mFwd_comment c _ μ1
    · exact mFwd_nil c μ1

end Values

/-! ## store_fields, store -/

/-- memory.rs BlockPosition ↦ the model's -/
def posMap : BlockPosition → Scc.Heap.BlockPosition
  | .last => .last
  | .other => .other

theorem restLength_eq (n : Nat) (pos : BlockPosition) :
    (if n ≤ FIELDS_PER_BLOCK - pos.toNat then 0 else n - (FIELDS_PER_BLOCK - pos.toNat)) =
      Scc.Heap.restLength n (posMap pos) := by
  cases pos <;> rfl

theorem fpb_eq (pos : BlockPosition) :
    FIELDS_PER_BLOCK - pos.toNat = Scc.Heap.fieldsPerBlock - (posMap pos).toNat := by
  cases pos <;> rfl

section Fields
variable {c : MemCfg}

theorem loadImmediate_zero (t : Temporary) :
    loadImmediate t 0 = match t with
      | .register r => [.MOVZ r 0 0]
      | .spill p => [.MOVZ TEMP 0 0, .STR TEMP .sp (stackOffset p)] := by
  cases t <;> rfl

theorem mexecC_MOVZ0 {rd : Nat} (hd : rd < 30) {μ : MState} :
    mexecC c (.MOVZ (.x rd) 0 0) μ = some (μ.setT (.register (.x rd)) (some 0#64), .next) := by
  have : (okImm16 0 && okShift 0) = true := by decide
  have h0 : imm 0 <<< (0 : Int).toNat = 0#64 := by decide
  simp [mexecC, mexec, regOpnd, hd, this, h0, imm_zero]

/-- "mark no allocation": the target becomes 0; only the target and TEMP change -/
theorem m_loadImmediate0 {μ : MState} {t : Temporary} (ht : t.isVar) :
    ∃ μ', mFwd c (loadImmediate t 0) μ = some (μ', .next) ∧ μ'.val t = some 0#64 ∧ μ'.heap = μ.heap ∧
      (∀ u, u ≠ t → u ≠ .register (.x 2) → μ'.val u = μ.val u) := by
  rw [loadImmediate_zero]
  cases t with
  | register reg =>
    cases reg with
    | x r =>
      obtain ⟨_, h2⟩ := isVar_reg ht
      exact ⟨μ.setT (.register (.x r)) (some 0#64), mFwd_step c (mexecC_MOVZ0 h2) (mFwd_nil c _), by simp, rfl,
        fun u hu _ => by simp [hu]⟩
    | sp => simp [Temporary.isVar] at ht
    | xzr => simp [Temporary.isVar] at ht
  | spill p =>
    obtain ⟨_, h2⟩ := isVar_spill ht
    refine ⟨(μ.setT (.register (.x 2)) (some 0#64)).setT (.spill p) (some 0#64), ?_, by simp, rfl,
      fun u hu hT => by simp [hu, hT]⟩
    have e2 := mexecC_STRs c (μ := μ.setT (.register (.x 2)) (some 0#64)) (by decide : 2 < 30) h2
    have hv0 : (μ.setT (.register (.x 2)) (some 0#64)).val (.register (.x 2)) = some 0#64 := by simp
    rw [hv0] at e2
    exact mFwd_step c (mexecC_MOVZ0 (by decide)) (mFwd_step c e2 (mFwd_nil c _))

theorem noLab_loadImmediate0 (t : Temporary) : NoLab (loadImmediate t 0) := by
  rw [loadImmediate_zero]
  intro l; cases t <;> simp

theorem heap_storeFields_nil (s : Scc.Heap.HState) (pos : Scc.Heap.BlockPosition) (prev : Nat) :
    Scc.Heap.storeFields s [] pos prev = .ok (s, if pos = .last then 0 else prev) := by
  rw [Scc.Heap.storeFields]; simp

theorem heap_storeFields_cons (s : Scc.Heap.HState) (fs : List Scc.Heap.Field) (hne : fs ≠ [])
    (pos : Scc.Heap.BlockPosition) (prev : Nat) :
    Scc.Heap.storeFields s fs pos prev =
      match (if pos = .other then Scc.Heap.wr s (s.heap + Scc.Heap.fstOff (Scc.Heap.fieldsPerBlock - 1)) prev
             else .ok s) with
      | .error e => .error e
      | .ok s1 =>
        match Scc.Heap.storeValues s1 (fs.drop (Scc.Heap.restLength fs.length pos)) s1.heap
            (Scc.Heap.fieldsPerBlock - pos.toNat) with
        | .error e => .error e
        | .ok s2 =>
          match Scc.Heap.acquire s2 with
          | .error e => .error e
          | .ok (s3, new) =>
            Scc.Heap.storeFields s3 (fs.take (Scc.Heap.restLength fs.length pos)) .other new := by
  rw [Scc.Heap.storeFields]; simp only [dif_neg hne]; rfl

theorem noLab_comment (m : String) : NoLab [.COMMENT m] := fun l => by simp

end Fields

end Scc.A64
