/-
  Scc.Runtime.Proofs — lemmas about the model of io.c / driver-template.c (Scc.Runtime.Model).

  Route: the digit loop is characterised over `Nat` magnitudes by strong induction
  (`digitLoop_eq`: it produces exactly `decNat n` iff there is room), the number of digits is bounded
  through core's `Nat.length_toDigits_le_iff`, and only at the boundary `BitVec 64` is related to the
  magnitude (`v.toInt.natAbs`).
-/
import Scc.Runtime.Model

namespace Scc.Runtime

/-! ## digits -/

theorem charByte_digitChar {d : Nat} (h : d < 10) : charByte (Nat.digitChar d) = UInt8.ofNat (48 + d) := by
  have : d = 0 ∨ d = 1 ∨ d = 2 ∨ d = 3 ∨ d = 4 ∨ d = 5 ∨ d = 6 ∨ d = 7 ∨ d = 8 ∨ d = 9 := by omega
  rcases this with h | h | h | h | h | h | h | h | h | h <;> subst h <;> decide

theorem decNat_of_lt {n : Nat} (h : n < 10) : decNat n = [UInt8.ofNat (48 + n)] := by
  simp [decNat, Nat.toDigits_of_lt_base h, charByte_digitChar h]

theorem decNat_of_ge {n : Nat} (h : 10 ≤ n) :
    decNat n = decNat (n / 10) ++ [UInt8.ofNat (48 + n % 10)] := by
  simp [decNat, Nat.toDigits_of_base_le (by decide : 1 < 10) h,
    charByte_digitChar (Nat.mod_lt n (by decide : 0 < 10))]

theorem length_decNat (n : Nat) : (decNat n).length = (Nat.toDigits 10 n).length := by
  simp [decNat]

theorem length_decNat_pos (n : Nat) : 0 < (decNat n).length := by
  rw [length_decNat]; exact Nat.length_toDigits_pos

theorem length_decNat_le_iff {n k : Nat} (h : 0 < k) : (decNat n).length ≤ k ↔ n < 10 ^ k := by
  rw [length_decNat]; exact Nat.length_toDigits_le_iff (by decide) h

theorem decNat_ne_nil (n : Nat) : decNat n ≠ [] := by
  intro h; have := length_decNat_pos n; simp [h] at this

/-- every byte of `decNat n` is an ASCII digit. -/
theorem isDigit_of_mem_decNat : ∀ (n : Nat) (c : UInt8), c ∈ decNat n → isDigit c = true := by
  intro n
  induction n using Nat.strongRecOn with
  | _ n ih =>
    intro c hc
    by_cases h : n < 10
    · rw [decNat_of_lt h] at hc
      simp at hc; subst hc
      have : n = 0 ∨ n = 1 ∨ n = 2 ∨ n = 3 ∨ n = 4 ∨ n = 5 ∨ n = 6 ∨ n = 7 ∨ n = 8 ∨ n = 9 := by omega
      rcases this with h | h | h | h | h | h | h | h | h | h <;> subst h <;> decide
    · rw [decNat_of_ge (by omega)] at hc
      simp at hc
      rcases hc with hc | hc
      · exact ih (n / 10) (by omega) c hc
      · subst hc
        have h10 : n % 10 < 10 := Nat.mod_lt n (by decide)
        generalize n % 10 = d at h10
        have : d = 0 ∨ d = 1 ∨ d = 2 ∨ d = 3 ∨ d = 4 ∨ d = 5 ∨ d = 6 ∨ d = 7 ∨ d = 8 ∨ d = 9 := by omega
        rcases this with h | h | h | h | h | h | h | h | h | h <;> subst h <;> decide

/-! ## the loop -/

/-- Characterisation of the C digit loop: it stores exactly the decimal digits of `n` in front of what
is already in the buffer, moving `start` down by their number — or under-runs the buffer if (and only
if) there are more digits than bytes below `start`. -/
theorem digitLoop_eq : ∀ (n start : Nat) (buf : List UInt8),
    digitLoop n start buf =
      if (decNat n).length ≤ start then some (start - (decNat n).length, decNat n ++ buf) else none := by
  intro n
  induction n using Nat.strongRecOn with
  | _ n ih =>
    intro start buf
    rw [digitLoop.eq_def]
    cases start with
    | zero =>
      have := length_decNat_pos n
      rw [if_neg (by omega)]
    | succ s =>
      simp only
      by_cases hq : n / 10 = 0
      · have hlt : n < 10 := by omega
        have hd : n - n / 10 * 10 = n := by omega
        simp [hq, decNat_of_lt hlt]
      · have hge : 10 ≤ n := by omega
        have hd : n - n / 10 * 10 = n % 10 := by omega
        rw [dif_neg hq, ih (n / 10) (by omega), decNat_of_ge hge, hd]
        simp only [List.length_append, List.length_singleton, Nat.add_le_add_iff_right]
        split
        · simp [Nat.add_sub_add_right]
        · rfl

/-- `write` hands over the whole used part of the buffer. -/
theorem printTail_eq (cap : Nat) (trailer : List UInt8) (neg : Bool) (m : Nat) :
    printTail cap trailer neg m =
      if (decNat m).length + (if neg then 1 else 0) ≤ cap then
        .ok ((if neg then [45] else []) ++ decNat m ++ trailer)
      else .ub "buffer-underflow" := by
  unfold printTail
  rw [digitLoop_eq]
  by_cases h : (decNat m).length ≤ cap
  · rw [if_pos h]
    cases neg with
    | false =>
      simp only [Bool.false_eq_true, if_false, Nat.add_zero, if_pos h, writeFrom, List.nil_append]
      have : cap - (cap - (decNat m).length) + trailer.length = (decNat m ++ trailer).length := by
        simp; omega
      rw [this, List.take_length]
    | true =>
      simp only [if_true]
      by_cases h1 : (decNat m).length + 1 ≤ cap
      · rw [if_pos h1]
        have : cap - (decNat m).length = (cap - (decNat m).length - 1) + 1 := by omega
        rw [this]
        simp only [writeFrom]
        have : cap - (cap - (decNat m).length - 1) + trailer.length
            = (45 :: (decNat m ++ trailer)).length := by
          simp; omega
        rw [this, List.take_length]
        simp
      · rw [if_neg h1]
        have : cap - (decNat m).length = 0 := by omega
        rw [this]
  · rw [if_neg h]
    have : ¬ ((decNat m).length + (if neg = true then 1 else 0) ≤ cap) := by omega
    rw [if_neg this]

/-! ## BitVec 64 boundary -/

theorem slt_zero_iff (v : BitVec 64) : v.slt 0 = true ↔ v.toInt < 0 := by
  simp [BitVec.slt_iff_toInt_lt]

theorem toInt_lt (v : BitVec 64) : v.toInt < 2 ^ 63 := by
  have := BitVec.toInt_lt (x := v); simpa using this

theorem le_toInt (v : BitVec 64) : -2 ^ 63 ≤ v.toInt := by
  have := BitVec.le_toInt (x := v); simpa using this

theorem toInt_INT64_MIN : INT64_MIN.toInt = -2 ^ 63 := by decide

theorem eq_INT64_MIN_iff (v : BitVec 64) : v = INT64_MIN ↔ v.toInt = -2 ^ 63 := by
  rw [← toInt_INT64_MIN]; exact BitVec.toInt_inj.symm

/-- non-negative: the bit pattern read as a natural number is the magnitude. -/
theorem toNat_of_nonneg (v : BitVec 64) (h : ¬ v.toInt < 0) : v.toNat = v.toInt.natAbs := by
  have h1 := BitVec.toInt_eq_toNat_cond v
  have h2 := v.isLt
  split at h1 <;> omega

/-- negative: two's-complement negation (in `uint64_t`, wrap-around) gives the magnitude —
for `INT64_MIN` too (2^63 is representable as `uint64_t`). -/
theorem toNat_neg_of_neg (v : BitVec 64) (h : v.toInt < 0) : (-v).toNat = v.toInt.natAbs := by
  have h1 := BitVec.toInt_eq_toNat_cond v
  have h2 := v.isLt
  rw [BitVec.toNat_neg]
  split at h1 <;> omega

theorem natAbs_toInt_le (v : BitVec 64) : v.toInt.natAbs ≤ 2 ^ 63 := by
  have := toInt_lt v; have := le_toInt v; omega

theorem natAbs_toInt_lt (v : BitVec 64) (h : v ≠ INT64_MIN) : v.toInt.natAbs < 2 ^ 63 := by
  have := toInt_lt v; have := le_toInt v
  have : v.toInt ≠ -2 ^ 63 := fun e => h ((eq_INT64_MIN_iff v).2 e)
  omega

theorem length_decNat_le_19 {m : Nat} (h : m < 2 ^ 63) : (decNat m).length ≤ 19 :=
  (length_decNat_le_iff (by decide)).2 (Nat.lt_of_lt_of_le h (by decide))

theorem length_decNat_le_19' {m : Nat} (h : m ≤ 2 ^ 63) : (decNat m).length ≤ 19 :=
  (length_decNat_le_iff (by decide)).2 (Nat.lt_of_le_of_lt h (by decide))

theorem length_decSpec_le_20 (v : BitVec 64) : (decSpec v.toInt).length ≤ 20 := by
  have := length_decNat_le_19' (natAbs_toInt_le v)
  unfold decSpec; split <;> simp <;> omega

/-- The current code for every value except `INT64_MIN`, any capacity: the output is the decimal
spec if it fits into `cap` bytes, otherwise the buffer is under-run. -/
theorem printSigned_eq (cap : Nat) (trailer : List UInt8) (v : BitVec 64) (hv : v ≠ INT64_MIN) :
    printSigned cap trailer v =
      if (decSpec v.toInt).length ≤ cap then .ok (decSpec v.toInt ++ trailer)
      else .ub "buffer-underflow" := by
  unfold printSigned decSpec
  by_cases hneg : v.toInt < 0
  · have hs : v.slt 0 = true := (slt_zero_iff v).2 hneg
    simp only [hs, if_true, negI64, if_neg hv, printTail_eq, toNat_neg_of_neg v hneg, if_pos hneg,
      List.length_cons, List.cons_append, List.nil_append]
  · have hs : ¬ (v.slt 0 = true) := fun h => hneg ((slt_zero_iff v).1 h)
    simp only [hs, if_false, printTail_eq, toNat_of_nonneg v hneg, if_neg hneg, Bool.false_eq_true,
      Nat.add_zero, List.nil_append]

/-- The current code on `INT64_MIN`: `value = -value` overflows. -/
theorem printSigned_min (cap : Nat) (trailer : List UInt8) :
    printSigned cap trailer INT64_MIN = .ub "neg-overflow" := by
  have hs : INT64_MIN.slt 0 = true := by decide
  unfold printSigned
  rw [if_pos hs]
  simp [negI64]

/-- The repaired code for every value, any capacity. -/
theorem printUnsignedMag_eq (cap : Nat) (trailer : List UInt8) (v : BitVec 64) :
    printUnsignedMag cap trailer v =
      if (decSpec v.toInt).length ≤ cap then .ok (decSpec v.toInt ++ trailer)
      else .ub "buffer-underflow" := by
  unfold printUnsignedMag decSpec
  by_cases hneg : v.toInt < 0
  · have hs : v.slt 0 = true := (slt_zero_iff v).2 hneg
    have hz : (0#64 - v) = -v := by simp
    simp only [hs, if_true, hz, printTail_eq, toNat_neg_of_neg v hneg, if_pos hneg,
      List.length_cons, List.cons_append, List.nil_append]
  · have hs : ¬ (v.slt 0 = true) := fun h => hneg ((slt_zero_iff v).1 h)
    simp only [hs, if_false, printTail_eq, toNat_of_nonneg v hneg, if_neg hneg, Bool.false_eq_true,
      Nat.add_zero, List.nil_append]

/-! ## atoi / strtoll -/

theorem parseDigits_decNat_append : ∀ (n : Nat) (acc : Nat) (rest : List UInt8),
    parseDigits (decNat n ++ rest) acc = parseDigits rest (acc * 10 ^ (decNat n).length + n) := by
  intro n
  induction n using Nat.strongRecOn with
  | _ n ih =>
    intro acc rest
    by_cases h : n < 10
    · rw [decNat_of_lt h]
      have hd : isDigit (UInt8.ofNat (48 + n)) = true :=
        isDigit_of_mem_decNat n _ (by rw [decNat_of_lt h]; simp)
      have hn : (UInt8.ofNat (48 + n)).toNat - 48 = n := by
        simp [UInt8.toNat_ofNat']; omega
      simp only [List.singleton_append, parseDigits, hd, if_true, hn, List.length_singleton,
        Nat.pow_one]
    · have hge : 10 ≤ n := by omega
      rw [decNat_of_ge hge, List.append_assoc, ih (n / 10) (by omega)]
      have h10 : n % 10 < 10 := Nat.mod_lt n (by decide)
      have hd : isDigit (UInt8.ofNat (48 + n % 10)) = true :=
        isDigit_of_mem_decNat (n % 10) _ (by rw [decNat_of_lt h10]; simp)
      have hn : (UInt8.ofNat (48 + n % 10)).toNat - 48 = n % 10 := by
        simp [UInt8.toNat_ofNat']; omega
      simp only [List.singleton_append, parseDigits, hd, if_true, hn, List.length_append,
        List.length_singleton, Nat.pow_succ]
      congr 1
      generalize 10 ^ (decNat (n / 10)).length = p
      rw [Nat.add_mul, Nat.mul_assoc]
      omega

theorem parseDigits_decNat (n : Nat) : parseDigits (decNat n) 0 = n := by
  have := parseDigits_decNat_append n 0 []
  simpa [parseDigits] using this

/-- the first byte of `decNat n`. -/
theorem decNat_eq_cons (n : Nat) : ∃ c t, decNat n = c :: t ∧ isDigit c = true := by
  cases h : decNat n with
  | nil => exact absurd h (decNat_ne_nil n)
  | cons c t => exact ⟨c, t, rfl, isDigit_of_mem_decNat n c (by rw [h]; simp)⟩

theorem isDigit_not_space {c : UInt8} (h : isDigit c = true) :
    isSpace c = false ∧ c ≠ 45 ∧ c ≠ 43 := by
  simp only [isDigit, Bool.and_eq_true, decide_eq_true_eq] at h
  obtain ⟨h1, h2⟩ := h
  have h1' : 48 ≤ c.toNat := by simpa [UInt8.le_iff_toNat_le] using h1
  have h2' : c.toNat ≤ 57 := by simpa [UInt8.le_iff_toNat_le] using h2
  refine ⟨?_, ?_, ?_⟩
  · simp only [isSpace, Bool.or_eq_false_iff, Bool.and_eq_false_iff, beq_eq_false_iff_ne, ne_eq,
      decide_eq_false_iff_not]
    refine ⟨?_, Or.inr ?_⟩
    · intro e; subst e; simp at h1'
    · intro hle
      have : c.toNat ≤ 13 := by simpa [UInt8.le_iff_toNat_le] using hle
      omega
  · intro e; subst e; simp at h1'
  · intro e; subst e; simp at h1'

theorem parseSigned_decSpec (v : Int) : parseSigned (decSpec v) = v := by
  obtain ⟨c, t, hct, hc⟩ := decNat_eq_cons v.natAbs
  obtain ⟨hsp, h45, h43⟩ := isDigit_not_space hc
  have hp := parseDigits_decNat v.natAbs
  unfold decSpec parseSigned
  by_cases hneg : v < 0
  · rw [if_pos hneg]
    have : List.dropWhile isSpace (45 :: decNat v.natAbs) = 45 :: decNat v.natAbs := by
      rw [List.dropWhile_cons_of_neg]; decide
    rw [this]
    simp only [hp]
    omega
  · rw [if_neg hneg]
    have : List.dropWhile isSpace (decNat v.natAbs) = c :: t := by
      rw [hct, List.dropWhile_cons_of_neg]; simp [hsp]
    rw [this]
    rw [hct] at hp
    split
    · rename_i heq; injection heq with h1 _; exact absurd h1 h45
    · rename_i heq; injection heq with h1 _; exact absurd h1 h43
    · rw [hp]; omega

theorem saturate64_of_range {v : Int} (h1 : -2 ^ 63 ≤ v) (h2 : v < 2 ^ 63) : saturate64 v = v := by
  unfold saturate64
  rw [if_neg (by omega), if_neg (by omega)]

theorem strtollModel_decSpec {v : Int} (h1 : -2 ^ 63 ≤ v) (h2 : v < 2 ^ 63) :
    strtollModel (decSpec v) = v := by
  rw [strtollModel, parseSigned_decSpec, saturate64_of_range h1 h2]

theorem argToParam_decSpec {v : Int} (h1 : -2 ^ 63 ≤ v) (h2 : v < 2 ^ 63) :
    argToParam (decSpec v) = (BitVec.ofInt 32 v).toInt := by
  rw [argToParam, strtollModel_decSpec h1 h2]

theorem toInt_ofInt32_of_range {v : Int} (h1 : -2 ^ 31 ≤ v) (h2 : v < 2 ^ 31) :
    (BitVec.ofInt 32 v).toInt = v := by
  rw [BitVec.toInt_ofInt]
  have : (2 : Nat) ^ 32 = 4294967296 := by decide
  rw [this]
  unfold Int.bmod
  dsimp only
  split <;> omega

/-- `atoiModel` agrees with `argToParam` / `strtollModel` (it only records the intermediate stages). -/
theorem atoiModel_param (s : List UInt8) : (atoiModel s).param = argToParam s := rfl

theorem atoiModel_long (s : List UInt8) : (atoiModel s).long = strtollModel s := rfl

/-! ## driver -/

/-- exit status = low 8 bits of the two's-complement return value (`Int.emod` is non-negative). -/
theorem exitStatus_eq (ret : Int) : exitStatus ret = (ret % 256).toNat := by
  unfold exitStatus
  rw [BitVec.toNat_ofInt]
  have : (2 : Nat) ^ 32 = 4294967296 := by decide
  rw [this]
  omega

theorem exitStatus_lt (ret : Int) : exitStatus ret < 256 := by
  unfold exitStatus; omega

end Scc.Runtime
