/-
  Scc.Runtime.Current — the runtime model instantiated with what `bin/regen` extracted from the
  CURRENT sources of /repo (Scc/Generated/Runtime.lean is rewritten on every run):
  buffer capacity, how the magnitude of a negative value is computed, which C conversion function
  the generated driver applies to argv.
-/
import Scc.Runtime.Model
import Scc.Generated.Runtime

namespace Scc.Runtime

open Scc.Generated

/-- print_i64 as io.c has it now. -/
def printI64Cur (v : BitVec 64) : Out :=
  match negStyle with
  | .signed => printI64 maxDigitsIntSrc v
  | .unsignedMag => printI64Fixed maxDigitsIntSrc v

/-- println_i64 as io.c has it now. -/
def printlnI64Cur (v : BitVec 64) : Out :=
  match negStyle with
  | .signed => printlnI64 maxDigitsIntSrc v
  | .unsignedMag => printlnI64Fixed maxDigitsIntSrc v

/-- argument conversion as `generate_c_driver` emits it now. -/
def argToParamCur (s : List UInt8) : Int :=
  match argConv with
  | .atoi => argToParam s
  | .strtoll => strtollModel s

/-- line protocol (pure): the `*cur` requests use the extracted configuration. -/
def handleLineCur (line : String) : String :=
  match line.trimAscii.toString.splitOn " " with
  | ["printcur", a] => handleLine maxDigitsIntSrc
      (match negStyle with | .signed => s!"print {a}" | .unsignedMag => s!"printfixed {a}")
  | ["printlncur", a] => handleLine maxDigitsIntSrc
      (match negStyle with | .signed => s!"println {a}" | .unsignedMag => s!"printlnfixed {a}")
  | ["argcur"] => handleLine maxDigitsIntSrc
      (match argConv with | .atoi => "atoi" | .strtoll => "strtoll")
  | ["argcur", h] => handleLine maxDigitsIntSrc
      (match argConv with | .atoi => s!"atoi {h}" | .strtoll => s!"strtoll {h}")
  | _ => handleLine maxDigitsIntSrc line

end Scc.Runtime
