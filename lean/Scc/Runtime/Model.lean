/-
  Scc.Runtime.Model — executable model of the C runtime that every compiled program is linked with.

  Modelled sources (of /repo):
    lang/driver/infrastructure/io.c               print_i64, println_i64
    lang/driver/infrastructure/driver-template.c  main
    lang/driver/src/lib.rs: fn generate_c_driver  (instantiation of the template by string replacement:
        prototype `int asm_main(void *heap, int64_t input1, ..., int64_t inputN)`,
        `if (argc != 1 + N)`, call `asm_main(heap, atoi(argv[1]), ..., atoi(argv[N]))`)

  C semantics is made explicit: signed overflow and out-of-bounds stores are reported as `Out.ub`,
  never silently given a value.  The buffer capacity (`MAX_DIGITS_INT` of io.c) is a parameter `cap`
  of every function; `maxDigitsInt` below only records the value currently found in io.c.

  Imports: core only (this file is linked into an executable).
-/

namespace Scc.Runtime

/-- io.c: `#define MAX_DIGITS_INT 20` (recorded value; the model functions take `cap` explicitly). -/
def maxDigitsInt : Nat := 20

/-- Outcome of one call of a C function that writes to stdout. -/
inductive Out where
  /-- the bytes handed to `write(STDOUT_FILENO, ..)` -/
  | ok (bytes : List UInt8)
  /-- the call has undefined behaviour in C; `why` names the first violated rule -/
  | ub (why : String)
  deriving Repr, DecidableEq, Inhabited

/-- `INT64_MIN` = -2^63 as a 64-bit pattern. -/
def INT64_MIN : BitVec 64 := 0x8000000000000000#64

/-! ## io.c -/

/-- io.c: the loop
```
  do { prev_value = value; value /= 10; start--; *start = '0' + (prev_value - value * 10); } while (value);
```
`value` is the (non-negative) value as a natural number — C `/` on non-negative operands is `Nat` division,
and `prev_value - value*10` cannot overflow since `0 ≤ value*10 ≤ prev_value`.
`start` is the index of the pointer `start` into `buf`; `buf` is the list of bytes currently stored at
`buf[start .. ]` (everything that was stored so far, up to the end of the array).
`start--; *start = ..` with `start = 0` stores to `buf[-1]`: result `none` (buffer under-run).
Recursion is on the value exactly as in C (the loop ends when the quotient is 0). -/
def digitLoop (value : Nat) (start : Nat) (buf : List UInt8) : Option (Nat × List UInt8) :=
  let prevValue := value
  let value' := value / 10                                  -- value /= 10
  match start with
  | 0 => none                                               -- start--; *start = ..  below buf[0]
  | start' + 1 =>                                           -- start--
    let buf' := UInt8.ofNat (48 + (prevValue - value' * 10)) :: buf   -- *start = '0' + (prev - value*10)
    if _h : value' = 0 then some (start', buf')              -- while (value)
    else digitLoop value' start' buf'
termination_by value
decreasing_by
  omega

/-- `write(STDOUT_FILENO, start, len)` where `buf` lists the bytes from `start` to the end of the array:
the first `len` of them are written (`len` never exceeds `buf.length` in the callers below: it is
computed from the same indices). -/
def writeFrom (buf : List UInt8) (len : Nat) : Out := .ok (buf.take len)

/-- io.c: common tail of `print_i64` / `println_i64` after the sign has been stripped.
`trailer` is what is stored at `buf[cap ..]` before the loop (`[]` for print: `char buf[cap]`,
`['\n']` for println: `char buf[cap+1]; buf[cap] = '\n'`), `start = &buf[cap]`.
`write` length: `&buf[cap] - start` (+ 1 for println, i.e. `+ trailer.length`). -/
def printTail (cap : Nat) (trailer : List UInt8) (negative : Bool) (magnitude : Nat) : Out :=
  match digitLoop magnitude cap trailer with
  | none => .ub "buffer-underflow"
  | some (start, buf) =>
    if negative then
      match start with
      | 0 => .ub "buffer-underflow"                          -- start--; *start = '-' below buf[0]
      | start' + 1 => writeFrom (45 :: buf) (cap - start' + trailer.length)
    else writeFrom buf (cap - start + trailer.length)

/-- C `value = -value` on `int64_t`: signed overflow (undefined behaviour) exactly for `INT64_MIN`. -/
def negI64 (value : BitVec 64) : Option (BitVec 64) :=
  if value = INT64_MIN then none else some (-value)

/-- io.c: shared body of print_i64 / println_i64 (the two C functions differ only in `trailer`).
THE CODE AS IT IS: `if (value < 0) { negative = true; value = -value; }` on `int64_t`. -/
def printSigned (cap : Nat) (trailer : List UInt8) (value : BitVec 64) : Out :=
  if value.slt 0 then
    match negI64 value with
    | none => .ub "neg-overflow"
    | some value' => printTail cap trailer true value'.toNat
  else printTail cap trailer false value.toNat

/-- io.c: void print_i64(int64_t value) -/
def printI64 (cap : Nat) (value : BitVec 64) : Out := printSigned cap [] value

/-- io.c: void println_i64(int64_t value) -/
def printlnI64 (cap : Nat) (value : BitVec 64) : Out := printSigned cap [10] value

/-- NOT the current code: the repaired body, magnitude computed in `uint64_t`
(`uint64_t m = negative ? 0 - (uint64_t)value : (uint64_t)value;` — wrap-around is defined),
loop on the unsigned magnitude. -/
def printUnsignedMag (cap : Nat) (trailer : List UInt8) (value : BitVec 64) : Out :=
  if value.slt 0 then printTail cap trailer true (0#64 - value).toNat
  else printTail cap trailer false value.toNat

/-- repaired print_i64 (see `printUnsignedMag`). -/
def printI64Fixed (cap : Nat) (value : BitVec 64) : Out := printUnsignedMag cap [] value

/-- repaired println_i64 (see `printUnsignedMag`). -/
def printlnI64Fixed (cap : Nat) (value : BitVec 64) : Out := printUnsignedMag cap [10] value

/-! ## decimal specification (independent of the loop) -/

/-- ASCII code of a character as a byte. -/
def charByte (c : Char) : UInt8 := UInt8.ofNat c.toNat

/-- decimal digits of a natural number, most significant first, no leading zeros, "0" for 0
(core `Nat.toDigits`, the function behind `Nat.repr`). -/
def decNat (n : Nat) : List UInt8 := (Nat.toDigits 10 n).map charByte

/-- The decimal spec: leading '-' for negatives, no leading zeros, "0" for zero. -/
def decSpec (v : Int) : List UInt8 :=
  if v < 0 then 45 :: decNat v.natAbs else decNat v.natAbs

/-! ## atoi / strtol (C standard + glibc) -/

/-- `isspace` in the "C" locale: space, \t \n \v \f \r. -/
def isSpace (c : UInt8) : Bool := c == 32 || (9 ≤ c && c ≤ 13)

/-- `'0' ≤ c ≤ '9'`. -/
def isDigit (c : UInt8) : Bool := 48 ≤ c && c ≤ 57

/-- accumulate decimal digits, stop at the first non-digit (or at the end = the NUL terminator). The
accumulator is unbounded; saturation is applied afterwards (same result as glibc's cutoff logic). -/
def parseDigits : List UInt8 → Nat → Nat
  | [], acc => acc
  | c :: cs, acc => if isDigit c then parseDigits cs (acc * 10 + (c.toNat - 48)) else acc

/-- the mathematical value denoted by the longest prefix `ws* [+-]? digit*` (0 if there are no digits). -/
def parseSigned (s : List UInt8) : Int :=
  match s.dropWhile isSpace with
  | 45 :: t => - (parseDigits t 0 : Int)       -- '-'
  | 43 :: t => (parseDigits t 0 : Int)         -- '+'
  | t => (parseDigits t 0 : Int)

/-- clamp to `[LONG_MIN, LONG_MAX]` (64-bit long). -/
def saturate64 (x : Int) : Int :=
  if x < -(2 : Int) ^ 63 then -(2 : Int) ^ 63 else if (2 : Int) ^ 63 - 1 < x then (2 : Int) ^ 63 - 1 else x

/-- `strtoll(s, NULL, 10)` = `strtol(s, NULL, 10)` on LP64: saturating 64-bit. -/
def strtollModel (s : List UInt8) : Int := saturate64 (parseSigned s)

/-- All stages of the conversion of one command line argument. -/
structure AtoiOut where
  /-- mathematical value of the parsed prefix -/
  parsed : Int
  /-- `strtol` result (saturated `long`) -/
  long : Int
  /-- `(int) long`: low 32 bits (implementation-defined conversion, gcc/clang: modular) -/
  int32 : BitVec 32
  /-- the `int` passed for an `int64_t` parameter: sign extension -/
  param : Int
  deriving Repr, DecidableEq

/-- glibc: `atoi(s) = (int) strtol(s, NULL, 10)`; then the implicit `int → int64_t` conversion at the
call `asm_main(heap, atoi(argv[i]), ..)`. -/
def atoiModel (s : List UInt8) : AtoiOut :=
  let p := parseSigned s
  let l := saturate64 p
  let i := BitVec.ofInt 32 l
  { parsed := p, long := l, int32 := i, param := i.toInt }

/-- sign-extend-32(truncate-32(saturate-64(parse s))) -/
def argToParam (s : List UInt8) : Int := (BitVec.ofInt 32 (strtollModel s)).toInt

/-! ## driver-template.c -/

/-- Parameters of `generate_c_driver`. The heap (`calloc(heapsize, sizeof(void))`, result unchecked)
is not modelled here. -/
structure DriverCfg where
  nParams : Nat
  heapSizeMiB : Nat := 32
  deriving Repr, DecidableEq

/-- `ERROR_ARGUMENTS` as written by `write(STDOUT_FILENO, ERROR_ARGUMENTS, sizeof(ERROR_ARGUMENTS))`:
"wrong number of arguments\n" AND the terminating NUL (`sizeof` of a string literal counts it): 27 bytes. -/
def errorBytes : List UInt8 :=
  [119, 114, 111, 110, 103, 32,                    -- "wrong "
   110, 117, 109, 98, 101, 114, 32,                -- "number "
   111, 102, 32,                                   -- "of "
   97, 114, 103, 117, 109, 101, 110, 116, 115,     -- "arguments"
   10, 0]                                          -- "\n" "\0"

/-- `int val = asm_main(..)` reads the low 32 bits of the returned register; `return val;` from `main`;
the OS keeps the low 8 bits: a number in 0..255. -/
def exitStatus (ret : Int) : Nat := (BitVec.ofInt 32 ret).toNat % 256

/-- driver-template.c: int main(int argc, char *argv[]) as instantiated for `nParams` parameters.
`argv` includes the program name (`argv.length = argc`). `asmMain` maps the converted arguments to
(bytes it wrote to stdout, 64-bit return value). Result: (stdout bytes, exit status). -/
def driverMain (nParams : Nat) (argv : List (List UInt8))
    (asmMain : List Int → (List UInt8 × Int)) : (List UInt8 × Nat) :=
  if argv.length ≠ 1 + nParams then
    (errorBytes, 1)
  else
    let r := asmMain ((argv.drop 1).map argToParam)      -- atoi(argv[1]) .. atoi(argv[n])
    (r.1, exitStatus r.2)

/-- `driverMain` for a configuration record. -/
def driverMainCfg (cfg : DriverCfg) (argv : List (List UInt8))
    (asmMain : List Int → (List UInt8 × Int)) : (List UInt8 × Nat) :=
  driverMain cfg.nParams argv asmMain

/-! ## line protocol (pure; used by the differential-test driver) -/

def hexDigit (n : Nat) : Char := if n < 10 then Char.ofNat (48 + n) else Char.ofNat (87 + n)

def hexOfBytes (bs : List UInt8) : String :=
  String.ofList (bs.flatMap fun b => [hexDigit (b.toNat / 16), hexDigit (b.toNat % 16)])

def hexVal (c : Char) : Option Nat :=
  if '0' ≤ c ∧ c ≤ '9' then some (c.toNat - 48)
  else if 'a' ≤ c ∧ c ≤ 'f' then some (c.toNat - 87)
  else if 'A' ≤ c ∧ c ≤ 'F' then some (c.toNat - 55)
  else none

def bytesOfHexChars : List Char → Option (List UInt8)
  | [] => some []
  | [_] => none
  | a :: b :: rest =>
    match hexVal a, hexVal b, bytesOfHexChars rest with
    | some x, some y, some bs => some (UInt8.ofNat (x * 16 + y) :: bs)
    | _, _, _ => none

def bytesOfHex (s : String) : Option (List UInt8) := bytesOfHexChars s.toList

def showOut : Out → String
  | .ok bs => hexOfBytes bs
  | .ub why => "UB " ++ why

/-- decimal int64 → bit pattern; `none` if not a decimal integer in [-2^63, 2^63). -/
def parseI64 (s : String) : Option (BitVec 64) :=
  match s.toInt? with
  | some i => if -(2 : Int) ^ 63 ≤ i ∧ i < (2 : Int) ^ 63 then some (BitVec.ofInt 64 i) else none
  | none => none

/-- Line protocol:
  `print <decimal int64>`    -> hex of the bytes written by print_i64, or `UB <why>`
  `println <decimal int64>`  -> same for println_i64
  `printfixed <decimal int64>` / `printlnfixed <decimal int64>` -> the repaired variants
  `atoi <hex bytes of the argument string>` -> decimal of `argToParam`
  `strtoll <hex bytes>`      -> decimal of `strtollModel`
  `exit <decimal int64>`     -> exit status (0..255) for that return value of asm_main
  `spec <decimal int64>`     -> hex of `decSpec`
  anything else              -> `ERR ...` -/
def handleLine (cap : Nat) (line : String) : String :=
  match line.trimAscii.toString.splitOn " " with
  | ["print", a] => match parseI64 a with
    | some v => showOut (printI64 cap v)
    | none => "ERR bad int64"
  | ["println", a] => match parseI64 a with
    | some v => showOut (printlnI64 cap v)
    | none => "ERR bad int64"
  | ["printfixed", a] => match parseI64 a with
    | some v => showOut (printI64Fixed cap v)
    | none => "ERR bad int64"
  | ["printlnfixed", a] => match parseI64 a with
    | some v => showOut (printlnI64Fixed cap v)
    | none => "ERR bad int64"
  | ["atoi"] => toString (argToParam [])
  | ["atoi", h] => match bytesOfHex h with
    | some bs => toString (argToParam bs)
    | none => "ERR bad hex"
  | ["strtoll"] => toString (strtollModel [])
  | ["strtoll", h] => match bytesOfHex h with
    | some bs => toString (strtollModel bs)
    | none => "ERR bad hex"
  | ["exit", a] => match parseI64 a with
    | some v => toString (exitStatus v.toInt)
    | none => "ERR bad int64"
  | ["spec", a] => match parseI64 a with
    | some v => hexOfBytes (decSpec v.toInt)
    | none => "ERR bad int64"
  | _ => "ERR unknown command"

end Scc.Runtime
