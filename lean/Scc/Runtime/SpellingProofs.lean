/-
  Scc.Runtime.SpellingProofs — the argument conversion of the driver (Scc.Runtime.Model: `parseSigned`,
  `strtollModel`, `argToParam`) on EVERY decimal spelling of a number, not only the canonical one
  (`decSpec`): optional white space, optional sign `+`/`-`, one or more decimal digits with any number of
  leading zeros, optionally followed by bytes that are not part of the number.  Proof file.

  The numeric value of a digit string is defined here positionally (`digitsValue`, Horner form) and tied
  to core's `Nat.toDigits` (through `decNat`) in both directions:
    * `digitsValue_zeros_decNat` : the string `0…0 ++ decNat n` has value `n`;
    * `digits_eq_zeros_decNat`   : every non-empty digit string IS `0…0 ++ decNat (its value)`.
  Also: a model of `strtoll(s, NULL, 0)` (base detection: `0x`/`0X` hexadecimal, leading `0` octal),
  only used to exhibit that base 0 would NOT satisfy C20 (`010`).
-/
import Scc.Runtime.Proofs

namespace Scc.Runtime

/-! ## digit strings and their value -/

/-- all bytes are ASCII digits -/
def allDigits (ds : List UInt8) : Bool := ds.all isDigit

/-- all bytes are white space (`isspace`) -/
def allSpace (ws : List UInt8) : Bool := ws.all isSpace

/-- Horner evaluation of a digit string, most significant digit first -/
def horner : Nat → List UInt8 → Nat
  | acc, [] => acc
  | acc, c :: cs => horner (acc * 10 + (c.toNat - 48)) cs

/-- the number a digit string denotes in base ten -/
def digitsValue (ds : List UInt8) : Nat := horner 0 ds

/-- `rest` cannot continue a number: it is empty (the NUL terminator follows) or starts with a non-digit -/
def stops : List UInt8 → Bool
  | [] => true
  | c :: _ => !isDigit c

theorem horner_nil (acc : Nat) : horner acc [] = acc := by rfl
theorem horner_cons (acc : Nat) (c : UInt8) (cs : List UInt8) :
    horner acc (c :: cs) = horner (acc * 10 + (c.toNat - 48)) cs := by rfl

theorem horner_append (acc : Nat) (a b : List UInt8) : horner acc (a ++ b) = horner (horner acc a) b := by
  induction a generalizing acc with
  | nil => rw [List.nil_append, horner_nil]
  | cons c cs ih => rw [List.cons_append, horner_cons, horner_cons, ih]

theorem horner_acc (acc : Nat) (ds : List UInt8) :
    horner acc ds = acc * 10 ^ ds.length + horner 0 ds := by
  induction ds generalizing acc with
  | nil => rw [horner_nil, horner_nil, List.length_nil, Nat.pow_zero, Nat.mul_one, Nat.add_zero]
  | cons c cs ih =>
    rw [horner_cons, horner_cons, List.length_cons, Nat.zero_mul, Nat.zero_add]
    rw [ih (acc * 10 + (c.toNat - 48)), ih (c.toNat - 48), Nat.pow_succ, Nat.add_mul]
    have : acc * 10 * 10 ^ cs.length = acc * (10 ^ cs.length * 10) := by
      rw [Nat.mul_assoc, Nat.mul_comm 10]
    omega

theorem digitsValue_snoc (ds : List UInt8) (c : UInt8) :
    digitsValue (ds ++ [c]) = digitsValue ds * 10 + (c.toNat - 48) := by
  unfold digitsValue
  rw [horner_append, horner_cons, horner_nil]

/-- on digits followed by a stop the C loop computes the Horner value -/
theorem parseDigits_allDigits : ∀ (ds rest : List UInt8) (acc : Nat),
    allDigits ds = true → stops rest = true → parseDigits (ds ++ rest) acc = horner acc ds := by
  intro ds
  induction ds with
  | nil =>
    intro rest acc _ hs
    cases rest with
    | nil => rw [List.append_nil, horner_nil]; rfl
    | cons c r =>
      have : isDigit c = false := by simpa [stops] using hs
      rw [List.nil_append, horner_nil, parseDigits, this]; rfl
  | cons c cs ih =>
    intro rest acc hd hs
    simp only [allDigits, List.all_cons, Bool.and_eq_true] at hd
    rw [List.cons_append, parseDigits, hd.1, if_pos rfl, horner_cons]
    exact ih rest _ hd.2 hs

theorem allDigits_decNat (n : Nat) : allDigits (decNat n) = true := by
  simp only [allDigits, List.all_eq_true]
  exact isDigit_of_mem_decNat n

theorem allDigits_zeros (k : Nat) : allDigits (List.replicate k 48) = true := by
  simp only [allDigits, List.all_eq_true]
  intro c hc
  rw [List.eq_of_mem_replicate hc]; decide

theorem allDigits_append {a b : List UInt8} :
    allDigits (a ++ b) = true ↔ allDigits a = true ∧ allDigits b = true := by
  simp [allDigits, List.all_append]

theorem digitsValue_decNat (n : Nat) : digitsValue (decNat n) = n := by
  have h := parseDigits_allDigits (decNat n) [] 0 (allDigits_decNat n) rfl
  rw [List.append_nil, parseDigits_decNat] at h
  exact h.symm

theorem horner_zeros (acc k : Nat) : horner acc (List.replicate k 48) = acc * 10 ^ k := by
  induction k generalizing acc with
  | zero => rw [List.replicate_zero, horner_nil, Nat.pow_zero, Nat.mul_one]
  | succ k ih =>
    rw [List.replicate_succ, horner_cons, ih, Nat.pow_succ]
    have : (48 : UInt8).toNat - 48 = 0 := by decide
    rw [this, Nat.add_zero, Nat.mul_assoc, Nat.mul_comm 10]

/-- leading zeros do not change the value; the canonical digits of `n` denote `n` -/
theorem digitsValue_zeros_decNat (k n : Nat) : digitsValue (List.replicate k 48 ++ decNat n) = n := by
  unfold digitsValue
  rw [horner_append, horner_zeros, Nat.zero_mul]
  exact digitsValue_decNat n

/-- a digit byte is `'0' + d` for its value `d < 10` -/
theorem digit_eq {c : UInt8} (h : isDigit c = true) :
    c.toNat - 48 < 10 ∧ c = UInt8.ofNat (48 + (c.toNat - 48)) := by
  simp only [isDigit, Bool.and_eq_true, decide_eq_true_eq] at h
  have h1 : 48 ≤ c.toNat := by simpa [UInt8.le_iff_toNat_le] using h.1
  have h2 : c.toNat ≤ 57 := by simpa [UInt8.le_iff_toNat_le] using h.2
  refine ⟨by omega, ?_⟩
  have : 48 + (c.toNat - 48) = c.toNat := by omega
  rw [this, UInt8.ofNat_toNat]

/-- snoc form of the converse, by induction on the reversed string -/
theorem digits_eq_zeros_decNat_rev : ∀ (rs : List UInt8), rs ≠ [] → allDigits rs.reverse = true →
    ∃ k, rs.reverse = List.replicate k 48 ++ decNat (digitsValue rs.reverse) := by
  intro rs
  induction rs with
  | nil => intro h; exact absurd rfl h
  | cons c cs ih =>
    intro _ hd
    rw [List.reverse_cons] at hd ⊢
    obtain ⟨hcs, hc⟩ := allDigits_append.1 hd
    have hc' : isDigit c = true := by simpa [allDigits] using hc
    obtain ⟨hlt, hce⟩ := digit_eq hc'
    rw [digitsValue_snoc]
    by_cases hnil : cs = []
    · subst hnil
      refine ⟨0, ?_⟩
      simp only [List.reverse_nil, List.nil_append, List.replicate_zero]
      have : digitsValue [] = 0 := rfl
      rw [this, Nat.zero_mul, Nat.zero_add, decNat_of_lt hlt, ← hce]
    · obtain ⟨k, hk⟩ := ih hnil hcs
      generalize hv : digitsValue cs.reverse = v at hk
      by_cases hv0 : v = 0
      · subst hv0
        refine ⟨k + 1, ?_⟩
        rw [hk, Nat.zero_mul, Nat.zero_add, decNat_of_lt hlt, ← hce]
        have h0 : decNat 0 = [48] := by decide
        rw [h0, List.replicate_succ']
      · refine ⟨k, ?_⟩
        have hge : 10 ≤ v * 10 + (c.toNat - 48) := by omega
        rw [decNat_of_ge hge]
        have hdiv : (v * 10 + (c.toNat - 48)) / 10 = v := by omega
        have hmod : (v * 10 + (c.toNat - 48)) % 10 = c.toNat - 48 := by omega
        rw [hdiv, hmod, ← hce, ← List.append_assoc, ← hk]

/-- **Every non-empty digit string is the canonical rendering of its value behind some leading zeros.** -/
theorem digits_eq_zeros_decNat (ds : List UInt8) (hne : ds ≠ []) (hd : allDigits ds = true) :
    ∃ k, ds = List.replicate k 48 ++ decNat (digitsValue ds) := by
  have h := digits_eq_zeros_decNat_rev ds.reverse (by simpa using hne) (by simpa using hd)
  simpa using h

/-! ## spellings of an argument -/

/-- the optional sign of a spelling -/
inductive Sign where
  | none | plus | minus
  deriving DecidableEq, Repr

def Sign.bytes : Sign → List UInt8
  | .none => []
  | .plus => [43]
  | .minus => [45]

/-- a spelling of a number as a command-line argument: `ws* [+-]? digit+` -/
structure Spelling where
  ws : List UInt8 := []
  sign : Sign := .none
  digits : List UInt8
  deriving DecidableEq, Repr

/-- the argument string -/
def Spelling.bytes (sp : Spelling) : List UInt8 := sp.ws ++ (sp.sign.bytes ++ sp.digits)

/-- well-formed: white space, then at least one digit, digits only (decidable) -/
def Spelling.ok (sp : Spelling) : Bool := allSpace sp.ws && allDigits sp.digits && !sp.digits.isEmpty

/-- the shape of the property text: no white space (`[+-]? digit+`) -/
def Spelling.plain (sp : Spelling) : Bool := sp.ws.isEmpty && sp.ok

/-- the number it denotes -/
def Spelling.value (sp : Spelling) : Int :=
  match sp.sign with
  | .minus => -(digitsValue sp.digits : Int)
  | _ => (digitsValue sp.digits : Int)

theorem dropWhile_append_all {p : UInt8 → Bool} {a b : List UInt8} (ha : a.all p = true) :
    (a ++ b).dropWhile p = b.dropWhile p := by
  induction a with
  | nil => rfl
  | cons c cs ih =>
    simp only [List.all_cons, Bool.and_eq_true] at ha
    rw [List.cons_append, List.dropWhile_cons_of_pos ha.1]
    exact ih ha.2

/-- The model of the C conversion on a spelling followed by anything that stops the number. -/
theorem parseSigned_spelling_append (sp : Spelling) (rest : List UInt8) (hok : sp.ok = true)
    (hs : stops rest = true) : parseSigned (sp.bytes ++ rest) = sp.value := by
  obtain ⟨ws, sign, ds⟩ := sp
  simp only [Spelling.ok, Bool.and_eq_true, Bool.not_eq_true', List.isEmpty_eq_false_iff] at hok
  obtain ⟨⟨hws, hds⟩, hne⟩ := hok
  have hp : ∀ acc, parseDigits (ds ++ rest) acc = horner acc ds :=
    fun acc => parseDigits_allDigits ds rest acc hds hs
  unfold parseSigned Spelling.bytes Spelling.value
  simp only
  rw [List.append_assoc, dropWhile_append_all hws, List.append_assoc]
  cases sign with
  | minus =>
    have : ([45] ++ (ds ++ rest)).dropWhile isSpace = 45 :: (ds ++ rest) := by
      rw [List.singleton_append, List.dropWhile_cons_of_neg]; decide
    simp only [Sign.bytes, this, hp, digitsValue]
  | plus =>
    have : ([43] ++ (ds ++ rest)).dropWhile isSpace = 43 :: (ds ++ rest) := by
      rw [List.singleton_append, List.dropWhile_cons_of_neg]; decide
    simp only [Sign.bytes, this, hp, digitsValue]
  | none =>
    cases ds with
    | nil => exact absurd rfl hne
    | cons c t =>
      have hc : isDigit c = true := by
        simp only [allDigits, List.all_cons, Bool.and_eq_true] at hds; exact hds.1
      obtain ⟨hsp, h45, h43⟩ := isDigit_not_space hc
      have : ([] ++ (c :: t ++ rest)).dropWhile isSpace = c :: (t ++ rest) := by
        rw [List.nil_append, List.cons_append, List.dropWhile_cons_of_neg]; simp [hsp]
      simp only [Sign.bytes, this]
      have hp0 := hp 0
      rw [List.cons_append] at hp0
      split
      · rename_i heq; injection heq with h1 _; exact absurd h1 h45
      · rename_i heq; injection heq with h1 _; exact absurd h1 h43
      · rw [hp0]; rfl

theorem parseSigned_spelling (sp : Spelling) (hok : sp.ok = true) : parseSigned sp.bytes = sp.value := by
  have := parseSigned_spelling_append sp [] hok rfl
  rwa [List.append_nil] at this

/-! ## saturation -/

theorem saturate64_below {v : Int} (h : v < -2 ^ 63) : saturate64 v = -2 ^ 63 := by
  unfold saturate64; rw [if_pos h]

theorem saturate64_above {v : Int} (h : 2 ^ 63 ≤ v) : saturate64 v = 2 ^ 63 - 1 := by
  unfold saturate64; rw [if_neg (by omega), if_pos (by omega)]

/-- `strtoll(s, NULL, 10)` on a spelling, all three clauses of the C standard / glibc:
in range the value itself, below `LLONG_MIN`, above `LLONG_MAX`. -/
theorem strtollModel_spelling_append (sp : Spelling) (rest : List UInt8) (hok : sp.ok = true)
    (hs : stops rest = true) :
    (-2 ^ 63 ≤ sp.value → sp.value < 2 ^ 63 → strtollModel (sp.bytes ++ rest) = sp.value) ∧
    (sp.value < -2 ^ 63 → strtollModel (sp.bytes ++ rest) = -2 ^ 63) ∧
    (2 ^ 63 ≤ sp.value → strtollModel (sp.bytes ++ rest) = 2 ^ 63 - 1) := by
  unfold strtollModel
  rw [parseSigned_spelling_append sp rest hok hs]
  exact ⟨saturate64_of_range, saturate64_below, saturate64_above⟩

theorem strtollModel_spelling (sp : Spelling) (hok : sp.ok = true)
    (h1 : -2 ^ 63 ≤ sp.value) (h2 : sp.value < 2 ^ 63) : strtollModel sp.bytes = sp.value := by
  have := (strtollModel_spelling_append sp [] hok rfl).1 h1 h2
  rwa [List.append_nil] at this

/-- the `atoi` driver (`argToParam`): exact for values that fit a C `int` -/
theorem argToParam_spelling (sp : Spelling) (hok : sp.ok = true)
    (h1 : -2 ^ 31 ≤ sp.value) (h2 : sp.value < 2 ^ 31) : argToParam sp.bytes = sp.value := by
  rw [argToParam, strtollModel_spelling sp hok (by omega) (by omega), toInt_ofInt32_of_range h1 h2]

/-! ## `strtoll(s, NULL, 0)`: what the driver does NOT call -/

/-- value of a byte as a digit in bases up to 36 (`0-9`, `a-z`, `A-Z`) -/
def digitValOf (c : UInt8) : Option Nat :=
  if 48 ≤ c && c ≤ 57 then some (c.toNat - 48)
  else if 97 ≤ c && c ≤ 122 then some (c.toNat - 87)
  else if 65 ≤ c && c ≤ 90 then some (c.toNat - 55)
  else none

/-- accumulate digits of the given base, stop at the first byte that is no digit of that base -/
def parseDigitsB (base : Nat) : List UInt8 → Nat → Nat
  | [], acc => acc
  | c :: cs, acc =>
    match digitValOf c with
    | some d => if d < base then parseDigitsB base cs (acc * base + d) else acc
    | none => acc

/-- the magnitude with base detection as for `base = 0`: `0x`/`0X` + hex digit: hexadecimal; leading `0`:
octal; otherwise decimal -/
def parseMagnitude0 (t : List UInt8) : Nat :=
  match t with
  | 48 :: x :: h :: r =>
    if (x == 120 || x == 88) && (digitValOf h).any (· < 16) then parseDigitsB 16 (h :: r) 0
    else parseDigitsB 8 t 0
  | 48 :: _ => parseDigitsB 8 t 0
  | _ => parseDigitsB 10 t 0

/-- `strtoll(s, NULL, 0)` (glibc), saturating -/
def strtollBase0Model (s : List UInt8) : Int :=
  saturate64 (match s.dropWhile isSpace with
    | 45 :: t => -(parseMagnitude0 t : Int)
    | 43 :: t => (parseMagnitude0 t : Int)
    | t => (parseMagnitude0 t : Int))

/-- the generic digit loop at base ten is the model's `parseDigits` -/
theorem parseDigitsB_ten : ∀ (cs : List UInt8) (acc : Nat), parseDigitsB 10 cs acc = parseDigits cs acc := by
  intro cs
  induction cs with
  | nil => intro acc; rfl
  | cons c cs ih =>
    intro acc
    unfold parseDigitsB parseDigits
    by_cases hd : isDigit c = true
    · have h' : (48 ≤ c && c ≤ 57) = true := hd
      obtain ⟨hlt, _⟩ := digit_eq hd
      simp only [digitValOf, h', if_true, hd, hlt]
      exact ih _
    · have h' : (48 ≤ c && c ≤ 57) = false := by simpa [isDigit] using hd
      simp only [digitValOf, h', Bool.false_eq_true, if_false, hd]
      split
      · rename_i d hdv
        have : ¬ d < 10 := by
          split at hdv
          · rename_i hl
            simp only [Bool.and_eq_true, decide_eq_true_eq, UInt8.le_iff_toNat_le] at hl
            injection hdv with hdv
            have : (97 : UInt8).toNat = 97 := rfl
            omega
          · split at hdv
            · rename_i hl
              simp only [Bool.and_eq_true, decide_eq_true_eq, UInt8.le_iff_toNat_le] at hl
              injection hdv with hdv
              have : (65 : UInt8).toNat = 65 := rfl
              omega
            · cases hdv
        rw [if_neg this]
      · rfl

end Scc.Runtime
