/-
  Scc.Fun2Core.SizeProofs — proof of the size bound of the Fun → Core translation (C19-T1) for the
  model functions of `Scc.Fun2Core.Model`.
-/
import Scc.Fun2Core.Size

namespace Scc.Fun2Core
open Scc

/-- per-source-node budget `a * (v + b)` with `a = 3`, `b = 4` -/
def W (v : Nat) : Nat := 3 * (v + 4)

/-- "the state went from `st` to `st'` by lifting the definitions `new` (in front), and if every
newly lifted definition has at most `v` parameters then `out + size new ≤ n * W v + extra`" -/
def Grows (v n extra out : Nat) (st st' : CompileState) : Prop :=
  ∃ new, st'.liftedStatements = new ++ st.liftedStatements ∧
    ((∀ d ∈ new, d.ctx.length ≤ v) → out + defsSize new ≤ n * W v + extra)

theorem defsSize_append (a b : List Core.Def) : defsSize (a ++ b) = defsSize a + defsSize b := by
  induction a with
  | nil => simp [defsSize]
  | cons d ds ih => simp [defsSize, ih]; omega

theorem argsSize_snoc : ∀ (a : Core.Args) (pc : Core.PC) (t : Core.Term),
    argsSize (argsSnoc a pc t) = argsSize a + termSize t
  | .nil, pc, t => by simp [argsSnoc, argsSize]
  | .cons p x r, pc, t => by simp [argsSnoc, argsSize, argsSize_snoc r pc t]; omega

theorem argsSize_bindingsToArgs (bs : List Core.Binding) : argsSize (bindingsToArgs bs) = bs.length := by
  induction bs with
  | nil => rfl
  | cons b bs ih => simp [bindingsToArgs, argsSize, termSize, ih]; omega

theorem isLeaf_size {c : Core.Term} (h : isLeaf c = true) : termSize c ≤ 3 := by
  unfold isLeaf at h
  split at h <;> simp_all [termSize, stmtSize]

@[simp] theorem freshCovar_lifted (st : CompileState) :
    (freshCovar st).2.liftedStatements = st.liftedStatements := rfl
@[simp] theorem freshVar_lifted (st : CompileState) :
    (freshVar st).2.liftedStatements = st.liftedStatements := rfl

/-- what `share` does to sizes: one definition `d` is lifted; the returned consumer has size
`arity d + 2`; `d` has size at most `size cont + arity d + 3` -/
theorem share_size (c : Core.Term) (st : CompileState) :
    ∃ d, (share c st).2.liftedStatements = d :: st.liftedStatements ∧
      termSize (share c st).1 = d.ctx.length + 2 ∧
      defSize d ≤ termSize c + d.ctx.length + 3 := by
  unfold share
  split
  · refine ⟨_, rfl, ?_, ?_⟩
    · simp [termSize, stmtSize, argsSize_bindingsToArgs]; omega
    · simp [defSize, termSize]; omega
  · refine ⟨_, rfl, ?_, ?_⟩
    · simp [termSize, stmtSize, argsSize_bindingsToArgs]; omega
    · simp [defSize, termSize, stmtSize]; omega

theorem Grows.refl (v n extra out : Nat) (st : CompileState) (h : out ≤ n * W v + extra) :
    Grows v n extra out st st := ⟨[], by simp, fun _ => by simp [defsSize]; exact h⟩


theorem Grows.weaken {v n extra out n' extra' out' : Nat} {st st' : CompileState}
    (h : Grows v n extra out st st')
    (hw : ∀ D, out + D ≤ n * W v + extra → out' + D ≤ n' * W v + extra') :
    Grows v n' extra' out' st st' := by
  obtain ⟨new, h1, h2⟩ := h
  exact ⟨new, h1, fun ha => hw _ (h2 ha)⟩

theorem Grows.trans {v n1 e1 o1 n2 e2 o2 : Nat} {st st1 st2 : CompileState}
    (h1 : Grows v n1 e1 o1 st st1) (h2 : Grows v n2 e2 o2 st1 st2) :
    Grows v (n1 + n2) (e1 + e2) (o1 + o2) st st2 := by
  obtain ⟨new1, a1, b1⟩ := h1
  obtain ⟨new2, a2, b2⟩ := h2
  refine ⟨new2 ++ new1, by simp [a2, a1], fun ha => ?_⟩
  have c1 := b1 (fun d hd => ha d (by simp [hd]))
  have c2 := b2 (fun d hd => ha d (by simp [hd]))
  simp only [defsSize_append, Nat.add_mul]
  omega

theorem W_ge (v : Nat) : 3 * v + 12 ≤ W v := by unfold W; omega

/-- `if isLeaf c then (c, st) else share c st`, generalised over the test `b` -/
theorem shareIf_grows (v : Nat) (b : Bool) (c : Core.Term) (st : CompileState) :
    ∃ new, (if b then (c, st) else share c st).2.liftedStatements = new ++ st.liftedStatements ∧
      ((∀ d ∈ new, d.ctx.length ≤ v) →
        (b = false → termSize (if b then (c, st) else share c st).1 ≤ v + 2) ∧
        (b = true → (if b then (c, st) else share c st).1 = c) ∧
        defsSize new ≤ (if b then 0 else termSize c + v + 3)) := by
  cases b
  · obtain ⟨d, h1, h2, h3⟩ := share_size c st
    refine ⟨[d], by simp [h1], fun ha => ?_⟩
    have := ha d (by simp)
    simp [defsSize]
    omega
  · exact ⟨[], by simp, fun _ => by simp [defsSize]⟩


theorem funSize_pos (t : Fun.Term) : 1 ≤ funSize t := by
  cases t <;> simp [funSize] <;> omega

/-! ## the induction predicates -/

/-- `compile_with_cont`: output statement (+ 2 of slack) + newly lifted ≤ `|t| * W + |cont|` -/
def SizeCwc (v : Nat) (t : Fun.Term) : Prop :=
  ∀ c st s st', compileWithCont t c st = .ok (s, st') →
    Grows v (funSize t) (termSize c) (stmtSize s + 2) st st'
def SizeComp (v : Nat) (t : Fun.Term) : Prop :=
  ∀ ty st p st', compile t ty st = .ok (p, st') → Grows v (funSize t) 0 (termSize p) st st'
def SizeSubst (v : Nat) (args : Fun.Terms) : Prop :=
  ∀ st as st', compileSubst args st = .ok (as, st') →
    Grows v (funSizeArgs args) 0 (argsSize as) st st'
def SizeClauses (v : Nat) (cs : Fun.Clauses) : Prop :=
  ∀ cont st cs' st', compileClauses cs cont st = .ok (cs', st') →
    Grows v (funSizeClauses cs) (clausesLen cs * termSize cont)
      (clausesSize cs' + clausesLen cs * W v + (clausesNames cs).length * W v) st st'
def SizeCoclauses (v : Nat) (cs : Fun.Clauses) : Prop :=
  ∀ st cs' st', compileCoclauses cs st = .ok (cs', st') →
    Grows v (funSizeClauses cs) 0 (clausesSize cs') st st'

theorem Grows.of_lifted_eq {v n e o : Nat} {st0 st st' : CompileState}
    (h : st0.liftedStatements = st.liftedStatements) (g : Grows v n e o st0 st') :
    Grows v n e o st st' := by
  unfold Grows at *; rw [← h]; exact g

theorem sizeComp_default {v : Nat} {t : Fun.Term} (h : SizeCwc v t)
    (hd : ∀ ty st, compile t ty st = defaultCompile (compileWithCont t) ty st) : SizeComp v t := by
  intro ty st p st' hc
  rw [hd, defaultCompile_eq] at hc
  cases hx : compileWithCont t (.var .cns ⟨(freshCovar st).1, 0⟩ ty) (freshCovar st).2 with
  | error e => simp [hx] at hc
  | ok r =>
    obtain ⟨s, st1⟩ := r
    simp only [hx, Except.ok.injEq, Prod.mk.injEq] at hc
    obtain ⟨rfl, rfl⟩ := hc
    have g := Grows.of_lifted_eq (freshCovar_lifted st) (h _ _ _ _ hx)
    refine g.weaken fun D hD => ?_
    simp only [termSize] at *
    omega

/-- forms that override `compile` (op, constructor, new, label): from the tight bound
`|p| + lifted ≤ (|t| - 1) * W + 1` of `compile` both induction predicates follow -/
theorem size_of_tight {v : Nat} {t : Fun.Term} {m : Nat} (hm : funSize t = 1 + m)
    (hc : ∀ ty st p st', compile t ty st = .ok (p, st') → Grows v m 1 (termSize p) st st')
    (hcwc : ∀ c st, ∃ ty, compileWithCont t c st =
      (match compile t ty st with
        | .error e => .error e
        | .ok (p, st1) => .ok (.cut ty p c, st1)) ∨ (∃ e, compileWithCont t c st = .error e)) :
    SizeCwc v t ∧ SizeComp v t := by
  have hW := W_ge v
  refine ⟨fun c st s st' h => ?_, fun ty st p st' h => ?_⟩
  · obtain ⟨ty, h1 | ⟨e, h1⟩⟩ := hcwc c st
    · rw [h1] at h
      cases hx : compile t ty st with
      | error e => simp [hx] at h
      | ok r =>
        obtain ⟨p, st1⟩ := r
        simp only [hx, Except.ok.injEq, Prod.mk.injEq] at h
        obtain ⟨rfl, rfl⟩ := h
        refine (hc _ _ _ _ hx).weaken fun D hD => ?_
        simp only [stmtSize, hm, Nat.add_mul, Nat.one_mul] at *
        omega
    · rw [h1] at h; simp at h
  · refine (hc _ _ _ _ h).weaken fun D hD => ?_
    simp only [hm, Nat.add_mul, Nat.one_mul] at *
    omega

/-- the capture guard of `let` / `case`: every level of re-entry costs 3 more nodes -/
theorem guardedLvl_size {v n k X : Nat} {binders : List String} {ty : Option Fun.Ty} {site : String}
    {core : CwcFn}
    (hcore : ∀ c st s st', core c st = .ok (s, st') →
      Grows v n (termSize c + k) (stmtSize s + 2 + X) st st') :
    ∀ lvl c st s st', guardedLvl binders ty site core lvl c st = .ok (s, st') →
      Grows v n (termSize c + k + 3 * lvl) (stmtSize s + 2 + X) st st'
  | 0, c, st, s, st', h => by simp [guardedLvl_zero] at h
  | lvl + 1, c, st, s, st', h => by
    rw [guardedLvl_succ] at h
    split at h
    · cases ty with
      | none => simp at h
      | some t =>
        simp only [defaultCompile_eq] at h
        cases hx : guardedLvl binders (some t) site core lvl
            (.var .cns ⟨(freshCovar st).1, 0⟩ (compileTy t)) (freshCovar st).2 with
        | error e => simp [hx] at h
        | ok r =>
          obtain ⟨s1, st1⟩ := r
          simp only [hx, Except.ok.injEq, Prod.mk.injEq] at h
          obtain ⟨rfl, rfl⟩ := h
          have g := Grows.of_lifted_eq (freshCovar_lifted st) (guardedLvl_size hcore lvl _ _ _ _ hx)
          refine g.weaken fun D hD => ?_
          simp only [stmtSize, termSize] at *
          omega
    · refine (hcore _ _ _ _ h).weaken fun D hD => ?_
      omega

/-! ## C19-T1: the mutual induction -/

mutual
theorem size_term (v : Nat) : ∀ t : Fun.Term, SizeCwc v t ∧ SizeComp v t
  | .var x ty chi => by
    have hW := W_ge v
    refine ⟨fun c st s st' h => ?_, fun cty st p st' h => ?_⟩
    · rw [cwc_var] at h
      cases ty with
      | none => simp at h
      | some t =>
        simp only [Except.ok.injEq, Prod.mk.injEq] at h
        obtain ⟨rfl, rfl⟩ := h
        refine Grows.refl _ _ _ _ _ ?_
        simp only [stmtSize, termSize, funSize]; omega
    · rw [c_var] at h
      cases ty with
      | none => simp at h
      | some t =>
        simp only [Except.ok.injEq, Prod.mk.injEq] at h
        obtain ⟨rfl, rfl⟩ := h
        refine Grows.refl _ _ _ _ _ ?_
        simp only [termSize, funSize]; omega
  | .lit n => by
    have hW := W_ge v
    refine ⟨fun c st s st' h => ?_, fun cty st p st' h => ?_⟩
    · rw [cwc_lit] at h
      simp only [Except.ok.injEq, Prod.mk.injEq] at h
      obtain ⟨rfl, rfl⟩ := h
      refine Grows.refl _ _ _ _ _ ?_
      simp only [stmtSize, termSize, funSize]; omega
    · rw [c_lit] at h
      simp only [Except.ok.injEq, Prod.mk.injEq] at h
      obtain ⟨rfl, rfl⟩ := h
      refine Grows.refl _ _ _ _ _ ?_
      simp only [termSize, funSize]; omega
  | .op a o b => by
    have ha := (size_term v a).2
    have hb := (size_term v b).2
    refine size_of_tight (m := funSize a + funSize b) (by simp [funSize]; omega) ?_
      (fun c st => ⟨.i64, .inl (cwc_op a o b c st)⟩)
    intro cty st p st' h
    rw [c_op] at h
    cases hx : compile a .i64 st with
    | error e => simp [hx] at h
    | ok r =>
      obtain ⟨fst, st1⟩ := r
      simp only [hx] at h
      cases hy : compile b .i64 st1 with
      | error e => simp [hy] at h
      | ok r =>
        obtain ⟨snd, st2⟩ := r
        simp only [hy, Except.ok.injEq, Prod.mk.injEq] at h
        obtain ⟨rfl, rfl⟩ := h
        refine ((ha _ _ _ _ hx).trans (hb _ _ _ _ hy)).weaken fun D hD => ?_
        simp only [termSize, Nat.add_mul] at *
        omega
  | .ifc srt a b t e ty => by
    have ha := (size_term v a).2
    have hb := (size_term v b).2
    have ht := (size_term v t).1
    have he := (size_term v e).1
    have hcwc : SizeCwc v (.ifc srt a b t e ty) := by
      intro c st s st' h
      have hW := W_ge v
      rw [cwc_ifc] at h
      obtain ⟨new0, hn0, hb0⟩ := shareIf_grows v (isLeaf c) c st
      generalize (if isLeaf c then (c, st) else share c st) = r at h hn0 hb0
      cases hx : compile a .i64 r.2 with
      | error e => simp [hx] at h
      | ok r1 =>
        obtain ⟨fst, st1⟩ := r1
        simp only [hx] at h
        cases hy : compile b .i64 st1 with
        | error e => simp [hy] at h
        | ok r2 =>
          obtain ⟨snd, st2⟩ := r2
          simp only [hy] at h
          cases hz : compileWithCont t r.1 st2 with
          | error e => simp [hz] at h
          | ok r3 =>
            obtain ⟨thenc, st3⟩ := r3
            simp only [hz] at h
            cases hw : compileWithCont e r.1 st3 with
            | error e => simp [hw] at h
            | ok r4 =>
              obtain ⟨elsec, st4⟩ := r4
              simp only [hw, Except.ok.injEq, Prod.mk.injEq] at h
              obtain ⟨rfl, rfl⟩ := h
              obtain ⟨n1, e1, b1⟩ := ha _ _ _ _ hx
              obtain ⟨n2, e2, b2⟩ := hb _ _ _ _ hy
              obtain ⟨n3, e3, b3⟩ := ht _ _ _ _ hz
              obtain ⟨n4, e4, b4⟩ := he _ _ _ _ hw
              refine ⟨n4 ++ (n3 ++ (n2 ++ (n1 ++ new0))), by simp [e4, e3, e2, e1, hn0], fun hA => ?_⟩
              have c0 := hb0 (fun d hd => hA d (by simp [hd]))
              have c1 := b1 (fun d hd => hA d (by simp [hd]))
              have c2 := b2 (fun d hd => hA d (by simp [hd]))
              have c3 := b3 (fun d hd => hA d (by simp [hd]))
              have c4 := b4 (fun d hd => hA d (by simp [hd]))
              obtain ⟨c01, c02, c03⟩ := c0
              simp only [defsSize_append, stmtSize, funSize, Nat.add_mul, Nat.one_mul] at *
              cases hl : isLeaf c
              · have := c01 hl
                simp only [hl] at c03
                simp at c03
                omega
              · have := c02 hl
                have := isLeaf_size hl
                simp only [hl] at c03
                simp at c03
                subst_vars
                omega
    exact ⟨hcwc, sizeComp_default hcwc (fun _ _ => rfl)⟩
  | .ifz srt a t e ty => by
    have ha := (size_term v a).2
    have ht := (size_term v t).1
    have he := (size_term v e).1
    have hcwc : SizeCwc v (.ifz srt a t e ty) := by
      intro c st s st' h
      have hW := W_ge v
      rw [cwc_ifz] at h
      obtain ⟨new0, hn0, hb0⟩ := shareIf_grows v (isLeaf c) c st
      generalize (if isLeaf c then (c, st) else share c st) = r at h hn0 hb0
      cases hx : compile a .i64 r.2 with
      | error e => simp [hx] at h
      | ok r1 =>
        obtain ⟨fst, st1⟩ := r1
        simp only [hx] at h
        cases hz : compileWithCont t r.1 st1 with
        | error e => simp [hz] at h
        | ok r3 =>
          obtain ⟨thenc, st3⟩ := r3
          simp only [hz] at h
          cases hw : compileWithCont e r.1 st3 with
          | error e => simp [hw] at h
          | ok r4 =>
            obtain ⟨elsec, st4⟩ := r4
            simp only [hw, Except.ok.injEq, Prod.mk.injEq] at h
            obtain ⟨rfl, rfl⟩ := h
            obtain ⟨n1, e1, b1⟩ := ha _ _ _ _ hx
            obtain ⟨n3, e3, b3⟩ := ht _ _ _ _ hz
            obtain ⟨n4, e4, b4⟩ := he _ _ _ _ hw
            refine ⟨n4 ++ (n3 ++ (n1 ++ new0)), by simp [e4, e3, e1, hn0], fun hA => ?_⟩
            have c0 := hb0 (fun d hd => hA d (by simp [hd]))
            have c1 := b1 (fun d hd => hA d (by simp [hd]))
            have c3 := b3 (fun d hd => hA d (by simp [hd]))
            have c4 := b4 (fun d hd => hA d (by simp [hd]))
            obtain ⟨c01, c02, c03⟩ := c0
            simp only [defsSize_append, stmtSize, funSize, Nat.add_mul, Nat.one_mul] at *
            cases hl : isLeaf c
            · have := c01 hl
              simp only [hl] at c03
              simp at c03
              omega
            · have := c02 hl
              have := isLeaf_size hl
              simp only [hl] at c03
              simp at c03
              subst_vars
              omega
    exact ⟨hcwc, sizeComp_default hcwc (fun _ _ => rfl)⟩
  | .print nl a n ty => by
    have ha := (size_term v a).2
    have hn := (size_term v n).1
    have hcwc : SizeCwc v (.print nl a n ty) := by
      intro c st s st' h
      have hW := W_ge v
      rw [cwc_print] at h
      cases hx : compile a .i64 st with
      | error e => simp [hx] at h
      | ok r1 =>
        obtain ⟨arg, st1⟩ := r1
        simp only [hx] at h
        cases hy : compileWithCont n c st1 with
        | error e => simp [hy] at h
        | ok r2 =>
          obtain ⟨next, st2⟩ := r2
          simp only [hy, Except.ok.injEq, Prod.mk.injEq] at h
          obtain ⟨rfl, rfl⟩ := h
          refine ((ha _ _ _ _ hx).trans (hn _ _ _ _ hy)).weaken fun D hD => ?_
          simp only [stmtSize, funSize, Nat.add_mul, Nat.one_mul] at *
          omega
    exact ⟨hcwc, sizeComp_default hcwc (fun _ _ => rfl)⟩
  | .letIn x varTy bound body ty => by
    have hbc := (size_term v bound).1
    have hbp := (size_term v bound).2
    have hi := (size_term v body).1
    have hcore : ∀ c st s st', letCore x varTy bound body c st = .ok (s, st') →
        Grows v (funSize bound + funSize body) (termSize c + 2) (stmtSize s + 2 + 0) st st' := by
      intro c st s st' h
      unfold letCore at h
      cases hx : compileWithCont body c st with
      | error e => simp [hx] at h
      | ok r1 =>
        obtain ⟨inStmt, st1⟩ := r1
        simp only [hx] at h
        split at h
        · cases hy : compile bound (compileTy varTy) st1 with
          | error e => simp [hy] at h
          | ok r2 =>
            obtain ⟨p, st2⟩ := r2
            simp only [hy, Except.ok.injEq, Prod.mk.injEq] at h
            obtain ⟨rfl, rfl⟩ := h
            refine ((hi _ _ _ _ hx).trans (hbp _ _ _ _ hy)).weaken fun D hD => ?_
            simp only [stmtSize, termSize, Nat.add_mul] at *
            omega
        · refine ((hi _ _ _ _ hx).trans (hbc _ _ _ _ h)).weaken fun D hD => ?_
          simp only [termSize, Nat.add_mul] at *
          omega
    have hcwc : SizeCwc v (.letIn x varTy bound body ty) := by
      intro c st s st' h
      have hW := W_ge v
      rw [cwc_letIn] at h
      refine (guardedLvl_size hcore _ _ _ _ _ h).weaken fun D hD => ?_
      simp only [funSize, List.length_cons, List.length_nil, Nat.add_mul, Nat.one_mul] at *
      omega
    exact ⟨hcwc, sizeComp_default hcwc (fun _ _ => rfl)⟩
  | .call name args retTy => by
    have hs := size_subst v args
    have hcwc : SizeCwc v (.call name args retTy) := by
      intro c st s st' h
      have hW := W_ge v
      rw [cwc_call] at h
      cases hx : compileSubst args st with
      | error e => simp [hx] at h
      | ok r1 =>
        obtain ⟨args', st1⟩ := r1
        simp only [hx] at h
        cases retTy with
        | none => simp at h
        | some t =>
          simp only [Except.ok.injEq, Prod.mk.injEq] at h
          obtain ⟨rfl, rfl⟩ := h
          refine (hs _ _ _ hx).weaken fun D hD => ?_
          simp only [stmtSize, argsSize_snoc, funSize, Nat.add_mul, Nat.one_mul] at *
          omega
    exact ⟨hcwc, sizeComp_default hcwc (fun _ _ => rfl)⟩
  | .ctor id args ty => by
    have hs := size_subst v args
    refine size_of_tight (m := funSizeArgs args) (by simp [funSize]) ?_ ?_
    · intro cty st p st' h
      rw [c_ctor] at h
      cases hx : compileSubst args st with
      | error e => simp [hx] at h
      | ok r1 =>
        obtain ⟨args', st1⟩ := r1
        simp only [hx] at h
        cases ty with
        | none => simp at h
        | some t =>
          simp only [Except.ok.injEq, Prod.mk.injEq] at h
          obtain ⟨rfl, rfl⟩ := h
          refine (hs _ _ _ hx).weaken fun D hD => ?_
          simp only [termSize] at *
          omega
    · intro c st
      cases ty with
      | none => exact ⟨.i64, .inr ⟨_, rfl⟩⟩
      | some t => exact ⟨compileTy t, .inl (cwc_ctor id args (some t) c st)⟩
  | .dtor scrutinee id tyArgs args ty => by
    have hs := size_subst v args
    have hsc := (size_term v scrutinee).1
    have hcwc : SizeCwc v (.dtor scrutinee id tyArgs args ty) := by
      intro c st s st' h
      have hW := W_ge v
      rw [cwc_dtor] at h
      cases hx : compileSubst args st with
      | error e => simp [hx] at h
      | ok r1 =>
        obtain ⟨args', st1⟩ := r1
        simp only [hx] at h
        cases hg : getType scrutinee with
        | none => simp [hg] at h
        | some t =>
          simp only [hg] at h
          refine ((hs _ _ _ hx).trans (hsc _ _ _ _ h)).weaken fun D hD => ?_
          simp only [termSize, argsSize_snoc, funSize, Nat.add_mul, Nat.one_mul] at *
          omega
    exact ⟨hcwc, sizeComp_default hcwc (fun _ _ => rfl)⟩
  | .case scrutinee tyArgs clauses ty => by
    have hcl := size_clauses v clauses
    have hsc := (size_term v scrutinee).1
    have hcore : ∀ c st s st', caseCore scrutinee clauses c st = .ok (s, st') →
        Grows v (funSize scrutinee + funSizeClauses clauses) (termSize c + (v + 4))
          (stmtSize s + 2 + (clausesNames clauses).length * W v) st st' := by
      intro c st s st' h
      have hW := W_ge v
      unfold caseCore at h
      obtain ⟨new0, hn0, hb0⟩ := shareIf_grows v (decide (clausesLen clauses ≤ 1) || isLeaf c) c st
      generalize (if (decide (clausesLen clauses ≤ 1) || isLeaf c) = true then (c, st)
        else share c st) = r at h hn0 hb0
      cases hx : compileClauses clauses r.1 r.2 with
      | error e => simp [hx] at h
      | ok r1 =>
        obtain ⟨cs, st1⟩ := r1
        simp only [hx] at h
        cases hg : getType scrutinee with
        | none => simp [hg] at h
        | some t =>
          simp only [hg] at h
          obtain ⟨n1, e1, b1⟩ := hcl _ _ _ _ hx
          obtain ⟨n2, e2, b2⟩ := hsc _ _ _ _ h
          refine ⟨n2 ++ (n1 ++ new0), by simp [e2, e1, hn0], fun hA => ?_⟩
          have c0 := hb0 (fun d hd => hA d (by simp [hd]))
          have c1 := b1 (fun d hd => hA d (by simp [hd]))
          have c2 := b2 (fun d hd => hA d (by simp [hd]))
          obtain ⟨c01, c02, c03⟩ := c0
          simp only [defsSize_append, termSize, Nat.add_mul] at *
          cases hl : (decide (clausesLen clauses ≤ 1) || isLeaf c)
          · have h5 := c01 hl
            simp only [hl] at c03
            simp at c03
            have : clausesLen clauses * termSize r.1 ≤ clausesLen clauses * W v :=
              Nat.mul_le_mul_left _ (by omega)
            omega
          · have h5 := c02 hl
            simp only [hl] at c03
            simp at c03
            rw [h5] at c1
            simp only [Bool.or_eq_true, decide_eq_true_eq] at hl
            rcases hl with hk | hk
            · have : clausesLen clauses = 0 ∨ clausesLen clauses = 1 := by omega
              rcases this with h0 | h0 <;> simp only [h0, Nat.zero_mul, Nat.one_mul] at * <;> omega
            · have h6 := isLeaf_size hk
              have : clausesLen clauses * termSize c ≤ clausesLen clauses * W v :=
                Nat.mul_le_mul_left _ (by omega)
              omega
    have hcwc : SizeCwc v (.case scrutinee tyArgs clauses ty) := by
      intro c st s st' h
      have hW := W_ge v
      rw [cwc_case] at h
      have hb : (clausesNames clauses).length * 3 ≤ (clausesNames clauses).length * W v :=
        Nat.mul_le_mul_left _ (by omega)
      refine (guardedLvl_size hcore _ _ _ _ _ h).weaken fun D hD => ?_
      simp only [funSize, Nat.add_mul, Nat.one_mul, Nat.mul_add] at *
      omega
    exact ⟨hcwc, sizeComp_default hcwc (fun _ _ => rfl)⟩
  | .new clauses ty => by
    have hs := size_coclauses v clauses
    refine size_of_tight (m := funSizeClauses clauses) (by simp [funSize]) ?_ ?_
    · intro cty st p st' h
      rw [c_new] at h
      cases hx : compileCoclauses clauses st with
      | error e => simp [hx] at h
      | ok r1 =>
        obtain ⟨cs, st1⟩ := r1
        simp only [hx] at h
        cases ty with
        | none => simp at h
        | some t =>
          simp only [Except.ok.injEq, Prod.mk.injEq] at h
          obtain ⟨rfl, rfl⟩ := h
          refine (hs _ _ _ hx).weaken fun D hD => ?_
          simp only [termSize] at *
          omega
    · intro c st
      cases ty with
      | none => exact ⟨.i64, .inr ⟨_, rfl⟩⟩
      | some t => exact ⟨compileTy t, .inl (cwc_new clauses (some t) c st)⟩
  | .goto target t ty => by
    have ht := (size_term v t).1
    have hcwc : SizeCwc v (.goto target t ty) := by
      intro c st s st' h
      have hW := W_ge v
      rw [cwc_goto] at h
      cases hg : getType t with
      | none => simp [hg] at h
      | some gty =>
        simp only [hg] at h
        refine (ht _ _ _ _ h).weaken fun D hD => ?_
        simp only [termSize, funSize, Nat.add_mul, Nat.one_mul] at *
        omega
    exact ⟨hcwc, sizeComp_default hcwc (fun _ _ => rfl)⟩
  | .label a t ty => by
    have ht := (size_term v t).1
    refine size_of_tight (m := funSize t) (by simp [funSize]) ?_ ?_
    · intro cty st p st' h
      rw [c_label] at h
      cases ty with
      | none => simp at h
      | some lty =>
        simp only at h
        cases hx : compileWithCont t (.var .cns ⟨a, 0⟩ (compileTy lty)) st with
        | error e => simp [hx] at h
        | ok r1 =>
          obtain ⟨s, st1⟩ := r1
          simp only [hx, Except.ok.injEq, Prod.mk.injEq] at h
          obtain ⟨rfl, rfl⟩ := h
          refine (ht _ _ _ _ hx).weaken fun D hD => ?_
          simp only [termSize] at *
          omega
    · intro c st
      cases ty with
      | none => exact ⟨.i64, .inr ⟨_, rfl⟩⟩
      | some t' => exact ⟨compileTy t', .inl (cwc_label a t (some t') c st)⟩
  | .exit arg ty => by
    have ha := (size_term v arg).2
    have hcwc : SizeCwc v (.exit arg ty) := by
      intro c st s st' h
      have hW := W_ge v
      rw [cwc_exit] at h
      cases hx : compile arg .i64 st with
      | error e => simp [hx] at h
      | ok r1 =>
        obtain ⟨a, st1⟩ := r1
        simp only [hx] at h
        cases ty with
        | none => simp at h
        | some t =>
          simp only [Except.ok.injEq, Prod.mk.injEq] at h
          obtain ⟨rfl, rfl⟩ := h
          refine (ha _ _ _ _ hx).weaken fun D hD => ?_
          simp only [stmtSize, funSize, Nat.add_mul, Nat.one_mul] at *
          omega
    exact ⟨hcwc, sizeComp_default hcwc (fun _ _ => rfl)⟩
  | .paren inner => by
    have hi := size_term v inner
    refine ⟨fun c st s st' h => ?_, fun cty st p st' h => ?_⟩
    · rw [cwc_paren] at h
      refine (hi.1 _ _ _ _ h).weaken fun D hD => ?_
      simp only [funSize, Nat.add_mul, Nat.one_mul] at *
      omega
    · rw [c_paren] at h
      refine (hi.2 _ _ _ _ h).weaken fun D hD => ?_
      simp only [funSize, Nat.add_mul, Nat.one_mul] at *
      omega
theorem size_subst (v : Nat) : ∀ args : Fun.Terms, SizeSubst v args
  | .nil => by
    intro st as st' h
    rw [subst_nil] at h
    simp only [Except.ok.injEq, Prod.mk.injEq] at h
    obtain ⟨rfl, rfl⟩ := h
    exact Grows.refl _ _ _ _ _ (by simp [argsSize])
  | .cons term rest => by
    have ht := (size_term v term).2
    have hr := size_subst v rest
    intro st as st' h
    have hW := W_ge v
    have hpos : 1 ≤ funSize term * W v :=
      Nat.le_trans (by omega : 1 ≤ 1 * W v) (Nat.mul_le_mul_right _ (funSize_pos term))
    rw [subst_cons] at h
    cases hc : covarArg term with
    | some xt =>
      obtain ⟨x, ty⟩ := xt
      simp only [hc] at h
      cases ty with
      | none => simp at h
      | some t =>
        simp only at h
        cases hx : compileSubst rest st with
        | error e => simp [hx] at h
        | ok r1 =>
          obtain ⟨r, st1⟩ := r1
          simp only [hx, Except.ok.injEq, Prod.mk.injEq] at h
          obtain ⟨rfl, rfl⟩ := h
          refine (hr _ _ _ hx).weaken fun D hD => ?_
          simp only [argsSize, termSize, funSizeArgs, Nat.add_mul] at *
          omega
    | none =>
      simp only [hc] at h
      cases hg : getType term with
      | none => simp [hg] at h
      | some t =>
        simp only [hg] at h
        cases hx : compile term (compileTy t) st with
        | error e => simp [hx] at h
        | ok r1 =>
          obtain ⟨p, st1⟩ := r1
          simp only [hx] at h
          cases hy : compileSubst rest st1 with
          | error e => simp [hy] at h
          | ok r2 =>
            obtain ⟨r, st2⟩ := r2
            simp only [hy, Except.ok.injEq, Prod.mk.injEq] at h
            obtain ⟨rfl, rfl⟩ := h
            refine ((ht _ _ _ _ hx).trans (hr _ _ _ hy)).weaken fun D hD => ?_
            simp only [argsSize, funSizeArgs, Nat.add_mul] at *
            omega
theorem size_clauses (v : Nat) : ∀ cs : Fun.Clauses, SizeClauses v cs
  | .nil => by
    intro cont st cs' st' h
    rw [clauses_nil] at h
    simp only [Except.ok.injEq, Prod.mk.injEq] at h
    obtain ⟨rfl, rfl⟩ := h
    exact Grows.refl _ _ _ _ _ (by simp [clausesSize, clausesLen, clausesNames])
  | .cons pol xtor names ctx body rest => by
    have hb := (size_term v body).1
    have hr := size_clauses v rest
    intro cont st cs' st' h
    have hW := W_ge v
    have hctx : ctx.length ≤ ctx.length * W v := Nat.le_mul_of_pos_right _ (by omega)
    rw [clauses_cons] at h
    cases hx : compileWithCont body cont st with
    | error e => simp [hx] at h
    | ok r1 =>
      obtain ⟨b, st1⟩ := r1
      simp only [hx] at h
      cases hy : compileClauses rest cont st1 with
      | error e => simp [hy] at h
      | ok r2 =>
        obtain ⟨r, st2⟩ := r2
        simp only [hy, Except.ok.injEq, Prod.mk.injEq] at h
        obtain ⟨rfl, rfl⟩ := h
        refine ((hb _ _ _ _ hx).trans (hr _ _ _ _ hy)).weaken fun D hD => ?_
        simp only [clausesSize, clausesLen, clausesNames, funSizeClauses, compileContext,
          List.length_map, List.length_append, Nat.add_mul, Nat.one_mul] at *
        omega
theorem size_coclauses (v : Nat) : ∀ cs : Fun.Clauses, SizeCoclauses v cs
  | .nil => by
    intro st cs' st' h
    rw [coclauses_nil] at h
    simp only [Except.ok.injEq, Prod.mk.injEq] at h
    obtain ⟨rfl, rfl⟩ := h
    exact Grows.refl _ _ _ _ _ (by simp [clausesSize])
  | .cons pol xtor names ctx body rest => by
    have hb := (size_term v body).1
    have hr := size_coclauses v rest
    intro st cs' st' h
    have hW := W_ge v
    have hctx : ctx.length ≤ ctx.length * W v := Nat.le_mul_of_pos_right _ (by omega)
    rw [coclauses_cons] at h
    cases hg : getType body with
    | none => simp [hg] at h
    | some t =>
      simp only [hg] at h
      cases hx : compileWithCont body (.var .cns ⟨(freshCovar st).1, 0⟩ (compileTy t))
          (freshCovar st).2 with
      | error e => simp [hx] at h
      | ok r1 =>
        obtain ⟨b, st1⟩ := r1
        simp only [hx] at h
        cases hy : compileCoclauses rest st1 with
        | error e => simp [hy] at h
        | ok r2 =>
          obtain ⟨r, st2⟩ := r2
          simp only [hy, Except.ok.injEq, Prod.mk.injEq] at h
          obtain ⟨rfl, rfl⟩ := h
          have g1 := Grows.of_lifted_eq (freshCovar_lifted st) (hb _ _ _ _ hx)
          refine (g1.trans (hr _ _ _ hy)).weaken fun D hD => ?_
          simp only [clausesSize, termSize, funSizeClauses, compileContext, List.length_map,
            List.length_append, List.length_cons, List.length_nil, Nat.add_mul, Nat.one_mul] at *
          omega
end


/-! ## definitions and programs -/

theorem compileWithCont_size (v : Nat) {t : Fun.Term} {c st s st'}
    (h : compileWithCont t c st = .ok (s, st')) :
    Grows v (funSize t) (termSize c) (stmtSize s + 2) st st' :=
  (size_term v t).1 c st s st' h

theorem compileDef_size (v : Nat) {d cts l r} (h : compileDef d cts l = .ok r)
    (hA : ∀ d' ∈ r.1, d'.ctx.length ≤ v) : defsSize r.1 ≤ funDefSize d * W v := by
  have hW := W_ge v
  have hctx : d.ctx.length ≤ d.ctx.length * W v := Nat.le_mul_of_pos_right _ (by omega)
  unfold compileDef at h
  simp only at h
  split at h
  · simp at h
  · split at h
    · simp at h
    · rename_i body st' hx
      simp only [Except.ok.injEq] at h
      subst h
      obtain ⟨new, e, b⟩ := compileWithCont_size v hx
      simp only [freshCovar_lifted, List.append_nil] at e
      have hb := b (fun d' hd' => hA d' (by simp [e, hd']))
      simp only [defsSize, defSize, e, funDefSize, termSize, compileContext, List.length_append,
        List.length_map, List.length_cons, List.length_nil, Nat.add_mul, Nat.one_mul] at *
      omega

theorem compileMain_size (v : Nat) {d cts l r} (h : compileMain d cts l = .ok r)
    (hA : ∀ d' ∈ r.1, d'.ctx.length ≤ v) : defsSize r.1 ≤ funDefSize d * W v := by
  have hW := W_ge v
  have hctx : d.ctx.length ≤ d.ctx.length * W v := Nat.le_mul_of_pos_right _ (by omega)
  unfold compileMain at h
  simp only at h
  split at h
  · simp at h
  · split at h
    · simp at h
    · rename_i body st' hx
      simp only [Except.ok.injEq] at h
      subst h
      obtain ⟨new, e, b⟩ := compileWithCont_size v hx
      simp only [freshVar_lifted, List.append_nil] at e
      have hb := b (fun d' hd' => hA d' (by simp [e, hd']))
      simp only [defsSize, defSize, e, funDefSize, termSize, stmtSize, compileContext,
        List.length_map, Nat.add_mul, Nat.one_mul] at *
      omega

theorem compileDefs_acc_subset (cts : List Core.TypeDecl) :
    ∀ (rest : List Fun.Def) (l : List String) (acc out : List Core.Def),
      compileDefs cts rest l acc = .ok out → ∀ d ∈ acc, d ∈ out
  | [], l, acc, out, h => by
    simp only [compileDefs, Except.ok.injEq] at h
    subst h; exact fun d hd => hd
  | d :: rest, l, acc, out, h => by
    unfold compileDefs at h
    split at h
    · cases hm : compileMain d cts l with
      | error e => simp [hm] at h
      | ok r =>
        simp only [hm] at h
        exact fun d' hd' => compileDefs_acc_subset cts rest _ _ out h d' (by simp [hd'])
    · cases hm : compileDef d cts l with
      | error e => simp [hm] at h
      | ok r =>
        simp only [hm] at h
        exact fun d' hd' => compileDefs_acc_subset cts rest _ _ out h d' (by simp [hd'])

theorem compileDefs_size (v : Nat) (cts : List Core.TypeDecl) :
    ∀ (rest : List Fun.Def) (l : List String) (acc out : List Core.Def),
      compileDefs cts rest l acc = .ok out → (∀ d ∈ out, d.ctx.length ≤ v) →
      defsSize out ≤ defsSize acc + funDefsSize rest * W v
  | [], l, acc, out, h, _ => by
    simp only [compileDefs, Except.ok.injEq] at h
    subst h; simp [funDefsSize]
  | d :: rest, l, acc, out, h, hA => by
    unfold compileDefs at h
    split at h
    · cases hm : compileMain d cts l with
      | error e => simp [hm] at h
      | ok r =>
        simp only [hm] at h
        have hsub := compileDefs_acc_subset cts rest _ _ out h
        have h1 := compileMain_size v hm (fun d' hd' => hA d' (hsub d' (by simp [hd'])))
        have h2 := compileDefs_size v cts rest _ _ out h hA
        simp only [defsSize_append, funDefsSize, Nat.add_mul] at *
        omega
    · cases hm : compileDef d cts l with
      | error e => simp [hm] at h
      | ok r =>
        simp only [hm] at h
        have hsub := compileDefs_acc_subset cts rest _ _ out h
        have h1 := compileDef_size v hm (fun d' hd' => hA d' (hsub d' (by simp [hd'])))
        have h2 := compileDefs_size v cts rest _ _ out h hA
        simp only [defsSize_append, funDefsSize, Nat.add_mul] at *
        omega

/-- program level: if every definition of the output has at most `v` parameters then
`|S2| ≤ |S1| * 3 * (v + 4)` -/
theorem compileProg_size (v : Nat) {p : Fun.CheckedProgram} {q : Core.Prog}
    (h : compileProg p = .ok q) (hA : ∀ d ∈ q.defs, d.ctx.length ≤ v) :
    progSize q ≤ funProgSize p * W v := by
  unfold compileProg at h
  simp only at h
  split at h
  · simp at h
  · rename_i defs hd
    simp only [Except.ok.injEq] at h
    subst h
    have := compileDefs_size v _ _ _ _ _ hd hA
    simpa [progSize, funProgSize, defsSize] using this

end Scc.Fun2Core
