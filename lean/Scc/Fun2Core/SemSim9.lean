/-
  Scc.Fun2Core.SemSim9 — simulation of `let`, `case`, `label`, `goto` and parentheses.
-/
import Scc.Fun2Core.SemSim8

namespace Scc.Fun2Core.Sem
open Scc

variable {q : Core.Prog} {p : Fun.CheckedProgram}

theorem f2c_isCodata_eq (ty : Core.Ty) (cts : List Core.TypeDecl) :
    Fun2Core.isCodata ty cts = Core.isCodata cts ty := by
  cases ty <;> rfl

theorem step_let_nc (p : Fun.CheckedProgram) (x vt bound body lty env k)
    (h : Fun.isCodataTy p vt = false) :
    Fun.step p (.eval (.letIn x vt bound body lty) env k) =
      .next (.eval bound env (.letF x body env :: k)) none := by
  simp [step_eval, Fun.evalStep, h]

theorem step_let_cd (p : Fun.CheckedProgram) (x vt bound body lty env k)
    (h : Fun.isCodataTy p vt = true) :
    Fun.step p (.eval (.letIn x vt bound body lty) env k) =
      (match Fun.suspend bound env with
        | .ok v => .next (.eval body ((x, v) :: env) k) none
        | .error w => .stuck w) := by
  simp only [step_eval, Fun.evalStep, h, if_true]
  cases Fun.suspend bound env <;> rfl

/-- `let x = bound; body` -/
theorem eval_let (X : Ctx p q) {x : String} {vt : Fun.Ty} {bound body : Fun.Term}
    {lty : Option Fun.Ty} {env : Fun.Env} {k : Fun.Stack} {c : Core.Term} {s : Core.Stmt}
    {ρ0 ρ : CEnv} {out : Out} {n : Nat} (hg : good p (.letIn x vt bound body lty) = true)
    (hc : Compiled q n (.letIn x vt bound body lty) c s)
    (he : EnvRel (GP p) p q n (fv (.letIn x vt bound body lty)) env ρ0) (hr : CRel (GP p) p q n k c ρ0)
    (hbd : BoundOn (tfvStmt s []) ρ0) (hag : AgreeOn (tfvStmt s []) ρ0 ρ)
    (hT : STM p (.eval (.letIn x vt bound body lty) env k)) :
    Chunk p q (R p q) true true (funSize (.letIn x vt bound body lty)) (.eval (.letIn x vt bound body lty) env k) ⟨s, ρ, out, n⟩ := by
  simp only [good, Bool.and_eq_true] at hg
  obtain ⟨⟨hnct, hgi⟩, hgb⟩ := hg
  obtain ⟨t0, hlty⟩ := annO_some hnct
  have hkind : Core.isCodata q.codataTypes (compileTy t0) = kkind k := by
    obtain ⟨τ2, h1, h2⟩ := X.kind hT
    simp only [getType] at h1
    rw [hlty] at h1; cases h1
    exact h2
  obtain ⟨st, st', hcwc, hst, htn, hcn⟩ := hc
  rw [cwc_letIn] at hcwc
  have hxu : ∀ y ∈ [x], y ∈ st.usedVars := fun y hy =>
    htn.bd y (by simp only [List.mem_singleton] at hy; subst hy; simp [binderNames])
  -- common part of the two cases: the translation of the body
  have hbody : ∀ (n : Nat) c' st1 s' , letCore x vt bound body c' st1 = .ok (s', st') → FS st st1 →
      ConsNames c' st1 n →
      ∃ inStmt st2, compileWithCont body c' st1 = .ok (inStmt, st2) ∧ FS st2 st' ∧
        Compiled q n body c' inStmt ∧ TermNames bound st2 ∧ StOK q st2 ∧
        (if Fun.isCodataTy p vt = true then
          ∃ P, compile bound (compileTy vt) st2 = .ok (P, st') ∧
            s' = .cut (compileTy vt) P (.mu .cns ⟨x, 0⟩ (compileTy vt) inStmt)
        else compileWithCont bound (.mu .cns ⟨x, 0⟩ (compileTy vt) inStmt) st2 = .ok (s', st')) ∧
        ConsNames (.mu .cns ⟨x, 0⟩ (compileTy vt) inStmt) st2 n := by
    intro n c' st1 s' hcore hfs hcn'
    unfold letCore at hcore
    cases hcb : compileWithCont body c' st1 with
    | error e => simp [hcb] at hcore
    | ok rb =>
      obtain ⟨inStmt, st2⟩ := rb
      simp only [hcb] at hcore
      have f2' : FS st2 st' := by
        by_cases hcd : Fun2Core.isCodata (compileTy vt) st2.codataTypes = true
        · rw [if_pos hcd] at hcore
          cases hcc : compile bound (compileTy vt) st2 with
          | error e => simp [hcc] at hcore
          | ok r =>
            obtain ⟨P, st3⟩ := r
            simp only [hcc, Except.ok.injEq, Prod.mk.injEq] at hcore
            obtain ⟨_, rfl⟩ := hcore
            exact fs_compile hcc
        · rw [if_neg hcd] at hcore
          exact fs_cwc hcore
      have hcod2 : Fun2Core.isCodata (compileTy vt) st2.codataTypes = Fun.isCodataTy p vt := by
        rw [f2c_isCodata_eq, ← f2'.1.codata, hst.2, X.cod vt]
      rw [hcod2] at hcore
      have f12 := fs_cwc hcb
      have hst2 := hst.of_fresh f2'.1
      have f02 : FS st st2 := fs_stepRel.trans hfs f12
      have tnbody : TermNames body st1 :=
        ⟨fun y hy => by
            by_cases hyx : y = x
            · exact hfs.sub y (htn.bd y (by simp [binderNames, hyx]))
            · exact hfs.sub y (htn.fv y (by simp [fv, hy, hyx])),
          fun y hy => hfs.sub y (htn.bd y (by simp [binderNames, hy])), hfs.2 htn.nosig⟩
      have tnbound : TermNames bound st2 := htn.of_sub (fun y hy => by simp [fv, hy])
        (fun y hy => by simp [binderNames, hy]) f02
      refine ⟨inStmt, st2, rfl, f2', ⟨st1, st2, hcb, hst2, tnbody, hcn'⟩, tnbound, hst2, ?_,
        consNames_mu hcb tnbody hcn' _ _⟩
      by_cases hcd : Fun.isCodataTy p vt = true
      · rw [if_pos hcd] at hcore ⊢
        cases hcc : compile bound (compileTy vt) st2 with
        | error e => simp [hcc] at hcore
        | ok r =>
          obtain ⟨P, st3⟩ := r
          simp only [hcc, Except.ok.injEq, Prod.mk.injEq] at hcore
          obtain ⟨rfl, rfl⟩ := hcore
          exact ⟨P, rfl, rfl⟩
      · rw [if_neg hcd] at hcore ⊢
        exact hcore
  by_cases hcd : Fun.isCodataTy p vt = true
  · -- by name: the bound term is a variable or a `new`
    rw [if_pos hcd] at hgb
    simp only [Bool.and_eq_true] at hgb
    obtain ⟨hgpb, hpsb⟩ := hgb
    refine guard_sim X (fv (.letIn x vt bound body lty)) hcwc hlty hkind htn.nosig hxu htn.fv hcn he hr hbd hag ?_
    intro n c' st1 s' ρ0' ρ' _ hcore hfs hcn' hyg he' hr' hbd' hag'
    obtain ⟨inStmt, st2, hcb, f2', hcbody, tnbound, hst2, hshape, hcnmu⟩ := hbody n c' st1 s' hcore hfs hcn'
    rw [if_pos hcd] at hshape
    obtain ⟨P, hcP, rfl⟩ := hshape
    have hstep := step_let_cd p x vt bound body lty env k hcd
    have hebound : EnvRel (GP p) p q n (fv bound) env ρ0' := he'.sub fun y hy => by simp [fv, hy]
    have hbdP : BoundOn (tfvTerm P []) ρ0' := hbd'.mono fun y hy => mem_tfv_cut.2 (.inl hy)
    have hagP : AgreeOn (tfvTerm P []) ρ0' ρ' := hag'.mono fun y hy => mem_tfv_cut.2 (.inl hy)
    cases hpv : pureVal p bound env with
    | none =>
      have hs' : exceptToOption (Fun.suspend bound env) = none := by
        rw [suspend_pure (p := p) bound env hpsb]; exact hpv
      cases hsu : Fun.suspend bound env with
      | ok v => simp [hsu, exceptToOption] at hs'
      | error w =>
        rw [hsu] at hstep
        exact .inl ⟨0, _, .stuck w, .refl _, by rw [hstep]; rfl,
          fun hf => absurd hf (bad_not_finished (suspend_error_bad bound env w hsu))⟩
    | some v =>
      have hs' : exceptToOption (Fun.suspend bound env) = some v := by
        rw [suspend_pure (p := p) bound env hpsb]; exact hpv
      have hsu : Fun.suspend bound env = .ok v := by
        cases hsu : Fun.suspend bound env with
        | ok v' => simp only [hsu, exceptToOption, Option.some.injEq] at hs'; rw [hs']
        | error w => simp [hsu, exceptToOption] at hs'
      rw [hsu] at hstep
      have hPV := core_pure (p := p) (goodClauses p) (goodClauses_find p) bound
        (goodP_pureFO p bound hgpb) env v _ st2 P st' n ρ0' ρ' n hcP hst tnbound hpv hebound hbdP hagP
      -- the Core machine evaluates the producer and binds `x`
      have hreach : ∃ i ρ2 n2 V, CSteps q
          ⟨.cut (compileTy vt) P (.mu .cns ⟨x, 0⟩ (compileTy vt) inStmt), ρ', out, n⟩
          ⟨inStmt, (⟨x, 0⟩, V) :: ρ2, out, n2⟩ i ∧ n ≤ n2 ∧ SigExt n ρ' ρ2 ∧ VRel (GP p) p q n v V := by
        cases hPv : P.isVar with
        | true =>
          cases P with
          | var pc z ty =>
            obtain ⟨_, _, V, hl, hvr⟩ := hPV.var pc z ty rfl
            have hs := step_cut_bind (q := q) (cty := compileTy vt) (ty := compileTy vt) (x := ⟨x, 0⟩)
              (s := inStmt) (A := .var pc z ty) (ρ := ρ') (out := out) (n := n) rfl
              (by simpa [Core.prdVal] using hl)
            exact ⟨1, ρ', n, V, .one hs, Nat.le_refl _, .refl _ _, hvr⟩
          | _ => simp [Core.Term.isVar] at hPv
        | false =>
          obtain ⟨i, ρ2, n2, P', V, hcs, hn2, hext, hfoc, hval, hvr⟩ :=
            (hPV.nonvar hPv).1 (.mu .cns ⟨x, 0⟩ (compileTy vt) inStmt) (compileTy vt) out trivial
          have hs := step_cut_bind (q := q) (cty := compileTy vt) (ty := compileTy vt) (x := ⟨x, 0⟩)
            (s := inStmt) (A := P') (ρ := ρ2) (out := out) (n := n2) hfoc hval
          exact ⟨i + 1, ρ2, n2, V, hcs.trans (.one hs), hn2, hext, hvr⟩
      obtain ⟨i, ρ2, n2, V, hcs, hn2, hext, hvr⟩ := hreach
      obtain ⟨ρ02, hext0, hag2⟩ := hext.agree (ρ0 := ρ0')
      obtain ⟨stb, stb', h1, h2, h3, h4⟩ := hcbody
      refine .inr ⟨0, _, .eval body ((x, v) :: env) k, [], i, _, .refl _, .inr ⟨none, hstep, rfl⟩,
        (fun _ => .inr (.inl (by intro h; cases h))), (fun _ => .inr (by simp only [msize, funSize]; omega)), hcs, by simp, ?_⟩
      refine SRel.eval (ρ0 := (⟨x, 0⟩, V) :: ρ02) (c := c') hgi ⟨stb, stb', h1, h2, h3, h4.mono hn2⟩ ?_ ?_ ?_ ?_
      · refine EnvRel.bind ?_ (hvr.mono hn2)
        refine ((he'.sub fun y hy => ?_).mono hn2).sigExt hext0 fun y hy =>
          htn.fv_ne_sig y (by
            obtain ⟨h1', h2'⟩ := List.mem_filter.1 hy
            simp only [fv, List.mem_append]
            exact .inr (List.mem_filter.2 ⟨h1', h2'⟩))
        obtain ⟨h1', h2'⟩ := List.mem_filter.1 hy
        simp only [fv, List.mem_append]
        exact .inr (List.mem_filter.2 ⟨h1', h2'⟩)
      · refine (((hr'.mono hn2).sigExt hext0 (h4.sig_lt (Nat.le_refl n)))).agree
          (AgreeOn.cons_right (.refl _ _) fun b hb e => hyg b hb (by rw [e]; simp))
      · refine BoundOn.cons ((hbd'.sigExt hext0).mono fun y hy => ?_)
        obtain ⟨h1', h2'⟩ := List.mem_filter.1 hy
        exact mem_tfv_cut.2 (.inr (mem_tfv_mu_of h1' (by simpa using h2')))
      · refine AgreeOn.cons ((hag2 _ hag').mono fun y hy => ?_)
        obtain ⟨h1', h2'⟩ := List.mem_filter.1 hy
        exact mem_tfv_cut.2 (.inr (mem_tfv_mu_of h1' (by simpa using h2')))
  · -- by value
    rw [if_neg hcd] at hgb
    have hcd' : Fun.isCodataTy p vt = false := by simpa using hcd
    have f1 : FSteps p (.eval (.letIn x vt bound body lty) env k)
        (.eval bound env (.letF x body env :: k)) [] 1 := .one (step_let_nc p x vt bound body lty env k hcd')
    refine Chunk.prefix f1 (.refl _) rfl (fun _ => Nat.le_refl _) (fun h => .inr h) ?_
    refine guard_sim X (fv (.letIn x vt bound body lty)) hcwc hlty hkind htn.nosig hxu htn.fv hcn he hr hbd hag ?_
    intro n c' st1 s' ρ0' ρ' _ hcore hfs hcn' hyg he' hr' hbd' hag'
    obtain ⟨inStmt, st2, hcb, f2', hcbody, tnbound, hst2, hshape, hcnmu⟩ := hbody n c' st1 s' hcore hfs hcn'
    rw [if_neg hcd] at hshape
    have hncv : Core.isCodata q.codataTypes (compileTy vt) = false := by rw [X.cod vt]; exact hcd'
    -- pad the ideal environment so that the free variables of the continuation are bound
    obtain ⟨ρp, hep, hrp, hbdp, hagp, hbdK⟩ :=
      ideal_pad (tfvTerm (.mu .cns ⟨x, 0⟩ (compileTy vt) inStmt) []) he' hr' hbd' hag'
    have hK : KRel (GP p) p q n (.letF x body env :: k) (.mutilde ρp ⟨x, 0⟩ inStmt) := by
      refine KRel.letF (ρ0 := ρp) hgi hcbody (hep.sub fun y hy => ?_) hrp ?_ ?_ (.refl _ _)
      · obtain ⟨h1, h2⟩ := List.mem_filter.1 hy
        simp only [fv, List.mem_append]
        exact .inr (List.mem_filter.2 ⟨h1, h2⟩)
      · intro b hb e
        exact hyg b hb (by rw [e]; simp)
      · intro b hb
        obtain ⟨h1, h2⟩ := List.mem_filter.1 hb
        exact hbdK b (mem_tfv_mu_of h1 (by simpa using h2))
    refine .inr ⟨0, _, _, [], 0, _, .refl _, .inl ⟨rfl, rfl⟩, (fun h => by cases h), (fun _ => .inr (by simp only [msize, funSize]; omega)), .refl _, by simp, ?_⟩
    exact SRel.eval (ρ0 := ρp) hgb
      ⟨st2, st', hshape, hst, tnbound, hcnmu⟩
      (hep.sub fun y hy => by simp [fv, hy])
      (.mk (cv := .mutilde ρp ⟨x, 0⟩ inStmt) rfl hK trivial hbdK hncv) hbdp hagp

/-- `label a { t }` -/
theorem eval_label (X : Ctx p q) {a : String} {t : Fun.Term}
    {lty : Option Fun.Ty} {env : Fun.Env} {k : Fun.Stack} {c : Core.Term} {s : Core.Stmt}
    {ρ0 ρ : CEnv} {out : Out} {n : Nat} (hg : good p (.label a t lty) = true)
    (hc : Compiled q n (.label a t lty) c s)
    (he : EnvRel (GP p) p q n (fv (.label a t lty)) env ρ0) (hr : CRel (GP p) p q n k c ρ0)
    (hbd : BoundOn (tfvStmt s []) ρ0) (hag : AgreeOn (tfvStmt s []) ρ0 ρ)
    (hT : STM p (.eval (.label a t lty) env k)) :
    Chunk p q (R p q) true true μ (.eval (.label a t lty) env k) ⟨s, ρ, out, n⟩ := by
  simp only [good, Bool.and_eq_true] at hg
  obtain ⟨hg, hncd⟩ := hg
  obtain ⟨st, st', hcwc, hst, htn, hcn⟩ := hc
  rw [cwc_label] at hcwc
  obtain ⟨τ, rfl⟩ := annO_some hncd
  have hkind : Core.isCodata q.codataTypes (compileTy τ) = kkind k := by
    obtain ⟨τ2, h1, h2⟩ := X.kind hT
    simp only [getType, Option.some.injEq] at h1
    subst h1
    exact h2
  simp only [c_label] at hcwc
  cases hx : compileWithCont t (.var .cns ⟨a, 0⟩ (compileTy τ)) st with
  | error e => simp [hx] at hcwc
  | ok r =>
    obtain ⟨s1, st1⟩ := r
    simp only [hx, Except.ok.injEq, Prod.mk.injEq] at hcwc
    obtain ⟨rfl, rfl⟩ := hcwc
    have hagc : AgreeOn (tfvTerm c []) ρ0 ρ := hag.mono fun y hy => mem_tfv_cut.2 (.inr hy)
    obtain ⟨i, n', ρ', cv, hcs, hi1, hn', hext, hk⟩ :=
      bind_cont X hr hagc hkind ⟨a, 0⟩ (compileTy τ) s1 out
    obtain ⟨ρ01, hext0, hagx⟩ := hext.agree (ρ0 := ρ0)
    have ha_used : a ∈ st.usedVars := htn.bd a (by simp [binderNames])
    have ha_sig : a ≠ sig := fun e => htn.nosig (e ▸ ha_used)
    have f1 : Fun.step p (.eval (.label a t (some τ)) env k) =
        .next (.eval t ((a, .cont k) :: env) k) none := rfl
    have hbd1 : BoundOn ((tfvStmt s1 []).filter (·.var ≠ ⟨a, 0⟩)) ρ0 := hbd.mono fun y hy => by
      obtain ⟨h1, h2⟩ := List.mem_filter.1 hy
      exact mem_tfv_cut.2 (.inl (mem_tfv_mu_of h1 (by simpa using h2)))
    have hag1 : AgreeOn ((tfvStmt s1 []).filter (·.var ≠ ⟨a, 0⟩)) ρ0 ρ := hag.mono fun y hy => by
      obtain ⟨h1, h2⟩ := List.mem_filter.1 hy
      exact mem_tfv_cut.2 (.inl (mem_tfv_mu_of h1 (by simpa using h2)))
    refine .inr ⟨0, _, _, [], i, _, .refl _, .inr ⟨none, f1, rfl⟩,
      (fun _ => .inr (.inl (by intro h; cases h))), (fun _ => .inl hi1), hcs, by simp, ?_⟩
    refine SRel.eval (c := .var .cns ⟨a, 0⟩ (compileTy τ)) (ρ0 := (⟨a, 0⟩, cv) :: ρ01) hg ?_ ?_ ?_ ?_ ?_
    · refine ⟨st, st1, hx, hst, ⟨fun y hy => ?_, fun y hy => ?_, htn.nosig⟩, ?_⟩
      · by_cases hya : y = a
        · exact hya ▸ ha_used
        · exact htn.fv y (by simp [fv, hy, hya])
      · exact htn.bd y (by simp [binderNames, hy])
      · intro b hb
        simp only [occTerm, List.mem_singleton] at hb
        subst hb
        exact .inr ⟨ha_sig, ha_used⟩
    · refine EnvRel.bind ?_ (.cont hk)
      refine ((he.mono hn').sigExt hext0 fun y hy => htn.fv_ne_sig y ?_).sub fun y hy => by
        simpa [fv] using hy
      exact hy
    · exact crel_var hk (lookup_cons_self _ _ _) hkind
    · exact BoundOn.cons (hbd1.sigExt hext0)
    · exact AgreeOn.cons (hagx _ hag1)

theorem step_goto (p : Fun.CheckedProgram) (a u ty env k) :
    Fun.step p (.eval (.goto a u ty) env k) =
      (match Fun.lookup a env with
        | some (.cont k') => .next (.eval u env k') none
        | some _ => .stuck (.notCont a)
        | none => .stuck (.unbound a)) := rfl

/-- `goto a (u)` -/
theorem eval_goto (X : Ctx p q) {a : String} {u : Fun.Term}
    {gty : Option Fun.Ty} {env : Fun.Env} {k : Fun.Stack} {c : Core.Term} {s : Core.Stmt}
    {ρ0 ρ : CEnv} {out : Out} {n : Nat} (hg : good p (.goto a u gty) = true)
    (hc : Compiled q n (.goto a u gty) c s)
    (he : EnvRel (GP p) p q n (fv (.goto a u gty)) env ρ0)
    (hbd : BoundOn (tfvStmt s []) ρ0) (hag : AgreeOn (tfvStmt s []) ρ0 ρ)
    (hT : STM p (.eval (.goto a u gty) env k)) :
    Chunk p q (R p q) true true (funSize (.goto a u gty)) (.eval (.goto a u gty) env k) ⟨s, ρ, out, n⟩ := by
  simp only [good, Bool.and_eq_true] at hg
  obtain ⟨⟨hg, hncd⟩, _⟩ := hg
  obtain ⟨st, st', hcwc, hst, htn, hcn⟩ := hc
  rw [cwc_goto] at hcwc
  obtain ⟨τ, hty'⟩ := annO_some hncd
  have hty : getType u = some τ := by rw [getType_eq]; exact hty'
  have htriv : True := trivial
  cases htriv with
  | intro =>
    simp only [hty] at hcwc
    obtain ⟨v, V, h1, h2, h3⟩ := he.get (y := a) (by simp [fv])
    have hstep := step_goto p a u gty env k
    rw [h1] at hstep
    have ha_used : a ∈ st.usedVars := htn.fv a (by simp [fv])
    have ha_sig : a ≠ sig := fun e => htn.nosig (e ▸ ha_used)
    cases h3 with
    | int _ => exact .inl ⟨0, _, .stuck (.notCont a), .refl _, by rw [hstep]; rfl, fun h => h.elim⟩
    | con _ => exact .inl ⟨0, _, .stuck (.notCont a), .refl _, by rw [hstep]; rfl, fun h => h.elim⟩
    | obj _ _ _ _ _ => exact .inl ⟨0, _, .stuck (.notCont a), .refl _, by rw [hstep]; rfl, fun h => h.elim⟩
    | @cont k' _ hk =>
      simp only at hstep
      refine .inr ⟨0, _, _, [], 0, _, .refl _, .inr ⟨none, hstep, rfl⟩,
        (fun _ => .inr (.inl (by intro h; cases h))), (fun _ => .inr (by simp only [msize, funSize]; omega)), .refl _, by simp, ?_⟩
      refine SRel.eval (c := .var .cns ⟨a, 0⟩ (compileTy τ)) (ρ0 := ρ0) hg ?_
        (he.sub fun y hy => by simp [fv, hy]) ?_ hbd hag
      · refine ⟨st, st', hcwc, hst, htn.of_sub (fun y hy => by simp [fv, hy])
          (fun y hy => by simp [binderNames, hy]) (fs_stepRel.refl st), ?_⟩
        intro b hb
        simp only [occTerm, List.mem_singleton] at hb
        subst hb
        exact .inr ⟨ha_sig, ha_used⟩
      · have hT' := stepM_preserves X.progM hT hstep
        obtain ⟨τ2, h1', hkind⟩ := X.kind hT'
        rw [hty] at h1'; cases h1'
        exact crel_var hk h2 hkind

/-- parentheses -/
theorem eval_paren {t : Fun.Term} {env : Fun.Env} {k : Fun.Stack} {c : Core.Term} {s : Core.Stmt}
    {ρ0 ρ : CEnv} {out : Out} {n : Nat} (hg : good p (.paren t) = true)
    (hc : Compiled q n (.paren t) c s)
    (he : EnvRel (GP p) p q n (fv (.paren t)) env ρ0) (hr : CRel (GP p) p q n k c ρ0)
    (hbd : BoundOn (tfvStmt s []) ρ0) (hag : AgreeOn (tfvStmt s []) ρ0 ρ) :
    Chunk p q (R p q) true true (funSize (.paren t)) (.eval (.paren t) env k) ⟨s, ρ, out, n⟩ := by
  obtain ⟨st, st', hcwc, hst, htn, hcn⟩ := hc
  have f1 : Fun.step p (.eval (.paren t) env k) = .next (.eval t env k) none := rfl
  refine .inr ⟨0, _, _, [], 0, _, .refl _, .inr ⟨none, f1, rfl⟩,
    (fun _ => .inr (.inl (by intro h; cases h))), (fun _ => .inr (by simp only [msize, funSize]; omega)), .refl _, by simp, ?_⟩
  exact SRel.eval (ρ0 := ρ0) (by simpa [good] using hg)
    ⟨st, st', by rwa [cwc_paren] at hcwc, hst,
      ⟨by simpa [fv] using htn.fv, by simpa [binderNames] using htn.bd, htn.nosig⟩, hcn⟩
    (by simpa [fv] using he) hr hbd hag

end Scc.Fun2Core.Sem
