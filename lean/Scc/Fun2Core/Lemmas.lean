/-
  Scc.Fun2Core.Lemmas — the per-constructor equations of `compileWithCont` / `compile`
  (= the Rust method bodies of terms/*.rs), all by `rfl` from `compileBoth`, and small tactics
  used by the proofs about the translation.  Proof file (no Mathlib needed).
-/
import Scc.Fun2Core.Model

namespace Scc.Fun2Core
open Scc

/-! ## equations: compile_with_cont -/

theorem cwc_var (x ty chi cont st) :
    compileWithCont (.var x ty chi) cont st =
      (match ty with
        | none => .error (noTy "variable.rs: XVar::compile_with_cont")
        | some t => .ok (.cut (compileTy t) (.var .prd ⟨x, 0⟩ (compileTy t)) cont, st)) := rfl

theorem cwc_lit (n cont st) :
    compileWithCont (.lit n) cont st = .ok (.cut .i64 (.lit n) cont, st) := rfl

theorem cwc_op (a o b cont st) :
    compileWithCont (.op a o b) cont st =
      (match compile (.op a o b) .i64 st with
        | .error e => .error e
        | .ok (newOp, st') => .ok (.cut .i64 newOp cont, st')) := rfl

theorem cwc_ifc (srt a b t e ty cont st) :
    compileWithCont (.ifc srt a b t e ty) cont st =
      (match compile a .i64 (if isLeaf cont then (cont, st) else share cont st).2 with
        | .error e => .error e
        | .ok (fst, st1) =>
          match compile b .i64 st1 with
          | .error e => .error e
          | .ok (snd, st2) =>
            match compileWithCont t (if isLeaf cont then (cont, st) else share cont st).1 st2 with
            | .error e => .error e
            | .ok (thenc, st3) =>
              match compileWithCont e (if isLeaf cont then (cont, st) else share cont st).1 st3 with
              | .error e => .error e
              | .ok (elsec, st4) => .ok (.ifc (compileSort srt) fst snd thenc elsec, st4)) := rfl

theorem cwc_ifz (srt a t e ty cont st) :
    compileWithCont (.ifz srt a t e ty) cont st =
      (match compile a .i64 (if isLeaf cont then (cont, st) else share cont st).2 with
        | .error e => .error e
        | .ok (fst, st1) =>
          match compileWithCont t (if isLeaf cont then (cont, st) else share cont st).1 st1 with
          | .error e => .error e
          | .ok (thenc, st2) =>
            match compileWithCont e (if isLeaf cont then (cont, st) else share cont st).1 st2 with
            | .error e => .error e
            | .ok (elsec, st3) => .ok (.ifz (compileSort srt) fst thenc elsec, st3)) := rfl

theorem cwc_print (nl a n ty cont st) :
    compileWithCont (.print nl a n ty) cont st =
      (match compile a .i64 st with
        | .error e => .error e
        | .ok (arg, st1) =>
          match compileWithCont n cont st1 with
          | .error e => .error e
          | .ok (next, st2) => .ok (.print nl arg next, st2)) := rfl

/-- terms/let.rs: the body of `compile_with_cont` after the capture guard -/
def letCore (x : String) (varTy : Fun.Ty) (bound body : Fun.Term) : CwcFn := fun cont st =>
  match compileWithCont body cont st with
  | .error e => .error e
  | .ok (inStmt, st1) =>
    if isCodata (compileTy varTy) st1.codataTypes then
      match compile bound (compileTy varTy) st1 with
      | .error e => .error e
      | .ok (p, st2) =>
        .ok (.cut (compileTy varTy) p (.mu .cns ⟨x, 0⟩ (compileTy varTy) inStmt), st2)
    else
      compileWithCont bound (.mu .cns ⟨x, 0⟩ (compileTy varTy) inStmt) st1

theorem cwc_letIn (x varTy bound body ty) :
    compileWithCont (.letIn x varTy bound body ty) =
      guarded [x] ty "let.rs: Let::compile_with_cont" (letCore x varTy bound body) := rfl

theorem cwc_call (name args retTy cont st) :
    compileWithCont (.call name args retTy) cont st =
      (match compileSubst args st with
        | .error e => .error e
        | .ok (args', st1) =>
          match retTy with
          | none => .error (noTy "call.rs: Call::compile_with_cont")
          | some t => .ok (.call ⟨name, 0⟩ (argsSnoc args' .cns cont) (compileTy t), st1)) := rfl

theorem cwc_ctor (id args ty cont st) :
    compileWithCont (.ctor id args ty) cont st =
      (match ty with
        | none => .error (noTy "constructor.rs: Constructor::compile_with_cont")
        | some t =>
          match compile (.ctor id args ty) (compileTy t) st with
          | .error e => .error e
          | .ok (p, st1) => .ok (.cut (compileTy t) p cont, st1)) := rfl

theorem cwc_dtor (scrutinee id tyArgs args ty cont st) :
    compileWithCont (.dtor scrutinee id tyArgs args ty) cont st =
      (match compileSubst args st with
        | .error e => .error e
        | .ok (args', st1) =>
          match getType scrutinee with
          | none => .error (noTy "destructor.rs: Destructor::compile_with_cont")
          | some t =>
            compileWithCont scrutinee
              (.xtor .cns ⟨id, 0⟩ (argsSnoc args' .cns cont) (compileTy t)) st1) := rfl

/-- terms/case.rs: the body of `compile_with_cont` after the capture guard -/
def caseCore (scrutinee : Fun.Term) (clauses : Fun.Clauses) : CwcFn := fun cont st =>
  match compileClauses clauses
      (if clausesLen clauses ≤ 1 || isLeaf cont then (cont, st) else share cont st).1
      (if clausesLen clauses ≤ 1 || isLeaf cont then (cont, st) else share cont st).2 with
  | .error e => .error e
  | .ok (cs, st1) =>
    match getType scrutinee with
    | none => .error (noTy "case.rs: Case::compile_with_cont")
    | some t => compileWithCont scrutinee (.xcase .cns (compileTy t) cs) st1

theorem cwc_case (scrutinee tyArgs clauses ty) :
    compileWithCont (.case scrutinee tyArgs clauses ty) =
      guarded (clausesNames clauses) ty "case.rs: Case::compile_with_cont (guard)"
        (caseCore scrutinee clauses) := rfl

theorem cwc_new (clauses ty cont st) :
    compileWithCont (.new clauses ty) cont st =
      (match ty with
        | none => .error (noTy "new.rs: New::compile_with_cont")
        | some t =>
          match compile (.new clauses ty) (compileTy t) st with
          | .error e => .error e
          | .ok (p, st1) => .ok (.cut (compileTy t) p cont, st1)) := rfl

theorem cwc_goto (target t ty cont st) :
    compileWithCont (.goto target t ty) cont st =
      (match getType t with
        | none => .error (noTy "goto.rs: Goto::compile_with_cont")
        | some gty => compileWithCont t (.var .cns ⟨target, 0⟩ (compileTy gty)) st) := rfl

theorem cwc_label (a t ty cont st) :
    compileWithCont (.label a t ty) cont st =
      (match ty with
        | none => .error (noTy "label.rs: Label::compile_with_cont")
        | some lty =>
          match compile (.label a t ty) (compileTy lty) st with
          | .error e => .error e
          | .ok (p, st1) => .ok (.cut (compileTy lty) p cont, st1)) := rfl

theorem cwc_exit (arg ty cont st) :
    compileWithCont (.exit arg ty) cont st =
      (match compile arg .i64 st with
        | .error e => .error e
        | .ok (a, st1) =>
          match ty with
          | none => .error (noTy "exit.rs: Exit::compile_with_cont")
          | some t => .ok (.exit a (compileTy t), st1)) := rfl

theorem cwc_paren (inner cont st) :
    compileWithCont (.paren inner) cont st = compileWithCont inner cont st := rfl

/-! ## equations: compile -/

theorem c_var (x ty chi cty st) :
    compile (.var x ty chi) cty st =
      (match ty with
        | none => .error (noTy "variable.rs: XVar::compile")
        | some t => .ok (.var .prd ⟨x, 0⟩ (compileTy t), st)) := rfl

theorem c_lit (n cty st) : compile (.lit n) cty st = .ok (.lit n, st) := rfl

theorem c_op (a o b cty st) :
    compile (.op a o b) cty st =
      (match compile a .i64 st with
        | .error e => .error e
        | .ok (fst, st1) =>
          match compile b .i64 st1 with
          | .error e => .error e
          | .ok (snd, st2) => .ok (.op fst (compileOp o) snd, st2)) := rfl

theorem c_ctor (id args ty cty st) :
    compile (.ctor id args ty) cty st =
      (match compileSubst args st with
        | .error e => .error e
        | .ok (args', st1) =>
          match ty with
          | none => .error (noTy "constructor.rs: Constructor::compile")
          | some t => .ok (.xtor .prd ⟨id, 0⟩ args' (compileTy t), st1)) := rfl

theorem c_new (clauses ty cty st) :
    compile (.new clauses ty) cty st =
      (match compileCoclauses clauses st with
        | .error e => .error e
        | .ok (cs, st1) =>
          match ty with
          | none => .error (noTy "new.rs: New::compile")
          | some t => .ok (.xcase .prd (compileTy t) cs, st1)) := rfl

theorem c_label (a t ty cty st) :
    compile (.label a t ty) cty st =
      (match ty with
        | none => .error (noTy "label.rs: Label::compile")
        | some lty =>
          match compileWithCont t (.var .cns ⟨a, 0⟩ (compileTy lty)) st with
          | .error e => .error e
          | .ok (s, st1) => .ok (.mu .prd ⟨a, 0⟩ (compileTy lty) s, st1)) := rfl

theorem c_paren (inner cty st) : compile (.paren inner) cty st = compile inner cty st := rfl

/-- the forms that use the default body of `Compile::compile` -/
theorem c_ifc (srt a b t e ty cty st) :
    compile (.ifc srt a b t e ty) cty st =
      defaultCompile (compileWithCont (.ifc srt a b t e ty)) cty st := rfl
theorem c_ifz (srt a t e ty cty st) :
    compile (.ifz srt a t e ty) cty st =
      defaultCompile (compileWithCont (.ifz srt a t e ty)) cty st := rfl
theorem c_print (nl a n ty cty st) :
    compile (.print nl a n ty) cty st =
      defaultCompile (compileWithCont (.print nl a n ty)) cty st := rfl
theorem c_letIn (x vt b i ty cty st) :
    compile (.letIn x vt b i ty) cty st =
      defaultCompile (compileWithCont (.letIn x vt b i ty)) cty st := rfl
theorem c_call (f args ty cty st) :
    compile (.call f args ty) cty st =
      defaultCompile (compileWithCont (.call f args ty)) cty st := rfl
theorem c_dtor (s d ta args ty cty st) :
    compile (.dtor s d ta args ty) cty st =
      defaultCompile (compileWithCont (.dtor s d ta args ty)) cty st := rfl
theorem c_case (s ta cs ty cty st) :
    compile (.case s ta cs ty) cty st =
      defaultCompile (compileWithCont (.case s ta cs ty)) cty st := rfl
theorem c_goto (a t ty cty st) :
    compile (.goto a t ty) cty st =
      defaultCompile (compileWithCont (.goto a t ty)) cty st := rfl
theorem c_exit (t ty cty st) :
    compile (.exit t ty) cty st =
      defaultCompile (compileWithCont (.exit t ty)) cty st := rfl

theorem guardedLvl_zero (binders ty site core cont st) :
    guardedLvl binders ty site core 0 cont st =
      .error (site ++ ": guard recursion exhausted (unreachable)") := rfl

theorem guardedLvl_succ (binders ty site core n cont st) :
    guardedLvl binders ty site core (n + 1) cont st =
      (if bindersOccurFree binders cont then
        match ty with
        | none => .error (noTy site)
        | some t =>
          match defaultCompile (guardedLvl binders ty site core n) (compileTy t) st with
          | .error e => .error e
          | .ok (p, st1) => .ok (.cut (compileTy t) p cont, st1)
      else core cont st) := rfl

theorem defaultCompile_eq (cwc : CwcFn) (ty st) :
    defaultCompile cwc ty st =
      (match cwc (.var .cns ⟨(freshCovar st).1, 0⟩ ty) (freshCovar st).2 with
        | .error e => .error e
        | .ok (s, st') => .ok (.mu .prd ⟨(freshCovar st).1, 0⟩ ty s, st')) := rfl

/-! ## equations: compile_subst / compile_clause / compile_coclause -/

theorem subst_nil (st) : compileSubst .nil st = .ok (.nil, st) := rfl

theorem subst_cons (term rest st) :
    compileSubst (.cons term rest) st =
      (match covarArg term with
        | some (x, ty) =>
          match ty with
          | none => .error (noTy "arguments.rs: compile_subst (covariable)")
          | some t =>
            match compileSubst rest st with
            | .error e => .error e
            | .ok (r, st1) => .ok (.cons .cns (.var .cns ⟨x, 0⟩ (compileTy t)) r, st1)
        | none =>
          match getType term with
          | none => .error (noTy "arguments.rs: compile_subst")
          | some t =>
            match compile term (compileTy t) st with
            | .error e => .error e
            | .ok (p, st1) =>
              match compileSubst rest st1 with
              | .error e => .error e
              | .ok (r, st2) => .ok (.cons .prd p r, st2)) := by
  rw [compileSubst]; rfl

theorem clauses_nil (cont st) : compileClauses .nil cont st = .ok (.nil, st) := rfl

theorem clauses_cons (pol xtor names ctx body rest cont st) :
    compileClauses (.cons pol xtor names ctx body rest) cont st =
      (match compileWithCont body cont st with
        | .error e => .error e
        | .ok (b, st1) =>
          match compileClauses rest cont st1 with
          | .error e => .error e
          | .ok (r, st2) => .ok (.cons ⟨xtor, 0⟩ (compileContext ctx) b r, st2)) := by
  rw [compileClauses]; rfl

theorem coclauses_nil (st) : compileCoclauses .nil st = .ok (.nil, st) := rfl

theorem coclauses_cons (pol xtor names ctx body rest st) :
    compileCoclauses (.cons pol xtor names ctx body rest) st =
      (match getType body with
        | none => .error (noTy "clause.rs: compile_coclause")
        | some t =>
          match compileWithCont body (.var .cns ⟨(freshCovar st).1, 0⟩ (compileTy t))
              (freshCovar st).2 with
          | .error e => .error e
          | .ok (b, st1) =>
            match compileCoclauses rest st1 with
            | .error e => .error e
            | .ok (r, st2) =>
              .ok (.cons ⟨xtor, 0⟩
                (compileContext ctx ++ [⟨⟨(freshCovar st).1, 0⟩, .cns, compileTy t⟩]) b r, st2)) := by
  rw [compileCoclauses]; rfl

end Scc.Fun2Core
