/-
  Scc.Fun2Core.SemRel — the simulation relation of the semantic part of C02 between states of the Fun
  CEK machine and states of the Core ς-machine running the translation.

  * `fv`            free (co)variables / labels of a Fun term (one namespace, as in the machine),
  * `Compiled`      `s = ⟦t⟧_c` for some compile state whose lifted definitions are in the program,
  * `VRel n v V`    Fun value ~ Core value,      `KRel n k cv`   Fun stack ~ Core consumer value,
    `EnvRel n xs env ρ`  the environments agree (up to `VRel`) on the names `xs`,
    `CRel n k c ρ`   the consumer TERM `c` denotes in `ρ` a consumer value related to the stack `k`;
    `n` bounds the indices of the machine-fresh names `ς_i` that occur in closures.
  Every closure clause of `KRel` is closed under replacing the closure environment by one that
  agrees with it on the typed free variables of the closure body ("ideal environment" `ρ0`): all
  weakening lemmas are then immediate.
  * `KRelD n k cv`  the same for stacks that expect a CODATA value (top frame `dtorScrut` / `dtorApply`):
                    `cv` is a destructor value `d(Vs; cv')` (the Core machine has evaluated the pure
                    arguments; the Fun machine evaluates them when the scrutinee returns), or a closure
                    `μ~x.share_k(…)` / `μ~x.⟨x | c⟩` that forwards its argument to such a consumer;
    `KAny`          a consumer value of either kind; `CRel.mkD`, `CRel.dtor`: consumer TERMS of a codata
                    type (a covariable, a lifted continuation; the destructor `d(⟦args⟧; c)` itself, none of
                    whose arguments has been evaluated yet by either machine).
  * `SRel`          the relation on machine states (Fun `eval` states only; the other Fun states are
                    crossed inside a chunk, see Scc.Fun2Core.SemBase).  The typing of the Fun state
                    (`STM`, Scc/Fun2Core/SemCodTyping.lean) is carried next to it (`RT`, SemSim12.lean).
-/
import Scc.Fun2Core.SemPure
import Scc.Fun2Core.Fresh
import Scc.Fun2Core.FreeVars

namespace Scc.Fun2Core.Sem
open Scc

/-! ## free names of Fun terms -/

mutual
  def fv : Fun.Term → List String
    | .var x _ _ => [x]
    | .lit _ => []
    | .op a _ b => fv a ++ fv b
    | .ifc _ a b t e _ => fv a ++ fv b ++ fv t ++ fv e
    | .ifz _ a t e _ => fv a ++ fv t ++ fv e
    | .print _ a n _ => fv a ++ fv n
    | .letIn x _ b i _ => fv b ++ (fv i).filter (· ≠ x)
    | .call _ as _ => fvArgs as
    | .ctor _ as _ => fvArgs as
    | .dtor s _ _ as _ => fv s ++ fvArgs as
    | .case s _ cs _ => fv s ++ fvClauses cs
    | .new cs _ => fvClauses cs
    | .label a t _ => (fv t).filter (· ≠ a)
    | .goto a t _ => a :: fv t
    | .exit t _ => fv t
    | .paren t => fv t
  def fvArgs : Fun.Terms → List String
    | .nil => []
    | .cons t r => fv t ++ fvArgs r
  def fvClauses : Fun.Clauses → List String
    | .nil => []
    | .cons _ _ names _ body rest => (fv body).filter (fun x => !names.contains x) ++ fvClauses rest
end

/-! ## Core environments -/

abbrev CVal := Core.CVal
abbrev CEnv := Core.CEnv

/-- `ρ'` agrees with `ρ` on the variables of the bindings `bs` -/
def AgreeOn (bs : List Core.Binding) (ρ ρ' : CEnv) : Prop :=
  ∀ b ∈ bs, Core.Env.lookup ρ' b.var = Core.Env.lookup ρ b.var

theorem AgreeOn.refl (bs ρ) : AgreeOn bs ρ ρ := fun _ _ => rfl

theorem AgreeOn.trans {bs ρ1 ρ2 ρ3} (h1 : AgreeOn bs ρ1 ρ2) (h2 : AgreeOn bs ρ2 ρ3) :
    AgreeOn bs ρ1 ρ3 := fun b hb => (h2 b hb).trans (h1 b hb)

theorem AgreeOn.mono {bs bs' ρ ρ'} (h : AgreeOn bs ρ ρ') (hs : ∀ b ∈ bs', b ∈ bs) :
    AgreeOn bs' ρ ρ' := fun b hb => h b (hs b hb)

/-- the variables of the bindings `bs` are bound in `ρ` -/
def BoundOn (bs : List Core.Binding) (ρ : CEnv) : Prop :=
  ∀ b ∈ bs, ∃ V, Core.Env.lookup ρ b.var = .ok V

theorem BoundOn.mono {bs bs' ρ} (h : BoundOn bs ρ) (hs : ∀ b ∈ bs', b ∈ bs) : BoundOn bs' ρ :=
  fun b hb => h b (hs b hb)

/-- the name of the machine-fresh variables of the Core ς-machine -/
def sig : String := "ς"

theorem sigmaName_name (k : Nat) : (Core.sigmaName k).name = sig := rfl
theorem sigmaName_id (k : Nat) : (Core.sigmaName k).id = k := rfl

/-! ## compiled code -/

/-- the lifted definitions of the compile state are definitions of the program -/
def StOK (q : Core.Prog) (st : CompileState) : Prop :=
  (∀ d ∈ st.liftedStatements, d ∈ q.defs) ∧ st.codataTypes = q.codataTypes

/-- names of a consumer: machine-fresh (index below `n`) or generated/user names known to the state -/
def ConsNames (c : Core.Term) (st : CompileState) (n : Nat) : Prop :=
  ∀ b ∈ occTerm c, (b.var.name = sig ∧ b.var.id < n) ∨
    (b.var.name ≠ sig ∧ b.var.name ∈ st.usedVars)

/-- names of a source term: free names and binders are known to the state, `ς` is not -/
structure TermNames (t : Fun.Term) (st : CompileState) : Prop where
  fv : ∀ x ∈ fv t, x ∈ st.usedVars
  bd : ∀ x ∈ binderNames t, x ∈ st.usedVars
  nosig : sig ∉ st.usedVars

/-- `s = ⟦t⟧_c` -/
def Compiled (q : Core.Prog) (n : Nat) (t : Fun.Term) (c : Core.Term) (s : Core.Stmt) : Prop :=
  ∃ st st', compileWithCont t c st = .ok (s, st') ∧ StOK q st' ∧ TermNames t st ∧ ConsNames c st n

/-- `P = compile t` (a producer in operand / argument position) -/
def CompiledP (q : Core.Prog) (t : Fun.Term) (ty : Core.Ty) (P : Core.Term) : Prop :=
  ∃ st st', compile t ty st = .ok (P, st') ∧ StOK q st' ∧ TermNames t st

structure ClausesNames (cs : Fun.Clauses) (st : CompileState) : Prop where
  fv : ∀ x ∈ fvClauses cs, x ∈ st.usedVars
  bd : ∀ x ∈ binderNamesClauses cs, x ∈ st.usedVars
  nosig : sig ∉ st.usedVars

/-- names of an argument list -/
structure ArgsNames (args : Fun.Terms) (st : CompileState) : Prop where
  fv : ∀ x ∈ fvArgs args, x ∈ st.usedVars
  bd : ∀ x ∈ binderNamesArgs args, x ∈ st.usedVars
  nosig : sig ∉ st.usedVars

/-- `cs' = ` the clauses of a `case` translated with the consumer `c` -/
def CompiledCl (q : Core.Prog) (n : Nat) (cs : Fun.Clauses) (c : Core.Term) (cs' : Core.Clauses) : Prop :=
  ∃ st st', compileClauses cs c st = .ok (cs', st') ∧ StOK q st' ∧ ClausesNames cs st ∧ ConsNames c st n

/-- `cs' = ` the clauses of a `new` -/
def CompiledCo (q : Core.Prog) (cs : Fun.Clauses) (cs' : Core.Clauses) : Prop :=
  ∃ st st', compileCoclauses cs st = .ok (cs', st') ∧ StOK q st' ∧ ClausesNames cs st

/-- a consumer whose cut is not split by the ς-machine -/
def Inert : Core.Term → Prop
  | .xtor .. => False
  | .mu .prd .. => False
  | _ => True

/-! ## the relations -/

variable (G : Fun.Term → Prop) (p : Fun.CheckedProgram) (q : Core.Prog)

mutual
  inductive VRel : Nat → Fun.Value → CVal → Prop
    | int (n : Nat) (a : BitVec 64) : VRel n (.int a) (.int a)
    | con {n : Nat} {K : String} {vs : List Fun.Value} {Vs : List CVal} :
        VRelL n vs Vs → VRel n (.con K vs) (.con ⟨K, 0⟩ Vs)
    | cont {n : Nat} {k : Fun.Stack} {cv : CVal} : KAny n k cv → VRel n (.cont k) cv
    /-- the closure of `new { … }` -/
    | obj {n : Nat} {cs : Fun.Clauses} {envc : Fun.Env} {ρ0 ρ : CEnv} {cs' : Core.Clauses} :
        (∀ K cl, Fun.findClause K cs = some cl →
          G cl.body ∧ cl.names.Nodup ∧ cl.ctx.map (·.var) = cl.names) →
        CompiledCo q cs cs' → EnvRel n (fvClauses cs) envc ρ0 →
        BoundOn (tfvClauses cs' []) ρ0 → AgreeOn (tfvClauses cs' []) ρ0 ρ →
        VRel n (.obj cs envc) (.cocase ρ cs')
  inductive VRelL : Nat → List Fun.Value → List CVal → Prop
    | nil (n : Nat) : VRelL n [] []
    | cons {n : Nat} {v V vs Vs} : VRel n v V → VRelL n vs Vs → VRelL n (v :: vs) (V :: Vs)
  inductive EnvRel : Nat → List String → Fun.Env → CEnv → Prop
    | mk {n : Nat} {xs : List String} {env : Fun.Env} {ρ : CEnv}
        (f : String → Fun.Value) (g : String → CVal) :
        (∀ y, y ∈ xs → Fun.lookup y env = some (f y)) →
        (∀ y, y ∈ xs → Core.Env.lookup ρ ⟨y, 0⟩ = .ok (g y)) →
        (∀ y, y ∈ xs → VRel n (f y) (g y)) → EnvRel n xs env ρ
  inductive CRel : Nat → Fun.Stack → Core.Term → CEnv → Prop
    | mk {n : Nat} {k : Fun.Stack} {c : Core.Term} {ρ : CEnv} {cv : CVal} :
        Core.cnsVal ρ c = .ok cv → KRel n k cv → Inert c → BoundOn (tfvTerm c []) ρ →
        Core.isCodata q.codataTypes (coreGetType c) = false → CRel n k c ρ
    /-- a consumer of a codata type that has a value: a covariable (bound to a destructor value) or
    a continuation lifted by `share` -/
    | mkD {n : Nat} {k : Fun.Stack} {c : Core.Term} {ρ : CEnv} {cv : CVal} :
        Core.cnsVal ρ c = .ok cv → KRelD n k cv → Inert c → BoundOn (tfvTerm c []) ρ →
        Core.isCodata q.codataTypes (coreGetType c) = true → CRel n k c ρ
    /-- the destructor `d(args; c')` as a consumer TERM: its arguments (pure terms) are not yet
    evaluated, neither by the Fun machine (frame `dtorScrut`) nor by the Core machine -/
    | dtor {n : Nat} {d : String} {args : Fun.Terms} {env : Fun.Env} {k : Fun.Stack} {ρ0 ρ : CEnv}
        {c' : Core.Term} {as' : Core.Args} {ty : Core.Ty} {st st' : CompileState}
        {gc : Fun.Clauses → Bool} {vs : List Fun.Value} :
        compileSubst args st = .ok (as', st') → StOK q st' → ArgsNames args st →
        pureFOs p gc args = true →
        (∀ cs, gc cs = true → ∀ K cl, Fun.findClause K cs = some cl →
          G cl.body ∧ cl.names.Nodup ∧ cl.ctx.map (·.var) = cl.names) →
        pureArgs p args env = some vs →
        EnvRel n (fvArgs args) env ρ0 → CRel n k c' ρ0 →
        (∀ b ∈ tfvTerm c' [], b.var.name = sig → b.var.id < n) →
        BoundOn (tfvTerm (.xtor .cns ⟨d, 0⟩ (argsSnoc as' .cns c') ty) []) ρ0 →
        AgreeOn (tfvTerm (.xtor .cns ⟨d, 0⟩ (argsSnoc as' .cns c') ty) []) ρ0 ρ →
        Core.isCodata q.codataTypes ty = true →
        CRel n (.dtorScrut d args env :: k) (.xtor .cns ⟨d, 0⟩ (argsSnoc as' .cns c') ty) ρ
  /-- consumer values of either kind -/
  inductive KAny : Nat → Fun.Stack → CVal → Prop
    | nc {n : Nat} {k : Fun.Stack} {cv : CVal} : KRel n k cv → KAny n k cv
    | cd {n : Nat} {k : Fun.Stack} {cv : CVal} : KRelD n k cv → KAny n k cv
  /-- stacks that expect a CODATA value (top frame: a destructor) ~ destructor values, and the
  `μ~`-closures that forward their argument to such a consumer (continuations lifted by `share`) -/
  inductive KRelD : Nat → Fun.Stack → CVal → Prop
    /-- `□.d(vs)`: arguments evaluated on both sides -/
    | dtorA {n : Nat} {d : String} {vs : List Fun.Value} {Vs : List CVal} {k : Fun.Stack}
        {cv : CVal} :
        VRelL n vs Vs → KAny n k cv →
        KRelD n (.dtorApply d vs :: k) (.dtor ⟨d, 0⟩ (Vs ++ [cv]))
    /-- `□.d(args)`: the Core machine has evaluated the (pure) arguments, the Fun machine will
    evaluate them when the scrutinee returns -/
    | dtorS {n : Nat} {d : String} {args : Fun.Terms} {env : Fun.Env} {vs : List Fun.Value}
        {Vs : List CVal} {k : Fun.Stack} {cv : CVal} :
        Fun.pureTerms args = true → pureArgs p args env = some vs → VRelL n vs Vs → KAny n k cv →
        KRelD n (.dtorScrut d args env :: k) (.dtor ⟨d, 0⟩ (Vs ++ [cv]))
    /-- a continuation lifted by `share` -/
    | shared {n : Nat} {k : Fun.Stack} {ρ0 ρ : CEnv} {x : Core.Ident} {d : Core.Def} {ty : Core.Ty} :
        d ∈ q.defs → d.ctx = tfvStmt d.body [] →
        KRelD n k (.mutilde ρ0 x d.body) →
        BoundOn ((tfvStmt (.call d.name (bindingsToArgs d.ctx) ty) []).filter (·.var ≠ x)) ρ0 →
        AgreeOn ((tfvStmt (.call d.name (bindingsToArgs d.ctx) ty) []).filter (·.var ≠ x)) ρ0 ρ →
        KRelD n k (.mutilde ρ x (.call d.name (bindingsToArgs d.ctx) ty))
    /-- `μ~x.⟨x | c⟩` at a codata type -/
    | eta {n : Nat} {k : Fun.Stack} {ρ0 ρ : CEnv} {x : Core.Ident} {ty ty' : Core.Ty}
        {c : Core.Term} :
        CRel n k c ρ0 → (∀ b ∈ tfvTerm c [], b.var ≠ x) →
        Core.isCodata q.codataTypes ty = true →
        Core.isCodata q.codataTypes (coreGetType c) = true →
        (∀ b ∈ tfvTerm c [], b.var.name = sig → b.var.id < n) → (x.name = sig → x.id < n) →
        BoundOn ((tfvStmt (.cut ty (.var .prd x ty') c) []).filter (·.var ≠ x)) ρ0 →
        AgreeOn ((tfvStmt (.cut ty (.var .prd x ty') c) []).filter (·.var ≠ x)) ρ0 ρ →
        KRelD n k (.mutilde ρ x (.cut ty (.var .prd x ty') c))
  inductive KRel : Nat → Fun.Stack → CVal → Prop
    /-- the top-level continuation of `main`: `μ~x. exit x` -/
    | main {n : Nat} {ρ : CEnv} {x : Core.Ident} {ty ty' : Core.Ty} :
        KRel n [] (.mutilde ρ x (.exit (.var .prd x ty) ty'))
    /-- `exit □` -/
    | exitF {n : Nat} {ρ : CEnv} {x : Core.Ident} {ty ty' : Core.Ty} :
        KRel n [.exitF] (.mutilde ρ x (.exit (.var .prd x ty) ty'))
    /-- `let x = □; body` -/
    | letF {n : Nat} {x : String} {body : Fun.Term} {env : Fun.Env} {k : Fun.Stack}
        {ρ0 ρ : CEnv} {c : Core.Term} {s : Core.Stmt} :
        G body → Compiled q n body c s →
        EnvRel n ((fv body).filter (· ≠ x)) env ρ0 → CRel n k c ρ0 →
        (∀ b ∈ tfvTerm c [], b.var ≠ ⟨x, 0⟩) →
        BoundOn ((tfvStmt s []).filter (·.var ≠ ⟨x, 0⟩)) ρ0 →
        AgreeOn ((tfvStmt s []).filter (·.var ≠ ⟨x, 0⟩)) ρ0 ρ →
        KRel n (.letF x body env :: k) (.mutilde ρ ⟨x, 0⟩ s)
    /-- `if □ ~ b {t} else {e}` -/
    | ifL {n : Nat} {srt : Fun.IfSort} {b t e : Fun.Term} {env : Fun.Env} {k : Fun.Stack}
        {ρ0 ρ : CEnv} {c : Core.Term} {i : Nat} {ty : Core.Ty} {B : Core.Term} {T E : Core.Stmt} :
        G b → G t → G e → i < n → getType b = some .i64 →
        CompiledP q b .i64 B → Compiled q i t c T → Compiled q i e c E →
        EnvRel n (fv b ++ fv t ++ fv e) env ρ0 → CRel n k c ρ0 →
        BoundOn ((tfvStmt (.ifc (compileSort srt) (.var .prd (Core.sigmaName i) ty) B T E) []).filter
          (·.var ≠ Core.sigmaName i)) ρ0 →
        AgreeOn ((tfvStmt (.ifc (compileSort srt) (.var .prd (Core.sigmaName i) ty) B T E) []).filter
          (·.var ≠ Core.sigmaName i)) ρ0 ρ →
        KRel n (.ifL srt b t e env :: k)
          (.mutilde ρ (Core.sigmaName i)
            (.ifc (compileSort srt) (.var .prd (Core.sigmaName i) ty) B T E))
    /-- `if a ~ □ {t} else {e}` -/
    | ifR {n : Nat} {srt : Fun.IfSort} {a : BitVec 64} {t e : Fun.Term} {env : Fun.Env}
        {k : Fun.Stack} {ρ0 ρ : CEnv} {c : Core.Term} {i : Nat} {z : Core.Ident} {ty ty' : Core.Ty}
        {T E : Core.Stmt} :
        G t → G e → i < n → z ≠ Core.sigmaName i →
        Core.Env.lookup ρ z = .ok (.int a) →
        Compiled q i t c T → Compiled q i e c E →
        EnvRel n (fv t ++ fv e) env ρ0 → CRel n k c ρ0 →
        BoundOn ((tfvStmt T [] ++ tfvStmt E []).filter (·.var ≠ Core.sigmaName i)) ρ0 →
        AgreeOn ((tfvStmt T [] ++ tfvStmt E []).filter (·.var ≠ Core.sigmaName i)) ρ0 ρ →
        KRel n (.ifR srt a t e env :: k)
          (.mutilde ρ (Core.sigmaName i)
            (.ifc (compileSort srt) (.var .prd z ty) (.var .prd (Core.sigmaName i) ty') T E))
    /-- `if □ ~ 0 {t} else {e}` -/
    | ifZ {n : Nat} {srt : Fun.IfSort} {t e : Fun.Term} {env : Fun.Env} {k : Fun.Stack}
        {ρ0 ρ : CEnv} {c : Core.Term} {i : Nat} {ty : Core.Ty} {T E : Core.Stmt} :
        G t → G e → i < n →
        Compiled q i t c T → Compiled q i e c E →
        EnvRel n (fv t ++ fv e) env ρ0 → CRel n k c ρ0 →
        BoundOn ((tfvStmt (.ifz (compileSort srt) (.var .prd (Core.sigmaName i) ty) T E) []).filter
          (·.var ≠ Core.sigmaName i)) ρ0 →
        AgreeOn ((tfvStmt (.ifz (compileSort srt) (.var .prd (Core.sigmaName i) ty) T E) []).filter
          (·.var ≠ Core.sigmaName i)) ρ0 ρ →
        KRel n (.ifZ srt t e env :: k)
          (.mutilde ρ (Core.sigmaName i)
            (.ifz (compileSort srt) (.var .prd (Core.sigmaName i) ty) T E))
    /-- `print(□); next` -/
    | print {n : Nat} {nl : Bool} {next : Fun.Term} {env : Fun.Env} {k : Fun.Stack}
        {ρ0 ρ : CEnv} {c : Core.Term} {i : Nat} {ty : Core.Ty} {N : Core.Stmt} :
        G next → i < n → Compiled q i next c N →
        EnvRel n (fv next) env ρ0 → CRel n k c ρ0 →
        BoundOn ((tfvStmt (.print nl (.var .prd (Core.sigmaName i) ty) N) []).filter
          (·.var ≠ Core.sigmaName i)) ρ0 →
        AgreeOn ((tfvStmt (.print nl (.var .prd (Core.sigmaName i) ty) N) []).filter
          (·.var ≠ Core.sigmaName i)) ρ0 ρ →
        KRel n (.print nl next env :: k)
          (.mutilde ρ (Core.sigmaName i) (.print nl (.var .prd (Core.sigmaName i) ty) N))
    /-- `□.case { clauses }` -/
    | caseF {n : Nat} {cs : Fun.Clauses} {env : Fun.Env} {k : Fun.Stack} {ρ0 ρ : CEnv}
        {c : Core.Term} {cs' : Core.Clauses} :
        (∀ K cl, Fun.findClause K cs = some cl →
          G cl.body ∧ cl.names.Nodup ∧ cl.ctx.map (·.var) = cl.names) →
        CompiledCl q n cs c cs' →
        EnvRel n (fvClauses cs) env ρ0 → CRel n k c ρ0 →
        (∀ b ∈ tfvTerm c [], b.var.id = 0 → b.var.name ∉ clausesNames cs) →
        BoundOn (tfvClauses cs' []) ρ0 →
        AgreeOn (tfvClauses cs' []) ρ0 ρ →
        KRel n (.caseF cs env :: k) (.case ρ cs')
    /-- a continuation lifted by `share`: `μ~x. share_f_k(fv…)` where `share_f_k(fv…) := body` -/
    | shared {n : Nat} {k : Fun.Stack} {ρ0 ρ : CEnv} {x : Core.Ident} {d : Core.Def} {ty : Core.Ty} :
        d ∈ q.defs → d.ctx = tfvStmt d.body [] →
        KRel n k (.mutilde ρ0 x d.body) →
        BoundOn ((tfvStmt (.call d.name (bindingsToArgs d.ctx) ty) []).filter (·.var ≠ x)) ρ0 →
        AgreeOn ((tfvStmt (.call d.name (bindingsToArgs d.ctx) ty) []).filter (·.var ≠ x)) ρ0 ρ →
        KRel n k (.mutilde ρ x (.call d.name (bindingsToArgs d.ctx) ty))
    /-- `μ~x.⟨x | c⟩` -/
    | eta {n : Nat} {k : Fun.Stack} {ρ0 ρ : CEnv} {x : Core.Ident} {ty ty' : Core.Ty}
        {c : Core.Term} :
        CRel n k c ρ0 → (∀ b ∈ tfvTerm c [], b.var ≠ x) →
        Core.isCodata q.codataTypes ty = false →
        Core.isCodata q.codataTypes (coreGetType c) = false →
        BoundOn ((tfvStmt (.cut ty (.var .prd x ty') c) []).filter (·.var ≠ x)) ρ0 →
        AgreeOn ((tfvStmt (.cut ty (.var .prd x ty') c) []).filter (·.var ≠ x)) ρ0 ρ →
        KRel n k (.mutilde ρ x (.cut ty (.var .prd x ty') c))
end

/-! ## the relation on states -/

/-- the Fun machine is about to evaluate `t`; the Core machine is about to run `⟦t⟧_c` -/
inductive SRel : Fun.State → Core.State → Prop
  | eval {t : Fun.Term} {env : Fun.Env} {k : Fun.Stack} {S : Core.State} {ρ0 : CEnv}
      {c : Core.Term} :
      G t → Compiled q S.fresh t c S.stmt →
      EnvRel G p q S.fresh (fv t) env ρ0 → CRel G p q S.fresh k c ρ0 →
      BoundOn (tfvStmt S.stmt []) ρ0 →
      AgreeOn (tfvStmt S.stmt []) ρ0 S.env →
      SRel (.eval t env k) S

end Scc.Fun2Core.Sem
