/-
  Scc.Fun2Core.TypedAux — proof file (C12, link fun2core): the relation between the Fun typing context
  and the Core typing context along the translation, the hypotheses about the target program under which
  a translated statement is checked, and small facts about the compiled declarations.
    * `CtxRel Γ Δ`     every name bound in the Fun context `Γ` (rightmost binding wins) is looked up in the
                       Core context `Δ` (leftmost wins) with the translated chirality and type
    * `NamesIn Δ st`   every name of `Δ` is in the used-names set (so fresh names shadow nothing)
    * `Env p P`        the Core program `P` has the translated type declarations of `p` and maps every
                       user definition except `main` to a definition with the translated signature
    * `SigLifted P st` `P` maps the label of every definition lifted so far to that definition
    * `LiftedOk P G st` every definition lifted so far checks in its own context, and all its identifiers
                       have id 0 and a name satisfying `G`
    * `TOK`/`SOK`/`AOK`/`COK`  "checks and all identifiers are good" for terms / statements / arguments /
                       clauses, with one introduction lemma per constructor
-/
import Scc.Fun2Core.TypedCore
import Scc.Fun2Core.TypedSrc
import Scc.Fun.MainCall

namespace Scc.Fun2Core.Typed
open Scc Scc.Core Scc.Fun2Core
open Scc.Fun.Typing (lookupCtx bindNames clauseXtors)

/-! ## contexts -/

/-- translation of one binding (context.rs) -/
def compileBinding (b : Fun.Binding) : Binding := ⟨⟨b.var, 0⟩, compileChi b.chi, compileTy b.ty⟩

theorem compileContext_eq (ctx : Fun.Ctx) : compileContext ctx = ctx.map compileBinding := rfl

def CtxRel (Γ : Fun.Ctx) (Δ : Ctx) : Prop :=
  ∀ x b, lookupCtx Γ x = some b → lookupBinding Δ ⟨x, 0⟩ = some (compileBinding b)

theorem CtxRel.lookup {Γ : Fun.Ctx} {Δ : Ctx} (h : CtxRel Γ Δ) {x : String} {b : Fun.Binding}
    (hl : lookupCtx Γ x = some b) :
    lookupBinding Δ ⟨x, 0⟩ = some ⟨⟨x, 0⟩, compileChi b.chi, compileTy b.ty⟩ := by
  have := h x b hl
  have hv : (⟨b.var, 0⟩ : Ident) = ⟨x, 0⟩ := lookupBinding_var this
  rw [this, compileBinding, hv]

/-- an identifier as the translation produces them: id 0, name satisfying `G` (e.g. `· ≠ "ς"`) -/
def GoodId (G : String → Prop) (v : Ident) : Prop := v.id = 0 ∧ G v.name

/-- the generated names satisfy `G` -/
structure FreshGood (G : String → Prop) : Prop where
  var : ∀ used, G (freshName used "x").1
  covar : ∀ used, G (freshName used "a").1

theorem FreshGood.freshCovar {G : String → Prop} (h : FreshGood G) (st : CompileState) :
    GoodId G ⟨(freshCovar st).1, 0⟩ := ⟨rfl, h.covar _⟩

theorem FreshGood.freshVar {G : String → Prop} (h : FreshGood G) (st : CompileState) :
    GoodId G ⟨(freshVar st).1, 0⟩ := ⟨rfl, h.var _⟩

/-- every name of `Δ` is in the used-names set, has id 0 and satisfies `G` -/
def NamesIn (G : String → Prop) (Δ : Ctx) (st : CompileState) : Prop :=
  ∀ b ∈ Δ, b.var.name ∈ st.usedVars ∧ GoodId G b.var

theorem NamesIn.mono {G : String → Prop} {Δ : Ctx} {st st' : CompileState} (h : NamesIn G Δ st)
    (hf : Fresh st st') : NamesIn G Δ st' := fun b hb => ⟨hf.vars.subset (h b hb).1, (h b hb).2⟩

theorem NamesIn.cons {G : String → Prop} {Δ : Ctx} {st : CompileState} (h : NamesIn G Δ st)
    {a : Binding} (ha : a.var.name ∈ st.usedVars) (hg : GoodId G a.var) : NamesIn G (a :: Δ) st := by
  intro b hb
  rcases List.mem_cons.1 hb with rfl | hb
  · exact ⟨ha, hg⟩
  · exact h b hb

theorem NamesIn.append {G : String → Prop} {Δ : Ctx} {st : CompileState} (h : NamesIn G Δ st)
    {ctx : Ctx} (ha : ∀ a ∈ ctx, a.var.name ∈ st.usedVars ∧ GoodId G a.var) :
    NamesIn G (ctx ++ Δ) st := by
  intro b hb
  rcases List.mem_append.1 hb with hb | hb
  · exact ha b hb
  · exact h b hb

/-- a name outside the used-names set is not a name of `Δ` -/
theorem NamesIn.fresh {G : String → Prop} {Δ : Ctx} {st : CompileState} (h : NamesIn G Δ st)
    {x : String} (hx : x ∉ st.usedVars) : ∀ b ∈ Δ, b.var ≠ ⟨x, 0⟩ := by
  intro b hb e
  have := (h b hb).1
  rw [e] at this
  exact hx this

theorem NamesIn.good {G : String → Prop} {Δ : Ctx} {st : CompileState} (h : NamesIn G Δ st)
    {v : Ident} {b : Binding} (hl : lookupBinding Δ v = some b) : GoodId G v := by
  have := (h b (lookupBinding_mem hl)).2
  rwa [lookupBinding_var hl] at this

/-- user binder names: in the used-names set and satisfying `G` -/
def BIn (G : String → Prop) (l : List String) (st : CompileState) : Prop :=
  ∀ x ∈ l, x ∈ st.usedVars ∧ G x

theorem BIn.mono {G : String → Prop} {l : List String} {st st' : CompileState} (h : BIn G l st)
    (hf : Fresh st st') : BIn G l st' := fun x hx => ⟨hf.vars.subset (h x hx).1, (h x hx).2⟩

theorem BIn.sub {G : String → Prop} {l l' : List String} {st : CompileState} (h : BIn G l st)
    (hs : ∀ x ∈ l', x ∈ l) : BIn G l' st := fun x hx => h x (hs x hx)

theorem BIn.good {G : String → Prop} {l : List String} {st : CompileState} (h : BIn G l st)
    {x : String} (hx : x ∈ l) : GoodId G ⟨x, 0⟩ := ⟨rfl, (h x hx).2⟩

theorem lookupCtx_snoc (Γ : Fun.Ctx) (a : Fun.Binding) (x : String) :
    lookupCtx (Γ ++ [a]) x = if a.var = x then some a else lookupCtx Γ x := by
  simp only [lookupCtx, List.reverse_append, List.reverse_cons, List.reverse_nil, List.nil_append,
    List.singleton_append, List.find?_cons]
  by_cases h : a.var = x <;> simp [h]

/-- extension by a user binder: `Γ, x` on the Fun side, `x :: Δ` on the Core side -/
theorem CtxRel.snoc {Γ : Fun.Ctx} {Δ : Ctx} (h : CtxRel Γ Δ) (a : Fun.Binding) :
    CtxRel (Γ ++ [a]) (compileBinding a :: Δ) := by
  intro x b hb
  rw [lookupCtx_snoc] at hb
  by_cases hx : a.var = x
  · rw [if_pos hx] at hb
    cases hb
    subst hx
    exact lookupBinding_cons_self (compileBinding a) Δ
  · rw [if_neg hx] at hb
    rw [lookupBinding_cons_ne]
    · exact h x b hb
    · intro e
      exact hx (by simpa [compileBinding] using congrArg Ident.name e)

/-- extension of the Core context by a name that is not a name of `Δ` (a generated name) -/
theorem CtxRel.cons_fresh {Γ : Fun.Ctx} {Δ : Ctx} (h : CtxRel Γ Δ) (a : Binding)
    (ha : ∀ b ∈ Δ, b.var ≠ a.var) : CtxRel Γ (a :: Δ) := by
  intro x b hb
  have := h x b hb
  rw [lookupBinding_cons_ne]
  · exact this
  · intro e
    have hm := lookupBinding_mem this
    exact ha _ hm (by rw [e]; exact lookupBinding_var this)

theorem find?_reverse_of_nodup {p : Fun.Binding → Bool} {x : String}
    (hp : ∀ b, p b = true ↔ b.var = x) : ∀ (l : Fun.Ctx), (l.map (·.var)).Nodup →
    l.reverse.find? p = l.find? p
  | [], _ => rfl
  | b :: r, hn => by
    simp only [List.map_cons, List.nodup_cons] at hn
    simp only [List.reverse_cons, List.find?_append, List.find?_cons, List.find?_nil]
    rw [find?_reverse_of_nodup hp r hn.2]
    by_cases hb : p b = true
    · have hx := (hp b).1 hb
      have : r.find? p = none := by
        rw [List.find?_eq_none]
        intro c hc hpc
        have := (hp c).1 (by simpa using hpc)
        exact hn.1 (List.mem_map.2 ⟨c, hc, by rw [this, hx]⟩)
      simp [this, hb]
    · have hb' : p b = false := by simpa using hb
      simp only [hb']
      cases r.find? p <;> rfl

theorem lookupCtx_append (Γ ctx : Fun.Ctx) (x : String) (hn : (ctx.map (·.var)).Nodup) :
    lookupCtx (Γ ++ ctx) x = (match ctx.find? (fun b => b.var = x) with
      | some b => some b
      | none => lookupCtx Γ x) := by
  simp only [lookupCtx, List.reverse_append, List.find?_append]
  rw [find?_reverse_of_nodup (x := x) (by intro b; simp) ctx hn]
  cases ctx.find? (fun b => decide (b.var = x)) <;> rfl

theorem lookupBinding_compileContext (ctx : Fun.Ctx) (x : String) :
    lookupBinding (compileContext ctx) ⟨x, 0⟩ = (ctx.find? (fun b => b.var = x)).map compileBinding := by
  induction ctx with
  | nil => rfl
  | cons b r ih =>
    simp only [compileContext_eq, List.map_cons, lookupBinding, List.find?_cons]
    by_cases h : b.var = x
    · simp [compileBinding, h]
    · have : ¬ (compileBinding b).var = ⟨x, 0⟩ := by
        intro e
        exact h (by simpa [compileBinding] using congrArg Ident.name e)
      rw [if_neg this]
      simp only [h, decide_false]
      rw [← compileContext_eq]
      exact ih

/-- extension by the binders of a clause -/
theorem CtxRel.append {Γ : Fun.Ctx} {Δ : Ctx} (h : CtxRel Γ Δ) (ctx : Fun.Ctx)
    (hn : (ctx.map (·.var)).Nodup) : CtxRel (Γ ++ ctx) (compileContext ctx ++ Δ) := by
  intro x b hb
  rw [lookupCtx_append _ _ _ hn] at hb
  rw [lookupBinding_append, lookupBinding_compileContext]
  cases hf : ctx.find? (fun b => b.var = x) with
  | some b' =>
    simp only [hf] at hb
    cases hb
    rfl
  | none =>
    simp only [hf] at hb
    simp only [Option.map_none]
    exact h x b hb

theorem mem_compileContext {ctx : Fun.Ctx} {a : Binding} (h : a ∈ compileContext ctx) :
    ∃ b ∈ ctx, a = compileBinding b := by
  rw [compileContext_eq] at h
  obtain ⟨b, hb, rfl⟩ := List.mem_map.1 h
  exact ⟨b, hb, rfl⟩

/-! ## the binders of a clause -/

theorem bindNames_vars : ∀ (ns : List String) (sig : Fun.Ctx), ns.length = sig.length →
    (bindNames ns sig).map (·.var) = ns
  | [], [], _ => rfl
  | [], _ :: _, h => by simp at h
  | _ :: _, [], h => by simp at h
  | n :: ns, b :: bs, h => by
    simp only [List.length_cons, Nat.add_right_cancel_iff] at h
    have := bindNames_vars ns bs h
    simp only [bindNames, List.zip_cons_cons, List.map_cons, List.cons.injEq, true_and] at this ⊢
    exact this

theorem ctxMatches_bindNames : ∀ (ns : List String) (sig : Fun.Ctx), ns.length = sig.length →
    ctxMatches (compileContext (bindNames ns sig)) (compileContext sig) = true
  | [], [], _ => rfl
  | [], _ :: _, h => by simp at h
  | _ :: _, [], h => by simp at h
  | n :: ns, b :: bs, h => by
    simp only [List.length_cons, Nat.add_right_cancel_iff] at h
    have := ctxMatches_bindNames ns bs h
    simp only [bindNames, compileContext_eq, List.zip_cons_cons, List.map_cons, ctxMatches,
      Bool.and_eq_true] at this ⊢
    exact ⟨⟨PC.beq_iff.2 rfl, Ty.beq_iff.2 rfl⟩, this⟩

theorem ctxMatches_append : ∀ (a b : Ctx) (x y : Binding), ctxMatches a b = true → x.chi = y.chi →
    x.ty = y.ty → ctxMatches (a ++ [x]) (b ++ [y]) = true
  | [], [], x, y, _, h1, h2 => by
    simp [ctxMatches, PC.beq_iff.2 h1, Ty.beq_iff.2 h2]
  | [], _ :: _, _, _, h, _, _ => by simp [ctxMatches] at h
  | _ :: _, [], _, _, h, _, _ => by simp [ctxMatches] at h
  | a :: as, b :: bs, x, y, h, h1, h2 => by
    simp only [ctxMatches, Bool.and_eq_true, List.cons_append] at h ⊢
    exact ⟨h.1, ctxMatches_append as bs x y h.2 h1 h2⟩

/-! ## the target program -/

/-- program.rs: the translated data type declarations -/
def dataTypesOf (p : Fun.CheckedProgram) : List TypeDecl :=
  p.dataTypes.map fun d => ⟨⟨d.name, 0⟩, d.ctors.map compileCtor⟩

/-- program.rs: the translated codata type declarations -/
def codataTypesOf (p : Fun.CheckedProgram) : List TypeDecl :=
  p.codataTypes.map fun d => ⟨⟨d.name, 0⟩, d.dtors.map compileDtor⟩

/-- what the translation of a term assumes about the program `P` its output is checked in -/
structure Env (p : Fun.CheckedProgram) (P : Prog) : Prop where
  data : P.dataTypes = dataTypesOf p
  codata : P.codataTypes = codataTypesOf p
  user : ∀ d ∈ p.defs, d.name ≠ "main" → ∃ D a, P.defs.find? (fun D => D.name = ⟨d.name, 0⟩) = some D ∧
    D.ctx = compileContext d.ctx ++ [⟨a, .cns, compileTy d.retTy⟩]

def SigLifted (P : Prog) (st : CompileState) : Prop :=
  ∀ D ∈ st.liftedStatements, P.defs.find? (fun d => d.name = D.name) = some D

/-- every lifted definition checks in its own context, all its identifiers are good, its body is
`strict` (Scc/Core/TypedStrict.lean) -/
def LiftedOk (P : Prog) (G : String → Prop) (st : CompileState) : Prop :=
  ∀ D ∈ st.liftedStatements, D.body.check P D.ctx = true ∧ allIdsStmt (GoodId G) D.body ∧
    (∀ b ∈ D.ctx, GoodId G b.var) ∧ D.body.strict P = true

theorem SigLifted.of_fresh {P : Prog} {a b : CompileState} (h : SigLifted P b) (hf : Fresh a b) :
    SigLifted P a := by
  obtain ⟨gl, new, _, _, _, e, _⟩ := hf.labels
  intro D hD
  exact h D (by rw [e]; simp [hD])

theorem find?_ident0 {α : Type} (l : List α) (nm : α → String) (n : String) (f : α → TypeDecl)
    (hf : ∀ a, (f a).name = ⟨nm a, 0⟩) :
    findDecl (l.map f) ⟨n, 0⟩ = (l.find? (fun a => nm a = n)).map f := by
  unfold findDecl
  induction l with
  | nil => rfl
  | cons a r ih =>
    simp only [List.map_cons, List.find?_cons]
    by_cases h : nm a = n
    · simp [hf, h]
    · have : ¬ (f a).name = ⟨n, 0⟩ := by
        rw [hf]
        intro e
        exact h (by simpa using congrArg Ident.name e)
      simp only [this, decide_false, h]
      exact ih

theorem findSig_ident0 {α : Type} (l : List α) (nm : α → String) (n : String) (f : α → XtorSig)
    (hf : ∀ a, (f a).name = ⟨nm a, 0⟩) :
    findSig (l.map f) ⟨n, 0⟩ = (l.find? (fun a => nm a = n)).map f := by
  unfold findSig
  induction l with
  | nil => rfl
  | cons a r ih =>
    simp only [List.map_cons, List.find?_cons]
    by_cases h : nm a = n
    · simp [hf, h]
    · have : ¬ (f a).name = ⟨n, 0⟩ := by
        rw [hf]
        intro e
        exact h (by simpa using congrArg Ident.name e)
      simp only [this, decide_false, h]
      exact ih

theorem findDecl_data {p : Fun.CheckedProgram} {P : Prog} (env : Env p P) {τ : Fun.Ty} {d : Fun.Data}
    (h : dataDecl p τ = some d) :
    ∃ T, compileTy τ = .decl T ∧
      findDecl P.dataTypes T = some ⟨⟨d.name, 0⟩, d.ctors.map compileCtor⟩ := by
  cases τ with
  | i64 => simp [dataDecl] at h
  | decl n a =>
    simp only [dataDecl] at h
    refine ⟨⟨printTy (.decl n a), 0⟩, rfl, ?_⟩
    rw [env.data, dataTypesOf, find?_ident0 _ (fun d : Fun.Data => d.name) _ _ (fun _ => rfl), h]
    rfl

theorem findDecl_codata {p : Fun.CheckedProgram} {P : Prog} (env : Env p P) {τ : Fun.Ty}
    {d : Fun.Codata} (h : codataDecl p τ = some d) :
    ∃ T, compileTy τ = .decl T ∧
      findDecl P.codataTypes T = some ⟨⟨d.name, 0⟩, d.dtors.map compileDtor⟩ := by
  cases τ with
  | i64 => simp [codataDecl] at h
  | decl n a =>
    simp only [codataDecl] at h
    refine ⟨⟨printTy (.decl n a), 0⟩, rfl, ?_⟩
    rw [env.codata, codataTypesOf, find?_ident0 _ (fun d : Fun.Codata => d.name) _ _ (fun _ => rfl), h]
    rfl

theorem findSig_ctor {sigs : List Fun.CtorSig} {k : String} {c : Fun.CtorSig}
    (h : sigs.find? (fun c => c.name = k) = some c) :
    findSig (sigs.map compileCtor) ⟨k, 0⟩ = some (compileCtor c) := by
  rw [findSig_ident0 _ (fun c : Fun.CtorSig => c.name) _ _ (fun _ => rfl), h]
  rfl

theorem findSig_dtor {sigs : List Fun.DtorSig} {k : String} {c : Fun.DtorSig}
    (h : sigs.find? (fun c => c.name = k) = some c) :
    findSig (sigs.map compileDtor) ⟨k, 0⟩ = some (compileDtor c) := by
  rw [findSig_ident0 _ (fun c : Fun.DtorSig => c.name) _ _ (fun _ => rfl), h]
  rfl

/-! ## the capture guard -/

theorem bindersOccurFree_false {binders : List String} {c : Term}
    (h : bindersOccurFree binders c = false) : ∀ b ∈ tfvTerm c [], b.var.name ∉ binders := by
  intro b hb hm
  simp only [bindersOccurFree, List.any_eq_false] at h
  exact h b hb (by simpa using hm)

/-! ## binder names -/

theorem clausesNames_sub : ∀ (cs : Fun.Clauses), ∀ x ∈ clausesNames cs, x ∈ binderNamesClauses cs
  | .nil, x, h => by simp [clausesNames] at h
  | .cons _ _ ns _ body rest, x, h => by
    simp only [clausesNames, List.mem_append] at h
    simp only [binderNamesClauses, List.mem_append]
    rcases h with h | h
    · exact .inl (.inl h)
    · exact .inr (clausesNames_sub rest x h)

/-! ## "checks, all identifiers are good, and strict" -/

section
variable (P : Prog) (G : String → Prop)

def TOK (Δ : Ctx) (pc : PC) (ty : Ty) (t : Term) : Prop :=
  t.check P Δ pc ty = true ∧ allIdsTerm (GoodId G) t ∧ t.strict P = true
def SOK (Δ : Ctx) (s : Stmt) : Prop :=
  s.check P Δ = true ∧ allIdsStmt (GoodId G) s ∧ s.strict P = true
def AOK (Δ : Ctx) (ctx : Ctx) (as : Args) : Prop :=
  as.check P Δ ctx = true ∧ allIdsArgs (GoodId G) as ∧ as.strict P = true
def COK (Δ : Ctx) (sigs : List XtorSig) (cl : Clauses) : Prop :=
  cl.check P Δ sigs = true ∧ allIdsClauses (GoodId G) cl ∧ cl.strict P = true

end

variable {P : Prog} {G : String → Prop}

theorem TOK.var {Δ : Ctx} {pc : PC} {ty : Ty} {v : Ident}
    (hl : lookupBinding Δ v = some ⟨v, pc, ty⟩) (hg : GoodId G v) : TOK P G Δ pc ty (.var pc v ty) :=
  ⟨check_var_iff.2 ⟨rfl, rfl, hl⟩, hg, by simp [Term.strict]⟩

theorem TOK.var_head {Δ : Ctx} {pc : PC} {ty : Ty} {v : Ident} (hg : GoodId G v) :
    TOK P G (⟨v, pc, ty⟩ :: Δ) pc ty (.var pc v ty) :=
  TOK.var (lookupBinding_cons_self ⟨v, pc, ty⟩ Δ) hg

theorem TOK.mu {Δ : Ctx} {pc : PC} {ty : Ty} {v : Ident} {s : Stmt} (hg : GoodId G v)
    (hty : tyDeclared P ty = true) (hs : SOK P G (⟨v, pc.flip, ty⟩ :: Δ) s) :
    TOK P G Δ pc ty (.mu pc v ty s) :=
  ⟨check_mu_iff.2 ⟨rfl, rfl, hs.1⟩, ⟨hg, hs.2.1⟩, by simp [Term.strict, hty, hs.2.2]⟩

theorem TOK.lit {Δ : Ctx} (n : Int) : TOK P G Δ .prd .i64 (.lit n) :=
  ⟨by simp [Term.check, PC.beq_iff, Ty.beq_iff], trivial, by simp [Term.strict]⟩

theorem TOK.op {Δ : Ctx} {a b : Term} {o : BinOp} (ha : TOK P G Δ .prd .i64 a)
    (hb : TOK P G Δ .prd .i64 b) : TOK P G Δ .prd .i64 (.op a o b) := by
  refine ⟨?_, ⟨ha.2.1, hb.2.1⟩, by simp [Term.strict, ha.2.2, hb.2.2]⟩
  simp only [Term.check, Bool.and_eq_true]
  exact ⟨⟨⟨PC.beq_iff.2 rfl, Ty.beq_iff.2 rfl⟩, ha.1⟩, hb.1⟩

theorem TOK.xtor {Δ : Ctx} {pc : PC} {T : Ident} {d : TypeDecl} {sig : XtorSig} {name : Ident}
    {as : Args} (hd : findDecl (if pc == .prd then P.dataTypes else P.codataTypes) T = some d)
    (hs : findSig d.xtors name = some sig) (ha : AOK P G Δ sig.args as) :
    TOK P G Δ pc (.decl T) (.xtor pc name as (.decl T)) :=
  ⟨check_xtor_iff.2 ⟨rfl, rfl, T, d, sig, rfl, hd, hs, ha.1⟩, ha.2.1, by simp [Term.strict, ha.2.2]⟩

theorem TOK.xcase {Δ : Ctx} {pc : PC} {T : Ident} {d : TypeDecl} {cl : Clauses}
    (hd : findDecl (if pc == .prd then P.codataTypes else P.dataTypes) T = some d)
    (hc : COK P G Δ d.xtors cl) (hv : cl.covers d.xtors = true)
    (htags : cl.tags = d.xtors.map (·.name)) :
    TOK P G Δ pc (.decl T) (.xcase pc (.decl T) cl) :=
  ⟨check_xcase_iff.2 ⟨rfl, rfl, T, d, rfl, hd, hc.1, hv⟩, hc.2.1, by
    simp only [Term.strict, hd, Bool.and_eq_true, decide_eq_true_eq]
    exact ⟨htags, hc.2.2⟩⟩

theorem TOK.weaken_cons {Δ : Ctx} {pc : PC} {ty : Ty} {t : Term} (a : Binding)
    (h : TOK P G Δ pc ty t) (hn : ∀ b ∈ tfvTerm t [], b.var ≠ a.var) : TOK P G (a :: Δ) pc ty t :=
  ⟨term_weaken_cons a h.1 hn, h.2⟩

theorem TOK.weaken_append {Δ : Ctx} {pc : PC} {ty : Ty} {t : Term} (ctx : Ctx)
    (h : TOK P G Δ pc ty t) (hn : ∀ b ∈ tfvTerm t [], ∀ a ∈ ctx, a.var ≠ b.var) :
    TOK P G (ctx ++ Δ) pc ty t :=
  ⟨term_weaken_append ctx h.1 hn, h.2⟩

theorem SOK.cut {Δ : Ctx} {ty : Ty} {p c : Term} (hty : tyDeclared P ty = true)
    (hp : TOK P G Δ .prd ty p) (hc : TOK P G Δ .cns ty c) : SOK P G Δ (.cut ty p c) := by
  refine ⟨?_, ⟨hp.2.1, hc.2.1⟩, by simp [Stmt.strict, hty, hp.2.2, hc.2.2]⟩
  simp only [Stmt.check, Bool.and_eq_true]
  exact ⟨hp.1, hc.1⟩

theorem SOK.ifc {Δ : Ctx} {srt : IfSort} {a b : Term} {t e : Stmt} (ha : TOK P G Δ .prd .i64 a)
    (hb : TOK P G Δ .prd .i64 b) (ht : SOK P G Δ t) (he : SOK P G Δ e) :
    SOK P G Δ (.ifc srt a b t e) := by
  refine ⟨?_, ⟨ha.2.1, hb.2.1, ht.2.1, he.2.1⟩,
    by simp [Stmt.strict, ha.2.2, hb.2.2, ht.2.2, he.2.2]⟩
  simp only [Stmt.check, Bool.and_eq_true]
  exact ⟨⟨⟨ha.1, hb.1⟩, ht.1⟩, he.1⟩

theorem SOK.ifz {Δ : Ctx} {srt : IfSort} {a : Term} {t e : Stmt} (ha : TOK P G Δ .prd .i64 a)
    (ht : SOK P G Δ t) (he : SOK P G Δ e) : SOK P G Δ (.ifz srt a t e) := by
  refine ⟨?_, ⟨ha.2.1, ht.2.1, he.2.1⟩, by simp [Stmt.strict, ha.2.2, ht.2.2, he.2.2]⟩
  simp only [Stmt.check, Bool.and_eq_true]
  exact ⟨⟨ha.1, ht.1⟩, he.1⟩

theorem SOK.print {Δ : Ctx} {nl : Bool} {a : Term} {n : Stmt} (ha : TOK P G Δ .prd .i64 a)
    (hn : SOK P G Δ n) : SOK P G Δ (.print nl a n) := by
  refine ⟨?_, ⟨ha.2.1, hn.2.1⟩, by simp [Stmt.strict, ha.2.2, hn.2.2]⟩
  simp only [Stmt.check, Bool.and_eq_true]
  exact ⟨ha.1, hn.1⟩

theorem SOK.exit {Δ : Ctx} {a : Term} {ty : Ty} (ha : TOK P G Δ .prd .i64 a) :
    SOK P G Δ (.exit a ty) :=
  ⟨by simp only [Stmt.check]; exact ha.1, ha.2.1, by simp [Stmt.strict, ha.2.2]⟩

theorem SOK.call {Δ : Ctx} {f : Ident} {as : Args} {ty : Ty} {D : Def}
    (hD : P.defs.find? (fun d => d.name = f) = some D) (ha : AOK P G Δ D.ctx as) :
    SOK P G Δ (.call f as ty) :=
  ⟨check_call_iff.2 ⟨D, hD, ha.1⟩, ha.2.1, by simp [Stmt.strict, ha.2.2]⟩

theorem AOK.nil {Δ : Ctx} : AOK P G Δ [] .nil :=
  ⟨by simp [Args.check], trivial, by simp [Args.strict]⟩

theorem AOK.cons {Δ : Ctx} {pc : PC} {t : Term} {r : Args} {b : Binding} {bs : Ctx}
    (hpc : pc = b.chi) (ht : TOK P G Δ pc b.ty t) (hr : AOK P G Δ bs r) :
    AOK P G Δ (b :: bs) (.cons pc t r) := by
  refine ⟨?_, ⟨ht.2.1, hr.2.1⟩, by simp [Args.strict, ht.2.2, hr.2.2]⟩
  simp only [Args.check, Bool.and_eq_true]
  exact ⟨⟨PC.beq_iff.2 hpc, ht.1⟩, hr.1⟩

theorem AOK.snoc {Δ : Ctx} {ctx : Ctx} {as : Args} {pc : PC} {t : Term} {b : Binding}
    (ha : AOK P G Δ ctx as) (hpc : pc = b.chi) (ht : TOK P G Δ pc b.ty t) :
    AOK P G Δ (ctx ++ [b]) (argsSnoc as pc t) :=
  ⟨args_snoc_check as ctx pc t b ha.1 hpc ht.1, allIds_argsSnoc as pc t ha.2.1 ht.2.1,
    strict_argsSnoc as pc t ha.2.2 ht.2.2⟩

theorem COK.nil {Δ : Ctx} {sigs : List XtorSig} : COK P G Δ sigs .nil :=
  ⟨by simp [Clauses.check], trivial, by simp [Clauses.strict]⟩

theorem COK.cons {Δ : Ctx} {sigs : List XtorSig} {x : Ident} {ctx : Ctx} {b : Stmt} {r : Clauses}
    {sig : XtorSig} (hs : findSig sigs x = some sig) (hm : ctxMatches ctx sig.args = true)
    (hg : ∀ a ∈ ctx, GoodId G a.var) (hb : SOK P G (ctx ++ Δ) b) (hr : COK P G Δ sigs r) :
    COK P G Δ sigs (.cons x ctx b r) := by
  refine ⟨?_, ⟨hg, hb.2.1, hr.2.1⟩, by simp [Clauses.strict, hb.2.2, hr.2.2]⟩
  simp only [Clauses.check, Bool.and_eq_true, hs]
  exact ⟨⟨hm, hb.1⟩, hr.1⟩

/-! ## declared types -/

/-- an instantiated Fun type is a declared Core type of the target program -/
theorem tyDeclared_of_tyIn {p : Fun.CheckedProgram} (env : Env p P) {τ : Fun.Ty} (h : TyIn p τ) :
    tyDeclared P (compileTy τ) = true := by
  rcases h with rfl | h | h
  · rfl
  · cases hd : dataDecl p τ with
    | none => simp [hd] at h
    | some d =>
      obtain ⟨T, hT, hf⟩ := findDecl_data env hd
      rw [hT]
      simp [tyDeclared, hf]
  · cases hd : codataDecl p τ with
    | none => simp [hd] at h
    | some d =>
      obtain ⟨T, hT, hf⟩ := findDecl_codata env hd
      rw [hT]
      simp [tyDeclared, hf]

theorem tyDeclared_of_typed {p : Fun.CheckedProgram} (env : Env p P) {t : Fun.Term} {Γ : Fun.Ctx}
    {τ : Fun.Ty} (h : TypedM p t Γ τ) : tyDeclared P (compileTy τ) = true :=
  tyDeclared_of_tyIn env (tyIn_of_typed p t Γ τ h)

end Scc.Fun2Core.Typed
