/-
  Scc.Fun2Core.SemCod3 — `force_cr` / `force_k`: every consumer of a codata type that is related to a
  stack of the Fun machine can be forced (`Forced`, Scc/Fun2Core/SemCod1.lean): by mutual recursion on
  the derivations of the relations `CRel` (consumer terms: a covariable bound to a destructor value, a
  continuation lifted by `share`, a destructor `d(args; c')` whose pure arguments the Core machine
  now evaluates and whose continuation argument `c'` it focuses — recursively forcing it if it is of
  a codata type) and `KRelD` (the closures `μ~x.share_k(…)`, `μ~x.⟨x | c⟩`).
-/
import Scc.Fun2Core.SemCod2

namespace Scc.Fun2Core.Sem
open Scc Scc.Fun2Core.Typed

variable {q : Core.Prog} {p : Fun.CheckedProgram}

theorem argsSnoc_eq : ∀ (as : Core.Args) (pc : Core.PC) (t : Core.Term),
    argsSnoc as pc t = appArgs as (.cons pc t .nil)
  | .nil, _, _ => rfl
  | .cons p a r, pc, t => by simp [argsSnoc, appArgs, argsSnoc_eq r pc t]

theorem mem_tfvArgs_app {y : Core.Binding} : ∀ (a b : Core.Args),
    y ∈ tfvArgs (appArgs a b) [] ↔ y ∈ tfvArgs a [] ∨ y ∈ tfvArgs b []
  | .nil, b => by simp [appArgs, tfvArgs]
  | .cons pc t r, b => by
    simp only [appArgs]
    rw [mem_tfv_args_cons, mem_tfv_args_cons, mem_tfvArgs_app r b, or_assoc]

theorem bind_snoc : ∀ (ctx : Core.Ctx) (Vs : List CVal) (ρ : CEnv) (b : Core.Binding) (V : CVal),
    ctx.length = Vs.length →
    Core.Env.bind ρ (ctx ++ [b]) (Vs ++ [V]) = Core.Env.bind ((b.var, V) :: ρ) ctx Vs
  | [], [], ρ, b, V, _ => by simp [Core.Env.bind]
  | [], _ :: _, _, _, _, h => by simp at h
  | _ :: _, [], _, _, _, h => by simp at h
  | c :: ctx, W :: Vs, ρ, b, V, h => by
    simp only [List.cons_append, Core.Env.bind]
    rw [bind_snoc ctx Vs ρ b V (by simpa using h)]

/-- the shapes of the consumer values of a codata type -/
theorem KRelD.shape {n : Nat} {k : Fun.Stack} {cv : CVal} (h : KRelD (GP p) p q n k cv) :
    (∃ d Vs, cv = .dtor ⟨d, 0⟩ Vs) ∨ (∃ ρc y s, cv = .mutilde ρc y s) := by
  cases h with
  | dtorA _ _ => exact .inl ⟨_, _, rfl⟩
  | dtorS _ _ _ _ => exact .inl ⟨_, _, rfl⟩
  | shared _ _ _ _ _ => exact .inr ⟨_, _, _, rfl⟩
  | eta _ _ _ _ _ _ _ _ => exact .inr ⟨_, _, _, rfl⟩

/-- the induction hypothesis for a consumer term -/
structure ForceCrIH (p : Fun.CheckedProgram) (q : Core.Prog) (n : Nat) (k : Fun.Stack) (c : Core.Term)
    (ρ0 : CEnv) : Prop where
  run : Core.isCodata q.codataTypes (coreGetType c) = true →
    ∀ {cty : Core.Ty} {P : Core.Term} {ρ : CEnv} {out : Out} {m : Nat},
      Core.isCodata q.codataTypes cty = true → CdPrd P → n ≤ m →
      AgreeOn (tfvTerm c []) ρ0 ρ → PrdOK P ρ m → Forced p q k cty P c ρ out m

/-- the induction hypothesis for a forwarding closure -/
structure ForceKIH (p : Fun.CheckedProgram) (q : Core.Prog) (n : Nat) (k : Fun.Stack) (cv : CVal) :
    Prop where
  run : ∀ {ρx : CEnv} {x : Core.Ident} {S : Core.Stmt}, cv = .mutilde ρx x S →
    ∀ {pv : CVal} {ρ1 : CEnv} {out : Out} {m : Nat}, n ≤ m →
      AgreeOn (tfvStmt S []) ((x, pv) :: ρx) ρ1 → ForcedK p q k S pv ρ1 out m

/-- a consumer with a value: a covariable or a lifted continuation -/
theorem force_mkD {n : Nat} {k : Fun.Stack} {c : Core.Term} {ρ0 : CEnv} {cv : CVal}
    (hcv : Core.cnsVal ρ0 c = .ok cv) (hk : KRelD (GP p) p q n k cv) (hi : Inert c)
    (IH : ForceKIH p q n k cv)
    {cty : Core.Ty} {P : Core.Term} {ρ : CEnv} {out : Out} {m : Nat}
    (hcd : Core.isCodata q.codataTypes cty = true) (hP : CdPrd P) (hnm : n ≤ m)
    (hag : AgreeOn (tfvTerm c []) ρ0 ρ) (hok : PrdOK P ρ m) : Forced p q k cty P c ρ out m := by
  obtain ⟨pv, hpv⟩ := hok ρ (.refl _ _)
  cases c with
  | xtor pc nm as ty => exact False.elim hi
  | lit _ => simp [Core.cnsVal] at hcv
  | op _ _ _ => simp [Core.cnsVal] at hcv
  | xcase pc ty cs =>
    simp only [Core.cnsVal, Except.ok.injEq] at hcv
    subst hcv
    rcases hk.shape with ⟨_, _, e⟩ | ⟨_, _, _, e⟩ <;> cases e
  | var pc a ty =>
    simp only [Core.cnsVal] at hcv
    have hl : Core.cnsVal ρ (.var pc a ty) = .ok cv := by
      simp only [Core.cnsVal]
      rw [hag ⟨a, pc, ty⟩ (mem_tfv_var.2 rfl)]; exact hcv
    rcases hk.shape with ⟨d, Vs, rfl⟩ | ⟨ρx, x, S, rfl⟩
    · exact ⟨0, _, ρ, pv, d, Vs, .refl _, rfl, Nat.le_refl _, .refl _ _, hpv,
        step_cut_cd_dtor hcd hP trivial hl hpv, hk.mono hnm⟩
    · have s1 := step_cut_cd_mu (q := q) hcd (out := out) (n := m) hP (c := .var pc a ty) trivial hl hpv
      obtain ⟨i, S1, d, Vs, hc, ho, hm1, hs, hk1⟩ :=
        IH.run rfl (pv := pv) (ρ1 := (x, pv) :: ρx) (out := out) hnm (.refl _ _)
      exact ⟨1 + i, S1, ρ, pv, d, Vs, (CSteps.one s1).trans hc, ho, hm1, .refl _ _, hpv, hs, hk1⟩
  | mu pc x ty S =>
    have hpc : pc = .cns := by
      cases pc
      · exact False.elim hi
      · rfl
    subst hpc
    simp only [Core.cnsVal, Except.ok.injEq] at hcv
    subst hcv
    have s1 := step_cut_cd_mu (q := q) hcd (out := out) (n := m) hP (c := .mu .cns x ty S) trivial
      (ρ' := ρ) (x := x) (s := S) rfl hpv
    obtain ⟨i, S1, d, Vs, hc, ho, hm1, hs, hk1⟩ :=
      IH.run rfl (pv := pv) (ρ1 := (x, pv) :: ρ) (out := out) hnm
        (AgreeOn.cons (hag.mono fun b hb => by
          obtain ⟨h1, h2⟩ := List.mem_filter.1 hb
          exact mem_tfv_mu_of h1 (by simpa using h2)))
    exact ⟨1 + i, S1, ρ, pv, d, Vs, (CSteps.one s1).trans hc, ho, hm1, .refl _ _, hpv, hs, hk1⟩

/-- a destructor `d(args; c')` as a consumer term -/
theorem force_dtor {n : Nat} {d : String} {args : Fun.Terms} {env : Fun.Env} {k' : Fun.Stack}
    {ρ0i ρc : CEnv} {c' : Core.Term} {as' : Core.Args} {ty : Core.Ty} {st st' : CompileState}
    {gc : Fun.Clauses → Bool} {vs : List Fun.Value}
    (c1 : compileSubst args st = .ok (as', st')) (c2 : StOK q st') (c3 : ArgsNames args st)
    (c4 : pureFOs p gc args = true)
    (c5 : ∀ cs, gc cs = true → ∀ K cl, Fun.findClause K cs = some cl →
      GP p cl.body ∧ cl.names.Nodup ∧ cl.ctx.map (·.var) = cl.names)
    (c6 : pureArgs p args env = some vs)
    (e : EnvRel (GP p) p q n (fvArgs args) env ρ0i) (r : CRel (GP p) p q n k' c' ρ0i)
    (hs : ∀ b ∈ tfvTerm c' [], b.var.name = sig → b.var.id < n)
    (bd : BoundOn (tfvTerm (.xtor .cns ⟨d, 0⟩ (argsSnoc as' .cns c') ty) []) ρ0i)
    (a : AgreeOn (tfvTerm (.xtor .cns ⟨d, 0⟩ (argsSnoc as' .cns c') ty) []) ρ0i ρc)
    (IH : ForceCrIH p q n k' c' ρ0i)
    {cty : Core.Ty} {P : Core.Term} {ρ : CEnv} {out : Out} {m : Nat}
    (hcd : Core.isCodata q.codataTypes cty = true) (hP : CdPrd P) (hnm : n ≤ m)
    (hag : AgreeOn (tfvTerm (.xtor .cns ⟨d, 0⟩ (argsSnoc as' .cns c') ty) []) ρc ρ)
    (hok : PrdOK P ρ m) :
    Forced p q (.dtorScrut d args env :: k') cty P (.xtor .cns ⟨d, 0⟩ (argsSnoc as' .cns c') ty)
      ρ out m := by
  rw [argsSnoc_eq] at bd a hag ⊢
  have hagA := a.trans hag
  have hsubA : ∀ y ∈ tfvArgs as' [],
      y ∈ tfvTerm (.xtor .cns ⟨d, 0⟩ (appArgs as' (.cons .cns c' .nil)) ty) [] := fun y hy =>
    mem_tfv_xtor.2 ((mem_tfvArgs_app _ _).2 (.inl hy))
  have hsubC : ∀ y ∈ tfvTerm c' [],
      y ∈ tfvTerm (.xtor .cns ⟨d, 0⟩ (appArgs as' (.cons .cns c' .nil)) ty) [] := fun y hy =>
    mem_tfv_xtor.2 ((mem_tfvArgs_app _ _).2 (.inr (mem_tfv_args_cons.2 (.inl hy))))
  -- the arguments
  obtain ⟨i1, ρ1, n1, as'', Vs, hc1, hn1, hext1, hall, hsb, hav, hvl⟩ :=
    core_args (G := GP p) (q := q) (p := p) gc c5 args c4
      (fun a => .cut cty P (.xtor .cns ⟨d, 0⟩ a ty)) (argCtx_cd _ _ _ _ hP) (.cons .cns c' .nil) env vs
      st as' st' n ρ0i ρ m out .nil [] c1 c2 c3 c6 e (bd.mono hsubA) (hagA.mono hsubA) rfl trivial rfl
  simp only [appArgs, List.nil_append] at hc1 hsb hav
  -- the continuation argument
  have hsig' : ∀ b ∈ tfvTerm c' [], b.var.name = sig → b.var.id < n1 := fun b hb e' => by
    have := hs b hb e'; omega
  have hag' : AgreeOn (tfvTerm c' []) ρ0i ρ1 := by
    intro b hb
    rw [hext1.lookup b.var (fun e' => by have := hs b hb e'; omega)]
    exact hagA b (hsubC b hb)
  obtain ⟨i2, ρ2, n2, pc, z, tz, cv', hc2, hn2, hext2, hl, _, hka⟩ :=
    focus_cons r (by omega : n ≤ n1) hsig' hag'
      (fun h => .cut cty P (.xtor .cns ⟨d, 0⟩ (appArgs as'' (.cons .cns h .nil)) ty))
      (fun hv => argCtx_cd cty ty ⟨d, 0⟩ P hP (appArgs as'' (.cons .cns c' .nil)) .cns c'
        (fun h => appArgs as'' (.cons .cns h .nil)) (by
          rw [args_split_app _ _ hall, args_split_cons_nonvar hv]))
      out
      (fun hcd' _ a' s' => IH.run hcd' (cty := c'.ty) (P := .mu .prd a' c'.ty s') (ρ := ρ1)
        (out := out) (m := n1 + 1) (by rw [← coreGetType_ty]; exact hcd') trivial (by omega) hag'
        (prdOK_mu _ _ _ _ _ _))
  have hav2 : Core.argVals ρ2 (appArgs as'' (.cons .cns (.var pc z tz) .nil)) = .ok (Vs ++ [cv']) := by
    refine argVals_app_single as'' Vs ?_ hl
    rw [argVals_sigExt hext2 as'' hsb]; exact hav
  have hall2 : argsAllVar (appArgs as'' (.cons .cns (.var pc z tz) .nil)) = true := by
    simp [argsAllVar_app, hall, argsAllVar, Core.Term.isVar]
  have hext12 : SigExt m ρ ρ2 := hext1.trans hext2 hn1
  obtain ⟨pv, hpv⟩ := hok ρ2 hext12
  have s3 := step_cut_cd_xtor (q := q) hcd (ty := ty) (d := ⟨d, 0⟩) (out := out) (n := n2) hP hall2
    hav2 hpv
  exact ⟨i1 + i2, _, ρ2, pv, d, Vs ++ [cv'], hc1.trans hc2, rfl, by simp only; omega, hext12, hpv, s3,
    .dtorS (pureFOs_pure gc args c4) c6 (hvl.mono (by simp only; omega)) hka⟩

/-- the closure of a continuation lifted by `share` -/
theorem forcek_shared (X : Ctx p q) {n : Nat} {k : Fun.Stack} {ρ0 ρx : CEnv} {x0 : Core.Ident}
    {d : Core.Def} {ty : Core.Ty} (hd : d ∈ q.defs) (hc : d.ctx = tfvStmt d.body [])
    (bd : BoundOn ((tfvStmt (.call d.name (bindingsToArgs d.ctx) ty) []).filter (·.var ≠ x0)) ρ0)
    (a : AgreeOn ((tfvStmt (.call d.name (bindingsToArgs d.ctx) ty) []).filter (·.var ≠ x0)) ρ0 ρx)
    (IH : ForceKIH p q n k (.mutilde ρ0 x0 d.body))
    {pv : CVal} {ρ1 : CEnv} {out : Out} {m : Nat} (hnm : n ≤ m)
    (ha : AgreeOn (tfvStmt (.call d.name (bindingsToArgs d.ctx) ty) []) ((x0, pv) :: ρx) ρ1) :
    ForcedK p q k (.call d.name (bindingsToArgs d.ctx) ty) pv ρ1 out m := by
  have hag1 := (AgreeOn.cons (V := pv) a).trans ha
  have hmem : ∀ b ∈ d.ctx, b ∈ tfvStmt (.call d.name (bindingsToArgs d.ctx) ty) [] := by
    intro b hb
    exact mem_tfv_call.2 ((mem_tfvArgs_bindingsToArgs _ _).2 (.inr hb))
  have hb1 : BoundOn d.ctx ρ1 := by
    intro b hb
    rw [hag1 b (hmem b hb)]
    exact BoundOn.cons bd b (hmem b hb)
  obtain ⟨vals, ρn, h1, h2, h3⟩ := shared_call_env d.ctx hb1
  have hs := step_call_vars (q := q) (f := d.name) (ty := ty) (out := out) (n := m)
    (argsAllVar_bindingsToArgs d.ctx) (find_of_mem_nodup hd X.nodup) h1 h2
  obtain ⟨i, S1, d', Vs, hcs, ho, hm1, hst, hk1⟩ :=
    IH.run rfl (pv := pv) (ρ1 := ρn) (out := out) hnm (by
      intro b hb
      have hb' : b ∈ d.ctx := by rw [hc]; exact hb
      rw [h3 b hb', hag1 b (hmem b hb')])
  exact ⟨1 + i, S1, d', Vs, (CSteps.one hs).trans hcs, ho, hm1, hst, hk1⟩

/-- the closure `μ~x.⟨x | c⟩` -/
theorem forcek_eta {n : Nat} {k : Fun.Stack} {ρ0 ρx : CEnv} {x0 : Core.Ident} {ty ty' : Core.Ty}
    {c : Core.Term} (hy : ∀ b ∈ tfvTerm c [], b.var ≠ x0)
    (hcd : Core.isCodata q.codataTypes ty = true)
    (hck : Core.isCodata q.codataTypes (coreGetType c) = true)
    (hx : x0.name = sig → x0.id < n)
    (a : AgreeOn ((tfvStmt (.cut ty (.var .prd x0 ty') c) []).filter (·.var ≠ x0)) ρ0 ρx)
    (IH : ForceCrIH p q n k c ρ0)
    {pv : CVal} {ρ1 : CEnv} {out : Out} {m : Nat} (hnm : n ≤ m)
    (ha : AgreeOn (tfvStmt (.cut ty (.var .prd x0 ty') c) []) ((x0, pv) :: ρx) ρ1) :
    ForcedK p q k (.cut ty (.var .prd x0 ty') c) pv ρ1 out m := by
  have hag1 := (AgreeOn.cons (V := pv) a).trans ha
  have hlx : Core.Env.lookup ρ1 x0 = .ok pv := by
    rw [ha _ (mem_tfv_cut.2 (.inl (mem_tfv_var.2 rfl)))]
    exact lookup_cons_self _ _ _
  have hx' : x0.name = sig → x0.id < m := fun e' => by have := hx e'; omega
  obtain ⟨i, S1, ρ', pv', d, Vs, hcs, ho, hm1, hext, hpv, hst, hk1⟩ :=
    IH.run hck (cty := ty) (P := .var .prd x0 ty') (ρ := ρ1) (out := out) (m := m) hcd trivial
      hnm (by
        intro b hb
        rw [hag1 b (mem_tfv_cut.2 (.inr hb)), lookup_cons_ne (fun e' => hy b hb e'.symm)])
      (prdOK_var hlx hx')
  have : pv' = pv := by
    simp only [Core.prdVal] at hpv
    rw [hext.lookup x0 hx', hlx] at hpv
    exact (Except.ok.inj hpv).symm
  subst this
  exact ⟨i, S1, d, Vs, hcs, ho, hm1, hst, hk1⟩

mutual
/-- forcing a consumer TERM of a codata type -/
theorem force_cr' (X : Ctx p q) {n : Nat} : ∀ {k : Fun.Stack} {c : Core.Term} {ρ0 : CEnv},
    CRel (GP p) p q n k c ρ0 → ForceCrIH p q n k c ρ0
  | _, _, _, .mk _ _ _ _ hty => ⟨by
    intro hck
    rw [hty] at hck; cases hck⟩
  | _, _, _, .mkD hcv hk hi _ _ => ⟨by
    intro _ cty P ρ out m hcd hP hnm hag hok
    exact force_mkD hcv hk hi (force_k' X hk) hcd hP hnm hag hok⟩
  | _, _, _, .dtor c1 c2 c3 c4 c5 c6 e r hs bd a _ => ⟨by
    intro _ cty P ρ out m hcd hP hnm hag hok
    exact force_dtor c1 c2 c3 c4 c5 c6 e r hs bd a (force_cr' X r) hcd hP hnm hag hok⟩
/-- forcing the body of a forwarding closure -/
theorem force_k' (X : Ctx p q) {n : Nat} : ∀ {k : Fun.Stack} {cv : CVal}, KRelD (GP p) p q n k cv →
    ForceKIH p q n k cv
  | _, _, .dtorA _ _ => ⟨by
    intro _ _ _ e
    cases e⟩
  | _, _, .dtorS _ _ _ _ => ⟨by
    intro _ _ _ e
    cases e⟩
  | _, _, .shared hd hc hk bd a => ⟨by
    intro _ _ _ e pv ρ1 out m hnm ha
    cases e
    exact forcek_shared X hd hc bd a (force_k' X hk) hnm ha⟩
  | _, _, .eta r hy hcd hck _ hx _ a => ⟨by
    intro _ _ _ e pv ρ1 out m hnm ha
    cases e
    exact forcek_eta hy hcd hck hx a (force_cr' X r) hnm ha⟩
end

/-- **forcing a consumer term of a codata type** -/
theorem force_cr (X : Ctx p q) {n : Nat} {k : Fun.Stack} {c : Core.Term} {ρ0 : CEnv}
    (hr : CRel (GP p) p q n k c ρ0) (hck : Core.isCodata q.codataTypes (coreGetType c) = true)
    {cty : Core.Ty} {P : Core.Term} {ρ : CEnv} {out : Out} {m : Nat}
    (hcd : Core.isCodata q.codataTypes cty = true) (hP : CdPrd P) (hnm : n ≤ m)
    (hag : AgreeOn (tfvTerm c []) ρ0 ρ) (hok : PrdOK P ρ m) : Forced p q k cty P c ρ out m :=
  (force_cr' X hr).run hck hcd hP hnm hag hok

end Scc.Fun2Core.Sem
