/-
  Scc.Fun2Core.TypedCheck — proof file (C12, link fun2core): THE OUTPUT OF THE FUN TYPE CHECKER IS TYPED
  IN THE MONOMORPHIC, ANNOTATED SENSE `TypedM` (Scc/Fun2Core/TypedSrc.lean), which is what fun2core reads.
  `C15_sound` says the SOURCE program is `WT` and the output is the source up to annotations; it does not
  say that the annotations are the types of the derivation, nor that the instance declarations
  `dataTypes` / `codataTypes` of the output contain every instance the terms use.  Both are shown here,
  by a second induction over the checker model `Scc.Fun.Check.checkTerm` with the same invariant (`Inv`,
  `Ext`) and inversion lemmas as the soundness proof of C15:
    * `checkTerm_typedM`    a successful `checkTerm t st Γ τ = ok (t', st')` yields `TypedM P t' Γ τ` for
                            every checked program `P` that presents (`View`) a table extending `st'`
                            (precondition: the expected type is instantiated, `InstIn st τ` — true at
                            every call site of the checker; it yields `TyIn` at every node; the clause
                            loop yields the clauses in declaration order)
    * `checkProgram_progM`  `checkProgram p = ok p'`  ⇒  `ProgM p'`
    * `printTy_eq`          the two printers of types (fun2core's and the checker's) agree
-/
import Scc.Fun.CheckSound6
import Scc.Fun2Core.TypedSrc

namespace Scc.Fun2Core.Typed
open Scc Scc.Fun Scc.Fun.Check Scc.Fun.Typing

/-! ## the two type printers agree -/

def tailForm : Tys → List Char
  | .nil => []
  | .cons t r => printTyC t ++ printTysTailC r

mutual
  theorem printTy_toList : ∀ τ : Fun.Ty, (Fun2Core.printTy τ).toList = printTyC τ
    | .i64 => by decide
    | .decl n .nil => by simp [Fun2Core.printTy, printTyC, printTyArgsC]
    | .decl n (.cons t r) => by
      have := printTys_toList (.cons t r)
      simp only [tailForm] at this
      simp only [Fun2Core.printTy, printTyC, printTyArgsC, String.toList_append]
      rw [List.append_assoc, List.append_assoc]
      have h1 : "[".toList = ['['] := by decide
      have h2 : "]".toList = [']'] := by decide
      rw [h1, h2, this]
      simp
  theorem printTys_toList : ∀ ts : Fun.Tys,
      (match ts with
        | .nil => True
        | .cons t r => (Fun2Core.printTys (.cons t r)).toList ++ [']'] = tailForm (.cons t r))
    | .nil => trivial
    | .cons t .nil => by
      simp [Fun2Core.printTys, tailForm, printTysTailC, printTy_toList t]
    | .cons t (.cons u r) => by
      have := printTys_toList (.cons u r)
      simp only [tailForm] at this ⊢
      simp only [Fun2Core.printTys, String.toList_append, printTy_toList t, printTysTailC]
      have h1 : ", ".toList = [',', ' '] := by decide
      rw [h1, List.append_assoc, List.append_assoc, this]
      simp
end

theorem printTy_eq (τ : Fun.Ty) : Fun2Core.printTy τ = Check.printTy τ := by
  apply String.toList_inj.1
  rw [printTy_toList, Check.printTy, String.toList_ofList]

theorem printTy_decl (n : String) (a : Fun.Tys) : Fun2Core.printTy (.decl n a) = instName n a := by
  rw [printTy_eq]
  apply String.toList_inj.1
  simp [Check.printTy, instName, printTyArgs, printTyC, String.toList_append]

/-! ## a checked program presenting a symbol table -/

/-- `P` has, for every instance of the table `stf`, a declaration named by the instance whose xtors
are the instantiated template signatures, and a definition for every definition of the source -/
structure View (p : Program) (stf : SymbolTable) (P : CheckedProgram) : Prop where
  data : ∀ d ∈ datas p, ∀ ta xs, (instName d.name ta, (Polarity.data, ta, xs)) ∈ stf.types →
    ∃ D, P.dataTypes.find? (fun D => D.name = instName d.name ta) = some D ∧
      D.ctors = d.ctors.map fun c => ⟨c.name, substCtx (instMap d.typeParams ta) c.args⟩
  codata : ∀ d ∈ codatas p, ∀ ta xs, (instName d.name ta, (Polarity.codata, ta, xs)) ∈ stf.types →
    ∃ D, P.codataTypes.find? (fun D => D.name = instName d.name ta) = some D ∧
      D.dtors = d.dtors.map fun s => ⟨s.name, substCtx (instMap d.typeParams ta) s.args,
        substTy (instMap d.typeParams ta) s.contTy⟩
  defs : ∀ d ∈ Typing.defs p, ∃ d' ∈ P.defs, d'.name = d.name ∧ d'.ctx = d.ctx ∧ d'.retTy = d.retTy

theorem dataDecl_of_view {p : Program} {stf : SymbolTable} {P : CheckedProgram} (v : View p stf P)
    {d : Data} (hd : d ∈ datas p) {ta : Tys} {xs : List String}
    (h : (instName d.name ta, (Polarity.data, ta, xs)) ∈ stf.types) :
    ∃ D, dataDecl P (.decl d.name ta) = some D ∧
      D.ctors = d.ctors.map fun c => ⟨c.name, substCtx (instMap d.typeParams ta) c.args⟩ := by
  obtain ⟨D, h1, h2⟩ := v.data d hd ta xs h
  refine ⟨D, ?_, h2⟩
  simp only [dataDecl, printTy_decl]
  exact h1

theorem codataDecl_of_view {p : Program} {stf : SymbolTable} {P : CheckedProgram} (v : View p stf P)
    {d : Codata} (hd : d ∈ codatas p) {ta : Tys} {xs : List String}
    (h : (instName d.name ta, (Polarity.codata, ta, xs)) ∈ stf.types) :
    ∃ D, codataDecl P (.decl d.name ta) = some D ∧
      D.dtors = d.dtors.map fun s => ⟨s.name, substCtx (instMap d.typeParams ta) s.args,
        substTy (instMap d.typeParams ta) s.contTy⟩ := by
  obtain ⟨D, h1, h2⟩ := v.codata d hd ta xs h
  refine ⟨D, ?_, h2⟩
  simp only [codataDecl, printTy_decl]
  exact h1

/-- in a list with pairwise distinct keys, `find?` by key returns the element -/
theorem find?_map_of_nodup {α β : Type} (l : List α) (key : α → String) (f : α → β)
    (keyf : β → String) (hk : ∀ a, keyf (f a) = key a) (hn : (l.map key).Nodup) {a : α} (ha : a ∈ l) :
    (l.map f).find? (fun b => keyf b = key a) = some (f a) := by
  induction l with
  | nil => simp at ha
  | cons x r ih =>
    simp only [List.map_cons, List.nodup_cons] at hn
    simp only [List.map_cons, List.find?_cons, hk]
    rcases List.mem_cons.1 ha with rfl | ha
    · simp
    · have : key x ≠ key a := fun e => hn.1 (e ▸ List.mem_map.2 ⟨a, ha, rfl⟩)
      simp only [this, decide_false]
      exact ih hn.2 ha

theorem find_ctor_inst {cs : List CtorSig} (g : CtorSig → Ctx) (hn : (cs.map (·.name)).Nodup)
    {c : CtorSig} (hc : c ∈ cs) :
    (cs.map fun c => (⟨c.name, g c⟩ : CtorSig)).find? (fun c' => c'.name = c.name) =
      some ⟨c.name, g c⟩ :=
  find?_map_of_nodup cs (fun c => c.name) (fun c => (⟨c.name, g c⟩ : CtorSig)) (fun c => c.name)
    (fun _ => rfl) hn hc

theorem find_dtor_inst {cs : List DtorSig} (g : DtorSig → Ctx) (g' : DtorSig → Ty)
    (hn : (cs.map (·.name)).Nodup) {c : DtorSig} (hc : c ∈ cs) :
    (cs.map fun c => (⟨c.name, g c, g' c⟩ : DtorSig)).find? (fun c' => c'.name = c.name) =
      some ⟨c.name, g c, g' c⟩ :=
  find?_map_of_nodup cs (fun c => c.name) (fun c => (⟨c.name, g c, g' c⟩ : DtorSig)) (fun c => c.name)
    (fun _ => rfl) hn hc

/-! ## what a checking closure guarantees about its output -/

/-- the checked term is typed w.r.t. every program presenting a table that extends the output table -/
def SoundA (p : Program) (k : Checker) : Prop :=
  ∀ st Γ τ t' st', Inv p st → ctxNamesOk Γ = true → tyNamesOk τ = true → InstIn st τ →
    k st Γ τ = .ok (t', st') →
    ∀ stf P, Inv p stf → Ext st' stf → View p stf P → TypedM P t' Γ τ

/-- an instantiated type has a declaration in every program presenting the table -/
theorem tyIn_of_instIn {p : Program} {stf : SymbolTable} {P : CheckedProgram} (v : View p stf P)
    (inv : Inv p stf) {τ : Ty} (h : InstIn stf τ) : TyIn P τ := by
  cases τ with
  | i64 => exact .inl rfl
  | decl n a =>
    obtain ⟨pol, xs, hm⟩ := h
    obtain ⟨_, _, g3⟩ := inv.types _ _ _ _ hm
    rcases g3 with ⟨rfl, d, hd, hk, _⟩ | ⟨rfl, d, hd, hk, _⟩
    · have hn : n = d.name := instName_left_inj hk
      subst hn
      obtain ⟨D, hD, _⟩ := dataDecl_of_view v hd hm
      exact .inr (.inl (by rw [hD]; rfl))
    · have hn : n = d.name := instName_left_inj hk
      subst hn
      obtain ⟨D, hD, _⟩ := codataDecl_of_view v hd hm
      exact .inr (.inr (by rw [hD]; rfl))

/-- what is known about an output clause of the clause loop -/
def ClauseA (p : Program) (sigOf : SymbolTable → String → Option (Ctx × Ty)) (tyArgs : Tys) (Γ : Ctx)
    (st st' : SymbolTable) (o : Clause) : Prop :=
  ∃ st1 sig bodyTy, Inv p st1 ∧ Ext st st1 ∧ Ext st1 st' ∧
    sigOf st1 (instName o.xtor tyArgs) = some (sig, bodyTy) ∧ o.names.Nodup ∧
    o.names.length = sig.length ∧ o.ctx = bindNames o.names sig ∧
    ∀ stf P, Inv p stf → Ext st' stf → View p stf P → TypedM P o.body (Γ ++ o.ctx) bodyTy

theorem clauseLoop_typedM {p : Program} (ok : DeclsOk p) (hp : programNamesOk p = true)
    {sigOf : SymbolTable → String → Option (Ctx × Ty)} {missing : String} {checkRet : Bool}
    {tyArgs : Tys} {Γ : Ctx} (hΓ : ctxNamesOk Γ = true)
    (hsig : ∀ st n sig bodyTy, Inv p st → sigOf st n = some (sig, bodyTy) →
      ctxNamesOk sig = true ∧ tyNamesOk bodyTy = true)
    (τ0 : Ty) (hbt : checkRet = false → ∀ st n sig bodyTy, sigOf st n = some (sig, bodyTy) → bodyTy = τ0) :
    ∀ (xtors : List String) (ks : List ClauseK) (acc : List Clause) (st : SymbolTable)
      (out : List Clause) (left : List ClauseK) (st' : SymbolTable),
    (∀ k ∈ ks, SoundK p (ClauseQ p k.src) k.body) → (∀ k ∈ ks, SoundA p k.body) → Inv p st →
    (checkRet = false → InstIn st τ0) →
    clauseLoop sigOf missing checkRet tyArgs Γ xtors ks acc st = .ok (out, left, st') →
    Inv p st' ∧ Ext st st' ∧ ∃ new : List Clause, out = acc.reverse ++ new ∧
      new.map (·.xtor) = xtors ∧ ∀ o ∈ new, ClauseA p sigOf tyArgs Γ st st' o
  | [], ks, acc, st, out, left, st', _, _, inv, _, h => by
    obtain ⟨rfl, rfl, rfl⟩ := clauseLoop_nil_ok h
    exact ⟨inv, Ext.refl _, [], by simp, rfl, by simp⟩
  | x :: rest, ks, acc, st, out, left, st', hks, hksA, inv, hτ0, h => by
    obtain ⟨pos, k, sig, bodyTy, st0, ctxClause, body', st1, hpos, hk, hs, hret, hnd, hadd, hbody,
      hrest⟩ := clauseLoop_cons_ok h
    have hkmem : k ∈ ks := List.mem_of_getElem? hk
    obtain ⟨hlen, rfl⟩ := addTypes_bindNames hadd
    obtain ⟨gsig, gty⟩ := hsig st _ sig bodyTy inv hs
    have hst0 : Inv p st0 ∧ Ext st st0 ∧ InstIn st0 bodyTy := by
      cases hcr : checkRet with
      | false =>
        rw [hcr] at hret
        simp only [Bool.false_eq_true, if_false] at hret
        cases hret
        have := hbt hcr st _ sig bodyTy hs
        subst this
        exact ⟨inv, Ext.refl _, hτ0 hcr⟩
      | true =>
        rw [hcr] at hret
        simp only [if_true] at hret
        obtain ⟨i0, e0, _, hi0⟩ := checkTy_sound ok hp bodyTy st st0 inv gty hret
        exact ⟨i0, e0, hi0⟩
    obtain ⟨inv0, ext0, hin0⟩ := hst0
    have hΓ' := ctxNamesOk_append hΓ (bindNames_namesOk (names := k.src.names) gsig)
    obtain ⟨inv1, ext1, _⟩ := hks k hkmem st0 _ _ _ _ inv0 hΓ' gty hbody
    have hA := hksA k hkmem st0 _ _ _ _ inv0 hΓ' gty hin0 hbody
    obtain ⟨inv2, ext2, new, hout, hx, hnew⟩ :=
      clauseLoop_typedM ok hp hΓ hsig τ0 hbt rest _ _ st1 out left st'
        (fun k' hk' => hks k' (mem_of_mem_swapRemove hk'))
        (fun k' hk' => hksA k' (mem_of_mem_swapRemove hk')) inv1
        (fun hcr => (hτ0 hcr).ext (ext0.trans ext1)) hrest
    have hkx : k.src.xtor = x := by
      obtain ⟨hlt, hpx, _⟩ := List.findIdx?_eq_some_iff_getElem.mp hpos
      obtain ⟨_, hk'⟩ := List.getElem?_eq_some_iff.mp hk
      rw [hk'] at hpx
      simpa using hpx
    refine ⟨inv2, (ext0.trans ext1).trans ext2,
      ⟨k.src.pol, k.src.xtor, k.src.names, bindNames k.src.names sig, body'⟩ :: new, ?_, ?_, ?_⟩
    · rw [hout]; simp
    · simp [hkx, hx]
    · intro o ho
      rcases List.mem_cons.mp ho with rfl | ho
      · refine ⟨st, sig, bodyTy, inv, Ext.refl _, (ext0.trans ext1).trans ext2, ?_,
          (namesNoDups_ok _ _ hnd).1, hlen, rfl, ?_⟩
        · simp only; rw [hkx]; exact hs
        · intro stf P invf extf v
          exact hA stf P invf (ext2.trans extf) v
      · obtain ⟨st1', sig', bodyTy', i1, e1, e2, g1, g2, g3, g4, g5⟩ := hnew o ho
        exact ⟨st1', sig', bodyTy', i1, (ext0.trans ext1).trans e1, e2, g1, g2, g3, g4, g5⟩

theorem clausesM_ofList {P : CheckedProgram} {Γ : Ctx} {sigs : List CtorSig} {τ : Ty} :
    ∀ (l : List Clause), (∀ o ∈ l, ∃ c, sigs.find? (fun c => c.name = o.xtor) = some c ∧ o.names.Nodup ∧
      o.names.length = c.args.length ∧ o.ctx = bindNames o.names c.args ∧
      TypedM P o.body (Γ ++ o.ctx) τ) → ClausesM P (Clauses.ofList l) Γ sigs τ
  | [], _ => by simp [Clauses.ofList, ClausesM]
  | o :: r, h => by
    simp only [Clauses.ofList, ClausesM]
    exact ⟨h o (by simp), clausesM_ofList r (fun o' ho' => h o' (by simp [ho']))⟩

theorem coclausesM_ofList {P : CheckedProgram} {Γ : Ctx} {sigs : List DtorSig} :
    ∀ (l : List Clause), (∀ o ∈ l, ∃ c, sigs.find? (fun c => c.name = o.xtor) = some c ∧ o.names.Nodup ∧
      o.names.length = c.args.length ∧ o.ctx = bindNames o.names c.args ∧
      TypedM P o.body (Γ ++ o.ctx) c.contTy) → CoclausesM P (Clauses.ofList l) Γ sigs
  | [], _ => by simp [Clauses.ofList, CoclausesM]
  | o :: r, h => by
    simp only [Clauses.ofList, CoclausesM]
    exact ⟨h o (by simp), coclausesM_ofList r (fun o' ho' => h o' (by simp [ho']))⟩

theorem clauseXtors_ofList (l : List Clause) : clauseXtors (Clauses.ofList l) = l.map (·.xtor) := by
  simp [clauseXtors, toList_ofList_clauses]

/-! ## the main induction over the checker -/

mutual
  theorem checkTerm_typedM {p : Program} (ok : DeclsOk p) (hp : programNamesOk p = true) :
      ∀ (t : Term), termNamesOk t = true → SoundA p (checkTerm t)
    | .var x ty chi, hn => by
      intro st Γ τ t' st' inv hΓ hτ hin h stf P invf extf v
      obtain ⟨hchi, found, st1, hl, ha, he, rfl⟩ := checkTerm_var_ok h
      obtain ⟨b, hb1, hb2, hb3, hb4⟩ := lookupVar_ok hl
      obtain ⟨inv1, ext1, hann⟩ := checkAnnot_sound ok hp inv
        (by intro t ht; subst ht; simpa [termNamesOk] using hn) ha
      obtain ⟨inv2, ext2, heq, wf, _⟩ := checkEquality_sound ok hp inv1 hτ he
      subst heq
      simp only [TypedM]
      exact ⟨tyIn_of_instIn v invf (hin.ext ((ext1.trans ext2).trans extf)), trivial, trivial, b, hb1, hb2,
        hb3⟩
    | .lit n, _ => by
      intro st Γ τ t' st' inv hΓ hτ hin h stf P invf extf v
      obtain ⟨he, rfl⟩ := checkTerm_lit_ok h
      obtain ⟨inv1, ext1, heq, _, _⟩ := checkEquality_sound ok hp inv hτ he
      simp only [TypedM]
      exact heq
    | .op a o b, hn => by
      intro st Γ τ t' st' inv hΓ hτ hin h stf P invf extf v
      simp only [termNamesOk, Bool.and_eq_true] at hn
      obtain ⟨st1, a', st2, b', he, ha, hb, rfl⟩ := checkTerm_op_ok h
      obtain ⟨inv1, ext1, heq, _, _⟩ := checkEquality_sound ok hp inv tyNamesOk_i64 he
      subst heq
      obtain ⟨inv2, ext2, _⟩ := checkTerm_sound ok hp a hn.1 st1 Γ .i64 a' st2 inv1 hΓ hτ ha
      obtain ⟨inv3, ext3, _⟩ := checkTerm_sound ok hp b hn.2 st2 Γ .i64 b' st' inv2 hΓ hτ hb
      simp only [TypedM]
      exact ⟨trivial, checkTerm_typedM ok hp a hn.1 st1 Γ .i64 a' st2 inv1 hΓ hτ trivial ha stf P invf
          (ext3.trans extf) v,
        checkTerm_typedM ok hp b hn.2 st2 Γ .i64 b' st' inv2 hΓ hτ trivial hb stf P invf extf v⟩
    | .ifc s a b t e an, hn => by
      intro st Γ τ t' st' inv hΓ hτ hin h stf P invf extf v
      simp only [termNamesOk, Bool.and_eq_true] at hn
      obtain ⟨a', st1, b', st2, th', st3, e', ha, hb, ht, he, rfl⟩ := checkTerm_ifc_ok h
      obtain ⟨inv1, ext1, _⟩ :=
        checkTerm_sound ok hp a hn.1.1.1 st Γ .i64 a' st1 inv hΓ tyNamesOk_i64 ha
      obtain ⟨inv2, ext2, _⟩ :=
        checkTerm_sound ok hp b hn.1.1.2 st1 Γ .i64 b' st2 inv1 hΓ tyNamesOk_i64 hb
      obtain ⟨inv3, ext3, _⟩ := checkTerm_sound ok hp t hn.1.2 st2 Γ τ th' st3 inv2 hΓ hτ ht
      obtain ⟨inv4, ext4, _⟩ := checkTerm_sound ok hp e hn.2 st3 Γ τ e' st' inv3 hΓ hτ he
      simp only [TypedM]
      exact ⟨tyIn_of_instIn v invf (hin.ext ((((ext1.trans ext2).trans ext3).trans ext4).trans extf)),
        trivial,
        checkTerm_typedM ok hp a hn.1.1.1 st Γ .i64 a' st1 inv hΓ tyNamesOk_i64 trivial ha stf P invf
          (((ext2.trans ext3).trans ext4).trans extf) v,
        checkTerm_typedM ok hp b hn.1.1.2 st1 Γ .i64 b' st2 inv1 hΓ tyNamesOk_i64 trivial hb stf P invf
          ((ext3.trans ext4).trans extf) v,
        checkTerm_typedM ok hp t hn.1.2 st2 Γ τ th' st3 inv2 hΓ hτ (hin.ext (ext1.trans ext2)) ht stf P
          invf (ext4.trans extf) v,
        checkTerm_typedM ok hp e hn.2 st3 Γ τ e' st' inv3 hΓ hτ (hin.ext ((ext1.trans ext2).trans ext3))
          he stf P invf extf v⟩
    | .ifz s a t e an, hn => by
      intro st Γ τ t' st' inv hΓ hτ hin h stf P invf extf v
      simp only [termNamesOk, Bool.and_eq_true] at hn
      obtain ⟨a', st1, th', st3, e', ha, ht, he, rfl⟩ := checkTerm_ifz_ok h
      obtain ⟨inv1, ext1, _⟩ :=
        checkTerm_sound ok hp a hn.1.1 st Γ .i64 a' st1 inv hΓ tyNamesOk_i64 ha
      obtain ⟨inv3, ext3, _⟩ := checkTerm_sound ok hp t hn.1.2 st1 Γ τ th' st3 inv1 hΓ hτ ht
      obtain ⟨inv4, ext4, _⟩ := checkTerm_sound ok hp e hn.2 st3 Γ τ e' st' inv3 hΓ hτ he
      simp only [TypedM]
      exact ⟨tyIn_of_instIn v invf (hin.ext (((ext1.trans ext3).trans ext4).trans extf)), trivial,
        checkTerm_typedM ok hp a hn.1.1 st Γ .i64 a' st1 inv hΓ tyNamesOk_i64 trivial ha stf P invf
          ((ext3.trans ext4).trans extf) v,
        checkTerm_typedM ok hp t hn.1.2 st1 Γ τ th' st3 inv1 hΓ hτ (hin.ext ext1) ht stf P invf
          (ext4.trans extf) v,
        checkTerm_typedM ok hp e hn.2 st3 Γ τ e' st' inv3 hΓ hτ (hin.ext (ext1.trans ext3)) he stf P invf
          extf v⟩
    | .print nl a n an, hn => by
      intro st Γ τ t' st' inv hΓ hτ hin h stf P invf extf v
      simp only [termNamesOk, Bool.and_eq_true] at hn
      obtain ⟨a', st1, n', ha, hnx, rfl⟩ := checkTerm_print_ok h
      obtain ⟨inv1, ext1, _⟩ :=
        checkTerm_sound ok hp a hn.1 st Γ .i64 a' st1 inv hΓ tyNamesOk_i64 ha
      obtain ⟨inv2, ext2, _⟩ := checkTerm_sound ok hp n hn.2 st1 Γ τ n' st' inv1 hΓ hτ hnx
      simp only [TypedM]
      exact ⟨tyIn_of_instIn v invf (hin.ext ((ext1.trans ext2).trans extf)), trivial,
        checkTerm_typedM ok hp a hn.1 st Γ .i64 a' st1 inv hΓ tyNamesOk_i64 trivial ha stf P invf
          (ext2.trans extf) v,
        checkTerm_typedM ok hp n hn.2 st1 Γ τ n' st' inv1 hΓ hτ (hin.ext ext1) hnx stf P invf extf v⟩
    | .letIn x σ bound body an, hn => by
      intro st Γ τ t' st' inv hΓ hτ hin h stf P invf extf v
      simp only [termNamesOk, Bool.and_eq_true] at hn
      obtain ⟨st1, bound', st2, body', hσ, hb, hi, rfl⟩ := checkTerm_letIn_ok h
      obtain ⟨inv1, ext1, wfσ, hinσ⟩ := checkTy_sound ok hp σ st st1 inv hn.1.1 hσ
      obtain ⟨inv2, ext2, _⟩ :=
        checkTerm_sound ok hp bound hn.1.2 st1 Γ σ bound' st2 inv1 hΓ hn.1.1 hb
      have hΓ' := ctxNamesOk_append hΓ (ctxNamesOk_single (x := x) (chi := .prd) hn.1.1)
      obtain ⟨inv3, ext3, _⟩ := checkTerm_sound ok hp body hn.2 st2 _ τ body' st' inv2 hΓ' hτ hi
      simp only [TypedM]
      exact ⟨tyIn_of_instIn v invf (hin.ext (((ext1.trans ext2).trans ext3).trans extf)), trivial,
        checkTerm_typedM ok hp bound hn.1.2 st1 Γ σ bound' st2 inv1 hΓ hn.1.1 hinσ hb stf P invf
          (ext3.trans extf) v,
        checkTerm_typedM ok hp body hn.2 st2 _ τ body' st' inv2 hΓ' hτ (hin.ext (ext1.trans ext2)) hi
          stf P invf extf v⟩
    | .call f args an, hn => by
      intro st Γ τ t' st' inv hΓ hτ hin h stf P invf extf v
      simp only [termNamesOk] at hn
      obtain ⟨types, retTy, st1, args', hget, he, hlen, ha, rfl⟩ := checkTerm_call_ok h
      obtain ⟨d, hd, rfl, rfl, rfl⟩ := inv.defs _ _ _ hget
      obtain ⟨inv1, ext1, heq, wf, _⟩ := checkEquality_sound ok hp inv hτ he
      subst heq
      obtain ⟨d', hd', e1, e2, e3⟩ := v.defs d hd
      obtain ⟨inv2, ext2, _⟩ := checkArgs_sound ok hp args d.ctx st1 Γ args' st' hn inv1 hΓ
        (def_namesOk hp hd).1 (length_eq_of_not_bne hlen) ha
      simp only [TypedM]
      refine ⟨tyIn_of_instIn v invf (hin.ext ((ext1.trans ext2).trans extf)), trivial, d', hd', e1, e3, ?_⟩
      rw [e2]
      exact checkArgs_typedM ok hp args d.ctx st1 Γ args' st' hn inv1 hΓ
        (def_namesOk hp hd).1 (length_eq_of_not_bne hlen) ha stf P invf extf v
    | .ctor id args an, hn => by
      intro st Γ τ t' st' inv hΓ hτ hin h stf P invf extf v
      simp only [termNamesOk, Bool.and_eq_true] at hn
      obtain ⟨name, tyArgs, types, ty, xs, args', st1, rfl, hget, hlk, hlen, ha, he, rfl⟩ :=
        checkTerm_ctor_ok h
      obtain ⟨key, ta, xs', x, hm, hx, hxe, hr⟩ := lookupTyForXtor_ok _ _ _ hlk
      cases hr
      obtain ⟨g1, g2, g3⟩ := inv.types _ _ _ _ hm
      rcases g3 with ⟨_, d, hd, rfl, rfl, hlen', hcs⟩ | ⟨hpol, _⟩
      · obtain ⟨c, hc, rfl⟩ := List.mem_map.mp hx
        rw [removeAll_instName _ (data_namesOk hp hd).1] at he
        obtain ⟨inv1, ext1, _⟩ := checkArgs_sound ok hp args types st Γ args' st1 hn.2 inv hΓ
          (inv.ctorsOk _ _ hget) (length_eq_of_not_bne hlen) ha
        obtain ⟨inv2, ext2, heq, wf, _⟩ := checkEquality_sound ok hp inv1 hτ he
        obtain ⟨hname, hta⟩ := Ty.decl.inj heq
        subst hname; subst hta
        have hcid : c.name = id := instName_left_inj hxe
        subst hcid
        have htypes : types = substCtx (instMap d.typeParams tyArgs) c.args := by
          have := hcs c hc
          rw [hget] at this
          exact (Option.some.inj this)
        subst htypes
        obtain ⟨D, hD, hctors⟩ := dataDecl_of_view v hd
          (extf.types _ (ext2.types _ (ext1.types _ hm)))
        have hnd : (d.ctors.map (·.name)).Nodup :=
          flatMap_nodup_inner (f := fun d : Data => d.ctors.map (·.name)) ok.ctorNamesNodup hd
        simp only [TypedM]
        refine ⟨tyIn_of_instIn v invf (hin.ext ((ext1.trans ext2).trans extf)), trivial, D,
          ⟨c.name, substCtx (instMap d.typeParams tyArgs) c.args⟩, hD, ?_, ?_⟩
        · rw [hctors]
          exact find_ctor_inst _ hnd hc
        · exact checkArgs_typedM ok hp args _ st Γ args' st1 hn.2 inv hΓ
            (inv.ctorsOk _ _ hget) (length_eq_of_not_bne hlen) ha stf P invf (ext2.trans extf) v
      · cases hpol
    | .dtor scrut id tyArgs args an, hn => by
      intro st Γ τ t' st' inv hΓ hτ hin h stf P invf extf v
      simp only [termNamesOk, Bool.and_eq_true] at hn
      obtain ⟨ty, xs, st1, scrut', st2, types, retTy, args', st3, hres, hs, hget, hlen, ha, he, rfl⟩ :=
        checkTerm_dtor_ok h
      obtain ⟨inv1, ext1, d, hd, s, hsd, rfl, rfl, rfl, wfty, hentry⟩ :=
        resolveXtorTy_codata_sound ok hp inv hn.1.1.1 hn.1.1.2 hres
      have hgood : tyNamesOk (.decl d.name tyArgs) = true := by
        simp [tyNamesOk, (codata_namesOk hp hd).1, hn.1.1.2]
      obtain ⟨inv2, ext2, _⟩ :=
        checkTerm_sound ok hp scrut hn.1.2 st1 Γ _ scrut' st2 inv1 hΓ hgood hs
      obtain ⟨_, _, g3⟩ := inv2.types _ _ _ _ (ext2.types _ hentry)
      rcases g3 with ⟨hpol, _⟩ | ⟨_, d', hd', hk, _, _, hcs⟩
      · cases hpol
      · have hdd : d = d' := codata_unique ok hd hd' (instName_left_inj hk)
        subst hdd
        have hv := hcs s hsd
        rw [hget] at hv
        cases hv
        obtain ⟨inv3, ext3, _⟩ := checkArgs_sound ok hp args _ st2 Γ args' st3 hn.2 inv2 hΓ
          (inv2.dtorsOk _ _ _ hget).1 (length_eq_of_not_bne hlen) ha
        obtain ⟨inv4, ext4, heq, wf, _⟩ := checkEquality_sound ok hp inv3 hτ he
        subst heq
        obtain ⟨D, hD, hdtors⟩ := codataDecl_of_view v hd
          (extf.types _ (ext4.types _ (ext3.types _ (ext2.types _ hentry))))
        have hnd : (d.dtors.map (·.name)).Nodup :=
          flatMap_nodup_inner (f := fun d : Codata => d.dtors.map (·.name)) ok.dtorNamesNodup hd
        simp only [TypedM]
        refine ⟨tyIn_of_instIn v invf (hin.ext ((((ext1.trans ext2).trans ext3).trans ext4).trans extf)),
          trivial, .decl d.name tyArgs, D, ⟨s.name, substCtx (instMap d.typeParams tyArgs) s.args,
          substTy (instMap d.typeParams tyArgs) s.contTy⟩, ?_, hD, ?_, rfl, ?_⟩
        · exact checkTerm_typedM ok hp scrut hn.1.2 st1 Γ _ scrut' st2 inv1 hΓ hgood ⟨_, _, hentry⟩ hs
            stf P invf ((ext3.trans ext4).trans extf) v
        · rw [hdtors]
          exact find_dtor_inst _ _ hnd hsd
        · exact checkArgs_typedM ok hp args _ st2 Γ args' st3 hn.2 inv2 hΓ
            (inv2.dtorsOk _ _ _ hget).1 (length_eq_of_not_bne hlen) ha stf P invf (ext4.trans extf) v
    | .case scrut tyArgs cs an, hn => by
      intro st Γ τ t' st' inv hΓ hτ hin h stf P invf extf v
      simp only [termNamesOk, Bool.and_eq_true] at hn
      obtain ⟨hsrc, hks⟩ := clauseCheckers_sound ok hp cs hn.2
      have hksA := clauseCheckers_typedM ok hp cs hn.2
      obtain ⟨pol0, xtor0, ns0, c0, b0, r0, ty, expectedCtors, st1, scrut', st2, newClauses, hcs, hres,
        hs, hl, rfl⟩ := checkTerm_case_ok h
      have hx0 : nameOk xtor0 = true := by
        have := hn.2; rw [hcs] at this
        simp only [clausesNamesOk, Bool.and_eq_true] at this
        exact this.1.1
      obtain ⟨inv1, ext1, d, hd, s, hsd, _, rfl, rfl, wfty, hentry⟩ :=
        resolveXtorTy_data_sound ok hp inv hx0 hn.1.1 hres
      have hgood : tyNamesOk (.decl d.name tyArgs) = true := by
        simp [tyNamesOk, (data_namesOk hp hd).1, hn.1.1]
      obtain ⟨inv2, ext2, _⟩ :=
        checkTerm_sound ok hp scrut hn.1.2 st1 Γ _ scrut' st2 inv1 hΓ hgood hs
      have hentry2 := ext2.types _ hentry
      obtain ⟨inv3, ext3, new, hout, hx, hnew⟩ := clauseLoop_typedM ok hp hΓ
        (by
          intro st n sig bodyTy inv' hs'
          cases hg : st.ctors.get? n with
          | none => simp [hg] at hs'
          | some sig0 =>
            simp only [hg, Option.map_some, Option.some.injEq, Prod.mk.injEq] at hs'
            obtain ⟨rfl, rfl⟩ := hs'
            exact ⟨inv'.ctorsOk _ _ hg, hτ⟩)
        τ (by
          intro _ st n sig bodyTy hs'
          cases hg : st.ctors.get? n with
          | none => simp [hg] at hs'
          | some sig0 =>
            simp only [hg, Option.map_some, Option.some.injEq, Prod.mk.injEq] at hs'
            exact hs'.2.symm)
        _ _ _ _ _ _ _ hks hksA inv2 (fun _ => hin.ext (ext1.trans ext2)) hl
      simp only [List.reverse_nil, List.nil_append] at hout
      subst hout
      obtain ⟨D, hD, hctors⟩ := dataDecl_of_view v hd (extf.types _ (ext3.types _ hentry2))
      have hnd : (d.ctors.map (·.name)).Nodup :=
        flatMap_nodup_inner (f := fun d : Data => d.ctors.map (·.name)) ok.ctorNamesNodup hd
      simp only [TypedM]
      refine ⟨tyIn_of_instIn v invf (hin.ext (((ext1.trans ext2).trans ext3).trans extf)), trivial,
        .decl d.name tyArgs, D, ?_, hD, ?_, ?_⟩
      · exact checkTerm_typedM ok hp scrut hn.1.2 st1 Γ _ scrut' st2 inv1 hΓ hgood ⟨_, _, hentry⟩ hs
          stf P invf (ext3.trans extf) v
      · apply clausesM_ofList
        intro o ho
        obtain ⟨st1', sig, bodyTy, i1, e1, e2, g1, g2, g3, g4, g5⟩ := hnew o ho
        have hox : o.xtor ∈ d.ctors.map (·.name) := by
          rw [← hx]; exact List.mem_map.mpr ⟨o, ho, rfl⟩
        obtain ⟨c, hc, hcn⟩ := List.mem_map.mp hox
        obtain ⟨_, _, q3⟩ := i1.types _ _ _ _ (e1.types _ hentry2)
        rcases q3 with ⟨_, d', hd', hk, _, _, hcs'⟩ | ⟨hpol, _⟩
        · have hdd : d = d' := data_unique ok hd hd' (instName_left_inj hk)
          subst hdd
          simp only at g1
          rw [← hcn, hcs' c hc] at g1
          simp only [Option.map_some, Option.some.injEq, Prod.mk.injEq] at g1
          obtain ⟨rfl, rfl⟩ := g1
          refine ⟨⟨c.name, substCtx (instMap d.typeParams tyArgs) c.args⟩, ?_, g2, g3, g4,
            g5 stf P invf extf v⟩
          rw [hctors, ← hcn]
          exact find_ctor_inst _ hnd hc
        · cases hpol
      · rw [clauseXtors_ofList, hx, hctors, List.map_map]
        rfl
    | .new cs an, hn => by
      intro st Γ τ t' st' inv hΓ hτ hin h stf P invf extf v
      simp only [termNamesOk] at hn
      obtain ⟨hsrc, hks⟩ := clauseCheckers_sound ok hp cs hn
      have hksA := clauseCheckers_typedM ok hp cs hn
      obtain ⟨name, tyArgs, ta, expectedDtors, newClauses, rfl, hget, hl, rfl⟩ := checkTerm_new_ok h
      have hm := AList.mem_of_get? hget
      simp only [tyNamesOk, Bool.and_eq_true] at hτ
      obtain ⟨g1, g2, g3⟩ := inv.types _ _ _ _ hm
      rcases g3 with ⟨hpol, _⟩ | ⟨_, d, hd, hk, rfl, hlen, _⟩
      · cases hpol
      · obtain ⟨hname, hta⟩ := instName_inj hτ.1 (codata_namesOk hp hd).1 hτ.2 g1 hk
        subst hname; subst hta
        obtain ⟨inv3, ext3, new, hout, hx, hnew⟩ := clauseLoop_typedM ok hp hΓ
          (by
            intro st n sig bodyTy inv' hs'
            exact inv'.dtorsOk _ _ _ hs')
          .i64 (by intro hcr; cases hcr)
          _ _ _ _ _ _ _ hks hksA inv (by intro hcr; cases hcr) hl
        simp only [List.reverse_nil, List.nil_append] at hout
        subst hout
        obtain ⟨D, hD, hdtors⟩ := codataDecl_of_view v hd (extf.types _ (ext3.types _ hm))
        have hnd : (d.dtors.map (·.name)).Nodup :=
          flatMap_nodup_inner (f := fun d : Codata => d.dtors.map (·.name)) ok.dtorNamesNodup hd
        simp only [TypedM]
        refine ⟨tyIn_of_instIn v invf (hin.ext (ext3.trans extf)), trivial, D, hD, ?_, ?_⟩
        · apply coclausesM_ofList
          intro o ho
          obtain ⟨st1', sig, bodyTy, i1, e1, e2, q1, q2, q3, q4, q5⟩ := hnew o ho
          have hox : o.xtor ∈ d.dtors.map (·.name) := by
            rw [← hx]; exact List.mem_map.mpr ⟨o, ho, rfl⟩
          obtain ⟨c, hc, hcn⟩ := List.mem_map.mp hox
          obtain ⟨_, _, r3⟩ := i1.types _ _ _ _ (e1.types _ hm)
          rcases r3 with ⟨hpol, _⟩ | ⟨_, d', hd', hk', _, _, hcs'⟩
          · cases hpol
          · have hdd : d = d' := codata_unique ok hd hd' (instName_left_inj hk')
            subst hdd
            simp only at q1
            rw [← hcn, hcs' c hc] at q1
            simp only [Option.some.injEq, Prod.mk.injEq] at q1
            obtain ⟨rfl, rfl⟩ := q1
            refine ⟨⟨c.name, substCtx (instMap d.typeParams tyArgs) c.args,
              substTy (instMap d.typeParams tyArgs) c.contTy⟩, ?_, q2, q3, q4, q5 stf P invf extf v⟩
            rw [hdtors, ← hcn]
            exact find_dtor_inst _ _ hnd hc
        · rw [clauseXtors_ofList, hx, hdtors, List.map_map]
          rfl
    | .label a body an, hn => by
      intro st Γ τ t' st' inv hΓ hτ hin h stf P invf extf v
      simp only [termNamesOk] at hn
      obtain ⟨body', hb, rfl⟩ := checkTerm_label_ok h
      obtain ⟨inv1, ext1, _⟩ := checkTerm_sound ok hp body hn st _ τ body' st' inv
        (ctxNamesOk_append hΓ (ctxNamesOk_single (x := a) (chi := .cns) hτ)) hτ hb
      simp only [TypedM]
      exact ⟨tyIn_of_instIn v invf (hin.ext (ext1.trans extf)), trivial,
        checkTerm_typedM ok hp body hn st _ τ body' st' inv
        (ctxNamesOk_append hΓ (ctxNamesOk_single hτ)) hτ hin hb stf P invf extf v⟩
    | .goto a arg an, hn => by
      intro st Γ τ t' st' inv hΓ hτ hin h stf P invf extf v
      simp only [termNamesOk] at hn
      obtain ⟨contTy, st0, arg', hl, hc, ha, rfl⟩ := checkTerm_goto_ok h
      obtain ⟨b, hb1, hb2, hb3, hb4⟩ := lookupCovar_ok hl
      subst hb3
      obtain ⟨inv0, ext0, wfb, hinb⟩ := checkTy_sound ok hp b.ty st st0 inv (ctxNamesOk_mem hΓ hb4) hc
      obtain ⟨inv1, ext1, _⟩ := checkTerm_sound ok hp arg hn st0 Γ _ arg' st' inv0 hΓ
        (ctxNamesOk_mem hΓ hb4) ha
      simp only [TypedM]
      exact ⟨tyIn_of_instIn v invf (hin.ext ((ext0.trans ext1).trans extf)), trivial, b, hb1, hb2,
        checkTerm_typedM ok hp arg hn st0 Γ _ arg' st' inv0 hΓ
        (ctxNamesOk_mem hΓ hb4) hinb ha stf P invf extf v⟩
    | .exit arg an, hn => by
      intro st Γ τ t' st' inv hΓ hτ hin h stf P invf extf v
      simp only [termNamesOk] at hn
      obtain ⟨arg', ha, rfl⟩ := checkTerm_exit_ok h
      obtain ⟨inv1, ext1, _⟩ :=
        checkTerm_sound ok hp arg hn st Γ .i64 arg' st' inv hΓ tyNamesOk_i64 ha
      simp only [TypedM]
      exact ⟨tyIn_of_instIn v invf (hin.ext (ext1.trans extf)), trivial,
        checkTerm_typedM ok hp arg hn st Γ .i64 arg' st' inv hΓ tyNamesOk_i64 trivial ha stf P invf
        extf v⟩
    | .paren inner, hn => by
      intro st Γ τ t' st' inv hΓ hτ hin h stf P invf extf v
      simp only [termNamesOk] at hn
      obtain ⟨inner', ha, rfl⟩ := checkTerm_paren_ok h
      simp only [TypedM]
      exact checkTerm_typedM ok hp inner hn st Γ τ inner' st' inv hΓ hτ hin ha stf P invf extf v
  theorem checkArgs_typedM {p : Program} (ok : DeclsOk p) (hp : programNamesOk p = true) :
      ∀ (ts : Terms) (bs : List Binding) (st : SymbolTable) (Γ : Ctx) (ts' : Terms)
        (st' : SymbolTable), argsNamesOk ts = true → Inv p st → ctxNamesOk Γ = true →
        ctxNamesOk bs = true → bs.length = termsLength ts → checkArgs ts bs st Γ = .ok (ts', st') →
        ∀ stf P, Inv p stf → Ext st' stf → View p stf P → ArgsM P ts' Γ bs
    | .nil, bs, st, Γ, ts', st', _, inv, _, _, hlen, h => by
      intro stf P invf extf v
      obtain ⟨rfl, rfl⟩ := checkArgs_nil_ok h
      have : bs = [] := by
        simpa [termsLength, Terms.toList] using hlen
      subst this
      simp [ArgsM]
    | .cons t ts, [], st, Γ, ts', st', _, _, _, _, hlen, _ => by
      simp [termsLength, Terms.toList] at hlen
    | .cons t ts, b :: bs, st, Γ, ts', st', hn, inv, hΓ, hbs, hlen, h => by
      intro stf P invf extf v
      simp only [argsNamesOk, Bool.and_eq_true] at hn
      have hbty : tyNamesOk b.ty = true := ctxNamesOk_mem hbs (by simp)
      have hbs' : ctxNamesOk bs = true := by
        simp only [ctxNamesOk, List.all_cons, Bool.and_eq_true] at hbs
        exact hbs.2
      have hlen' : bs.length = termsLength ts := by
        simp only [termsLength, Terms.toList, List.length_cons] at hlen ⊢
        omega
      cases hb : b.chi with
      | prd =>
        obtain ⟨st1, t', st2, rest', hty, ht, hr, rfl⟩ := checkArgs_cons_prd_ok hb h
        obtain ⟨inv1, ext1, wf, hinb⟩ := checkTy_sound ok hp b.ty st st1 inv hbty hty
        obtain ⟨inv2, ext2, _⟩ := checkTerm_sound ok hp t hn.1 st1 Γ b.ty t' st2 inv1 hΓ hbty ht
        obtain ⟨inv3, ext3, _⟩ :=
          checkArgs_sound ok hp ts bs st2 Γ rest' st' hn.2 inv2 hΓ hbs' hlen' hr
        simp only [ArgsM]
        refine ⟨b, bs, rfl, ?_, .inl ⟨hb, ?_⟩⟩
        · exact checkArgs_typedM ok hp ts bs st2 Γ rest' st' hn.2 inv2 hΓ hbs' hlen' hr stf P invf extf v
        · exact checkTerm_typedM ok hp t hn.1 st1 Γ b.ty t' st2 inv1 hΓ hbty hinb ht stf P invf
            (ext3.trans extf) v
      | cns =>
        obtain ⟨x, ty, chi, t', st2, rest', rfl, hc, hr, rfl⟩ := checkArgs_cons_cns_ok hb h
        obtain ⟨hchi, found, st1, hl, ha, he, rfl⟩ := checkCovarArg_ok hc
        obtain ⟨b', hb1, hb2, hb3, hb4⟩ := lookupCovar_ok hl
        obtain ⟨inv1, ext1, hann⟩ := checkAnnot_sound ok hp inv
          (by intro t ht; subst ht; simpa [termNamesOk] using hn.1) ha
        obtain ⟨inv2, ext2, heq, wf, _⟩ := checkEquality_sound ok hp inv1 hbty he
        simp only [ArgsM]
        refine ⟨b, bs, rfl, ?_, .inr ⟨hb, x, b', ?_, hb1, hb2, hb3.trans heq.symm⟩⟩
        · exact checkArgs_typedM ok hp ts bs st2 Γ rest' st' hn.2 inv2 hΓ hbs' hlen' hr stf P invf extf v
        · rw [heq]
  theorem clauseCheckers_typedM {p : Program} (ok : DeclsOk p) (hp : programNamesOk p = true) :
      ∀ (cs : Clauses), clausesNamesOk cs = true → ∀ k ∈ clauseCheckers cs, SoundA p k.body
    | .nil, _ => by simp [clauseCheckers]
    | .cons pol x ns c b r, hn => by
      simp only [clausesNamesOk, Bool.and_eq_true] at hn
      have ih := clauseCheckers_typedM ok hp r hn.2
      intro k hk
      simp only [clauseCheckers, List.mem_cons] at hk
      rcases hk with rfl | hk
      · exact checkTerm_typedM ok hp b hn.1.2
      · exact ih k hk
end

/-! ## definitions -/

theorem checkDef_typedM {p : Program} (ok : DeclsOk p) (hp : programNamesOk p = true)
    {f f' : Def} {st st' : SymbolTable} (hf : f ∈ Typing.defs p) (inv : Inv p st)
    (h : checkDef f st = .ok (f', st')) :
    (f'.ctx.map (·.var)).Nodup ∧
    ∀ stf P, Inv p stf → Ext st' stf → View p stf P → TypedM P f'.body f'.ctx f'.retTy := by
  obtain ⟨g1, g2, g3⟩ := def_namesOk hp hf
  simp only [checkDef] at h
  split at h
  · cases h
  · rename_i h1
    split at h
    · cases h
    · rename_i st1 h2
      split at h
      · cases h
      · rename_i st2 h3
        split at h
        · cases h
        · rename_i body' st3 h4
          cases h
          obtain ⟨inv1, ext1, wfc⟩ := ctxCheck_sound ok hp f.ctx st st1 inv g1 h2
          obtain ⟨inv2, ext2, wfr, hinr⟩ := checkTy_sound ok hp f.retTy st1 st2 inv1 g2 h3
          refine ⟨(ctxNoDups_ok _ _ h1).1, ?_⟩
          intro stf P invf extf v
          exact checkTerm_typedM ok hp f.body g3 st2 f.ctx f.retTy body' st' inv2 g1 g2 hinr h4 stf P
            invf extf v

theorem checkDefs_typedM {p : Program} (ok : DeclsOk p) (hp : programNamesOk p = true) :
    ∀ (fs fs' : List Def) (st st' : SymbolTable), (∀ f ∈ fs, f ∈ Typing.defs p) → Inv p st →
    checkDefs fs st = .ok (fs', st') →
    ∀ stf P, Inv p stf → Ext st' stf → View p stf P →
      ∀ d' ∈ fs', (d'.ctx.map (·.var)).Nodup ∧ TypedM P d'.body d'.ctx d'.retTy
  | [], fs', st, st', _, inv, h => by
    simp only [checkDefs] at h; cases h
    intro stf P _ _ _ d' hd'
    simp at hd'
  | f :: r, fs', st, st', hsub, inv, h => by
    simp only [checkDefs] at h
    split at h
    · cases h
    · rename_i f1 st1 h1
      split at h
      · cases h
      · rename_i r1 st2 h2
        cases h
        obtain ⟨inv1, ext1, _⟩ := checkDef_sound ok hp (hsub f (by simp)) inv h1
        obtain ⟨inv2, ext2, _⟩ := checkDefs_sound ok hp r r1 st1 st'
          (fun x hx => hsub x (by simp [hx])) inv1 h2
        obtain ⟨hnd, hty⟩ := checkDef_typedM ok hp (hsub f (by simp)) inv h1
        have ih := checkDefs_typedM ok hp r r1 st1 st' (fun x hx => hsub x (by simp [hx])) inv1 h2
        intro stf P invf extf v d' hd'
        rcases List.mem_cons.mp hd' with rfl | hd'
        · exact ⟨hnd, hty stf P invf (ext2.trans extf) v⟩
        · exact ih stf P invf extf v d' hd'

theorem defsErase_names : ∀ {fs' fs : List Def}, DefsErase fs' fs →
    fs'.map (·.name) = fs.map (·.name) ∧
    ∀ d ∈ fs, ∃ d' ∈ fs', d'.name = d.name ∧ d'.ctx = d.ctx ∧ d'.retTy = d.retTy
  | _, _, .nil => by simp
  | _, _, .cons e1 e2 e3 _ hr => by
    obtain ⟨ih1, ih2⟩ := defsErase_names hr
    refine ⟨by simp [e1, ih1], ?_⟩
    intro d hd
    rcases List.mem_cons.mp hd with rfl | hd
    · exact ⟨_, by simp, e1, e2, e3⟩
    · obtain ⟨d', hd', q⟩ := ih2 d hd
      exact ⟨d', by simp [hd'], q⟩

/-! ## the collected instance declarations -/

theorem collectTypes_complete {st : SymbolTable} :
    ∀ (types : AList (Polarity × Tys × List String)) (ds : List Data) (cs : List Codata),
    collectTypes st types = .ok (ds, cs) →
    (∀ key ta xs, (key, (Polarity.data, ta, xs)) ∈ types → ∃ D ∈ ds, D.name = key) ∧
    (∀ key ta xs, (key, (Polarity.codata, ta, xs)) ∈ types → ∃ D ∈ cs, D.name = key)
  | [], ds, cs, h => by
    simp only [collectTypes] at h; cases h; simp
  | (name, (.data, ta, xs)) :: r, ds, cs, h => by
    simp only [collectTypes] at h
    split at h
    · cases h
    · rename_i ctors h1
      split at h
      · cases h
      · rename_i ds' cs' h2
        cases h
        obtain ⟨g1, g2⟩ := collectTypes_complete r ds' cs h2
        refine ⟨?_, ?_⟩
        · intro key ta' xs' hm
          rcases List.mem_cons.mp hm with heq | hm
          · cases heq
            exact ⟨_, List.mem_cons_self .., rfl⟩
          · obtain ⟨D, hD, e⟩ := g1 key ta' xs' hm
            exact ⟨D, by simp [hD], e⟩
        · intro key ta' xs' hm
          rcases List.mem_cons.mp hm with heq | hm
          · cases heq
          · exact g2 key ta' xs' hm
  | (name, (.codata, ta, xs)) :: r, ds, cs, h => by
    simp only [collectTypes] at h
    split at h
    · cases h
    · rename_i dtors h1
      split at h
      · cases h
      · rename_i ds' cs' h2
        cases h
        obtain ⟨g1, g2⟩ := collectTypes_complete r ds cs' h2
        refine ⟨?_, ?_⟩
        · intro key ta' xs' hm
          rcases List.mem_cons.mp hm with heq | hm
          · cases heq
          · exact g1 key ta' xs' hm
        · intro key ta' xs' hm
          rcases List.mem_cons.mp hm with heq | hm
          · cases heq
            exact ⟨_, List.mem_cons_self .., rfl⟩
          · obtain ⟨D, hD, e⟩ := g2 key ta' xs' hm
            exact ⟨D, by simp [hD], e⟩

theorem find?_some_of_exists {α : Type} {l : List α} {q : α → Bool} (h : ∃ a ∈ l, q a = true) :
    ∃ a, l.find? q = some a ∧ a ∈ l ∧ q a = true := by
  cases hf : l.find? q with
  | none =>
    obtain ⟨a, ha, hq⟩ := h
    rw [List.find?_eq_none] at hf
    exact absurd hq (by simpa using hf a ha)
  | some a => exact ⟨a, rfl, List.mem_of_find?_eq_some hf, List.find?_some hf⟩

/-- the checked program presents the final symbol table -/
theorem view_final {p : Program} (ok : DeclsOk p) (hp : programNamesOk p = true) {st1 : SymbolTable}
    (inv1 : Inv p st1) {ds : List Data} {cs : List Codata}
    (hcollect : collectTypes st1 st1.types = .ok (ds, cs)) {fs' : List Def}
    (hers : DefsErase fs' (Typing.defs p)) :
    View p st1 ⟨sortBy (·.name) ds, sortBy (·.name) cs, fs'⟩ := by
  obtain ⟨c1, c2⟩ := collectTypes_ok _ _ _ hcollect
  obtain ⟨k1, k2⟩ := collectTypes_complete _ _ _ hcollect
  refine ⟨?_, ?_, (defsErase_names hers).2⟩
  · intro d hd ta xs hm
    obtain ⟨D0, hD0, hn0⟩ := k1 _ ta xs hm
    obtain ⟨D, hf, hDm, hDn⟩ := find?_some_of_exists
      (l := sortBy (·.name) ds) (q := fun D => D.name = instName d.name ta)
      ⟨D0, (mem_sortBy _ _ _).2 hD0, by simpa using hn0⟩
    refine ⟨D, hf, ?_⟩
    have hDn' : D.name = instName d.name ta := by simpa using hDn
    obtain ⟨ta', xs', hm', _, q2⟩ := c1 D ((mem_sortBy _ _ _).1 hDm)
    obtain ⟨g1, _, _⟩ := inv1.types _ _ _ _ hm
    obtain ⟨g1', _, g3'⟩ := inv1.types _ _ _ _ hm'
    rcases g3' with ⟨_, d', hd', hk, rfl, _, hcs⟩ | ⟨hpol, _⟩
    · rw [hDn'] at hk
      obtain ⟨hname, hta⟩ := instName_inj (data_namesOk hp hd).1 (data_namesOk hp hd').1 g1 g1' hk
      have hdd : d = d' := data_unique ok hd hd' hname
      subst hdd; subst hta
      exact collectCtors_ok d.ctors D.ctors hcs q2
    · cases hpol
  · intro d hd ta xs hm
    obtain ⟨D0, hD0, hn0⟩ := k2 _ ta xs hm
    obtain ⟨D, hf, hDm, hDn⟩ := find?_some_of_exists
      (l := sortBy (·.name) cs) (q := fun D => D.name = instName d.name ta)
      ⟨D0, (mem_sortBy _ _ _).2 hD0, by simpa using hn0⟩
    refine ⟨D, hf, ?_⟩
    have hDn' : D.name = instName d.name ta := by simpa using hDn
    obtain ⟨ta', xs', hm', _, q2⟩ := c2 D ((mem_sortBy _ _ _).1 hDm)
    obtain ⟨g1, _, _⟩ := inv1.types _ _ _ _ hm
    obtain ⟨g1', _, g3'⟩ := inv1.types _ _ _ _ hm'
    rcases g3' with ⟨hpol, _⟩ | ⟨_, d', hd', hk, rfl, _, hcs⟩
    · cases hpol
    · rw [hDn'] at hk
      obtain ⟨hname, hta⟩ := instName_inj (codata_namesOk hp hd).1 (codata_namesOk hp hd').1 g1 g1' hk
      have hdd : d = d' := codata_unique ok hd hd' hname
      subst hdd; subst hta
      exact collectDtors_ok d.dtors D.dtors hcs q2

/-! ## the whole program -/

/-- **the checker's output is typed in the monomorphic, annotated sense** -/
theorem checkProgramR_progM {p : Program} {p' : CheckedProgram} (hp : programNamesOk p = true)
    (h : checkProgramR p = .ok p') : ProgM p' := by
  simp only [checkProgramR] at h
  split at h
  · cases h
  · rename_i st0 hb
    simp only [buildSymbolTable] at hb
    split at hb
    · cases hb
    · rename_i st0' hbuild
      split at hb
      · cases hb
      · rename_i hparams
        cases hb
        have b : Built st0 p.decls := by
          simpa using buildDecls_ok p.decls [] {} st0 built_empty hbuild
        simp only [checkWithTable] at h
        split at h
        · cases h
        · rename_i fs hdecls
          split at h
          · cases h
          · rename_i fs' st1 hdefs
            split at h
            · cases h
            · rename_i ds cs hcollect
              cases h
              obtain ⟨ok, rfl⟩ := declsOk_of_checks b hparams hdecls
              obtain ⟨inv1, _, doks, ers, anns⟩ := checkDefs_sound ok hp (Typing.defs p) fs' st0 st1
                (fun f hf => hf) (built_inv b) hdefs
              have v := view_final ok hp inv1 hcollect ers
              have hty := checkDefs_typedM ok hp (Typing.defs p) fs' st0 st1 (fun f hf => hf)
                (built_inv b) hdefs st1 _ inv1 (Ext.refl _) v
              obtain ⟨c1, c2⟩ := collectTypes_ok _ _ _ hcollect
              refine ⟨?_, ?_, ?_, ?_, ?_⟩
              · simp only
                rw [(defsErase_names ers).1]
                exact ok.defNamesNodup
              · intro d hd
                exact ⟨(hty d hd).1, (hty d hd).2⟩
              · intro D hD C hC hname
                simp only [mem_sortBy] at hD hC
                obtain ⟨ta, xs, hm, _, _⟩ := c1 D hD
                obtain ⟨ta', xs', hm', _, _⟩ := c2 C hC
                obtain ⟨g1, _, g3⟩ := inv1.types _ _ _ _ hm
                obtain ⟨g1', _, g3'⟩ := inv1.types _ _ _ _ hm'
                rcases g3 with ⟨_, d, hd, hk, _⟩ | ⟨hpol, _⟩
                · rcases g3' with ⟨hpol, _⟩ | ⟨_, c, hc, hk', _⟩
                  · cases hpol
                  · rw [hname, hk'] at hk
                    obtain ⟨hn, _⟩ := instName_inj (codata_namesOk hp hc).1 (data_namesOk hp hd).1
                      g1' g1 hk
                    exact data_codata_disjoint ok hd hc hn.symm
                · cases hpol
              · intro D hD
                simp only [mem_sortBy] at hD
                obtain ⟨ta, xs, hm, _, q2⟩ := c1 D hD
                obtain ⟨_, _, g3⟩ := inv1.types _ _ _ _ hm
                rcases g3 with ⟨_, d, hd, hk, rfl, _, hcs⟩ | ⟨hpol, _⟩
                · rw [collectCtors_ok d.ctors D.ctors hcs q2, List.map_map]
                  exact flatMap_nodup_inner (f := fun d : Data => d.ctors.map (·.name))
                    ok.ctorNamesNodup hd
                · cases hpol
              · intro D hD
                simp only [mem_sortBy] at hD
                obtain ⟨ta, xs, hm, _, q2⟩ := c2 D hD
                obtain ⟨_, _, g3⟩ := inv1.types _ _ _ _ hm
                rcases g3 with ⟨hpol, _⟩ | ⟨_, d, hd, hk, rfl, _, hcs⟩
                · cases hpol
                · rw [collectDtors_ok d.dtors D.dtors hcs q2, List.map_map]
                  exact flatMap_nodup_inner (f := fun d : Codata => d.dtors.map (·.name))
                    ok.dtorNamesNodup hd

theorem checkProgram_progM {p : Program} {p' : CheckedProgram} (hp : programNamesOk p = true)
    (h : checkProgram p = .ok p') : ProgM p' :=
  checkProgramR_progM hp (checkProgram_ok_iff.mp h)

end Scc.Fun2Core.Typed
