/-
  Scc.Fun2Core.SemProg — program level of the semantic part of C02: the context `Ctx` of the
  simulation is established from `compileProg p = .ok q` and decidable conditions on `p` / `q`, the
  initial states of the two machines are related, and the forward half of the statement follows.
-/
import Scc.Fun2Core.SemSim12

namespace Scc.Fun2Core.Sem
open Scc

/-! ## decidable conditions -/

/-- conditions on one definition -/
def defOk (p : Fun.CheckedProgram) (d : Fun.Def) : Bool :=
  good p d.body && decide (d.ctx.map (·.var)).Nodup &&
  (fv d.body).all (fun x => (d.ctx.map (·.var)).contains x) &&
  !(d.ctx.map (·.var)).contains sig && !(binderNames d.body).contains sig

/-- the type is `i64` -/
def isI64T : Fun.Ty → Bool
  | .i64 => true
  | _ => false

/-- conditions on the source program: every definition is in the fragment (`good`), closed, with pairwise distinct parameters, no name `ς`; definition names are
pairwise distinct; the parameters of `main` are producers of type `i64`, its result is an `i64` -/
def progOk (p : Fun.CheckedProgram) : Bool :=
  p.defs.all (defOk p) && decide (p.defs.map (·.name)).Nodup &&
  p.defs.all (fun d => d.name != "main" || d.ctx.all (fun b => b.chi == .prd)) &&
  p.defs.all (fun d => d.name != "main" || (d.ctx.all (fun b => isI64T b.ty) && isI64T d.retTy))

/-- condition on the translation: the body of every definition mentions only its parameters -/
def coreClosed (q : Core.Prog) : Bool :=
  q.defs.all fun D => (tfvStmt D.body []).all fun b => D.ctx.any fun b' => decide (b'.var = b.var)

/-! ## the loop of `compile_prog` -/

theorem compileDefs_mem (cts : List Core.TypeDecl) : ∀ (defs : List Fun.Def) (ul : List String)
    (acc res : List Core.Def), compileDefs cts defs ul acc = .ok res →
    (∀ D ∈ acc, D ∈ res) ∧ ∀ d ∈ defs, ∃ ul0 r,
      (if d.name == "main" then compileMain d cts ul0 else compileDef d cts ul0) = .ok r ∧
      ∀ D ∈ r.1, D ∈ res
  | [], ul, acc, res, h => by
    simp only [compileDefs, Except.ok.injEq] at h
    subst h
    exact ⟨fun D hD => hD, fun d hd => by simp at hd⟩
  | d :: rest, ul, acc, res, h => by
    unfold compileDefs at h
    by_cases hm : (d.name == "main") = true
    · simp only [hm, if_true] at h
      cases hc : compileMain d cts ul with
      | error e => simp [hc] at h
      | ok r =>
        obtain ⟨ds, ul'⟩ := r
        simp only [hc] at h
        obtain ⟨h1, h2⟩ := compileDefs_mem cts rest ul' (ds ++ acc) res h
        refine ⟨fun D hD => h1 D (List.mem_append.2 (.inr hD)), fun d' hd' => ?_⟩
        rcases List.mem_cons.1 hd' with rfl | hd'
        · exact ⟨ul, (ds, ul'), by simp [hm, hc], fun D hD => h1 D (List.mem_append.2 (.inl hD))⟩
        · exact h2 d' hd'
    · simp only [hm] at h
      cases hc : compileDef d cts ul with
      | error e => simp [hc] at h
      | ok r =>
        obtain ⟨ds, ul'⟩ := r
        simp only [hc] at h
        obtain ⟨h1, h2⟩ := compileDefs_mem cts rest ul' (acc ++ ds) res h
        refine ⟨fun D hD => h1 D (List.mem_append.2 (.inl hD)), fun d' hd' => ?_⟩
        rcases List.mem_cons.1 hd' with rfl | hd'
        · exact ⟨ul, (ds, ul'), by simp [hm, hc], fun D hD => h1 D (List.mem_append.2 (.inr hD))⟩
        · exact h2 d' hd'

/-! ## one definition -/

theorem defOk_facts {p : Fun.CheckedProgram} {d : Fun.Def} (h : defOk p d = true) :
    good p d.body = true ∧ (d.ctx.map (·.var)).Nodup ∧ (∀ x ∈ fv d.body, x ∈ d.ctx.map (·.var)) ∧
    sig ∉ d.ctx.map (·.var) ∧ sig ∉ binderNames d.body := by
  simp only [defOk, Bool.and_eq_true, decide_eq_true_eq, List.all_eq_true, Bool.not_eq_true',
    List.contains_eq_mem, decide_eq_false_iff_not] at h
  obtain ⟨⟨⟨⟨h1, h2⟩, h3⟩, h4⟩, h5⟩ := h
  exact ⟨h1, h2, fun x hx => by simpa using h3 x hx, by simpa using h4, by simpa using h5⟩

theorem initNames {p : Fun.CheckedProgram} {d : Fun.Def} (h : defOk p d = true) (cts : List Core.TypeDecl) (ul : List String) :
    TermNames d.body ⟨usedBinders d.body (ctxVars d.ctx), cts, ul, d.name, []⟩ := by
  obtain ⟨_, _, hcl, hs1, hs2⟩ := defOk_facts h
  refine ⟨fun x hx => ?_, fun x hx => (mem_usedBinders _ _).2 (.inl hx), ?_⟩
  · refine (mem_usedBinders _ _).2 (.inr ((mem_ctxVars _).2 ?_))
    obtain ⟨b, hb, e⟩ := List.mem_map.1 (hcl x hx)
    exact ⟨b, hb, e⟩
  · intro hmem
    rcases (mem_usedBinders _ _).1 hmem with h' | h'
    · exact hs2 h'
    · obtain ⟨b, hb, e⟩ := (mem_ctxVars _).1 h'
      exact hs1 (List.mem_map.2 ⟨b, hb, e⟩)

theorem params_used {d : Fun.Def} (cts : List Core.TypeDecl) (ul : List String) :
    ∀ x ∈ d.ctx.map (·.var), x ∈ (⟨usedBinders d.body (ctxVars d.ctx), cts, ul, d.name, []⟩ :
      CompileState).usedVars := by
  intro x hx
  obtain ⟨b, hb, e⟩ := List.mem_map.1 hx
  exact (mem_usedBinders _ _).2 (.inr ((mem_ctxVars _).2 ⟨b, hb, e⟩))

/-- a definition other than `main` -/
theorem compileDef_facts {p : Fun.CheckedProgram} {q : Core.Prog} (hcod : CodOK p q) {d : Fun.Def}
    {cts : List Core.TypeDecl} {ul : List String}
    {r : List Core.Def × List String} (h : compileDef d cts ul = .ok r) (hd : defOk p d = true)
    (hcts : cts = q.codataTypes) (hmem : ∀ D ∈ r.1, D ∈ q.defs) :
    ∃ D a τ τ', D ∈ q.defs ∧ D.name = ⟨d.name, 0⟩ ∧
      D.ctx = compileContext d.ctx ++ [⟨⟨a, 0⟩, .cns, τ⟩] ∧
      Compiled q 0 d.body (.var .cns ⟨a, 0⟩ τ') D.body ∧
      (∃ τb, getType d.body = some τb ∧ τ' = compileTy τb) ∧ a ∉ d.ctx.map (·.var) := by
  unfold compileDef at h
  simp only at h
  cases hty : getType d.body with
  | none => simp [hty] at h
  | some t =>
    simp only [hty] at h
    generalize hst0 : (⟨usedBinders d.body (ctxVars d.ctx), cts, ul, d.name, []⟩ : CompileState) = st0 at h
    cases hx : compileWithCont d.body (.var .cns ⟨(freshCovar st0).1, 0⟩ (compileTy t)) (freshCovar st0).2 with
    | error e => simp [hx] at h
    | ok rb =>
      obtain ⟨body, st'⟩ := rb
      simp only [hx, Except.ok.injEq] at h
      subst h
      have htn0 : TermNames d.body st0 := hst0 ▸ initNames hd cts ul
      have hfs := fs_stepRel.freshCovar st0
      have hfr := compileWithCont_fresh hx
      refine ⟨⟨⟨d.name, 0⟩, compileContext d.ctx ++ [⟨⟨(freshCovar st0).1, 0⟩, .cns, compileTy d.retTy⟩], body⟩,
        (freshCovar st0).1, compileTy d.retTy, compileTy t, hmem _ (by simp), rfl, rfl, ?_, ?_, ?_⟩
      · refine ⟨(freshCovar st0).2, st', hx, ⟨fun D hD => hmem D (by simp [hD]), ?_⟩,
          htn0.of_sub (fun _ h => h) (fun _ h => h) hfs, ?_⟩
        · rw [hfr.codata]
          show st0.codataTypes = q.codataTypes
          rw [← hst0, hcts]
        · intro b hb
          simp only [occTerm, List.mem_singleton] at hb
          subst hb
          exact .inr ⟨freshCovar_ne_sig st0, by rw [freshCovar_used]; exact List.mem_cons_self⟩
      · exact ⟨t, rfl, rfl⟩
      · intro hmem'
        have hp : ∀ x ∈ d.ctx.map (·.var), x ∈ st0.usedVars := by
          rw [← hst0]; exact params_used cts ul
        exact freshCovar_not_mem st0 (hp _ hmem')

/-- `main` -/
theorem compileMain_facts {p : Fun.CheckedProgram} {q : Core.Prog} (hcod : CodOK p q) {d : Fun.Def}
    {cts : List Core.TypeDecl} {ul : List String}
    {r : List Core.Def × List String} (h : compileMain d cts ul = .ok r) (hd : defOk p d = true)
    (hcts : cts = q.codataTypes) (hmem : ∀ D ∈ r.1, D ∈ q.defs) :
    ∃ D x0 τ, D ∈ q.defs ∧ D.name = ⟨d.name, 0⟩ ∧ D.ctx = compileContext d.ctx ∧
      Compiled q 0 d.body (.mu .cns ⟨x0, 0⟩ τ (.exit (.var .prd ⟨x0, 0⟩ τ) τ)) D.body ∧
      (∃ τb, getType d.body = some τb ∧ τ = compileTy τb) := by
  unfold compileMain at h
  simp only at h
  cases hty : getType d.body with
  | none => simp [hty] at h
  | some t =>
    simp only [hty] at h
    generalize hst0 : (⟨usedBinders d.body (ctxVars d.ctx), cts, ul, d.name, []⟩ : CompileState) = st0 at h
    cases hx : compileWithCont d.body (.mu .cns ⟨(freshVar st0).1, 0⟩ (compileTy t)
        (.exit (.var .prd ⟨(freshVar st0).1, 0⟩ (compileTy t)) (compileTy t))) (freshVar st0).2 with
    | error e => simp [hx] at h
    | ok rb =>
      obtain ⟨body, st'⟩ := rb
      simp only [hx, Except.ok.injEq] at h
      subst h
      have htn0 : TermNames d.body st0 := hst0 ▸ initNames hd cts ul
      have hfs := fs_stepRel.freshVar st0
      have hfr := compileWithCont_fresh hx
      refine ⟨⟨⟨d.name, 0⟩, compileContext d.ctx, body⟩, (freshVar st0).1, compileTy t, hmem _ (by simp),
        rfl, rfl, ?_, ?_⟩
      rotate_left
      · exact ⟨t, rfl, rfl⟩
      refine ⟨(freshVar st0).2, st', hx, ⟨fun D hD => hmem D (by simp [hD]), ?_⟩,
        htn0.of_sub (fun _ h => h) (fun _ h => h) hfs, ?_⟩
      · rw [hfr.codata]
        show st0.codataTypes = q.codataTypes
        rw [← hst0, hcts]
      · intro b hb
        simp only [occTerm, occStmt, List.mem_singleton] at hb
        subst hb
        exact .inr ⟨freshVar_ne_sig st0, by rw [freshVar_used]; exact List.mem_cons_self⟩

/-! ## names of the translated definitions -/

theorem mem_usedLabels_init (defs : List Fun.Def) (d : Fun.Def) (hd : d ∈ defs) :
    d.name ∈ defs.foldl (fun acc d => setInsert d.name acc) [] := by
  suffices h : ∀ s, d.name ∈ defs.foldl (fun acc d => setInsert d.name acc) s by exact h []
  induction defs with
  | nil => simp at hd
  | cons a l ih =>
    intro s
    rcases List.mem_cons.1 hd with rfl | h
    · have mono : ∀ (l : List Fun.Def) (s : List String) (x : String), x ∈ s →
          x ∈ l.foldl (fun acc d => setInsert d.name acc) s := by
        intro l
        induction l with
        | nil => exact fun _ _ h => h
        | cons b l ih2 => exact fun s x h => ih2 _ _ (mem_setInsert.2 (.inr h))
      simp only [List.foldl_cons]
      exact mono _ _ _ (mem_setInsert.2 (.inl rfl))
    · simp only [List.foldl_cons]
      exact ih h _

theorem compileDefs_id0 (cts : List Core.TypeDecl) : ∀ (defs : List Fun.Def) (ul : List String)
    (acc res : List Core.Def), compileDefs cts defs ul acc = .ok res →
    (∀ D ∈ acc, D.name.id = 0) → ∀ D ∈ res, D.name.id = 0
  | [], ul, acc, res, h, ha => by
    simp only [compileDefs, Except.ok.injEq] at h
    subst h
    exact ha
  | d :: rest, ul, acc, res, h, ha => by
    unfold compileDefs at h
    have key : ∀ (r : List Core.Def × List String), DefNamesOK d ul r → ∀ D ∈ r.1, D.name.id = 0 := by
      intro r hr D hD
      obtain ⟨gl, _, _, _, hm⟩ := hr
      have : D.name ∈ r.1.map (·.name) := List.mem_map.2 ⟨D, hD, rfl⟩
      rw [hm] at this
      rcases List.mem_cons.1 this with e | e
      · rw [e]; rfl
      · obtain ⟨x, _, e'⟩ := List.mem_map.1 e
        rw [← e']; rfl
    by_cases hm : (d.name == "main") = true
    · simp only [hm, if_true] at h
      cases hc : compileMain d cts ul with
      | error e => simp [hc] at h
      | ok r =>
        simp only [hc] at h
        refine compileDefs_id0 cts rest r.2 (r.1 ++ acc) res h fun D hD => ?_
        rcases List.mem_append.1 hD with h' | h'
        · exact key r (compileMain_names hc) D h'
        · exact ha D h'
    · simp only [hm] at h
      cases hc : compileDef d cts ul with
      | error e => simp [hc] at h
      | ok r =>
        simp only [hc] at h
        refine compileDefs_id0 cts rest r.2 (acc ++ r.1) res h fun D hD => ?_
        rcases List.mem_append.1 hD with h' | h'
        · exact ha D h'
        · exact key r (compileDef_names hc) D h'

theorem eq_of_name_eq {defs : List Core.Def} (hn : (defs.map (·.name)).Nodup) {D D' : Core.Def}
    (hD : D ∈ defs) (hD' : D' ∈ defs) (e : D.name = D'.name) : D = D' := by
  induction defs with
  | nil => simp at hD
  | cons a l ih =>
    simp only [List.map_cons, List.nodup_cons] at hn
    rcases List.mem_cons.1 hD with rfl | h1 <;> rcases List.mem_cons.1 hD' with rfl | h2
    · rfl
    · exact absurd (List.mem_map.2 ⟨D', h2, e.symm⟩) hn.1
    · exact absurd (List.mem_map.2 ⟨D, h1, e⟩) hn.1
    · exact ih hn.2 h1 h2

theorem find_unique {α : Type} {P : α → Bool} : ∀ {l : List α} {a : α}, a ∈ l → P a = true →
    (∀ b ∈ l, P b = true → b = a) → l.find? P = some a
  | [], _, h, _, _ => by simp at h
  | x :: l, a, h, hp, hu => by
    by_cases hx : P x = true
    · have := hu x (by simp) hx
      subst this
      simp [hx]
    · have hxa : x ≠ a := fun e => hx (e ▸ hp)
      simp only [List.find?_cons, hx]
      rcases List.mem_cons.1 h with rfl | h'
      · exact absurd rfl hxa
      · exact find_unique h' hp (fun b hb => hu b (by simp [hb]))

/-! ## the context -/

theorem progOk_facts {p : Fun.CheckedProgram} (h : progOk p = true) :
    (∀ d ∈ p.defs, defOk p d = true) ∧ (p.defs.map (·.name)).Nodup ∧
    (∀ d ∈ p.defs, d.name = "main" → ∀ b ∈ d.ctx, b.chi = .prd) := by
  simp only [progOk, Bool.and_eq_true, List.all_eq_true, decide_eq_true_eq,
    Bool.or_eq_true, bne_iff_ne, ne_eq] at h
  obtain ⟨⟨⟨h2, h3⟩, h4⟩, _⟩ := h
  refine ⟨h2, h3, fun d hd hm b hb => ?_⟩
  rcases h4 d hd with h' | h'
  · exact absurd hm h'
  · have := h' b hb
    cases hb' : b.chi with
    | prd => rfl
    | cns => rw [hb'] at this; exact absurd this (by decide)

theorem isI64T_iff {τ : Fun.Ty} : isI64T τ = true ↔ τ = .i64 := by
  cases τ <;> simp [isI64T]

/-- the signature of `main`: integer parameters, integer result -/
theorem progOk_mainTys {p : Fun.CheckedProgram} (h : progOk p = true) :
    ∀ d ∈ p.defs, d.name = "main" → (∀ b ∈ d.ctx, b.ty = .i64) ∧ d.retTy = .i64 := by
  simp only [progOk, Bool.and_eq_true, List.all_eq_true, decide_eq_true_eq,
    Bool.or_eq_true, bne_iff_ne, ne_eq] at h
  obtain ⟨_, h5⟩ := h
  intro d hd hm
  rcases h5 d hd with h' | h'
  · exact absurd hm h'
  · exact ⟨fun b hb => isI64T_iff.1 (h'.1 b hb), isI64T_iff.1 h'.2⟩

theorem findDef_mem {p : Fun.CheckedProgram} {f : String} {d : Fun.Def}
    (h : Fun.findDef p f = some d) : d ∈ p.defs ∧ d.name = f := by
  unfold Fun.findDef at h
  exact ⟨List.mem_of_find?_eq_some h, by simpa using List.find?_some h⟩

theorem compileProg_defs {p : Fun.CheckedProgram} {q : Core.Prog} (h : compileProg p = .ok q) :
    q.codataTypes = p.codataTypes.map (fun d => ⟨⟨d.name, 0⟩, d.dtors.map compileDtor⟩) ∧
    compileDefs q.codataTypes p.defs (p.defs.foldl (fun acc d => setInsert d.name acc) []) [] = .ok q.defs := by
  unfold compileProg at h
  simp only at h
  split at h
  · simp at h
  · rename_i defs hd
    simp only [Except.ok.injEq] at h
    subst h
    exact ⟨rfl, hd⟩

/-! ## codata types of the translation -/

theorem ident_beq0 (a b : String) : ((⟨a, 0⟩ : Core.Ident) == ⟨b, 0⟩) = (a == b) := by
  show (a == b && (0:Nat) == 0) = (a == b)
  simp

mutual
  theorem tyName_eq : ∀ (τ : Fun.Ty) (fuel : Nat), Fun.tyDepth τ ≤ fuel → Fun.tyName fuel τ = printTy τ
    | .i64, fuel, h => by
      cases fuel with
      | zero => simp [Fun.tyDepth] at h
      | succ f => rfl
    | .decl n .nil, fuel, h => by
      cases fuel with
      | zero => simp [Fun.tyDepth] at h
      | succ f => simp [Fun.tyName, Fun.Tys.toList, printTy]
    | .decl n (.cons t r), fuel, h => by
      cases fuel with
      | zero => simp [Fun.tyDepth] at h
      | succ f =>
        have h' : Fun.tyDepth.go (.cons t r) ≤ f := by simp [Fun.tyDepth] at h; omega
        simp only [Fun.tyName, Fun.Tys.toList, printTy]
        rw [← tysName_eq (.cons t r) f h' (by simp)]
        simp [Fun.Tys.toList]
  theorem tysName_eq : ∀ (ts : Fun.Tys) (fuel : Nat), Fun.tyDepth.go ts ≤ fuel → ts ≠ .nil →
      ", ".intercalate (ts.toList.map (Fun.tyName fuel)) = printTys ts
    | .nil, _, _, h => absurd rfl h
    | .cons t .nil, fuel, h, _ => by
      have ht : Fun.tyDepth t ≤ fuel := by
        simp only [Fun.tyDepth.go] at h
        exact Nat.le_trans (Nat.le_max_left _ _) h
      simp [Fun.Tys.toList, printTys, tyName_eq t fuel ht]
    | .cons t (.cons u r), fuel, h, _ => by
      have ht : Fun.tyDepth t ≤ fuel := by
        simp only [Fun.tyDepth.go] at h
        exact Nat.le_trans (Nat.le_max_left _ _) h
      have hr : Fun.tyDepth.go (.cons u r) ≤ fuel := by
        simp only [Fun.tyDepth.go] at h ⊢
        exact Nat.le_trans (Nat.le_max_right _ _) h
      have ih := tysName_eq (.cons u r) fuel hr (by simp)
      simp only [Fun.Tys.toList, List.map_cons, String.intercalate_cons_cons, printTys] at ih ⊢
      rw [tyName_eq t fuel ht, ← ih]
end

/-- the Core program declares exactly the translated codata types -/
theorem codOK_of_compileProg {p : Fun.CheckedProgram} {q : Core.Prog} (hc : compileProg p = .ok q) :
    CodOK p q := by
  obtain ⟨hqc, _⟩ := compileProg_defs hc
  intro τ
  cases τ with
  | i64 => rfl
  | decl n a =>
    simp only [compileTy, Core.isCodata, Fun.isCodataTy, hqc, List.any_map]
    rw [tyName_eq (.decl n a) _ (Nat.le_succ _)]
    congr 1
    funext d
    simp [ident_beq0]

theorem ctx_of_compileProg {p : Fun.CheckedProgram} {q : Core.Prog} (hc : compileProg p = .ok q)
    (hp : progOk p = true) (hq : coreClosed q = true) (hpm : Typed.ProgM p) : Ctx p q := by
  obtain ⟨hdefsok, hnd, _⟩ := progOk_facts hp
  obtain ⟨hqc, hdefs⟩ := compileProg_defs hc
  have hcod := codOK_of_compileProg hc
  have hmem := compileDefs_mem q.codataTypes p.defs _ [] q.defs hdefs
  refine ⟨hcod, hpm, ?_, ?_, ?_⟩
  · refine compileDefs_nodup _ _ _ _ _ hdefs ?_ (by simp) (fun d hd' => mem_usedLabels_init _ d hd')
    simp only [List.map_nil, List.nil_append]
    have : p.defs.map (fun d => ident0 d.name) = (p.defs.map (·.name)).map ident0 := by simp
    rw [this]
    exact List.Pairwise.map _ (fun a b hab h => hab (ident0_inj h)) hnd
  · intro D hD b hb
    simp only [coreClosed, List.all_eq_true, List.any_eq_true, decide_eq_true_eq] at hq
    exact hq D hD b hb
  · intro f d hf hfm
    obtain ⟨hdm, hname⟩ := findDef_mem hf
    obtain ⟨ul0, r, hr, hrm⟩ := hmem.2 d hdm
    have hnm : (d.name == "main") = false := by simp [hname, hfm]
    simp only [hnm, Bool.false_eq_true, if_false] at hr
    obtain ⟨D, a, τ, τ', h1, h2, h3, h4, h4', h5⟩ := compileDef_facts hcod hr (hdefsok d hdm) rfl hrm
    obtain ⟨g1, g2, g3, _, _⟩ := defOk_facts (hdefsok d hdm)
    exact ⟨D, a, τ, τ', h1, by rw [h2, hname], h3, h4, h4', g1, h5, g2, g3⟩

end Scc.Fun2Core.Sem
