/-
  Scc.Fun2Core.Hygiene — the decidable hygiene predicate of C02, computed along the translation of
  `Scc.Fun2Core.Model`: `Hygienic p = true` iff at no point of the translation of `p` a continuation
  is placed under a binder whose name occurs free in it.  The translation puts a continuation under
  a binder in exactly two places:
    * terms/let.rs: `μ~x.⟦in_term⟧_cont`            (binder `x` over `cont`),
    * terms/clause.rs `compile_clause`: `K(x̄) ⇒ ⟦body⟧_cont` (binders `x̄` over `cont`, where `cont`
      is the consumer of the `case`, or the `μ~v.share_…(fv)` that replaces it);
  everywhere else the consumer under a fresh/own binder is a fresh covariable, the label itself, or
  the recursion descends into a subterm with a NEW consumer (which is then checked there).  The
  checks are made on the consumer ACTUALLY placed (after `share`), with the binders ACTUALLY emitted
  (the typed clause context).
  Since the repair ce30c7b both places are behind the guard `binders_occur_free`, and the predicate
  is `true` for every input (`Scc.Fun2Core.HygieneProofs`, `C02_no_capture`).
  Executable, core imports only, structurally recursive (same two-closure layout as `compileBoth`;
  intermediate states and statements are those of the real model functions).
-/
import Scc.Fun2Core.Model

namespace Scc.Fun2Core
open Scc

/-- names of the typed free variables of a consumer (`typed_free_vars`, ids are all 0 in S2) -/
def fvNames (c : Core.Term) : List String := (tfvTerm c []).map (·.var.name)

/-- no name of `binders` occurs free in `cont` -/
def noCapture (binders : List String) (cont : Core.Term) : Bool :=
  binders.all fun x => !(fvNames cont).contains x

abbrev HygCwc : Type := Core.Term → CompileState → Bool
abbrev HygComp : Type := Core.Ty → CompileState → Bool

/-- mirrors `defaultCompile` -/
def hygDefault (h : HygCwc) : HygComp := fun ty st =>
  let nc := freshCovar st
  h (.var .cns ⟨nc.1, 0⟩ ty) nc.2

/-- mirrors `guardedLvl`: on the guarded path the consumer stays outside (`⟨μa.⟦t⟧_a | cont⟩`) -/
def hygGuardedLvl (binders : List String) (ty : Option Fun.Ty) (core : HygCwc) : Nat → HygCwc
  | 0 => fun _ _ => true
  | n + 1 => fun cont st =>
    if bindersOccurFree binders cont then
      match ty with
      | none => true
      | some t => hygDefault (hygGuardedLvl binders ty core n) (compileTy t) st
    else core cont st

def hygGuarded (binders : List String) (ty : Option Fun.Ty) (core : HygCwc) : HygCwc :=
  hygGuardedLvl binders ty core (binders.length + 2)

mutual
  /-- hygiene of `compile_with_cont` / `compile` of a term, from a given state -/
  def hygBoth : Fun.Term → HygCwc × HygComp
    | .var _ _ _ => (fun _ _ => true, fun _ _ => true)
    | .lit _ => (fun _ _ => true, fun _ _ => true)
    | .op a _ b =>
      let h : CompileState → Bool := fun st =>
        (hygBoth a).2 .i64 st &&
        (match compile a .i64 st with
          | .error _ => true
          | .ok (_, st1) => (hygBoth b).2 .i64 st1)
      (fun _ st => h st, fun _ st => h st)
    | .ifc _ a b t e _ =>
      let h : HygCwc := fun cont st =>
        let r := if isLeaf cont then (cont, st) else share cont st
        (hygBoth a).2 .i64 r.2 &&
        (match compile a .i64 r.2 with
          | .error _ => true
          | .ok (_, st1) =>
            (hygBoth b).2 .i64 st1 &&
            (match compile b .i64 st1 with
              | .error _ => true
              | .ok (_, st2) =>
                (hygBoth t).1 r.1 st2 &&
                (match compileWithCont t r.1 st2 with
                  | .error _ => true
                  | .ok (_, st3) => (hygBoth e).1 r.1 st3)))
      (h, hygDefault h)
    | .ifz _ a t e _ =>
      let h : HygCwc := fun cont st =>
        let r := if isLeaf cont then (cont, st) else share cont st
        (hygBoth a).2 .i64 r.2 &&
        (match compile a .i64 r.2 with
          | .error _ => true
          | .ok (_, st1) =>
            (hygBoth t).1 r.1 st1 &&
            (match compileWithCont t r.1 st1 with
              | .error _ => true
              | .ok (_, st2) => (hygBoth e).1 r.1 st2))
      (h, hygDefault h)
    | .print _ a n _ =>
      let h : HygCwc := fun cont st =>
        (hygBoth a).2 .i64 st &&
        (match compile a .i64 st with
          | .error _ => true
          | .ok (_, st1) => (hygBoth n).1 cont st1)
      (h, hygDefault h)
    -- terms/let.rs: `cont` goes under the binder `x` (after the guard)
    | .letIn x varTy bound body lty =>
      let core : HygCwc := fun cont st =>
        noCapture [x] cont && (hygBoth body).1 cont st &&
        (match compileWithCont body cont st with
          | .error _ => true
          | .ok (inStmt, st1) =>
            let ty := compileTy varTy
            if isCodata ty st1.codataTypes then (hygBoth bound).2 ty st1
            else (hygBoth bound).1 (.mu .cns ⟨x, 0⟩ ty inStmt) st1)
      let h : HygCwc := hygGuarded [x] lty core
      (h, hygDefault h)
    | .call _ args _ =>
      let h : HygCwc := fun _ st => hygSubst args st
      (h, hygDefault h)
    | .ctor _ args _ => (fun _ st => hygSubst args st, fun _ st => hygSubst args st)
    | .dtor scrutinee id _ args _ =>
      let h : HygCwc := fun cont st =>
        hygSubst args st &&
        (match compileSubst args st with
          | .error _ => true
          | .ok (args', st1) =>
            match getType scrutinee with
            | none => true
            | some t =>
              (hygBoth scrutinee).1
                (.xtor .cns ⟨id, 0⟩ (argsSnoc args' .cns cont) (compileTy t)) st1)
      (h, hygDefault h)
    | .case scrutinee _ clauses cty =>
      let core : HygCwc := fun cont st =>
        let r := if clausesLen clauses ≤ 1 || isLeaf cont then (cont, st) else share cont st
        hygClauses clauses r.1 r.2 &&
        (match compileClauses clauses r.1 r.2 with
          | .error _ => true
          | .ok (cs, st1) =>
            match getType scrutinee with
            | none => true
            | some t => (hygBoth scrutinee).1 (.xcase .cns (compileTy t) cs) st1)
      let h : HygCwc := hygGuarded (clausesNames clauses) cty core
      (h, hygDefault h)
    | .new clauses _ => (fun _ st => hygCoclauses clauses st, fun _ st => hygCoclauses clauses st)
    | .goto target t _ =>
      let h : HygCwc := fun _ st =>
        match getType t with
        | none => true
        | some gty => (hygBoth t).1 (.var .cns ⟨target, 0⟩ (compileTy gty)) st
      (h, hygDefault h)
    | .label a t ty =>
      let h : CompileState → Bool := fun st =>
        match ty with
        | none => true
        | some lty => (hygBoth t).1 (.var .cns ⟨a, 0⟩ (compileTy lty)) st
      (fun _ st => h st, fun _ st => h st)
    | .exit arg _ =>
      let h : HygCwc := fun _ st => (hygBoth arg).2 .i64 st
      (h, hygDefault h)
    | .paren inner => (fun c st => (hygBoth inner).1 c st, fun ty st => (hygBoth inner).2 ty st)
  def hygSubst : Fun.Terms → CompileState → Bool
    | .nil, _ => true
    | .cons term rest, st =>
      match covarArg term with
      | some _ => hygSubst rest st
      | none =>
        match getType term with
        | none => true
        | some t =>
          (hygBoth term).2 (compileTy t) st &&
          (match compile term (compileTy t) st with
            | .error _ => true
            | .ok (_, st1) => hygSubst rest st1)
  -- terms/clause.rs compile_clause: `cont` goes under the clause binders
  def hygClauses : Fun.Clauses → Core.Term → CompileState → Bool
    | .nil, _, _ => true
    | .cons _ _ _ ctx body rest, cont, st =>
      noCapture (ctx.map (·.var)) cont && (hygBoth body).1 cont st &&
      (match compileWithCont body cont st with
        | .error _ => true
        | .ok (_, st1) => hygClauses rest cont st1)
  def hygCoclauses : Fun.Clauses → CompileState → Bool
    | .nil, _ => true
    | .cons _ _ _ _ body rest, st =>
      match getType body with
      | none => true
      | some t =>
        let nc := freshCovar st
        (hygBoth body).1 (.var .cns ⟨nc.1, 0⟩ (compileTy t)) nc.2 &&
        (match compileWithCont body (.var .cns ⟨nc.1, 0⟩ (compileTy t)) nc.2 with
          | .error _ => true
          | .ok (_, st1) => hygCoclauses rest st1)
end

/-- hygiene of the translation of one definition (def.rs: compile_def / compile_main); also returns
the `used_labels` after it -/
def hygDef (isMain : Bool) (d : Fun.Def) (codataTypes : List Core.TypeDecl)
    (usedLabels : List String) : Bool × List String :=
  let usedVars := usedBinders d.body (ctxVars d.ctx)
  let st : CompileState := ⟨usedVars, codataTypes, usedLabels, d.name, []⟩
  match getType d.body with
  | none => (true, usedLabels)
  | some t =>
    let ty := compileTy t
    let r : Core.Term × CompileState :=
      if isMain then
        let nv := freshVar st
        (.mu .cns ⟨nv.1, 0⟩ ty (.exit (.var .prd ⟨nv.1, 0⟩ ty) ty), nv.2)
      else
        let nc := freshCovar st
        (.var .cns ⟨nc.1, 0⟩ ty, nc.2)
    let ok := (hygBoth d.body).1 r.1 r.2
    match compileWithCont d.body r.1 r.2 with
    | .error _ => (ok, usedLabels)
    | .ok (_, st') => (ok, st'.usedLabels)

def hygDefs (codataTypes : List Core.TypeDecl) : List Fun.Def → List String → Bool
  | [], _ => true
  | d :: rest, usedLabels =>
    let r := hygDef (d.name == "main") d codataTypes usedLabels
    r.1 && hygDefs codataTypes rest r.2

/-- C02: the decidable hygiene predicate — no continuation is placed under a binder whose name
occurs free in it, anywhere in the translation of `p` -/
def Hygienic (p : Fun.CheckedProgram) : Bool :=
  let codataTypes : List Core.TypeDecl :=
    p.codataTypes.map fun d => ⟨⟨d.name, 0⟩, d.dtors.map compileDtor⟩
  let usedLabels := p.defs.foldl (fun acc d => setInsert d.name acc) []
  hygDefs codataTypes p.defs usedLabels

/-- line driver: `HYG true|false` for an S1 dump -/
def hygLine (dumpS1 : String) : String :=
  match Sexp.parse dumpS1 with
  | none => "ERR sexp"
  | some sx =>
    match Fun.readChecked (dumpS1.length + 10) sx with
    | none => "ERR read"
    | some p => "HYG " ++ toString (Hygienic p)

end Scc.Fun2Core
