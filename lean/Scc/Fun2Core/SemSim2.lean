/-
  Scc.Fun2Core.SemSim2 — the operand lemma for all terms of the fragment, entering a translated
  sub-statement, and the continuation lemmas of the frames `if`, `ifz`, `print`, `exit`.
-/
import Scc.Fun2Core.SemSim1
import Scc.Fun2Core.SemCoreSteps

namespace Scc.Fun2Core.Sem
open Scc

variable {q : Core.Prog} {p : Fun.CheckedProgram}

/-- a term of the fragment in operand position (of a statement whose operand has type `i64`) -/
theorem operand_sim (hcod : CodOK p q) {cp : Bool} {μ : Nat} :
    ∀ (b : Fun.Term), good p b = true → getType b = some .i64 → ∀ {st : CompileState} {B : Core.Term}
      {st' : CompileState} {env : Fun.Env} {K : Fun.Stack} {ρ0 ρ : CEnv} {n : Nat} {out : Out}
      (Sx : Core.Term → Core.Stmt),
      (∀ A, A.isVar = false → (Sx A).split = some (.prd, A, Sx)) →
      compile b .i64 st = .ok (B, st') → StOK q st' → TermNames b st →
      EnvRel (GP p) p q n (fv b) env ρ0 → BoundOn (tfvTerm B []) ρ0 → AgreeOn (tfvTerm B []) ρ0 ρ →
      (∀ τ, KRel (GP p) p q (n + 1) K
        (.mutilde ρ (Core.sigmaName n) (Sx (.var .prd (Core.sigmaName n) τ)))) →
      (∀ ρ' n' z τ v V, n ≤ n' → SigExt n ρ ρ' → Core.Env.lookup ρ' z = .ok V →
        VRel (GP p) p q n v V → (z.name = sig → z.id < n') →
        Chunk p q (R p q) true cp μ (.ret v K) ⟨Sx (.var .prd z τ), ρ', out, n'⟩) →
      Chunk p q (R p q) false cp μ (.eval b env K) ⟨Sx B, ρ, out, n⟩
  | .var x vty chi, hg, hbt, st, B, st', _, _, _, _, _, _, Sx, hsp, hcB, hst, htn, he, hbd, hag, _, hF => by
    obtain rfl : vty = some .i64 := hbt
    have hnc : Core.isCodata q.codataTypes (compileTy .i64) = false := rfl
    generalize Fun.Ty.i64 = τ at hcB hnc htn he
    have hB : B = .var .prd ⟨x, 0⟩ (compileTy τ) := by
      rw [c_var] at hcB
      simp only [Except.ok.injEq, Prod.mk.injEq] at hcB
      exact hcB.1.symm
    exact operand_direct Sx hsp (b := .var x (some τ) chi) rfl hcB hst htn he hbd hag
      (by rw [hB]; exact hnc) hF
  | .lit k, _, _, st, B, st', _, _, _, _, _, _, Sx, hsp, hcB, hst, htn, he, hbd, hag, _, hF => by
    have hB : B = .lit k := by
      rw [c_lit] at hcB
      simp only [Except.ok.injEq, Prod.mk.injEq] at hcB
      exact hcB.1.symm
    exact operand_direct Sx hsp (b := .lit k) rfl hcB hst htn he hbd hag (by rw [hB]; rfl) hF
  | .op a o b, hg, hbt, st, B, st', _, _, _, _, _, _, Sx, hsp, hcB, hst, htn, he, hbd, hag, _, hF => by
    simp only [good, Bool.and_eq_true] at hg
    have hB : B.ty = .i64 := by
      rw [c_op] at hcB
      cases hca : compile a .i64 st with
      | error e => simp [hca] at hcB
      | ok ra =>
        cases hcb : compile b .i64 ra.2 with
        | error e => simp [hca, hcb] at hcB
        | ok rb =>
          simp only [hca, hcb, Except.ok.injEq, Prod.mk.injEq] at hcB
          rw [← hcB.1]; rfl
    exact operand_direct Sx hsp (b := .op a o b)
      (by simp [pureD, goodP_pureFO p a hg.1, goodP_pureFO p b hg.2]) hcB hst htn he hbd hag
      (by rw [hB]; rfl) hF
  | .ctor c as cty, hg, hbt, st, B, st', _, _, _, _, _, _, Sx, hsp, hcB, hst, htn, he, hbd, hag, _, hF => by
    simp only [good, Bool.and_eq_true] at hg
    obtain rfl : cty = some .i64 := hbt
    have hnc : Core.isCodata q.codataTypes (compileTy .i64) = false := rfl
    generalize Fun.Ty.i64 = τ at hcB hnc htn he
    have hB : B.ty = compileTy τ := by
      rw [c_ctor] at hcB
      cases hca : compileSubst as st with
      | error e => simp [hca] at hcB
      | ok ra =>
        simp only [hca, Except.ok.injEq, Prod.mk.injEq] at hcB
        rw [← hcB.1]; rfl
    exact operand_direct Sx hsp (b := .ctor c as (some τ))
      (by simp [pureD, goodPs_pureFOs p as hg.1]) hcB hst htn he hbd hag (by rw [hB]; exact hnc) hF
  | .paren t, hg, hbt, st, B, st', env, K, ρ0, ρ, n, out, Sx, hsp, hcB, hst, htn, he, hbd, hag, hK, hF => by
    have f1 : FSteps p (.eval (.paren t) env K) (.eval t env K) [] 1 := .one rfl
    refine Chunk.prefix f1 (.refl _) rfl (fun h => by cases h) (fun h => .inr h) ?_
    exact operand_sim hcod t (by simpa [good] using hg) (by simpa [getType] using hbt) Sx hsp (by rwa [c_paren] at hcB) hst
      ⟨by simpa [fv] using htn.fv, by simpa [binderNames] using htn.bd, htn.nosig⟩
      (by simpa [fv] using he) hbd hag hK hF
  | .label a t lty, hg, hbt, _, _, _, _, _, _, _, _, _, Sx, hsp, hcB, hst, htn, he, hbd, hag, hK, _ =>
    operand_label Sx hsp hg hbt hcB hst htn he hbd hag hK
  | .ifc s a b t e ty, hg, hbt, _, _, _, _, _, _, _, _, _, Sx, hsp, hcB, hst, htn, he, hbd, hag, hK, _ =>
    operand_default Sx hsp hg hcB (c_ifc ..) rfl hst htn he hbd hag hK
  | .ifz s a t e ty, hg, hbt, _, _, _, _, _, _, _, _, _, Sx, hsp, hcB, hst, htn, he, hbd, hag, hK, _ =>
    operand_default Sx hsp hg hcB (c_ifz ..) rfl hst htn he hbd hag hK
  | .print nl a n' ty, hg, hbt, _, _, _, _, _, _, _, _, _, Sx, hsp, hcB, hst, htn, he, hbd, hag, hK, _ =>
    operand_default Sx hsp hg hcB (c_print ..) rfl hst htn he hbd hag hK
  | .letIn x vt b i ty, hg, hbt, _, _, _, _, _, _, _, _, _, Sx, hsp, hcB, hst, htn, he, hbd, hag, hK, _ =>
    operand_default Sx hsp hg hcB (c_letIn ..) rfl hst htn he hbd hag hK
  | .call f as ty, hg, hbt, _, _, _, _, _, _, _, _, _, Sx, hsp, hcB, hst, htn, he, hbd, hag, hK, _ =>
    operand_default Sx hsp hg hcB (c_call ..) rfl hst htn he hbd hag hK
  | .case s ta cs ty, hg, hbt, _, _, _, _, _, _, _, _, _, Sx, hsp, hcB, hst, htn, he, hbd, hag, hK, _ =>
    operand_default Sx hsp hg hcB (c_case ..) rfl hst htn he hbd hag hK
  | .dtor s d ta as ty, hg, hbt, _, _, _, _, _, _, _, _, _, Sx, hsp, hcB, hst, htn, he, hbd, hag, hK, _ =>
    operand_default Sx hsp hg hcB (c_dtor ..) rfl hst htn he hbd hag hK
  | .goto a t ty, hg, hbt, _, _, _, _, _, _, _, _, _, Sx, hsp, hcB, hst, htn, he, hbd, hag, hK, _ =>
    operand_default Sx hsp hg hcB (c_goto ..) rfl hst htn he hbd hag hK
  | .exit t ty, hg, hbt, _, _, _, _, _, _, _, _, _, Sx, hsp, hcB, hst, htn, he, hbd, hag, hK, _ =>
    operand_default Sx hsp hg hcB (c_exit ..) rfl hst htn he hbd hag hK
  | .new cs cty, hg, hbt, st, B, st', _, _, _, _, _, _, Sx, hsp, hcB, hst, htn, he, hbd, hag, _, hF => by
    simp only [good, Bool.and_eq_true] at hg
    obtain rfl : cty = some .i64 := hbt
    have hB : B.ty = .i64 := by
      rw [c_new] at hcB
      cases hca : compileCoclauses cs st with
      | error e => simp [hca] at hcB
      | ok ra =>
        simp only [hca, Except.ok.injEq, Prod.mk.injEq] at hcB
        rw [← hcB.1]; rfl
    exact operand_direct Sx hsp (b := .new cs (some .i64))
      (by simp [pureD, hg.1]) hcB hst htn he hbd hag (by rw [hB]; rfl) hF

/-! ## entering a translated sub-statement -/

theorem CRel.sigExt {n m : Nat} {k : Fun.Stack} {c : Core.Term} {ρ0 ρ0' : CEnv}
    (h : CRel (GP p) p q n k c ρ0) (he : SigExt m ρ0 ρ0')
    (hc : ∀ b ∈ tfvTerm c [], b.var.name = sig → b.var.id < m) : CRel (GP p) p q n k c ρ0' :=
  h.agree fun b hb => he.lookup b.var (hc b hb)

theorem ConsNames.sig_lt {c : Core.Term} {st : CompileState} {i m : Nat} (h : ConsNames c st i)
    (him : i ≤ m) : ∀ b ∈ tfvTerm c [], b.var.name = sig → b.var.id < m := by
  intro b hb e
  have hocc : b ∈ occTerm c := by
    rcases (tfvTerm_spec c []).2 b hb with h' | h'
    · simp at h'
    · exact h'
  rcases h b hocc with ⟨_, h2⟩ | ⟨h1, _⟩
  · omega
  · exact absurd e h1

/-- the Core machine enters the translation `T = ⟦t⟧_c` of a term, in an environment that extends
(by machine-fresh names that are new for `c`) one that agrees with an ideal environment -/
theorem srel_enter {t : Fun.Term} {c : Core.Term} {T : Core.Stmt} {i m n' : Nat} {env : Fun.Env}
    {k : Fun.Stack} {ρ0 ρ ρ' : CEnv} {out : Out}
    (hg : good p t = true) (hc : Compiled q i t c T) (him : i ≤ m) (hin : i ≤ n')
    (he : EnvRel (GP p) p q n' (fv t) env ρ0) (hr : CRel (GP p) p q n' k c ρ0)
    (hb : BoundOn (tfvStmt T []) ρ0) (ha : AgreeOn (tfvStmt T []) ρ0 ρ) (hext : SigExt m ρ ρ') :
    R p q (.eval t env k) ⟨T, ρ', out, n'⟩ := by
  obtain ⟨ρ0', hext0, hag⟩ := hext.agree (ρ0 := ρ0)
  obtain ⟨st, st', h1, h2, h3, h4⟩ := hc
  exact SRel.eval (ρ0 := ρ0') hg ⟨st, st', h1, h2, h3, h4.mono hin⟩
    (he.sigExt hext0 h3.fv_ne_sig) (hr.sigExt hext0 (h4.sig_lt him)) (hb.sigExt hext0) (hag _ ha)

end Scc.Fun2Core.Sem
