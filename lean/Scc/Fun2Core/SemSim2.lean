/-
  Scc.Fun2Core.SemSim2 — the operand lemma for all terms of the fragment, entering a translated
  sub-statement, and the continuation lemmas of the frames `if`, `ifz`, `print`, `exit`.
-/
import Scc.Fun2Core.SemSim1
import Scc.Fun2Core.SemCoreSteps

namespace Scc.Fun2Core.Sem
open Scc

variable {q : Core.Prog} {p : Fun.CheckedProgram}

/-- a term of the fragment in operand position -/
theorem operand_sim (hq : q.codataTypes = []) (hp : p.codataTypes = []) :
    ∀ (b : Fun.Term), good b = true → ∀ {ty0 : Core.Ty} {st : CompileState} {B : Core.Term}
      {st' : CompileState} {env : Fun.Env} {K : Fun.Stack} {ρ0 ρ : CEnv} {n : Nat} {out : Out}
      (Sx : Core.Term → Core.Stmt),
      (∀ A, A.isVar = false → (Sx A).split = some (.prd, A, Sx)) →
      compile b ty0 st = .ok (B, st') → StOK q st' → TermNames b st →
      EnvRel GP q n (fv b) env ρ0 → BoundOn (tfvTerm B []) ρ0 → AgreeOn (tfvTerm B []) ρ0 ρ →
      (∀ τ, KRel GP q (n + 1) K
        (.mutilde ρ (Core.sigmaName n) (Sx (.var .prd (Core.sigmaName n) τ)))) →
      (∀ ρ' n' z τ v V, n ≤ n' → SigExt n ρ ρ' → Core.Env.lookup ρ' z = .ok V →
        VRel GP q n v V → (z.name = sig → z.id < n') →
        Chunk p q (R q) true (.ret v K) ⟨Sx (.var .prd z τ), ρ', out, n'⟩) →
      Chunk p q (R q) false (.eval b env K) ⟨Sx B, ρ, out, n⟩
  | .var x vty chi, _, _, _, _, _, _, _, _, _, _, _, Sx, hsp, hcB, _, htn, he, _, hag, _, hF =>
    operand_direct hq Sx hsp (b := .var x vty chi) rfl hcB htn he hag hp hF
  | .lit k, _, _, _, _, _, _, _, _, _, _, _, Sx, hsp, hcB, _, htn, he, _, hag, _, hF =>
    operand_direct hq Sx hsp (b := .lit k) rfl hcB htn he hag hp hF
  | .op a o b, hg, _, _, _, _, _, _, _, _, _, _, Sx, hsp, hcB, _, htn, he, _, hag, _, hF =>
    operand_direct hq Sx hsp (b := .op a o b) (by simpa [good, pureD] using hg) hcB htn he hag hp hF
  | .ctor c as cty, hg, _, _, _, _, _, _, _, _, _, _, Sx, hsp, hcB, _, htn, he, _, hag, _, hF =>
    operand_direct hq Sx hsp (b := .ctor c as cty) (by simpa [good, pureD] using hg) hcB htn he hag hp hF
  | .paren t, hg, ty0, st, B, st', env, K, ρ0, ρ, n, out, Sx, hsp, hcB, hst, htn, he, hbd, hag, hK, hF => by
    have f1 : FSteps p (.eval (.paren t) env K) (.eval t env K) [] 1 := .one rfl
    refine Chunk.prefix f1 (.refl _) rfl (fun h => by cases h) ?_
    exact operand_sim hq hp t (by simpa [good] using hg) Sx hsp (by rwa [c_paren] at hcB) hst
      ⟨by simpa [fv] using htn.fv, by simpa [binderNames] using htn.bd, htn.nosig⟩
      (by simpa [fv] using he) hbd hag hK hF
  | .label a t lty, hg, _, _, _, _, _, _, _, _, _, _, Sx, hsp, hcB, hst, htn, he, hbd, hag, hK, _ =>
    operand_label hq Sx hsp hg hcB hst htn he hbd hag hK
  | .ifc s a b t e ty, hg, _, _, _, _, _, _, _, _, _, _, Sx, hsp, hcB, hst, htn, he, hbd, hag, hK, _ =>
    operand_default hq Sx hsp hg hcB (c_ifc ..) hst htn he hbd hag hK
  | .ifz s a t e ty, hg, _, _, _, _, _, _, _, _, _, _, Sx, hsp, hcB, hst, htn, he, hbd, hag, hK, _ =>
    operand_default hq Sx hsp hg hcB (c_ifz ..) hst htn he hbd hag hK
  | .print nl a n' ty, hg, _, _, _, _, _, _, _, _, _, _, Sx, hsp, hcB, hst, htn, he, hbd, hag, hK, _ =>
    operand_default hq Sx hsp hg hcB (c_print ..) hst htn he hbd hag hK
  | .letIn x vt b i ty, hg, _, _, _, _, _, _, _, _, _, _, Sx, hsp, hcB, hst, htn, he, hbd, hag, hK, _ =>
    operand_default hq Sx hsp hg hcB (c_letIn ..) hst htn he hbd hag hK
  | .call f as ty, hg, _, _, _, _, _, _, _, _, _, _, Sx, hsp, hcB, hst, htn, he, hbd, hag, hK, _ =>
    operand_default hq Sx hsp hg hcB (c_call ..) hst htn he hbd hag hK
  | .case s ta cs ty, hg, _, _, _, _, _, _, _, _, _, _, Sx, hsp, hcB, hst, htn, he, hbd, hag, hK, _ =>
    operand_default hq Sx hsp hg hcB (c_case ..) hst htn he hbd hag hK
  | .goto a t ty, hg, _, _, _, _, _, _, _, _, _, _, Sx, hsp, hcB, hst, htn, he, hbd, hag, hK, _ =>
    operand_default hq Sx hsp hg hcB (c_goto ..) hst htn he hbd hag hK
  | .exit t ty, hg, _, _, _, _, _, _, _, _, _, _, Sx, hsp, hcB, hst, htn, he, hbd, hag, hK, _ =>
    operand_default hq Sx hsp hg hcB (c_exit ..) hst htn he hbd hag hK
  | .new .., hg, _, _, _, _, _, _, _, _, _, _, _, _, _, _, _, _, _, _, _, _ => by simp [good] at hg
  | .dtor .., hg, _, _, _, _, _, _, _, _, _, _, _, _, _, _, _, _, _, _, _, _ => by simp [good] at hg

/-! ## entering a translated sub-statement -/

theorem CRel.sigExt {n m : Nat} {k : Fun.Stack} {c : Core.Term} {ρ0 ρ0' : CEnv}
    (h : CRel GP q n k c ρ0) (he : SigExt m ρ0 ρ0')
    (hc : ∀ b ∈ tfvTerm c [], b.var.name = sig → b.var.id < m) : CRel GP q n k c ρ0' :=
  h.agree fun b hb => he.lookup b.var (hc b hb)

theorem ConsNames.sig_lt {c : Core.Term} {st : CompileState} {i m : Nat} (h : ConsNames c st i)
    (him : i ≤ m) : ∀ b ∈ tfvTerm c [], b.var.name = sig → b.var.id < m := by
  intro b hb e
  have hocc : b ∈ occTerm c := by
    rcases (tfvTerm_spec c []).2 b hb with h' | h'
    · simp at h'
    · exact h'
  rcases h b hocc with ⟨_, h2⟩ | ⟨h1, _⟩
  · omega
  · exact absurd e h1

/-- the Core machine enters the translation `T = ⟦t⟧_c` of a term, in an environment that extends
(by machine-fresh names that are new for `c`) one that agrees with an ideal environment -/
theorem srel_enter {t : Fun.Term} {c : Core.Term} {T : Core.Stmt} {i m n' : Nat} {env : Fun.Env}
    {k : Fun.Stack} {ρ0 ρ ρ' : CEnv} {out : Out}
    (hg : good t = true) (hc : Compiled q i t c T) (him : i ≤ m) (hin : i ≤ n')
    (he : EnvRel GP q n' (fv t) env ρ0) (hr : CRel GP q n' k c ρ0)
    (hb : BoundOn (tfvStmt T []) ρ0) (ha : AgreeOn (tfvStmt T []) ρ0 ρ) (hext : SigExt m ρ ρ') :
    R q (.eval t env k) ⟨T, ρ', out, n'⟩ := by
  obtain ⟨ρ0', hext0, hag⟩ := hext.agree (ρ0 := ρ0)
  obtain ⟨st, st', h1, h2, h3, h4⟩ := hc
  exact SRel.eval (ρ0 := ρ0') hg ⟨st, st', h1, h2, h3, h4.mono hin⟩
    (he.sigExt hext0 h3.fv_ne_sig) (hr.sigExt hext0 (h4.sig_lt him)) (hb.sigExt hext0) (hag _ ha)

end Scc.Fun2Core.Sem
