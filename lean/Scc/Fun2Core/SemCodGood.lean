/-
  Scc.Fun2Core.SemCodGood — the well-formedness predicate `good` of the simulation
  (Scc/Fun2Core/SemSim0.lean) holds of every term that is typed (`TypedM`: what the checker
  guarantees of its output), sequenced (`Fun.seqTerm`: property C02's side condition) and does not
  call `main`.  So `good` is no restriction: on accepted sequenced programs it is a theorem.
-/
import Scc.Fun2Core.SemSim0
import Scc.Fun2Core.SemCodTypingLemmas
import Scc.Fun2Core.TypedAux
import Scc.Fun.MainCall

namespace Scc.Fun2Core.Sem
open Scc Scc.Fun2Core.Typed

variable {p : Fun.CheckedProgram}

theorem annO_getType {t : Fun.Term} {Γ : Fun.Ctx} {τ : Fun.Ty} (h : TypedM p t Γ τ) :
    annO t.getType = true := by
  rw [getTypeM_of_typed p t Γ τ h]; rfl

theorem i64T_of_typed {t : Fun.Term} {Γ : Fun.Ctx} (h : TypedM p t Γ .i64) : i64T t = true :=
  i64T_iff.2 (getType_of_typed p t Γ .i64 h)

/-- a pure term of a codata type is a variable or a `new` -/
theorem pureS_of_typed (hP : ProgM p) : ∀ (t : Fun.Term) (Γ : Fun.Ctx) (τ : Fun.Ty),
    TypedM p t Γ τ → Fun.pureTerm t = true → Fun.isCodataTy p τ = true → pureS t = true
  | .var .., _, _, _, _, _ => rfl
  | .new .., _, _, _, _, _ => rfl
  | .paren t, Γ, τ, h, hp, hc => by
    simp only [TypedM] at h
    simp only [Fun.pureTerm] at hp
    simp only [pureS]
    exact pureS_of_typed hP t Γ τ h hp hc
  | .lit _, _, _, h, _, hc => by
    simp only [TypedM] at h; subst h; simp [Fun.isCodataTy] at hc
  | .op .., _, _, h, _, hc => by
    simp only [TypedM] at h; rw [h.1] at hc; simp [Fun.isCodataTy] at hc
  | .ctor .., _, _, h, _, hc => by
    simp only [TypedM] at h
    obtain ⟨_, _, d, c, hd, _⟩ := h
    rw [isCodataTy_of_dataDecl hP hd] at hc; cases hc
  | .ifc .., _, _, _, hp, _ => by simp [Fun.pureTerm] at hp
  | .ifz .., _, _, _, hp, _ => by simp [Fun.pureTerm] at hp
  | .print .., _, _, _, hp, _ => by simp [Fun.pureTerm] at hp
  | .letIn .., _, _, _, hp, _ => by simp [Fun.pureTerm] at hp
  | .call .., _, _, _, hp, _ => by simp [Fun.pureTerm] at hp
  | .dtor .., _, _, _, hp, _ => by simp [Fun.pureTerm] at hp
  | .case .., _, _, _, hp, _ => by simp [Fun.pureTerm] at hp
  | .label .., _, _, _, hp, _ => by simp [Fun.pureTerm] at hp
  | .goto .., _, _, _, hp, _ => by simp [Fun.pureTerm] at hp
  | .exit .., _, _, _, hp, _ => by simp [Fun.pureTerm] at hp

mutual
  theorem good_of_typed (hP : ProgM p) : ∀ (t : Fun.Term) (Γ : Fun.Ctx) (τ : Fun.Ty),
      TypedM p t Γ τ → Fun.seqTerm p t = true → t.callsMain = false → good p t = true
    | .var x ty chi, _, _, h, _, _ => by
      simp only [TypedM] at h
      simp [good, h.2.1, annO]
    | .lit _, _, _, _, _, _ => rfl
    | .op a o b, Γ, τ, h, hs, hm => by
      simp only [TypedM] at h
      simp only [Fun.seqTerm, Bool.and_eq_true] at hs
      simp only [Fun.Term.callsMain, Bool.or_eq_false_iff] at hm
      simp only [good, Bool.and_eq_true]
      exact ⟨goodP_of_typed hP a Γ .i64 h.2.1 hs.1.1.1 hs.1.2 hm.1,
        goodP_of_typed hP b Γ .i64 h.2.2 hs.1.1.2 hs.2 hm.2⟩
    | .ifc _ a b t e an, Γ, τ, h, hs, hm => by
      simp only [TypedM] at h
      obtain ⟨_, han, ha, hb, ht, he⟩ := h
      simp only [Fun.seqTerm, Bool.and_eq_true] at hs
      simp only [Fun.Term.callsMain, Bool.or_eq_false_iff] at hm
      simp only [good, Bool.and_eq_true]
      exact ⟨⟨⟨⟨⟨⟨good_of_typed hP a Γ _ ha hs.1.1.1 hm.1.1.1, good_of_typed hP b Γ _ hb hs.1.1.2 hm.1.1.2⟩,
        good_of_typed hP t Γ _ ht hs.1.2 hm.1.2⟩, good_of_typed hP e Γ _ he hs.2 hm.2⟩,
        by rw [han]; rfl⟩, i64T_of_typed ha⟩, i64T_of_typed hb⟩
    | .ifz _ a t e an, Γ, τ, h, hs, hm => by
      simp only [TypedM] at h
      obtain ⟨_, han, ha, ht, he⟩ := h
      simp only [Fun.seqTerm, Bool.and_eq_true] at hs
      simp only [Fun.Term.callsMain, Bool.or_eq_false_iff] at hm
      simp only [good, Bool.and_eq_true]
      exact ⟨⟨⟨⟨good_of_typed hP a Γ _ ha hs.1.1 hm.1.1, good_of_typed hP t Γ _ ht hs.1.2 hm.1.2⟩,
        good_of_typed hP e Γ _ he hs.2 hm.2⟩, by rw [han]; rfl⟩, i64T_of_typed ha⟩
    | .print _ a n an, Γ, τ, h, hs, hm => by
      simp only [TypedM] at h
      obtain ⟨_, han, ha, hn⟩ := h
      simp only [Fun.seqTerm, Bool.and_eq_true] at hs
      simp only [Fun.Term.callsMain, Bool.or_eq_false_iff] at hm
      simp only [good, Bool.and_eq_true]
      exact ⟨⟨⟨good_of_typed hP a Γ _ ha hs.1 hm.1, good_of_typed hP n Γ _ hn hs.2 hm.2⟩,
        by rw [han]; rfl⟩, i64T_of_typed ha⟩
    | .letIn x σ b i an, Γ, τ, h, hs, hm => by
      simp only [TypedM] at h
      obtain ⟨_, han, hb, hi⟩ := h
      simp only [Fun.seqTerm, Bool.and_eq_true, Bool.or_eq_true, Bool.not_eq_true'] at hs
      simp only [Fun.Term.callsMain, Bool.or_eq_false_iff] at hm
      simp only [good, Bool.and_eq_true]
      refine ⟨⟨by rw [han]; rfl, good_of_typed hP i _ _ hi hs.2 hm.2⟩, ?_⟩
      by_cases hcd : Fun.isCodataTy p σ = true
      · rw [if_pos hcd]
        simp only [Bool.and_eq_true]
        rcases hs.1.1 with h' | h'
        · rw [hcd] at h'; cases h'
        · exact ⟨goodP_of_typed hP b Γ σ hb h' hs.1.2 hm.1, pureS_of_typed hP b Γ σ hb h' hcd⟩
      · rw [if_neg hcd]
        exact good_of_typed hP b Γ σ hb hs.1.2 hm.1
    | .call f as an, Γ, τ, h, hs, hm => by
      simp only [TypedM] at h
      obtain ⟨_, han, d, _, _, _, hargs⟩ := h
      simp only [Fun.seqTerm, Bool.and_eq_true] at hs
      simp only [Fun.Term.callsMain, Bool.or_eq_false_iff] at hm
      simp only [good, Bool.and_eq_true, bne_iff_ne, ne_eq]
      exact ⟨⟨by simpa using hm.1, goodPs_of_typed hP as Γ d.ctx hargs hs.1 hs.2 hm.2⟩,
        by rw [han]; rfl⟩
    | .ctor _ as an, Γ, τ, h, hs, hm => by
      simp only [TypedM] at h
      obtain ⟨_, han, d, c, _, _, hargs⟩ := h
      simp only [Fun.seqTerm, Bool.and_eq_true] at hs
      simp only [Fun.Term.callsMain] at hm
      simp only [good, Bool.and_eq_true]
      exact ⟨goodPs_of_typed hP as Γ c.args hargs hs.1 hs.2 hm, by rw [han]; rfl⟩
    | .dtor s _ _ as an, Γ, τ, h, hs, hm => by
      simp only [TypedM] at h
      obtain ⟨_, han, σ, d, sg, hsc, _, _, _, hargs⟩ := h
      simp only [Fun.seqTerm, Bool.and_eq_true] at hs
      simp only [Fun.Term.callsMain, Bool.or_eq_false_iff] at hm
      simp only [good, Bool.and_eq_true]
      exact ⟨⟨⟨good_of_typed hP s Γ σ hsc hs.1.1 hm.1, annO_getType hsc⟩,
        goodPs_of_typed hP as Γ sg.args hargs hs.1.2 hs.2 hm.2⟩, by rw [han]; rfl⟩
    | .case s _ cs an, Γ, τ, h, hs, hm => by
      simp only [TypedM] at h
      obtain ⟨_, han, σ, d, hsc, _, hcl, _⟩ := h
      simp only [Fun.seqTerm, Bool.and_eq_true] at hs
      simp only [Fun.Term.callsMain, Bool.or_eq_false_iff] at hm
      simp only [good, Bool.and_eq_true]
      exact ⟨⟨⟨good_of_typed hP s Γ σ hsc hs.1 hm.1, annO_getType hsc⟩,
        goodCl_of_typed hP cs Γ d.ctors τ hcl hs.2 hm.2⟩, by rw [han]; rfl⟩
    | .new cs an, Γ, τ, h, hs, hm => by
      simp only [TypedM] at h
      obtain ⟨_, han, d, _, hcl, _⟩ := h
      simp only [Fun.seqTerm] at hs
      simp only [Fun.Term.callsMain] at hm
      simp only [good, Bool.and_eq_true]
      exact ⟨goodCo_of_typed hP cs Γ d.dtors hcl hs hm, by rw [han]; rfl⟩
    | .label a t an, Γ, τ, h, hs, hm => by
      simp only [TypedM] at h
      obtain ⟨_, han, ht⟩ := h
      simp only [Fun.seqTerm] at hs
      simp only [Fun.Term.callsMain] at hm
      simp only [good, Bool.and_eq_true]
      exact ⟨good_of_typed hP t _ τ ht hs hm, by rw [han]; rfl⟩
    | .goto a t an, Γ, τ, h, hs, hm => by
      simp only [TypedM] at h
      obtain ⟨_, han, b, _, _, ht⟩ := h
      simp only [Fun.seqTerm] at hs
      simp only [Fun.Term.callsMain] at hm
      simp only [good, Bool.and_eq_true]
      exact ⟨⟨good_of_typed hP t Γ b.ty ht hs hm, annO_getType ht⟩, by rw [han]; rfl⟩
    | .exit t an, Γ, τ, h, hs, hm => by
      simp only [TypedM] at h
      obtain ⟨_, han, ht⟩ := h
      simp only [Fun.seqTerm] at hs
      simp only [Fun.Term.callsMain] at hm
      simp only [good, Bool.and_eq_true]
      exact ⟨⟨good_of_typed hP t Γ .i64 ht hs hm, by rw [han]; rfl⟩, i64T_of_typed ht⟩
    | .paren t, Γ, τ, h, hs, hm => by
      simp only [TypedM] at h
      simp only [Fun.seqTerm] at hs
      simp only [Fun.Term.callsMain] at hm
      simp only [good]
      exact good_of_typed hP t Γ τ h hs hm
  theorem goodP_of_typed (hP : ProgM p) : ∀ (t : Fun.Term) (Γ : Fun.Ctx) (τ : Fun.Ty),
      TypedM p t Γ τ → Fun.pureTerm t = true → Fun.seqTerm p t = true → t.callsMain = false →
      goodP p t = true
    | .var .., _, _, _, _, _, _ => rfl
    | .lit _, _, _, _, _, _, _ => rfl
    | .op a o b, Γ, τ, h, hp, hs, hm => by
      simp only [TypedM] at h
      simp only [Fun.pureTerm, Bool.and_eq_true] at hp
      simp only [Fun.seqTerm, Bool.and_eq_true] at hs
      simp only [Fun.Term.callsMain, Bool.or_eq_false_iff] at hm
      simp only [goodP, Bool.and_eq_true]
      exact ⟨⟨hp.1.1, goodP_of_typed hP a Γ .i64 h.2.1 hp.1.2 hs.1.2 hm.1⟩,
        goodP_of_typed hP b Γ .i64 h.2.2 hp.2 hs.2 hm.2⟩
    | .ctor _ as an, Γ, τ, h, hp, hs, hm => by
      simp only [TypedM] at h
      obtain ⟨_, _, d, c, _, _, hargs⟩ := h
      simp only [Fun.pureTerm] at hp
      simp only [Fun.seqTerm, Bool.and_eq_true] at hs
      simp only [Fun.Term.callsMain] at hm
      simp only [goodP]
      exact goodPs_of_typed hP as Γ c.args hargs hp hs.2 hm
    | .new cs an, Γ, τ, h, _, hs, hm => by
      simp only [TypedM] at h
      obtain ⟨_, _, d, _, hcl, _⟩ := h
      simp only [Fun.seqTerm] at hs
      simp only [Fun.Term.callsMain] at hm
      simp only [goodP]
      exact goodCo_of_typed hP cs Γ d.dtors hcl hs hm
    | .paren t, Γ, τ, h, hp, hs, hm => by
      simp only [TypedM] at h
      simp only [Fun.pureTerm] at hp
      simp only [Fun.seqTerm] at hs
      simp only [Fun.Term.callsMain] at hm
      simp only [goodP]
      exact goodP_of_typed hP t Γ τ h hp hs hm
    | .ifc .., _, _, _, hp, _, _ => by simp [Fun.pureTerm] at hp
    | .ifz .., _, _, _, hp, _, _ => by simp [Fun.pureTerm] at hp
    | .print .., _, _, _, hp, _, _ => by simp [Fun.pureTerm] at hp
    | .letIn .., _, _, _, hp, _, _ => by simp [Fun.pureTerm] at hp
    | .call .., _, _, _, hp, _, _ => by simp [Fun.pureTerm] at hp
    | .dtor .., _, _, _, hp, _, _ => by simp [Fun.pureTerm] at hp
    | .case .., _, _, _, hp, _, _ => by simp [Fun.pureTerm] at hp
    | .label .., _, _, _, hp, _, _ => by simp [Fun.pureTerm] at hp
    | .goto .., _, _, _, hp, _, _ => by simp [Fun.pureTerm] at hp
    | .exit .., _, _, _, hp, _, _ => by simp [Fun.pureTerm] at hp
  theorem goodPs_of_typed (hP : ProgM p) : ∀ (as : Fun.Terms) (Γ : Fun.Ctx) (bs : Fun.Ctx),
      ArgsM p as Γ bs → Fun.pureTerms as = true → Fun.seqTerms p as = true → as.callsMain = false →
      goodPs p as = true
    | .nil, _, _, _, _, _, _ => rfl
    | .cons t r, Γ, bs, h, hp, hs, hm => by
      simp only [ArgsM] at h
      obtain ⟨b, bs', rfl, hr, ht⟩ := h
      simp only [Fun.pureTerms, Bool.and_eq_true] at hp
      simp only [Fun.seqTerms, Bool.and_eq_true] at hs
      simp only [Fun.Terms.callsMain, Bool.or_eq_false_iff] at hm
      simp only [goodPs, Bool.and_eq_true]
      refine ⟨⟨?_, ?_⟩, goodPs_of_typed hP r Γ bs' hr hp.2 hs.2 hm.2⟩
      · rcases ht with ⟨_, ht⟩ | ⟨_, x, b', rfl, _⟩
        · exact goodP_of_typed hP t Γ b.ty ht hp.1 hs.1 hm.1
        · rfl
      · rcases ht with ⟨_, ht⟩ | ⟨_, x, b', rfl, _⟩
        · rw [getTypeM_of_typed p t Γ b.ty ht]
          simp only [Bool.or_eq_true, Bool.not_eq_true']
          by_cases hcd : Fun.isCodataTy p b.ty = true
          · exact .inr (pureS_of_typed hP t Γ b.ty ht hp.1 hcd)
          · exact .inl (by simpa using hcd)
        · simp [Fun.Term.getType, pureS]
  theorem goodCl_of_typed (hP : ProgM p) : ∀ (cs : Fun.Clauses) (Γ : Fun.Ctx) (sigs : List Fun.CtorSig)
      (τ : Fun.Ty), ClausesM p cs Γ sigs τ → Fun.seqClauses p cs = true → cs.callsMain = false →
      goodClauses p cs = true
    | .nil, _, _, _, _, _, _ => rfl
    | .cons _ x ns ctx body rest, Γ, sigs, τ, h, hs, hm => by
      simp only [ClausesM] at h
      obtain ⟨⟨c, _, hnd, hlen, hctx, hb⟩, hr⟩ := h
      simp only [Fun.seqClauses, Bool.and_eq_true] at hs
      simp only [Fun.Clauses.callsMain, Bool.or_eq_false_iff] at hm
      simp only [goodClauses, Bool.and_eq_true, decide_eq_true_eq]
      exact ⟨⟨⟨⟨good_of_typed hP body _ τ hb hs.1 hm.1, annO_getType hb⟩, hnd⟩,
        by rw [hctx]; exact bindNames_vars ns c.args hlen⟩,
        goodCl_of_typed hP rest Γ sigs τ hr hs.2 hm.2⟩
  theorem goodCo_of_typed (hP : ProgM p) : ∀ (cs : Fun.Clauses) (Γ : Fun.Ctx) (sigs : List Fun.DtorSig),
      CoclausesM p cs Γ sigs → Fun.seqClauses p cs = true → cs.callsMain = false →
      goodClauses p cs = true
    | .nil, _, _, _, _, _ => rfl
    | .cons _ x ns ctx body rest, Γ, sigs, h, hs, hm => by
      simp only [CoclausesM] at h
      obtain ⟨⟨c, _, hnd, hlen, hctx, hb⟩, hr⟩ := h
      simp only [Fun.seqClauses, Bool.and_eq_true] at hs
      simp only [Fun.Clauses.callsMain, Bool.or_eq_false_iff] at hm
      simp only [goodClauses, Bool.and_eq_true, decide_eq_true_eq]
      exact ⟨⟨⟨⟨good_of_typed hP body _ c.contTy hb hs.1 hm.1, annO_getType hb⟩, hnd⟩,
        by rw [hctx]; exact bindNames_vars ns c.args hlen⟩,
        goodCo_of_typed hP rest Γ sigs hr hs.2 hm.2⟩
end

end Scc.Fun2Core.Sem
