/-
  Scc.Fun2Core.SemCorePure2 — `core_pure` / `core_args`: the Core ς-machine evaluates the translation
  of a first-order pure Fun term (argument list) to the Core value(s) related to its Fun value(s).
  (Programs without codata declarations.)
-/
import Scc.Fun2Core.SemCorePure

namespace Scc.Fun2Core.Sem
open Scc

variable {G : Fun.Term → Prop} {q : Core.Prog} {p : Fun.CheckedProgram}

mutual
  /-- first-order pure terms: variables, literals, `+ - *`, constructors, parentheses -/
  def pureFO : Fun.Term → Bool
    | .var .. => true
    | .lit _ => true
    | .op a o b => o != .div && o != .rem && pureFO a && pureFO b
    | .ctor _ as _ => pureFOs as
    | .paren t => pureFO t
    | _ => false
  def pureFOs : Fun.Terms → Bool
    | .nil => true
    | .cons t r => pureFO t && pureFOs r
end

theorem isCodataTy_nil (hp : p.codataTypes = []) (ty : Fun.Ty) : Fun.isCodataTy p ty = false := by
  cases ty <;> simp [Fun.isCodataTy, hp]

theorem getType_eq : ∀ t : Fun.Term, getType t = t.getType
  | .var .. => rfl
  | .lit _ => rfl
  | .op .. => rfl
  | .ifc .. => rfl
  | .ifz .. => rfl
  | .print .. => rfl
  | .letIn .. => rfl
  | .call .. => rfl
  | .ctor .. => rfl
  | .dtor .. => rfl
  | .case .. => rfl
  | .new .. => rfl
  | .label .. => rfl
  | .goto .. => rfl
  | .exit .. => rfl
  | .paren t => by simp only [getType, Fun.Term.getType]; exact getType_eq t

theorem covarArg_none_isCov {t : Fun.Term} (h : covarArg t = none) : isCov t = none := by
  cases t with
  | var x ty chi =>
    cases chi with
    | none => rfl
    | some c => cases c with
      | prd => rfl
      | cns => simp [covarArg] at h
  | _ => rfl

theorem covarArg_some {t : Fun.Term} {x : String} {ty : Option Fun.Ty}
    (h : covarArg t = some (x, ty)) : t = .var x ty (some .cns) := by
  cases t with
  | var y ty' chi =>
    cases chi with
    | none => simp [covarArg] at h
    | some c => cases c with
      | prd => simp [covarArg] at h
      | cns =>
        simp only [covarArg, Option.some.injEq, Prod.mk.injEq] at h
        rw [h.1, h.2]
  | _ => simp [covarArg] at h

theorem PEval.imp {A ρ n} {Φ Ψ : CVal → Prop} (h : PEval q A ρ n Φ) (hi : ∀ V, Φ V → Ψ V) :
    PEval q A ρ n Ψ := by
  intro c cty out hc
  obtain ⟨i, ρ', n', A', V, a1, a2, a3, a4, a5, a6⟩ := h c cty out hc
  exact ⟨i, ρ', n', A', V, a1, a2, a3, a4, a5, hi V a6⟩

theorem VRel.int_inv {m : Nat} {x : BitVec 64} {V : CVal} (h : VRel G q m (.int x) V) : V = .int x := by
  cases h; rfl

theorem EnvRel.sigExt {m n : Nat} {xs : List String} {env : Fun.Env} {ρ ρ' : CEnv}
    (h : EnvRel G q m xs env ρ) (he : SigExt n ρ ρ') (hs : ∀ y ∈ xs, y ≠ sig) :
    EnvRel G q m xs env ρ' :=
  h.agree fun y hy => he.lookup ⟨y, 0⟩ (fun e => absurd e (hs y hy))

theorem mem_append_left' {α} {a : α} {l1 l2 : List α} (h : a ∈ l1) : a ∈ l1 ++ l2 :=
  List.mem_append.2 (.inl h)
theorem mem_append_right' {α} {a : α} {l1 l2 : List α} (h : a ∈ l2) : a ∈ l1 ++ l2 :=
  List.mem_append.2 (.inr h)

mutual
  /-- the translation of a first-order pure term denotes a value related to the term's value -/
  theorem core_pure (hq : q.codataTypes = []) (hp : p.codataTypes = []) :
      ∀ (t : Fun.Term), pureFO t = true → ∀ (env : Fun.Env) (v : Fun.Value) (ty : Core.Ty)
        (st : CompileState) (P : Core.Term) (st' : CompileState) (m : Nat) (ρ : CEnv) (n : Nat),
        compile t ty st = .ok (P, st') → pureVal p t env = some v →
        EnvRel G q m (fv t) env ρ → (∀ y ∈ fv t, y ≠ sig) →
        PVal q P ρ n (VRel G q m v)
    | .var x vty chi, _, env, v, ty, st, P, st', m, ρ, n, hc, hv, he, hs => by
      rw [c_var] at hc
      cases vty with
      | none => simp at hc
      | some τ =>
        simp only [Except.ok.injEq, Prod.mk.injEq] at hc
        obtain ⟨rfl, _⟩ := hc
        refine ⟨fun pc z ty' e => ?_, fun hnv => by simp [Core.Term.isVar] at hnv⟩
        simp only [Core.Term.var.injEq] at e
        obtain ⟨rfl, rfl, _⟩ := e
        obtain ⟨v', V', h1, h2, h3⟩ := he.get (y := x) (by simp [fv])
        simp only [pureVal] at hv
        rw [hv] at h1
        cases h1
        exact ⟨rfl, hs x (by simp [fv]), V', h2, h3⟩
    | .lit k, _, env, v, ty, st, P, st', m, ρ, n, hc, hv, he, hs => by
      rw [c_lit] at hc
      simp only [Except.ok.injEq, Prod.mk.injEq] at hc
      obtain ⟨rfl, _⟩ := hc
      simp only [pureVal, Option.some.injEq] at hv
      subst hv
      have hev : ∀ n0, PEval q (.lit k) ρ n0 (VRel G q m (.int (BitVec.ofInt 64 k))) := by
        intro n0 c cty out hc
        exact ⟨0, ρ, n0, .lit k, .int (BitVec.ofInt 64 k), .refl _, Nat.le_refl _, .refl _ _, rfl, rfl,
          .int _ _⟩
      exact ⟨fun pc z ty' e => (by cases e), fun _ => ⟨hev n, hev (n + 1)⟩⟩
    | .op a o b, hpf, env, v, ty, st, P, st', m, ρ, n, hc, hv, he, hs => by
      simp only [pureFO, Bool.and_eq_true] at hpf
      rw [c_op] at hc
      cases hca : compile a .i64 st with
      | error e => simp [hca] at hc
      | ok ra =>
        obtain ⟨A, st1⟩ := ra
        cases hcb : compile b .i64 st1 with
        | error e => simp [hca, hcb] at hc
        | ok rb =>
          obtain ⟨B, st2⟩ := rb
          simp only [hca, hcb, Except.ok.injEq, Prod.mk.injEq] at hc
          obtain ⟨rfl, _⟩ := hc
          simp only [pureVal] at hv
          cases ha : pureVal p a env with
          | none => simp [ha] at hv
          | some va =>
            cases hb : pureVal p b env with
            | none => rw [ha, hb] at hv; cases va <;> simp at hv
            | some vb =>
              rw [ha, hb] at hv
              cases va with
              | int x =>
                cases vb with
                | int y =>
                  simp only at hv
                  cases har : Fun.arith o x y with
                  | error w => simp [har, exceptToOption, Except.map] at hv
                  | ok r =>
                    simp only [har, exceptToOption, Except.map, Option.some.injEq] at hv
                    subst hv
                    have hea : EnvRel G q m (fv a) env ρ :=
                      he.sub fun y hy => by simp [fv, hy]
                    have heb : EnvRel G q m (fv b) env ρ :=
                      he.sub fun y hy => by simp [fv, hy]
                    have hsa : ∀ y ∈ fv a, y ≠ sig := fun y hy => hs y (by simp [fv, hy])
                    have hsb : ∀ y ∈ fv b, y ≠ sig := fun y hy => hs y (by simp [fv, hy])
                    have hA : ∀ n0, PVal q A ρ n0 (IsInt x) := fun n0 =>
                      (core_pure hq hp a hpf.1.2 env _ _ st A st1 m ρ n0 hca ha hea hsa).imp
                        fun V h => h.int_inv
                    have hB : ∀ n0 ρ' n', SigExt n0 ρ ρ' → n0 ≤ n' → PVal q B ρ' n' (IsInt y) :=
                      fun n0 ρ' n' hext _ =>
                        (core_pure hq hp b hpf.2 env _ _ st1 B st2 m ρ' n' hcb hb
                          (heb.sigExt hext hsb) hsb).imp fun V h => h.int_inv
                    have hev : ∀ n0, PEval q (.op A (compileOp o) B) ρ n0 (VRel G q m (.int r)) :=
                      fun n0 => (peval_op hq (hA n0) (hB n0) har).imp fun V h => by
                        rw [show V = .int r from h]; exact .int _ _
                    exact ⟨fun pc z ty' e => (by cases e), fun _ => ⟨hev n, hev (n + 1)⟩⟩
                | _ => simp at hv
              | _ => simp at hv
    | .ctor K args cty0, hpf, env, v, ty, st, P, st', m, ρ, n, hc, hv, he, hs => by
      simp only [pureFO] at hpf
      rw [c_ctor] at hc
      cases hca : compileSubst args st with
      | error e => simp [hca] at hc
      | ok ra =>
        obtain ⟨as', st1⟩ := ra
        cases cty0 with
        | none => simp [hca] at hc
        | some τ =>
          simp only [hca, Except.ok.injEq, Prod.mk.injEq] at hc
          obtain ⟨rfl, _⟩ := hc
          simp only [pureVal, Option.map_eq_some_iff] at hv
          obtain ⟨vs, hvs, rfl⟩ := hv
          have hev : ∀ n0, PEval q (.xtor .prd ⟨K, 0⟩ as' (compileTy τ)) ρ n0
              (VRel G q m (.con K vs)) := by
            intro n0 c cty out hc
            obtain ⟨i, ρ', n', as'', Vs, h1, h2, h3, h4, _, h6, h7⟩ :=
              core_args hq hp args hpf (fun as => .cut cty (.xtor .prd ⟨K, 0⟩ as (compileTy τ)) c)
                (argCtx_xtor _ _ _ _) .nil env vs st as' st1 m ρ n0 out .nil [] hca hvs
                (by simpa [fv] using he) (by simpa [fv] using hs) rfl trivial rfl
            simp only [appArgs, appArgs_nil, List.nil_append] at h1 h6
            refine ⟨i, ρ', n', .xtor .prd ⟨K, 0⟩ as'' (compileTy τ), .con ⟨K, 0⟩ Vs, h1, h2, h3, h4, ?_,
              .con h7⟩
            simp [Core.prdVal, h6]
          exact ⟨fun pc z ty' e => (by cases e), fun _ => ⟨hev n, hev (n + 1)⟩⟩
    | .paren t, hpf, env, v, ty, st, P, st', m, ρ, n, hc, hv, he, hs => by
      simp only [pureFO] at hpf
      rw [c_paren] at hc
      simp only [pureVal] at hv
      exact core_pure hq hp t hpf env v ty st P st' m ρ n hc hv (by simpa [fv] using he)
        (by simpa [fv] using hs)
    | .ifc .., hpf, _, _, _, _, _, _, _, _, _, _, _, _, _ => by simp [pureFO] at hpf
    | .ifz .., hpf, _, _, _, _, _, _, _, _, _, _, _, _, _ => by simp [pureFO] at hpf
    | .print .., hpf, _, _, _, _, _, _, _, _, _, _, _, _, _ => by simp [pureFO] at hpf
    | .letIn .., hpf, _, _, _, _, _, _, _, _, _, _, _, _, _ => by simp [pureFO] at hpf
    | .call .., hpf, _, _, _, _, _, _, _, _, _, _, _, _, _ => by simp [pureFO] at hpf
    | .dtor .., hpf, _, _, _, _, _, _, _, _, _, _, _, _, _ => by simp [pureFO] at hpf
    | .case .., hpf, _, _, _, _, _, _, _, _, _, _, _, _, _ => by simp [pureFO] at hpf
    | .new .., hpf, _, _, _, _, _, _, _, _, _, _, _, _, _ => by simp [pureFO] at hpf
    | .label .., hpf, _, _, _, _, _, _, _, _, _, _, _, _, _ => by simp [pureFO] at hpf
    | .goto .., hpf, _, _, _, _, _, _, _, _, _, _, _, _, _ => by simp [pureFO] at hpf
    | .exit .., hpf, _, _, _, _, _, _, _, _, _, _, _, _, _ => by simp [pureFO] at hpf
  /-- the translated arguments are evaluated left to right and replaced by variables -/
  theorem core_args (hq : q.codataTypes = []) (hp : p.codataTypes = []) :
      ∀ (args : Fun.Terms), pureFOs args = true → ∀ (Sc : Core.Args → Core.Stmt), ArgCtx Sc →
        ∀ (tail : Core.Args) (env : Fun.Env) (vs : List Fun.Value) (st : CompileState)
        (as' : Core.Args) (st' : CompileState) (m : Nat) (ρ : CEnv) (n : Nat) (out : Out)
        (pre : Core.Args) (Vpre : List CVal),
        compileSubst args st = .ok (as', st') → pureArgs p args env = some vs →
        EnvRel G q m (fvArgs args) env ρ → (∀ y ∈ fvArgs args, y ≠ sig) →
        argsAllVar pre = true → argsSigBelow n pre → Core.argVals ρ pre = .ok Vpre →
        ∃ i ρ' n' as'' Vs, CSteps q ⟨Sc (appArgs pre (appArgs as' tail)), ρ, out, n⟩
            ⟨Sc (appArgs (appArgs pre as'') tail), ρ', out, n'⟩ i ∧ n ≤ n' ∧ SigExt n ρ ρ' ∧
          argsAllVar as'' = true ∧ argsSigBelow n' (appArgs pre as'') ∧
          Core.argVals ρ' (appArgs pre as'') = .ok (Vpre ++ Vs) ∧ VRelL G q m vs Vs
    | .nil, _, Sc, _, tail, env, vs, st, as', st', m, ρ, n, out, pre, Vpre, hc, hv, _, _, hpre, hsb, hpv => by
      rw [subst_nil] at hc
      simp only [Except.ok.injEq, Prod.mk.injEq] at hc
      obtain ⟨rfl, _⟩ := hc
      simp only [pureArgs, Option.some.injEq] at hv
      subst hv
      refine ⟨0, ρ, n, .nil, [], ?_, Nat.le_refl _, .refl _ _, rfl, ?_, ?_, .nil _⟩
      · simp only [appArgs, appArgs_nil]; exact .refl _
      · simpa [appArgs_nil] using hsb
      · simpa [appArgs_nil] using hpv
    | .cons t rest, hpf, Sc, hSc, tail, env, vs, st, as', st', m, ρ, n, out, pre, Vpre, hc, hv, he, hs,
        hpre, hsb, hpv => by
      simp only [pureFOs, Bool.and_eq_true] at hpf
      rw [subst_cons] at hc
      rw [pureArgs_cons] at hv
      cases hav : argVal p t env with
      | none => simp [hav] at hv
      | some v1 =>
        cases hvr : pureArgs p rest env with
        | none => simp [hav, hvr] at hv
        | some vr =>
          simp only [hav, hvr, Option.some.injEq] at hv
          subst hv
          have her : EnvRel G q m (fvArgs rest) env ρ := he.sub fun y hy => by simp [fvArgs, hy]
          have hsr : ∀ y ∈ fvArgs rest, y ≠ sig := fun y hy => hs y (by simp [fvArgs, hy])
          cases hcv : covarArg t with
          | some xt =>
            obtain ⟨x, oty⟩ := xt
            have ht := covarArg_some hcv
            subst ht
            rw [hcv] at hc
            cases oty with
            | none => simp at hc
            | some τ =>
              simp only at hc
              cases hcr : compileSubst rest st with
              | error e => simp [hcr] at hc
              | ok rr =>
                obtain ⟨r', st1⟩ := rr
                simp only [hcr, Except.ok.injEq, Prod.mk.injEq] at hc
                obtain ⟨rfl, _⟩ := hc
                -- the Fun value is the continuation bound to `x`
                unfold argVal argValWith at hav
                simp only [isCov] at hav
                obtain ⟨v', V', h1, h2, h3⟩ := he.get (y := x) (by simp [fvArgs, fv])
                have hv1 : v1 = v' := by
                  rw [h1] at hav
                  cases v' <;> simp at hav
                  rw [← hav]
                subst hv1
                have hx : x ≠ sig := hs x (by simp [fvArgs, fv])
                obtain ⟨i, ρ', n', as'', Vs, g1, g2, g3, g4, g5, g6, g7⟩ :=
                  core_args hq hp rest hpf.2 Sc hSc tail env vr st r' st1 m ρ n out
                    (appArgs pre (.cons .cns (.var .cns ⟨x, 0⟩ (compileTy τ)) .nil)) (Vpre ++ [V'])
                    hcr hvr her hsr
                    (by simp [argsAllVar_app, hpre, argsAllVar, Core.Term.isVar])
                    (argsSigBelow_app _ _ hsb ⟨fun e => absurd e hx, trivial⟩)
                    (argVals_app_single pre Vpre hpv h2)
                refine ⟨i, ρ', n', .cons .cns (.var .cns ⟨x, 0⟩ (compileTy τ)) as'', V' :: Vs, ?_, g2, g3,
                  ?_, ?_, ?_, .cons h3 g7⟩
                · simpa [appArgs, appArgs_assoc] using g1
                · simp [argsAllVar, Core.Term.isVar, g4]
                · simpa [appArgs, appArgs_assoc] using g5
                · simpa [appArgs, appArgs_assoc] using g6
          | none =>
            rw [hcv] at hc
            simp only at hc
            rw [getType_eq] at hc
            cases hty : t.getType with
            | none => simp [hty] at hc
            | some τ =>
              rw [hty] at hc
              simp only at hc
              cases hct : compile t (compileTy τ) st with
              | error e => simp [hct] at hc
              | ok rt =>
                obtain ⟨P, st1⟩ := rt
                cases hcr : compileSubst rest st1 with
                | error e => simp [hct, hcr] at hc
                | ok rr =>
                  obtain ⟨r', st2⟩ := rr
                  simp only [hct, hcr, Except.ok.injEq, Prod.mk.injEq] at hc
                  obtain ⟨rfl, _⟩ := hc
                  -- the Fun value is the pure value of `t`
                  unfold argVal argValWith at hav
                  simp only [covarArg_none_isCov hcv, hty, isCodataTy_nil hp, Bool.false_eq_true,
                    if_false] at hav
                  have het : EnvRel G q m (fv t) env ρ := he.sub fun y hy => by simp [fvArgs, hy]
                  have hst : ∀ y ∈ fv t, y ≠ sig := fun y hy => hs y (by simp [fvArgs, hy])
                  have hP := core_pure hq hp t hpf.1 env v1 _ st P st1 m ρ n hct hav het hst
                  obtain ⟨i1, ρ1, n1, z, zty, V1, s1, hn1, e1, l1, r1, b1⟩ :=
                    core_operand' hq hP
                      (fun h => Sc (appArgs pre (.cons .prd h (appArgs r' tail)))) out
                      (fun hnv => hSc _ _ _ _ (by
                        rw [args_split_app _ _ hpre, args_split_cons_nonvar hnv]))
                  have hpv1 : Core.argVals ρ1 pre = .ok Vpre := by
                    rw [argVals_sigExt e1 pre hsb]; exact hpv
                  obtain ⟨i, ρ', n', as'', Vs, g1, g2, g3, g4, g5, g6, g7⟩ :=
                    core_args hq hp rest hpf.2 Sc hSc tail env vr st1 r' st2 m ρ1 n1 out
                      (appArgs pre (.cons .prd (.var .prd z zty) .nil)) (Vpre ++ [V1])
                      hcr hvr (her.sigExt e1 hsr) hsr
                      (by simp [argsAllVar_app, hpre, argsAllVar, Core.Term.isVar])
                      (argsSigBelow_app _ _ (argsSigBelow_mono hn1 pre hsb) ⟨b1, trivial⟩)
                      (argVals_app_single pre Vpre hpv1 l1)
                  refine ⟨i1 + i, ρ', n', .cons .prd (.var .prd z zty) as'', V1 :: Vs, ?_, by omega,
                    e1.trans g3 hn1, ?_, ?_, ?_, .cons r1 g7⟩
                  · refine CSteps.trans (by simpa [appArgs] using s1) ?_
                    simpa [appArgs, appArgs_assoc] using g1
                  · simp [argsAllVar, Core.Term.isVar, g4]
                  · simpa [appArgs, appArgs_assoc] using g5
                  · simpa [appArgs, appArgs_assoc] using g6
end

end Scc.Fun2Core.Sem
