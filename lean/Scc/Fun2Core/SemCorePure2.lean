/-
  Scc.Fun2Core.SemCorePure2 — `core_pure` / `core_args`: the Core ς-machine evaluates the translation
  of a pure Fun term (variables, literals, `+ - *`, constructors, `new`, parentheses) / of a pure
  argument list to the Core value(s) related to its Fun value(s).  Environments: an ideal Core
  environment related to the Fun environment, and the actual one agreeing with it on the free
  variables of the translated producer.
-/
import Scc.Fun2Core.SemCorePure
import Scc.Fun2Core.SemNames

namespace Scc.Fun2Core.Sem
open Scc

variable {G : Fun.Term → Prop} {q : Core.Prog} {p : Fun.CheckedProgram}

theorem getType_eq : ∀ t : Fun.Term, getType t = t.getType
  | .var .. => rfl
  | .lit _ => rfl
  | .op .. => rfl
  | .ifc .. => rfl
  | .ifz .. => rfl
  | .print .. => rfl
  | .letIn .. => rfl
  | .call .. => rfl
  | .ctor .. => rfl
  | .dtor .. => rfl
  | .case .. => rfl
  | .new .. => rfl
  | .label .. => rfl
  | .goto .. => rfl
  | .exit .. => rfl
  | .paren t => by simp only [getType, Fun.Term.getType]; exact getType_eq t

theorem covarArg_none_isCov {t : Fun.Term} (h : covarArg t = none) : isCov t = none := by
  cases t with
  | var x ty chi =>
    cases chi with
    | none => rfl
    | some c => cases c with
      | prd => rfl
      | cns => simp [covarArg] at h
  | _ => rfl

theorem covarArg_some {t : Fun.Term} {x : String} {ty : Option Fun.Ty}
    (h : covarArg t = some (x, ty)) : t = .var x ty (some .cns) := by
  cases t with
  | var y ty' chi =>
    cases chi with
    | none => simp [covarArg] at h
    | some c => cases c with
      | prd => simp [covarArg] at h
      | cns =>
        simp only [covarArg, Option.some.injEq, Prod.mk.injEq] at h
        rw [h.1, h.2]
  | _ => simp [covarArg] at h

theorem PEval.imp {A ρ n} {Φ Ψ : CVal → Prop} (h : PEval q A ρ n Φ) (hi : ∀ V, Φ V → Ψ V) :
    PEval q A ρ n Ψ := by
  intro c cty out hc
  obtain ⟨i, ρ', n', A', V, a1, a2, a3, a4, a5, a6⟩ := h c cty out hc
  exact ⟨i, ρ', n', A', V, a1, a2, a3, a4, a5, hi V a6⟩

theorem VRel.int_inv {m : Nat} {x : BitVec 64} {V : CVal} (h : VRel G p q m (.int x) V) : V = .int x := by
  cases h; rfl

theorem EnvRel.sigExt {m n : Nat} {xs : List String} {env : Fun.Env} {ρ ρ' : CEnv}
    (h : EnvRel G p q m xs env ρ) (he : SigExt n ρ ρ') (hs : ∀ y ∈ xs, y ≠ sig) :
    EnvRel G p q m xs env ρ' :=
  h.agree fun y hy => he.lookup ⟨y, 0⟩ (fun e => absurd e (hs y hy))

/-- the value of a suspended variable / `new` is its value as a pure term -/
theorem suspend_pure : ∀ (t : Fun.Term) (env : Fun.Env), pureS t = true →
    exceptToOption (Fun.suspend t env) = pureVal p t env
  | .var x ty chi, env, _ => by
    simp only [Fun.suspend, pureVal]
    cases Fun.lookup x env <;> rfl
  | .new cs ty, env, _ => rfl
  | .paren t, env, h => by
    simp only [Fun.suspend, pureVal]
    exact suspend_pure t env (by simpa [pureS] using h)
  | .lit _, _, h => by simp [pureS] at h
  | .op .., _, h => by simp [pureS] at h
  | .ifc .., _, h => by simp [pureS] at h
  | .ifz .., _, h => by simp [pureS] at h
  | .print .., _, h => by simp [pureS] at h
  | .letIn .., _, h => by simp [pureS] at h
  | .call .., _, h => by simp [pureS] at h
  | .ctor .., _, h => by simp [pureS] at h
  | .dtor .., _, h => by simp [pureS] at h
  | .case .., _, h => by simp [pureS] at h
  | .label .., _, h => by simp [pureS] at h
  | .goto .., _, h => by simp [pureS] at h
  | .exit .., _, h => by simp [pureS] at h

/-- the ideal environment of an extension of the actual environment by machine-fresh names -/
theorem ideal_sigExt {m n : Nat} {xs : List String} {env : Fun.Env} {ρ0 ρ ρ' : CEnv}
    {bs : List Core.Binding} (he : EnvRel G p q m xs env ρ0) (hbd : BoundOn bs ρ0)
    (hag : AgreeOn bs ρ0 ρ) (hext : SigExt n ρ ρ') (hs : ∀ y ∈ xs, y ≠ sig) :
    ∃ ρ0', EnvRel G p q m xs env ρ0' ∧ BoundOn bs ρ0' ∧ AgreeOn bs ρ0' ρ' := by
  obtain ⟨ρ0', hext0, hag'⟩ := hext.agree (ρ0 := ρ0)
  exact ⟨ρ0', he.sigExt hext0 hs, hbd.sigExt hext0, hag' _ hag⟩

section
variable (gc : Fun.Clauses → Bool)
  (hgc : ∀ cs, gc cs = true → ∀ K cl, Fun.findClause K cs = some cl →
    G cl.body ∧ cl.names.Nodup ∧ cl.ctx.map (·.var) = cl.names)
include hgc

mutual
  /-- the translation of a pure term denotes a value related to the term's value -/
  theorem core_pure :
      ∀ (t : Fun.Term), pureFO p gc t = true → ∀ (env : Fun.Env) (v : Fun.Value) (ty : Core.Ty)
        (st : CompileState) (P : Core.Term) (st' : CompileState) (m : Nat) (ρ0 ρ : CEnv) (n : Nat),
        compile t ty st = .ok (P, st') → StOK q st' → TermNames t st → pureVal p t env = some v →
        EnvRel G p q m (fv t) env ρ0 → BoundOn (tfvTerm P []) ρ0 → AgreeOn (tfvTerm P []) ρ0 ρ →
        PVal q P ρ n (VRel G p q m v)
    | .var x vty chi, _, env, v, ty, st, P, st', m, ρ0, ρ, n, hc, _, htn, hv, he, _, hag => by
      rw [c_var] at hc
      cases vty with
      | none => simp at hc
      | some τ =>
        simp only [Except.ok.injEq, Prod.mk.injEq] at hc
        obtain ⟨rfl, _⟩ := hc
        refine ⟨fun pc z ty' e => ?_, fun hnv => by simp [Core.Term.isVar] at hnv⟩
        simp only [Core.Term.var.injEq] at e
        obtain ⟨rfl, rfl, _⟩ := e
        obtain ⟨v', V', h1, h2, h3⟩ := he.get (y := x) (by simp [fv])
        simp only [pureVal] at hv
        rw [hv] at h1
        cases h1
        refine ⟨rfl, htn.fv_ne_sig x (by simp [fv]), V', ?_, h3⟩
        rw [hag ⟨⟨x, 0⟩, .prd, compileTy τ⟩ (mem_tfv_var.2 rfl)]
        exact h2
    | .lit k, _, env, v, ty, st, P, st', m, ρ0, ρ, n, hc, _, _, hv, _, _, _ => by
      rw [c_lit] at hc
      simp only [Except.ok.injEq, Prod.mk.injEq] at hc
      obtain ⟨rfl, _⟩ := hc
      simp only [pureVal, Option.some.injEq] at hv
      subst hv
      have hev : ∀ n0, PEval q (.lit k) ρ n0 (VRel G p q m (.int (BitVec.ofInt 64 k))) := by
        intro n0 c cty out hc
        exact ⟨0, ρ, n0, .lit k, .int (BitVec.ofInt 64 k), .refl _, Nat.le_refl _, .refl _ _, rfl, rfl,
          .int _ _⟩
      exact ⟨fun pc z ty' e => (by cases e), fun _ => ⟨hev n, hev (n + 1)⟩⟩
    | .op a o b, hpf, env, v, ty, st, P, st', m, ρ0, ρ, n, hc, hst, htn, hv, he, hbd, hag => by
      simp only [pureFO, Bool.and_eq_true] at hpf
      rw [c_op] at hc
      cases hca : compile a .i64 st with
      | error e => simp [hca] at hc
      | ok ra =>
        obtain ⟨A, st1⟩ := ra
        cases hcb : compile b .i64 st1 with
        | error e => simp [hca, hcb] at hc
        | ok rb =>
          obtain ⟨B, st2⟩ := rb
          simp only [hca, hcb, Except.ok.injEq, Prod.mk.injEq] at hc
          obtain ⟨rfl, rfl⟩ := hc
          simp only [pureVal] at hv
          cases ha : pureVal p a env with
          | none => simp [ha] at hv
          | some va =>
            cases hb : pureVal p b env with
            | none => rw [ha, hb] at hv; cases va <;> simp at hv
            | some vb =>
              rw [ha, hb] at hv
              cases va with
              | int x =>
                cases vb with
                | int y =>
                  simp only at hv
                  cases har : Fun.arith o x y with
                  | error w => simp [har, exceptToOption, Except.map] at hv
                  | ok r =>
                    simp only [har, exceptToOption, Except.map, Option.some.injEq] at hv
                    subst hv
                    have fa := fs_compile hca
                    have fb := fs_compile hcb
                    have hst1 := hst.of_fresh fb.1
                    have tna : TermNames a st := htn.of_sub (fun y hy => by simp [fv, hy])
                      (fun y hy => by simp [binderNames, hy]) (fs_stepRel.refl st)
                    have tnb : TermNames b st1 := htn.of_sub (fun y hy => by simp [fv, hy])
                      (fun y hy => by simp [binderNames, hy]) fa
                    have hea : EnvRel G p q m (fv a) env ρ0 := he.sub fun y hy => by simp [fv, hy]
                    have heb : EnvRel G p q m (fv b) env ρ0 := he.sub fun y hy => by simp [fv, hy]
                    have hbdA : BoundOn (tfvTerm A []) ρ0 := hbd.mono fun y hy => mem_tfv_op.2 (.inl hy)
                    have hbdB : BoundOn (tfvTerm B []) ρ0 := hbd.mono fun y hy => mem_tfv_op.2 (.inr hy)
                    have hagA : AgreeOn (tfvTerm A []) ρ0 ρ := hag.mono fun y hy => mem_tfv_op.2 (.inl hy)
                    have hagB : AgreeOn (tfvTerm B []) ρ0 ρ := hag.mono fun y hy => mem_tfv_op.2 (.inr hy)
                    have hA : ∀ n0, PVal q A ρ n0 (IsInt x) := fun n0 =>
                      (core_pure a hpf.1.2 env _ _ st A st1 m ρ0 ρ n0 hca hst1 tna ha hea hbdA hagA).imp
                        fun V h => h.int_inv
                    have hB : ∀ n0 ρ' n', SigExt n0 ρ ρ' → n0 ≤ n' → PVal q B ρ' n' (IsInt y) :=
                      fun n0 ρ' n' hext _ => by
                        obtain ⟨ρ0', he', hbd', hag'⟩ := ideal_sigExt heb hbdB hagB hext tnb.fv_ne_sig
                        exact (core_pure b hpf.2 env _ _ st1 B st2 m ρ0' ρ' n' hcb hst tnb hb
                          he' hbd' hag').imp fun V h => h.int_inv
                    have hev : ∀ n0, PEval q (.op A (compileOp o) B) ρ n0 (VRel G p q m (.int r)) :=
                      fun n0 => (peval_op (hA n0) (hB n0) har).imp fun V h => by
                        rw [show V = .int r from h]; exact .int _ _
                    exact ⟨fun pc z ty' e => (by cases e), fun _ => ⟨hev n, hev (n + 1)⟩⟩
                | _ => simp at hv
              | _ => simp at hv
    | .ctor K args cty0, hpf, env, v, ty, st, P, st', m, ρ0, ρ, n, hc, hst, htn, hv, he, hbd, hag => by
      simp only [pureFO] at hpf
      rw [c_ctor] at hc
      cases hca : compileSubst args st with
      | error e => simp [hca] at hc
      | ok ra =>
        obtain ⟨as', st1⟩ := ra
        cases cty0 with
        | none => simp [hca] at hc
        | some τ =>
          simp only [hca, Except.ok.injEq, Prod.mk.injEq] at hc
          obtain ⟨rfl, rfl⟩ := hc
          simp only [pureVal, Option.map_eq_some_iff] at hv
          obtain ⟨vs, hvs, rfl⟩ := hv
          have hev : ∀ n0, PEval q (.xtor .prd ⟨K, 0⟩ as' (compileTy τ)) ρ n0
              (VRel G p q m (.con K vs)) := by
            intro n0 c cty out hc
            obtain ⟨i, ρ', n', as'', Vs, h1, h2, h3, h4, _, h6, h7⟩ :=
              core_args args hpf (fun as => .cut cty (.xtor .prd ⟨K, 0⟩ as (compileTy τ)) c)
                (argCtx_xtor _ _ _ _) .nil env vs st as' st1 m ρ0 ρ n0 out .nil [] hca hst
                ⟨by simpa [fv] using htn.fv, by simpa [binderNames] using htn.bd, htn.nosig⟩ hvs
                (by simpa [fv] using he)
                (hbd.mono fun y hy => mem_tfv_xtor.2 hy)
                (hag.mono fun y hy => mem_tfv_xtor.2 hy)
                rfl trivial rfl
            simp only [appArgs, appArgs_nil, List.nil_append] at h1 h6
            refine ⟨i, ρ', n', .xtor .prd ⟨K, 0⟩ as'' (compileTy τ), .con ⟨K, 0⟩ Vs, h1, h2, h3, h4, ?_,
              .con h7⟩
            simp [Core.prdVal, h6]
          exact ⟨fun pc z ty' e => (by cases e), fun _ => ⟨hev n, hev (n + 1)⟩⟩
    | .new cs cty0, hpf, env, v, ty, st, P, st', m, ρ0, ρ, n, hc, hst, htn, hv, he, hbd, hag => by
      simp only [pureFO] at hpf
      rw [c_new] at hc
      cases hcc : compileCoclauses cs st with
      | error e => simp [hcc] at hc
      | ok rc =>
        obtain ⟨cs', st1⟩ := rc
        cases cty0 with
        | none => simp [hcc] at hc
        | some τ =>
          simp only [hcc, Except.ok.injEq, Prod.mk.injEq] at hc
          obtain ⟨rfl, rfl⟩ := hc
          simp only [pureVal, Option.some.injEq] at hv
          subst hv
          have hvr : VRel G p q m (.obj cs env) (.cocase ρ cs') :=
            .obj (hgc cs hpf)
              ⟨st, st1, hcc, hst, ⟨by simpa [fv] using htn.fv, by simpa [binderNames] using htn.bd,
                htn.nosig⟩⟩
              (by simpa [fv] using he) (by simpa [tfvTerm] using hbd) (by simpa [tfvTerm] using hag)
          have hev : ∀ n0, PEval q (.xcase .prd (compileTy τ) cs') ρ n0 (VRel G p q m (.obj cs env)) := by
            intro n0 c cty out hc
            exact ⟨0, ρ, n0, _, .cocase ρ cs', .refl _, Nat.le_refl _, .refl _ _, rfl, rfl, hvr⟩
          exact ⟨fun pc z ty' e => (by cases e), fun _ => ⟨hev n, hev (n + 1)⟩⟩
    | .paren t, hpf, env, v, ty, st, P, st', m, ρ0, ρ, n, hc, hst, htn, hv, he, hbd, hag => by
      simp only [pureFO] at hpf
      rw [c_paren] at hc
      simp only [pureVal] at hv
      exact core_pure t hpf env v ty st P st' m ρ0 ρ n hc hst
        ⟨by simpa [fv] using htn.fv, by simpa [binderNames] using htn.bd, htn.nosig⟩ hv
        (by simpa [fv] using he) hbd hag
    | .ifc .., hpf, _, _, _, _, _, _, _, _, _, _, _, _, _, _, _, _, _ => by simp [pureFO] at hpf
    | .ifz .., hpf, _, _, _, _, _, _, _, _, _, _, _, _, _, _, _, _, _ => by simp [pureFO] at hpf
    | .print .., hpf, _, _, _, _, _, _, _, _, _, _, _, _, _, _, _, _, _ => by simp [pureFO] at hpf
    | .letIn .., hpf, _, _, _, _, _, _, _, _, _, _, _, _, _, _, _, _, _ => by simp [pureFO] at hpf
    | .call .., hpf, _, _, _, _, _, _, _, _, _, _, _, _, _, _, _, _, _ => by simp [pureFO] at hpf
    | .dtor .., hpf, _, _, _, _, _, _, _, _, _, _, _, _, _, _, _, _, _ => by simp [pureFO] at hpf
    | .case .., hpf, _, _, _, _, _, _, _, _, _, _, _, _, _, _, _, _, _ => by simp [pureFO] at hpf
    | .label .., hpf, _, _, _, _, _, _, _, _, _, _, _, _, _, _, _, _, _ => by simp [pureFO] at hpf
    | .goto .., hpf, _, _, _, _, _, _, _, _, _, _, _, _, _, _, _, _, _ => by simp [pureFO] at hpf
    | .exit .., hpf, _, _, _, _, _, _, _, _, _, _, _, _, _, _, _, _, _ => by simp [pureFO] at hpf
  /-- the translated arguments are evaluated left to right and replaced by variables -/
  theorem core_args :
      ∀ (args : Fun.Terms), pureFOs p gc args = true → ∀ (Sc : Core.Args → Core.Stmt), ArgCtx Sc →
        ∀ (tail : Core.Args) (env : Fun.Env) (vs : List Fun.Value) (st : CompileState)
        (as' : Core.Args) (st' : CompileState) (m : Nat) (ρ0 ρ : CEnv) (n : Nat) (out : Out)
        (pre : Core.Args) (Vpre : List CVal),
        compileSubst args st = .ok (as', st') → StOK q st' → ArgsNames args st →
        pureArgs p args env = some vs →
        EnvRel G p q m (fvArgs args) env ρ0 → BoundOn (tfvArgs as' []) ρ0 → AgreeOn (tfvArgs as' []) ρ0 ρ →
        argsAllVar pre = true → argsSigBelow n pre → Core.argVals ρ pre = .ok Vpre →
        ∃ i ρ' n' as'' Vs, CSteps q ⟨Sc (appArgs pre (appArgs as' tail)), ρ, out, n⟩
            ⟨Sc (appArgs (appArgs pre as'') tail), ρ', out, n'⟩ i ∧ n ≤ n' ∧ SigExt n ρ ρ' ∧
          argsAllVar as'' = true ∧ argsSigBelow n' (appArgs pre as'') ∧
          Core.argVals ρ' (appArgs pre as'') = .ok (Vpre ++ Vs) ∧ VRelL G p q m vs Vs
    | .nil, _, Sc, _, tail, env, vs, st, as', st', m, ρ0, ρ, n, out, pre, Vpre, hc, _, _, hv, _, _, _,
        hpre, hsb, hpv => by
      rw [subst_nil] at hc
      simp only [Except.ok.injEq, Prod.mk.injEq] at hc
      obtain ⟨rfl, _⟩ := hc
      simp only [pureArgs, Option.some.injEq] at hv
      subst hv
      refine ⟨0, ρ, n, .nil, [], ?_, Nat.le_refl _, .refl _ _, rfl, ?_, ?_, .nil _⟩
      · simp only [appArgs, appArgs_nil]; exact .refl _
      · simpa [appArgs_nil] using hsb
      · simpa [appArgs_nil] using hpv
    | .cons t rest, hpf, Sc, hSc, tail, env, vs, st, as', st', m, ρ0, ρ, n, out, pre, Vpre, hc, hst, htn,
        hv, he, hbd, hag, hpre, hsb, hpv => by
      simp only [pureFOs, Bool.and_eq_true] at hpf
      obtain ⟨⟨hpt, hshape⟩, hpr⟩ := hpf
      rw [subst_cons] at hc
      rw [pureArgs_cons] at hv
      cases hav : argVal p t env with
      | none => simp [hav] at hv
      | some v1 =>
        cases hvr : pureArgs p rest env with
        | none => simp [hav, hvr] at hv
        | some vr =>
          simp only [hav, hvr, Option.some.injEq] at hv
          subst hv
          have her : EnvRel G p q m (fvArgs rest) env ρ0 := he.sub fun y hy => by simp [fvArgs, hy]
          cases hcv : covarArg t with
          | some xt =>
            obtain ⟨x, oty⟩ := xt
            have ht := covarArg_some hcv
            subst ht
            rw [hcv] at hc
            cases oty with
            | none => simp at hc
            | some τ =>
              simp only at hc
              cases hcr : compileSubst rest st with
              | error e => simp [hcr] at hc
              | ok rr =>
                obtain ⟨r', st1⟩ := rr
                simp only [hcr, Except.ok.injEq, Prod.mk.injEq] at hc
                obtain ⟨rfl, rfl⟩ := hc
                unfold argVal argValWith at hav
                simp only [isCov] at hav
                obtain ⟨v', V', h1, h2, h3⟩ := he.get (y := x) (by simp [fvArgs, fv])
                have hv1 : v1 = v' := by
                  rw [h1] at hav
                  cases v' <;> simp at hav
                  rw [← hav]
                subst hv1
                have hx : x ≠ sig := fun e => htn.nosig (e ▸ htn.fv x (by simp [fvArgs, fv]))
                have h2' : Core.Env.lookup ρ ⟨x, 0⟩ = .ok V' := by
                  rw [hag ⟨⟨x, 0⟩, .cns, compileTy τ⟩ (mem_tfv_args_cons.2 (.inl (mem_tfv_var.2 rfl)))]
                  exact h2
                obtain ⟨i, ρ', n', as'', Vs, g1, g2, g3, g4, g5, g6, g7⟩ :=
                  core_args rest hpr Sc hSc tail env vr st r' st1 m ρ0 ρ n out
                    (appArgs pre (.cons .cns (.var .cns ⟨x, 0⟩ (compileTy τ)) .nil)) (Vpre ++ [V'])
                    hcr hst ⟨fun y hy => htn.fv y (by simp [fvArgs, hy]),
                      fun y hy => htn.bd y (by simp [binderNamesArgs, hy]), htn.nosig⟩ hvr her
                    (hbd.mono fun y hy => mem_tfv_args_cons.2 (.inr hy))
                    (hag.mono fun y hy => mem_tfv_args_cons.2 (.inr hy))
                    (by simp [argsAllVar_app, hpre, argsAllVar, Core.Term.isVar])
                    (argsSigBelow_app _ _ hsb ⟨fun e => absurd e hx, trivial⟩)
                    (argVals_app_single pre Vpre hpv h2')
                refine ⟨i, ρ', n', .cons .cns (.var .cns ⟨x, 0⟩ (compileTy τ)) as'', V' :: Vs, ?_, g2, g3,
                  ?_, ?_, ?_, .cons h3 g7⟩
                · simpa [appArgs, appArgs_assoc] using g1
                · simp [argsAllVar, Core.Term.isVar, g4]
                · simpa [appArgs, appArgs_assoc] using g5
                · simpa [appArgs, appArgs_assoc] using g6
          | none =>
            rw [hcv] at hc
            simp only at hc
            rw [getType_eq] at hc
            cases hty : t.getType with
            | none => simp [hty] at hc
            | some τ =>
              rw [hty] at hc hshape
              simp only at hc hshape
              cases hct : compile t (compileTy τ) st with
              | error e => simp [hct] at hc
              | ok rt =>
                obtain ⟨P, st1⟩ := rt
                cases hcr : compileSubst rest st1 with
                | error e => simp [hct, hcr] at hc
                | ok rr =>
                  obtain ⟨r', st2⟩ := rr
                  simp only [hct, hcr, Except.ok.injEq, Prod.mk.injEq] at hc
                  obtain ⟨rfl, rfl⟩ := hc
                  -- the Fun value is the pure value of `t` (also when it is suspended)
                  have hpv1 : pureVal p t env = some v1 := by
                    unfold argVal argValWith at hav
                    simp only [covarArg_none_isCov hcv, hty] at hav
                    by_cases hcd : Fun.isCodataTy p τ = true
                    · rw [if_pos hcd] at hav
                      have hps : pureS t = true := by simpa [hcd] using hshape
                      rw [← suspend_pure (p := p) t env hps]
                      exact hav
                    · rw [if_neg hcd] at hav
                      exact hav
                  have ft := fs_compile hct
                  have fr : FS st1 st2 := (rel_subst fs_stepRel rest) st1 r' st2 hcr
                  have hst1 := hst.of_fresh fr.1
                  have tnt : TermNames t st :=
                    ⟨fun y hy => htn.fv y (by simp [fvArgs, hy]),
                      fun y hy => htn.bd y (by simp [binderNamesArgs, hy]), htn.nosig⟩
                  have tnr : ArgsNames rest st1 :=
                    ⟨fun y hy => ft.sub y (htn.fv y (by simp [fvArgs, hy])),
                      fun y hy => ft.sub y (htn.bd y (by simp [binderNamesArgs, hy])), ft.2 htn.nosig⟩
                  have het : EnvRel G p q m (fv t) env ρ0 := he.sub fun y hy => by simp [fvArgs, hy]
                  have hP := core_pure t hpt env v1 _ st P st1 m ρ0 ρ n hct hst1 tnt hpv1 het
                    (hbd.mono fun y hy => mem_tfv_args_cons.2 (.inl hy))
                    (hag.mono fun y hy => mem_tfv_args_cons.2 (.inl hy))
                  obtain ⟨i1, ρ1, n1, z, zty, V1, s1, hn1, e1, l1, r1, b1⟩ :=
                    core_operand' hP
                      (fun h => Sc (appArgs pre (.cons .prd h (appArgs r' tail)))) out
                      (fun hnv => hSc _ _ _ _ (by
                        rw [args_split_app _ _ hpre, args_split_cons_nonvar hnv]))
                  have hpv1' : Core.argVals ρ1 pre = .ok Vpre := by
                    rw [argVals_sigExt e1 pre hsb]; exact hpv
                  obtain ⟨ρ01, he1, hbd1, hag1⟩ := ideal_sigExt her
                    (hbd.mono fun y hy => mem_tfv_args_cons.2 (.inr hy))
                    (hag.mono fun y hy => mem_tfv_args_cons.2 (.inr hy)) e1
                    (fun y hy e => tnr.nosig (e ▸ tnr.fv y hy))
                  obtain ⟨i, ρ', n', as'', Vs, g1, g2, g3, g4, g5, g6, g7⟩ :=
                    core_args rest hpr Sc hSc tail env vr st1 r' st2 m ρ01 ρ1 n1 out
                      (appArgs pre (.cons .prd (.var .prd z zty) .nil)) (Vpre ++ [V1])
                      hcr hst tnr hvr he1 hbd1 hag1
                      (by simp [argsAllVar_app, hpre, argsAllVar, Core.Term.isVar])
                      (argsSigBelow_app _ _ (argsSigBelow_mono hn1 pre hsb) ⟨b1, trivial⟩)
                      (argVals_app_single pre Vpre hpv1' l1)
                  refine ⟨i1 + i, ρ', n', .cons .prd (.var .prd z zty) as'', V1 :: Vs, ?_, by omega,
                    e1.trans g3 hn1, ?_, ?_, ?_, .cons r1 g7⟩
                  · refine CSteps.trans (by simpa [appArgs] using s1) ?_
                    simpa [appArgs, appArgs_assoc] using g1
                  · simp [argsAllVar, Core.Term.isVar, g4]
                  · simpa [appArgs, appArgs_assoc] using g5
                  · simpa [appArgs, appArgs_assoc] using g6
end

end

end Scc.Fun2Core.Sem
