/-
  Scc.Fun2Core.SemPure — the Fun machine on PURE terms (`Scc.Fun.pureTerm`: variables, literals,
  `+ - *`, constructors, `new`, parentheses): a big-step value function `pureVal` and the lemma that
  the CEK machine `Scc.Fun.step` computes it in finitely many silent steps.  Used by the semantic
  part of C02: in the fragment `Sequenced` all operands and arguments are pure.
-/
import Scc.Fun2Core.SemBase

namespace Scc.Fun2Core.Sem
open Scc Scc.Fun

def exceptToOption {ε α : Type} : Except ε α → Option α
  | .ok a => some a
  | .error _ => none

/-- a covariable argument `x :cns` (first arm of `Scc.Fun.argsStep`) -/
def isCov : Term → Option String
  | .var x _ (some .cns) => some x
  | _ => none

/-- one argument, given the value `pv` of the term as a pure term -/
def argValWith (p : CheckedProgram) (t : Term) (env : Env) (pv : Option Value) : Option Value :=
  match isCov t with
  | some x =>
    match lookup x env with
    | some (.cont c) => some (.cont c)
    | _ => none
  | none =>
    match t.getType with
    | none => none
    | some ty => if isCodataTy p ty then exceptToOption (suspend t env) else pv

mutual
  /-- the value of a pure term (`none`: the machine gets stuck) -/
  def pureVal (p : CheckedProgram) : Term → Env → Option Value
    | .var x _ _, env => lookup x env
    | .lit n, _ => some (.int (BitVec.ofInt 64 n))
    | .op a o b, env =>
      match pureVal p a env, pureVal p b env with
      | some (.int x), some (.int y) => exceptToOption ((arith o x y).map Value.int)
      | _, _ => none
    | .ctor c as _, env => (pureArgs p as env).map (Value.con c)
    | .new cs _, env => some (.obj cs env)
    | .paren t, env => pureVal p t env
    | _, _ => none
  /-- the values of an argument list, as `Scc.Fun.argsStep` computes them -/
  def pureArgs (p : CheckedProgram) : Terms → Env → Option (List Value)
    | .nil, _ => some []
    | .cons t r, env =>
      match argValWith p t env (pureVal p t env), pureArgs p r env with
      | some v, some vs => some (v :: vs)
      | _, _ => none
end

/-- one argument: covariables pass their continuation, codata-typed arguments are suspended -/
def argVal (p : CheckedProgram) (t : Term) (env : Env) : Option Value :=
  argValWith p t env (pureVal p t env)

theorem pureArgs_cons (p t r env) :
    pureArgs p (.cons t r) env =
      (match argVal p t env, pureArgs p r env with
        | some v, some vs => some (v :: vs)
        | _, _ => none) := by
  rw [pureArgs]; rfl

theorem step_eval (p t env k) : Fun.step p (.eval t env k) = evalStep p t env k := rfl
theorem step_args (p h d todo env k) : Fun.step p (.args h d todo env k) = argsStep p h d todo env k := rfl
theorem step_ret_cons (p v f k) : Fun.step p (.ret v (f :: k)) = retFrame v f k := rfl

theorem argsStep_cons (p : CheckedProgram) (t : Term) (r : Terms) (h : ArgHead) (done : List Value)
    (env : Env) (k : Stack) :
    argsStep p h done (.cons t r) env k =
      (match isCov t with
        | some x =>
          match lookup x env with
          | some (.cont c) => .next (.args h (done ++ [.cont c]) r env k) none
          | some _ => .stuck (.notCont x)
          | none => .stuck (.unbound x)
        | none =>
          match t.getType with
          | none => .stuck .untyped
          | some ty =>
            if isCodataTy p ty then
              match suspend t env with
              | .ok v => .next (.args h (done ++ [v]) r env k) none
              | .error w => .stuck w
            else .next (.eval t env (.arg h done r env :: k)) none) := by
  cases t with
  | var x ty chi =>
    cases chi with
    | none => rfl
    | some c => cases c <;> rfl
  | _ => rfl

/-- one argument, given that the machine evaluates the term if it is pure -/
theorem fun_arg (p : CheckedProgram) (t : Term) (r : Terms) (env : Env) (v : Value)
    (h : ArgHead) (done : List Value) (k : Stack)
    (hav : argVal p t env = some v)
    (ih : ∀ (k : Stack) (v : Value), pureVal p t env = some v →
      ∃ j, 1 ≤ j ∧ FSteps p (.eval t env k) (.ret v k) [] j) :
    ∃ j, FSteps p (.args h done (.cons t r) env k) (.args h (done ++ [v]) r env k) [] j := by
  unfold argVal argValWith at hav
  have hstep := argsStep_cons p t r h done env k
  cases hcv : isCov t with
  | some x =>
    rw [hcv] at hav hstep
    simp only at hav hstep
    cases hl : lookup x env with
    | none => simp [hl] at hav
    | some w =>
      cases w with
      | cont c =>
        simp only [hl, Option.some.injEq] at hav
        subst hav
        exact ⟨1, .one (by rw [step_args, hstep, hl])⟩
      | _ => simp [hl] at hav
  | none =>
    rw [hcv] at hav hstep
    simp only at hav hstep
    cases hty : t.getType with
    | none => simp [hty] at hav
    | some ty =>
      rw [hty] at hav hstep
      simp only at hav hstep
      by_cases hcd : isCodataTy p ty = true
      · rw [if_pos hcd] at hav hstep
        cases hs : suspend t env with
        | error w => simp [hs, exceptToOption] at hav
        | ok v' =>
          simp only [hs, exceptToOption, Option.some.injEq] at hav
          subst hav
          exact ⟨1, .one (by rw [step_args, hstep, hs])⟩
      · rw [if_neg hcd] at hav hstep
        obtain ⟨j, _, fj⟩ := ih (.arg h done r env :: k) v hav
        have s0 : FSteps p (.args h done (.cons t r) env k) (.eval t env (.arg h done r env :: k)) [] 1 :=
          .one (by rw [step_args, hstep])
        have s2 : FSteps p (.ret v (.arg h done r env :: k)) (.args h (done ++ [v]) r env k) [] 1 :=
          .one rfl
        have := (s0.trans fj).trans s2
        simp only [List.append_nil] at this
        exact ⟨_, this⟩

mutual
  /-- a pure term with a value is evaluated to it in finitely many (≥ 1) silent steps -/
  theorem fun_pure (p : CheckedProgram) : ∀ (t : Term) (env : Env) (v : Value) (k : Stack),
      pureTerm t = true → pureVal p t env = some v →
      ∃ j, 1 ≤ j ∧ FSteps p (.eval t env k) (.ret v k) [] j
    | .var x ty chi, env, v, k, _, hv => by
      refine ⟨1, Nat.le_refl _, .one ?_⟩
      simp only [pureVal] at hv
      simp [step_eval, evalStep, hv]
    | .lit n, env, v, k, _, hv => by
      simp only [pureVal, Option.some.injEq] at hv
      subst hv
      exact ⟨1, Nat.le_refl _, .one rfl⟩
    | .op a o b, env, v, k, hp, hv => by
      simp only [pureTerm, Bool.and_eq_true] at hp
      simp only [pureVal] at hv
      cases ha : pureVal p a env with
      | none => simp [ha] at hv
      | some va =>
        cases hb : pureVal p b env with
        | none => rw [ha, hb] at hv; cases va <;> simp at hv
        | some vb =>
          rw [ha, hb] at hv
          cases va with
          | int x =>
            cases vb with
            | int y =>
              simp only at hv
              cases har : arith o x y with
              | error w => simp [har, exceptToOption, Except.map] at hv
              | ok r =>
                simp only [har, exceptToOption, Except.map, Option.some.injEq] at hv
                subst hv
                obtain ⟨ja, _, fa⟩ := fun_pure p a env (.int x) (.opL o b env :: k) hp.1.2 ha
                obtain ⟨jb, _, fb⟩ := fun_pure p b env (.int y) (.opR o x :: k) hp.2 hb
                have s0 : FSteps p (.eval (.op a o b) env k) (.eval a env (.opL o b env :: k)) [] 1 :=
                  .one rfl
                have s1 : FSteps p (.ret (.int x) (.opL o b env :: k)) (.eval b env (.opR o x :: k)) [] 1 :=
                  .one rfl
                have s2 : FSteps p (.ret (.int y) (.opR o x :: k)) (.ret (.int r) k) [] 1 := by
                  refine .one ?_
                  simp [step_ret_cons, retFrame, har]
                have := (((s0.trans fa).trans s1).trans fb).trans s2
                simp only [List.append_nil] at this
                exact ⟨_, by omega, this⟩
            | _ => simp at hv
          | _ => simp at hv
    | .ctor c as ty, env, v, k, hp, hv => by
      simp only [pureTerm] at hp
      simp only [pureVal, Option.map_eq_some_iff] at hv
      obtain ⟨vs, hvs, rfl⟩ := hv
      obtain ⟨j, fj⟩ := fun_pureArgs p as env vs (.ctor c) [] k hp hvs
      have s0 : FSteps p (.eval (.ctor c as ty) env k) (.args (.ctor c) [] as env k) [] 1 := .one rfl
      have s1 : FSteps p (.args (.ctor c) ([] ++ vs) .nil env k) (.ret (.con c vs) k) [] 1 := by
        refine .one ?_
        simp [step_args, argsStep, applyHead]
      have := (s0.trans fj).trans s1
      simp only [List.append_nil] at this
      exact ⟨_, by omega, this⟩
    | .new cs ty, env, v, k, _, hv => by
      simp only [pureVal, Option.some.injEq] at hv
      subst hv
      exact ⟨1, Nat.le_refl _, .one rfl⟩
    | .paren t, env, v, k, hp, hv => by
      simp only [pureTerm] at hp
      simp only [pureVal] at hv
      obtain ⟨j, _, fj⟩ := fun_pure p t env v k hp hv
      have s0 : FSteps p (.eval (.paren t) env k) (.eval t env k) [] 1 := .one rfl
      have := s0.trans fj
      simp only [List.append_nil] at this
      exact ⟨_, by omega, this⟩
    | .ifc .., _, _, _, hp, _ => by simp [pureTerm] at hp
    | .ifz .., _, _, _, hp, _ => by simp [pureTerm] at hp
    | .print .., _, _, _, hp, _ => by simp [pureTerm] at hp
    | .letIn .., _, _, _, hp, _ => by simp [pureTerm] at hp
    | .call .., _, _, _, hp, _ => by simp [pureTerm] at hp
    | .dtor .., _, _, _, hp, _ => by simp [pureTerm] at hp
    | .case .., _, _, _, hp, _ => by simp [pureTerm] at hp
    | .label .., _, _, _, hp, _ => by simp [pureTerm] at hp
    | .goto .., _, _, _, hp, _ => by simp [pureTerm] at hp
    | .exit .., _, _, _, hp, _ => by simp [pureTerm] at hp
  /-- pure arguments are evaluated left to right in finitely many silent steps -/
  theorem fun_pureArgs (p : CheckedProgram) : ∀ (todo : Terms) (env : Env) (vs : List Value)
      (h : ArgHead) (done : List Value) (k : Stack),
      pureTerms todo = true → pureArgs p todo env = some vs →
      ∃ j, FSteps p (.args h done todo env k) (.args h (done ++ vs) .nil env k) [] j
    | .nil, env, vs, h, done, k, _, hv => by
      simp only [pureArgs, Option.some.injEq] at hv
      subst hv
      exact ⟨0, by simpa using FSteps.refl _⟩
    | .cons t r, env, vs, h, done, k, hp, hv => by
      simp only [pureTerms, Bool.and_eq_true] at hp
      rw [pureArgs_cons] at hv
      cases hav : argVal p t env with
      | none => simp [hav] at hv
      | some v =>
        cases hr : pureArgs p r env with
        | none => simp [hav, hr] at hv
        | some vr =>
          simp only [hav, hr, Option.some.injEq] at hv
          subst hv
          obtain ⟨jr, fr⟩ := fun_pureArgs p r env vr h (done ++ [v]) k hp.2 hr
          have hfirst := fun_arg p t r env v h done k hav
            (fun k v hv => fun_pure p t env v k hp.1 hv)
          obtain ⟨j1, f1⟩ := hfirst
          have := f1.trans fr
          simp only [List.append_nil, List.append_assoc, List.singleton_append] at this
          exact ⟨_, this⟩
end

end Scc.Fun2Core.Sem

namespace Scc.Fun2Core.Sem
open Scc Scc.Fun

/-! ## pure terms without a value: the machine gets stuck, and not with an arithmetic fault -/

/-- a reason for being stuck that is not one of the two arithmetic faults -/
def Bad (w : Why) : Prop := w ≠ .divByZero ∧ w ≠ .overflow

theorem suspend_error_bad : ∀ (t : Term) (env : Env) (w : Why), suspend t env = .error w → Bad w
  | .paren t, env, w, h => by
    simp only [suspend] at h
    exact suspend_error_bad t env w h
  | .var x _ _, env, w, h => by
    simp only [suspend] at h
    split at h
    · cases h
    · cases h; exact ⟨by simp, by simp⟩
  | .new .., _, _, h => by simp [suspend] at h
  | .lit _, _, _, h => by simp [suspend] at h
  | .op .., _, _, h => by simp [suspend] at h
  | .ifc .., _, _, h => by simp [suspend] at h
  | .ifz .., _, _, h => by simp [suspend] at h
  | .print .., _, _, h => by simp [suspend] at h
  | .letIn .., _, _, h => by simp [suspend] at h
  | .call .., _, _, h => by simp [suspend] at h
  | .ctor .., _, _, h => by simp [suspend] at h
  | .dtor .., _, _, h => by simp [suspend] at h
  | .case .., _, _, h => by simp [suspend] at h
  | .label .., _, _, h => by simp [suspend] at h
  | .goto .., _, _, h => by simp [suspend] at h
  | .exit .., _, _, h => by simp [suspend] at h

theorem arith_ok_of_pure {o : BinOp} (h1 : (o != .div) = true) (h2 : (o != .rem) = true)
    (x y : Word) : ∃ r, arith o x y = .ok r := by
  cases o with
  | div => exact absurd h1 (by decide)
  | rem => exact absurd h2 (by decide)
  | sum => exact ⟨_, rfl⟩
  | sub => exact ⟨_, rfl⟩
  | prod => exact ⟨_, rfl⟩

/-- one argument without a value -/
theorem fun_arg_none (p : CheckedProgram) (t : Term) (r : Terms) (env : Env)
    (h : ArgHead) (done : List Value) (k : Stack)
    (hav : argVal p t env = none)
    (ih : ∀ (k : Stack), pureVal p t env = none →
      ∃ j s1 w, FSteps p (.eval t env k) s1 [] j ∧ Fun.step p s1 = .stuck w ∧ Bad w) :
    ∃ j s1 w, FSteps p (.args h done (.cons t r) env k) s1 [] j ∧ Fun.step p s1 = .stuck w ∧ Bad w := by
  unfold argVal argValWith at hav
  have hstep := argsStep_cons p t r h done env k
  cases hcv : isCov t with
  | some x =>
    rw [hcv] at hav hstep
    simp only at hav hstep
    cases hl : lookup x env with
    | none =>
      exact ⟨0, _, .unbound x, .refl _, by rw [step_args, hstep, hl], by simp, by simp⟩
    | some w =>
      cases w with
      | cont c => simp [hl] at hav
      | int a => exact ⟨0, _, .notCont x, .refl _, by rw [step_args, hstep, hl], by simp, by simp⟩
      | con a b => exact ⟨0, _, .notCont x, .refl _, by rw [step_args, hstep, hl], by simp, by simp⟩
      | obj a b => exact ⟨0, _, .notCont x, .refl _, by rw [step_args, hstep, hl], by simp, by simp⟩
      | thunk a b => exact ⟨0, _, .notCont x, .refl _, by rw [step_args, hstep, hl], by simp, by simp⟩
  | none =>
    rw [hcv] at hav hstep
    simp only at hav hstep
    cases hty : t.getType with
    | none =>
      rw [hty] at hstep
      exact ⟨0, _, .untyped, .refl _, by rw [step_args, hstep], by simp, by simp⟩
    | some ty =>
      rw [hty] at hav hstep
      simp only at hav hstep
      by_cases hcd : isCodataTy p ty = true
      · rw [if_pos hcd] at hav hstep
        cases hs : suspend t env with
        | ok v' => simp [hs, exceptToOption] at hav
        | error w =>
          exact ⟨0, _, w, .refl _, by rw [step_args, hstep, hs], suspend_error_bad t env w hs⟩
      · rw [if_neg hcd] at hav hstep
        obtain ⟨j, s1, w, fj, hs, hb⟩ := ih (.arg h done r env :: k) hav
        have s0 : FSteps p (.args h done (.cons t r) env k) (.eval t env (.arg h done r env :: k)) [] 1 :=
          .one (by rw [step_args, hstep])
        have := s0.trans fj
        simp only [List.append_nil] at this
        exact ⟨_, s1, w, this, hs, hb⟩

mutual
  theorem fun_pure_none (p : CheckedProgram) : ∀ (t : Term) (env : Env) (k : Stack),
      pureTerm t = true → pureVal p t env = none →
      ∃ j s1 w, FSteps p (.eval t env k) s1 [] j ∧ Fun.step p s1 = .stuck w ∧ Bad w
    | .var x ty chi, env, k, _, hv => by
      simp only [pureVal] at hv
      exact ⟨0, _, .unbound x, .refl _, by simp [step_eval, evalStep, hv], by simp, by simp⟩
    | .lit n, env, k, _, hv => by simp [pureVal] at hv
    | .op a o b, env, k, hp, hv => by
      simp only [pureTerm, Bool.and_eq_true] at hp
      simp only [pureVal] at hv
      have s0 : FSteps p (.eval (.op a o b) env k) (.eval a env (.opL o b env :: k)) [] 1 := .one rfl
      cases ha : pureVal p a env with
      | none =>
        obtain ⟨j, s1, w, fj, hs, hb⟩ := fun_pure_none p a env (.opL o b env :: k) hp.1.2 ha
        have := s0.trans fj
        simp only [List.append_nil] at this
        exact ⟨_, s1, w, this, hs, hb⟩
      | some va =>
        obtain ⟨ja, _, fa⟩ := fun_pure p a env va (.opL o b env :: k) hp.1.2 ha
        have sa := s0.trans fa
        simp only [List.append_nil] at sa
        have hbadL : (∀ x, va ≠ .int x) →
            ∃ j s1 w, FSteps p (.eval (.op a o b) env k) s1 [] j ∧ Fun.step p s1 = .stuck w ∧ Bad w := by
          intro hne
          refine ⟨_, _, .notInt "operand", sa, ?_, by simp, by simp⟩
          cases va with
          | int x => exact absurd rfl (hne x)
          | _ => rfl
        cases va with
        | int x =>
          have s1 : FSteps p (.ret (.int x) (.opL o b env :: k)) (.eval b env (.opR o x :: k)) [] 1 :=
            .one rfl
          have sa1 := sa.trans s1
          simp only [List.append_nil] at sa1
          cases hb : pureVal p b env with
          | none =>
            obtain ⟨j, s1', w, fj, hs, hbad⟩ := fun_pure_none p b env (.opR o x :: k) hp.2 hb
            have := sa1.trans fj
            simp only [List.append_nil] at this
            exact ⟨_, s1', w, this, hs, hbad⟩
          | some vb =>
            obtain ⟨jb, _, fb⟩ := fun_pure p b env vb (.opR o x :: k) hp.2 hb
            have sb := sa1.trans fb
            simp only [List.append_nil] at sb
            cases vb with
            | int y =>
              obtain ⟨r, hr⟩ := arith_ok_of_pure hp.1.1.1 hp.1.1.2 x y
              simp [ha, hb, hr, exceptToOption, Except.map] at hv
            | con c d => exact ⟨_, _, .notInt "operand", sb, rfl, by simp, by simp⟩
            | obj c d => exact ⟨_, _, .notInt "operand", sb, rfl, by simp, by simp⟩
            | thunk c d => exact ⟨_, _, .notInt "operand", sb, rfl, by simp, by simp⟩
            | cont c => exact ⟨_, _, .notInt "operand", sb, rfl, by simp, by simp⟩
        | con c d => exact hbadL (by simp)
        | obj c d => exact hbadL (by simp)
        | thunk c d => exact hbadL (by simp)
        | cont c => exact hbadL (by simp)
    | .ctor c as ty, env, k, hp, hv => by
      simp only [pureTerm] at hp
      simp only [pureVal, Option.map_eq_none_iff] at hv
      obtain ⟨j, s1, w, fj, hs, hb⟩ := fun_pureArgs_none p as env (.ctor c) [] k hp hv
      have s0 : FSteps p (.eval (.ctor c as ty) env k) (.args (.ctor c) [] as env k) [] 1 := .one rfl
      have := s0.trans fj
      simp only [List.append_nil] at this
      exact ⟨_, s1, w, this, hs, hb⟩
    | .new cs ty, env, k, _, hv => by simp [pureVal] at hv
    | .paren t, env, k, hp, hv => by
      simp only [pureTerm] at hp
      simp only [pureVal] at hv
      obtain ⟨j, s1, w, fj, hs, hb⟩ := fun_pure_none p t env k hp hv
      have s0 : FSteps p (.eval (.paren t) env k) (.eval t env k) [] 1 := .one rfl
      have := s0.trans fj
      simp only [List.append_nil] at this
      exact ⟨_, s1, w, this, hs, hb⟩
    | .ifc .., _, _, hp, _ => by simp [pureTerm] at hp
    | .ifz .., _, _, hp, _ => by simp [pureTerm] at hp
    | .print .., _, _, hp, _ => by simp [pureTerm] at hp
    | .letIn .., _, _, hp, _ => by simp [pureTerm] at hp
    | .call .., _, _, hp, _ => by simp [pureTerm] at hp
    | .dtor .., _, _, hp, _ => by simp [pureTerm] at hp
    | .case .., _, _, hp, _ => by simp [pureTerm] at hp
    | .label .., _, _, hp, _ => by simp [pureTerm] at hp
    | .goto .., _, _, hp, _ => by simp [pureTerm] at hp
    | .exit .., _, _, hp, _ => by simp [pureTerm] at hp
  theorem fun_pureArgs_none (p : CheckedProgram) : ∀ (todo : Terms) (env : Env)
      (h : ArgHead) (done : List Value) (k : Stack),
      pureTerms todo = true → pureArgs p todo env = none →
      ∃ j s1 w, FSteps p (.args h done todo env k) s1 [] j ∧ Fun.step p s1 = .stuck w ∧ Bad w
    | .nil, env, h, done, k, _, hv => by simp [pureArgs] at hv
    | .cons t r, env, h, done, k, hp, hv => by
      simp only [pureTerms, Bool.and_eq_true] at hp
      rw [pureArgs_cons] at hv
      cases hav : argVal p t env with
      | none =>
        exact fun_arg_none p t r env h done k hav (fun k hv => fun_pure_none p t env k hp.1 hv)
      | some v =>
        obtain ⟨j1, f1⟩ := fun_arg p t r env v h done k hav
          (fun k v hv => fun_pure p t env v k hp.1 hv)
        cases hr : pureArgs p r env with
        | some vr => simp [hav, hr] at hv
        | none =>
          obtain ⟨j, s1, w, fj, hs, hb⟩ := fun_pureArgs_none p r env h (done ++ [v]) k hp.2 hr
          have := f1.trans fj
          simp only [List.append_nil] at this
          exact ⟨_, s1, w, this, hs, hb⟩
end

/-! ## an operator with pure operands (the operator itself may be `/` or `%`) -/

/-- outcome of evaluating `a o b` with pure operands: the machine reaches the point where the
operator is applied to two integers, or gets stuck before (not with an arithmetic fault) -/
theorem fun_op_top (p : CheckedProgram) (a b : Term) (o : BinOp) (env : Env) (k : Stack)
    (hpa : pureTerm a = true) (hpb : pureTerm b = true) :
    (∃ x y j, pureVal p a env = some (.int x) ∧ pureVal p b env = some (.int y) ∧ 1 ≤ j ∧
      FSteps p (.eval (.op a o b) env k) (.ret (.int y) (.opR o x :: k)) [] j) ∨
    ((∀ x y, ¬ (pureVal p a env = some (.int x) ∧ pureVal p b env = some (.int y))) ∧
      ∃ j s1 w, FSteps p (.eval (.op a o b) env k) s1 [] j ∧ Fun.step p s1 = .stuck w ∧ Bad w) := by
  have s0 : FSteps p (.eval (.op a o b) env k) (.eval a env (.opL o b env :: k)) [] 1 := .one rfl
  cases ha : pureVal p a env with
  | none =>
    right
    refine ⟨fun x y h => by simp at h, ?_⟩
    obtain ⟨j, s1, w, fj, hs, hb⟩ := fun_pure_none p a env (.opL o b env :: k) hpa ha
    have := s0.trans fj
    simp only [List.append_nil] at this
    exact ⟨_, s1, w, this, hs, hb⟩
  | some va =>
    obtain ⟨ja, _, fa⟩ := fun_pure p a env va (.opL o b env :: k) hpa ha
    have sa := s0.trans fa
    simp only [List.append_nil] at sa
    have hbadL : (∀ x, va ≠ .int x) →
        ((∀ x y, ¬ (some va = some (.int x) ∧ pureVal p b env = some (.int y))) ∧
        ∃ j s1 w, FSteps p (.eval (.op a o b) env k) s1 [] j ∧ Fun.step p s1 = .stuck w ∧ Bad w) := by
      intro hne
      refine ⟨fun x y h => hne x (by simpa using h.1), _, _, .notInt "operand", sa, ?_, by simp, by simp⟩
      cases va with
      | int x => exact absurd rfl (hne x)
      | _ => rfl
    cases va with
    | int x =>
      have s1 : FSteps p (.ret (.int x) (.opL o b env :: k)) (.eval b env (.opR o x :: k)) [] 1 :=
        .one rfl
      have sa1 := sa.trans s1
      simp only [List.append_nil] at sa1
      cases hb : pureVal p b env with
      | none =>
        right
        refine ⟨fun x y h => by simp at h, ?_⟩
        obtain ⟨j, s1', w, fj, hs, hbad⟩ := fun_pure_none p b env (.opR o x :: k) hpb hb
        have := sa1.trans fj
        simp only [List.append_nil] at this
        exact ⟨_, s1', w, this, hs, hbad⟩
      | some vb =>
        obtain ⟨jb, _, fb⟩ := fun_pure p b env vb (.opR o x :: k) hpb hb
        have sb := sa1.trans fb
        simp only [List.append_nil] at sb
        cases vb with
        | int y => exact .inl ⟨x, y, _, rfl, rfl, by omega, sb⟩
        | con c d => exact .inr ⟨fun x y h => by simp at h, _, _, .notInt "operand", sb, rfl, by simp, by simp⟩
        | obj c d => exact .inr ⟨fun x y h => by simp at h, _, _, .notInt "operand", sb, rfl, by simp, by simp⟩
        | thunk c d => exact .inr ⟨fun x y h => by simp at h, _, _, .notInt "operand", sb, rfl, by simp, by simp⟩
        | cont c => exact .inr ⟨fun x y h => by simp at h, _, _, .notInt "operand", sb, rfl, by simp, by simp⟩
    | con c d => exact .inr (hbadL (by simp))
    | obj c d => exact .inr (hbadL (by simp))
    | thunk c d => exact .inr (hbadL (by simp))
    | cont c => exact .inr (hbadL (by simp))

theorem step_opR (p : CheckedProgram) (o : BinOp) (x y : Word) (k : Stack) :
    Fun.step p (.ret (.int y) (.opR o x :: k)) =
      (match arith o x y with
        | .ok r => .next (.ret (.int r) k) none
        | .error w => .stuck w) := rfl

/-! ## the shape of pure terms (used by the relations of Scc.Fun2Core.SemRel) -/

/-- terms whose suspension (by-name argument / binding) is their value: variables and `new` -/
def pureS : Term → Bool
  | .var .. => true
  | .new .. => true
  | .paren t => pureS t
  | _ => false

mutual
  /-- pure terms: variables, literals, `+ - *`, constructors, `new` (clauses accepted by `gc`),
  parentheses; an argument of codata type is a variable or a `new` -/
  def pureFO (p : CheckedProgram) (gc : Clauses → Bool) : Term → Bool
    | .var .. => true
    | .lit _ => true
    | .op a o b => o != .div && o != .rem && pureFO p gc a && pureFO p gc b
    | .ctor _ as _ => pureFOs p gc as
    | .new cs _ => gc cs
    | .paren t => pureFO p gc t
    | _ => false
  def pureFOs (p : CheckedProgram) (gc : Clauses → Bool) : Terms → Bool
    | .nil => true
    | .cons t r =>
      pureFO p gc t &&
      (match t.getType with
        | some ty => !isCodataTy p ty || pureS t
        | none => true) && pureFOs p gc r
end

end Scc.Fun2Core.Sem
