/-
  Scc.Fun2Core.TypedProg — proof file (C12, link fun2core): definitions and whole programs.
  For a checked program `p` that is well-typed in the monomorphic, annotated sense (`ProgM p`,
  Scc/Fun2Core/TypedSrc.lean), in which no definition calls `main` and every `main` returns `i64`:
    * `compileProg p` succeeds (`compileProg_ok`),
    * the result passes the executable Core type checker (`compileProg_wellTyped`),
    * all its identifiers have id 0 and names that are parameters / binders of `p` or generated
      (`compileProg_ids`: stated for any predicate `G` on names that holds for those),
    * its data and codata type names are disjoint (`compileProg_disjoint`).
-/
import Scc.Fun2Core.TypedTotal

namespace Scc.Fun2Core.Typed
open Scc Scc.Core Scc.Fun2Core
open Scc.Fun.Typing (lookupCtx bindNames clauseXtors)

variable {p : Fun.CheckedProgram} {P : Prog} {G : String → Prop}

/-- what is shown about every definition of the output -/
def GoodDef (P : Prog) (G : String → Prop) (D : Def) : Prop :=
  D.body.check P D.ctx = true ∧ allIdsStmt (GoodId G) D.body ∧ (∀ b ∈ D.ctx, GoodId G b.var) ∧
    D.body.strict P = true

/-- the names of a definition (parameters, binders) satisfy `G` -/
def DefNamesGood (G : String → Prop) (d : Fun.Def) : Prop :=
  (∀ b ∈ d.ctx, G b.var) ∧ ∀ x ∈ binderNames d.body, G x

theorem ctxRel_nil (a : Binding) : CtxRel [] [a] := by
  intro x b hb
  simp [lookupCtx] at hb

/-- the state with which def.rs starts the translation of a body -/
def initState (d : Fun.Def) (cts : List TypeDecl) (l : List String) : CompileState :=
  ⟨usedBinders d.body (ctxVars d.ctx), cts, l, d.name, []⟩

theorem param_used (d : Fun.Def) (cts : List TypeDecl) (l : List String) {b : Fun.Binding}
    (hb : b ∈ d.ctx) : b.var ∈ (initState d cts l).usedVars :=
  (mem_usedBinders _ _).2 (.inr ((mem_ctxVars _).2 ⟨b, hb, rfl⟩))

theorem binder_used (d : Fun.Def) (cts : List TypeDecl) (l : List String) {x : String}
    (hx : x ∈ binderNames d.body) : x ∈ (initState d cts l).usedVars :=
  (mem_usedBinders _ _).2 (.inl hx)

theorem freshVar_mem (st : CompileState) : (freshVar st).1 ∈ (freshVar st).2.usedVars := by
  simp [freshVar, freshName]

theorem freshVar_not_mem (st : CompileState) : (freshVar st).1 ∉ st.usedVars :=
  freshName_not_mem _ _

theorem compileDef_eq (d : Fun.Def) (cts : List TypeDecl) (l : List String) :
    compileDef d cts l =
      (match getType d.body with
        | none => .error (noTy "def.rs: compile_def")
        | some t =>
          match compileWithCont d.body (.var .cns ⟨(freshCovar (initState d cts l)).1, 0⟩
              (compileTy t)) (freshCovar (initState d cts l)).2 with
          | .error e => .error e
          | .ok (body, st') => .ok (⟨⟨d.name, 0⟩, compileContext d.ctx ++
              [⟨⟨(freshCovar (initState d cts l)).1, 0⟩, .cns, compileTy d.retTy⟩], body⟩ ::
                st'.liftedStatements, st'.usedLabels)) := rfl

theorem compileMain_eq (d : Fun.Def) (cts : List TypeDecl) (l : List String) :
    compileMain d cts l =
      (match getType d.body with
        | none => .error (noTy "def.rs: compile_main")
        | some t =>
          match compileWithCont d.body (.mu .cns ⟨(freshVar (initState d cts l)).1, 0⟩
              (compileTy t) (.exit (.var .prd ⟨(freshVar (initState d cts l)).1, 0⟩ (compileTy t))
                (compileTy t))) (freshVar (initState d cts l)).2 with
          | .error e => .error e
          | .ok (body, st') => .ok (⟨⟨d.name, 0⟩, compileContext d.ctx, body⟩ ::
                st'.liftedStatements, st'.usedLabels)) := rfl

section
variable (env : Env p P) (hg : FreshGood G)
include env hg

/-- def.rs `compile_def`: the translated definition and the definitions lifted out of it are typed -/
theorem compileDef_typed {d : Fun.Def} {cts : List TypeDecl} {l : List String}
    {r : List Def × List String} (hdef : DefM p d) (hm : d.body.callsMain = false)
    (hgn : DefNamesGood G d) (h : compileDef d cts l = .ok r)
    (hsig : ∀ D ∈ r.1, P.defs.find? (fun d => d.name = D.name) = some D) :
    ∀ D ∈ r.1, GoodDef P G D := by
  rw [compileDef_eq] at h
  simp only [getType_of_typed p d.body d.ctx d.retTy hdef.body] at h
  generalize hst0 : initState d cts l = st0 at h
  cases hx : compileWithCont d.body (.var .cns ⟨(freshCovar st0).1, 0⟩ (compileTy d.retTy))
      (freshCovar st0).2 with
  | error e => simp [hx] at h
  | ok r1 =>
    obtain ⟨body, st'⟩ := r1
    simp only [hx, Except.ok.injEq] at h
    subst h
    simp only at hsig ⊢
    have f0 := fresh_freshCovar st0
    have hga := hg.freshCovar st0
    have hpu : ∀ b ∈ d.ctx, b.var ∈ st0.usedVars := fun b hb => hst0 ▸ param_used d cts l hb
    have hbu : ∀ x ∈ binderNames d.body, x ∈ st0.usedVars := fun x hx => hst0 ▸ binder_used d cts l hx
    have hrel : CtxRel d.ctx (compileContext d.ctx ++
        [⟨⟨(freshCovar st0).1, 0⟩, .cns, compileTy d.retTy⟩]) := by
      have := (ctxRel_nil ⟨⟨(freshCovar st0).1, 0⟩, .cns, compileTy d.retTy⟩).append d.ctx hdef.params
      simpa using this
    have hgood : ∀ a ∈ compileContext d.ctx, a.var.name ∈ (freshCovar st0).2.usedVars ∧ GoodId G a.var := by
      intro a ha
      obtain ⟨b0, hb0, rfl⟩ := mem_compileContext ha
      exact ⟨f0.vars.subset (hpu b0 hb0), rfl, hgn.1 b0 hb0⟩
    have hnm0 : NamesIn G [⟨⟨(freshCovar st0).1, 0⟩, .cns, compileTy d.retTy⟩] (freshCovar st0).2 := by
      intro b hb
      simp only [List.mem_singleton] at hb
      subst hb
      exact ⟨freshCovar_mem st0, hga⟩
    have hnm := hnm0.append hgood
    have hbin : BIn G (binderNames d.body) (freshCovar st0).2 :=
      fun x hx => ⟨f0.vars.subset (hbu x hx), hgn.2 x hx⟩
    have hc : TOK P G (compileContext d.ctx ++ [⟨⟨(freshCovar st0).1, 0⟩, .cns, compileTy d.retTy⟩]) .cns
        (compileTy d.retTy) (.var .cns ⟨(freshCovar st0).1, 0⟩ (compileTy d.retTy)) := by
      refine TOK.var ?_ hga
      rw [lookupBinding_append, lookupBinding_none_of]
      · exact lookupBinding_cons_self _ []
      · intro a ha e
        obtain ⟨b0, hb0, rfl⟩ := mem_compileContext ha
        have h1 := hpu b0 hb0
        have : b0.var = (freshCovar st0).1 := by simpa [compileBinding] using congrArg Ident.name e
        rw [this] at h1
        exact freshCovar_not_mem st0 h1
    have hsl : SigLifted P st' := fun D hD => hsig D (by simp [hD])
    have hok0 : LiftedOk P G (freshCovar st0).2 := by
      intro D hD
      have : (freshCovar st0).2.liftedStatements = [] := by rw [← hst0]; rfl
      rw [this] at hD
      simp at hD
    obtain ⟨hs, hlo⟩ := (typed_term env hg d.body).1 d.ctx d.retTy _ _ _ body st' hdef.body hm hrel hnm
      hbin hc hx hsl hok0
    intro D hD
    rcases List.mem_cons.1 hD with rfl | hD
    · refine ⟨hs.1, hs.2.1, ?_, hs.2.2⟩
      intro b hb
      exact (hnm b hb).2
    · exact hlo D hD

/-- def.rs `compile_main` (the body is translated with the consumer `μ~x. exit x`) -/
theorem compileMain_typed {d : Fun.Def} {cts : List TypeDecl} {l : List String}
    {r : List Def × List String} (hdef : DefM p d) (hm : d.body.callsMain = false)
    (hret : d.retTy = .i64) (hgn : DefNamesGood G d) (h : compileMain d cts l = .ok r)
    (hsig : ∀ D ∈ r.1, P.defs.find? (fun d => d.name = D.name) = some D) :
    ∀ D ∈ r.1, GoodDef P G D := by
  rw [compileMain_eq] at h
  simp only [getType_of_typed p d.body d.ctx d.retTy hdef.body] at h
  generalize hst0 : initState d cts l = st0 at h
  cases hx : compileWithCont d.body (.mu .cns ⟨(freshVar st0).1, 0⟩
      (compileTy d.retTy) (.exit (.var .prd ⟨(freshVar st0).1, 0⟩ (compileTy d.retTy))
        (compileTy d.retTy))) (freshVar st0).2 with
  | error e => simp [hx] at h
  | ok r1 =>
    obtain ⟨body, st'⟩ := r1
    simp only [hx, Except.ok.injEq] at h
    subst h
    simp only at hsig ⊢
    have f0 := fresh_freshVar st0
    have hgx := hg.freshVar st0
    have hpu : ∀ b ∈ d.ctx, b.var ∈ st0.usedVars := fun b hb => hst0 ▸ param_used d cts l hb
    have hbu : ∀ x ∈ binderNames d.body, x ∈ st0.usedVars := fun x hx => hst0 ▸ binder_used d cts l hx
    have hrel : CtxRel d.ctx (compileContext d.ctx) := by
      intro x b hb
      have hn := hdef.params
      rw [lookupBinding_compileContext]
      have : lookupCtx ([] ++ d.ctx) x = some b := by simpa using hb
      rw [lookupCtx_append _ _ _ hn] at this
      cases hf : d.ctx.find? (fun b => b.var = x) with
      | some b' => simp only [hf] at this; cases this; rfl
      | none => simp [hf, lookupCtx] at this
    have hnm : NamesIn G (compileContext d.ctx) (freshVar st0).2 := by
      intro a ha
      obtain ⟨b0, hb0, rfl⟩ := mem_compileContext ha
      exact ⟨f0.vars.subset (hpu b0 hb0), rfl, hgn.1 b0 hb0⟩
    have hbin : BIn G (binderNames d.body) (freshVar st0).2 :=
      fun x hx => ⟨f0.vars.subset (hbu x hx), hgn.2 x hx⟩
    have hc : TOK P G (compileContext d.ctx) .cns (compileTy d.retTy)
        (.mu .cns ⟨(freshVar st0).1, 0⟩ (compileTy d.retTy)
          (.exit (.var .prd ⟨(freshVar st0).1, 0⟩ (compileTy d.retTy)) (compileTy d.retTy))) := by
      refine TOK.mu hgx (tyDeclared_of_typed env hdef.body) (SOK.exit ?_)
      rw [hret]
      exact TOK.var_head hgx
    have hsl : SigLifted P st' := fun D hD => hsig D (by simp [hD])
    have hok0 : LiftedOk P G (freshVar st0).2 := by
      intro D hD
      have : (freshVar st0).2.liftedStatements = [] := by rw [← hst0]; rfl
      rw [this] at hD
      simp at hD
    obtain ⟨hs, hlo⟩ := (typed_term env hg d.body).1 d.ctx d.retTy _ _ _ body st' hdef.body hm hrel hnm
      hbin hc hx hsl hok0
    intro D hD
    rcases List.mem_cons.1 hD with rfl | hD
    · refine ⟨hs.1, hs.2.1, ?_, hs.2.2⟩
      intro b hb
      exact (hnm b hb).2
    · exact hlo D hD

end

/-! ## totality at the definition level -/

theorem compileDef_ok {d : Fun.Def} (cts : List TypeDecl) (l : List String) (hdef : DefM p d) :
    ∃ r, compileDef d cts l = .ok r := by
  rw [compileDef_eq]
  simp only [getType_of_typed p d.body d.ctx d.retTy hdef.body]
  obtain ⟨⟨body, st'⟩, hx⟩ := (ok_term d.body).1 d.ctx d.retTy
    (.var .cns ⟨(freshCovar (initState d cts l)).1, 0⟩ (compileTy d.retTy))
    (freshCovar (initState d cts l)).2 hdef.body
    (fun x hx => (fresh_freshCovar _).vars.subset (binder_used d cts l hx))
  simp only [hx]
  exact ⟨_, rfl⟩

theorem compileMain_ok {d : Fun.Def} (cts : List TypeDecl) (l : List String) (hdef : DefM p d) :
    ∃ r, compileMain d cts l = .ok r := by
  rw [compileMain_eq]
  simp only [getType_of_typed p d.body d.ctx d.retTy hdef.body]
  obtain ⟨⟨body, st'⟩, hx⟩ := (ok_term d.body).1 d.ctx d.retTy
    (.mu .cns ⟨(freshVar (initState d cts l)).1, 0⟩
      (compileTy d.retTy) (.exit (.var .prd ⟨(freshVar (initState d cts l)).1, 0⟩ (compileTy d.retTy))
        (compileTy d.retTy)))
    (freshVar (initState d cts l)).2 hdef.body
    (fun x hx => (fresh_freshVar _).vars.subset (binder_used d cts l hx))
  simp only [hx]
  exact ⟨_, rfl⟩

/-- the first definition returned by `compile_def` is the translated definition, with the
continuation parameter appended -/
theorem compileDef_head {d : Fun.Def} {cts : List TypeDecl} {l : List String}
    {r : List Def × List String} (h : compileDef d cts l = .ok r) :
    ∃ D rest a, r.1 = D :: rest ∧ D.name = ⟨d.name, 0⟩ ∧
      D.ctx = compileContext d.ctx ++ [⟨a, .cns, compileTy d.retTy⟩] := by
  unfold compileDef at h
  simp only at h
  split at h
  · simp at h
  · split at h
    · simp at h
    · simp only [Except.ok.injEq] at h
      subst h
      exact ⟨_, _, _, rfl, rfl, rfl⟩

/-! ## the loop over the definitions -/

theorem compileDefs_subset (cts : List TypeDecl) : ∀ (ds : List Fun.Def) (l : List String)
    (acc out : List Def), compileDefs cts ds l acc = .ok out → ∀ D ∈ acc, D ∈ out
  | [], l, acc, out, h, D, hD => by
    simp only [compileDefs, Except.ok.injEq] at h
    subst h
    exact hD
  | d :: rest, l, acc, out, h, D, hD => by
    unfold compileDefs at h
    split at h
    · cases hm : compileMain d cts l with
      | error e => simp [hm] at h
      | ok r =>
        simp only [hm] at h
        exact compileDefs_subset cts rest _ _ out h D (by simp [hD])
    · cases hm : compileDef d cts l with
      | error e => simp [hm] at h
      | ok r =>
        simp only [hm] at h
        exact compileDefs_subset cts rest _ _ out h D (by simp [hD])

theorem compileDefs_ok (cts : List TypeDecl) : ∀ (ds : List Fun.Def) (l : List String)
    (acc : List Def), (∀ d ∈ ds, DefM p d) → ∃ out, compileDefs cts ds l acc = .ok out
  | [], l, acc, _ => ⟨acc, rfl⟩
  | d :: rest, l, acc, hd => by
    unfold compileDefs
    split
    · obtain ⟨r, hr⟩ := compileMain_ok cts l (hd d (by simp))
      simp only [hr]
      exact compileDefs_ok cts rest _ _ (fun d' hd' => hd d' (by simp [hd']))
    · obtain ⟨r, hr⟩ := compileDef_ok cts l (hd d (by simp))
      simp only [hr]
      exact compileDefs_ok cts rest _ _ (fun d' hd' => hd d' (by simp [hd']))

/-- every user definition other than `main` has a translated definition with its signature -/
theorem compileDefs_user (cts : List TypeDecl) : ∀ (ds : List Fun.Def) (l : List String)
    (acc out : List Def), compileDefs cts ds l acc = .ok out →
    ∀ d ∈ ds, d.name ≠ "main" → ∃ D ∈ out, D.name = ⟨d.name, 0⟩ ∧
      ∃ a, D.ctx = compileContext d.ctx ++ [⟨a, .cns, compileTy d.retTy⟩]
  | [], _, _, _, _, d, hd, _ => by simp at hd
  | d0 :: rest, l, acc, out, h, d, hd, hne => by
    unfold compileDefs at h
    split at h
    · rename_i hmain
      cases hm : compileMain d0 cts l with
      | error e => simp [hm] at h
      | ok r =>
        simp only [hm] at h
        rcases List.mem_cons.1 hd with rfl | hd
        · exact absurd (by simpa using hmain) hne
        · exact compileDefs_user cts rest _ _ out h d hd hne
    · cases hm : compileDef d0 cts l with
      | error e => simp [hm] at h
      | ok r =>
        simp only [hm] at h
        rcases List.mem_cons.1 hd with rfl | hd
        · obtain ⟨D, rest', a, e1, e2, e3⟩ := compileDef_head hm
          refine ⟨D, ?_, e2, a, e3⟩
          exact compileDefs_subset cts rest _ _ out h D (by simp [e1])
        · exact compileDefs_user cts rest _ _ out h d hd hne

section
variable (env : Env p P) (hg : FreshGood G)
include env hg

theorem compileDefs_typed (cts : List TypeDecl) : ∀ (ds : List Fun.Def) (l : List String)
    (acc out : List Def), compileDefs cts ds l acc = .ok out →
    (∀ d ∈ ds, DefM p d ∧ d.body.callsMain = false ∧ (d.name = "main" → d.retTy = .i64) ∧
      DefNamesGood G d) →
    (∀ D ∈ out, P.defs.find? (fun d => d.name = D.name) = some D) →
    (∀ D ∈ acc, GoodDef P G D) → ∀ D ∈ out, GoodDef P G D
  | [], l, acc, out, h, _, _, hacc => by
    simp only [compileDefs, Except.ok.injEq] at h
    subst h
    exact hacc
  | d :: rest, l, acc, out, h, hds, hsig, hacc => by
    obtain ⟨hdef, hm, hret, hgn⟩ := hds d (by simp)
    unfold compileDefs at h
    split at h
    · rename_i hmain
      cases hmn : compileMain d cts l with
      | error e => simp [hmn] at h
      | ok r =>
        simp only [hmn] at h
        have hsub := compileDefs_subset cts rest _ _ out h
        have hr := compileMain_typed env hg hdef hm (hret (by simpa using hmain)) hgn hmn
          (fun D hD => hsig D (hsub D (by simp [hD])))
        refine compileDefs_typed cts rest _ _ out h (fun d' hd' => hds d' (by simp [hd'])) hsig ?_
        intro D hD
        rcases List.mem_append.1 hD with hD | hD
        · exact hr D hD
        · exact hacc D hD
    · cases hmn : compileDef d cts l with
      | error e => simp [hmn] at h
      | ok r =>
        simp only [hmn] at h
        have hsub := compileDefs_subset cts rest _ _ out h
        have hr := compileDef_typed env hg hdef hm hgn hmn
          (fun D hD => hsig D (hsub D (by simp [hD])))
        refine compileDefs_typed cts rest _ _ out h (fun d' hd' => hds d' (by simp [hd'])) hsig ?_
        intro D hD
        rcases List.mem_append.1 hD with hD | hD
        · exact hacc D hD
        · exact hr D hD

end

/-! ## whole programs -/

theorem find?_of_nodup {l : List Def} (hn : (l.map (·.name)).Nodup) {D : Def} (hD : D ∈ l) :
    l.find? (fun d => d.name = D.name) = some D := by
  induction l with
  | nil => simp at hD
  | cons a r ih =>
    simp only [List.map_cons, List.nodup_cons] at hn
    simp only [List.find?_cons]
    rcases List.mem_cons.1 hD with rfl | hD
    · simp
    · have : a.name ≠ D.name := fun e => hn.1 (e ▸ List.mem_map.2 ⟨D, hD, rfl⟩)
      simp only [this, decide_false]
      exact ih hn.2 hD

theorem mem_usedLabels_init (defs : List Fun.Def) (d : Fun.Def) (hd : d ∈ defs) :
    d.name ∈ defs.foldl (fun acc d => setInsert d.name acc) [] := by
  suffices h : ∀ s, d.name ∈ defs.foldl (fun acc d => setInsert d.name acc) s by exact h []
  induction defs with
  | nil => simp at hd
  | cons a l ih =>
    intro s
    rcases List.mem_cons.1 hd with rfl | h
    · have mono : ∀ (l : List Fun.Def) (s : List String) (x : String), x ∈ s →
          x ∈ l.foldl (fun acc d => setInsert d.name acc) s := by
        intro l
        induction l with
        | nil => exact fun _ _ h => h
        | cons b l ih2 => exact fun s x h => ih2 _ _ (mem_setInsert.2 (.inr h))
      simp only [List.foldl_cons]
      exact mono _ _ _ (mem_setInsert.2 (.inl rfl))
    · simp only [List.foldl_cons]
      exact ih h _

/-- the hypotheses on the checked program under which the translation is shown type-preserving -/
structure ProgHyp (p : Fun.CheckedProgram) (G : String → Prop) : Prop where
  typed : ProgM p
  noMainCall : ∀ d ∈ p.defs, d.body.callsMain = false
  mainRet : ∀ d ∈ p.defs, d.name = "main" → d.retTy = .i64
  names : ∀ d ∈ p.defs, DefNamesGood G d

/-- program.rs `compile_prog` succeeds on a typed program -/
theorem compileProg_ok (hp : ProgM p) : ∃ q, compileProg p = .ok q := by
  unfold compileProg
  simp only
  obtain ⟨out, ho⟩ := compileDefs_ok (p := p)
    (p.codataTypes.map fun d => ⟨⟨d.name, 0⟩, d.dtors.map compileDtor⟩) p.defs
    (p.defs.foldl (fun acc d => setInsert d.name acc) []) [] hp.defs
  rw [ho]
  exact ⟨_, rfl⟩

/-- **fun2core preserves typing** (program level): every definition of the output checks, and all its
identifiers are good -/
theorem compileProg_typed (hg : FreshGood G) (hp : ProgHyp p G) {q : Prog}
    (h : compileProg p = .ok q) :
    q.dataTypes = dataTypesOf p ∧ q.codataTypes = codataTypesOf p ∧ q.maxId = 0 ∧
    ∀ D ∈ q.defs, GoodDef q G D := by
  unfold compileProg at h
  simp only at h
  split at h
  · simp at h
  · rename_i out ho
    simp only [Except.ok.injEq] at h
    subst h
    refine ⟨rfl, rfl, rfl, ?_⟩
    have hnd : (out.map (·.name)).Nodup := by
      refine compileDefs_nodup _ _ _ _ _ ho ?_ (by simp) (fun d hd' => mem_usedLabels_init _ d hd')
      simp only [List.map_nil, List.nil_append]
      have : p.defs.map (fun d => ident0 d.name) = (p.defs.map (·.name)).map ident0 := by simp
      rw [this]
      exact List.Pairwise.map _ (fun a b hab h => hab (ident0_inj h)) hp.typed.defNames
    have env : Env p ⟨out, dataTypesOf p, codataTypesOf p, 0⟩ := by
      refine ⟨rfl, rfl, ?_⟩
      intro d hd hne
      obtain ⟨D, hD, e1, a, e2⟩ := compileDefs_user _ _ _ _ _ ho d hd hne
      refine ⟨D, a, ?_, e2⟩
      have := find?_of_nodup hnd hD
      rw [e1] at this
      exact this
    exact compileDefs_typed env hg _ _ _ _ _ ho
      (fun d hd => ⟨hp.typed.defs d hd, hp.noMainCall d hd, hp.mainRet d hd, hp.names d hd⟩)
      (fun D hD => find?_of_nodup hnd hD) (by simp)

theorem compileProg_wellTyped (hg : FreshGood G) (hp : ProgHyp p G) {q : Prog}
    (h : compileProg p = .ok q) : q.wellTyped = true := by
  obtain ⟨_, _, _, hd⟩ := compileProg_typed hg hp h
  simp only [Prog.wellTyped, List.all_eq_true]
  exact fun D hD => (hd D hD).1

/-- no type name is both a data and a codata type of the output -/
theorem compileProg_disjoint (hp : ProgM p) {q : Prog} (h : compileProg p = .ok q) :
    ∀ d ∈ q.dataTypes, ∀ c ∈ q.codataTypes, d.name ≠ c.name := by
  unfold compileProg at h
  simp only at h
  split at h
  · simp at h
  · simp only [Except.ok.injEq] at h
    subst h
    intro d hd c hc
    simp only [List.mem_map] at hd hc
    obtain ⟨d0, hd0, rfl⟩ := hd
    obtain ⟨c0, hc0, rfl⟩ := hc
    intro e
    exact hp.disjoint d0 hd0 c0 hc0 (by simpa using congrArg Ident.name e)

/-- the output satisfies the side condition `Prog.strictOk` of the middle passes
(Scc/Core/TypedStrict.lean): no type called `_Cont` (if the source has none), the xtor names of every
declaration pairwise distinct, every body `strict` (cut / μ types declared, clauses in declaration
order) -/
theorem compileProg_strictOk (hg : FreshGood G) (hp : ProgHyp p G)
    (hc1 : ∀ d ∈ p.dataTypes, d.name ≠ "_Cont") (hc2 : ∀ d ∈ p.codataTypes, d.name ≠ "_Cont")
    {q : Prog} (h : compileProg p = .ok q) : q.strictOk = true := by
  obtain ⟨e1, e2, _, hd⟩ := compileProg_typed hg hp h
  simp only [Prog.strictOk, Bool.and_eq_true, Bool.not_eq_true', List.any_eq_false, List.all_eq_true,
    e1, e2, dataTypesOf, codataTypesOf, List.mem_map, forall_exists_index, and_imp,
    forall_apply_eq_imp_iff₂]
  refine ⟨⟨⟨⟨?_, ?_⟩, ?_⟩, ?_⟩, fun D hD => (hd D hD).2.2.2⟩
  · intro d hd' hb
    have := Ident.beq_iff.1 hb
    exact hc1 d hd' (by simpa using congrArg Ident.name this)
  · intro d hd' hb
    have := Ident.beq_iff.1 hb
    exact hc2 d hd' (by simpa using congrArg Ident.name this)
  · intro d hd'
    simp only [TypeDecl.xtorsDistinct, decide_eq_true_eq, List.map_map]
    have := hp.typed.ctorsNodup d hd'
    have e : (fun c : XtorSig => c.name) ∘ compileCtor = ident0 ∘ fun c : Fun.CtorSig => c.name := by
      funext c; rfl
    rw [e, ← List.map_map]
    exact List.Pairwise.map _ (fun a b hab h => hab (ident0_inj h)) this
  · intro d hd'
    simp only [TypeDecl.xtorsDistinct, decide_eq_true_eq, List.map_map]
    have := hp.typed.dtorsNodup d hd'
    have e : (fun c : XtorSig => c.name) ∘ compileDtor = ident0 ∘ fun c : Fun.DtorSig => c.name := by
      funext c; rfl
    rw [e, ← List.map_map]
    exact List.Pairwise.map _ (fun a b hab h => hab (ident0_inj h)) this

end Scc.Fun2Core.Typed
