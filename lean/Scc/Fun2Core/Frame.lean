/-
  Scc.Fun2Core.Frame — a generic "state relation" induction over the translation: every reflexive,
  transitive relation on `CompileState` that holds for the three primitive state updates
  (`fresh_var`, `fresh_covar`, `share`) holds between the input and output state of
  `compile_with_cont` / `compile` / `compile_subst` / `compile_clause`s / `compile_coclause`s.
  Used for the freshness theorems of C02.
-/
import Scc.Fun2Core.Lemmas

namespace Scc.Fun2Core
open Scc

/-- a relation on compile states preserved by the primitive updates -/
structure StepRel (R : CompileState → CompileState → Prop) : Prop where
  refl : ∀ st, R st st
  trans : ∀ {a b c}, R a b → R b c → R a c
  freshVar : ∀ st, R st (freshVar st).2
  freshCovar : ∀ st, R st (freshCovar st).2
  share : ∀ c st, R st (share c st).2

variable {R : CompileState → CompileState → Prop}

def RelCwc (R : CompileState → CompileState → Prop) (t : Fun.Term) : Prop :=
  ∀ c st s st', compileWithCont t c st = .ok (s, st') → R st st'
def RelComp (R : CompileState → CompileState → Prop) (t : Fun.Term) : Prop :=
  ∀ ty st p st', compile t ty st = .ok (p, st') → R st st'
def RelSubst (R : CompileState → CompileState → Prop) (args : Fun.Terms) : Prop :=
  ∀ st as st', compileSubst args st = .ok (as, st') → R st st'
def RelClauses (R : CompileState → CompileState → Prop) (cs : Fun.Clauses) : Prop :=
  ∀ cont st cs' st', compileClauses cs cont st = .ok (cs', st') → R st st'
def RelCoclauses (R : CompileState → CompileState → Prop) (cs : Fun.Clauses) : Prop :=
  ∀ st cs' st', compileCoclauses cs st = .ok (cs', st') → R st st'

theorem stepRel_shareIf (hR : StepRel R) (b : Bool) (c : Core.Term) (st : CompileState) :
    R st (if b = true then (c, st) else share c st).2 := by
  cases b
  · exact hR.share c st
  · exact hR.refl st

theorem relComp_default (hR : StepRel R) {t : Fun.Term} (h : RelCwc R t)
    (hd : ∀ ty st, compile t ty st = defaultCompile (compileWithCont t) ty st) : RelComp R t := by
  intro ty st p st' hc
  rw [hd, defaultCompile_eq] at hc
  cases hx : compileWithCont t (.var .cns ⟨(freshCovar st).1, 0⟩ ty) (freshCovar st).2 with
  | error e => simp [hx] at hc
  | ok r =>
    obtain ⟨s, st1⟩ := r
    simp only [hx, Except.ok.injEq, Prod.mk.injEq] at hc
    obtain ⟨-, rfl⟩ := hc
    exact hR.trans (hR.freshCovar st) (h _ _ _ _ hx)

/-- the capture guard of `let` / `case` -/
theorem rel_guardedLvl (hR : StepRel R) {binders : List String} {ty : Option Fun.Ty} {site : String}
    {core : CwcFn} (hcore : ∀ c st s st', core c st = .ok (s, st') → R st st') :
    ∀ lvl c st s st', guardedLvl binders ty site core lvl c st = .ok (s, st') → R st st'
  | 0, c, st, s, st', h => by simp [guardedLvl_zero] at h
  | lvl + 1, c, st, s, st', h => by
    rw [guardedLvl_succ] at h
    split at h
    · cases ty with
      | none => simp at h
      | some t =>
        simp only [defaultCompile_eq] at h
        cases hx : guardedLvl binders (some t) site core lvl
            (.var .cns ⟨(freshCovar st).1, 0⟩ (compileTy t)) (freshCovar st).2 with
        | error e => simp [hx] at h
        | ok r =>
          obtain ⟨s1, st1⟩ := r
          simp only [hx, Except.ok.injEq, Prod.mk.injEq] at h
          obtain ⟨-, rfl⟩ := h
          exact hR.trans (hR.freshCovar st) (rel_guardedLvl hR hcore lvl _ _ _ _ hx)
    · exact hcore _ _ _ _ h

/-- forms whose `compile_with_cont` is `Cut(compile, cont)` -/
theorem relCwc_of_comp {t : Fun.Term} (hc : RelComp R t)
    (hcwc : ∀ c st, ∃ ty, compileWithCont t c st =
      (match compile t ty st with
        | .error e => .error e
        | .ok (p, st1) => .ok (.cut ty p c, st1)) ∨ (∃ e, compileWithCont t c st = .error e)) :
    RelCwc R t := by
  intro c st s st' h
  obtain ⟨ty, h1 | ⟨e, h1⟩⟩ := hcwc c st
  · rw [h1] at h
    cases hx : compile t ty st with
    | error e => simp [hx] at h
    | ok r =>
      obtain ⟨p, st1⟩ := r
      simp only [hx, Except.ok.injEq, Prod.mk.injEq] at h
      obtain ⟨-, rfl⟩ := h
      exact hc _ _ _ _ hx
  · rw [h1] at h; simp at h

mutual
theorem rel_term (hR : StepRel R) : ∀ t : Fun.Term, RelCwc R t ∧ RelComp R t
  | .var x ty chi => by
    refine ⟨fun c st s st' h => ?_, fun cty st p st' h => ?_⟩
    · rw [cwc_var] at h
      cases ty with
      | none => simp at h
      | some t =>
        simp only [Except.ok.injEq, Prod.mk.injEq] at h
        obtain ⟨-, rfl⟩ := h
        exact hR.refl _
    · rw [c_var] at h
      cases ty with
      | none => simp at h
      | some t =>
        simp only [Except.ok.injEq, Prod.mk.injEq] at h
        obtain ⟨-, rfl⟩ := h
        exact hR.refl _
  | .lit n => by
    refine ⟨fun c st s st' h => ?_, fun cty st p st' h => ?_⟩
    · rw [cwc_lit] at h
      simp only [Except.ok.injEq, Prod.mk.injEq] at h
      obtain ⟨-, rfl⟩ := h
      exact hR.refl _
    · rw [c_lit] at h
      simp only [Except.ok.injEq, Prod.mk.injEq] at h
      obtain ⟨-, rfl⟩ := h
      exact hR.refl _
  | .op a o b => by
    have ha := (rel_term hR a).2
    have hb := (rel_term hR b).2
    have hcomp : RelComp R (.op a o b) := by
      intro cty st p st' h
      rw [c_op] at h
      cases hx : compile a .i64 st with
      | error e => simp [hx] at h
      | ok r =>
        obtain ⟨fst, st1⟩ := r
        simp only [hx] at h
        cases hy : compile b .i64 st1 with
        | error e => simp [hy] at h
        | ok r =>
          obtain ⟨snd, st2⟩ := r
          simp only [hy, Except.ok.injEq, Prod.mk.injEq] at h
          obtain ⟨-, rfl⟩ := h
          exact hR.trans (ha _ _ _ _ hx) (hb _ _ _ _ hy)
    exact ⟨relCwc_of_comp hcomp (fun c st => ⟨.i64, .inl (cwc_op a o b c st)⟩), hcomp⟩
  | .ifc srt a b t e ty => by
    have ha := (rel_term hR a).2
    have hb := (rel_term hR b).2
    have ht := (rel_term hR t).1
    have he := (rel_term hR e).1
    have hcwc : RelCwc R (.ifc srt a b t e ty) := by
      intro c st s st' h
      rw [cwc_ifc] at h
      have h0 := stepRel_shareIf hR (isLeaf c) c st
      generalize (if isLeaf c then (c, st) else share c st) = r at h h0
      cases hx : compile a .i64 r.2 with
      | error e => simp [hx] at h
      | ok r1 =>
        obtain ⟨fst, st1⟩ := r1
        simp only [hx] at h
        cases hy : compile b .i64 st1 with
        | error e => simp [hy] at h
        | ok r2 =>
          obtain ⟨snd, st2⟩ := r2
          simp only [hy] at h
          cases hz : compileWithCont t r.1 st2 with
          | error e => simp [hz] at h
          | ok r3 =>
            obtain ⟨thenc, st3⟩ := r3
            simp only [hz] at h
            cases hw : compileWithCont e r.1 st3 with
            | error e => simp [hw] at h
            | ok r4 =>
              obtain ⟨elsec, st4⟩ := r4
              simp only [hw, Except.ok.injEq, Prod.mk.injEq] at h
              obtain ⟨-, rfl⟩ := h
              exact hR.trans h0 (hR.trans (ha _ _ _ _ hx) (hR.trans (hb _ _ _ _ hy)
                (hR.trans (ht _ _ _ _ hz) (he _ _ _ _ hw))))
    exact ⟨hcwc, relComp_default hR hcwc (fun _ _ => rfl)⟩
  | .ifz srt a t e ty => by
    have ha := (rel_term hR a).2
    have ht := (rel_term hR t).1
    have he := (rel_term hR e).1
    have hcwc : RelCwc R (.ifz srt a t e ty) := by
      intro c st s st' h
      rw [cwc_ifz] at h
      have h0 := stepRel_shareIf hR (isLeaf c) c st
      generalize (if isLeaf c then (c, st) else share c st) = r at h h0
      cases hx : compile a .i64 r.2 with
      | error e => simp [hx] at h
      | ok r1 =>
        obtain ⟨fst, st1⟩ := r1
        simp only [hx] at h
        cases hz : compileWithCont t r.1 st1 with
        | error e => simp [hz] at h
        | ok r3 =>
          obtain ⟨thenc, st3⟩ := r3
          simp only [hz] at h
          cases hw : compileWithCont e r.1 st3 with
          | error e => simp [hw] at h
          | ok r4 =>
            obtain ⟨elsec, st4⟩ := r4
            simp only [hw, Except.ok.injEq, Prod.mk.injEq] at h
            obtain ⟨-, rfl⟩ := h
            exact hR.trans h0 (hR.trans (ha _ _ _ _ hx)
              (hR.trans (ht _ _ _ _ hz) (he _ _ _ _ hw)))
    exact ⟨hcwc, relComp_default hR hcwc (fun _ _ => rfl)⟩
  | .print nl a n ty => by
    have ha := (rel_term hR a).2
    have hn := (rel_term hR n).1
    have hcwc : RelCwc R (.print nl a n ty) := by
      intro c st s st' h
      rw [cwc_print] at h
      cases hx : compile a .i64 st with
      | error e => simp [hx] at h
      | ok r1 =>
        obtain ⟨arg, st1⟩ := r1
        simp only [hx] at h
        cases hy : compileWithCont n c st1 with
        | error e => simp [hy] at h
        | ok r2 =>
          obtain ⟨next, st2⟩ := r2
          simp only [hy, Except.ok.injEq, Prod.mk.injEq] at h
          obtain ⟨-, rfl⟩ := h
          exact hR.trans (ha _ _ _ _ hx) (hn _ _ _ _ hy)
    exact ⟨hcwc, relComp_default hR hcwc (fun _ _ => rfl)⟩
  | .letIn x varTy bound body ty => by
    have hbc := (rel_term hR bound).1
    have hbp := (rel_term hR bound).2
    have hi := (rel_term hR body).1
    have hcwc : RelCwc R (.letIn x varTy bound body ty) := by
      intro c st s st' h
      rw [cwc_letIn] at h
      refine rel_guardedLvl hR ?_ _ _ _ _ _ h
      intro c st s st' h
      unfold letCore at h
      cases hx : compileWithCont body c st with
      | error e => simp [hx] at h
      | ok r1 =>
        obtain ⟨inStmt, st1⟩ := r1
        simp only [hx] at h
        split at h
        · cases hy : compile bound (compileTy varTy) st1 with
          | error e => simp [hy] at h
          | ok r2 =>
            obtain ⟨p, st2⟩ := r2
            simp only [hy, Except.ok.injEq, Prod.mk.injEq] at h
            obtain ⟨-, rfl⟩ := h
            exact hR.trans (hi _ _ _ _ hx) (hbp _ _ _ _ hy)
        · exact hR.trans (hi _ _ _ _ hx) (hbc _ _ _ _ h)
    exact ⟨hcwc, relComp_default hR hcwc (fun _ _ => rfl)⟩
  | .call name args retTy => by
    have hs := rel_subst hR args
    have hcwc : RelCwc R (.call name args retTy) := by
      intro c st s st' h
      rw [cwc_call] at h
      cases hx : compileSubst args st with
      | error e => simp [hx] at h
      | ok r1 =>
        obtain ⟨args', st1⟩ := r1
        simp only [hx] at h
        cases retTy with
        | none => simp at h
        | some t =>
          simp only [Except.ok.injEq, Prod.mk.injEq] at h
          obtain ⟨-, rfl⟩ := h
          exact hs _ _ _ hx
    exact ⟨hcwc, relComp_default hR hcwc (fun _ _ => rfl)⟩
  | .ctor id args ty => by
    have hs := rel_subst hR args
    have hcomp : RelComp R (.ctor id args ty) := by
      intro cty st p st' h
      rw [c_ctor] at h
      cases hx : compileSubst args st with
      | error e => simp [hx] at h
      | ok r1 =>
        obtain ⟨args', st1⟩ := r1
        simp only [hx] at h
        cases ty with
        | none => simp at h
        | some t =>
          simp only [Except.ok.injEq, Prod.mk.injEq] at h
          obtain ⟨-, rfl⟩ := h
          exact hs _ _ _ hx
    refine ⟨relCwc_of_comp hcomp ?_, hcomp⟩
    intro c st
    cases ty with
    | none => exact ⟨.i64, .inr ⟨_, rfl⟩⟩
    | some t => exact ⟨compileTy t, .inl (cwc_ctor id args (some t) c st)⟩
  | .dtor scrutinee id tyArgs args ty => by
    have hs := rel_subst hR args
    have hsc := (rel_term hR scrutinee).1
    have hcwc : RelCwc R (.dtor scrutinee id tyArgs args ty) := by
      intro c st s st' h
      rw [cwc_dtor] at h
      cases hx : compileSubst args st with
      | error e => simp [hx] at h
      | ok r1 =>
        obtain ⟨args', st1⟩ := r1
        simp only [hx] at h
        cases hg : getType scrutinee with
        | none => simp [hg] at h
        | some t =>
          simp only [hg] at h
          exact hR.trans (hs _ _ _ hx) (hsc _ _ _ _ h)
    exact ⟨hcwc, relComp_default hR hcwc (fun _ _ => rfl)⟩
  | .case scrutinee tyArgs clauses ty => by
    have hcl := rel_clauses hR clauses
    have hsc := (rel_term hR scrutinee).1
    have hcwc : RelCwc R (.case scrutinee tyArgs clauses ty) := by
      intro c st s st' h
      rw [cwc_case] at h
      refine rel_guardedLvl hR ?_ _ _ _ _ _ h
      intro c st s st' h
      unfold caseCore at h
      have h0 := stepRel_shareIf hR (decide (clausesLen clauses ≤ 1) || isLeaf c) c st
      generalize (if (decide (clausesLen clauses ≤ 1) || isLeaf c) = true then (c, st)
        else share c st) = r at h h0
      cases hx : compileClauses clauses r.1 r.2 with
      | error e => simp [hx] at h
      | ok r1 =>
        obtain ⟨cs, st1⟩ := r1
        simp only [hx] at h
        cases hg : getType scrutinee with
        | none => simp [hg] at h
        | some t =>
          simp only [hg] at h
          exact hR.trans h0 (hR.trans (hcl _ _ _ _ hx) (hsc _ _ _ _ h))
    exact ⟨hcwc, relComp_default hR hcwc (fun _ _ => rfl)⟩
  | .new clauses ty => by
    have hs := rel_coclauses hR clauses
    have hcomp : RelComp R (.new clauses ty) := by
      intro cty st p st' h
      rw [c_new] at h
      cases hx : compileCoclauses clauses st with
      | error e => simp [hx] at h
      | ok r1 =>
        obtain ⟨cs, st1⟩ := r1
        simp only [hx] at h
        cases ty with
        | none => simp at h
        | some t =>
          simp only [Except.ok.injEq, Prod.mk.injEq] at h
          obtain ⟨-, rfl⟩ := h
          exact hs _ _ _ hx
    refine ⟨relCwc_of_comp hcomp ?_, hcomp⟩
    intro c st
    cases ty with
    | none => exact ⟨.i64, .inr ⟨_, rfl⟩⟩
    | some t => exact ⟨compileTy t, .inl (cwc_new clauses (some t) c st)⟩
  | .goto target t ty => by
    have ht := (rel_term hR t).1
    have hcwc : RelCwc R (.goto target t ty) := by
      intro c st s st' h
      rw [cwc_goto] at h
      cases hg : getType t with
      | none => simp [hg] at h
      | some gty => simp only [hg] at h; exact ht _ _ _ _ h
    exact ⟨hcwc, relComp_default hR hcwc (fun _ _ => rfl)⟩
  | .label a t ty => by
    have ht := (rel_term hR t).1
    have hcomp : RelComp R (.label a t ty) := by
      intro cty st p st' h
      rw [c_label] at h
      cases ty with
      | none => simp at h
      | some lty =>
        simp only at h
        cases hx : compileWithCont t (.var .cns ⟨a, 0⟩ (compileTy lty)) st with
        | error e => simp [hx] at h
        | ok r1 =>
          obtain ⟨s, st1⟩ := r1
          simp only [hx, Except.ok.injEq, Prod.mk.injEq] at h
          obtain ⟨-, rfl⟩ := h
          exact ht _ _ _ _ hx
    refine ⟨relCwc_of_comp hcomp ?_, hcomp⟩
    intro c st
    cases ty with
    | none => exact ⟨.i64, .inr ⟨_, rfl⟩⟩
    | some t' => exact ⟨compileTy t', .inl (cwc_label a t (some t') c st)⟩
  | .exit arg ty => by
    have ha := (rel_term hR arg).2
    have hcwc : RelCwc R (.exit arg ty) := by
      intro c st s st' h
      rw [cwc_exit] at h
      cases hx : compile arg .i64 st with
      | error e => simp [hx] at h
      | ok r1 =>
        obtain ⟨a, st1⟩ := r1
        simp only [hx] at h
        cases ty with
        | none => simp at h
        | some t =>
          simp only [Except.ok.injEq, Prod.mk.injEq] at h
          obtain ⟨-, rfl⟩ := h
          exact ha _ _ _ _ hx
    exact ⟨hcwc, relComp_default hR hcwc (fun _ _ => rfl)⟩
  | .paren inner => by
    have hi := rel_term hR inner
    exact ⟨fun c st s st' h => hi.1 _ _ _ _ (by rw [cwc_paren] at h; exact h),
      fun cty st p st' h => hi.2 _ _ _ _ (by rw [c_paren] at h; exact h)⟩
theorem rel_subst (hR : StepRel R) : ∀ args : Fun.Terms, RelSubst R args
  | .nil => by
    intro st as st' h
    rw [subst_nil] at h
    simp only [Except.ok.injEq, Prod.mk.injEq] at h
    obtain ⟨-, rfl⟩ := h
    exact hR.refl _
  | .cons term rest => by
    have ht := (rel_term hR term).2
    have hr := rel_subst hR rest
    intro st as st' h
    rw [subst_cons] at h
    cases hc : covarArg term with
    | some xt =>
      obtain ⟨x, ty⟩ := xt
      simp only [hc] at h
      cases ty with
      | none => simp at h
      | some t =>
        simp only at h
        cases hx : compileSubst rest st with
        | error e => simp [hx] at h
        | ok r1 =>
          obtain ⟨r, st1⟩ := r1
          simp only [hx, Except.ok.injEq, Prod.mk.injEq] at h
          obtain ⟨-, rfl⟩ := h
          exact hr _ _ _ hx
    | none =>
      simp only [hc] at h
      cases hg : getType term with
      | none => simp [hg] at h
      | some t =>
        simp only [hg] at h
        cases hx : compile term (compileTy t) st with
        | error e => simp [hx] at h
        | ok r1 =>
          obtain ⟨p, st1⟩ := r1
          simp only [hx] at h
          cases hy : compileSubst rest st1 with
          | error e => simp [hy] at h
          | ok r2 =>
            obtain ⟨r, st2⟩ := r2
            simp only [hy, Except.ok.injEq, Prod.mk.injEq] at h
            obtain ⟨-, rfl⟩ := h
            exact hR.trans (ht _ _ _ _ hx) (hr _ _ _ hy)
theorem rel_clauses (hR : StepRel R) : ∀ cs : Fun.Clauses, RelClauses R cs
  | .nil => by
    intro cont st cs' st' h
    rw [clauses_nil] at h
    simp only [Except.ok.injEq, Prod.mk.injEq] at h
    obtain ⟨-, rfl⟩ := h
    exact hR.refl _
  | .cons pol xtor names ctx body rest => by
    have hb := (rel_term hR body).1
    have hr := rel_clauses hR rest
    intro cont st cs' st' h
    rw [clauses_cons] at h
    cases hx : compileWithCont body cont st with
    | error e => simp [hx] at h
    | ok r1 =>
      obtain ⟨b, st1⟩ := r1
      simp only [hx] at h
      cases hy : compileClauses rest cont st1 with
      | error e => simp [hy] at h
      | ok r2 =>
        obtain ⟨r, st2⟩ := r2
        simp only [hy, Except.ok.injEq, Prod.mk.injEq] at h
        obtain ⟨-, rfl⟩ := h
        exact hR.trans (hb _ _ _ _ hx) (hr _ _ _ _ hy)
theorem rel_coclauses (hR : StepRel R) : ∀ cs : Fun.Clauses, RelCoclauses R cs
  | .nil => by
    intro st cs' st' h
    rw [coclauses_nil] at h
    simp only [Except.ok.injEq, Prod.mk.injEq] at h
    obtain ⟨-, rfl⟩ := h
    exact hR.refl _
  | .cons pol xtor names ctx body rest => by
    have hb := (rel_term hR body).1
    have hr := rel_coclauses hR rest
    intro st cs' st' h
    rw [coclauses_cons] at h
    cases hg : getType body with
    | none => simp [hg] at h
    | some t =>
      simp only [hg] at h
      cases hx : compileWithCont body (.var .cns ⟨(freshCovar st).1, 0⟩ (compileTy t))
          (freshCovar st).2 with
      | error e => simp [hx] at h
      | ok r1 =>
        obtain ⟨b, st1⟩ := r1
        simp only [hx] at h
        cases hy : compileCoclauses rest st1 with
        | error e => simp [hy] at h
        | ok r2 =>
          obtain ⟨r, st2⟩ := r2
          simp only [hy, Except.ok.injEq, Prod.mk.injEq] at h
          obtain ⟨-, rfl⟩ := h
          exact hR.trans (hR.freshCovar st) (hR.trans (hb _ _ _ _ hx) (hr _ _ _ hy))
end

end Scc.Fun2Core
