/-
  Scc.Fun2Core.Fresh — post-condition of `fresh_name` (fun/src/syntax/names.rs) on the list model,
  and the freshness invariant of the translation: the used-variable set and the used-label set
  only grow, by pairwise distinct names that were not in the set before; the definitions lifted by
  `share` are named exactly by the labels generated.
-/
import Scc.Fun2Core.Frame
import Std.Data.String.ToNat

namespace Scc.Fun2Core
open Scc

/-! ## fresh_name -/

theorem candidate_inj (base : String) {n m : Nat}
    (h : base ++ toString n = base ++ toString m) : n = m :=
  Nat.repr_injective ((String.append_right_inj base).1 h)

/-- if the loop returns a used name then all `fuel + 1` candidates from `n` on are used -/
theorem freshNameLoop_bad (used : List String) (base : String) :
    ∀ fuel n, freshNameLoop used base fuel n ∈ used →
      ∀ i, i ≤ fuel → base ++ toString (n + i) ∈ used
  | 0, n, h, i, hi => by
    have : i = 0 := by omega
    subst this
    simpa [freshNameLoop] using h
  | fuel + 1, n, h, i, hi => by
    unfold freshNameLoop at h
    by_cases hc : used.contains (base ++ toString n) = true
    · simp only [hc, if_true] at h
      cases i with
      | zero => simpa using hc
      | succ j =>
        have := freshNameLoop_bad used base fuel (n + 1) h j (by omega)
        have e : n + 1 + j = n + (j + 1) := by omega
        rwa [e] at this
    · simp only [hc] at h
      simp at hc
      simp at h
      exact absurd h hc

/-- names.rs `fresh_name`: the returned name is not in `used` (pigeonhole on |used| + 2
pairwise distinct candidates) -/
theorem freshName_not_mem (used : List String) (base : String) :
    (freshName used base).1 ∉ used := by
  intro h
  have hall := freshNameLoop_bad used base (used.length + 1) 0 h
  let cands := (List.range (used.length + 2)).map fun i => base ++ toString i
  have hnd : cands.Nodup := by
    refine List.Pairwise.map _ ?_ List.nodup_range
    intro a b hab h
    exact hab (candidate_inj base h)
  have hsub : cands ⊆ used := by
    intro x hx
    simp only [cands, List.mem_map, List.mem_range] at hx
    obtain ⟨i, hi, rfl⟩ := hx
    have := hall i (by omega)
    simpa using this
  have := List.Nodup.length_le_of_subset hnd hsub
  simp [cands] at this
  omega

theorem freshName_snd (used : List String) (base : String) :
    (freshName used base).2 = (freshName used base).1 :: used := rfl

/-! ## extension of a name set by fresh names -/

/-- `l'` is `l` extended (in front) by pairwise distinct names not in `l` -/
def Ext (l l' : List String) : Prop :=
  ∃ g, l' = g ++ l ∧ g.Nodup ∧ ∀ x ∈ g, x ∉ l

theorem Ext.refl (l : List String) : Ext l l := ⟨[], by simp⟩

theorem Ext.trans {a b c : List String} (h1 : Ext a b) (h2 : Ext b c) : Ext a c := by
  obtain ⟨g1, rfl, n1, d1⟩ := h1
  obtain ⟨g2, rfl, n2, d2⟩ := h2
  refine ⟨g2 ++ g1, by simp, ?_, ?_⟩
  · rw [List.nodup_append]
    refine ⟨n2, n1, ?_⟩
    intro x hx y hy hxy
    subst hxy
    exact d2 x hx (by simp [hy])
  · intro x hx
    rcases List.mem_append.1 hx with h | h
    · exact fun hl => d2 x h (by simp [hl])
    · exact d1 x h

theorem Ext.fresh (l : List String) (base : String) : Ext l (freshName l base).2 :=
  ⟨[(freshName l base).1], by simp [freshName_snd], by simp, by
    intro x hx; simp at hx; subst hx; exact freshName_not_mem l base⟩

theorem Ext.subset {l l' : List String} (h : Ext l l') : l ⊆ l' := by
  obtain ⟨g, rfl, -, -⟩ := h
  intro x hx; simp [hx]

theorem Ext.nodup {l l' : List String} (h : Ext l l') (hl : l.Nodup) : l'.Nodup := by
  obtain ⟨g, rfl, n, d⟩ := h
  rw [List.nodup_append]
  exact ⟨n, hl, fun x hx y hy hxy => d x hx (hxy ▸ hy)⟩

/-! ## the freshness invariant of the translation -/

/-- identifier with id 0 (`Identifier::new`) -/
def ident0 (n : String) : Core.Ident := ⟨n, 0⟩

/-- relation between the state before and after a piece of the translation -/
structure Fresh (st st' : CompileState) : Prop where
  codata : st'.codataTypes = st.codataTypes
  label : st'.currentLabel = st.currentLabel
  /-- generated (co)variable names are new and pairwise distinct -/
  vars : Ext st.usedVars st'.usedVars
  /-- generated labels are new and pairwise distinct, and name exactly the lifted definitions -/
  labels : ∃ gl new, st'.usedLabels = gl ++ st.usedLabels ∧ gl.Nodup ∧ (∀ x ∈ gl, x ∉ st.usedLabels) ∧
    st'.liftedStatements = new ++ st.liftedStatements ∧
    new.map (·.name) = gl.map ident0

theorem Fresh.refl (st : CompileState) : Fresh st st :=
  ⟨rfl, rfl, Ext.refl _, [], [], by simp⟩

theorem Fresh.trans {a b c : CompileState} (h1 : Fresh a b) (h2 : Fresh b c) : Fresh a c := by
  obtain ⟨c1, l1, v1, gl1, new1, e1, n1, d1, f1, m1⟩ := h1
  obtain ⟨c2, l2, v2, gl2, new2, e2, n2, d2, f2, m2⟩ := h2
  refine ⟨c2.trans c1, l2.trans l1, v1.trans v2, gl2 ++ gl1, new2 ++ new1, by simp [e2, e1], ?_, ?_,
    by simp [f2, f1], by simp [m2, m1]⟩
  · rw [List.nodup_append]
    refine ⟨n2, n1, ?_⟩
    intro x hx y hy hxy
    subst hxy
    exact d2 x hx (by simp [e1, hy])
  · intro x hx
    rcases List.mem_append.1 hx with h | h
    · exact fun hl => d2 x h (by simp [e1, hl])
    · exact d1 x h

theorem fresh_freshVar (st : CompileState) : Fresh st (freshVar st).2 :=
  ⟨rfl, rfl, Ext.fresh _ _, [], [], by simp [freshVar]⟩

theorem fresh_freshCovar (st : CompileState) : Fresh st (freshCovar st).2 :=
  ⟨rfl, rfl, Ext.fresh _ _, [], [], by simp [freshCovar]⟩

theorem fresh_share (c : Core.Term) (st : CompileState) : Fresh st (share c st).2 := by
  unfold share
  split
  · refine ⟨rfl, rfl, Ext.refl _, [_], [_], rfl, by simp, ?_, rfl, rfl⟩
    intro x hx; simp at hx; subst hx; exact freshName_not_mem _ _
  · refine ⟨rfl, rfl, Ext.fresh _ _, [_], [_], rfl, by simp, ?_, rfl, rfl⟩
    intro x hx; simp at hx; subst hx; exact freshName_not_mem _ _

theorem fresh_stepRel : StepRel Fresh :=
  ⟨Fresh.refl, Fresh.trans, fresh_freshVar, fresh_freshCovar, fresh_share⟩

/-- the freshness invariant holds across `compile_with_cont` of any term -/
theorem compileWithCont_fresh {t : Fun.Term} {c st s st'}
    (h : compileWithCont t c st = .ok (s, st')) : Fresh st st' :=
  (rel_term fresh_stepRel t).1 c st s st' h

theorem compile_fresh {t : Fun.Term} {ty st p st'}
    (h : compile t ty st = .ok (p, st')) : Fresh st st' :=
  (rel_term fresh_stepRel t).2 ty st p st' h


/-! ## the used-names set of a definition contains its parameters and all its binders -/

theorem mem_setInsert {x y : String} {s : List String} : x ∈ setInsert y s ↔ x = y ∨ x ∈ s := by
  unfold setInsert
  split
  · rename_i h
    have : y ∈ s := by simpa using h
    constructor
    · exact fun h => .inr h
    · rintro (rfl | h) <;> assumption
  · simp

theorem mem_foldl_setInsert {x : String} (l : List String) (s : List String) :
    x ∈ l.foldl (fun acc n => setInsert n acc) s ↔ x ∈ l ∨ x ∈ s := by
  induction l generalizing s with
  | nil => simp
  | cons a l ih => simp [ih, mem_setInsert] <;> grind

theorem mem_ctxVars {x : String} (ctx : Fun.Ctx) : x ∈ ctxVars ctx ↔ ∃ b ∈ ctx, b.var = x := by
  unfold ctxVars
  suffices h : ∀ s, x ∈ ctx.foldl (fun acc b => setInsert b.var acc) s ↔ (∃ b ∈ ctx, b.var = x) ∨ x ∈ s by
    simpa using h []
  induction ctx with
  | nil => simp
  | cons a l ih =>
    intro s
    simp only [List.foldl_cons, ih, mem_setInsert, List.mem_cons, exists_eq_or_imp]
    constructor
    · rintro (h | rfl | h) <;> simp_all
    · rintro ((rfl | h) | h) <;> simp_all

mutual
  /-- the binders of a term: `let` variables, labels, clause binders (what `used_binders` collects) -/
  def binderNames : Fun.Term → List String
    | .var _ _ _ => []
    | .lit _ => []
    | .op a _ b => binderNames a ++ binderNames b
    | .ifc _ a b t e _ => binderNames a ++ binderNames b ++ binderNames t ++ binderNames e
    | .ifz _ a t e _ => binderNames a ++ binderNames t ++ binderNames e
    | .print _ a n _ => binderNames a ++ binderNames n
    | .letIn x _ b i _ => x :: (binderNames b ++ binderNames i)
    | .call _ args _ => binderNamesArgs args
    | .ctor _ args _ => binderNamesArgs args
    | .dtor s _ _ args _ => binderNames s ++ binderNamesArgs args
    | .case s _ cs _ => binderNames s ++ binderNamesClauses cs
    | .new cs _ => binderNamesClauses cs
    | .goto _ t _ => binderNames t
    | .label a t _ => a :: binderNames t
    | .exit t _ => binderNames t
    | .paren t => binderNames t
  def binderNamesArgs : Fun.Terms → List String
    | .nil => []
    | .cons t r => binderNames t ++ binderNamesArgs r
  def binderNamesClauses : Fun.Clauses → List String
    | .nil => []
    | .cons _ _ names _ body rest => names ++ binderNames body ++ binderNamesClauses rest
end

mutual
theorem mem_usedBinders {x : String} : ∀ (t : Fun.Term) (u : List String),
    x ∈ usedBinders t u ↔ x ∈ binderNames t ∨ x ∈ u
  | .var _ _ _, u => by simp [usedBinders, binderNames]
  | .lit _, u => by simp [usedBinders, binderNames]
  | .op a _ b, u => by
    simp [usedBinders, binderNames, mem_usedBinders a, mem_usedBinders b] <;> grind
  | .ifc _ a b t e _, u => by
    simp [usedBinders, binderNames, mem_usedBinders a, mem_usedBinders b, mem_usedBinders t,
      mem_usedBinders e] <;> grind
  | .ifz _ a t e _, u => by
    simp [usedBinders, binderNames, mem_usedBinders a, mem_usedBinders t, mem_usedBinders e] <;> grind
  | .print _ a n _, u => by
    simp [usedBinders, binderNames, mem_usedBinders a, mem_usedBinders n] <;> grind
  | .letIn y _ b i _, u => by
    simp [usedBinders, binderNames, mem_usedBinders b, mem_usedBinders i, mem_setInsert] <;> grind
  | .call _ args _, u => by simp [usedBinders, binderNames, mem_usedBindersArgs args]
  | .ctor _ args _, u => by simp [usedBinders, binderNames, mem_usedBindersArgs args]
  | .dtor s _ _ args _, u => by
    simp [usedBinders, binderNames, mem_usedBinders s, mem_usedBindersArgs args] <;> grind
  | .case s _ cs _, u => by
    simp [usedBinders, binderNames, mem_usedBinders s, mem_usedBindersClauses cs] <;> grind
  | .new cs _, u => by simp [usedBinders, binderNames, mem_usedBindersClauses cs]
  | .goto _ t _, u => by simp [usedBinders, binderNames, mem_usedBinders t]
  | .label a t _, u => by
    simp [usedBinders, binderNames, mem_usedBinders t, mem_setInsert] <;> grind
  | .exit t _, u => by simp [usedBinders, binderNames, mem_usedBinders t]
  | .paren t, u => by simp [usedBinders, binderNames, mem_usedBinders t]
theorem mem_usedBindersArgs {x : String} : ∀ (a : Fun.Terms) (u : List String),
    x ∈ usedBindersArgs a u ↔ x ∈ binderNamesArgs a ∨ x ∈ u
  | .nil, u => by simp [usedBindersArgs, binderNamesArgs]
  | .cons t r, u => by
    simp [usedBindersArgs, binderNamesArgs, mem_usedBinders t, mem_usedBindersArgs r] <;> grind
theorem mem_usedBindersClauses {x : String} : ∀ (c : Fun.Clauses) (u : List String),
    x ∈ usedBindersClauses c u ↔ x ∈ binderNamesClauses c ∨ x ∈ u
  | .nil, u => by simp [usedBindersClauses, binderNamesClauses]
  | .cons _ _ names _ body rest, u => by
    simp [usedBindersClauses, binderNamesClauses, mem_usedBinders body,
      mem_usedBindersClauses rest, mem_foldl_setInsert] <;> grind
end

/-! ## definitions and programs -/

/-- post-condition of `compile_def` / `compile_main` on labels and definition names -/
def DefNamesOK (d : Fun.Def) (l : List String) (r : List Core.Def × List String) : Prop :=
  ∃ gl, r.2 = gl ++ l ∧ gl.Nodup ∧ (∀ x ∈ gl, x ∉ l) ∧
    r.1.map (·.name) = ident0 d.name :: gl.map ident0

theorem fresh_init_labels {st st' : CompileState} (h : Fresh st st') (h0 : st.liftedStatements = []) :
    ∃ gl, st'.usedLabels = gl ++ st.usedLabels ∧ gl.Nodup ∧ (∀ x ∈ gl, x ∉ st.usedLabels) ∧
      st'.liftedStatements.map (·.name) = gl.map ident0 := by
  obtain ⟨gl, new, e, n, d, f, m⟩ := h.labels
  refine ⟨gl, e, n, d, ?_⟩
  rw [f, h0]; simpa using m

theorem compileDef_names {d cts l r} (h : compileDef d cts l = .ok r) : DefNamesOK d l r := by
  unfold compileDef at h
  simp only at h
  split at h
  · simp at h
  · split at h
    · simp at h
    · rename_i body st' hx
      simp only [Except.ok.injEq] at h
      subst h
      have hf := (fresh_freshCovar _).trans (compileWithCont_fresh hx)
      obtain ⟨gl, e, n, dj, m⟩ := fresh_init_labels hf rfl
      exact ⟨gl, e, n, dj, by simp [m, ident0]⟩

theorem compileMain_names {d cts l r} (h : compileMain d cts l = .ok r) : DefNamesOK d l r := by
  unfold compileMain at h
  simp only at h
  split at h
  · simp at h
  · split at h
    · simp at h
    · rename_i body st' hx
      simp only [Except.ok.injEq] at h
      subst h
      have hf := (fresh_freshVar _).trans (compileWithCont_fresh hx)
      obtain ⟨gl, e, n, dj, m⟩ := fresh_init_labels hf rfl
      exact ⟨gl, e, n, dj, by simp [m, ident0]⟩

theorem ident0_inj {a b : String} (h : ident0 a = ident0 b) : a = b := by
  simpa [ident0] using h

theorem perm_aux {α : Type} (A G R : List α) (d : α) :
    ((A ++ d :: G) ++ R).Perm (G ++ (A ++ d :: R)) := by
  simp only [List.append_assoc, List.cons_append]
  refine (List.Perm.append_left A (List.perm_middle (l₁ := G)).symm).trans ?_
  rw [← List.append_assoc, ← List.append_assoc]
  exact List.Perm.append_right _ List.perm_append_comm

/-- the loop of `compile_prog`: if the names of the definitions translated so far and of those
still to be translated are pairwise distinct and all in `used_labels`, then the names of the
result are pairwise distinct -/
theorem compileDefs_nodup (cts : List Core.TypeDecl) :
    ∀ (rest : List Fun.Def) (l : List String) (acc out : List Core.Def),
      compileDefs cts rest l acc = .ok out →
      (acc.map (·.name) ++ rest.map (fun d => ident0 d.name)).Nodup →
      (∀ i ∈ acc.map (·.name), ∃ n ∈ l, i = ident0 n) →
      (∀ d ∈ rest, d.name ∈ l) →
      (out.map (·.name)).Nodup
  | [], l, acc, out, h, hn, _, _ => by
    simp only [compileDefs, Except.ok.injEq] at h
    subst h; simpa using hn
  | d :: rest, l, acc, out, h, hn, ha, hr => by
    unfold compileDefs at h
    have key : ∀ (r : List Core.Def × List String) (acc' : List Core.Def), DefNamesOK d l r →
        (acc'.map (·.name)).Perm ((acc.map (·.name)) ++ r.1.map (·.name)) →
        compileDefs cts rest r.2 acc' = .ok out → (out.map (·.name)).Nodup := by
      intro r acc' hok hperm hrec
      obtain ⟨gl, e, n, dj, m⟩ := hok
      refine compileDefs_nodup cts rest r.2 acc' out hrec ?_ ?_ ?_
      · have hp : (acc'.map (·.name) ++ rest.map (fun d => ident0 d.name)).Perm
            (gl.map ident0 ++ (acc.map (·.name) ++ (ident0 d.name :: rest.map (fun d => ident0 d.name)))) := by
          refine (List.Perm.append_right _ hperm).trans ?_
          rw [m]
          exact perm_aux _ _ _ _
        rw [hp.nodup_iff, List.nodup_append]
        refine ⟨?_, by simpa using hn, ?_⟩
        · exact List.Pairwise.map _ (fun a b hab h => hab (ident0_inj h)) n
        · intro x hx y hy hxy
          subst hxy
          obtain ⟨g, hg, rfl⟩ := List.mem_map.1 hx
          rcases List.mem_append.1 hy with h1 | h1
          · obtain ⟨n', hn', e'⟩ := ha _ h1
            exact dj g hg (ident0_inj e' ▸ hn')
          · rcases List.mem_cons.1 h1 with h2 | h2
            · exact dj g hg (ident0_inj h2 ▸ hr d (by simp))
            · obtain ⟨d', hd', e'⟩ := List.mem_map.1 h2
              exact dj g hg (ident0_inj e' ▸ hr d' (by simp [hd']))
      · intro i hi
        have := (hperm.mem_iff).1 hi
        rcases List.mem_append.1 this with h1 | h1
        · obtain ⟨n', hn', e'⟩ := ha _ h1
          exact ⟨n', by simp [e, hn'], e'⟩
        · rw [m] at h1
          rcases List.mem_cons.1 h1 with h2 | h2
          · exact ⟨d.name, by simp [e, hr d (by simp)], h2⟩
          · obtain ⟨g, hg, rfl⟩ := List.mem_map.1 h2
            exact ⟨g, by simp [e, hg], rfl⟩
      · intro d' hd'
        simp [e, hr d' (by simp [hd'])]
    split at h
    · cases hm : compileMain d cts l with
      | error e => simp [hm] at h
      | ok r =>
        simp only [hm] at h
        refine key r _ (compileMain_names hm) ?_ h
        simp only [List.map_append]
        exact List.perm_append_comm
    · cases hm : compileDef d cts l with
      | error e => simp [hm] at h
      | ok r =>
        simp only [hm] at h
        refine key r _ (compileDef_names hm) ?_ h
        simp only [List.map_append]
        exact List.Perm.refl _


/-! ## the capture guard re-enters at most once when the binders are in the used-names set -/

theorem bindersOccurFree_var (binders : List String) (a : String) (ty : Core.Ty) :
    bindersOccurFree binders (.var .cns ⟨a, 0⟩ ty) = binders.contains a := by
  simp [bindersOccurFree, tfvTerm, bsetInsert]

/-- In every real run the binders of a `let` / `case` are in the used-names set
(`C02_used_set_covers_def`, and the set only grows).  Then the fresh covariable of the guard's
`self.compile` is not a binder, the re-entered `compile_with_cont` takes the unguarded path, and
the guard is exactly
`if binders_occur_free(binders, c) { ⟨μa.core(a) | c⟩ } else { core(c) }`;
in particular the fuel of `guardedLvl` is never exhausted. -/
theorem guarded_eq_of_binders_used (binders : List String) (ty : Option Fun.Ty) (site : String)
    (core : CwcFn) (c : Core.Term) (st : CompileState) (hb : ∀ x ∈ binders, x ∈ st.usedVars) :
    guarded binders ty site core c st =
      (if bindersOccurFree binders c then
        match ty with
        | none => .error (noTy site)
        | some t =>
          match core (.var .cns ⟨(freshCovar st).1, 0⟩ (compileTy t)) (freshCovar st).2 with
          | .error e => .error e
          | .ok (s, st1) =>
            .ok (.cut (compileTy t) (.mu .prd ⟨(freshCovar st).1, 0⟩ (compileTy t) s) c, st1)
      else core c st) := by
  have hfresh : binders.contains (freshCovar st).1 = false := by
    have : (freshCovar st).1 ∉ binders := fun h => freshName_not_mem _ _ (hb _ h)
    simpa using this
  unfold guarded
  rw [guardedLvl_succ]
  split
  · cases ty with
    | none => rfl
    | some t =>
      simp only [defaultCompile_eq, guardedLvl_succ, bindersOccurFree_var, hfresh]
      simp only [Bool.false_eq_true, if_false]
      cases core (.var .cns ⟨(freshCovar st).1, 0⟩ (compileTy t)) (freshCovar st).2 with
      | error e => rfl
      | ok r => rfl
  · rfl

end Scc.Fun2Core
