/-
  Scc.Fun2Core.SemCod5 — codata values in evaluation position: a variable of a codata type and a
  `new`.  The Fun machine returns the closure to the stack (top frame: a destructor); the Core
  machine forces the consumer (`force_cr`) and sends the destructor to the closure (`ret_cd`).
-/
import Scc.Fun2Core.SemSim6

namespace Scc.Fun2Core.Sem
open Scc Scc.Fun2Core.Typed

variable {q : Core.Prog} {p : Fun.CheckedProgram}

theorem Compiled.sig_lt' {i m : Nat} {t : Fun.Term} {c : Core.Term} {T : Core.Stmt}
    (h : Compiled q i t c T) (him : i ≤ m) : ∀ b ∈ tfvTerm c [], b.var.name = sig → b.var.id < m := by
  obtain ⟨st, st', _, _, _, h4⟩ := h
  exact h4.sig_lt him

/-- a variable of a codata type in evaluation position -/
theorem eval_var_cd (X : Ctx p q) {x : String} {vty : Option Fun.Ty} {chi : Option Fun.Chi}
    {env : Fun.Env} {k : Fun.Stack} {c : Core.Term} {s : Core.Stmt} {ρ0 ρ : CEnv} {out : Out} {n : Nat}
    (hc : Compiled q n (.var x vty chi) c s)
    (he : EnvRel (GP p) p q n (fv (.var x vty chi)) env ρ0) (hr : CRel (GP p) p q n k c ρ0)
    (hag : AgreeOn (tfvStmt s []) ρ0 ρ)
    (hT : STM p (.eval (.var x vty chi) env k)) (hkk : kkind k = true) :
    Chunk p q (R p q) true true μ (.eval (.var x vty chi) env k) ⟨s, ρ, out, n⟩ := by
  obtain ⟨st, st', hcwc, hst, htn, hcn⟩ := hc
  rw [cwc_var] at hcwc
  cases vty with
  | none => simp at hcwc
  | some t0 =>
    simp only [Except.ok.injEq, Prod.mk.injEq] at hcwc
    obtain ⟨rfl, rfl⟩ := hcwc
    have hcd : Core.isCodata q.codataTypes (compileTy t0) = true := by
      obtain ⟨τ2, h1, h2⟩ := X.kind hT
      simp only [getType, Option.some.injEq] at h1
      subst h1
      rw [h2, hkk]
    have hck : Core.isCodata q.codataTypes (coreGetType c) = true := by rw [← hr.kk]; exact hkk
    obtain ⟨v, V, h1, h2, h3⟩ := he.get (y := x) (by simp [fv])
    have hl : Core.Env.lookup ρ ⟨x, 0⟩ = .ok V := by
      rw [hag ⟨⟨x, 0⟩, .prd, compileTy t0⟩ (mem_tfv_cut.2 (.inl (mem_tfv_var.2 rfl)))]
      exact h2
    have hxs : (⟨x, 0⟩ : Core.Ident).name = sig → (⟨x, 0⟩ : Core.Ident).id < n := fun e =>
      absurd e (htn.fv_ne_sig x (by simp [fv]))
    have hstep : Fun.step p (.eval (.var x (some t0) chi) env k) = .next (.ret v k) none := by
      simp [Fun.step, Fun.evalStep, h1]
    have f1 : FSteps p (.eval (.var x (some t0) chi) env k) (.ret v k) [] 1 := .one hstep
    obtain ⟨i, S1, ρ', pv, d, Vs, hcs, ho, hm1, hext, hpv, hs, hk⟩ :=
      force_cr X hr hck (cty := compileTy t0) (P := .var .prd ⟨x, 0⟩ (compileTy t0)) (ρ := ρ) (out := out)
        (m := n) hcd trivial (Nat.le_refl n) (hag.mono fun y hy => mem_tfv_cut.2 (.inr hy))
        (prdOK_var hl hxs)
    have hpvV : pv = V := by
      simp only [Core.prdVal] at hpv
      rw [hext.lookup _ hxs, hl] at hpv
      exact (Except.ok.inj hpv).symm
    subst hpvV
    have hT' : STM p (.ret v k) := stepM_preserves X.progM hT hstep
    exact Chunk.prefix f1 hcs ho (fun _ => Nat.le_refl 1) (fun h => .inr h)
      (ret_cd X hk (h3.mono hm1) (Nat.le_refl _) hs hT').weaken

/-- `new { … }` in evaluation position -/
theorem eval_new (X : Ctx p q) {cs : Fun.Clauses} {nty : Option Fun.Ty}
    {env : Fun.Env} {k : Fun.Stack} {c : Core.Term} {s : Core.Stmt} {ρ0 ρ : CEnv} {out : Out} {n : Nat}
    (hg : good p (.new cs nty) = true) (hc : Compiled q n (.new cs nty) c s)
    (he : EnvRel (GP p) p q n (fv (.new cs nty)) env ρ0) (hr : CRel (GP p) p q n k c ρ0)
    (hbd : BoundOn (tfvStmt s []) ρ0) (hag : AgreeOn (tfvStmt s []) ρ0 ρ)
    (hT : STM p (.eval (.new cs nty) env k)) :
    Chunk p q (R p q) true true μ (.eval (.new cs nty) env k) ⟨s, ρ, out, n⟩ := by
  simp only [good, Bool.and_eq_true] at hg
  obtain ⟨st, st', hcwc, hst, htn, hcn⟩ := hc
  rw [cwc_new] at hcwc
  cases nty with
  | none => simp at hcwc
  | some t0 =>
    simp only at hcwc
    cases hcP : compile (.new cs (some t0)) (compileTy t0) st with
    | error e => simp [hcP] at hcwc
    | ok r =>
      obtain ⟨P, st1⟩ := r
      simp only [hcP, Except.ok.injEq, Prod.mk.injEq] at hcwc
      obtain ⟨rfl, rfl⟩ := hcwc
      rw [c_new] at hcP
      cases hcc : compileCoclauses cs st with
      | error e => simp [hcc] at hcP
      | ok rc =>
        obtain ⟨cs', st2⟩ := rc
        simp only [hcc, Except.ok.injEq, Prod.mk.injEq] at hcP
        obtain ⟨rfl, rfl⟩ := hcP
        -- the type is a codata type
        have hkk : kkind k = true := by
          cases hT with
          | eval Γ τ he' ht hk =>
            have hk' := KTM.kind X.progM hk
            simp only [TypedM] at ht
            obtain ⟨_, _, d, hd, _⟩ := ht
            rw [← hk', isCodataTy_of_codataDecl hd]
        have hcd : Core.isCodata q.codataTypes (compileTy t0) = true := by
          obtain ⟨τ2, h1, h2⟩ := X.kind hT
          simp only [getType, Option.some.injEq] at h1
          subst h1
          rw [h2, hkk]
        have hck : Core.isCodata q.codataTypes (coreGetType c) = true := by rw [← hr.kk]; exact hkk
        have hstep : Fun.step p (.eval (.new cs (some t0)) env k) = .next (.ret (.obj cs env) k) none :=
          rfl
        have f1 : FSteps p (.eval (.new cs (some t0)) env k) (.ret (.obj cs env) k) [] 1 := .one hstep
        obtain ⟨i, S1, ρ', pv, d, Vs, hcs, ho, hm1, hext, hpv, hs, hk⟩ :=
          force_cr X hr hck (cty := compileTy t0) (P := .xcase .prd (compileTy t0) cs') (ρ := ρ)
            (out := out) (m := n) hcd trivial (Nat.le_refl n)
            (hag.mono fun y hy => mem_tfv_cut.2 (.inr hy)) (prdOK_xcase _ _ _ _ _)
        simp only [Core.prdVal, Except.ok.injEq] at hpv
        subst hpv
        have hbdP : BoundOn (tfvClauses cs' []) ρ0 := hbd.mono fun y hy =>
          mem_tfv_cut.2 (.inl (mem_tfv_xcase.2 hy))
        have hagP : AgreeOn (tfvClauses cs' []) ρ0 ρ := hag.mono fun y hy =>
          mem_tfv_cut.2 (.inl (mem_tfv_xcase.2 hy))
        obtain ⟨ρ0', he2, hbd2, hag2⟩ := ideal_sigExt he hbdP hagP hext htn.fv_ne_sig
        have hv : VRel (GP p) p q n (.obj cs env) (.cocase ρ' cs') :=
          .obj (goodClauses_find p cs hg.1)
            ⟨st, _, hcc, hst, ⟨by simpa [fv] using htn.fv, by simpa [binderNames] using htn.bd,
              htn.nosig⟩⟩
            (by simpa [fv] using he2) hbd2 hag2
        have hT' : STM p (.ret (.obj cs env) k) := stepM_preserves X.progM hT hstep
        exact Chunk.prefix f1 hcs ho (fun _ => Nat.le_refl 1) (fun h => .inr h)
          (ret_cd X hk (hv.mono hm1) (Nat.le_refl _) hs hT').weaken

end Scc.Fun2Core.Sem
