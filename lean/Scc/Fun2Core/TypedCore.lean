/-
  Scc.Fun2Core.TypedCore — proof file (C12, link fun2core): facts about the executable Core type checker
  `Scc.Core.Term.check` / `Stmt.check` (Scc/Core/Typing.lean) that the typing-preservation proof of the
  translation Fun → Core needs:
    * inversion / introduction lemmas per constructor (`check_var_iff`, `check_mu_iff`, …);
    * `check_agree`   : a checked term looks up each of its typed free variables (`typed_free_vars`,
                        model `tfvTerm`) in the context, and finds exactly that binding;
    * `check_congr`   : checking depends on the context only through the typed free variables
                        (weakening, strengthening, exchange in one statement);
    * `share_check`   : the consumer returned by `share` (compile.rs) checks at the same type, and the
                        definition it lifts checks in its own context (= its typed free variables), provided
                        the program's definition table maps the generated label to the lifted definition;
    * `share_ids`, `share_strict` : `share` keeps "all identifiers satisfy Q" and `Term.strict`
                        (Scc/Core/TypedStrict.lean: cut / μ types declared, clauses in declaration order).
-/
import Scc.Core.Typing
import Scc.Core.TypedStrict
import Scc.Fun2Core.SemTfv
import Scc.Fun2Core.Fresh

namespace Scc.Fun2Core.Typed
open Scc Scc.Core Scc.Fun2Core Scc.Fun2Core.Sem

/-! ## lookups -/

theorem lookupBinding_var : ∀ {Γ : Ctx} {v : Ident} {b : Binding}, lookupBinding Γ v = some b → b.var = v
  | [], _, _, h => by simp [lookupBinding] at h
  | a :: r, v, b, h => by
    simp only [lookupBinding] at h
    split at h
    · cases h; assumption
    · exact lookupBinding_var h

theorem lookupBinding_mem : ∀ {Γ : Ctx} {v : Ident} {b : Binding}, lookupBinding Γ v = some b → b ∈ Γ
  | [], _, _, h => by simp [lookupBinding] at h
  | a :: r, v, b, h => by
    simp only [lookupBinding] at h
    split at h
    · cases h; simp
    · exact List.mem_cons_of_mem _ (lookupBinding_mem h)

theorem lookupBinding_none : ∀ {Γ : Ctx} {v : Ident}, lookupBinding Γ v = none → ∀ b ∈ Γ, b.var ≠ v
  | [], _, _, b, hb => by simp at hb
  | a :: r, v, h, b, hb => by
    simp only [lookupBinding] at h
    split at h
    · cases h
    · rename_i hne
      rcases List.mem_cons.1 hb with rfl | hb
      · exact hne
      · exact lookupBinding_none h b hb

theorem lookupBinding_none_of : ∀ {Γ : Ctx} {v : Ident}, (∀ b ∈ Γ, b.var ≠ v) → lookupBinding Γ v = none
  | [], _, _ => rfl
  | a :: r, v, h => by
    simp only [lookupBinding]
    rw [if_neg (h a (by simp))]
    exact lookupBinding_none_of (fun b hb => h b (by simp [hb]))

theorem lookupBinding_append (Γ Δ : Ctx) (v : Ident) :
    lookupBinding (Γ ++ Δ) v = (match lookupBinding Γ v with
      | some b => some b
      | none => lookupBinding Δ v) := by
  induction Γ with
  | nil => simp [lookupBinding]
  | cons a r ih =>
    simp only [List.cons_append, lookupBinding]
    split
    · rfl
    · exact ih

theorem lookupBinding_cons_ne {a : Binding} {Γ : Ctx} {v : Ident} (h : a.var ≠ v) :
    lookupBinding (a :: Γ) v = lookupBinding Γ v := by
  simp [lookupBinding, h]

theorem lookupBinding_cons_self (a : Binding) (Γ : Ctx) : lookupBinding (a :: Γ) a.var = some a := by
  simp [lookupBinding]

/-- every binding of `s` is what the context gives for its name -/
def Agree (Γ : Ctx) (s : List Binding) : Prop := ∀ b ∈ s, lookupBinding Γ b.var = some b

/-- in a list whose elements are all determined by their names, `lookupBinding` finds each element -/
theorem agree_self {l : List Binding} {Γ : Ctx} (h : Agree Γ l) : Agree l l := by
  intro b hb
  cases hl : lookupBinding l b.var with
  | none => exact absurd rfl (lookupBinding_none hl b hb)
  | some b' =>
    have h1 := h b hb
    have h2 := h b' (lookupBinding_mem hl)
    rw [lookupBinding_var hl] at h2
    rw [h1] at h2
    exact h2.symm ▸ rfl

/-! ## inversion lemmas -/

theorem PC.beq_iff {a b : PC} : (a == b) = true ↔ a = b := by
  cases a <;> cases b <;> decide

theorem Ident.beq_iff {a b : Ident} : (a == b) = true ↔ a = b := by
  cases a; cases b
  simp [BEq.beq, instBEqIdent.beq]

theorem Ty.beq_iff {a b : Ty} : (a == b) = true ↔ a = b := by
  cases a <;> cases b <;> simp [BEq.beq, instBEqTy.beq]
  exact Ident.beq_iff

theorem check_var_iff {P : Prog} {Γ : Ctx} {pc pc' : PC} {ty ty' : Ty} {v : Ident} :
    (Term.var pc' v ty').check P Γ pc ty = true ↔
      pc' = pc ∧ ty' = ty ∧ lookupBinding Γ v = some ⟨v, pc, ty⟩ := by
  simp only [Term.check, Bool.and_eq_true, PC.beq_iff, Ty.beq_iff]
  constructor
  · rintro ⟨⟨h1, h2⟩, h3⟩
    refine ⟨h1, h2, ?_⟩
    cases hl : lookupBinding Γ v with
    | none => simp [hl] at h3
    | some b =>
      simp only [hl, Bool.and_eq_true, PC.beq_iff, Ty.beq_iff] at h3
      have hv := lookupBinding_var hl
      obtain ⟨bv, bc, bt⟩ := b
      simp only at h3 hv
      rw [hv, h3.1, h3.2]
  · rintro ⟨h1, h2, h3⟩
    refine ⟨⟨h1, h2⟩, ?_⟩
    simp [h3, PC.beq_iff, Ty.beq_iff]

theorem check_mu_iff {P : Prog} {Γ : Ctx} {pc pc' : PC} {ty ty' : Ty} {v : Ident} {s : Stmt} :
    (Term.mu pc' v ty' s).check P Γ pc ty = true ↔
      pc' = pc ∧ ty' = ty ∧ s.check P (⟨v, pc.flip, ty⟩ :: Γ) = true := by
  simp only [Term.check, Bool.and_eq_true, PC.beq_iff, Ty.beq_iff, and_assoc]

theorem check_xtor_iff {P : Prog} {Γ : Ctx} {pc pc' : PC} {ty ty' : Ty} {name : Ident} {as : Args} :
    (Term.xtor pc' name as ty').check P Γ pc ty = true ↔
      pc' = pc ∧ ty' = ty ∧ ∃ T d sig, ty = .decl T ∧
        findDecl (if pc == .prd then P.dataTypes else P.codataTypes) T = some d ∧
        findSig d.xtors name = some sig ∧ as.check P Γ sig.args = true := by
  constructor
  · intro h
    simp only [Term.check, Bool.and_eq_true] at h
    obtain ⟨⟨h1, h2⟩, h3⟩ := h
    refine ⟨PC.beq_iff.1 h1, Ty.beq_iff.1 h2, ?_⟩
    cases ty with
    | i64 => simp at h3
    | decl T =>
      simp only at h3
      split at h3
      · simp at h3
      · rename_i d hd
        split at h3
        · simp at h3
        · rename_i sig hs
          exact ⟨T, d, sig, rfl, hd, hs, h3⟩
  · rintro ⟨h1, h2, T, d, sig, rfl, hd, hs, h⟩
    simp only [Term.check, Bool.and_eq_true]
    refine ⟨⟨PC.beq_iff.2 h1, Ty.beq_iff.2 h2⟩, ?_⟩
    simp only [hd, hs, h]

theorem check_xcase_iff {P : Prog} {Γ : Ctx} {pc pc' : PC} {ty ty' : Ty} {cl : Clauses} :
    (Term.xcase pc' ty' cl).check P Γ pc ty = true ↔
      pc' = pc ∧ ty' = ty ∧ ∃ T d, ty = .decl T ∧
        findDecl (if pc == .prd then P.codataTypes else P.dataTypes) T = some d ∧
        cl.check P Γ d.xtors = true ∧ cl.covers d.xtors = true := by
  constructor
  · intro h
    simp only [Term.check, Bool.and_eq_true] at h
    obtain ⟨⟨h1, h2⟩, h3⟩ := h
    refine ⟨PC.beq_iff.1 h1, Ty.beq_iff.1 h2, ?_⟩
    cases ty with
    | i64 => simp at h3
    | decl T =>
      simp only at h3
      split at h3
      · simp at h3
      · rename_i d hd
        simp only [Bool.and_eq_true] at h3
        exact ⟨T, d, rfl, hd, h3.1, h3.2⟩
  · rintro ⟨h1, h2, T, d, rfl, hd, h3, h4⟩
    simp only [Term.check, Bool.and_eq_true]
    refine ⟨⟨PC.beq_iff.2 h1, Ty.beq_iff.2 h2⟩, ?_⟩
    simp only [hd, h3, h4, Bool.and_self]

theorem check_call_iff {P : Prog} {Γ : Ctx} {f : Ident} {as : Args} {ty : Ty} :
    (Stmt.call f as ty).check P Γ = true ↔
      ∃ d, P.defs.find? (fun d => d.name = f) = some d ∧ as.check P Γ d.ctx = true := by
  simp only [Stmt.check]
  cases hf : P.defs.find? (fun d => d.name = f) with
  | none => simp
  | some d => simp

/-! ## ordered-set facts not in FreeVars.lean -/

theorem bsetRemove_sublist (b : Binding) : ∀ l : List Binding, (bsetRemove b l).Sublist l
  | [] => by simp [bsetRemove]
  | x :: xs => by
    unfold bsetRemove
    split
    · exact List.sublist_cons_self _ _
    · exact (bsetRemove_sublist b xs).cons_cons _

theorem bsetRemove_sorted {b : Binding} {l : List Binding} (h : BSorted l) : BSorted (bsetRemove b l) :=
  List.Pairwise.sublist (bsetRemove_sublist b l) h

theorem not_mem_of_mem_foldl_remove {y : Binding} : ∀ (ctx : List Binding) {l : List Binding},
    BSorted l → y ∈ ctx.foldl (fun acc b => bsetRemove b acc) l → y ∉ ctx
  | [], _, _, _ => by simp
  | b :: bs, l, hs, h => by
    simp only [List.foldl_cons] at h
    have h1 := not_mem_of_mem_foldl_remove bs (bsetRemove_sorted hs) h
    have h2 := ne_of_mem_bsetRemove hs (mem_foldl_bsetRemove bs h)
    simp only [List.mem_cons, not_or]
    exact ⟨h2, h1⟩

theorem mem_foldl_remove_of_not_mem {y : Binding} : ∀ (ctx : List Binding) {l : List Binding},
    y ∈ l → y ∉ ctx → y ∈ ctx.foldl (fun acc b => bsetRemove b acc) l
  | [], _, h, _ => h
  | b :: bs, l, h, hn => by
    simp only [List.mem_cons, not_or] at hn
    simp only [List.foldl_cons]
    exact mem_foldl_remove_of_not_mem bs (mem_bsetRemove_of_ne hn.1 h) hn.2

theorem tfvStmt_sorted (s : Stmt) : BSorted (tfvStmt s []) := (tfvStmt_spec s []).1 List.Pairwise.nil

theorem mem_tfv_clauses_cons {x : Ident} {ctx : Ctx} {b : Stmt} {r : Clauses} {y : Binding} :
    y ∈ tfvClauses (.cons x ctx b r) [] ↔
      (y ∈ tfvStmt b [] ∧ y ∉ ctx) ∨ y ∈ tfvClauses r [] := by
  simp only [tfvClauses]
  rw [mem_tfvClauses_iff]
  constructor
  · rintro (h | h)
    · rcases mem_bsetExtend _ h with h | h
      · simp at h
      · exact .inl ⟨mem_foldl_bsetRemove _ h, not_mem_of_mem_foldl_remove _ (tfvStmt_sorted b) h⟩
    · exact .inr h
  · rintro (⟨h1, h2⟩ | h)
    · exact .inl (mem_bsetExtend_of_mem _ (.inr (mem_foldl_remove_of_not_mem _ h1 h2)))
    · exact .inr h

theorem mem_tfv_mu_iff {pc : PC} {v : Ident} {ty : Ty} {s : Stmt} {y : Binding} :
    y ∈ tfvTerm (.mu pc v ty s) [] ↔ y ∈ tfvStmt s [] ∧ y ≠ ⟨v, pc.flip, ty⟩ := by
  simp only [tfvTerm]
  constructor
  · intro h
    rcases mem_bsetExtend _ h with h | h
    · simp at h
    · exact ⟨mem_bsetRemove h, ne_of_mem_bsetRemove (tfvStmt_sorted s) h⟩
  · rintro ⟨h1, h2⟩
    exact mem_bsetExtend_of_mem _ (.inr (mem_bsetRemove_of_ne h2 h1))

/-! ## a checked term finds its typed free variables in the context -/

mutual
  theorem term_agree {P : Prog} : ∀ (t : Term) (Γ : Ctx) (pc : PC) (ty : Ty),
      t.check P Γ pc ty = true → Agree Γ (tfvTerm t [])
    | .var pc' v ty', Γ, pc, ty, h => by
      obtain ⟨rfl, rfl, hl⟩ := check_var_iff.1 h
      intro b hb
      rw [mem_tfv_var] at hb
      subst hb
      exact hl
    | .lit _, _, _, _, _ => by intro b hb; simp [tfvTerm] at hb
    | .op a _ b, Γ, pc, ty, h => by
      simp only [Term.check, Bool.and_eq_true] at h
      intro y hy
      rcases mem_tfv_op.1 hy with hy | hy
      · exact term_agree a Γ .prd .i64 h.1.2 y hy
      · exact term_agree b Γ .prd .i64 h.2 y hy
    | .mu pc' v ty' s, Γ, pc, ty, h => by
      obtain ⟨rfl, rfl, hs⟩ := check_mu_iff.1 h
      have ih := stmt_agree s _ hs
      intro y hy
      obtain ⟨h1, h2⟩ := mem_tfv_mu_iff.1 hy
      have := ih y h1
      by_cases hv : y.var = v
      · rw [hv] at this
        simp only [lookupBinding, if_true, Option.some.injEq] at this
        exact absurd this.symm h2
      · rwa [lookupBinding_cons_ne (fun e => hv e.symm)] at this
    | .xtor pc' name as ty', Γ, pc, ty, h => by
      obtain ⟨_, _, T, d, sig, _, _, _, ha⟩ := check_xtor_iff.1 h
      intro y hy
      exact args_agree as Γ sig.args ha y (mem_tfv_xtor.1 hy)
    | .xcase pc' ty' cl, Γ, pc, ty, h => by
      obtain ⟨_, _, T, d, _, _, hc, _⟩ := check_xcase_iff.1 h
      intro y hy
      exact clauses_agree cl Γ d.xtors hc y (mem_tfv_xcase.1 hy)
  theorem args_agree {P : Prog} : ∀ (as : Args) (Γ : Ctx) (ctx : Ctx),
      as.check P Γ ctx = true → Agree Γ (tfvArgs as [])
    | .nil, _, _, _ => by intro b hb; simp [tfvArgs] at hb
    | .cons pc t r, Γ, ctx, h => by
      cases ctx with
      | nil => simp [Args.check] at h
      | cons b bs =>
        simp only [Args.check, Bool.and_eq_true] at h
        intro y hy
        rcases mem_tfv_args_cons.1 hy with hy | hy
        · exact term_agree t Γ pc b.ty h.1.2 y hy
        · exact args_agree r Γ bs h.2 y hy
  theorem clauses_agree {P : Prog} : ∀ (cl : Clauses) (Γ : Ctx) (sigs : List XtorSig),
      cl.check P Γ sigs = true → Agree Γ (tfvClauses cl [])
    | .nil, _, _, _ => by intro b hb; simp [tfvClauses] at hb
    | .cons x ctx b r, Γ, sigs, h => by
      simp only [Clauses.check, Bool.and_eq_true] at h
      intro y hy
      rcases mem_tfv_clauses_cons.1 hy with ⟨h1, h2⟩ | hy
      · have := stmt_agree b _ h.1.2 y h1
        rw [lookupBinding_append] at this
        cases hl : lookupBinding ctx y.var with
        | none => simp only [hl] at this; exact this
        | some b' =>
          simp only [hl, Option.some.injEq] at this
          subst this
          exact absurd (lookupBinding_mem hl) h2
      · exact clauses_agree r Γ sigs h.2 y hy
  theorem stmt_agree {P : Prog} : ∀ (s : Stmt) (Γ : Ctx), s.check P Γ = true → Agree Γ (tfvStmt s [])
    | .cut ty p c, Γ, h => by
      simp only [Stmt.check, Bool.and_eq_true] at h
      intro y hy
      rcases mem_tfv_cut.1 hy with hy | hy
      · exact term_agree p Γ .prd ty h.1 y hy
      · exact term_agree c Γ .cns ty h.2 y hy
    | .ifc _ a b t e, Γ, h => by
      simp only [Stmt.check, Bool.and_eq_true] at h
      intro y hy
      rcases mem_tfv_ifc.1 hy with hy | hy | hy | hy
      · exact term_agree a Γ .prd .i64 h.1.1.1 y hy
      · exact term_agree b Γ .prd .i64 h.1.1.2 y hy
      · exact stmt_agree t Γ h.1.2 y hy
      · exact stmt_agree e Γ h.2 y hy
    | .ifz _ a t e, Γ, h => by
      simp only [Stmt.check, Bool.and_eq_true] at h
      intro y hy
      rcases mem_tfv_ifz.1 hy with hy | hy | hy
      · exact term_agree a Γ .prd .i64 h.1.1 y hy
      · exact stmt_agree t Γ h.1.2 y hy
      · exact stmt_agree e Γ h.2 y hy
    | .print _ a n, Γ, h => by
      simp only [Stmt.check, Bool.and_eq_true] at h
      intro y hy
      rcases mem_tfv_print.1 hy with hy | hy
      · exact term_agree a Γ .prd .i64 h.1 y hy
      · exact stmt_agree n Γ h.2 y hy
    | .call f as _, Γ, h => by
      obtain ⟨d, _, ha⟩ := check_call_iff.1 h
      intro y hy
      exact args_agree as Γ d.ctx ha y (mem_tfv_call.1 hy)
    | .exit a _, Γ, h => by
      simp only [Stmt.check] at h
      intro y hy
      exact term_agree a Γ .prd .i64 h y (mem_tfv_exit.1 hy)
end

/-! ## checking depends on the context only through the typed free variables -/

mutual
  theorem term_congr {P : Prog} : ∀ (t : Term) (Γ Γ' : Ctx) (pc : PC) (ty : Ty),
      t.check P Γ pc ty = true → Agree Γ' (tfvTerm t []) → t.check P Γ' pc ty = true
    | .var pc' v ty', Γ, Γ', pc, ty, h, ha => by
      obtain ⟨rfl, rfl, _⟩ := check_var_iff.1 h
      exact check_var_iff.2 ⟨rfl, rfl, ha _ (mem_tfv_var.2 rfl)⟩
    | .lit _, _, _, _, _, h, _ => by simpa [Term.check] using h
    | .op a _ b, Γ, Γ', pc, ty, h, ha => by
      simp only [Term.check, Bool.and_eq_true] at h ⊢
      exact ⟨⟨h.1.1, term_congr a Γ Γ' .prd .i64 h.1.2 (fun y hy => ha y (mem_tfv_op.2 (.inl hy)))⟩,
        term_congr b Γ Γ' .prd .i64 h.2 (fun y hy => ha y (mem_tfv_op.2 (.inr hy)))⟩
    | .mu pc' v ty' s, Γ, Γ', pc, ty, h, ha => by
      obtain ⟨rfl, rfl, hs⟩ := check_mu_iff.1 h
      refine check_mu_iff.2 ⟨rfl, rfl, stmt_congr s _ _ hs ?_⟩
      intro y hy
      by_cases hv : y.var = v
      · have := stmt_agree s _ hs y hy
        rw [hv] at this ⊢
        simpa [lookupBinding] using this
      · rw [lookupBinding_cons_ne (fun e => hv e.symm)]
        refine ha y (mem_tfv_mu_iff.2 ⟨hy, ?_⟩)
        intro e
        exact hv (by rw [e])
    | .xtor pc' name as ty', Γ, Γ', pc, ty, h, ha => by
      obtain ⟨e1, e2, T, d, sig, e3, hd, hs, hc⟩ := check_xtor_iff.1 h
      exact check_xtor_iff.2 ⟨e1, e2, T, d, sig, e3, hd, hs,
        args_congr as Γ Γ' sig.args hc (fun y hy => ha y (mem_tfv_xtor.2 hy))⟩
    | .xcase pc' ty' cl, Γ, Γ', pc, ty, h, ha => by
      obtain ⟨e1, e2, T, d, e3, hd, hc, hv⟩ := check_xcase_iff.1 h
      exact check_xcase_iff.2 ⟨e1, e2, T, d, e3, hd,
        clauses_congr cl Γ Γ' d.xtors hc (fun y hy => ha y (mem_tfv_xcase.2 hy)), hv⟩
  theorem args_congr {P : Prog} : ∀ (as : Args) (Γ Γ' : Ctx) (ctx : Ctx),
      as.check P Γ ctx = true → Agree Γ' (tfvArgs as []) → as.check P Γ' ctx = true
    | .nil, _, _, ctx, h, _ => by
      cases ctx with
      | nil => simp [Args.check]
      | cons b bs => simp [Args.check] at h
    | .cons pc t r, Γ, Γ', ctx, h, ha => by
      cases ctx with
      | nil => simp [Args.check] at h
      | cons b bs =>
        simp only [Args.check, Bool.and_eq_true] at h ⊢
        exact ⟨⟨h.1.1, term_congr t Γ Γ' pc b.ty h.1.2
          (fun y hy => ha y (mem_tfv_args_cons.2 (.inl hy)))⟩,
          args_congr r Γ Γ' bs h.2 (fun y hy => ha y (mem_tfv_args_cons.2 (.inr hy)))⟩
  theorem clauses_congr {P : Prog} : ∀ (cl : Clauses) (Γ Γ' : Ctx) (sigs : List XtorSig),
      cl.check P Γ sigs = true → Agree Γ' (tfvClauses cl []) → cl.check P Γ' sigs = true
    | .nil, _, _, _, _, _ => by simp [Clauses.check]
    | .cons x ctx b r, Γ, Γ', sigs, h, ha => by
      simp only [Clauses.check, Bool.and_eq_true] at h ⊢
      refine ⟨⟨h.1.1, stmt_congr b _ _ h.1.2 ?_⟩,
        clauses_congr r Γ Γ' sigs h.2 (fun y hy => ha y (mem_tfv_clauses_cons.2 (.inr hy)))⟩
      intro y hy
      have hag := stmt_agree b _ h.1.2 y hy
      rw [lookupBinding_append] at hag ⊢
      cases hl : lookupBinding ctx y.var with
      | some b' => simpa [hl] using hag
      | none =>
        simp only
        refine ha y (mem_tfv_clauses_cons.2 (.inl ⟨hy, fun hm => ?_⟩))
        exact lookupBinding_none hl y hm rfl
  theorem stmt_congr {P : Prog} : ∀ (s : Stmt) (Γ Γ' : Ctx),
      s.check P Γ = true → Agree Γ' (tfvStmt s []) → s.check P Γ' = true
    | .cut ty p c, Γ, Γ', h, ha => by
      simp only [Stmt.check, Bool.and_eq_true] at h ⊢
      exact ⟨term_congr p Γ Γ' .prd ty h.1 (fun y hy => ha y (mem_tfv_cut.2 (.inl hy))),
        term_congr c Γ Γ' .cns ty h.2 (fun y hy => ha y (mem_tfv_cut.2 (.inr hy)))⟩
    | .ifc _ a b t e, Γ, Γ', h, ha => by
      simp only [Stmt.check, Bool.and_eq_true] at h ⊢
      exact ⟨⟨⟨term_congr a Γ Γ' .prd .i64 h.1.1.1 (fun y hy => ha y (mem_tfv_ifc.2 (.inl hy))),
        term_congr b Γ Γ' .prd .i64 h.1.1.2 (fun y hy => ha y (mem_tfv_ifc.2 (.inr (.inl hy))))⟩,
        stmt_congr t Γ Γ' h.1.2 (fun y hy => ha y (mem_tfv_ifc.2 (.inr (.inr (.inl hy)))))⟩,
        stmt_congr e Γ Γ' h.2 (fun y hy => ha y (mem_tfv_ifc.2 (.inr (.inr (.inr hy)))))⟩
    | .ifz _ a t e, Γ, Γ', h, ha => by
      simp only [Stmt.check, Bool.and_eq_true] at h ⊢
      exact ⟨⟨term_congr a Γ Γ' .prd .i64 h.1.1 (fun y hy => ha y (mem_tfv_ifz.2 (.inl hy))),
        stmt_congr t Γ Γ' h.1.2 (fun y hy => ha y (mem_tfv_ifz.2 (.inr (.inl hy))))⟩,
        stmt_congr e Γ Γ' h.2 (fun y hy => ha y (mem_tfv_ifz.2 (.inr (.inr hy))))⟩
    | .print _ a n, Γ, Γ', h, ha => by
      simp only [Stmt.check, Bool.and_eq_true] at h ⊢
      exact ⟨term_congr a Γ Γ' .prd .i64 h.1 (fun y hy => ha y (mem_tfv_print.2 (.inl hy))),
        stmt_congr n Γ Γ' h.2 (fun y hy => ha y (mem_tfv_print.2 (.inr hy)))⟩
    | .call f as ty, Γ, Γ', h, ha => by
      obtain ⟨d, hd, hc⟩ := check_call_iff.1 h
      exact check_call_iff.2 ⟨d, hd, args_congr as Γ Γ' d.ctx hc (fun y hy => ha y (mem_tfv_call.2 hy))⟩
    | .exit a _, Γ, Γ', h, ha => by
      simp only [Stmt.check] at h ⊢
      exact term_congr a Γ Γ' .prd .i64 h (fun y hy => ha y (mem_tfv_exit.2 hy))
end

/-- weakening by a binding whose name is not the name of a typed free variable -/
theorem term_weaken_cons {P : Prog} {t : Term} {Γ : Ctx} {pc : PC} {ty : Ty} (a : Binding)
    (h : t.check P Γ pc ty = true) (hn : ∀ b ∈ tfvTerm t [], b.var ≠ a.var) :
    t.check P (a :: Γ) pc ty = true := by
  refine term_congr t Γ _ pc ty h (fun b hb => ?_)
  rw [lookupBinding_cons_ne (fun e => hn b hb e.symm)]
  exact term_agree t Γ pc ty h b hb

/-- weakening by a block of bindings none of whose names is the name of a typed free variable -/
theorem term_weaken_append {P : Prog} {t : Term} {Γ : Ctx} {pc : PC} {ty : Ty} (ctx : Ctx)
    (h : t.check P Γ pc ty = true) (hn : ∀ b ∈ tfvTerm t [], ∀ a ∈ ctx, a.var ≠ b.var) :
    t.check P (ctx ++ Γ) pc ty = true := by
  refine term_congr t Γ _ pc ty h (fun b hb => ?_)
  rw [lookupBinding_append, lookupBinding_none_of (hn b hb)]
  exact term_agree t Γ pc ty h b hb

/-! ## arguments -/

theorem args_snoc_check {P : Prog} {Γ : Ctx} : ∀ (as : Args) (ctx : Ctx) (pc : PC) (t : Term) (b : Binding),
    as.check P Γ ctx = true → pc = b.chi → t.check P Γ pc b.ty = true →
    (argsSnoc as pc t).check P Γ (ctx ++ [b]) = true
  | .nil, ctx, pc, t, b, h, hpc, ht => by
    cases ctx with
    | nil =>
      subst hpc
      simp [argsSnoc, Args.check, ht, PC.beq_iff]
    | cons c cs => simp [Args.check] at h
  | .cons p a r, ctx, pc, t, b, h, hpc, ht => by
    cases ctx with
    | nil => simp [Args.check] at h
    | cons c cs =>
      simp only [Args.check, Bool.and_eq_true] at h
      simp only [argsSnoc, List.cons_append, Args.check, Bool.and_eq_true]
      exact ⟨h.1, args_snoc_check r cs pc t b h.2 hpc ht⟩

theorem bindingsToArgs_check {P : Prog} {Γ : Ctx} : ∀ (bs : List Binding), Agree Γ bs →
    (bindingsToArgs bs).check P Γ bs = true
  | [], _ => by simp [bindingsToArgs, Args.check]
  | b :: bs, h => by
    simp only [bindingsToArgs, Args.check, Bool.and_eq_true]
    refine ⟨⟨PC.beq_iff.2 rfl, ?_⟩, bindingsToArgs_check bs (fun y hy => h y (by simp [hy]))⟩
    refine check_var_iff.2 ⟨rfl, rfl, ?_⟩
    have := h b (by simp)
    obtain ⟨bv, bc, bt⟩ := b
    exact this

/-! ## `share` -/

/-- a consumer has the type it is checked at -/
theorem coreGetType_of_check {P : Prog} {Γ : Ctx} {c : Term} {ty : Ty}
    (h : c.check P Γ .cns ty = true) : coreGetType c = ty := by
  cases c with
  | var pc v ty' => exact (check_var_iff.1 h).2.1
  | lit n =>
    simp only [Term.check, Bool.and_eq_true] at h
    exact absurd h.1 (by decide)
  | op a o b =>
    simp only [Term.check, Bool.and_eq_true] at h
    exact absurd h.1.1.1 (by decide)
  | mu pc v ty' s => exact (check_mu_iff.1 h).2.1
  | xtor pc n as ty' => exact (check_xtor_iff.1 h).2.1
  | xcase pc ty' cl => exact (check_xcase_iff.1 h).2.1

/-- **share preserves typing**: if the consumer `c` checks at `ty` in `Δ`, every name of `Δ` is in the
used-names set, and the program's definition table maps the label generated by `share` to the lifted
definition, then the returned consumer checks at `ty` in `Δ` and the lifted definition checks in its
own context. -/
theorem share_check {P : Prog} {Δ : Ctx} {c : Term} {ty : Ty} {st : CompileState}
    (hc : c.check P Δ .cns ty = true) (hΔ : ∀ b ∈ Δ, b.var.name ∈ st.usedVars)
    (hsig : ∀ D ∈ (share c st).2.liftedStatements, P.defs.find? (fun d => d.name = D.name) = some D) :
    (share c st).1.check P Δ .cns ty = true ∧
    ∃ D, (share c st).2.liftedStatements = D :: st.liftedStatements ∧ D.body.check P D.ctx = true := by
  unfold share at hsig ⊢
  split at hsig
  · -- μ~v.s : the body is lifted
    rename_i pc v ty' s
    obtain ⟨rfl, rfl, hs⟩ := check_mu_iff.1 hc
    simp only at hsig ⊢
    have hag := stmt_agree s _ hs
    have hbody : s.check P (tfvStmt s []) = true := stmt_congr s _ _ hs (agree_self hag)
    refine ⟨?_, _, rfl, hbody⟩
    refine check_mu_iff.2 ⟨rfl, rfl, check_call_iff.2 ⟨_, hsig _ (List.mem_cons_self ..), ?_⟩⟩
    exact bindingsToArgs_check _ hag
  · -- any other consumer: `⟨x | c⟩` with a fresh `x` is lifted
    rename_i hnm
    simp only at hsig ⊢
    have hty := coreGetType_of_check hc
    rw [hty] at hsig ⊢
    have hx : ∀ b ∈ Δ, b.var ≠ ⟨(freshVar st).1, 0⟩ := by
      intro b hb e
      have := hΔ b hb
      rw [e] at this
      exact freshName_not_mem _ _ this
    have hc' : c.check P (⟨⟨(freshVar st).1, 0⟩, .prd, ty⟩ :: Δ) .cns ty = true := by
      refine term_weaken_cons _ hc (fun b hb e => ?_)
      have hm := lookupBinding_mem (term_agree c Δ .cns ty hc b hb)
      exact hx b hm e
    have hcut : (Stmt.cut ty (.var .prd ⟨(freshVar st).1, 0⟩ ty) c).check P
        (⟨⟨(freshVar st).1, 0⟩, .prd, ty⟩ :: Δ) = true := by
      simp only [Stmt.check, Bool.and_eq_true]
      exact ⟨check_var_iff.2 ⟨rfl, rfl, by simp [lookupBinding]⟩, hc'⟩
    have hag := stmt_agree _ _ hcut
    have hbody := stmt_congr _ _ _ hcut (agree_self hag)
    refine ⟨?_, _, rfl, hbody⟩
    refine check_mu_iff.2 ⟨rfl, rfl, check_call_iff.2 ⟨_, hsig _ (List.mem_cons_self ..), ?_⟩⟩
    exact bindingsToArgs_check _ hag

/-! ## a predicate on all identifiers (binders and occurrences) of a statement -/

mutual
  /-- every identifier of the term — variable occurrences, `μ` binders, clause binders — satisfies `Q` -/
  def allIdsTerm (Q : Ident → Prop) : Term → Prop
    | .var _ v _ => Q v
    | .lit _ => True
    | .op a _ b => allIdsTerm Q a ∧ allIdsTerm Q b
    | .mu _ v _ s => Q v ∧ allIdsStmt Q s
    | .xtor _ _ as _ => allIdsArgs Q as
    | .xcase _ _ cl => allIdsClauses Q cl
  def allIdsArgs (Q : Ident → Prop) : Args → Prop
    | .nil => True
    | .cons _ t r => allIdsTerm Q t ∧ allIdsArgs Q r
  def allIdsClauses (Q : Ident → Prop) : Clauses → Prop
    | .nil => True
    | .cons _ ctx b r => (∀ x ∈ ctx, Q x.var) ∧ allIdsStmt Q b ∧ allIdsClauses Q r
  def allIdsStmt (Q : Ident → Prop) : Stmt → Prop
    | .cut _ p c => allIdsTerm Q p ∧ allIdsTerm Q c
    | .ifc _ a b t e => allIdsTerm Q a ∧ allIdsTerm Q b ∧ allIdsStmt Q t ∧ allIdsStmt Q e
    | .ifz _ a t e => allIdsTerm Q a ∧ allIdsStmt Q t ∧ allIdsStmt Q e
    | .print _ a n => allIdsTerm Q a ∧ allIdsStmt Q n
    | .call _ as _ => allIdsArgs Q as
    | .exit a _ => allIdsTerm Q a
end

mutual
  theorem occ_of_allIdsTerm {Q : Ident → Prop} : ∀ (t : Term), allIdsTerm Q t → ∀ b ∈ occTerm t, Q b.var
    | .var _ v _, h, b, hb => by
      simp only [occTerm, List.mem_singleton] at hb; subst hb; exact h
    | .lit _, _, b, hb => by simp [occTerm] at hb
    | .op x _ y, h, b, hb => by
      simp only [allIdsTerm] at h
      simp only [occTerm, List.mem_append] at hb
      rcases hb with hb | hb
      · exact occ_of_allIdsTerm x h.1 b hb
      · exact occ_of_allIdsTerm y h.2 b hb
    | .mu _ _ _ s, h, b, hb => by
      simp only [allIdsTerm] at h
      exact occ_of_allIdsStmt s h.2 b (by simpa [occTerm] using hb)
    | .xtor _ _ as _, h, b, hb => by
      simp only [allIdsTerm] at h
      exact occ_of_allIdsArgs as h b (by simpa [occTerm] using hb)
    | .xcase _ _ cl, h, b, hb => by
      simp only [allIdsTerm] at h
      exact occ_of_allIdsClauses cl h b (by simpa [occTerm] using hb)
  theorem occ_of_allIdsArgs {Q : Ident → Prop} : ∀ (as : Args), allIdsArgs Q as → ∀ b ∈ occArgs as, Q b.var
    | .nil, _, b, hb => by simp [occArgs] at hb
    | .cons _ t r, h, b, hb => by
      simp only [allIdsArgs] at h
      simp only [occArgs, List.mem_append] at hb
      rcases hb with hb | hb
      · exact occ_of_allIdsTerm t h.1 b hb
      · exact occ_of_allIdsArgs r h.2 b hb
  theorem occ_of_allIdsClauses {Q : Ident → Prop} : ∀ (cl : Clauses), allIdsClauses Q cl →
      ∀ b ∈ occClauses cl, Q b.var
    | .nil, _, b, hb => by simp [occClauses] at hb
    | .cons _ _ s r, h, b, hb => by
      simp only [allIdsClauses] at h
      simp only [occClauses, List.mem_append] at hb
      rcases hb with hb | hb
      · exact occ_of_allIdsStmt s h.2.1 b hb
      · exact occ_of_allIdsClauses r h.2.2 b hb
  theorem occ_of_allIdsStmt {Q : Ident → Prop} : ∀ (s : Stmt), allIdsStmt Q s → ∀ b ∈ occStmt s, Q b.var
    | .cut _ p c, h, b, hb => by
      simp only [allIdsStmt] at h
      simp only [occStmt, List.mem_append] at hb
      rcases hb with hb | hb
      · exact occ_of_allIdsTerm p h.1 b hb
      · exact occ_of_allIdsTerm c h.2 b hb
    | .ifc _ x y t e, h, b, hb => by
      simp only [allIdsStmt] at h
      simp only [occStmt, List.mem_append] at hb
      rcases hb with ((hb | hb) | hb) | hb
      · exact occ_of_allIdsTerm x h.1 b hb
      · exact occ_of_allIdsTerm y h.2.1 b hb
      · exact occ_of_allIdsStmt t h.2.2.1 b hb
      · exact occ_of_allIdsStmt e h.2.2.2 b hb
    | .ifz _ x t e, h, b, hb => by
      simp only [allIdsStmt] at h
      simp only [occStmt, List.mem_append] at hb
      rcases hb with (hb | hb) | hb
      · exact occ_of_allIdsTerm x h.1 b hb
      · exact occ_of_allIdsStmt t h.2.1 b hb
      · exact occ_of_allIdsStmt e h.2.2 b hb
    | .print _ x n, h, b, hb => by
      simp only [allIdsStmt] at h
      simp only [occStmt, List.mem_append] at hb
      rcases hb with hb | hb
      · exact occ_of_allIdsTerm x h.1 b hb
      · exact occ_of_allIdsStmt n h.2 b hb
    | .call _ as _, h, b, hb => by
      simp only [allIdsStmt] at h
      exact occ_of_allIdsArgs as h b (by simpa [occStmt] using hb)
    | .exit x _, h, b, hb => by
      simp only [allIdsStmt] at h
      exact occ_of_allIdsTerm x h b (by simpa [occStmt] using hb)
end

theorem tfv_of_allIdsStmt {Q : Ident → Prop} {s : Stmt} (h : allIdsStmt Q s) :
    ∀ b ∈ tfvStmt s [], Q b.var :=
  fun b hb => occ_of_allIdsStmt s h b ((tfvStmt_nil s).2 b hb)

theorem allIds_bindingsToArgs {Q : Ident → Prop} : ∀ (bs : List Binding), (∀ b ∈ bs, Q b.var) →
    allIdsArgs Q (bindingsToArgs bs)
  | [], _ => trivial
  | b :: bs, h => by
    simp only [bindingsToArgs, allIdsArgs, allIdsTerm]
    exact ⟨h b (by simp), allIds_bindingsToArgs bs (fun y hy => h y (by simp [hy]))⟩

theorem allIds_argsSnoc {Q : Ident → Prop} : ∀ (as : Args) (pc : PC) (t : Term),
    allIdsArgs Q as → allIdsTerm Q t → allIdsArgs Q (argsSnoc as pc t)
  | .nil, _, _, _, ht => by simp only [argsSnoc, allIdsArgs]; exact ⟨ht, trivial⟩
  | .cons p a r, pc, t, h, ht => by
    simp only [allIdsArgs] at h
    simp only [argsSnoc, allIdsArgs]
    exact ⟨h.1, allIds_argsSnoc r pc t h.2 ht⟩

/-- `share` keeps the identifier predicate: the returned consumer, the body of the lifted definition
and its parameters (= typed free variables of the body) -/
theorem share_ids {Q : Ident → Prop} {c : Term} {st : CompileState} (hc : allIdsTerm Q c)
    (hx : Q ⟨(freshVar st).1, 0⟩) :
    allIdsTerm Q (share c st).1 ∧
    ∀ D, (share c st).2.liftedStatements = D :: st.liftedStatements →
      allIdsStmt Q D.body ∧ ∀ b ∈ D.ctx, Q b.var := by
  unfold share
  split
  · rename_i pc v ty s
    simp only [allIdsTerm] at hc
    have htf := tfv_of_allIdsStmt hc.2
    refine ⟨?_, ?_⟩
    · simp only [allIdsTerm, allIdsStmt]
      exact ⟨hc.1, allIds_bindingsToArgs _ htf⟩
    · intro D hD
      injection hD with h1 _
      subst h1
      exact ⟨hc.2, htf⟩
  · have hb : allIdsStmt Q (.cut (coreGetType c) (.var .prd ⟨(freshVar st).1, 0⟩ (coreGetType c)) c) := by
      simp only [allIdsStmt, allIdsTerm]
      exact ⟨hx, hc⟩
    have htf := tfv_of_allIdsStmt hb
    refine ⟨?_, ?_⟩
    · simp only [allIdsTerm, allIdsStmt]
      exact ⟨hx, allIds_bindingsToArgs _ htf⟩
    · intro D hD
      injection hD with h1 _
      subst h1
      exact ⟨hb, htf⟩

/-! ## `strict` (Scc/Core/TypedStrict.lean) along `share` -/

theorem strict_bindingsToArgs (P : Prog) : ∀ (bs : List Binding), (bindingsToArgs bs).strict P = true
  | [] => by simp [bindingsToArgs, Args.strict]
  | b :: bs => by simp [bindingsToArgs, Args.strict, Term.strict, strict_bindingsToArgs P bs]

theorem strict_argsSnoc {P : Prog} : ∀ (as : Args) (pc : PC) (t : Term),
    as.strict P = true → t.strict P = true → (argsSnoc as pc t).strict P = true
  | .nil, _, _, _, ht => by simp [argsSnoc, Args.strict, ht]
  | .cons p a r, pc, t, h, ht => by
    simp only [Args.strict, Bool.and_eq_true] at h
    simp only [argsSnoc, Args.strict, Bool.and_eq_true]
    exact ⟨h.1, strict_argsSnoc r pc t h.2 ht⟩

theorem share_strict {P : Prog} {c : Term} {st : CompileState} (hc : c.strict P = true)
    (hty : tyDeclared P (coreGetType c) = true) :
    (share c st).1.strict P = true ∧
    ∀ D, (share c st).2.liftedStatements = D :: st.liftedStatements → D.body.strict P = true := by
  unfold share
  split
  · rename_i pc v ty s
    simp only [Term.strict, Bool.and_eq_true] at hc
    refine ⟨?_, ?_⟩
    · simp only [Term.strict, Stmt.strict, Bool.and_eq_true]
      exact ⟨hc.1, strict_bindingsToArgs P _⟩
    · intro D hD
      injection hD with h1 _
      subst h1
      exact hc.2
  · refine ⟨?_, ?_⟩
    · simp only [Term.strict, Stmt.strict, Bool.and_eq_true]
      exact ⟨hty, strict_bindingsToArgs P _⟩
    · intro D hD
      injection hD with h1 _
      subst h1
      simp only [Stmt.strict, Term.strict, Bool.and_eq_true, and_true]
      exact ⟨hty, hc⟩

end Scc.Fun2Core.Typed
