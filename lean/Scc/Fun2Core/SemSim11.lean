/-
  Scc.Fun2Core.SemSim11 — simulation of a call of a top-level definition.
-/
import Scc.Fun2Core.SemSim10

namespace Scc.Fun2Core.Sem
open Scc

variable {q : Core.Prog} {p : Fun.CheckedProgram}

theorem argsSnoc_eq : ∀ (as : Core.Args) (pc : Core.PC) (t : Core.Term),
    argsSnoc as pc t = appArgs as (.cons pc t .nil)
  | .nil, _, _ => rfl
  | .cons p a r, pc, t => by simp [argsSnoc, appArgs, argsSnoc_eq r pc t]

theorem mem_tfvArgs_app {y : Core.Binding} : ∀ (a b : Core.Args),
    y ∈ tfvArgs (appArgs a b) [] ↔ y ∈ tfvArgs a [] ∨ y ∈ tfvArgs b []
  | .nil, b => by simp [appArgs, tfvArgs]
  | .cons pc t r, b => by
    simp only [appArgs]
    rw [mem_tfv_args_cons, mem_tfv_args_cons, mem_tfvArgs_app r b, or_assoc]

theorem bind_snoc : ∀ (ctx : Core.Ctx) (Vs : List CVal) (ρ : CEnv) (b : Core.Binding) (V : CVal),
    ctx.length = Vs.length →
    Core.Env.bind ρ (ctx ++ [b]) (Vs ++ [V]) = Core.Env.bind ((b.var, V) :: ρ) ctx Vs
  | [], [], ρ, b, V, _ => by simp [Core.Env.bind]
  | [], _ :: _, _, _, _, h => by simp at h
  | _ :: _, [], _, _, _, h => by simp at h
  | c :: ctx, W :: Vs, ρ, b, V, h => by
    simp only [List.cons_append, Core.Env.bind]
    rw [bind_snoc ctx Vs ρ b V (by simpa using h)]

theorem argVals_length {ρ : CEnv} : ∀ (as : Core.Args) (Vs : List CVal),
    Core.argVals ρ as = .ok Vs → argsAllVar as = true → True
  | _, _, _, _ => trivial

theorem coreGetType_eq_ty (c : Core.Term) : coreGetType c = c.ty := by
  cases c <;> rfl

theorem step_call_fun (p : Fun.CheckedProgram) (f : String) (vs : List Fun.Value) (env : Fun.Env)
    (k : Fun.Stack) :
    Fun.step p (.args (.call f) vs .nil env k) =
      (match Fun.findDef p f with
        | none => .stuck (.unknownDef f)
        | some d =>
          match Fun.bindAll (d.ctx.map (·.var)) vs [] with
          | none => .stuck (.arity f)
          | some env' => .next (.eval d.body env' k) none) := rfl

set_option maxHeartbeats 400000 in
/-- `f(args)` -/
theorem eval_call (X : Ctx p q) {f : String} {as : Fun.Terms}
    {rty : Option Fun.Ty} {env : Fun.Env} {k : Fun.Stack} {c : Core.Term} {s : Core.Stmt}
    {ρ0 ρ : CEnv} {out : Out} {n : Nat} (hg : good p (.call f as rty) = true)
    (hc : Compiled q n (.call f as rty) c s)
    (he : EnvRel (GP p) q n (fv (.call f as rty)) env ρ0) (hr : CRel (GP p) q n k c ρ0)
    (hbd : BoundOn (tfvStmt s []) ρ0) (hag : AgreeOn (tfvStmt s []) ρ0 ρ) :
    Chunk p q (R p q) true true μ (.eval (.call f as rty) env k) ⟨s, ρ, out, n⟩ := by
  simp only [good, Bool.and_eq_true, bne_iff_ne, ne_eq] at hg
  obtain ⟨⟨hfm, hgps⟩, _⟩ := hg
  have hpf := goodPs_pureFOs p as hgps
  obtain ⟨st, st', hcwc, hst, htn, hcn⟩ := hc
  rw [cwc_call] at hcwc
  cases hcs : compileSubst as st with
  | error e => simp [hcs] at hcwc
  | ok ra =>
    obtain ⟨as', st1⟩ := ra
    cases rty with
    | none => simp [hcs] at hcwc
    | some τ =>
      simp only [hcs, Except.ok.injEq, Prod.mk.injEq] at hcwc
      obtain ⟨rfl, rfl⟩ := hcwc
      rw [argsSnoc_eq] at hag hbd ⊢
      have f0 : FSteps p (.eval (.call f as (some τ)) env k) (.args (.call f) [] as env k) [] 1 :=
        .one rfl
      cases hvs : pureArgs p as env with
      | none =>
        obtain ⟨j, s1, w, fj, h1, h2⟩ :=
          fun_pureArgs_none p as env (.call f) [] k (pureFOs_pure (goodClauses p) as hpf) hvs
        have := f0.trans fj
        simp only [List.append_nil] at this
        exact .inl ⟨_, s1, .stuck w, this, by rw [h1]; rfl, fun hf => absurd hf (bad_not_finished h2)⟩
      | some vs =>
        obtain ⟨j, fj⟩ := fun_pureArgs p as env vs (.call f) [] k (pureFOs_pure (goodClauses p) as hpf) hvs
        have f1 := f0.trans fj
        simp only [List.append_nil, List.nil_append] at f1
        have hstep := step_call_fun p f vs env k
        cases hfd : Fun.findDef p f with
        | none =>
          rw [hfd] at hstep
          exact .inl ⟨_, _, .stuck (.unknownDef f), f1, by rw [hstep]; rfl, fun h => h.elim⟩
        | some d =>
          rw [hfd] at hstep
          simp only at hstep
          cases hba : Fun.bindAll (d.ctx.map (·.var)) vs [] with
          | none =>
            rw [hba] at hstep
            exact .inl ⟨_, _, .stuck (.arity f), f1, by rw [hstep]; rfl, fun h => h.elim⟩
          | some env' =>
            rw [hba] at hstep
            -- the Core machine: arguments
            have hagas : AgreeOn (tfvArgs as' []) ρ0 ρ := hag.mono fun y hy =>
              mem_tfv_call.2 ((mem_tfvArgs_app _ _).2 (.inl hy))
            have hagc : AgreeOn (tfvTerm c []) ρ0 ρ := hag.mono fun y hy =>
              mem_tfv_call.2 ((mem_tfvArgs_app _ _).2 (.inr (mem_tfv_args_cons.2 (.inl hy))))
            have hbdas : BoundOn (tfvArgs as' []) ρ0 := hbd.mono fun y hy =>
              mem_tfv_call.2 ((mem_tfvArgs_app _ _).2 (.inl hy))
            obtain ⟨i1, ρ1, n1, as'', Vs, hc1, hn1, hext1, hall, hsb, hav, hvl⟩ :=
              core_args (G := GP p) (q := q) (p := p) (goodClauses p) (goodClauses_find p) as hpf
                (fun a => .call ⟨f, 0⟩ a (compileTy τ)) (argCtx_call _ _) (.cons .cns c .nil) env vs st
                as' st1 n ρ0 ρ n out .nil [] hcs hst
                ⟨by simpa [fv] using htn.fv, by simpa [binderNames] using htn.bd, htn.nosig⟩ hvs
                (he.sub fun y hy => by simpa [fv] using hy) hbdas hagas rfl trivial rfl
            simp only [appArgs, List.nil_append] at hc1 hsb hav
            -- the consumer
            obtain ⟨ρ01, hext0, hag1⟩ := hext1.agree (ρ0 := ρ0)
            have hr1 : CRel (GP p) q n1 k c ρ1 :=
              ((hr.mono hn1).sigExt hext0 (hcn.sig_lt (Nat.le_refl n))).agree (hag1 _ hagc)
            cases hr1 with
            | @mk _ _ _ cv hcv hk hi hbc htyc =>
              -- reach a call whose arguments are all variables
              have hreach : ∃ i2 ρ2 n2 pc z tz, CSteps q
                  ⟨.call ⟨f, 0⟩ (appArgs as'' (.cons .cns c .nil)) (compileTy τ), ρ1, out, n1⟩
                  ⟨.call ⟨f, 0⟩ (appArgs as'' (.cons .cns (.var pc z tz) .nil)) (compileTy τ), ρ2, out, n2⟩ i2 ∧
                  n1 ≤ n2 ∧ Core.argVals ρ2 (appArgs as'' (.cons .cns (.var pc z tz) .nil)) = .ok (Vs ++ [cv]) := by
                cases hcv' : c.isVar with
                | true =>
                  cases c with
                  | var pc z tz =>
                    simp only [Core.cnsVal] at hcv
                    exact ⟨0, ρ1, n1, pc, z, tz, .refl _, Nat.le_refl _, argVals_app_single as'' Vs hav hcv⟩
                  | _ => simp [Core.Term.isVar] at hcv'
                | false =>
                  have hsp : (Core.Stmt.call ⟨f, 0⟩ (appArgs as'' (.cons .cns c .nil)) (compileTy τ)).split =
                      some (.cns, c, fun h => .call ⟨f, 0⟩ (appArgs as'' (.cons .cns h .nil)) (compileTy τ)) :=
                    argCtx_call _ _ _ _ _ _ (by
                      rw [args_split_app _ _ hall, args_split_cons_nonvar hcv'])
                  have s1 := step_sigma (q := q)
                    (st := ⟨.call ⟨f, 0⟩ (appArgs as'' (.cons .cns c .nil)) (compileTy τ), ρ1, out, n1⟩) hsp
                  simp only [Core.sigmaCut] at s1
                  have s2 := step_cut_mu (q := q) (cty := c.ty) (ty := c.ty)
                    (by rw [← coreGetType_eq_ty]; exact htyc) (a := Core.sigmaName n1)
                    (s := .call ⟨f, 0⟩ (appArgs as'' (.cons .cns (.var .cns (Core.sigmaName n1) c.ty) .nil))
                      (compileTy τ)) (ρ := ρ1) (out := out) (n := n1 + 1) hi hcv .prd
                  refine ⟨2, (Core.sigmaName n1, cv) :: ρ1, n1 + 1, .cns, Core.sigmaName n1, c.ty,
                    (CSteps.one s1).trans (.one s2), Nat.le_succ _, ?_⟩
                  refine argVals_app_single as'' Vs ?_ (lookup_cons_self _ _ _)
                  rw [argVals_sigExt ((SigExt.refl n1 ρ1).cons (Nat.le_refl n1)) as'' hsb]
                  exact hav
              obtain ⟨i2, ρ2, n2, pc, z, tz, hc2, hn2, hav2⟩ := hreach
              -- the definition
              obtain ⟨D, a, τa, τ', hD, hname, hctx, hcomp, hτ', hgood, hanot, hnodup, hclosed⟩ :=
                X.defs f d hfd hfm
              have hlen : (compileContext d.ctx).length = Vs.length := by
                rw [compileContext_length, ← hvl.length]
                have := bindAll_length _ _ _ _ hba
                simpa using this
              obtain ⟨ρnew, hbind, henv⟩ := EnvRel.bindAll (G := GP p) (q := q) (n := n2)
                (xs := fv d.body) (env := []) (env' := env') (ρ0 := [(⟨a, 0⟩, cv)]) (ctx := d.ctx)
                (.of_get fun y hy => by
                  obtain ⟨h1, h2⟩ := List.mem_filter.1 hy
                  have := hclosed y h1
                  have h2' : y ∉ List.map (fun x => x.var) d.ctx := by simpa using h2
                  exact absurd this h2')
                (hvl.mono (Nat.le_trans hn1 hn2)) hnodup hba
              have hbind' : Core.Env.bind [] D.ctx (Vs ++ [cv]) = .ok ρnew := by
                rw [hctx, bind_snoc _ _ _ _ _ hlen]
                exact hbind
              have hall2 : argsAllVar (appArgs as'' (.cons .cns (.var pc z tz) .nil)) = true := by
                simp [argsAllVar_app, hall, argsAllVar, Core.Term.isVar]
              have hfind : q.defs.find? (fun d => d.name = ⟨f, 0⟩) = some D := by
                rw [← hname]; exact find_of_mem_nodup hD X.nodup
              have s3 := step_call_vars (q := q) (f := ⟨f, 0⟩) (ty := compileTy τ) (out := out) (n := n2)
                hall2 hfind hav2 hbind'
              have hanot' : ∀ bb ∈ compileContext d.ctx, bb.var ≠ (⟨a, 0⟩ : Core.Ident) := by
                intro bb hbb e
                simp only [compileContext, List.mem_map] at hbb
                obtain ⟨fb, hfb, rfl⟩ := hbb
                have : fb.var = a := by
                  have := congrArg Core.Ident.name e
                  simpa using this
                exact hanot (this ▸ List.mem_map.2 ⟨fb, hfb, rfl⟩)
              have hla : Core.Env.lookup ρnew ⟨a, 0⟩ = .ok cv := by
                rw [bind_lookup_not_mem hbind hanot']
                exact lookup_cons_self _ _ _
              refine .inr ⟨_, _, .eval d.body env' k, [], i1 + i2 + 1, _, f1, .inr ⟨none, hstep, rfl⟩,
                (fun _ => .inr (.inl (by intro h; cases h))), (fun _ => .inl (by omega)), (hc1.trans hc2).trans (.one s3), by simp, ?_⟩
              refine SRel.eval (c := .var .cns ⟨a, 0⟩ τ') (ρ0 := ρnew) hgood (hcomp.mono (Nat.zero_le _))
                henv ?_ ?_ (.refl _ _)
              · exact .mk (by simpa [Core.cnsVal] using hla) (hk.mono hn2) trivial
                  (fun b hb => by rw [mem_tfv_var] at hb; subst hb; exact ⟨_, hla⟩) hτ'
              · refine bind_bound hbind fun y hy hne => ?_
                obtain ⟨b', hb', e⟩ := X.closed D hD y hy
                rw [hctx] at hb'
                rcases List.mem_append.1 hb' with h | h
                · exact absurd e (hne b' h)
                · simp only [List.mem_singleton] at h
                  subst h
                  exact ⟨cv, by rw [← e]; exact lookup_cons_self _ _ _⟩

end Scc.Fun2Core.Sem
